import HioModel.Gen.TimerConsts
/-!
# Model of hio's timers and of the real-time branch of `Doist.do`

Faithful to `hio.base.tyming.Tymer`, `hio.help.timing.MonoTimer` and the real-time lines of
`hio.base.doing.Doist` (construction of `.timer`, `self.timer.start(duration=self.tock)`,
`while not self.timer.expired: time.sleep(max(0.0, self.timer.remaining))`, `self.timer.restart()`)
in the tree under test (with the three `fix:` commits of branch fix/timer).

Time values are a type parameter `τ` (the driver runs `Int`: the adapter uses integers scaled by 2^-10 s, on which
the double arithmetic of the code is exact).  Python exceptions are values.  The system clock is a parameter: an arbitrary
state machine `Clock σ` (readings may stall, jump backwards, overshoot a sleep, or run out).
-/
namespace Hio.Timer

inductive Exn | typeError | retroTimerError | valueError
deriving Repr, DecidableEq

/-! The time type `τ` is a parameter: the model only uses `+`, `-`, `<`, `≤` (decidable), `max` and `0`.
The driver runs it at `Int`; the theorems hold over every linearly ordered commutative ring (`Int`, `Rat`, …). -/
variable {τ : Type} [Add τ] [Sub τ] [LT τ] [LE τ] [DecidableLT τ] [DecidableLE τ] [Max τ] [Zero τ]

/-- `float(duration) if duration is not None else <old>` -/
def durOr (d : Option τ) (old : τ) : τ :=
  match d with
  | some d => d
  | none => old

/-! ## `Tymer` — virtual timer on a `Tymist`'s tyme -/

/-- the tymists a tymer can be wound to: their current tyme and tock -/
structure TWorld (τ : Type) where
  tyme : Nat → τ
  tock : Nat → τ

structure Tymer (τ : Type) where
  /-- index of the tymist whose `tymen()` closure is held in `._tymth`; `none` = not wound -/
  wound : Option Nat
  start : τ
  stop : τ
deriving Repr, DecidableEq

inductive TOp (τ : Type)
  | setTyme (i : Nat) (v : τ)      -- tymist_i.tyme = v
  | tick (i : Nat)                   -- tymist_i.tick()
  | start (dur : Option τ) (start : Option τ)
  | restart (dur : Option τ)
  | wind (i : Nat)
  | setTock (i : Nat) (v : τ)      -- tymist_i.tock = v
  | bad                            -- start/restart with an argument `float()` rejects: raises before anything is assigned
  | nop                            -- an operation on a sibling tymer
deriving Repr

namespace Tymer

/-- `.tyme` : `self._tymth() if self._tymth else None` -/
def now (w : TWorld τ) (t : Tymer τ) : Option τ :=
  match t.wound with
  | some i => some (w.tyme i)
  | none => none

def duration (t : Tymer τ) : τ := t.stop - t.start

/-- `self.tyme - self._start` (`None - float` raises `TypeError`) -/
def elapsed (w : TWorld τ) (t : Tymer τ) : Except Exn τ :=
  match t.now w with
  | some n => .ok (n - t.start)
  | none => .error .typeError

def remaining (w : TWorld τ) (t : Tymer τ) : Except Exn τ :=
  match t.now w with
  | some n => .ok (t.stop - n)
  | none => .error .typeError

def expired (w : TWorld τ) (t : Tymer τ) : Except Exn Bool :=
  match t.now w with
  | some n => .ok (decide (n ≥ t.stop))
  | none => .error .typeError

/-- `start(duration, start)`; returns the new tymer and the returned `._start` -/
def startOp (w : TWorld τ) (t : Tymer τ) (dur start : Option τ) : Except Exn (Tymer τ × τ) :=
  let d := durOr dur t.duration
  match start, t.now w with
  | some s, _ => .ok ({ t with start := s, stop := s + d }, s)
  | none, some n => .ok ({ t with start := n, stop := n + d }, n)
  | none, none => .error .typeError      -- `None + duration`

/-- `restart(duration)` = `start(duration, start=self._stop)` -/
def restartOp (w : TWorld τ) (t : Tymer τ) (dur : Option τ) : Except Exn (Tymer τ × τ) :=
  t.startOp w dur (some t.stop)

/-- `Tymer(tymth=…, duration=dur, start=start)`; `ddur` = the class default `Tymer.Duration` -/
def new (ddur : τ) (w : TWorld τ) (wound : Option Nat) (dur start : Option τ) : Tymer τ :=
  let d := durOr dur ddur
  let s := match start, wound with
    | some s, _ => s
    | none, some i => w.tyme i
    | none, none => 0
  { wound := wound, start := s, stop := s + d }

end Tymer

def TWorld.set (w : TWorld τ) (i : Nat) (v : τ) : TWorld τ :=
  { w with tyme := fun j => if j = i then v else w.tyme j }

def TWorld.setTock (w : TWorld τ) (i : Nat) (v : τ) : TWorld τ :=
  { w with tock := fun j => if j = i then v else w.tock j }

/-- one operation of the scenario; `Option Int` is the value returned by `start`/`restart` -/
def tstep (w : TWorld τ) (t : Tymer τ) : TOp τ → Except Exn (TWorld τ × Tymer τ × Option τ)
  | .setTyme i v => .ok (w.set i v, t, none)
  | .tick i => .ok (w.set i (w.tyme i + w.tock i), t, none)
  | .start d s => match t.startOp w d s with
    | .ok (t', r) => .ok (w, t', some r)
    | .error e => .error e
  | .restart d => match t.restartOp w d with
    | .ok (t', r) => .ok (w, t', some r)
    | .error e => .error e
  | .setTock i v => .ok (w.setTock i v, t, none)
  | .bad => .error .valueError
  | .nop => .ok (w, t, none)
  | .wind i =>     -- `wind(tymth)`: rebind, then `start()`
    match ({ t with wound := some i } : Tymer τ).startOp w none none with
    | .ok (t', _) => .ok (w, t', none)
    | .error e => .error e

/-- what the adapter reads after every operation -/
structure TSnap (τ : Type) where
  /-- the operation raised (and, in the repaired code, left the tymer as it was) -/
  raised : Bool
  ret : Option τ
  duration : τ
  elapsed : Except Exn τ
  remaining : Except Exn τ
  expired : Except Exn Bool

def tsnap (w : TWorld τ) (t : Tymer τ) (ret : Option τ) (raised : Bool := false) : TSnap τ :=
  { raised := raised, ret := ret, duration := t.duration, elapsed := t.elapsed w, remaining := t.remaining w, expired := t.expired w }

/-- snapshots after each operation; an operation that raises leaves world and tymer unchanged and the trace goes on -/
def trun (w : TWorld τ) (t : Tymer τ) : List (TOp τ) → List (TSnap τ)
  | [] => []
  | op :: ops => match tstep w t op with
    | .ok (w', t', r) => tsnap w' t' r :: trun w' t' ops
    | .error _ => tsnap w t none true :: trun w t ops

/-! ## `MonoTimer` — wall-clock timer with retrograde compensation -/

structure Mono (τ : Type) where
  start : τ
  stop : τ
  last : τ
  retro : Bool
deriving Repr, DecidableEq

namespace Mono

def duration (m : Mono τ) : τ := m.stop - m.start

/-- `.latest` on a clock reading `r`: returns `._last` and the updated timer -/
def latest (m : Mono τ) (r : τ) : Except Exn (τ × Mono τ) :=
  let delta := r - m.last
  if delta < 0 then
    if m.retro then
      .ok (m.last + delta, { m with start := m.start + delta, stop := m.stop + delta, last := m.last + delta })
    else .error .retroTimerError
  else .ok (m.last + delta, { m with last := m.last + delta })

/-- `.elapsed` = `self.latest - self._start` -/
def elapsed (m : Mono τ) (r : τ) : Except Exn (τ × Mono τ) :=
  match m.latest r with
  | .ok (l, m') => .ok (l - m'.start, m')
  | .error e => .error e

/-- `.remaining` (fixed code: `.latest` is evaluated before `._stop` is read) -/
def remaining (m : Mono τ) (r : τ) : Except Exn (τ × Mono τ) :=
  match m.latest r with
  | .ok (l, m') => .ok (m'.stop - l, m')
  | .error e => .error e

/-- `.expired` = `self.latest >= self._stop` -/
def expired (m : Mono τ) (r : τ) : Except Exn (Bool × Mono τ) :=
  match m.latest r with
  | .ok (l, m') => .ok (decide (l ≥ m'.stop), m')
  | .error e => .error e

/-- `start(duration, start=s)` with an explicit start: `._last` is not touched -/
def startAt (m : Mono τ) (dur : Option τ) (s : τ) : Mono τ :=
  { m with start := s, stop := s + durOr dur m.duration }

/-- `start(duration)` at the clock reading `r` (fixed code: `._last` is resynchronised to `r`) -/
def startNow (m : Mono τ) (dur : Option τ) (r : τ) : Mono τ :=
  ({ m with last := r } : Mono τ).startAt dur r

/-- `restart(duration)` = `start(duration, start=self._stop)` -/
def restart (m : Mono τ) (dur : Option τ) : Mono τ := m.startAt dur m.stop

end Mono

/-! ### the system clock as a parameter -/

/-- any clock: `read` = one call of `time.time()` (`none`: the script ran out, the run is cut here),
`sleep d` = one call of `time.sleep(d)` -/
structure Clock (τ σ : Type) where
  read : σ → Option (τ × σ)
  sleep : τ → σ → σ

/-- the scripted clock of the harness: reading m returns `c + incs[0] + … + incs[m]`; the j-th sleep advances by `d + ovs[j]` -/
structure Script where
  c : Int
  incs : List Int
  ovs : List Int
deriving Repr

def scriptClock : Clock Int Script where
  read s := match s.incs with
    | [] => none
    | d :: ds => some (s.c + d, { s with c := s.c + d, incs := ds })
  sleep d s := match s.ovs with
    | [] => { s with c := s.c + d }
    | o :: os => { s with c := s.c + d + o, ovs := os }

/-! ### MonoTimer scenario (C08) -/

inductive MOp (τ : Type)
  | elapsed | remaining | expired | latest | duration
  | start (dur : Option τ) (start : Option τ)
  | restart (dur : Option τ)
  | setRetro (b : Bool)        -- `timer.retro = b`
  | bad                        -- start/restart with an argument `float()` rejects: raises, reads no clock, changes nothing
  | other (reads : Bool)       -- an operation on a sibling timer sharing the clock (may consume one reading)
deriving Repr

inductive MVal (τ : Type)
  | int (v : τ) | bool (b : Bool) | raised (e : Exn) | unit
deriving Repr, DecidableEq

/-- `MonoTimer(duration=dur, start=start, retro=retro)`: with `start=None` the constructor reads the clock twice
(once for the provisional `._start`/`._last`, once in `start()`).  Returns the readings made, and the timer unless
the clock script ran out. -/
def Mono.new {σ} (clk : Clock τ σ) (c : σ) (dur : τ) (start : Option τ) (retro : Bool) : List τ × Option (Mono τ × σ) :=
  match start with
  | some s => ([], some (({ start := s, stop := s + dur, last := s, retro := retro } : Mono τ).startAt (some dur) s, c))
  | none =>
    match clk.read c with
    | none => ([], none)
    | some (r1, c) =>
      match clk.read c with
      | none => ([r1], none)
      | some (r2, c) =>
        ([r1, r2], some (({ start := r1, stop := r1 + dur, last := r1, retro := retro } : Mono τ).startNow (some dur) r2, c))

/-- one scenario operation: result value, new timer, new clock; `none` = clock script ran out -/
def mstep {σ} (clk : Clock τ σ) (m : Mono τ) (c : σ) : MOp τ → Option (MVal τ × Mono τ × σ)
  | .duration => some (.int m.duration, m, c)
  | .setRetro b => some (.unit, { m with retro := b }, c)
  | .bad => some (.raised .valueError, m, c)
  | .other false => some (.unit, m, c)
  | .other true => match clk.read c with
    | none => none
    | some (_, c) => some (.unit, m, c)
  | .restart d => let m' := m.restart d; some (.int m'.start, m', c)
  | .start d (some s) => let m' := m.startAt d s; some (.int m'.start, m', c)
  | .start d none => match clk.read c with
    | none => none
    | some (r, c) => let m' := m.startNow d r; some (.int m'.start, m', c)
  | .elapsed => match clk.read c with
    | none => none
    | some (r, c) => match m.elapsed r with
      | .ok (v, m') => some (.int v, m', c)
      | .error e => some (.raised e, m, c)
  | .remaining => match clk.read c with
    | none => none
    | some (r, c) => match m.remaining r with
      | .ok (v, m') => some (.int v, m', c)
      | .error e => some (.raised e, m, c)
  | .latest => match clk.read c with
    | none => none
    | some (r, c) => match m.latest r with
      | .ok (v, m') => some (.int v, m', c)
      | .error e => some (.raised e, m, c)
  | .expired => match clk.read c with
    | none => none
    | some (r, c) => match m.expired r with
      | .ok (v, m') => some (.bool v, m', c)
      | .error e => some (.raised e, m, c)

/-- results of the operations in order; `none` marks where the clock script ran out -/
def mrun {σ} (clk : Clock τ σ) (m : Mono τ) (c : σ) : List (MOp τ) → List (Option (MVal τ × σ))
  | [] => []
  | op :: ops => match mstep clk m c op with
    | some (v, m', c') => some (v, c') :: mrun clk m' c' ops
    | none => [none]

/-! ## `Timer` and `AsyncTimer` — plain wall-clock timers (no retrograde compensation)

`hio.help.timing.Timer` reads `time.time()`, `AsyncTimer` reads `asyncio.get_event_loop().time()`; apart from the clock
the two classes are the same code, so one model serves both.  `Doist.ado` paces with an `AsyncTimer` (C07's text is about
the blocking `do()` loop only; the event-loop clock is monotonic by contract, which is the hypothesis of the theorems). -/

structure PTimer (τ : Type) where
  start : τ
  stop : τ
deriving Repr, DecidableEq

namespace PTimer

def duration (a : PTimer τ) : τ := a.stop - a.start
def elapsed (a : PTimer τ) (r : τ) : τ := r - a.start
def remaining (a : PTimer τ) (r : τ) : τ := a.stop - r
def expired (a : PTimer τ) (r : τ) : Bool := decide (r ≥ a.stop)

/-- `start(duration, start=s)` (for `start=None` the caller passes the clock reading) -/
def startAt (a : PTimer τ) (dur : Option τ) (s : τ) : PTimer τ :=
  { start := s, stop := s + durOr dur a.duration }

/-- `restart(duration)` = `start(duration, start=self._stop)` -/
def restart (a : PTimer τ) (dur : Option τ) : PTimer τ := a.startAt dur a.stop

end PTimer

inductive POp (τ : Type)
  | elapsed | remaining | expired | duration
  | start (dur : Option τ) (start : Option τ)
  | restart (dur : Option τ)
  | bad      -- start/restart with an argument `float()` rejects: raises, reads no clock, changes nothing
deriving Repr

/-- `Timer(duration=dur, start=start)` / `AsyncTimer(…)`: with `start=None` `Timer` reads its clock twice (a provisional
`._start`, then `start()`); `AsyncTimer` takes the provisional value from `time.time()` and reads the loop clock once
(`twice = false`) -/
def PTimer.new {σ} (clk : Clock τ σ) (c : σ) (dur : τ) (start : Option τ) (twice : Bool) : Option (PTimer τ × σ) :=
  match start with
  | some s => some (({ start := s, stop := s + dur } : PTimer τ).startAt (some dur) s, c)
  | none =>
    match clk.read c with
    | none => none
    | some (r1, c) =>
      if twice then
        match clk.read c with
        | none => none
        | some (r2, c) => some (({ start := r1, stop := r1 + dur } : PTimer τ).startAt (some dur) r2, c)
      else some (({ start := r1, stop := r1 + dur } : PTimer τ).startAt (some dur) r1, c)

def pstep {σ} (clk : Clock τ σ) (a : PTimer τ) (c : σ) : POp τ → Option (MVal τ × PTimer τ × σ)
  | .duration => some (.int a.duration, a, c)
  | .bad => some (.raised .valueError, a, c)
  | .restart d => some (.int (a.restart d).start, a.restart d, c)
  | .start d (some s) => some (.int (a.startAt d s).start, a.startAt d s, c)
  | .start d none => match clk.read c with
    | none => none
    | some (r, c) => some (.int (a.startAt d r).start, a.startAt d r, c)
  | .elapsed => match clk.read c with
    | none => none
    | some (r, c) => some (.int (a.elapsed r), a, c)
  | .remaining => match clk.read c with
    | none => none
    | some (r, c) => some (.int (a.remaining r), a, c)
  | .expired => match clk.read c with
    | none => none
    | some (r, c) => some (.bool (a.expired r), a, c)

def prun {σ} (clk : Clock τ σ) (a : PTimer τ) (c : σ) : List (POp τ) → List (Option (MVal τ × σ))
  | [] => []
  | op :: ops => match pstep clk a c op with
    | some (v, a', c') => some (v, c') :: prun clk a' c' ops
    | none => [none]

/-! ## Real-time pacing: the real branch of `Doist.do` (C07) -/

/-- what the adapter logs: a clock reading made by the timer (`t`), by anybody else (`x`), a `time.sleep(d)` call, the
beginning of `recur()` number `k` -/
inductive Ev (τ : Type)
  | t (r : τ) | x (r : τ) | s (d : τ) | c (k : Nat)
  | o (code : Nat)      -- a doer operates on the scheduler (`doist.extend([...])`, `doist.remove([...])`) in mid-cycle
deriving Repr, DecidableEq

inductive End | done | exhausted | fuel | raised
deriving Repr, DecidableEq

/-- what a doer does inside its cycle besides its own work: `none` = it reads the clock, `some code` = it operates on the
scheduler (extend / remove other doers).  Neither touches the pacing timer. -/
abbrev DScript := List (Option Nat)

def xreads {σ} (clk : Clock τ σ) : DScript → σ → List (Ev τ) × Option σ
  | [], c => ([], some c)
  | none :: ds, c => match clk.read c with
    | none => ([], none)
    | some (r, c) => (.x r :: (xreads clk ds c).1, (xreads clk ds c).2)
  | some e :: ds, c => (.o e :: (xreads clk ds c).1, (xreads clk ds c).2)

/-- `while not self.timer.expired: time.sleep(max(0.0, self.timer.remaining))`.
The real loop is unbounded (a stalled clock spins for ever): fuel; every theorem is for every fuel. -/
def wait {σ} (clk : Clock τ σ) : Nat → Mono τ → σ → List (Ev τ) × Except End (Mono τ × σ)
  | 0, _, _ => ([], .error .fuel)
  | fuel + 1, m, c =>
    match clk.read c with
    | none => ([], .error .exhausted)
    | some (r, c) =>
      match m.expired r with
      | .error _ => ([.t r], .error .raised)
      | .ok (true, m) => ([.t r], .ok (m, c))
      | .ok (false, m) =>
        match clk.read c with
        | none => ([.t r], .error .exhausted)
        | some (r2, c) =>
          match m.remaining r2 with
          | .error _ => ([.t r, .t r2], .error .raised)
          | .ok (rem, m) =>
            (.t r :: .t r2 :: .s (max 0 rem) :: (wait clk fuel m (clk.sleep (max 0 rem) c)).1,
             (wait clk fuel m (clk.sleep (max 0 rem) c)).2)

/-- what the doer does in the next cycle -/
def xhead : List DScript → DScript
  | [] => []
  | x :: _ => x

/-- `n` more cycles, the next one being number `k`: `recur()`, the doer's extra readings, the wait, `timer.restart()` -/
def cycles {σ} (clk : Clock τ σ) (fuel : Nat) : Nat → Nat → Mono τ → σ → List DScript → List (Ev τ) × End
  | 0, _, _, _, _ => ([], .done)
  | n + 1, k, m, c, xs =>
    match (xreads clk (xhead xs) c).2 with
    | none => (.c k :: (xreads clk (xhead xs) c).1, .exhausted)
    | some c1 =>
      match (wait clk fuel m c1).2 with
      | .error e => (.c k :: ((xreads clk (xhead xs) c).1 ++ (wait clk fuel m c1).1), e)
      | .ok (m2, c2) =>
        (.c k :: ((xreads clk (xhead xs) c).1 ++ ((wait clk fuel m c1).1 ++ (cycles clk fuel n (k + 1) (m2.restart none) c2 xs.tail).1)),
         (cycles clk fuel n (k + 1) (m2.restart none) c2 xs.tail).2)

/-- the run proper, from `do()`: `self.timer.start(duration=self.tock)` then the cycles -/
def doRun {σ} (clk : Clock τ σ) (fuel : Nat) (m : Mono τ) (c : σ) (tock : τ) (n : Nat) (xs : List DScript) : List (Ev τ) × End :=
  match clk.read c with
  | none => ([], .exhausted)
  | some (r0, c) =>
    (.t r0 :: (cycles clk fuel n 0 (m.startNow (some tock) r0) c xs).1, (cycles clk fuel n 0 (m.startNow (some tock) r0) c xs).2)

/-- what may happen between construction and `do()` -/
inductive PreOp (τ : Type)
  | peek                 -- somebody reads `doist.timer.elapsed`
  | setTock (v : τ)    -- `doist.tock = v`
  | xread                -- somebody else reads the clock (e.g. the timer of a sibling Doist being built)
deriving Repr

/-- the pre-run operations: log, timer, clock, tock -/
def preRun {σ} (clk : Clock τ σ) : List (PreOp τ) → Mono τ → σ → τ → List (Ev τ) × Option (Mono τ × σ × τ)
  | [], m, c, tock => ([], some (m, c, tock))
  | .setTock v :: ps, m, c, _ => preRun clk ps m c v
  | .xread :: ps, m, c, tock =>
    match clk.read c with
    | none => ([], none)
    | some (r, c) => (.x r :: (preRun clk ps m c tock).1, (preRun clk ps m c tock).2)
  | .peek :: ps, m, c, tock =>
    match clk.read c with
    | none => ([], none)
    | some (r, c) =>
      match m.elapsed r with
      | .error _ => ([.t r], none)
      | .ok (_, m) => (.t r :: (preRun clk ps m c tock).1, (preRun clk ps m c tock).2)

structure PaceObs (τ : Type) where
  pre : List (Ev τ)
  run : List (Ev τ)
  fin : End
  /-- `doist.tock` at the moment `do()` is called (`none`: never got there) -/
  tock : Option τ

/-- `Tymist.__init__`: `self.tock = float(tock) if tock is not None else self.Tock` (`dflt` = the class default `Tymist.Tock`) -/
def tockOr (dflt : τ) (tock0 : Option τ) : τ :=
  match tock0 with
  | some v => v
  | none => dflt

/-- `Doist(real=True, tock=tock0)`, the pre-run operations, `do()` with one doer living `n` cycles -/
def paceRun {σ} (dflt : τ) (clk : Clock τ σ) (fuel : Nat) (c : σ) (tock0 : Option τ) (pre : List (PreOp τ)) (n : Nat) (xs : List DScript) : PaceObs τ :=
  let tock := tockOr dflt tock0
  -- `self.timer = timing.MonoTimer(duration=self.tock)`
  match Mono.new clk c tock none Gen.monoRetroDefault with
  | (rs, none) => ⟨rs.map .t, [], .exhausted, none⟩
  | (rs, some (m, c)) =>
    match preRun clk pre m c tock with
    | (pe, none) => ⟨rs.map .t ++ pe, [], .exhausted, none⟩
    | (pe, some (m, c, tock)) =>
      ⟨rs.map .t ++ pe, (doRun clk fuel m c tock n xs).1, (doRun clk fuel m c tock n xs).2, some tock⟩

end Hio.Timer
