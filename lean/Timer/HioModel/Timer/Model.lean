import HioModel.Gen.TimerConsts
/-!
# Model of hio's timers and of the real-time branch of `Doist.do`

Faithful to `hio.base.tyming.Tymer`, `hio.help.timing.MonoTimer` and the real-time lines of
`hio.base.doing.Doist` (construction of `.timer`, `self.timer.start(duration=self.tock)`,
`while not self.timer.expired: time.sleep(max(0.0, self.timer.remaining))`, `self.timer.restart()`)
in the tree under test (with the three `fix:` commits of branch fix/timer).

Time values are `Int` (the adapter uses integers scaled by 2^-10 s, on which the double arithmetic of
the code is exact).  Python exceptions are values.  The system clock is a parameter: an arbitrary
state machine `Clock σ` (readings may stall, jump backwards, overshoot a sleep, or run out).
-/
namespace Hio.Timer

inductive Exn | typeError | retroTimerError
deriving Repr, DecidableEq

/-- `float(duration) if duration is not None else <old>` -/
def durOr (d : Option Int) (old : Int) : Int :=
  match d with
  | some d => d
  | none => old

/-! ## `Tymer` — virtual timer on a `Tymist`'s tyme -/

/-- the tymists a tymer can be wound to: their current tyme and tock -/
structure TWorld where
  tyme : Nat → Int
  tock : Nat → Int

structure Tymer where
  /-- index of the tymist whose `tymen()` closure is held in `._tymth`; `none` = not wound -/
  wound : Option Nat
  start : Int
  stop : Int
deriving Repr, DecidableEq

inductive TOp
  | setTyme (i : Nat) (v : Int)      -- tymist_i.tyme = v
  | tick (i : Nat)                   -- tymist_i.tick()
  | start (dur : Option Int) (start : Option Int)
  | restart (dur : Option Int)
  | wind (i : Nat)
deriving Repr

namespace Tymer

/-- `.tyme` : `self._tymth() if self._tymth else None` -/
def now (w : TWorld) (t : Tymer) : Option Int :=
  match t.wound with
  | some i => some (w.tyme i)
  | none => none

def duration (t : Tymer) : Int := t.stop - t.start

/-- `self.tyme - self._start` (`None - float` raises `TypeError`) -/
def elapsed (w : TWorld) (t : Tymer) : Except Exn Int :=
  match t.now w with
  | some n => .ok (n - t.start)
  | none => .error .typeError

def remaining (w : TWorld) (t : Tymer) : Except Exn Int :=
  match t.now w with
  | some n => .ok (t.stop - n)
  | none => .error .typeError

def expired (w : TWorld) (t : Tymer) : Except Exn Bool :=
  match t.now w with
  | some n => .ok (decide (n ≥ t.stop))
  | none => .error .typeError

/-- `start(duration, start)`; returns the new tymer and the returned `._start` -/
def startOp (w : TWorld) (t : Tymer) (dur start : Option Int) : Except Exn (Tymer × Int) :=
  let d := durOr dur t.duration
  match start, t.now w with
  | some s, _ => .ok ({ t with start := s, stop := s + d }, s)
  | none, some n => .ok ({ t with start := n, stop := n + d }, n)
  | none, none => .error .typeError      -- `None + duration`

/-- `restart(duration)` = `start(duration, start=self._stop)` -/
def restartOp (w : TWorld) (t : Tymer) (dur : Option Int) : Except Exn (Tymer × Int) :=
  t.startOp w dur (some t.stop)

/-- `Tymer(tymth=…, duration=dur, start=start)` -/
def new (w : TWorld) (wound : Option Nat) (dur start : Option Int) : Tymer :=
  let d := durOr dur Gen.tymerDuration
  let s := match start, wound with
    | some s, _ => s
    | none, some i => w.tyme i
    | none, none => 0
  { wound := wound, start := s, stop := s + d }

end Tymer

def TWorld.set (w : TWorld) (i : Nat) (v : Int) : TWorld :=
  { w with tyme := fun j => if j = i then v else w.tyme j }

/-- one operation of the scenario; `Option Int` is the value returned by `start`/`restart` -/
def tstep (w : TWorld) (t : Tymer) : TOp → Except Exn (TWorld × Tymer × Option Int)
  | .setTyme i v => .ok (w.set i v, t, none)
  | .tick i => .ok (w.set i (w.tyme i + w.tock i), t, none)
  | .start d s => match t.startOp w d s with
    | .ok (t', r) => .ok (w, t', some r)
    | .error e => .error e
  | .restart d => match t.restartOp w d with
    | .ok (t', r) => .ok (w, t', some r)
    | .error e => .error e
  | .wind i =>     -- `wind(tymth)`: rebind, then `start()`
    match ({ t with wound := some i } : Tymer).startOp w none none with
    | .ok (t', _) => .ok (w, t', none)
    | .error e => .error e

/-- what the adapter reads after every operation -/
structure TSnap where
  ret : Option Int
  duration : Int
  elapsed : Except Exn Int
  remaining : Except Exn Int
  expired : Except Exn Bool

def tsnap (w : TWorld) (t : Tymer) (ret : Option Int) : TSnap :=
  { ret := ret, duration := t.duration, elapsed := t.elapsed w, remaining := t.remaining w, expired := t.expired w }

/-- snapshots after each operation; the trace ends (`none`) where an operation raised -/
def trun (w : TWorld) (t : Tymer) : List TOp → List (Option TSnap)
  | [] => []
  | op :: ops => match tstep w t op with
    | .ok (w', t', r) => some (tsnap w' t' r) :: trun w' t' ops
    | .error _ => [none]

/-! ## `MonoTimer` — wall-clock timer with retrograde compensation -/

structure Mono where
  start : Int
  stop : Int
  last : Int
  retro : Bool
deriving Repr, DecidableEq

namespace Mono

def duration (m : Mono) : Int := m.stop - m.start

/-- `.latest` on a clock reading `r`: returns `._last` and the updated timer -/
def latest (m : Mono) (r : Int) : Except Exn (Int × Mono) :=
  let delta := r - m.last
  if delta < 0 then
    if m.retro then
      .ok (m.last + delta, { m with start := m.start + delta, stop := m.stop + delta, last := m.last + delta })
    else .error .retroTimerError
  else .ok (m.last + delta, { m with last := m.last + delta })

/-- `.elapsed` = `self.latest - self._start` -/
def elapsed (m : Mono) (r : Int) : Except Exn (Int × Mono) :=
  match m.latest r with
  | .ok (l, m') => .ok (l - m'.start, m')
  | .error e => .error e

/-- `.remaining` (fixed code: `.latest` is evaluated before `._stop` is read) -/
def remaining (m : Mono) (r : Int) : Except Exn (Int × Mono) :=
  match m.latest r with
  | .ok (l, m') => .ok (m'.stop - l, m')
  | .error e => .error e

/-- `.expired` = `self.latest >= self._stop` -/
def expired (m : Mono) (r : Int) : Except Exn (Bool × Mono) :=
  match m.latest r with
  | .ok (l, m') => .ok (decide (l ≥ m'.stop), m')
  | .error e => .error e

/-- `start(duration, start=s)` with an explicit start: `._last` is not touched -/
def startAt (m : Mono) (dur : Option Int) (s : Int) : Mono :=
  { m with start := s, stop := s + durOr dur m.duration }

/-- `start(duration)` at the clock reading `r` (fixed code: `._last` is resynchronised to `r`) -/
def startNow (m : Mono) (dur : Option Int) (r : Int) : Mono :=
  ({ m with last := r } : Mono).startAt dur r

/-- `restart(duration)` = `start(duration, start=self._stop)` -/
def restart (m : Mono) (dur : Option Int) : Mono := m.startAt dur m.stop

end Mono

/-! ### the system clock as a parameter -/

/-- any clock: `read` = one call of `time.time()` (`none`: the script ran out, the run is cut here),
`sleep d` = one call of `time.sleep(d)` -/
structure Clock (σ : Type) where
  read : σ → Option (Int × σ)
  sleep : Int → σ → σ

/-- the scripted clock of the harness: reading m returns `c + incs[0] + … + incs[m]`; the j-th sleep advances by `d + ovs[j]` -/
structure Script where
  c : Int
  incs : List Int
  ovs : List Int
deriving Repr

def scriptClock : Clock Script where
  read s := match s.incs with
    | [] => none
    | d :: ds => some (s.c + d, { s with c := s.c + d, incs := ds })
  sleep d s := match s.ovs with
    | [] => { s with c := s.c + d }
    | o :: os => { s with c := s.c + d + o, ovs := os }

/-! ### MonoTimer scenario (C08) -/

inductive MOp
  | elapsed | remaining | expired | latest | duration
  | start (dur : Option Int) (start : Option Int)
  | restart (dur : Option Int)
deriving Repr

inductive MVal
  | int (v : Int) | bool (b : Bool) | raised (e : Exn)
deriving Repr, DecidableEq

/-- `MonoTimer(duration=dur, start=start, retro=retro)`: with `start=None` the constructor reads the clock twice
(once for the provisional `._start`/`._last`, once in `start()`).  Returns the readings made, and the timer unless
the clock script ran out. -/
def Mono.new {σ} (clk : Clock σ) (c : σ) (dur : Int) (start : Option Int) (retro : Bool) : List Int × Option (Mono × σ) :=
  match start with
  | some s => ([], some (({ start := s, stop := s + dur, last := s, retro := retro } : Mono).startAt (some dur) s, c))
  | none =>
    match clk.read c with
    | none => ([], none)
    | some (r1, c) =>
      match clk.read c with
      | none => ([r1], none)
      | some (r2, c) =>
        ([r1, r2], some (({ start := r1, stop := r1 + dur, last := r1, retro := retro } : Mono).startNow (some dur) r2, c))

/-- one scenario operation: result value, new timer, new clock; `none` = clock script ran out -/
def mstep {σ} (clk : Clock σ) (m : Mono) (c : σ) : MOp → Option (MVal × Mono × σ)
  | .duration => some (.int m.duration, m, c)
  | .restart d => let m' := m.restart d; some (.int m'.start, m', c)
  | .start d (some s) => let m' := m.startAt d s; some (.int m'.start, m', c)
  | .start d none => match clk.read c with
    | none => none
    | some (r, c) => let m' := m.startNow d r; some (.int m'.start, m', c)
  | .elapsed => match clk.read c with
    | none => none
    | some (r, c) => match m.elapsed r with
      | .ok (v, m') => some (.int v, m', c)
      | .error e => some (.raised e, m, c)
  | .remaining => match clk.read c with
    | none => none
    | some (r, c) => match m.remaining r with
      | .ok (v, m') => some (.int v, m', c)
      | .error e => some (.raised e, m, c)
  | .latest => match clk.read c with
    | none => none
    | some (r, c) => match m.latest r with
      | .ok (v, m') => some (.int v, m', c)
      | .error e => some (.raised e, m, c)
  | .expired => match clk.read c with
    | none => none
    | some (r, c) => match m.expired r with
      | .ok (v, m') => some (.bool v, m', c)
      | .error e => some (.raised e, m, c)

/-- results of the operations in order; `none` marks where the clock script ran out -/
def mrun {σ} (clk : Clock σ) (m : Mono) (c : σ) : List MOp → List (Option (MVal × σ))
  | [] => []
  | op :: ops => match mstep clk m c op with
    | some (v, m', c') => some (v, c') :: mrun clk m' c' ops
    | none => [none]

/-! ## Real-time pacing: the real branch of `Doist.do` (C07) -/

/-- what the adapter logs: a clock reading made by the timer (`t`), by anybody else (`x`), a `time.sleep(d)` call, the
beginning of `recur()` number `k` -/
inductive Ev
  | t (r : Int) | x (r : Int) | s (d : Int) | c (k : Nat)
deriving Repr, DecidableEq

inductive End | done | exhausted | fuel | raised
deriving Repr, DecidableEq

/-- `x` extra clock readings made inside a cycle by a doer -/
def xreads {σ} (clk : Clock σ) : Nat → σ → List Ev × Option σ
  | 0, c => ([], some c)
  | x + 1, c => match clk.read c with
    | none => ([], none)
    | some (r, c) => (.x r :: (xreads clk x c).1, (xreads clk x c).2)

/-- `while not self.timer.expired: time.sleep(max(0.0, self.timer.remaining))`.
The real loop is unbounded (a stalled clock spins for ever): fuel; every theorem is for every fuel. -/
def wait {σ} (clk : Clock σ) : Nat → Mono → σ → List Ev × Except End (Mono × σ)
  | 0, _, _ => ([], .error .fuel)
  | fuel + 1, m, c =>
    match clk.read c with
    | none => ([], .error .exhausted)
    | some (r, c) =>
      match m.expired r with
      | .error _ => ([.t r], .error .raised)
      | .ok (true, m) => ([.t r], .ok (m, c))
      | .ok (false, m) =>
        match clk.read c with
        | none => ([.t r], .error .exhausted)
        | some (r2, c) =>
          match m.remaining r2 with
          | .error _ => ([.t r, .t r2], .error .raised)
          | .ok (rem, m) =>
            (.t r :: .t r2 :: .s (max 0 rem) :: (wait clk fuel m (clk.sleep (max 0 rem) c)).1,
             (wait clk fuel m (clk.sleep (max 0 rem) c)).2)

/-- number of extra readings the doer makes in the next cycle -/
def xhead : List Nat → Nat
  | [] => 0
  | x :: _ => x

/-- `n` more cycles, the next one being number `k`: `recur()`, the doer's extra readings, the wait, `timer.restart()` -/
def cycles {σ} (clk : Clock σ) (fuel : Nat) : Nat → Nat → Mono → σ → List Nat → List Ev × End
  | 0, _, _, _, _ => ([], .done)
  | n + 1, k, m, c, xs =>
    match (xreads clk (xhead xs) c).2 with
    | none => (.c k :: (xreads clk (xhead xs) c).1, .exhausted)
    | some c1 =>
      match (wait clk fuel m c1).2 with
      | .error e => (.c k :: ((xreads clk (xhead xs) c).1 ++ (wait clk fuel m c1).1), e)
      | .ok (m2, c2) =>
        (.c k :: ((xreads clk (xhead xs) c).1 ++ ((wait clk fuel m c1).1 ++ (cycles clk fuel n (k + 1) (m2.restart none) c2 xs.tail).1)),
         (cycles clk fuel n (k + 1) (m2.restart none) c2 xs.tail).2)

/-- the run proper, from `do()`: `self.timer.start(duration=self.tock)` then the cycles -/
def doRun {σ} (clk : Clock σ) (fuel : Nat) (m : Mono) (c : σ) (tock : Int) (n : Nat) (xs : List Nat) : List Ev × End :=
  match clk.read c with
  | none => ([], .exhausted)
  | some (r0, c) =>
    (.t r0 :: (cycles clk fuel n 0 (m.startNow (some tock) r0) c xs).1, (cycles clk fuel n 0 (m.startNow (some tock) r0) c xs).2)

/-- what may happen between construction and `do()` -/
inductive PreOp
  | peek                 -- somebody reads `doist.timer.elapsed`
  | setTock (v : Int)    -- `doist.tock = v`
deriving Repr

/-- the pre-run operations: log, timer, clock, tock -/
def preRun {σ} (clk : Clock σ) : List PreOp → Mono → σ → Int → List Ev × Option (Mono × σ × Int)
  | [], m, c, tock => ([], some (m, c, tock))
  | .setTock v :: ps, m, c, _ => preRun clk ps m c v
  | .peek :: ps, m, c, tock =>
    match clk.read c with
    | none => ([], none)
    | some (r, c) =>
      match m.elapsed r with
      | .error _ => ([.t r], none)
      | .ok (_, m) => (.t r :: (preRun clk ps m c tock).1, (preRun clk ps m c tock).2)

structure PaceObs where
  pre : List Ev
  run : List Ev
  fin : End
  /-- `doist.tock` at the moment `do()` is called (`none`: never got there) -/
  tock : Option Int

/-- `Tymist.__init__`: `self.tock = float(tock) if tock is not None else self.Tock` -/
def tockOr (tock0 : Option Int) : Int :=
  match tock0 with
  | some v => v
  | none => Gen.tymistTock

/-- `Doist(real=True, tock=tock0)`, the pre-run operations, `do()` with one doer living `n` cycles -/
def paceRun {σ} (clk : Clock σ) (fuel : Nat) (c : σ) (tock0 : Option Int) (pre : List PreOp) (n : Nat) (xs : List Nat) : PaceObs :=
  let tock := tockOr tock0
  -- `self.timer = timing.MonoTimer(duration=self.tock)`
  match Mono.new clk c tock none Gen.monoRetroDefault with
  | (rs, none) => ⟨rs.map .t, [], .exhausted, none⟩
  | (rs, some (m, c)) =>
    match preRun clk pre m c tock with
    | (pe, none) => ⟨rs.map .t ++ pe, [], .exhausted, none⟩
    | (pe, some (m, c, tock)) =>
      ⟨rs.map .t ++ pe, (doRun clk fuel m c tock n xs).1, (doRun clk fuel m c tock n xs).2, some tock⟩

end Hio.Timer
