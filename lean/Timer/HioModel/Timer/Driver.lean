import HioModel.Basic.Sexp
import HioModel.Timer.Model
open Hio Hio.Timer Hio.Sexp

def optInt? : Sexp → Option (Option Int)
  | .atom "-" => some none
  | s => (int? s).map some

def optNat? : Sexp → Option (Option Nat)
  | .atom "-" => some none
  | s => (nat? s).map some

def ints? (xs : List Sexp) : Option (List Int) := xs.mapM int?
def natsL? (xs : List Sexp) : Option (List Nat) := xs.mapM nat?

def exnName : Exn → String
  | .typeError => "TypeError" | .retroTimerError => "RetroTimerError" | .valueError => "ValueError"

def outI (r : Except Exn Int) : Sexp :=
  match r with
  | .ok v => ofInt v
  | .error e => sym (exnName e)

def outB (r : Except Exn Bool) : Sexp :=
  match r with
  | .ok v => ofBool v
  | .error e => sym (exnName e)

/-! ### tymer -/

def top? : Sexp → Option (TOp Int)
  | .list [.atom "tyme", i, v] => do some (.setTyme (← nat? i) (← int? v))
  | .list [.atom "tick", i] => do some (.tick (← nat? i))
  | .list [.atom "start", d, s] => do some (.start (← optInt? d) (← optInt? s))
  | .list [.atom "restart", d] => do some (.restart (← optInt? d))
  | .list [.atom "wind", i] => do some (.wind (← nat? i))
  | .list [.atom "tock", i, v] => do some (.setTock (← nat? i) (← int? v))
  | .list [.atom "bad", _, _] => some .bad
  | .list [.atom "other", _] => some .nop
  | _ => none

def outSnap (s : TSnap Int) : Sexp :=
  .list [if s.raised then sym "raised" else ofOpt ofInt s.ret, ofInt s.duration, outI s.elapsed, outI s.remaining, outB s.expired]

def tymerReq (ts init ops : List Sexp) : Option Sexp := do
  let [t0, t1, k0, k1] := ts | none
  let t0 ← int? t0; let t1 ← int? t1; let k0 ← int? k0; let k1 ← int? k1
  let [w, dur, start] := init | none
  let w ← optNat? w; let dur ← optInt? dur; let start ← optInt? start
  let ops ← ops.mapM top?
  let world : TWorld Int := { tyme := fun i => if i = 0 then t0 else t1, tock := fun i => if i = 0 then k0 else k1 }
  let t := Tymer.new Gen.tymerDuration world w dur start
  some (.list (outSnap (tsnap world t none) :: (trun world t ops).map outSnap))

/-! ### mono -/

def mop? : Sexp → Option (MOp Int)
  | .list [.atom "elapsed"] => some .elapsed
  | .list [.atom "remaining"] => some .remaining
  | .list [.atom "expired"] => some .expired
  | .list [.atom "latest"] => some .latest
  | .list [.atom "duration"] => some .duration
  | .list [.atom "start", d, s] => do some (.start (← optInt? d) (← optInt? s))
  | .list [.atom "restart", d] => do some (.restart (← optInt? d))
  | .list [.atom "retro", b] => do some (.setRetro (← bool? b))
  | .list [.atom "bad", _, _] => some .bad
  | .list [.atom "other", .atom k] => some (.other (k == "elapsed"))
  | _ => none

def outMVal : MVal Int → Sexp
  | .unit => sym "-"
  | .int v => ofInt v
  | .bool b => ofBool b
  | .raised e => sym (exnName e)

def monoReq (base incs : Sexp) (init ops : List Sexp) : Option Sexp := do
  let base ← int? base
  let incs ← ints? (← list? incs)
  let [dur, start, retro] := init | none
  let dur ← int? dur; let start ← optInt? start; let retro ← bool? retro
  let ops ← ops.mapM mop?
  let c0 : Script := { c := base, incs := incs, ovs := [] }
  let used (c : Script) : Sexp := ofNat (incs.length - c.incs.length)
  match Mono.new scriptClock c0 dur start retro with
  | (_, none) => some (.list [.list [sym "exhausted"]])
  | (_, some (m, c)) =>
    some (.list (.list [sym "new", used c] :: (mrun scriptClock m c ops).map fun
      | none => .list [sym "exhausted"]
      | some (v, c') => .list [outMVal v, used c']))

/-! ### ptimer (Timer / AsyncTimer) -/

def pop? : Sexp → Option (POp Int)
  | .list [.atom "elapsed"] => some .elapsed
  | .list [.atom "remaining"] => some .remaining
  | .list [.atom "expired"] => some .expired
  | .list [.atom "duration"] => some .duration
  | .list [.atom "start", d, s] => do some (.start (← optInt? d) (← optInt? s))
  | .list [.atom "restart", d] => do some (.restart (← optInt? d))
  | .list [.atom "bad", _, _] => some .bad
  | _ => none

def ptimerReq (kind base incs : Sexp) (init ops : List Sexp) : Option Sexp := do
  let kind ← sym? kind
  let base ← int? base
  let incs ← ints? (← list? incs)
  let [dur, start] := init | none
  let dur ← int? dur; let start ← optInt? start
  let ops ← ops.mapM pop?
  let c0 : Script := { c := base, incs := incs, ovs := [] }
  let used (c : Script) : Sexp := ofNat (incs.length - c.incs.length)
  match PTimer.new scriptClock c0 dur start (kind == "timer") with
  | none => some (.list [.list [sym "exhausted"]])
  | some (a, c) =>
    some (.list (.list [sym "new", used c] :: (prun scriptClock a c ops).map fun
      | none => .list [sym "exhausted"]
      | some (v, c') => .list [outMVal v, used c']))

/-! ### pace -/

def preop? : Sexp → Option (PreOp Int)
  | .list [.atom "peek"] => some .peek
  | .list [.atom "tock", v] => do some (.setTock (← int? v))
  | .list [.atom "xread"] => some .xread
  | _ => none

/-- per-cycle doer script: `x` = x extra clock readings; `(x e)` = the same with scheduler op `e` after the first reading -/
def dscript? : Sexp → Option DScript
  | .list [x, e] => do
    let x ← nat? x; let e ← nat? e
    some (match x with
      | 0 => [some e]
      | x + 1 => none :: some e :: List.replicate x none)
  | s => do some (List.replicate (← nat? s) none)

def dscripts? (xs : List Sexp) : Option (List DScript) := xs.mapM dscript?

def outEv : Ev Int → Sexp
  | .o e => .list [sym "o", ofNat e]
  | .t r => .list [sym "t", ofInt r]
  | .x r => .list [sym "x", ofInt r]
  | .s d => .list [sym "s", ofInt d]
  | .c k => .list [sym "c", ofNat k]

def endName : End → String
  | .done => "done" | .exhausted => "exhausted" | .fuel => "fuel" | .raised => "raised"

def paceReq (base incs ovs tock0 pre n xs : Sexp) : Option Sexp := do
  let base ← int? base
  let incs ← ints? (← list? incs)
  let ovs ← ints? (← list? ovs)
  let tock0 ← optInt? tock0
  let pre ← (← list? pre).mapM preop?
  let n ← nat? n
  let xs ← dscripts? (← list? xs)
  let o := paceRun Gen.tymistTock scriptClock (incs.length + 1) { c := base, incs := incs, ovs := ovs } tock0 pre n xs
  some (.list [.list (o.pre.map outEv), .list (o.run.map outEv), sym (endName o.fin), ofOpt ofInt o.tock])

/-- the same Doist run twice: run 1 as `paceRun`; run 2 (only if run 1 got to `do()`) is `doRun` on the second clock script
from a timer whose history does not matter (`doRun_forgets_timer_history`) -/
def pace2Req (first mid second : List Sexp) : Option Sexp := do
  let [base, incs, ovs, tock0, pre, n, xs] := first | none
  let base ← int? base
  let incs ← ints? (← list? incs)
  let ovs ← ints? (← list? ovs)
  let tock0 ← optInt? tock0
  let pre ← (← list? pre).mapM preop?
  let n ← nat? n
  let xs ← dscripts? (← list? xs)
  let [_mode, tock2] := mid | none
  let tock2 ← optInt? tock2
  let [base2, incs2, ovs2, n2, xs2, _entry] := second | none
  let base2 ← int? base2
  let incs2 ← ints? (← list? incs2)
  let ovs2 ← ints? (← list? ovs2)
  let n2 ← nat? n2
  let xs2 ← dscripts? (← list? xs2)
  let o := paceRun Gen.tymistTock scriptClock (incs.length + 1) { c := base, incs := incs, ovs := ovs } tock0 pre n xs
  let part1 := [.list (o.pre.map outEv), .list (o.run.map outEv), sym (endName o.fin), ofOpt ofInt o.tock]
  match o.tock with
  | none => some (.list (part1 ++ [.list [], sym "-", sym "-"]))
  | some t1 =>
    let t2 := match tock2 with
      | some v => v
      | none => t1
    let r := doRun scriptClock (incs2.length + 1) ⟨0, 0, 0, Gen.monoRetroDefault⟩ { c := base2, incs := incs2, ovs := ovs2 } t2 n2 xs2
    some (.list (part1 ++ [.list (r.1.map outEv), sym (endName r.2), ofInt t2]))

def handle : Sexp → Sexp
  | .list [.atom "tymer", .list ts, .list init, .list ops] => (tymerReq ts init ops).getD (sym "bad-request")
  | .list [.atom "mono", base, incs, .list init, .list ops] => (monoReq base incs init ops).getD (sym "bad-request")
  | .list [.atom "ptimer", kind, base, incs, .list init, .list ops] => (ptimerReq kind base incs init ops).getD (sym "bad-request")
  | .list [.atom "pace", base, incs, ovs, tock0, pre, n, xs] => (paceReq base incs ovs tock0 pre n xs).getD (sym "bad-request")
  | .list [.atom "pace2", .list first, .list mid, .list second] => (pace2Req first mid second).getD (sym "bad-request")
  | _ => sym "bad-request"

def main : IO Unit := serve handle
