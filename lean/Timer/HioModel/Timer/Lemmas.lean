import HioModel.Timer.Spec
import Mathlib.Tactic.Linarith
import Mathlib.Tactic.Ring
import Mathlib.Algebra.Order.Ring.Defs
import Mathlib.Algebra.Order.Ring.Int
import Mathlib.Algebra.Order.Ring.Rat
/-!
# Helper lemmas for the timer model (C07, C08)
-/
namespace Hio.Timer

/-! Every lemma is over an arbitrary linearly ordered commutative ring `τ` of time values (`τ`, `Rat`, `Real`, …). -/
variable {τ : Type} [CommRing τ] [LinearOrder τ] [IsStrictOrderedRing τ]

/-- linear arithmetic with `max`: split every `max`, then `linarith` -/
macro "oarith" : tactic =>
  `(tactic| first | linarith | (simp only [max_def] at * <;> split_ifs at * <;> linarith))

/-! ## MonoTimer: one clock reading -/

/-- relation between a timer before and after it has seen the reading `r` -/
structure Mono.Step (m : Mono τ) (r : τ) (m' : Mono τ) : Prop where
  last : m'.last = r
  retro : m'.retro = m.retro
  rem : m'.stop - m'.last = m.stop - m.last - max 0 (r - m.last)
  ela : m'.last - m'.start = m.last - m.start + max 0 (r - m.last)

theorem Mono.Step.dur {m m' : Mono τ} {r : τ} (h : Mono.Step m r m') : m'.stop - m'.start = m.stop - m.start := by
  have := h.rem; have := h.ela; oarith

theorem Mono.latest_ok {m m' : Mono τ} {r l : τ} (h : m.latest r = .ok (l, m')) : l = r ∧ Mono.Step m r m' := by
  unfold Mono.latest at h
  simp only at h
  split at h
  · split at h
    · injection h with h; injection h with h1 h2
      subst h2
      refine ⟨by oarith, ⟨by dsimp only; oarith, rfl, by dsimp only; oarith, by dsimp only; oarith⟩⟩
    · cases h
  · injection h with h; injection h with h1 h2
    subst h2
    refine ⟨by oarith, ⟨by dsimp only; oarith, rfl, by dsimp only; oarith, by dsimp only; oarith⟩⟩

theorem Mono.latest_retro (m : Mono τ) (r : τ) (h : m.retro = true) : ∃ m', m.latest r = .ok (r, m') := by
  have e : m.last + (r - m.last) = r := by oarith
  unfold Mono.latest
  simp only [h, e]
  split <;> exact ⟨_, rfl⟩

theorem Mono.expired_retro (m : Mono τ) (r : τ) (h : m.retro = true) :
    ∃ m', m.expired r = .ok (decide (m'.stop ≤ m'.last), m') ∧ Mono.Step m r m' := by
  obtain ⟨m', hl⟩ := m.latest_retro r h
  have hs := (Mono.latest_ok hl).2
  refine ⟨m', ?_, hs⟩
  simp only [Mono.expired, hl, hs.last, ge_iff_le]

theorem Mono.remaining_retro (m : Mono τ) (r : τ) (h : m.retro = true) :
    ∃ m', m.remaining r = .ok (m'.stop - m'.last, m') ∧ Mono.Step m r m' := by
  obtain ⟨m', hl⟩ := m.latest_retro r h
  have hs := (Mono.latest_ok hl).2
  refine ⟨m', ?_, hs⟩
  simp only [Mono.remaining, hl, hs.last]

theorem Mono.elapsed_retro (m : Mono τ) (r : τ) (h : m.retro = true) :
    ∃ m', m.elapsed r = .ok (m'.last - m'.start, m') ∧ Mono.Step m r m' := by
  obtain ⟨m', hl⟩ := m.latest_retro r h
  have hs := (Mono.latest_ok hl).2
  refine ⟨m', ?_, hs⟩
  simp only [Mono.elapsed, hl, hs.last]


/-! ## C07: never early -/

/-- accumulators of `neverEarlyFrom` after a piece of log -/
def accF : τ → τ → List (Ev τ) → τ × τ
  | F, ℓ, [] => (F, ℓ)
  | F, ℓ, .t r :: es => accF (F + max 0 (r - ℓ)) r es
  | F, ℓ, .x r :: es => accF (F + max 0 (r - ℓ)) r es
  | F, ℓ, _ :: es => accF F ℓ es

theorem neverEarlyFrom_append (tock : τ) : ∀ (a b : List (Ev τ)) (F ℓ : τ),
    neverEarlyFrom tock F ℓ (a ++ b) ↔
      neverEarlyFrom tock F ℓ a ∧ neverEarlyFrom tock (accF F ℓ a).1 (accF F ℓ a).2 b
  | [], b, F, ℓ => by simp [neverEarlyFrom, accF]
  | .t r :: a, b, F, ℓ => by simp only [List.cons_append, neverEarlyFrom, accF]; exact neverEarlyFrom_append tock a b _ _
  | .x r :: a, b, F, ℓ => by simp only [List.cons_append, neverEarlyFrom, accF]; exact neverEarlyFrom_append tock a b _ _
  | .s d :: a, b, F, ℓ => by simp only [List.cons_append, neverEarlyFrom, accF]; exact neverEarlyFrom_append tock a b _ _
  | .o e :: a, b, F, ℓ => by simp only [List.cons_append, neverEarlyFrom, accF]; exact neverEarlyFrom_append tock a b _ _
  | .c k :: a, b, F, ℓ => by
    simp only [List.cons_append, neverEarlyFrom, accF, and_assoc]
    rw [neverEarlyFrom_append tock a b F ℓ]

theorem accF_append : ∀ (a b : List (Ev τ)) (F ℓ : τ),
    accF F ℓ (a ++ b) = accF (accF F ℓ a).1 (accF F ℓ a).2 b
  | [], b, F, ℓ => rfl
  | .t r :: a, b, F, ℓ => by simp only [List.cons_append, accF]; exact accF_append a b _ _
  | .x r :: a, b, F, ℓ => by simp only [List.cons_append, accF]; exact accF_append a b _ _
  | .s d :: a, b, F, ℓ => by simp only [List.cons_append, accF]; exact accF_append a b _ _
  | .o e :: a, b, F, ℓ => by simp only [List.cons_append, accF]; exact accF_append a b _ _
  | .c k :: a, b, F, ℓ => by simp only [List.cons_append, accF]; exact accF_append a b _ _

/-- the invariant of the pacing loop for `never_early`: `D` is the current deadline `(k+1) * tock` in elapsed-real-time
coordinates, `F` the elapsed real time over all readings, `ℓ` the last reading anybody made -/
structure NEinv (m : Mono τ) (tock D F ℓ : τ) : Prop where
  retro : m.retro = true
  dur : m.stop - m.start = tock
  slack : max 0 (ℓ - m.last) ≤ F + (m.stop - m.last) - D

theorem NEinv.step {m m' : Mono τ} {tock D F ℓ r : τ} (h : NEinv m tock D F ℓ) (hs : Mono.Step m r m') :
    NEinv m' tock D (F + max 0 (r - ℓ)) r := by
  refine ⟨by rw [hs.retro, h.retro], by rw [hs.dur, h.dur], ?_⟩
  have := h.slack; have := hs.rem; have := hs.last
  oarith

theorem NEinv.xstep {m : Mono τ} {tock D F ℓ r : τ} (h : NEinv m tock D F ℓ) :
    NEinv m tock D (F + max 0 (r - ℓ)) r := by
  refine ⟨h.retro, h.dur, ?_⟩
  have := h.slack
  oarith

theorem xreads_ne {σ} (clk : Clock τ σ) (tock D : τ) (m : Mono τ) : ∀ (x : DScript) (c : σ) (F ℓ : τ),
    NEinv m tock D F ℓ →
    neverEarlyFrom tock F ℓ (xreads clk x c).1 ∧
      NEinv m tock D (accF F ℓ (xreads clk x c).1).1 (accF F ℓ (xreads clk x c).1).2
  | [], c, F, ℓ, h => by simpa [xreads, neverEarlyFrom, accF] using h
  | some e :: x, c, F, ℓ, h => by
    simp only [xreads, neverEarlyFrom, accF]
    exact xreads_ne clk tock D m x c _ _ h
  | none :: x, c, F, ℓ, h => by
    unfold xreads
    cases hr : clk.read c with
    | none => simpa [neverEarlyFrom, accF] using h
    | some p =>
      obtain ⟨r, c1⟩ := p
      simp only [neverEarlyFrom, accF]
      exact xreads_ne clk tock D m x c1 _ _ h.xstep

theorem wait_ne {σ} (clk : Clock τ σ) (tock D : τ) : ∀ (fuel : Nat) (m : Mono τ) (c : σ) (F ℓ : τ),
    NEinv m tock D F ℓ →
    neverEarlyFrom tock F ℓ (wait clk fuel m c).1 ∧
      ∀ m' c', (wait clk fuel m c).2 = .ok (m', c') →
        NEinv m' tock D (accF F ℓ (wait clk fuel m c).1).1 (accF F ℓ (wait clk fuel m c).1).2 ∧ m'.stop ≤ m'.last
  | 0, m, c, F, ℓ, h => by simp [wait, neverEarlyFrom]
  | fuel + 1, m, c, F, ℓ, h => by
    unfold wait
    cases hr : clk.read c with
    | none => simp [neverEarlyFrom]
    | some p =>
      obtain ⟨r, c1⟩ := p
      obtain ⟨m1, he, hs1⟩ := m.expired_retro r h.retro
      have h1 := h.step hs1
      simp only [he]
      by_cases hx : m1.stop ≤ m1.last
      · simp only [hx, decide_true, neverEarlyFrom, accF, true_and]
        intro m' c' heq
        injection heq with heq; injection heq with e1 e2
        subst e1
        exact ⟨h1, hx⟩
      · simp only [hx, decide_false]
        cases hr2 : clk.read c1 with
        | none => simp [neverEarlyFrom]
        | some p2 =>
          obtain ⟨r2, c2⟩ := p2
          obtain ⟨m2, hrem, hs2⟩ := m1.remaining_retro r2 h1.retro
          have h2 := h1.step hs2
          simp only [hrem, neverEarlyFrom, accF]
          exact wait_ne clk tock D fuel m2 _ _ _ h2


theorem NEinv.restart {m : Mono τ} {tock D F ℓ : τ} (h : NEinv m tock D F ℓ) :
    NEinv (m.restart none) tock (D + tock) F ℓ := by
  have := h.slack; have := h.dur
  refine ⟨h.retro, ?_, ?_⟩
  · simp only [Mono.restart, Mono.startAt, Mono.duration, durOr]; oarith
  · simp only [Mono.restart, Mono.startAt, Mono.duration, durOr]; oarith

theorem succ_mul_tock (k : Nat) (tock : τ) : ((k + 1 + 1 : Nat) : τ) * tock = ((k + 1 : Nat) : τ) * tock + tock := by
  push_cast; ring

theorem cycles_ne {σ} (clk : Clock τ σ) (fuel : Nat) (tock : τ) : ∀ (n k : Nat) (m : Mono τ) (c : σ) (xs : List DScript) (F ℓ : τ),
    NEinv m tock (((k + 1 : Nat) : τ) * tock) F ℓ → (1 ≤ k → (k : τ) * tock ≤ F) →
    neverEarlyFrom tock F ℓ (cycles clk fuel n k m c xs).1
  | 0, k, m, c, xs, F, ℓ, _, _ => by simp [cycles, neverEarlyFrom]
  | n + 1, k, m, c, xs, F, ℓ, h, hk => by
    unfold cycles
    obtain ⟨hx1, hx2⟩ := xreads_ne clk tock _ m (xhead xs) c F ℓ h
    cases hxr : (xreads clk (xhead xs) c).2 with
    | none => simp only [neverEarlyFrom]; exact ⟨hk, hx1⟩
    | some c1 =>
      dsimp only
      obtain ⟨hw1, hw2⟩ := wait_ne clk tock _ fuel m c1 _ _ hx2
      cases hwr : (wait clk fuel m c1).2 with
      | error e =>
        simp only [neverEarlyFrom]
        exact ⟨hk, (neverEarlyFrom_append tock _ _ F ℓ).2 ⟨hx1, hw1⟩⟩
      | ok p =>
        obtain ⟨m2, c2⟩ := p
        obtain ⟨hi, hexp⟩ := hw2 m2 c2 hwr
        simp only [neverEarlyFrom]
        refine ⟨hk, (neverEarlyFrom_append tock _ _ F ℓ).2 ⟨hx1, (neverEarlyFrom_append tock _ _ _ _).2 ⟨hw1, ?_⟩⟩⟩
        have hr := hi.restart
        rw [← succ_mul_tock] at hr
        apply cycles_ne clk fuel tock n (k + 1) _ c2 xs.tail _ _ hr
        intro _
        have := hi.slack
        oarith

/-- the first `self.timer.start(duration=self.tock)` of the run establishes the invariant, whatever the timer was before
(the only thing that survives from before the run is `retro`) -/
theorem NEinv.init (m : Mono τ) (tock r0 : τ) (h : m.retro = true) :
    NEinv (m.startNow (some tock) r0) tock (((0 + 1 : Nat) : τ) * tock) 0 r0 := by
  refine ⟨h, ?_, ?_⟩ <;> simp [Mono.startNow, Mono.startAt, durOr] <;> oarith

theorem doRun_neverEarly {σ} (clk : Clock τ σ) (fuel : Nat) (m : Mono τ) (c : σ) (tock : τ) (n : Nat) (xs : List DScript)
    (h : m.retro = true) : NeverEarly tock (doRun clk fuel m c tock n xs).1 := by
  unfold doRun
  cases hr : clk.read c with
  | none => simp [NeverEarly]
  | some p =>
    obtain ⟨r0, c1⟩ := p
    simp only [NeverEarly]
    exact cycles_ne clk fuel tock n 0 _ c1 xs 0 r0 (NEinv.init m tock r0 h) (by intro h0; exact absurd h0 (by decide))


/-- scanning form ⇒ prefix form: whenever `recur k` (k ≥ 1) appears in the log, the elapsed real time over the readings
before it is at least `k * tock` -/
theorem neverEarlyFrom_prefix (tock : τ) : ∀ (pre post : List (Ev τ)) (k : Nat) (F ℓ : τ),
    neverEarlyFrom tock F ℓ (pre ++ .c k :: post) → 1 ≤ k → (k : τ) * tock ≤ F + realElapsed ℓ (readingsOf pre)
  | [], post, k, F, ℓ, h, hk => by
    simp only [List.nil_append, neverEarlyFrom] at h
    simpa [readingsOf, realElapsed] using h.1 hk
  | .t r :: pre, post, k, F, ℓ, h, hk => by
    simp only [List.cons_append, neverEarlyFrom] at h
    have := neverEarlyFrom_prefix tock pre post k _ _ h hk
    simp only [readingsOf, realElapsed]; oarith
  | .x r :: pre, post, k, F, ℓ, h, hk => by
    simp only [List.cons_append, neverEarlyFrom] at h
    have := neverEarlyFrom_prefix tock pre post k _ _ h hk
    simp only [readingsOf, realElapsed]; oarith
  | .s d :: pre, post, k, F, ℓ, h, hk => by
    simp only [List.cons_append, neverEarlyFrom] at h
    simpa [readingsOf] using neverEarlyFrom_prefix tock pre post k _ _ h hk
  | .c j :: pre, post, k, F, ℓ, h, hk => by
    simp only [List.cons_append, neverEarlyFrom] at h
    simpa [readingsOf] using neverEarlyFrom_prefix tock pre post k _ _ h.2 hk
  | .o e :: pre, post, k, F, ℓ, h, hk => by
    simp only [List.cons_append, neverEarlyFrom] at h
    simpa [readingsOf] using neverEarlyFrom_prefix tock pre post k _ _ h hk

/-! ## C07: lossless -/

/-- accumulators of `losslessFrom` after a piece of log -/
def accL : τ → τ → Nat → List (Ev τ) → τ × τ × Nat
  | E, lt, k, [] => (E, lt, k)
  | E, lt, k, .t r :: es => accL (E + max 0 (r - lt)) r k es
  | E, lt, k, .x _ :: es => accL E lt k es
  | E, lt, k, .s _ :: es => accL E lt k es
  | E, lt, k, .o _ :: es => accL E lt k es
  | E, lt, _, .c k :: es => accL E lt k es

theorem losslessFrom_append (tock : τ) : ∀ (a b : List (Ev τ)) (E lt : τ) (k : Nat),
    losslessFrom tock E lt k (a ++ b) ↔
      losslessFrom tock E lt k a ∧ losslessFrom tock (accL E lt k a).1 (accL E lt k a).2.1 (accL E lt k a).2.2 b
  | [], b, E, lt, k => by simp [losslessFrom, accL]
  | .t r :: a, b, E, lt, k => by simp only [List.cons_append, losslessFrom, accL]; exact losslessFrom_append tock a b _ _ _
  | .x r :: a, b, E, lt, k => by simp only [List.cons_append, losslessFrom, accL]; exact losslessFrom_append tock a b _ _ _
  | .o e :: a, b, E, lt, k => by simp only [List.cons_append, losslessFrom, accL]; exact losslessFrom_append tock a b _ _ _
  | .s d :: a, b, E, lt, k => by
    simp only [List.cons_append, losslessFrom, accL, and_assoc]
    rw [losslessFrom_append tock a b E lt k]
  | .c j :: a, b, E, lt, k => by
    simp only [List.cons_append, losslessFrom, accL, and_assoc]
    rw [losslessFrom_append tock a b E lt j]

/-- the invariant of the pacing loop for `lossless`: `D` = current deadline `(k+1) * tock`, `E` = elapsed real time over
the timer's own readings, `lt` = the timer's last reading -/
structure LLinv (m : Mono τ) (tock D E lt : τ) : Prop where
  retro : m.retro = true
  dur : m.stop - m.start = tock
  last : m.last = lt
  rem : m.stop - m.last = D - E

theorem LLinv.step {m m' : Mono τ} {tock D E lt r : τ} (h : LLinv m tock D E lt) (hs : Mono.Step m r m') :
    LLinv m' tock D (E + max 0 (r - lt)) r := by
  refine ⟨by rw [hs.retro, h.retro], by rw [hs.dur, h.dur], hs.last, ?_⟩
  have := h.rem; have := hs.rem; have := h.last
  oarith

theorem LLinv.restart {m : Mono τ} {tock D E lt : τ} (h : LLinv m tock D E lt) :
    LLinv (m.restart none) tock (D + tock) E lt := by
  have := h.rem; have := h.dur
  refine ⟨h.retro, ?_, h.last, ?_⟩
  · simp only [Mono.restart, Mono.startAt, Mono.duration, durOr]; oarith
  · simp only [Mono.restart, Mono.startAt, Mono.duration, durOr]; oarith

theorem xreads_ll {σ} (clk : Clock τ σ) (tock : τ) : ∀ (x : DScript) (c : σ) (E lt : τ) (k : Nat),
    losslessFrom tock E lt k (xreads clk x c).1 ∧ accL E lt k (xreads clk x c).1 = (E, lt, k)
  | [], c, E, lt, k => by simp [xreads, losslessFrom, accL]
  | some e :: x, c, E, lt, k => by
    simp only [xreads, losslessFrom, accL]
    exact xreads_ll clk tock x c E lt k
  | none :: x, c, E, lt, k => by
    unfold xreads
    cases hr : clk.read c with
    | none => simp [losslessFrom, accL]
    | some p =>
      obtain ⟨r, c1⟩ := p
      simp only [losslessFrom, accL]
      exact xreads_ll clk tock x c1 E lt k

theorem wait_ll {σ} (clk : Clock τ σ) (tock : τ) (k : Nat) : ∀ (fuel : Nat) (m : Mono τ) (c : σ) (E lt : τ),
    LLinv m tock (((k + 1 : Nat) : τ) * tock) E lt →
    losslessFrom tock E lt k (wait clk fuel m c).1 ∧
      (accL E lt k (wait clk fuel m c).1).2.2 = k ∧
      ∀ m' c', (wait clk fuel m c).2 = .ok (m', c') →
        LLinv m' tock (((k + 1 : Nat) : τ) * tock) (accL E lt k (wait clk fuel m c).1).1 (accL E lt k (wait clk fuel m c).1).2.1
          ∧ m'.stop ≤ m'.last
  | 0, m, c, E, lt, h => by simp [wait, losslessFrom, accL]
  | fuel + 1, m, c, E, lt, h => by
    unfold wait
    cases hr : clk.read c with
    | none => simp [losslessFrom, accL]
    | some p =>
      obtain ⟨r, c1⟩ := p
      obtain ⟨m1, he, hs1⟩ := m.expired_retro r h.retro
      have h1 := h.step hs1
      simp only [he]
      by_cases hx : m1.stop ≤ m1.last
      · simp only [hx, decide_true, losslessFrom, accL, true_and]
        intro m' c' heq
        injection heq with heq; injection heq with e1 e2
        subst e1
        exact ⟨h1, hx⟩
      · simp only [hx, decide_false]
        cases hr2 : clk.read c1 with
        | none => simp [losslessFrom, accL]
        | some p2 =>
          obtain ⟨r2, c2⟩ := p2
          obtain ⟨m2, hrem, hs2⟩ := m1.remaining_retro r2 h1.retro
          have h2 := h1.step hs2
          simp only [hrem, losslessFrom, accL]
          refine ⟨⟨?_, (wait_ll clk tock k fuel m2 _ _ _ h2).1⟩, (wait_ll clk tock k fuel m2 _ _ _ h2).2⟩
          rw [h2.rem]

theorem cycles_ll {σ} (clk : Clock τ σ) (fuel : Nat) (tock : τ) : ∀ (n k : Nat) (m : Mono τ) (c : σ) (xs : List DScript) (E lt : τ) (j : Nat),
    LLinv m tock (((k + 1 : Nat) : τ) * tock) E lt → (1 ≤ k → (k : τ) * tock ≤ E) →
    losslessFrom tock E lt j (cycles clk fuel n k m c xs).1
  | 0, k, m, c, xs, E, lt, j, _, _ => by simp [cycles, losslessFrom]
  | n + 1, k, m, c, xs, E, lt, j, h, hk => by
    unfold cycles
    obtain ⟨hx1, hx2⟩ := xreads_ll clk tock (xhead xs) c E lt k
    cases hxr : (xreads clk (xhead xs) c).2 with
    | none => simp only [losslessFrom]; exact ⟨hk, hx1⟩
    | some c1 =>
      dsimp only
      obtain ⟨hw1, hwk, hw2⟩ := wait_ll clk tock k fuel m c1 E lt h
      cases hwr : (wait clk fuel m c1).2 with
      | error e =>
        simp only [losslessFrom]
        refine ⟨hk, (losslessFrom_append tock _ _ E lt k).2 ⟨hx1, ?_⟩⟩
        rw [hx2]; exact hw1
      | ok p =>
        obtain ⟨m2, c2⟩ := p
        obtain ⟨hi, hexp⟩ := hw2 m2 c2 hwr
        simp only [losslessFrom]
        refine ⟨hk, (losslessFrom_append tock _ _ E lt k).2 ⟨hx1, ?_⟩⟩
        rw [hx2]
        refine (losslessFrom_append tock _ _ _ _ _).2 ⟨hw1, ?_⟩
        have hr := hi.restart
        rw [← succ_mul_tock] at hr
        apply cycles_ll clk fuel tock n (k + 1) _ c2 xs.tail _ _ _ hr
        intro _
        have := hi.rem
        oarith

theorem LLinv.init (m : Mono τ) (tock r0 : τ) (h : m.retro = true) :
    LLinv (m.startNow (some tock) r0) tock (((0 + 1 : Nat) : τ) * tock) 0 r0 := by
  refine ⟨h, ?_, ?_, ?_⟩ <;> simp [Mono.startNow, Mono.startAt, durOr] <;> oarith

theorem doRun_lossless {σ} (clk : Clock τ σ) (fuel : Nat) (m : Mono τ) (c : σ) (tock : τ) (n : Nat) (xs : List DScript)
    (h : m.retro = true) : Lossless tock (doRun clk fuel m c tock n xs).1 := by
  unfold doRun
  cases hr : clk.read c with
  | none => simp [Lossless]
  | some p =>
    obtain ⟨r0, c1⟩ := p
    simp only [Lossless]
    exact cycles_ll clk fuel tock n 0 _ c1 xs 0 r0 0 (LLinv.init m tock r0 h) (by intro h0; exact absurd h0 (by decide))


/-- the cycle a log position belongs to: the last `recur k` seen (or `k0`) -/
def cycleOf : Nat → List (Ev τ) → Nat
  | k, [] => k
  | _, .c j :: es => cycleOf j es
  | k, _ :: es => cycleOf k es

/-- scanning form ⇒ prefix form: every sleep request equals the time left to the deadline `(k+1) * tock` of the running
cycle `k`, measured from the start of the run over the timer's own readings -/
theorem losslessFrom_prefix (tock : τ) : ∀ (pre post : List (Ev τ)) (d E lt : τ) (k : Nat),
    losslessFrom tock E lt k (pre ++ .s d :: post) →
      d = max 0 (((cycleOf k pre : Nat) : τ) * tock + tock - (E + realElapsed lt (timerReadingsOf pre)))
  | [], post, d, E, lt, k, h => by
    simp only [List.nil_append, losslessFrom] at h
    have := h.1
    simp only [cycleOf, timerReadingsOf, realElapsed]
    rw [this]; push_cast; congr 1; ring
  | .t r :: pre, post, d, E, lt, k, h => by
    simp only [List.cons_append, losslessFrom] at h
    have := losslessFrom_prefix tock pre post d _ _ k h
    simp only [cycleOf, timerReadingsOf, realElapsed]; oarith
  | .x r :: pre, post, d, E, lt, k, h => by
    simp only [List.cons_append, losslessFrom] at h
    simpa [cycleOf, timerReadingsOf] using losslessFrom_prefix tock pre post d _ _ k h
  | .o e :: pre, post, d, E, lt, k, h => by
    simp only [List.cons_append, losslessFrom] at h
    simpa [cycleOf, timerReadingsOf] using losslessFrom_prefix tock pre post d _ _ k h
  | .s d' :: pre, post, d, E, lt, k, h => by
    simp only [List.cons_append, losslessFrom] at h
    simpa [cycleOf, timerReadingsOf] using losslessFrom_prefix tock pre post d _ _ k h.2
  | .c j :: pre, post, d, E, lt, k, h => by
    simp only [List.cons_append, losslessFrom] at h
    simpa [cycleOf, timerReadingsOf] using losslessFrom_prefix tock pre post d _ _ j h.2

/-! ## the timer `do()` finds: built by `Doist.__init__`, possibly peeked at -/

theorem Mono.new_retro {σ} (clk : Clock τ σ) (c : σ) (dur : τ) (start : Option τ) (retro : Bool) (rs : List τ) (m : Mono τ) (c' : σ)
    (h : Mono.new clk c dur start retro = (rs, some (m, c'))) : m.retro = retro := by
  unfold Mono.new at h
  split at h
  · injection h with _ h; injection h with h; injection h with h _; subst h; rfl
  · split at h
    · cases h
    · split at h
      · cases h
      · injection h with _ h; injection h with h; injection h with h _; subst h; rfl

theorem preRun_retro {σ} (clk : Clock τ σ) : ∀ (ps : List (PreOp τ)) (m : Mono τ) (c : σ) (tock : τ) (m' : Mono τ) (c' : σ) (tock' : τ),
    (preRun clk ps m c tock).2 = some (m', c', tock') → m'.retro = m.retro
  | [], m, c, tock, m', c', tock', h => by
    simp only [preRun] at h; injection h with h; injection h with h _; rw [h]
  | .setTock v :: ps, m, c, tock, m', c', tock', h => by
    simp only [preRun] at h; exact preRun_retro clk ps m c v m' c' tock' h
  | .xread :: ps, m, c, tock, m', c', tock', h => by
    simp only [preRun] at h
    split at h
    · cases h
    · exact preRun_retro clk ps m _ tock m' c' tock' h
  | .peek :: ps, m, c, tock, m', c', tock', h => by
    unfold preRun at h
    split at h
    · cases h
    · split at h
      · cases h
      · rename_i m1 he
        have : m1.retro = m.retro := by
          unfold Mono.elapsed at he
          split at he
          · rename_i hl
            injection he with he; injection he with _ he; subst he
            exact (Mono.latest_ok hl).2.retro
          · cases he
        rw [← this]
        exact preRun_retro clk ps m1 _ tock m' c' tock' h

/-- `doist.tock` when `do()` is called: the last value assigned, else the construction value -/
def tockAtRun (tock : τ) : List (PreOp τ) → τ
  | [] => tock
  | .setTock v :: ps => tockAtRun v ps
  | .peek :: ps => tockAtRun tock ps
  | .xread :: ps => tockAtRun tock ps

theorem preRun_tock {σ} (clk : Clock τ σ) : ∀ (ps : List (PreOp τ)) (m : Mono τ) (c : σ) (tock : τ) (m' : Mono τ) (c' : σ) (tock' : τ),
    (preRun clk ps m c tock).2 = some (m', c', tock') → tock' = tockAtRun tock ps
  | [], m, c, tock, m', c', tock', h => by
    simp only [preRun] at h; injection h with h; injection h with _ h; injection h with _ h; rw [h]; rfl
  | .setTock v :: ps, m, c, tock, m', c', tock', h => by
    simp only [preRun] at h; exact preRun_tock clk ps m c v m' c' tock' h
  | .xread :: ps, m, c, tock, m', c', tock', h => by
    simp only [preRun] at h
    split at h
    · cases h
    · exact preRun_tock clk ps m _ tock m' c' tock' h
  | .peek :: ps, m, c, tock, m', c', tock', h => by
    unfold preRun at h
    split at h
    · cases h
    · split at h
      · cases h
      · exact preRun_tock clk ps _ _ tock m' c' tock' h

/-- `paceRun` either never reaches `do()` (empty run log) or is `doRun` from a retro timer with the tock then in force -/
theorem paceRun_cases {σ} (dflt : τ) (clk : Clock τ σ) (fuel : Nat) (c : σ) (tock0 : Option τ) (pre : List (PreOp τ)) (n : Nat) (xs : List DScript)
    (hd : Gen.monoRetroDefault = true) :
    ((paceRun dflt clk fuel c tock0 pre n xs).run = [] ∧ (paceRun dflt clk fuel c tock0 pre n xs).tock = none) ∨
    ∃ m c', m.retro = true ∧
      (paceRun dflt clk fuel c tock0 pre n xs).tock = some (tockAtRun (tockOr dflt tock0) pre) ∧
      (paceRun dflt clk fuel c tock0 pre n xs).run =
        (doRun clk fuel m c' (tockAtRun (tockOr dflt tock0) pre) n xs).1 := by
  unfold paceRun
  dsimp only
  cases hn : Mono.new clk c (tockOr dflt tock0) none Gen.monoRetroDefault with
  | mk rs o =>
    cases o with
    | none => left; exact ⟨rfl, rfl⟩
    | some p =>
      obtain ⟨m, c1⟩ := p
      dsimp only
      have hm : m.retro = true := by rw [Mono.new_retro clk c _ none _ rs m c1 hn, hd]
      cases hp : preRun clk pre m c1 (tockOr dflt tock0) with
      | mk pe o2 =>
        cases o2 with
        | none => left; exact ⟨rfl, rfl⟩
        | some q =>
          obtain ⟨m2, c2, tock⟩ := q
          right
          have h2 : (preRun clk pre m c1 (tockOr dflt tock0)).2 = some (m2, c2, tock) := by rw [hp]
          have ht := preRun_tock clk pre m c1 _ m2 c2 tock h2
          have hr := preRun_retro clk pre m c1 _ m2 c2 tock h2
          refine ⟨m2, c2, by rw [hr, hm], ?_, ?_⟩
          · dsimp only; rw [ht]
          · dsimp only; rw [ht]


/-! ## C08: the virtual Tymer refines the reference timer -/

structure TSim (t : Tymer τ) (r : TRef τ) : Prop where
  wound : t.wound = r.wound
  start : t.start = r.start
  stop : t.stop = r.start + r.dur

theorem tsnap_eq_report (w : TWorld τ) (t : Tymer τ) (r : TRef τ) (h : TSim t r) (ret : Option τ) (raised : Bool := false) :
    tsnap w t ret raised = r.report w ret raised := by
  obtain ⟨hw, hs, hp⟩ := h
  have hd : t.stop - t.start = r.dur := by oarith
  unfold tsnap TRef.report Tymer.elapsed Tymer.remaining Tymer.expired Tymer.now TRef.now Tymer.duration
  rw [hw, hd, hs, hp]
  cases r.wound <;> rfl

theorem TSim.new (ddur : τ) (w : TWorld τ) (wound : Option Nat) (dur start : Option τ) :
    TSim (Tymer.new ddur w wound dur start) (TRef.new ddur w wound dur start) := by
  refine ⟨rfl, ?_, ?_⟩
  · cases start <;> cases wound <;> rfl
  · cases start <;> cases wound <;> cases dur <;> rfl

theorem trun_eq_rrun : ∀ (ops : List (TOp τ)) (w : TWorld τ) (t : Tymer τ) (r : TRef τ), TSim t r → trun w t ops = rrun w r ops
  | [], w, t, r, h => rfl
  | op :: ops, w, t, r, h => by
    obtain ⟨hw, hs, hp⟩ := h
    have hd : t.duration = r.dur := by unfold Tymer.duration; oarith
    cases op with
    | setTyme i v =>
      simp only [trun, rrun, tstep, rstep]
      rw [tsnap_eq_report _ t r ⟨hw, hs, hp⟩, trun_eq_rrun ops _ t r ⟨hw, hs, hp⟩]
    | tick i =>
      simp only [trun, rrun, tstep, rstep]
      rw [tsnap_eq_report _ t r ⟨hw, hs, hp⟩, trun_eq_rrun ops _ t r ⟨hw, hs, hp⟩]
    | start d s =>
      cases s with
      | some s =>
        have hsim : TSim { t with start := s, stop := s + durOr d t.duration }
            { r with start := s, dur := durOr d r.dur } := ⟨hw, rfl, by cases d <;> simp [durOr, hd]⟩
        simp only [trun, rrun, tstep, rstep, Tymer.startOp]
        rw [tsnap_eq_report _ _ _ hsim, trun_eq_rrun ops _ _ _ hsim]
      | none =>
        simp only [trun, rrun, tstep, rstep, Tymer.startOp, Tymer.now, TRef.now, hw]
        cases hwd : r.wound with
        | none =>
          simp only []
          rw [tsnap_eq_report _ t r ⟨hw, hs, hp⟩ none true, trun_eq_rrun ops _ t r ⟨hw, hs, hp⟩]
        | some i =>
          have hsim : TSim { wound := some i, start := w.tyme i, stop := w.tyme i + durOr d t.duration }
              { wound := some i, start := w.tyme i, dur := durOr d r.dur } := ⟨rfl, rfl, by cases d <;> simp [durOr, hd]⟩
          simp only []
          rw [tsnap_eq_report _ _ _ hsim, trun_eq_rrun ops _ _ _ hsim]
    | restart d =>
      have hsim : TSim { t with start := t.stop, stop := t.stop + durOr d t.duration }
          { r with start := r.start + r.dur, dur := durOr d r.dur } := ⟨hw, hp, by cases d <;> simp [durOr, hd, hp]⟩
      simp only [trun, rrun, tstep, rstep, Tymer.restartOp, Tymer.startOp]
      rw [tsnap_eq_report _ _ _ hsim, trun_eq_rrun ops _ _ _ hsim, hp]
    | setTock i v =>
      simp only [trun, rrun, tstep, rstep]
      rw [tsnap_eq_report _ t r ⟨hw, hs, hp⟩, trun_eq_rrun ops _ t r ⟨hw, hs, hp⟩]
    | nop =>
      simp only [trun, rrun, tstep, rstep]
      rw [tsnap_eq_report _ t r ⟨hw, hs, hp⟩, trun_eq_rrun ops _ t r ⟨hw, hs, hp⟩]
    | bad =>
      simp only [trun, rrun, tstep, rstep]
      rw [tsnap_eq_report _ t r ⟨hw, hs, hp⟩ none true, trun_eq_rrun ops _ t r ⟨hw, hs, hp⟩]
    | wind i =>
      have hsim : TSim { wound := some i, start := w.tyme i, stop := w.tyme i + durOr none (t.stop - t.start) }
          { r with wound := some i, start := w.tyme i } := ⟨rfl, rfl, by simp [← hd, durOr, Tymer.duration]⟩
      simp only [trun, rrun, tstep, rstep, Tymer.startOp, Tymer.now, Tymer.duration]
      rw [tsnap_eq_report _ _ _ hsim, trun_eq_rrun ops _ _ _ hsim]


theorem nat_succ_mul (k : Nat) (D : τ) : ((k + 1 : Nat) : τ) * D = (k : τ) * D + D := by
  push_cast; ring

/-- tyme changes and plain restarts, in any number and order: `k` restarts move start and stop by exactly `k` durations -/
theorem texec_restarts (D : τ) : ∀ (ops : List (TOp τ)) (w : TWorld τ) (t : Tymer τ),
    (∀ op ∈ ops, op.tymeOrRestart = true) → t.stop - t.start = D →
    ∃ w' t', texec w t ops = some (w', t') ∧ t'.wound = t.wound ∧
      t'.start = t.start + (restartsIn ops : τ) * D ∧ t'.stop = t.stop + (restartsIn ops : τ) * D
  | [], w, t, _, _ => ⟨w, t, rfl, rfl, by simp [restartsIn], by simp [restartsIn]⟩
  | op :: ops, w, t, hall, hD => by
    have hop := hall op (List.mem_cons_self)
    have hrest : ∀ o ∈ ops, o.tymeOrRestart = true := fun o ho => hall o (List.mem_cons_of_mem _ ho)
    cases op with
    | setTyme i v =>
      obtain ⟨w', t', h1, h2, h3, h4⟩ := texec_restarts D ops (w.set i v) t hrest hD
      exact ⟨w', t', by simp only [texec, tstep]; exact h1, h2, by simpa [restartsIn] using h3, by simpa [restartsIn] using h4⟩
    | tick i =>
      obtain ⟨w', t', h1, h2, h3, h4⟩ := texec_restarts D ops (w.set i (w.tyme i + w.tock i)) t hrest hD
      exact ⟨w', t', by simp only [texec, tstep]; exact h1, h2, by simpa [restartsIn] using h3, by simpa [restartsIn] using h4⟩
    | start d s => simp [TOp.tymeOrRestart] at hop
    | wind i => simp [TOp.tymeOrRestart] at hop
    | setTock i v => simp [TOp.tymeOrRestart] at hop
    | bad => simp [TOp.tymeOrRestart] at hop
    | nop => simp [TOp.tymeOrRestart] at hop
    | restart d =>
      cases d with
      | some d => simp [TOp.tymeOrRestart] at hop
      | none =>
        have hD' : ({ t with start := t.stop, stop := t.stop + durOr none t.duration } : Tymer τ).stop
            - ({ t with start := t.stop, stop := t.stop + durOr none t.duration } : Tymer τ).start = D := by
          simp only [durOr, Tymer.duration]; oarith
        obtain ⟨w', t', h1, h2, h3, h4⟩ := texec_restarts D ops w _ hrest hD'
        refine ⟨w', t', by simp only [texec, tstep, Tymer.restartOp, Tymer.startOp]; exact h1, h2, ?_, ?_⟩
        · rw [h3]; simp only [restartsIn, nat_succ_mul]; oarith
        · rw [h4]; simp only [restartsIn, nat_succ_mul, durOr, Tymer.duration]; oarith

/-! ## C08: MonoTimer -/

theorem realElapsed_nonneg : ∀ (rs : List τ) (ℓ : τ), 0 ≤ realElapsed ℓ rs
  | [], _ => by simp [realElapsed]
  | r :: rs, ℓ => by have := realElapsed_nonneg rs r; simp only [realElapsed]; oarith

/-- one observation never moves elapsed down nor remaining up, and reports the timer's own `last - start` / `last ≥ stop` -/
theorem mstep_obs {σ} (clk : Clock τ σ) (m m' : Mono τ) (c c' : σ) (op : MOp τ) (v : MVal τ) (hop : op.isObs = true)
    (h : mstep clk m c op = some (v, m', c')) :
    m.last - m.start ≤ m'.last - m'.start ∧ m.last - m.stop ≤ m'.last - m'.stop ∧
      (∀ x, elapsedVal? op (some (v, c')) = some x → x = m'.last - m'.start) ∧
      (∀ b, expiredVal? op (some (v, c')) = some b → b = decide (m'.stop ≤ m'.last)) := by
  have key : ∀ (r l : τ) (m1 : Mono τ), m.latest r = .ok (l, m1) →
      l = m1.last ∧ m.last - m.start ≤ m1.last - m1.start ∧ m.last - m.stop ≤ m1.last - m1.stop := by
    intro r l m1 hl
    obtain ⟨h1, hs⟩ := Mono.latest_ok hl
    have := hs.rem; have := hs.ela; have hl' := hs.last
    exact ⟨by rw [h1, hl'], by oarith, by oarith⟩
  cases op with
  | start d s => simp [MOp.isObs] at hop
  | restart d => simp [MOp.isObs] at hop
  | setRetro b =>
    simp only [mstep] at h
    injection h with h; injection h with h1 h; injection h with h2 h3
    subst h2
    exact ⟨le_refl _, le_refl _, by intro x hx; simp [elapsedVal?] at hx, by intro b hb; simp [expiredVal?] at hb⟩
  | bad =>
    simp only [mstep] at h
    injection h with h; injection h with h1 h; injection h with h2 h3
    subst h2
    exact ⟨le_refl _, le_refl _, by intro x hx; simp [elapsedVal?] at hx, by intro b hb; simp [expiredVal?] at hb⟩
  | other rd =>
    cases rd with
    | false =>
      simp only [mstep] at h
      injection h with h; injection h with h1 h; injection h with h2 h3
      subst h2
      exact ⟨le_refl _, le_refl _, by intro x hx; simp [elapsedVal?] at hx, by intro b hb; simp [expiredVal?] at hb⟩
    | true =>
      simp only [mstep] at h
      split at h
      · cases h
      · injection h with h; injection h with h1 h; injection h with h2 h3
        subst h2
        exact ⟨le_refl _, le_refl _, by intro x hx; simp [elapsedVal?] at hx, by intro b hb; simp [expiredVal?] at hb⟩
  | duration =>
    simp only [mstep] at h
    injection h with h; injection h with h1 h; injection h with h2 h3
    subst h2
    exact ⟨by oarith, by oarith, by intro x hx; simp [elapsedVal?] at hx, by intro b hb; simp [expiredVal?] at hb⟩
  | elapsed =>
    simp only [mstep] at h
    split at h
    · cases h
    · unfold Mono.elapsed at h
      split at h
      · rename_i hl; split at hl
        · rename_i l m1 hlat
          injection hl with hl; injection hl with e1 e2
          injection h with h; injection h with h1 h; injection h with h2 h3
          subst h2; subst e2
          obtain ⟨k1, k2, k3⟩ := key _ _ _ hlat
          refine ⟨k2, k3, ?_, by intro b hb; simp [expiredVal?] at hb⟩
          intro x hx
          rw [← h1] at hx
          simp only [elapsedVal?] at hx
          injection hx with hx
          oarith
        · cases hl
      · injection h with h; injection h with h1 h; injection h with h2 h3
        subst h2
        rw [← h1]
        exact ⟨by oarith, by oarith, by intro x hx; simp [elapsedVal?] at hx, by intro b hb; simp [expiredVal?] at hb⟩
  | remaining =>
    simp only [mstep] at h
    split at h
    · cases h
    · unfold Mono.remaining at h
      split at h
      · rename_i hl; split at hl
        · rename_i l m1 hlat
          injection hl with hl; injection hl with e1 e2
          injection h with h; injection h with h1 h; injection h with h2 h3
          subst h2; subst e2
          obtain ⟨k1, k2, k3⟩ := key _ _ _ hlat
          exact ⟨k2, k3, by intro x hx; simp [elapsedVal?] at hx, by intro b hb; simp [expiredVal?] at hb⟩
        · cases hl
      · injection h with h; injection h with h1 h; injection h with h2 h3
        subst h2
        exact ⟨by oarith, by oarith, by intro x hx; simp [elapsedVal?] at hx, by intro b hb; simp [expiredVal?] at hb⟩
  | latest =>
    simp only [mstep] at h
    split at h
    · cases h
    · split at h
      · rename_i l m1 hlat
        injection h with h; injection h with h1 h; injection h with h2 h3
        subst h2
        obtain ⟨k1, k2, k3⟩ := key _ _ _ hlat
        exact ⟨k2, k3, by intro x hx; simp [elapsedVal?] at hx, by intro b hb; simp [expiredVal?] at hb⟩
      · injection h with h; injection h with h1 h; injection h with h2 h3
        subst h2
        exact ⟨by oarith, by oarith, by intro x hx; simp [elapsedVal?] at hx, by intro b hb; simp [expiredVal?] at hb⟩
  | expired =>
    simp only [mstep] at h
    split at h
    · cases h
    · unfold Mono.expired at h
      split at h
      · rename_i hl; split at hl
        · rename_i l m1 hlat
          injection hl with hl; injection hl with e1 e2
          injection h with h; injection h with h1 h; injection h with h2 h3
          subst h2; subst e2
          obtain ⟨k1, k2, k3⟩ := key _ _ _ hlat
          refine ⟨k2, k3, by intro x hx; simp [elapsedVal?] at hx, ?_⟩
          intro b hb
          rw [← h1] at hb
          simp only [expiredVal?] at hb
          injection hb with hb
          rw [← hb, ← e1, k1]
        · cases hl
      · injection h with h; injection h with h1 h; injection h with h2 h3
        subst h2
        rw [← h1]
        exact ⟨by oarith, by oarith, by intro x hx; simp [elapsedVal?] at hx, by intro b hb; simp [expiredVal?] at hb⟩


/-- between two start/restart calls: the `elapsed` results are non-decreasing (and never below the timer's current
elapsed), for every clock and every timer (retro or not) -/
theorem mrun_elapsed_sorted {σ} (clk : Clock τ σ) : ∀ (ops : List (MOp τ)) (m : Mono τ) (c : σ),
    (∀ op ∈ ops, op.isObs = true) →
    List.Pairwise (· ≤ ·) (elapsedVals ops (mrun clk m c ops)) ∧
      ∀ v ∈ elapsedVals ops (mrun clk m c ops), m.last - m.start ≤ v
  | [], m, c, _ => by simp [elapsedVals]
  | op :: ops, m, c, hall => by
    have hop := hall op (List.mem_cons_self)
    have hrest : ∀ o ∈ ops, o.isObs = true := fun o ho => hall o (List.mem_cons_of_mem _ ho)
    unfold mrun
    cases hs : mstep clk m c op with
    | none =>
      have : elapsedVal? op (none : Option (MVal τ × σ)) = none := by cases op <;> rfl
      simp [elapsedVals, this]
    | some p =>
      obtain ⟨v, m', c'⟩ := p
      obtain ⟨k1, _, k3, _⟩ := mstep_obs clk m m' c c' op v hop hs
      obtain ⟨ih1, ih2⟩ := mrun_elapsed_sorted clk ops m' c' hrest
      simp only [elapsedVals]
      cases he : elapsedVal? op (some (v, c')) with
      | none => exact ⟨ih1, fun x hx => by have := ih2 x hx; oarith⟩
      | some x =>
        have hx := k3 x he
        refine ⟨List.pairwise_cons.2 ⟨fun y hy => by have := ih2 y hy; oarith, ih1⟩, ?_⟩
        intro y hy
        rcases List.mem_cons.1 hy with rfl | hy
        · oarith
        · have := ih2 y hy; oarith

/-- between two start/restart calls: once `expired` has been reported true it is never reported false again -/
theorem mrun_expired_monotone {σ} (clk : Clock τ σ) : ∀ (ops : List (MOp τ)) (m : Mono τ) (c : σ),
    (∀ op ∈ ops, op.isObs = true) →
    List.Pairwise (fun a b => a = true → b = true) (expiredVals ops (mrun clk m c ops)) ∧
      ∀ b ∈ expiredVals ops (mrun clk m c ops), m.stop ≤ m.last → b = true
  | [], m, c, _ => by simp [expiredVals]
  | op :: ops, m, c, hall => by
    have hop := hall op (List.mem_cons_self)
    have hrest : ∀ o ∈ ops, o.isObs = true := fun o ho => hall o (List.mem_cons_of_mem _ ho)
    unfold mrun
    cases hs : mstep clk m c op with
    | none =>
      have : expiredVal? op (none : Option (MVal τ × σ)) = none := by cases op <;> rfl
      simp [expiredVals, this]
    | some p =>
      obtain ⟨v, m', c'⟩ := p
      obtain ⟨_, k2, _, k4⟩ := mstep_obs clk m m' c c' op v hop hs
      obtain ⟨ih1, ih2⟩ := mrun_expired_monotone clk ops m' c' hrest
      simp only [expiredVals]
      cases he : expiredVal? op (some (v, c')) with
      | none => exact ⟨ih1, fun x hx hm => ih2 x hx (by oarith)⟩
      | some x =>
        have hx := k4 x he
        refine ⟨List.pairwise_cons.2 ⟨fun y hy hxt => ih2 y hy (by rw [hx] at hxt; simpa using hxt), ih1⟩, ?_⟩
        intro y hy hm
        rcases List.mem_cons.1 hy with rfl | hy
        · rw [hx]; simp; oarith
        · exact ih2 y hy (by oarith)

/-- a retro timer fed any readings and restarts: it never raises, keeps its duration `D`, and its elapsed / remaining are
the real elapsed time over the readings, shifted by one duration per restart -/
theorem feed_exact (D : τ) : ∀ (es : List (MEv τ)) (m : Mono τ), m.retro = true → m.stop - m.start = D →
    ∃ m', m.feed es = .ok m' ∧ m'.retro = true ∧ m'.stop - m'.start = D ∧
      m'.last - m'.start = (m.last - m.start) + realElapsed m.last (readsOf es) - (restartsOf es : τ) * D ∧
      m'.stop - m'.last = (m.stop - m.last) - realElapsed m.last (readsOf es) + (restartsOf es : τ) * D
  | [], m, h, hD => ⟨m, rfl, h, hD, by simp [readsOf, realElapsed, restartsOf], by simp [readsOf, realElapsed, restartsOf]⟩
  | .read r :: es, m, h, hD => by
    obtain ⟨m1, hl⟩ := m.latest_retro r h
    have hs := (Mono.latest_ok hl).2
    obtain ⟨m', h1, h2, h3, h4, h5⟩ := feed_exact D es m1 (by rw [hs.retro, h]) (by rw [hs.dur, hD])
    refine ⟨m', by simp only [Mono.feed, hl]; exact h1, h2, h3, ?_, ?_⟩
    · have := hs.ela; have := hs.last; simp only [readsOf, realElapsed, restartsOf]; rw [h4, hs.last]; oarith
    · have := hs.rem; have := hs.last; simp only [readsOf, realElapsed, restartsOf]; rw [h5, hs.last]; oarith
  | .restart :: es, m, h, hD => by
    have hD' : (m.restart none).stop - (m.restart none).start = D := by
      simp only [Mono.restart, Mono.startAt, Mono.duration, durOr]; oarith
    obtain ⟨m', h1, h2, h3, h4, h5⟩ := feed_exact D es (m.restart none) h hD'
    refine ⟨m', by simp only [Mono.feed]; exact h1, h2, h3, ?_, ?_⟩
    · rw [h4]; simp only [readsOf, restartsOf, nat_succ_mul, Mono.restart, Mono.startAt, Mono.duration, durOr]; oarith
    · rw [h5]; simp only [readsOf, restartsOf, nat_succ_mul, Mono.restart, Mono.startAt, Mono.duration, durOr]; oarith


theorem realElapsed_snoc : ∀ (rs : List τ) (ℓ r : τ),
    realElapsed ℓ (rs ++ [r]) = realElapsed ℓ rs + max 0 (r - lastReading ℓ rs)
  | [], ℓ, r => by simp [realElapsed, lastReading]
  | x :: rs, ℓ, r => by simp only [List.cons_append, realElapsed, lastReading, realElapsed_snoc rs x r]; oarith

theorem feed_last : ∀ (es : List (MEv τ)) (m m' : Mono τ), m.feed es = .ok m' → m'.last = lastReading m.last (readsOf es)
  | [], m, m', h => by simp only [Mono.feed] at h; injection h with h; subst h; rfl
  | .read r :: es, m, m', h => by
    simp only [Mono.feed] at h
    split at h
    · rename_i l m1 hl
      rw [feed_last es m1 m' h, (Mono.latest_ok hl).2.last]; rfl
    · cases h
  | .restart :: es, m, m', h => by
    simp only [Mono.feed] at h
    rw [feed_last es _ m' h]; rfl

end Hio.Timer
