import HioModel.Timer.Model
/-!
# What the properties say, as predicates on logs (C07) — no reference to the model's internals

A log is what the adapter records on the real code: clock readings (`t` by the timer, `x` by anybody else),
`time.sleep` requests (`s d`) and the beginning of every `recur()` (`c k`).
-/
namespace Hio.Timer

variable {τ : Type} [Add τ] [Sub τ] [LT τ] [LE τ] [DecidableLT τ] [DecidableLE τ] [Max τ] [Zero τ] [Mul τ] [NatCast τ]

/-- elapsed real time over a list of successive clock readings that follow the reading `ℓ`: the sum of the
non-negative increments (a backward step is a clock adjustment, not time running backwards) -/
def realElapsed : τ → List τ → τ
  | _, [] => 0
  | ℓ, r :: rs => max 0 (r - ℓ) + realElapsed r rs

/-- all clock readings in a log, whoever made them -/
def readingsOf : List (Ev τ) → List τ
  | [] => []
  | .t r :: es => r :: readingsOf es
  | .x r :: es => r :: readingsOf es
  | .s _ :: es => readingsOf es
  | .c _ :: es => readingsOf es
  | .o _ :: es => readingsOf es

/-- the clock readings the timer itself made -/
def timerReadingsOf : List (Ev τ) → List τ
  | [] => []
  | .t r :: es => r :: timerReadingsOf es
  | .x _ :: es => timerReadingsOf es
  | .s _ :: es => timerReadingsOf es
  | .c _ :: es => timerReadingsOf es
  | .o _ :: es => timerReadingsOf es

/-- never early, scanning form: `F` = elapsed real time so far, `ℓ` = last reading so far;
cycle `k ≥ 1` begins only when `k * tock ≤ F` -/
def neverEarlyFrom (tock : τ) : τ → τ → List (Ev τ) → Prop
  | _, _, [] => True
  | F, ℓ, .t r :: es => neverEarlyFrom tock (F + max 0 (r - ℓ)) r es
  | F, ℓ, .x r :: es => neverEarlyFrom tock (F + max 0 (r - ℓ)) r es
  | F, ℓ, .s _ :: es => neverEarlyFrom tock F ℓ es
  | F, ℓ, .o _ :: es => neverEarlyFrom tock F ℓ es
  | F, ℓ, .c k :: es => (1 ≤ k → (k : τ) * tock ≤ F) ∧ neverEarlyFrom tock F ℓ es

/-- lossless, scanning form: `E` = elapsed real time the timer could see (over its own readings), `lt` = its last
reading, `k` = the cycle that is running.  Cycle `k ≥ 1` begins only when `k * tock ≤ E`, and every sleep requested
while waiting after cycle `k` is exactly the time left to the deadline `(k+1) * tock` — the deadlines are the multiples
of `tock` counted from the start of the run, whatever the lateness of the earlier cycles. -/
def losslessFrom (tock : τ) : τ → τ → Nat → List (Ev τ) → Prop
  | _, _, _, [] => True
  | E, lt, k, .t r :: es => losslessFrom tock (E + max 0 (r - lt)) r k es
  | E, lt, k, .x _ :: es => losslessFrom tock E lt k es
  | E, lt, k, .o _ :: es => losslessFrom tock E lt k es
  | E, lt, k, .s d :: es => d = max 0 (((k + 1 : Nat) : τ) * tock - E) ∧ losslessFrom tock E lt k es
  | E, lt, _, .c k :: es => (1 ≤ k → (k : τ) * tock ≤ E) ∧ losslessFrom tock E lt k es

/-- a run log: empty (the clock script ran out before `timer.start()`), or the start reading followed by events -/
def NeverEarly (tock : τ) : List (Ev τ) → Prop
  | [] => True
  | .t r0 :: es => neverEarlyFrom tock 0 r0 es
  | _ => False

def Lossless (tock : τ) : List (Ev τ) → Prop
  | [] => True
  | .t r0 :: es => losslessFrom tock 0 r0 0 es
  | _ => False


/-! ## C08, virtual timer: the reference the property describes

A timer is a start and a duration; `stop = start + duration`; it reports `elapsed = now - start`,
`remaining = stop - now`, `expired ⇔ now ≥ stop`; `start` begins a period at the given start (or now), `restart` begins the
next period at the previous stop; the duration is kept unless a new one is given. -/

structure TRef (τ : Type) where
  wound : Option Nat
  start : τ
  dur : τ

def TRef.now (w : TWorld τ) (r : TRef τ) : Option τ :=
  match r.wound with
  | some i => some (w.tyme i)
  | none => none

/-- what the property says must be reported -/
def TRef.report (w : TWorld τ) (r : TRef τ) (ret : Option τ) (raised : Bool := false) : TSnap τ :=
  match r.now w with
  | some now =>
    { raised := raised, ret := ret, duration := r.dur, elapsed := .ok (now - r.start), remaining := .ok (r.start + r.dur - now),
      expired := .ok (decide (now ≥ r.start + r.dur)) }
  | none =>   -- a timer that is not wound to a tymist has no `now`
    { raised := raised, ret := ret, duration := r.dur, elapsed := .error .typeError, remaining := .error .typeError, expired := .error .typeError }

def rstep (w : TWorld τ) (r : TRef τ) : TOp τ → Option (TWorld τ × TRef τ × Option τ)
  | .setTyme i v => some (w.set i v, r, none)
  | .tick i => some (w.set i (w.tyme i + w.tock i), r, none)
  | .start d (some s) => some (w, { r with start := s, dur := durOr d r.dur }, some s)
  | .start d none => match r.now w with
    | some now => some (w, { r with start := now, dur := durOr d r.dur }, some now)
    | none => none
  | .restart d => some (w, { r with start := r.start + r.dur, dur := durOr d r.dur }, some (r.start + r.dur))
  | .wind i => some (w, { r with wound := some i, start := w.tyme i }, none)
  | .setTock i v => some (w.setTock i v, r, none)
  | .bad => none
  | .nop => some (w, r, none)

/-- a rejected call (`none`) is reported as raised and changes nothing -/
def rrun (w : TWorld τ) (r : TRef τ) : List (TOp τ) → List (TSnap τ)
  | [] => []
  | op :: ops => match rstep w r op with
    | some (w', r', ret) => r'.report w' ret :: rrun w' r' ops
    | none => r.report w none true :: rrun w r ops

/-- `Tymer(tymth, duration, start)`: duration defaults to `Tymer.Duration`, start to the current tyme (0 when not wound) -/
def TRef.new (ddur : τ) (w : TWorld τ) (wound : Option Nat) (dur start : Option τ) : TRef τ :=
  { wound := wound, dur := durOr dur ddur,
    start := match start, wound with
      | some s, _ => s
      | none, some i => w.tyme i
      | none, none => 0 }

/-- final state after a list of operations (`none` if one raised) -/
def texec (w : TWorld τ) (t : Tymer τ) : List (TOp τ) → Option (TWorld τ × Tymer τ)
  | [] => some (w, t)
  | op :: ops => match tstep w t op with
    | .ok (w', t', _) => texec w' t' ops
    | .error _ => none

/-- operations that only move tyme or restart with the current duration -/
def TOp.tymeOrRestart : TOp τ → Bool
  | .setTyme _ _ => true
  | .tick _ => true
  | .restart none => true
  | _ => false

def restartsIn : List (TOp τ) → Nat
  | [] => 0
  | .restart _ :: ops => restartsIn ops + 1
  | _ :: ops => restartsIn ops

/-! ## C08, MonoTimer -/

/-- what happens to a MonoTimer between observations: it sees a clock reading, or it is restarted with its duration -/
inductive MEv (τ : Type)
  | read (r : τ)
  | restart
deriving Repr

def readsOf : List (MEv τ) → List τ
  | [] => []
  | .read r :: es => r :: readsOf es
  | .restart :: es => readsOf es

def restartsOf : List (MEv τ) → Nat
  | [] => 0
  | .read _ :: es => restartsOf es
  | .restart :: es => restartsOf es + 1

/-- the last of the readings `rs` that follow the reading `ℓ` -/
def lastReading : τ → List τ → τ
  | ℓ, [] => ℓ
  | _, r :: rs => lastReading r rs

/-- feed readings (through `.latest`) and restarts to a timer -/
def Mono.feed (m : Mono τ) : List (MEv τ) → Except Exn (Mono τ)
  | [] => .ok m
  | .read r :: es => match m.latest r with
    | .ok (_, m') => m'.feed es
    | .error e => .error e
  | .restart :: es => (m.restart none).feed es

def elapsedVal? {σ} : MOp τ → Option (MVal τ × σ) → Option τ
  | .elapsed, some (.int v, _) => some v
  | _, _ => none

def expiredVal? {σ} : MOp τ → Option (MVal τ × σ) → Option Bool
  | .expired, some (.bool v, _) => some v
  | _, _ => none

/-- the `elapsed` results among the results of a scenario, in order -/
def elapsedVals {σ} : List (MOp τ) → List (Option (MVal τ × σ)) → List τ
  | op :: ops, r :: rs => match elapsedVal? op r with
    | some v => v :: elapsedVals ops rs
    | none => elapsedVals ops rs
  | _, _ => []

/-- the `expired` results among the results of a scenario, in order -/
def expiredVals {σ} : List (MOp τ) → List (Option (MVal τ × σ)) → List Bool
  | op :: ops, r :: rs => match expiredVal? op r with
    | some v => v :: expiredVals ops rs
    | none => expiredVals ops rs
  | _, _ => []

/-- operations that do not begin a new period -/
def MOp.isObs : MOp τ → Bool
  | .start _ _ => false
  | .restart _ => false
  | _ => true

end Hio.Timer
