import HioModel.Timer.Model
namespace Hio.Timer
end Hio.Timer
