import HioModel.Timer.Lemmas
/-!
# C08 — timers measure elapsed tyme exactly and restart losslessly

Property theorems only.  Model: `HioModel/Timer/Model.lean` (`Tymer`, `tstep`, `trun`; `Mono`, `mstep`, `mrun`);
reference and spec definitions: `HioModel/Timer/Spec.lean`.  All theorems are over `τ` time values, for every op list /
every tymist behaviour / every clock (`Clock τ σ` is an arbitrary state machine) / every reading sequence.

Two defects in `MonoTimer` were repaired in the tree (branch fix/timer: 2e63a16 `start()` left `._last` stale, 6fc7548
`remaining` used the pre-shift stop); the model is of the repaired code, so `mono_measures_exactly` is unconditional.
A rejected call (`Tymer.start()` at the current tyme on a tymer that is not wound; an argument `float()` refuses) raises and
leaves the timer as it was (repaired: efaf005, 9dcb362); the trace goes on and `tymer_reports_exactly` covers what follows.
-/
namespace Hio.Timer

variable {τ : Type} [CommRing τ] [LinearOrder τ] [IsStrictOrderedRing τ]

/-- C08 (virtual timer): for every pair of tymists, every constructor call and EVERY sequence of tyme assignments (forward
or rewinds), ticks, starts, restarts and re-windings, what the Tymer reports after each step — returned start, duration,
elapsed, remaining, expired, or `TypeError` while not wound — is exactly what the reference timer of the property reports:
`elapsed = now - start`, `remaining = start + duration - now`, `expired ⇔ now ≥ start + duration`, where `start` is the
given / current / previous-stop value of the last `start`/`restart` and the duration is kept unless given. -/
theorem tymer_reports_exactly (ddur : τ) (w : TWorld τ) (wound : Option Nat) (dur start : Option τ) (ops : List (TOp τ)) :
    tsnap w (Tymer.new ddur w wound dur start) none = (TRef.new ddur w wound dur start).report w none ∧
    trun w (Tymer.new ddur w wound dur start) ops = rrun w (TRef.new ddur w wound dur start) ops :=
  ⟨tsnap_eq_report w _ _ (TSim.new ddur w wound dur start) none, trun_eq_rrun ops w _ _ (TSim.new ddur w wound dur start)⟩

/-- the same from any timer state, stated on the three reports directly -/
theorem tymer_elapsed_remaining_expired (w : TWorld τ) (t : Tymer τ) (i : Nat) (h : t.wound = some i) :
    t.elapsed w = .ok (w.tyme i - t.start) ∧ t.remaining w = .ok (t.stop - w.tyme i) ∧
      t.expired w = .ok (decide (w.tyme i ≥ t.stop)) := by
  simp [Tymer.elapsed, Tymer.remaining, Tymer.expired, Tymer.now, h]

/-- C08: restart never raises, returns the previous stop, begins the next period there, and keeps the duration unless a
new one is given -/
theorem tymer_restart_at_previous_stop (w : TWorld τ) (t : Tymer τ) (d : Option τ) :
    ∃ t', t.restartOp w d = .ok (t', t.stop) ∧ t'.start = t.stop ∧ t'.stop = t.stop + durOr d t.duration ∧
      t'.wound = t.wound :=
  ⟨_, rfl, rfl, rfl, rfl⟩

/-- C08 lossless: any number of plain restarts interleaved with ARBITRARY tyme changes — however late each restart
happens — leaves the period boundaries on the original grid: after `k` restarts the period is
`[start₀ + k·duration, start₀ + (k+1)·duration)`. -/
theorem tymer_restarts_lossless (w : TWorld τ) (t : Tymer τ) (ops : List (TOp τ)) (h : ∀ op ∈ ops, op.tymeOrRestart = true) :
    ∃ w' t', texec w t ops = some (w', t') ∧
      t'.start = t.start + (restartsIn ops : τ) * t.duration ∧
      t'.stop = t.start + ((restartsIn ops : τ) + 1) * t.duration := by
  obtain ⟨w', t', h1, _, h3, h4⟩ := texec_restarts t.duration ops w t h rfl
  refine ⟨w', t', h1, h3, ?_⟩
  rw [h4]; simp only [Tymer.duration]; ring

/-- durations are arbitrary elements of `τ` in every theorem of this file — negative ones included (no `0 ≤ d` hypothesis
anywhere): `stop = start + d` for every `d` through the constructor, `start` and `restart`.  Test on literals: a tymer built
with duration −5 at tyme 0 has stop −5 and is expired at once; `restart(-3)` begins at −5 and stops at −8. -/
example : (Tymer.new (0 : Int) ⟨fun _ => 0, fun _ => 1⟩ (some 0) (some (-5)) none).stop = -5 ∧
    (Tymer.new (0 : Int) ⟨fun _ => 0, fun _ => 1⟩ (some 0) (some (-5)) none).expired ⟨fun _ => 0, fun _ => 1⟩ = .ok true ∧
    ((Tymer.new (0 : Int) ⟨fun _ => 0, fun _ => 1⟩ (some 0) (some (-5)) none).restartOp ⟨fun _ => 0, fun _ => 1⟩ (some (-3))).map
      (fun p => (p.1.start, p.1.stop)) = .ok (-5, -8) := by decide

example : (∀ op ∈ [(TOp.setTyme 0 17 : TOp Int), .restart none, .tick 0, .setTyme 0 3, .restart none], op.tymeOrRestart = true) := by decide

/-- C08 (MonoTimer): between two start/restart calls the reported `elapsed` values never decrease — for every timer state
(retro or not, however it was started), every clock, every reading sequence (stalls, backward steps anywhere) -/
theorem mono_elapsed_never_decreases {σ} (clk : Clock τ σ) (m : Mono τ) (c : σ) (ops : List (MOp τ))
    (h : ∀ op ∈ ops, op.isObs = true) :
    List.Pairwise (· ≤ ·) (elapsedVals ops (mrun clk m c ops)) :=
  (mrun_elapsed_sorted clk ops m c h).1

/-- C08 (MonoTimer): between two start/restart calls `expired` never reverts from True to False -/
theorem mono_expired_never_reverts {σ} (clk : Clock τ σ) (m : Mono τ) (c : σ) (ops : List (MOp τ))
    (h : ∀ op ∈ ops, op.isObs = true) :
    List.Pairwise (fun a b => a = true → b = true) (expiredVals ops (mrun clk m c ops)) :=
  (mrun_expired_monotone clk ops m c h).1

example : (∀ op ∈ [(MOp.elapsed : MOp Int), .expired, .remaining, .latest, .duration, .elapsed], op.isObs = true) := by decide

/-- `start()` at the clock reading `r0` forgets everything the timer saw before (the repaired defect: `._last` used to
survive, so a clock step before `start()` was charged to the new period) -/
theorem mono_start_forgets_the_past (m : Mono τ) (d r0 : τ) :
    m.startNow (some d) r0 = { start := r0, stop := r0 + d, last := r0, retro := m.retro } := rfl

/-- C08 (MonoTimer measures exactly, restarts losslessly): a retro timer started at reading `r0` with duration `d`, then
shown ANY readings and restarted any number of times in any order, never raises, and at the next reading `r` reports
`elapsed` = the real elapsed time since `r0` (sum of the non-negative increments) minus one `d` per restart,
`remaining` = `(k+1)·d` minus that real elapsed time, `expired` ⇔ real elapsed time ≥ `(k+1)·d`. -/
theorem mono_measures_exactly (m : Mono τ) (hm : m.retro = true) (d r0 : τ) (es : List (MEv τ)) (r : τ) :
    ∃ m1, (m.startNow (some d) r0).feed es = .ok m1 ∧
      (∃ m2, m1.elapsed r = .ok (realElapsed r0 (readsOf es ++ [r]) - (restartsOf es : τ) * d, m2)) ∧
      (∃ m2, m1.remaining r = .ok (((restartsOf es : τ) + 1) * d - realElapsed r0 (readsOf es ++ [r]), m2)) ∧
      (∃ m2, m1.expired r = .ok (decide (((restartsOf es : τ) + 1) * d ≤ realElapsed r0 (readsOf es ++ [r])), m2)) := by
  have h0 : (m.startNow (some d) r0).stop - (m.startNow (some d) r0).start = d := by
    simp [Mono.startNow, Mono.startAt, durOr]
  obtain ⟨m1, h1, h2, h3, h4, h5⟩ := feed_exact d es (m.startNow (some d) r0) hm h0
  have hl := feed_last es _ m1 h1
  have e0 : (m.startNow (some d) r0).last = r0 := rfl
  have e1 : (m.startNow (some d) r0).start = r0 := rfl
  have e2 : (m.startNow (some d) r0).stop = r0 + d := rfl
  rw [e0] at hl h4 h5
  rw [e1] at h4
  rw [e2] at h5
  have hsn := realElapsed_snoc (readsOf es) r0 r
  rw [add_mul, one_mul]
  refine ⟨m1, h1, ?_, ?_, ?_⟩
  · obtain ⟨m2, he, hs⟩ := m1.elapsed_retro r h2
    refine ⟨m2, ?_⟩
    rw [he]; congr 2
    have := hs.ela; oarith
  · obtain ⟨m2, he, hs⟩ := m1.remaining_retro r h2
    refine ⟨m2, ?_⟩
    rw [he]; congr 2
    have := hs.rem; oarith
  · obtain ⟨m2, he, hs⟩ := m1.expired_retro r h2
    refine ⟨m2, ?_⟩
    rw [he]; congr 2
    have := hs.rem
    apply decide_eq_decide.2
    constructor <;> intro _ <;> oarith

/-! ### `Timer` / `AsyncTimer` (plain timers; `Doist.ado` paces with an `AsyncTimer`)

Extension beyond C08's text (which names the virtual timer and `MonoTimer`): the plain timers have no retrograde
compensation, so monotonicity holds exactly when their clock does not go backwards — which the asyncio event-loop clock
guarantees by contract and `time.time()` does not. -/

/-- on readings that never go backwards, `elapsed` never decreases, `remaining` never increases, `expired` never reverts -/
theorem ptimer_monotone_on_monotone_clock (a : PTimer τ) (rs : List τ) (h : rs.Pairwise (· ≤ ·)) :
    (rs.map a.elapsed).Pairwise (· ≤ ·) ∧ (rs.map a.remaining).Pairwise (· ≥ ·) ∧
      (rs.map a.expired).Pairwise (fun x y => x = true → y = true) := by
  refine ⟨List.Pairwise.map _ ?_ h, List.Pairwise.map _ ?_ h, List.Pairwise.map _ ?_ h⟩
  · intro r r' hr; simp only [PTimer.elapsed]; linarith
  · intro r r' hr; simp only [PTimer.remaining]; linarith
  · intro r r' hr; simp only [PTimer.expired, decide_eq_true_eq]; intro h1; exact le_trans h1 hr

/-- …and not otherwise: after a backward clock step a plain timer's elapsed goes down and expired reverts (test on literals) -/
example : (⟨0, 4⟩ : PTimer Int).elapsed 5 = 5 ∧ (⟨0, 4⟩ : PTimer Int).elapsed 3 = 3 ∧
    (⟨0, 4⟩ : PTimer Int).expired 5 = true ∧ (⟨0, 4⟩ : PTimer Int).expired 3 = false := by decide

/-- restart begins at the previous stop and keeps the duration unless one is given -/
theorem ptimer_restart_at_previous_stop (a : PTimer τ) (d : Option τ) :
    (a.restart d).start = a.stop ∧ (a.restart d).stop = a.stop + durOr d a.duration := ⟨rfl, rfl⟩

/-- `k` plain restarts, however late: the period is `[start₀ + k·duration, start₀ + (k+1)·duration)` -/
theorem ptimer_restarts_lossless (a : PTimer τ) (k : Nat) :
    (Nat.iterate (fun b : PTimer τ => b.restart none) k a).start = a.start + (k : τ) * a.duration ∧
    (Nat.iterate (fun b : PTimer τ => b.restart none) k a).stop = a.stop + (k : τ) * a.duration := by
  induction k generalizing a with
  | zero => simp
  | succ k ih =>
    have hd : (a.restart none).duration = a.duration := by
      simp only [PTimer.restart, PTimer.startAt, PTimer.duration, durOr]; ring
    rw [Function.iterate_succ_apply, (ih (a.restart none)).1, (ih (a.restart none)).2, hd]
    simp only [PTimer.restart, PTimer.startAt, PTimer.duration, durOr]
    push_cast
    constructor <;> ring

/-! ### at the concrete time types `Int` (the driver's) and `Rat` -/
theorem tymer_reports_exactly_rat (ddur : Rat) (w : TWorld Rat) (wound : Option Nat) (dur start : Option Rat) (ops : List (TOp Rat)) :
    trun w (Tymer.new ddur w wound dur start) ops = rrun w (TRef.new ddur w wound dur start) ops :=
  (tymer_reports_exactly ddur w wound dur start ops).2

theorem tymer_reports_exactly_int (ddur : Int) (w : TWorld Int) (wound : Option Nat) (dur start : Option Int) (ops : List (TOp Int)) :
    trun w (Tymer.new ddur w wound dur start) ops = rrun w (TRef.new ddur w wound dur start) ops :=
  (tymer_reports_exactly ddur w wound dur start ops).2

theorem mono_elapsed_never_decreases_rat {σ} (clk : Clock Rat σ) (m : Mono Rat) (c : σ) (ops : List (MOp Rat))
    (h : ∀ op ∈ ops, op.isObs = true) : List.Pairwise (· ≤ ·) (elapsedVals ops (mrun clk m c ops)) :=
  mono_elapsed_never_decreases clk m c ops h

theorem mono_elapsed_never_decreases_int {σ} (clk : Clock Int σ) (m : Mono Int) (c : σ) (ops : List (MOp Int))
    (h : ∀ op ∈ ops, op.isObs = true) : List.Pairwise (· ≤ ·) (elapsedVals ops (mrun clk m c ops)) :=
  mono_elapsed_never_decreases clk m c ops h

/-! Non-vacuity (tests, not claims): a run of the scenario function the correspondence drives, on the scripted clock, with
a backward step inside the constructor, a stall and another backward step. -/
example : (mrun scriptClock ⟨16, 18, 16, true⟩ ⟨16, [-9, 0, 4, -30, 3], []⟩ [.elapsed, .expired, .elapsed, .remaining, .elapsed]).map
    (fun o => o.map (·.1)) = [some (.int 0), some (.bool false), some (.int 4), some (.int (-2)), some (.int 7)] := by decide

end Hio.Timer
