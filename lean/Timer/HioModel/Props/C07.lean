import HioModel.Timer.Lemmas
/-!
# C07 — real-time pacing never runs early and does not drift

Property theorems only.  Model: `HioModel/Timer/Model.lean` (`paceRun` = `Doist(real=True, tock=…)`, optional
operations before the run, then the real-time branch of `Doist.do`; `doRun` = the run proper from an arbitrary
timer state).  Spec predicates: `HioModel/Timer/Spec.lean` (`realElapsed`, `neverEarlyFrom`, `losslessFrom`).

Every theorem is for every linearly ordered commutative ring `τ` of time values (`Int`, `Rat`, `Real`, …) and for EVERY clock: `σ`, `clk : Clock τ σ` (an arbitrary state machine answering `time.time()` and reacting
to `time.sleep(d)`: steady, stalled, stepped backwards, overshooting, running out), every fuel, every number of cycles,
every pattern of extra clock readings by the doers and of operations of the doers on the scheduler in mid-cycle
(`doist.extend`, `doist.remove`: `DScript` events `some code`, which never touch the pacing timer).  Elapsed real time between readings is the sum of the non-negative
increments (a backward step is a clock adjustment; forward jumps are indistinguishable from elapsed time and excluded
by the property).

Three defects the full-strength statements would have been false for were repaired in the tree (branch fix/timer:
2e63a16 `MonoTimer.start()` left `._last` stale; 6fc7548 `MonoTimer.remaining` used the stop from before the retrograde
shift; cee251d `Doist.do()` kept the construction-time tock); the model is of the repaired code and the theorems are
unconditional.  The witnesses are regression cases in `harness/props/C07.py: corpus()`.
-/
namespace Hio.Timer

variable {τ : Type} [CommRing τ] [LinearOrder τ] [IsStrictOrderedRing τ]

/-- the default of `MonoTimer`'s `retro` parameter (regenerated from the source on every run) is `True`:
the Doist's timer compensates backward clock steps -/
theorem doist_timer_is_retro : Gen.monoRetroDefault = true := rfl

/-- C07 never early, from ANY timer state (whatever happened between construction and `do()`): in the log of the run,
whenever `recur()` number `k ≥ 1` begins, the elapsed real time over all clock readings since the run's first reading
(the one `timer.start` takes) is at least `k * tock`. -/
theorem never_early_any_history {σ} (clk : Clock τ σ) (fuel : Nat) (m : Mono τ) (c : σ) (tock : τ) (n : Nat) (xs : List DScript)
    (hm : m.retro = true) (r0 : τ) (pre post : List (Ev τ)) (k : Nat)
    (hlog : (doRun clk fuel m c tock n xs).1 = .t r0 :: (pre ++ .c k :: post)) (hk : 1 ≤ k) :
    (k : τ) * tock ≤ realElapsed r0 (readingsOf pre) := by
  have h := doRun_neverEarly clk fuel m c tock n xs hm
  rw [hlog] at h
  simpa using neverEarlyFrom_prefix tock pre post k 0 r0 h hk

/-- C07 lossless, from ANY timer state: every `time.sleep(d)` requested while waiting after cycle `k` asks for exactly the
time left to the deadline `(k+1) * tock` counted from the start of the run in the monotone coordinates of the timer's own
readings — lateness of earlier cycles (overshoot, stalls, steps) never moves a later deadline. -/
theorem lossless_any_history {σ} (clk : Clock τ σ) (fuel : Nat) (m : Mono τ) (c : σ) (tock : τ) (n : Nat) (xs : List DScript)
    (hm : m.retro = true) (r0 : τ) (pre post : List (Ev τ)) (d : τ)
    (hlog : (doRun clk fuel m c tock n xs).1 = .t r0 :: (pre ++ .s d :: post)) :
    d = max 0 (((cycleOf 0 pre : Nat) : τ) * tock + tock - realElapsed r0 (timerReadingsOf pre)) := by
  have h := doRun_lossless clk fuel m c tock n xs hm
  rw [hlog] at h
  simpa using losslessFrom_prefix tock pre post d 0 r0 0 h

/-- …and a cycle begins only once the timer itself has seen its deadline: `k * tock ≤` elapsed real time over the timer's
own readings (scanning form, together with the sleep equation) -/
theorem lossless_scan_any_history {σ} (clk : Clock τ σ) (fuel : Nat) (m : Mono τ) (c : σ) (tock : τ) (n : Nat) (xs : List DScript)
    (hm : m.retro = true) : Lossless tock (doRun clk fuel m c tock n xs).1 :=
  doRun_lossless clk fuel m c tock n xs hm

/-- a run does not depend on what the timer went through before — earlier runs of the same scheduler, finished, interrupted
by Ctrl-C or failed, peeks, clock steps: `timer.start(duration=self.tock)` at the first reading of the run forgets it all.
(So the second run of a re-used Doist is the run of a fresh one; the driver models it that way.) -/
theorem doRun_forgets_timer_history {σ} (clk : Clock τ σ) (fuel : Nat) (m m' : Mono τ) (c : σ) (tock : τ) (n : Nat) (xs : List DScript)
    (h : m.retro = m'.retro) : doRun clk fuel m c tock n xs = doRun clk fuel m' c tock n xs := by
  unfold doRun
  cases clk.read c with
  | none => rfl
  | some p =>
    have e : m.startNow (some tock) p.1 = m'.startNow (some tock) p.1 := by
      simp only [Mono.startNow, Mono.startAt, durOr, h]
    simp only [e]

/-- the tock the run is paced with is the tock the scheduler has when `do()` is called: the last value assigned to
`doist.tock` after construction, else the constructor argument, else `Tymist.Tock` -/
theorem run_tock_is_tock_at_start {σ} (dflt : τ) (clk : Clock τ σ) (fuel : Nat) (c : σ) (tock0 : Option τ) (pre : List (PreOp τ)) (n : Nat)
    (xs : List DScript) (t : τ) (h : (paceRun dflt clk fuel c tock0 pre n xs).tock = some t) :
    t = tockAtRun (tockOr dflt tock0) pre := by
  rcases paceRun_cases dflt clk fuel c tock0 pre n xs doist_timer_is_retro with ⟨_, h0⟩ | ⟨_, _, _, h1, _⟩
  · rw [h0] at h; cases h
  · rw [h1] at h; injection h with h; exact h.symm

/-- C07 never early for a scheduler as built by `Doist(real=True, tock=tock0)` and used in any way before the run
(timer peeked at, tock reassigned, clock stepped in between): unconditional. -/
theorem never_early {σ} (dflt : τ) (clk : Clock τ σ) (fuel : Nat) (c : σ) (tock0 : Option τ) (ops : List (PreOp τ)) (n : Nat) (xs : List DScript)
    (r0 : τ) (pre post : List (Ev τ)) (k : Nat)
    (hlog : (paceRun dflt clk fuel c tock0 ops n xs).run = .t r0 :: (pre ++ .c k :: post)) (hk : 1 ≤ k) :
    (k : τ) * tockAtRun (tockOr dflt tock0) ops ≤ realElapsed r0 (readingsOf pre) := by
  rcases paceRun_cases dflt clk fuel c tock0 ops n xs doist_timer_is_retro with ⟨h0, _⟩ | ⟨m, c', hm, _, hrun⟩
  · rw [h0] at hlog; cases hlog
  · rw [hrun] at hlog
    exact never_early_any_history clk fuel m c' _ n xs hm r0 pre post k hlog hk

/-- C07 lossless for a scheduler as built by `Doist(real=True, tock=tock0)`: unconditional. -/
theorem lossless {σ} (dflt : τ) (clk : Clock τ σ) (fuel : Nat) (c : σ) (tock0 : Option τ) (ops : List (PreOp τ)) (n : Nat) (xs : List DScript)
    (r0 : τ) (pre post : List (Ev τ)) (d : τ)
    (hlog : (paceRun dflt clk fuel c tock0 ops n xs).run = .t r0 :: (pre ++ .s d :: post)) :
    d = max 0 (((cycleOf 0 pre : Nat) : τ) * tockAtRun (tockOr dflt tock0) ops + tockAtRun (tockOr dflt tock0) ops
          - realElapsed r0 (timerReadingsOf pre)) := by
  rcases paceRun_cases dflt clk fuel c tock0 ops n xs doist_timer_is_retro with ⟨h0, _⟩ | ⟨m, c', hm, _, hrun⟩
  · rw [h0] at hlog; cases hlog
  · rw [hrun] at hlog
    exact lossless_any_history clk fuel m c' _ n xs hm r0 pre post d hlog

/-- scanning forms (exactly what the Python oracle evaluates on the real log) -/
theorem never_early_scan {σ} (dflt : τ) (clk : Clock τ σ) (fuel : Nat) (c : σ) (tock0 : Option τ) (ops : List (PreOp τ)) (n : Nat) (xs : List DScript) :
    NeverEarly (tockAtRun (tockOr dflt tock0) ops) (paceRun dflt clk fuel c tock0 ops n xs).run := by
  rcases paceRun_cases dflt clk fuel c tock0 ops n xs doist_timer_is_retro with ⟨h0, _⟩ | ⟨m, c', hm, _, hrun⟩
  · rw [h0]; trivial
  · rw [hrun]; exact doRun_neverEarly clk fuel m c' _ n xs hm

theorem lossless_scan {σ} (dflt : τ) (clk : Clock τ σ) (fuel : Nat) (c : σ) (tock0 : Option τ) (ops : List (PreOp τ)) (n : Nat) (xs : List DScript) :
    Lossless (tockAtRun (tockOr dflt tock0) ops) (paceRun dflt clk fuel c tock0 ops n xs).run := by
  rcases paceRun_cases dflt clk fuel c tock0 ops n xs doist_timer_is_retro with ⟨h0, _⟩ | ⟨m, c', hm, _, hrun⟩
  · rw [h0]; trivial
  · rw [hrun]; exact doRun_lossless clk fuel m c' _ n xs hm

/-! ### the same theorems at the two concrete time types: `Int` (what the compiled driver runs and the correspondence
compares; Mathlib's order/ring instances on `Int` unfold to the core ones the driver uses — the `example` checks it) and
`Rat` (every rational clock reading, tock and overshoot, hence every finite double) -/
example (a b : Int) : @max Int Int.instMax a b = @max Int LinearOrder.toMax a b := rfl

theorem never_early_int {σ} (dflt : Int) (clk : Clock Int σ) (fuel : Nat) (c : σ) (tock0 : Option Int) (ops : List (PreOp Int))
    (n : Nat) (xs : List DScript) (r0 : Int) (pre post : List (Ev Int)) (k : Nat)
    (hlog : (paceRun dflt clk fuel c tock0 ops n xs).run = .t r0 :: (pre ++ .c k :: post)) (hk : 1 ≤ k) :
    (k : Int) * tockAtRun (tockOr dflt tock0) ops ≤ realElapsed r0 (readingsOf pre) :=
  never_early dflt clk fuel c tock0 ops n xs r0 pre post k hlog hk

theorem never_early_rat {σ} (dflt : Rat) (clk : Clock Rat σ) (fuel : Nat) (c : σ) (tock0 : Option Rat) (ops : List (PreOp Rat))
    (n : Nat) (xs : List DScript) (r0 : Rat) (pre post : List (Ev Rat)) (k : Nat)
    (hlog : (paceRun dflt clk fuel c tock0 ops n xs).run = .t r0 :: (pre ++ .c k :: post)) (hk : 1 ≤ k) :
    (k : Rat) * tockAtRun (tockOr dflt tock0) ops ≤ realElapsed r0 (readingsOf pre) :=
  never_early dflt clk fuel c tock0 ops n xs r0 pre post k hlog hk

theorem lossless_scan_int {σ} (dflt : Int) (clk : Clock Int σ) (fuel : Nat) (c : σ) (tock0 : Option Int) (ops : List (PreOp Int))
    (n : Nat) (xs : List DScript) : Lossless (tockAtRun (tockOr dflt tock0) ops) (paceRun dflt clk fuel c tock0 ops n xs).run :=
  lossless_scan dflt clk fuel c tock0 ops n xs

theorem lossless_scan_rat {σ} (dflt : Rat) (clk : Clock Rat σ) (fuel : Nat) (c : σ) (tock0 : Option Rat) (ops : List (PreOp Rat))
    (n : Nat) (xs : List DScript) : Lossless (tockAtRun (tockOr dflt tock0) ops) (paceRun dflt clk fuel c tock0 ops n xs).run :=
  lossless_scan dflt clk fuel c tock0 ops n xs

/-! Non-vacuity (tests, not claims): a concrete run on the harness's scripted clock — constructed at 0, clock stepped
back by 100 before `do()`, tock reassigned from 8 to 10 after construction, the first sleep overshoots by 12 (so cycle 1
is late and cycle 2 is due at once), a backward step of 7 while waiting in cycle 2; three cycles.  The hypotheses `hlog`
of the theorems are satisfiable with `k = 2` and with a sleep in cycle 2, and the deadline of cycle 3 is still 30. -/
def demoRun : List (Ev Int) :=
  (paceRun (32 : Int) scriptClock 50 ⟨0, [0, 0, -100, 0, 0, 0, 0, 0, -7, 0, 0, 0], [12]⟩ (some 8) [.setTock 10] 3 []).run

example : demoRun = [.t (-100), .c 0, .t (-100), .t (-100), .s 10, .t (-78), .c 1, .t (-78), .c 2,
    .t (-78), .t (-85), .s 8, .t (-77)] := by decide

example : (2 : Int) * 10 ≤ realElapsed (-100) (readingsOf [.c 0, .t (-100), .t (-100), .s 10, .t (-78), .c 1, .t (-78)]) :=
  never_early (32 : Int) scriptClock 50 ⟨0, [0, 0, -100, 0, 0, 0, 0, 0, -7, 0, 0, 0], [12]⟩ (some 8) [.setTock 10] 3 [] (-100)
    [.c 0, .t (-100), .t (-100), .s 10, .t (-78), .c 1, .t (-78)] [.t (-78), .t (-85), .s 8, .t (-77)] 2 (by decide) (by decide)

example : (8 : Int) = max 0 (((cycleOf 0 [.c 0, .t (-100), .t (-100), .s 10, .t (-78), .c 1, .t (-78), .c 2, .t (-78), .t (-85)] : Nat) : Int) * 10 + 10
    - realElapsed (-100) (timerReadingsOf [.c 0, .t (-100), .t (-100), .s 10, .t (-78), .c 1, .t (-78), .c 2, .t (-78), .t (-85)])) :=
  lossless (32 : Int) scriptClock 50 ⟨0, [0, 0, -100, 0, 0, 0, 0, 0, -7, 0, 0, 0], [12]⟩ (some 8) [.setTock 10] 3 [] (-100)
    [.c 0, .t (-100), .t (-100), .s 10, .t (-78), .c 1, .t (-78), .c 2, .t (-78), .t (-85)] [.t (-77)] 8 (by decide)

end Hio.Timer
