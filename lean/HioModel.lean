import HioModel.Basic.Sexp
