import HioModel.Basic.Sexp
import HioModel.Path.Model
open Hio Hio.Path Hio.Sexp

def ltBytes : List Nat → List Nat → Bool
  | [], [] => false
  | [], _ :: _ => true
  | _ :: _, [] => false
  | x :: xs, y :: ys => if x < y then true else if y < x then false else ltBytes xs ys

def ltPath : P → P → Bool
  | [], [] => false
  | [], _ :: _ => true
  | _ :: _, [] => false
  | x :: xs, y :: ys => if ltBytes x y then true else if ltBytes y x then false else ltPath xs ys

def insertBy {α} (lt : α → α → Bool) (x : α) : List α → List α
  | [] => [x]
  | y :: ys => if lt x y then x :: y :: ys else y :: insertBy lt x ys

def sortBy {α} (lt : α → α → Bool) (xs : List α) : List α := xs.foldr (insertBy lt) []

def outPath (p : P) : Sexp := .list (p.map ofBytes)

def outSnap (fs : FS) : Sexp :=
  .list ((sortBy (fun a b => ltPath a.1 b.1) fs).map fun (p, k) =>
    .list [outPath p, sym (match k with | .dir => "d" | .file => "f")])

def path? : Sexp → Option P
  | .list xs => xs.mapM bytes?
  | _ => none

def entry? : Sexp → Option (P × Kind)
  | .list [p, .atom "d"] => (path? p).map (·, .dir)
  | .list [p, .atom "f"] => (path? p).map (·, .file)
  | _ => none

def step? : Sexp → Option Step
  | .list [.atom "reopen", a, b, c, t, f] => do
    let t ← (match t with | .atom "-" => some none | x => (bool? x).map some)
    let f ← (match f with | .atom "-" => some none | x => (bytes? x).map some)
    some (.reopen (← bool? a) (← bool? b) (← bool? c) t f)
  | .list [.atom "close", a] => do some (.close (← bool? a))
  | .list [.atom "doer"] => some (.doer none)
  | .list [.atom "doer", t] => (bool? t).map fun b => .doer (some b)
  | .list [.atom "exists"] => some .exists
  | _ => none

def outStage (s : St) (r : Except Exn Unit) : Sexp :=
  let res := match r with
    | .ok _ => tag "ok" [match s.path with | some p => outPath p | none => .atom "-"]
    | .error .filerError => tag "raise" [sym "FilerError"]
    | .error .osError => tag "raise" [sym "OSError"]
    | .error .typeError => tag "raise" [sym "TypeError"]
  .list [res, outSnap s.fs]

def runSteps (c : Cfg) (s : St) : List Step → List Sexp
  | [] => []
  | st :: rest =>
    let (s', r) := step c s st
    match r with
    | .ok _ => outStage s' r :: runSteps c s' rest
    | .error _ => [outStage s' r]

/-- the state when the step list stops (at its end or at the first exception) -/
def endState (c : Cfg) (s : St) : List Step → St
  | [] => s
  | st :: rest =>
    let (s', r) := step c s st
    match r with
    | .ok _ => endState c s' rest
    | .error _ => s'

def handle : Sexp → Sexp
  | .list [.atom "filer", name, base, temp, clean, filed, ext, fext, head, temph, .list init, .list steps, entry] =>
    let badN := (match name with | .atom "-" => true | _ => false)
    let badB := (match base with | .atom "-" => true | _ => false)
    let name := (match name with | .atom "-" => .atom "#" | x => x)
    let base := (match base with | .atom "-" => .atom "#" | x => x)
    match bytes? name, bytes? base, bool? temp, bool? clean, bool? filed, bool? ext, bytes? fext, path? head, path? temph,
        init.mapM entry?, steps.mapM step? with
    | some name, some base, some temp, some clean, some filed, some ext, some fext, some head, some temph, some init, some steps =>
      let c : Cfg := ⟨name, base, fext, temp, filed, ext, head, temph, badN, badB⟩
      let s0 : St := fresh c init
      let (s1, r) := construct c s0 clean
      match r with
      | .ok _ =>
        let body := runSteps c s1 steps
        match entry with
        | .list [.atom "ctx", cl] =>
          -- the with-block ends (normally or by the exception of a step): the context manager's `finally` runs
          let sEnd := endState c s1 steps
          let (s2, r2) := step c sEnd (.exit ((bool? cl).getD false))
          .list (outSnap init :: outStage s1 r :: (body ++ [outStage s2 r2]))
        | _ => .list (outSnap init :: outStage s1 r :: body)
      | .error _ => .list [outSnap init, outStage s1 r]
    | _, _, _, _, _, _, _, _, _, _, _ => sym "bad-request"
  | _ => sym "bad-request"

def main : IO Unit := serve handle
