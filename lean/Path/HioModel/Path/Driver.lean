import HioModel.Basic.Sexp
import HioModel.Path.Model
open Hio Hio.Path Hio.Sexp

def ltBytes : List Nat → List Nat → Bool
  | [], [] => false
  | [], _ :: _ => true
  | _ :: _, [] => false
  | x :: xs, y :: ys => if x < y then true else if y < x then false else ltBytes xs ys

def ltPath : P → P → Bool
  | [], [] => false
  | [], _ :: _ => true
  | _ :: _, [] => false
  | x :: xs, y :: ys => if ltBytes x y then true else if ltBytes y x then false else ltPath xs ys

def insertBy {α} (lt : α → α → Bool) (x : α) : List α → List α
  | [] => [x]
  | y :: ys => if lt x y then x :: y :: ys else y :: insertBy lt x ys

def sortBy {α} (lt : α → α → Bool) (xs : List α) : List α := xs.foldr (insertBy lt) []

def outPath (p : P) : Sexp := .list (p.map ofBytes)

def outSnap (fs : FS) : Sexp :=
  .list ((sortBy (fun a b => ltPath a.1 b.1) fs).map fun (p, k) =>
    .list [outPath p, sym (match k with | .dir => "d" | .file => "f" | .flink => "lf" | .dlink => "ld")])

def path? : Sexp → Option P
  | .list xs => xs.mapM bytes?
  | _ => none

def entry? : Sexp → Option (P × Kind)
  | .list [p, .atom "d"] => (path? p).map (·, .dir)
  | .list [p, .atom "f"] => (path? p).map (·, .file)
  | .list [p, .atom "lf"] => (path? p).map (·, .flink)
  | .list [p, .atom "ld"] => (path? p).map (·, .dlink)
  | _ => none

def step? : Sexp → Option Step
  | .list [.atom "reopen", a, b, c, t, f] => do
    let t ← (match t with | .atom "-" => some none | x => (bool? x).map some)
    let f ← (match f with | .atom "-" => some none | x => (bytes? x).map some)
    some (.reopen (← bool? a) (← bool? b) (← bool? c) t f)
  | .list [.atom "close", a] => do some (.close (← bool? a))
  | .list [.atom "doer"] => some (.doer none)
  | .list [.atom "doer", t] => (bool? t).map fun b => .doer (some b)
  | .list [.atom "exists"] => some .exists
  | .list [.atom "set", .atom "name", v] => (bytes? v).map .setName
  | .list [.atom "set", .atom "base", v] => (bytes? v).map .setBase
  | .list [.atom "set", .atom "filed", v] => (bool? v).map .setFiled
  | .list [.atom "set", .atom "extensioned", v] => (bool? v).map .setExt
  | .list [.atom "remake", nm, bs, t, cl, f, e] => do
    some (.remake (← bytes? nm) (← bytes? bs) (← bool? t) (← bool? cl) (← bool? f) (← bool? e))
  | _ => none

def outStage (s : St) (r : Except Exn Unit) : Sexp :=
  let res := match r with
    | .ok _ => tag "ok" [match s.path with | some p => outPath p | none => .atom "-"]
    | .error .filerError => tag "raise" [sym "FilerError"]
    | .error .osError => tag "raise" [sym "OSError"]
    | .error .typeError => tag "raise" [sym "TypeError"]
  .list [res, outSnap s.fs]

def runSteps (c : Cfg) (s : St) : List Step → List Sexp
  | [] => []
  | st :: rest =>
    let (s', r) := step c s st
    -- a caller may catch the exception and go on: the history continues from the state the failed call left
    outStage s' r :: runSteps c s' rest

/-- the requested head (parameter, or the class default when the parameter is None) and the alternative head, resolved -/
def heads? (hparam hcls halt home cwd : Sexp) : Option (P × P) := do
  let param ← (match hparam with | .atom "-" => some none | x => (bytes? x).map some)
  let hcls ← bytes? hcls
  let halt ← bytes? halt
  let home ← path? home
  let cwd ← path? cwd
  some (resolveHead home cwd (chooseHead param hcls), resolveHead home cwd halt)

/-- the state when the step list stops (at its end or at the first exception) -/
def endState (c : Cfg) (s : St) : List Step → St
  | [] => s
  | st :: rest =>
    endState c (step c s st).1 rest

def handle : Sexp → Sexp
  | .list [.atom "filer", name, base, temp, clean, filed, ext, fext, .list [hparam, hcls, halt, home, cwd], temph, .list init, .list steps, entry] =>
    let badN := (match name with | .atom "-" => true | _ => false)
    let badB := (match base with | .atom "-" => true | _ => false)
    let name := (match name with | .atom "-" => .atom "#" | x => x)
    let base := (match base with | .atom "-" => .atom "#" | x => x)
    match bytes? name, bytes? base, bool? temp, bool? clean, bool? filed, bool? ext, bytes? fext, heads? hparam hcls halt home cwd, path? temph,
        init.mapM entry?, steps.mapM step? with
    | some name, some base, some temp, some clean, some filed, some ext, some fext, some (head, alt), some temph, some init, some steps =>
      let c : Cfg := ⟨name, base, fext, temp, filed, ext, head, temph, alt, badN, badB⟩
      let s0 : St := fresh c init
      let (s1, r) := construct c s0 clean
      match r with
      | .ok _ =>
        let body := runSteps c s1 steps
        match entry with
        | .list [.atom "ctx", cl] =>
          -- the with-block ends (normally or by the exception of a step): the context manager's `finally` runs
          let sEnd := endState c s1 steps
          let (s2, r2) := step c sEnd (.exit ((bool? cl).getD false))
          .list (outSnap init :: outStage s1 r :: (body ++ [outStage s2 r2]))
        | _ => .list (outSnap init :: outStage s1 r :: body)
      | .error _ => .list [outSnap init, outStage s1 r]
    | _, _, _, _, _, _, _, _, _, _, _ => sym "bad-request"
  | _ => sym "bad-request"

def main : IO Unit := serve handle
