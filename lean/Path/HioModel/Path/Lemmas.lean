import HioModel.Path.Model
/-! Helper lemmas for the Path model.  Property theorems live in `Props/C29.lean`. -/
namespace Hio.Path

/-- an ordinary segment: not empty, not `.`, not `..` -/
def normalSeg (s : Seg) : Prop := isSkip s = false ∧ isUp s = false
def normalPath (p : P) : Prop := ∀ s ∈ p, normalSeg s

theorem walk_append (st : List Seg) (a b : List Seg) : walk st (a ++ b) = walk (walk st a) b := by
  induction a generalizing st with
  | nil => rfl
  | cons s ss ih =>
    simp only [List.cons_append, walk]
    split
    · exact ih _
    · split <;> exact ih _

theorem walk_normal (st : List Seg) (h : P) (hn : normalPath h) : walk st h = h.reverse ++ st := by
  induction h generalizing st with
  | nil => simp [walk]
  | cons s ss ih =>
    have hs := hn s (List.mem_cons_self ..)
    simp only [walk, hs.1, hs.2, Bool.false_eq_true, ↓reduceIte]
    rw [ih _ (fun x hx => hn x (List.mem_cons_of_mem _ hx))]
    simp

theorem walk_of_relWalk (s s' b : List Seg) (r : List Seg) (h : relWalk s r = some s') :
    walk (s ++ b) r = s' ++ b := by
  induction r generalizing s with
  | nil => simp only [relWalk] at h; cases h; rfl
  | cons x xs ih =>
    simp only [relWalk] at h
    simp only [walk]
    split at h
    · rename_i hk; simp only [hk, ↓reduceIte]; exact ih _ h
    · rename_i hk
      simp only [hk, Bool.false_eq_true, ↓reduceIte]
      split at h
      · rename_i hu
        simp only [hu, ↓reduceIte]
        cases s with
        | nil => simp at h
        | cons t ts => simp only at h; simpa using ih ts h
      · rename_i hu
        simp only [hu, Bool.false_eq_true, ↓reduceIte]
        simpa using ih (x :: s) h

theorem tailSegs_normal (clean : Bool) : normalPath (tailSegs clean) := by
  intro s hs
  cases clean <;> simp [tailSegs, Gen.filerTail, Gen.filerCleanTail] at hs <;> (try rcases hs with rfl | rfl) <;> (try subst hs) <;>
    simp [normalSeg, isSkip, isUp]

theorem tailSegs_ne_nil (clean : Bool) : tailSegs clean ≠ [] := by
  cases clean <;> simp [tailSegs, Gen.filerTail, Gen.filerCleanTail]

theorem tail_append_ne_nil (clean : Bool) (t : List Seg) : tailSegs clean ++ t ≠ [] := by
  simp [tailSegs_ne_nil]

theorem tmpSeg_normal (n : Nat) : normalSeg (tmpSeg n) := by
  simp [normalSeg, isSkip, isUp, tmpSeg]

/-- the path `remake` builds, when the relative part does not climb out: head, then the tail, then the
normalised relative part -/
theorem fullPath_eq (head : P) (clean : Bool) (base name : List Nat) (q : List Seg)
    (hr : relWalk [] (splitSlash base ++ splitSlash name) = some q) :
    fullPath head clean base name = head ++ tailSegs clean ++ q.reverse := by
  unfold fullPath
  rw [List.append_assoc, walk_append, walk_normal _ _ (tailSegs_normal clean)]
  have := walk_of_relWalk [] q ((tailSegs clean).reverse ++ head.reverse) _ hr
  simp only [List.nil_append] at this
  rw [this]
  simp

/-! ### which entries an operation may add or drop -/

/-- `fs'` differs from `fs` only in entries whose path satisfies `Q` -/
def Touched (fs fs' : FS) (Q : P → Prop) : Prop :=
  ∀ e, (e ∈ fs' → e ∈ fs ∨ Q e.1) ∧ (e ∈ fs → e ∈ fs' ∨ Q e.1)

theorem Touched.refl (fs : FS) (Q : P → Prop) : Touched fs fs Q := fun _ => ⟨Or.inl, Or.inl⟩

theorem Touched.trans {a b c : FS} {Q : P → Prop} (h1 : Touched a b Q) (h2 : Touched b c Q) : Touched a c Q := by
  intro e
  refine ⟨fun h => ?_, fun h => ?_⟩
  · rcases (h2 e).1 h with h | h
    · exact (h1 e).1 h
    · exact Or.inr h
  · rcases (h1 e).2 h with h | h
    · exact (h2 e).2 h
    · exact Or.inr h

theorem Touched.mono {a b : FS} {Q R : P → Prop} (h : Touched a b Q) (hqr : ∀ x, Q x → R x) : Touched a b R :=
  fun e => ⟨fun m => ((h e).1 m).imp id (hqr _), fun m => ((h e).2 m).imp id (hqr _)⟩

theorem kind?_some_mem {fs : FS} {p : P} {k : Kind} (h : kind? fs p = some k) : (p, k) ∈ fs := by
  induction fs with
  | nil => simp [kind?] at h
  | cons e es ih =>
    obtain ⟨q, k'⟩ := e
    simp only [kind?] at h
    split at h
    · rename_i hq; cases h; subst hq; exact List.mem_cons_self ..
    · exact List.mem_cons_of_mem _ (ih h)

theorem kind?_none_of_mem {fs : FS} {p : P} (h : kind? fs p = none) (k : Kind) : (p, k) ∉ fs := by
  induction fs with
  | nil => simp
  | cons e es ih =>
    obtain ⟨q, k'⟩ := e
    simp only [kind?] at h
    split at h
    · cases h
    · rename_i hq
      intro hm
      rcases List.mem_cons.mp hm with heq | hm
      · cases heq; exact hq rfl
      · exact ih h hm

theorem mem_inits {p q : P} (h : q ∈ inits p) : q <+: p := by
  induction p generalizing q with
  | nil => simp [inits] at h; subst h; exact List.prefix_refl _
  | cons s p ih =>
    simp only [inits, List.mem_cons, List.mem_map] at h
    rcases h with rfl | ⟨r, hr, rfl⟩
    · exact List.nil_prefix
    · exact List.cons_prefix_cons.mpr ⟨rfl, ih hr⟩

theorem makedirs_touched (fs fs' : FS) (p : P) (Q : P → Prop)
    (hq : ∀ q, q <+: p → kind? fs q = none → q ≠ [] → Q q) (h : makedirs fs p = .ok fs') : Touched fs fs' Q := by
  unfold makedirs at h
  split at h
  · cases h
  · split at h
    · rename_i fs'' ha
      cases h
      -- the root `[]` is skipped by addDirs, so its `Q` is never needed
      have : ∀ qs fs0 fs1, (∀ q ∈ qs, q <+: p) → (∀ q, q <+: p → kind? fs0 q = none → q ≠ [] → Q q) →
          addDirs fs0 qs = some fs1 → Touched fs0 fs1 Q := by
        intro qs
        induction qs with
        | nil => intro fs0 fs1 _ _ h; simp only [addDirs] at h; cases h; exact Touched.refl _ _
        | cons q qs ih =>
          intro fs0 fs1 hp hq0 h
          simp only [addDirs] at h
          split at h
          · exact ih fs0 fs1 (fun r hr => hp r (List.mem_cons_of_mem _ hr)) hq0 h
          · rename_i hne
            split at h
            · rename_i hk
              have hQ := hq0 q (hp q (List.mem_cons_self ..)) hk hne
              have step : Touched fs0 (fs0 ++ [(q, .dir)]) Q := by
                intro e
                refine ⟨fun hm => ?_, fun hm => Or.inl (List.mem_append_left _ hm)⟩
                rcases List.mem_append.mp hm with hm | hm
                · exact Or.inl hm
                · simp only [List.mem_singleton] at hm; subst hm; exact Or.inr hQ
              refine Touched.trans step (ih _ fs1 (fun r hr => hp r (List.mem_cons_of_mem _ hr)) (fun r hr hn hne' => ?_) h)
              apply hq0 r hr _ hne'
              cases hr' : kind? fs0 r with
              | none => rfl
              | some k =>
                exfalso
                exact kind?_none_of_mem hn k (List.mem_append_left _ (kind?_some_mem hr'))
            · split at h
              · exact ih fs0 fs1 (fun r hr => hp r (List.mem_cons_of_mem _ hr)) hq0 h
              · cases h
      exact this _ _ _ (fun q hq' => mem_inits hq') hq ha
    · cases h

theorem ocfn_touched (fs fs' : FS) (p : P) (Q : P → Prop) (hq : Q p) (h : ocfn fs p = .ok fs') : Touched fs fs' Q := by
  unfold ocfn at h
  split at h
  · split at h
    · cases h; exact Touched.refl _ _
    · cases h
  · split at h
    · cases h
    · split at h
      · cases h
        intro e
        refine ⟨fun hm => ?_, fun hm => Or.inl (List.mem_append_left _ hm)⟩
        rcases List.mem_append.mp hm with hm | hm
        · exact Or.inl hm
        · simp only [List.mem_singleton] at hm; subst hm; exact Or.inr hq
      · cases h

theorem remove_touched (fs fs' : FS) (p : P) (Q : P → Prop) (hq : Q p) (h : remove fs p = .ok fs') : Touched fs fs' Q := by
  unfold remove at h
  split at h
  · cases h
    intro e
    refine ⟨fun hm => Or.inl (List.mem_filter.mp hm).1, fun hm => ?_⟩
    by_cases he : e.1 = p
    · exact Or.inr (he ▸ hq)
    · exact Or.inl (List.mem_filter.mpr ⟨hm, by simpa using he⟩)
  · cases h

theorem rmtree_touched (fs fs' : FS) (p : P) (Q : P → Prop) (hq : ∀ x, p <+: x → Q x) (h : rmtree fs p = .ok fs') :
    Touched fs fs' Q := by
  unfold rmtree at h
  split at h
  · cases h
    intro e
    refine ⟨fun hm => Or.inl (List.mem_filter.mp hm).1, fun hm => ?_⟩
    by_cases he : p.isPrefixOf e.1 = true
    · exact Or.inr (hq _ (List.isPrefixOf_iff_prefix.mp he))
    · exact Or.inl (List.mem_filter.mpr ⟨hm, by simp only [Bool.not_eq_true] at he; simp [he]⟩)
  · cases h

/-- removal operations add nothing -/
theorem remove_subset (fs fs' : FS) (p : P) (h : remove fs p = .ok fs') : ∀ e ∈ fs', e ∈ fs := by
  unfold remove at h; split at h
  · cases h; exact fun e hm => (List.mem_filter.mp hm).1
  · cases h

theorem rmtree_subset (fs fs' : FS) (p : P) (h : rmtree fs p = .ok fs') : ∀ e ∈ fs', e ∈ fs := by
  unfold rmtree at h; split at h
  · cases h; exact fun e hm => (List.mem_filter.mp hm).1
  · cases h

theorem kind?_ne_none_of_mem {fs : FS} {p : P} {k : Kind} (h : (p, k) ∈ fs) : kind? fs p ≠ none := by
  intro hn; exact kind?_none_of_mem hn k h

/-- every prefix of `path` that is not below `B` (and is not the root) exists -/
def AncestorsExist (fs : FS) (path B : P) : Prop := ∀ q, q <+: path → ¬ B <+: q → q ≠ [] → kind? fs q ≠ none

theorem AncestorsExist.of_touched {fs fs' : FS} {path B : P} (h : AncestorsExist fs path B)
    (ht : Touched fs fs' (fun x => B <+: x)) : AncestorsExist fs' path B := by
  intro q hq hnb hne
  cases hk : kind? fs q with
  | none => exact absurd hk (h q hq hnb hne)
  | some k =>
    rcases (ht (q, k)).2 (kind?_some_mem hk) with hm | hm
    · exact kind?_ne_none_of_mem hm
    · exact absurd hm hnb

theorem dirname_prefix (p : P) : dirname p <+: p := List.dropLast_prefix p

theorem cleanOld_touched (c : Cfg) (clean : Bool) (fs fs' : FS) (path B : P) (hB : B <+: dirname path)
    (h : cleanOld c clean fs path = .ok fs') : Touched fs fs' (fun x => B <+: x) := by
  have hp : B <+: path := hB.trans (dirname_prefix path)
  unfold cleanOld at h
  split at h
  · split at h
    · split at h
      · exact remove_touched _ _ _ _ hp h
      · exact rmtree_touched _ _ _ _ (fun x hx => hB.trans hx) h
    · exact rmtree_touched _ _ _ _ (fun x hx => hp.trans hx) h
  · cases h; exact Touched.refl _ _

theorem create_touched (c : Cfg) (fs fs' : FS) (path B : P) (hB : B <+: dirname path)
    (ha : AncestorsExist fs path B) (h : create c fs path = .ok fs') : Touched fs fs' (fun x => B <+: x) := by
  have hp : B <+: path := hB.trans (dirname_prefix path)
  have mk : ∀ (fs0 fs1 : FS) (p : P), p <+: path → AncestorsExist fs0 path B → makedirs fs0 p = .ok fs1 →
      Touched fs0 fs1 (fun x => B <+: x) := by
    intro fs0 fs1 p hpp ha0 hm
    refine makedirs_touched fs0 fs1 p _ (fun q hq hk hne => ?_) hm
    by_cases hb : B <+: q
    · exact hb
    · exact absurd hk (ha0 q (hq.trans hpp) hb hne)
  unfold create at h
  split at h
  · split at h
    · cases h
    · rename_i fs1 h1
      have t1 : Touched fs fs1 (fun x => B <+: x) := by
        split at h1
        · exact mk _ _ _ (dirname_prefix path) ha h1
        · cases h1; exact Touched.refl _ _
      split at h
      · exact t1.trans (ocfn_touched _ _ _ _ hp h)
      · cases h; exact t1
  · exact mk _ _ _ (List.prefix_refl _) ha h

/-- the part of `remake` after the path is known -/
def afterPath (c : Cfg) (clean : Bool) (fs : FS) (path : P) : FS × Except Exn P :=
  match cleanOld c clean fs path with
  | .error e => (fs, .error e)
  | .ok fs2 =>
    if c.temp || !fexists fs2 path then
      match create c fs2 path with
      | .error e => (fs2, .error e)
      | .ok fs3 => (fs3, .ok path)
    else if c.filed then
      match ocfn fs2 path with
      | .error e => (fs2, .error e)
      | .ok fs3 => (fs3, .ok path)
    else (fs2, .ok path)

theorem afterPath_touched (c : Cfg) (clean : Bool) (fs : FS) (path B : P) (hB : B <+: dirname path)
    (ha : AncestorsExist fs path B) : Touched fs (afterPath c clean fs path).1 (fun x => B <+: x) := by
  have hp : B <+: path := hB.trans (dirname_prefix path)
  unfold afterPath
  split
  · exact Touched.refl _ _
  · rename_i fs2 h2
    have t2 := cleanOld_touched c clean fs fs2 path B hB h2
    have ha2 := ha.of_touched t2
    split
    · split
      · exact t2
      · rename_i fs3 h3; exact t2.trans (create_touched c fs2 fs3 path B hB ha2 h3)
    · split
      · split
        · exact t2
        · rename_i fs3 h3; exact t2.trans (ocfn_touched _ _ _ _ hp h3)
      · exact t2

theorem afterPath_path (c : Cfg) (clean : Bool) (fs : FS) (path p : P)
    (h : (afterPath c clean fs path).2 = .ok p) : p = path := by
  unfold afterPath at h
  split at h
  · cases h
  · split at h
    · split at h
      · cases h
      · cases h; rfl
    · split at h
      · split at h
        · cases h
        · cases h; rfl
      · cases h; rfl

/-- the three rejections at the top of `remake` -/
def rejected (c : Cfg) : Bool :=
  isabs c.name || isabs c.base || isabs (withExt c.name c.fext c.filed c.ext) ||
    (relWalk [] (splitSlash c.base ++ splitSlash (withExt c.name c.fext c.filed c.ext))).isNone

theorem remake_rejected (c : Cfg) (clean : Bool) (fs : FS) (n : Nat) (h : rejected c = true) :
    remake c clean fs n = (fs, n, .error .filerError) := by
  unfold rejected at h
  unfold remake
  simp only [Bool.or_eq_true] at h
  rcases h with ((h | h) | h) | h
  · simp [h]
  · simp [h]
  · split
    · rfl
    · simp [h]
  · split
    · rfl
    · simp only
      split
      · rfl
      · simp [h]

theorem remake_accepted (c : Cfg) (clean : Bool) (fs : FS) (n : Nat) (h : rejected c = false) :
    ∃ q, relWalk [] (splitSlash c.base ++ splitSlash (withExt c.name c.fext c.filed c.ext)) = some q ∧
      remake c clean fs n =
        if c.temp then
          let tmp := c.tempHead ++ [tmpSeg n]
          let r := afterPath c clean (fs ++ [(tmp, .dir)]) (tmp ++ tailSegs clean ++ q.reverse)
          (r.1, n + 1, r.2)
        else
          let r := afterPath c clean fs (c.head ++ tailSegs clean ++ q.reverse)
          (r.1, n, r.2) := by
  unfold rejected at h
  simp only [Bool.or_eq_false_iff] at h
  obtain ⟨⟨⟨h1, h2⟩, h3⟩, h4⟩ := h
  cases hq : relWalk [] (splitSlash c.base ++ splitSlash (withExt c.name c.fext c.filed c.ext)) with
  | none => simp [hq] at h4
  | some q =>
    refine ⟨q, rfl, ?_⟩
    unfold remake
    simp only [h1, h2, h3, hq, Bool.or_self, Bool.false_eq_true, ↓reduceIte, Option.isNone_some]
    by_cases ht : c.temp = true
    · simp only [ht, ↓reduceIte, fullPath_eq _ clean c.base _ q hq, afterPath, Bool.true_or]
      generalize cleanOld c clean _ _ = r1
      cases r1 with
      | error e => rfl
      | ok fs2 =>
        simp only
        generalize create c fs2 _ = r2
        cases r2 <;> rfl
    · simp only [Bool.not_eq_true] at ht
      simp only [ht, Bool.false_eq_true, ↓reduceIte, fullPath_eq _ clean c.base _ q hq, afterPath, Bool.false_or]
      generalize cleanOld c clean _ _ = r1
      cases r1 with
      | error e => rfl
      | ok fs2 =>
        simp only
        by_cases hx : fexists fs2 (c.head ++ tailSegs clean ++ q.reverse) = true
        · simp only [hx, Bool.not_true, Bool.false_eq_true, ↓reduceIte]
          by_cases hf : c.filed = true
          · simp only [hf, ↓reduceIte]
            generalize ocfn fs2 _ = r2
            cases r2 <;> rfl
          · simp only [hf, Bool.false_eq_true, ↓reduceIte]
        · simp only [Bool.not_eq_true] at hx
          simp only [hx, Bool.not_false, ↓reduceIte]
          generalize create c fs2 _ = r2
          cases r2 <;> rfl

theorem prefix_snoc {r a : P} {x : Seg} (h : r <+: a ++ [x]) : r <+: a ∨ r = a ++ [x] := by
  obtain ⟨t, ht⟩ := h
  rcases List.eq_nil_or_concat t with rfl | ⟨t', y, rfl⟩
  · right; simpa using ht
  · left
    rw [List.concat_eq_append, ← List.append_assoc] at ht
    exact ⟨t', (List.append_inj' ht rfl).1⟩

theorem kind?_filter_none (fs : FS) (f : P × Kind → Bool) (p : P) (h : ∀ k, f (p, k) = false) :
    kind? (fs.filter f) p = none := by
  induction fs with
  | nil => rfl
  | cons e es ih =>
    obtain ⟨q, k⟩ := e
    by_cases hq : q = p
    · subst hq; simp only [List.filter, h k]; exact ih
    · cases hf : f (q, k) with
      | false => simp only [List.filter, hf]; exact ih
      | true => simp only [List.filter, hf, kind?, hq, ↓reduceIte]; exact ih

theorem kind?_filter_of_none (fs : FS) (f : P × Kind → Bool) (p : P) (h : kind? fs p = none) :
    kind? (fs.filter f) p = none := by
  induction fs with
  | nil => rfl
  | cons e es ih =>
    obtain ⟨q, k⟩ := e
    simp only [kind?] at h
    split at h
    · cases h
    · rename_i hq
      cases hf : f (q, k) with
      | false => simp only [List.filter, hf]; exact ih h
      | true => simp only [List.filter, hf, kind?, hq, ↓reduceIte]; exact ih h

/-- after a successful `_clearPath` nothing is left AT the path -/
theorem clearPath_removes_path (c : Cfg) (fs fs' : FS) (p : P) (h : clearPath c fs (some p) = .ok fs') :
    kind? fs' p = none := by
  simp only [clearPath] at h
  split at h
  · split at h
    · split at h
      · cases h
      · rename_i fs1 h1
        have k1 : kind? fs1 p = none := by
          unfold remove at h1; split at h1
          all_goals first
            | (cases h1; exact kind?_filter_none _ _ _ (fun k => by simp))
            | contradiction
            | cases h1
        split at h
        · unfold rmtree at h; split at h
          · cases h; exact kind?_filter_of_none _ _ _ k1
          · cases h
        · cases h; exact k1
    · split at h
      · unfold remove at h; split at h
        · cases h; exact kind?_filter_none _ _ _ (fun k => by simp)
        · cases h
      · unfold rmtree at h; split at h
        · cases h; exact kind?_filter_none _ _ _ (fun k => by simp)
        · cases h
  · rename_i hne
    cases h
    cases hk : kind? fs p with
    | none => rfl
    | some k => simp [fexists, hk] at hne

/-! ### the alternative head -/

theorem altTailSegs_normal (clean : Bool) : normalPath (altTailSegs clean) := by
  intro s hs
  cases clean <;> simp [altTailSegs, Gen.filerAltTail, Gen.filerAltCleanTail] at hs <;> (try rcases hs with rfl | rfl) <;> (try subst hs) <;>
    simp [normalSeg, isSkip, isUp]

theorem altTail_append_ne_nil (clean : Bool) (t : List Seg) : altTailSegs clean ++ t ≠ [] := by
  cases clean <;> simp [altTailSegs, Gen.filerAltTail, Gen.filerAltCleanTail]

theorem fullPathT_eq (head : P) (tail : List Seg) (base name : List Nat) (q : List Seg) (ht : normalPath tail)
    (hr : relWalk [] (splitSlash base ++ splitSlash name) = some q) :
    fullPathT head tail base name = head ++ tail ++ q.reverse := by
  unfold fullPathT
  rw [List.append_assoc, walk_append, walk_normal _ _ ht]
  have := walk_of_relWalk [] q (tail.reverse ++ head.reverse) _ hr
  simp only [List.nil_append] at this
  rw [this]
  simp

theorem needsAlt_spec (c : Cfg) (clean : Bool) (fs fs2 : FS) (h : needsAlt c clean fs = some fs2) :
    c.temp = false ∧ ∃ q, relWalk [] (splitSlash c.base ++ splitSlash (withExt c.name c.fext c.filed c.ext)) = some q ∧
      cleanOld c clean fs (c.head ++ tailSegs clean ++ q.reverse) = .ok fs2 := by
  unfold needsAlt at h
  split at h
  · cases h
  · rename_i h0
    simp only [Bool.or_eq_true, not_or, Bool.not_eq_true] at h0
    simp only at h
    split at h
    · cases h
    · split at h
      · cases h
      · rename_i hq
        cases hq' : relWalk [] (splitSlash c.base ++ splitSlash (withExt c.name c.fext c.filed c.ext)) with
        | none => simp [hq'] at hq
        | some q =>
          refine ⟨h0.1.1, q, rfl, ?_⟩
          rw [fullPath_eq _ clean c.base _ q hq'] at h
          split at h
          · cases h
          · rename_i fs2' hc
            split at h
            · split at h
              · cases h; exact hc
              · cases h
            · cases h

/-- the fallback touches only the inside of the alternative head, and its path lies below `altHead/.hio[/clean]` -/
theorem altCreate_touched (c : Cfg) (clean : Bool) (fs : FS) (n : Nat) (q : List Seg)
    (hq : relWalk [] (splitSlash c.base ++ splitSlash (withExt c.name c.fext c.filed c.ext)) = some q)
    (ha : ∀ r, r <+: c.altHead → r ≠ c.altHead → r ≠ [] → kind? fs r ≠ none) :
    Touched fs (altCreate c clean fs n).1 (fun x => c.altHead <+: x) ∧
    ∀ p, (altCreate c clean fs n).2.2 = .ok p → c.altHead ++ altTailSegs clean <+: p := by
  have hpath := fullPathT_eq c.altHead (altTailSegs clean) c.base _ q (altTailSegs_normal clean) hq
  have hpre : c.altHead <+: c.altHead ++ altTailSegs clean ++ q.reverse := by
    rw [List.append_assoc]; exact List.prefix_append _ _
  have hB : c.altHead <+: dirname (c.altHead ++ altTailSegs clean ++ q.reverse) := by
    unfold dirname
    rw [List.append_assoc, List.dropLast_append_of_ne_nil (altTail_append_ne_nil clean _)]
    exact List.prefix_append _ _
  have hanc : AncestorsExist fs (c.altHead ++ altTailSegs clean ++ q.reverse) c.altHead := by
    intro r hr hnb hne
    rcases List.prefix_or_prefix_of_prefix hr hpre with h | h
    · exact ha r h (fun e => hnb (e ▸ List.prefix_refl _)) hne
    · exact absurd h hnb
  unfold altCreate
  simp only [hpath]
  split
  · split
    · exact ⟨Touched.refl _ _, fun p h => by cases h⟩
    · rename_i fs3 h3
      exact ⟨create_touched c fs fs3 _ c.altHead hB hanc h3, fun p h => by cases h; exact ⟨q.reverse, rfl⟩⟩
  · split
    · split
      · exact ⟨Touched.refl _ _, fun p h => by cases h⟩
      · rename_i fs3 h3
        exact ⟨ocfn_touched _ _ _ _ hpre h3, fun p h => by cases h; exact ⟨q.reverse, rfl⟩⟩
    · exact ⟨Touched.refl _ _, fun p h => by cases h; exact ⟨q.reverse, rfl⟩⟩

end Hio.Path
