import HioModel.Gen.FilerConsts
/-!
# Model of `hio.base.filing.Filer` path construction, `remake`, `reopen`, `close`, `_clearPath`
(faithful to the current source, including the fix that rejects escaping `..`)

Strings are lists of code points / bytes (`Nat`); a path is the list of its segments
below the sandbox root (`[]` is the root itself, which always exists).  The filesystem
is a list of `(path, kind)` entries; `os.makedirs`, `ocfn`, `os.remove`,
`shutil.rmtree`, `tempfile.mkdtemp` are functions on it, their `OSError`s are values.
`mkdtemp` returns `TempHeadDir/TMP<n>` for a counter `n` (the harness renames the real
random directory names in order of creation).

Not modelled: symlinks, permission failures and therefore the fallback to the alternative
head directory (`except OSError` in the non-temp branch: the model returns `osError`),
`chmod`, the open file object.
-/
namespace Hio.Path

abbrev Seg := List Nat
abbrev P := List Seg

/-- `flink` / `dlink`: a symbolic link whose target is an existing regular file / directory somewhere else (the target is an
entry of its own; no operation of the Filer reaches it through the link) -/
inductive Kind | dir | file | flink | dlink
deriving DecidableEq, Repr

abbrev FS := List (P × Kind)

inductive Exn | filerError | osError | typeError
deriving DecidableEq, Repr

/-! ### `os.path` on strings -/

/-- `s.split("/")` -/
def splitSlash : List Nat → List Seg
  | [] => [[]]
  | c :: cs =>
    if c = 47 then [] :: splitSlash cs
    else match splitSlash cs with
      | s :: ss => (c :: s) :: ss
      | [] => [[c]]

/-- `os.path.isabs` -/
def isabs : List Nat → Bool
  | 47 :: _ => true
  | _ => false

/-- is there a `.` in the component that has a non-dot character somewhere before it -/
def extScan : List Nat → Bool → Bool
  | [], _ => false
  | c :: cs, seen => if c = 46 then (if seen then true else extScan cs false) else extScan cs true

def lastSeg : List Seg → Seg
  | [] => []
  | [s] => s
  | _ :: s :: ss => lastSeg (s :: ss)

/-- `os.path.splitext(name)[1] != ""` -/
def hasExt (name : List Nat) : Bool := extScan (lastSeg (splitSlash name)) false

/-- `name = f"{name}.{fext}"` when filed or extensioned and the name has no extension -/
def withExt (name fext : List Nat) (filed ext : Bool) : List Nat :=
  if (filed || ext) && !hasExt name then name ++ 46 :: fext else name

def isSkip (s : Seg) : Bool := s = [] || s = [46]
def isUp (s : Seg) : Bool := s = [46, 46]

/-- `os.path.abspath` / `normpath` of an absolute path: walk the segments over a stack (top first);
`..` at the root stays at the root -/
def walk : List Seg → List Seg → List Seg
  | st, [] => st
  | st, s :: ss =>
    if isSkip s then walk st ss
    else if isUp s then walk st.tail ss
    else walk (s :: st) ss

/-- the same walk for a RELATIVE path: `none` as soon as `..` climbs above the starting point
(`os.path.normpath(rel)` is `..` or starts with `../`) -/
def relWalk : List Seg → List Seg → Option (List Seg)
  | st, [] => some st
  | st, s :: ss =>
    if isSkip s then relWalk st ss
    else if isUp s then (match st with
      | [] => none
      | _ :: t => relWalk t ss)
    else relWalk (s :: st) ss

/-- `CleanTailDirPath if clean else TailDirPath`, split at the separator: regenerated from the class on every run
(`HioModel/Gen/FilerConsts.lean`); the containment proofs need both to be non-empty lists of ordinary segments -/
def tailSegs (clean : Bool) : List Seg :=
  if clean then Gen.filerCleanTail else Gen.filerTail

/-- `os.path.abspath(os.path.join(head, tail, base, name))` for a normalised absolute `head` -/
def fullPath (head : P) (clean : Bool) (base name : List Nat) : P :=
  (walk head.reverse (tailSegs clean ++ splitSlash base ++ splitSlash name)).reverse

/-- `AltCleanTailDirPath if clean else AltTailDirPath` (regenerated from the class, like `tailSegs`) -/
def altTailSegs (clean : Bool) : List Seg :=
  if clean then Gen.filerAltCleanTail else Gen.filerAltTail

/-- `os.path.abspath(os.path.expanduser(os.path.join(head, tail, base, name)))` for an already resolved `head` -/
def fullPathT (head : P) (tail : List Seg) (base name : List Nat) : P :=
  (walk head.reverse (tail ++ splitSlash base ++ splitSlash name)).reverse

/-- what a head-directory STRING means once `os.path.expanduser` and `os.path.abspath` have been applied to the path
joined onto it: an absolute head is itself, a head that is `~` or starts with `~/` lies below the home directory,
every other head — the empty string and `.` included — lies below the current directory -/
def resolveHead (home cwd : P) (h : List Nat) : P :=
  match h with
  | 47 :: _ => (walk [] (splitSlash h)).reverse
  | [126] => home
  | 126 :: 47 :: rest => (walk home.reverse (splitSlash rest)).reverse
  | _ => (walk cwd.reverse (splitSlash h)).reverse

/-- `headDirPath if headDirPath is not None else self.HeadDirPath`: only `None` selects the class default -/
def chooseHead (param : Option (List Nat)) (classDefault : List Nat) : List Nat :=
  match param with
  | some h => h
  | none => classDefault

/-- `os.path.split(path)[0]` of a normalised absolute path -/
def dirname (p : P) : P := p.dropLast

/-! ### the filesystem -/

def kind? : FS → P → Option Kind
  | [], _ => none
  | (q, k) :: fs, p => if q = p then some k else kind? fs p

def fexists (fs : FS) (p : P) : Bool := p = [] || (kind? fs p).isSome
/-- `os.path.isfile` follows links -/
def isfile (fs : FS) (p : P) : Bool := kind? fs p = some .file || kind? fs p = some .flink

/-- all prefixes of a path, shortest first (`[]` included) -/
def inits : P → List P
  | [] => [[]]
  | s :: p => [] :: (inits p).map (s :: ·)

/-- the missing directories among the given prefixes, shortest first; `none` when a file is in the way -/
def addDirs : FS → List P → Option FS
  | fs, [] => some fs
  | fs, q :: qs =>
    if q = [] then addDirs fs qs
    else match kind? fs q with
      | none => addDirs (fs ++ [(q, .dir)]) qs
      | some k => if k = .dir || k = .dlink then addDirs fs qs else none

/-- `os.makedirs(p)` (exist_ok False) -/
def makedirs (fs : FS) (p : P) : Except Exn FS :=
  if fexists fs p then .error .osError
  else match addDirs fs (inits p) with
    | some fs' => .ok fs'
    | none => .error .osError

/-- `ocfn(path)`: open the existing file or create it -/
def ocfn (fs : FS) (p : P) : Except Exn FS :=
  match kind? fs p with
  | some k => if k = .file || k = .flink then .ok fs else .error .osError       -- opened through a link to a file; a directory cannot be opened
  | none => if p = [] then .error .osError
    else if fexists fs (dirname p) && !isfile fs (dirname p) then .ok (fs ++ [(p, .file)]) else .error .osError

/-- `os.remove(p)` -/
def remove (fs : FS) (p : P) : Except Exn FS :=
  -- `os.remove` = unlink: a regular file, or a symbolic link ITSELF whatever it points to; never a directory
  if isfile fs p || kind? fs p = some .dlink then .ok (fs.filter fun e => e.1 ≠ p) else .error .osError

/-- `shutil.rmtree(p)`: `p` and everything below it; refuses a symbolic link and a regular file -/
def rmtree (fs : FS) (p : P) : Except Exn FS :=
  match kind? fs p with
  | some .dir => .ok (fs.filter fun e => !(p.isPrefixOf e.1))
  | _ => .error .osError

/-! ### Filer -/

structure Cfg where
  name : List Nat
  base : List Nat
  fext : List Nat
  temp : Bool
  filed : Bool
  ext : Bool
  head : P                    -- the requested head directory, resolved (`resolveHead` of the parameter or the class default)
  tempHead : P
  altHead : P := []           -- `AltHeadDirPath`, resolved: where `remake` falls back to when the head cannot be used
  badName : Bool := false     -- `name` is not path-like (None, an int): `os.path.isabs(name)` raises `TypeError`
  badBase : Bool := false     -- the same for `base`

/-- `TMP<n>` -/
def tmpSeg (n : Nat) : Seg := [84, 77, 80] ++ (toString n).toList.map Char.toNat

/-- filesystem, mkdtemp counter, `self.path`, and the two settings `reopen` may change: `self.temp`, `self.fext` -/
structure St where
  fs : FS
  tmpN : Nat
  path : Option P
  temp : Bool
  fext : List Nat
  opened : Bool        -- `self.opened`
  name : List Nat      -- `self.name`, `self.base`, `self.filed`, `self.extensioned`: plain attributes a caller may assign
  base : List Nat
  filed : Bool
  ext : Bool

/-- the configuration in force: construction parameters with the current attribute values -/
def cur (c : Cfg) (s : St) : Cfg :=
  { c with temp := s.temp, fext := s.fext, name := s.name, base := s.base, filed := s.filed, ext := s.ext }

/-- the creation part shared by both branches of `remake`:
`if filed or extensioned: makedirs(dirname) if missing; if filed: ocfn(path)   else: makedirs(path)` -/
def create (c : Cfg) (fs : FS) (path : P) : Except Exn FS :=
  if c.filed || c.ext then
    match (if !fexists fs (dirname path) then makedirs fs (dirname path) else .ok fs) with
    | .error e => .error e
    | .ok fs1 => if c.filed then ocfn fs1 path else .ok fs1
  else makedirs fs path

/-- `if clean and os.path.exists(path): …` (both branches test `filed or extensioned` since the fix) -/
def cleanOld (c : Cfg) (clean : Bool) (fs : FS) (path : P) : Except Exn FS :=
  if clean && fexists fs path then
    if isfile fs path then
      if c.filed || c.ext then remove fs path else rmtree fs (dirname path)
    else rmtree fs path
  else .ok fs

/-- `remake(...)`: the filesystem it leaves (also when it raises), the counter, and the path or the exception -/
def remake (c : Cfg) (clean : Bool) (fs : FS) (n : Nat) : FS × Nat × Except Exn P :=
  if isabs c.name || isabs c.base then (fs, n, .error .filerError)
  else
    let name := withExt c.name c.fext c.filed c.ext
    if isabs name then (fs, n, .error .filerError)
    else if (relWalk [] (splitSlash c.base ++ splitSlash name)).isNone then (fs, n, .error .filerError)
    else if c.temp then
      let tmp := c.tempHead ++ [tmpSeg n]
      let fs1 := fs ++ [(tmp, .dir)]
      let path := fullPath tmp clean c.base name
      match cleanOld c clean fs1 path with
      | .error e => (fs1, n + 1, .error e)
      | .ok fs2 =>
        match create c fs2 path with
        | .error e => (fs2, n + 1, .error e)
        | .ok fs3 => (fs3, n + 1, .ok path)
    else
      let path := fullPath c.head clean c.base name
      match cleanOld c clean fs path with
      | .error e => (fs, n, .error e)
      | .ok fs2 =>
        if !fexists fs2 path then
          match create c fs2 path with
          | .error e => (fs2, n, .error e)       -- the code falls back to the alternative head here: not modelled
          | .ok fs3 => (fs3, n, .ok path)
        else if c.filed then
          match ocfn fs2 path with
          | .error e => (fs2, n, .error e)
          | .ok fs3 => (fs3, n, .ok path)
        else (fs2, n, .ok path)

/-- the state in which the persistent branch of `remake` gives up on the requested head: the path does not exist and
creating it raised an `OSError` (`except OSError: use alt instead`); the filesystem after the `clean` step -/
def needsAlt (c : Cfg) (clean : Bool) (fs : FS) : Option FS :=
  if c.temp || isabs c.name || isabs c.base then none
  else
    let name := withExt c.name c.fext c.filed c.ext
    if isabs name then none
    else if (relWalk [] (splitSlash c.base ++ splitSlash name)).isNone then none
    else
      let path := fullPath c.head clean c.base name
      match cleanOld c clean fs path with
      | .error _ => none
      | .ok fs2 =>
        if !fexists fs2 path then
          match create c fs2 path with
          | .error _ => some fs2
          | .ok _ => none
        else none

/-- the fallback: the same construction below the alternative head and tail; no `try` around it any more -/
def altCreate (c : Cfg) (clean : Bool) (fs : FS) (n : Nat) : FS × Nat × Except Exn P :=
  let name := withExt c.name c.fext c.filed c.ext
  let path := fullPathT c.altHead (altTailSegs clean) c.base name
  if !fexists fs path then
    match create c fs path with
    | .error e => (fs, n, .error e)
    | .ok fs3 => (fs3, n, .ok path)
  else if c.filed then
    match ocfn fs path with
    | .error e => (fs, n, .error e)
    | .ok fs3 => (fs3, n, .ok path)
  else (fs, n, .ok path)

/-- `remake` with its two environment-dependent branches: `mkdtemp` needs `TempHeadDir` to exist, and the persistent
branch falls back to the alternative head when the requested one cannot be created -/
def remakeFull (c : Cfg) (clean : Bool) (fs : FS) (n : Nat) : FS × Nat × Except Exn P :=
  if c.temp && !fexists fs c.tempHead && !(isabs c.name || isabs c.base) then
    (if (isabs (withExt c.name c.fext c.filed c.ext) ||
        (relWalk [] (splitSlash c.base ++ splitSlash (withExt c.name c.fext c.filed c.ext))).isNone)
      then (fs, n, .error .filerError) else (fs, n, .error .osError))
  else match needsAlt c clean fs with
    | some fs2 => altCreate c clean fs2 n
    | none => remake c clean fs n

/-- `_clearPath()` -/
def clearPath (c : Cfg) (fs : FS) : Option P → Except Exn FS
  | none => .ok fs
  | some p =>
    if fexists fs p then
      if isfile fs p then
        match remove fs p with
        | .error e => .error e
        | .ok fs1 => if c.temp then rmtree fs1 (dirname p) else .ok fs1
      else if c.ext then
        remove fs p
      else rmtree fs p
    else .ok fs

/-- `close(clear)`: `_clearPath` consults the `temp` setting in force NOW -/
def close (c : Cfg) (s : St) (clear : Bool) : St × Except Exn Unit :=
  if clear then
    match clearPath (cur c s) s.fs s.path with
    | .ok fs => ({ s with fs := fs, opened := false }, .ok ())
    | .error e => ({ s with opened := false }, .error e)
  else ({ s with opened := false }, .ok ())

/-- the settings block of `reopen`: `if temp is not None: self.temp = temp` … -/
def takeOver (s : St) (temp : Option Bool) (fext : Option (List Nat)) : St :=
  { s with temp := temp.getD s.temp, fext := fext.getD s.fext }

/-- the rest of `reopen` once the settings are in force: `remake` unless the existing path is reused -/
def reopenTail (c : Cfg) (s : St) (reuse clean : Bool) : St × Except Exn Unit :=
  let keep := match s.path with
    | some p => fexists s.fs p && reuse
    | none => false
  if !keep then
    match remakeFull (cur c s) clean s.fs s.tmpN with
    | (fs, n, .ok p) => ({ s with fs := fs, tmpN := n, path := some p, opened := true }, .ok ())
    | (fs, n, .error e) => ({ s with fs := fs, tmpN := n }, .error e)
  else if s.filed then
    match s.path with
    | some p => (match ocfn s.fs p with
      | .ok fs => ({ s with fs := fs, opened := true }, .ok ())
      | .error e => (s, .error e))
    | none => ({ s with opened := true }, .ok ())
  else ({ s with opened := true }, .ok ())

/-- `reopen(temp, fext, clear, reuse, clean)` (the constructor is `reopen` on `path = None`):
first `close(clear)` under the OLD settings, then the new settings are taken over, then `remake` unless the
existing path is reused -/
def reopen (c : Cfg) (s : St) (clear reuse clean : Bool) (temp : Option Bool) (fext : Option (List Nat)) :
    St × Except Exn Unit :=
  match close c s clear with
  | (s1, .error e) => (s1, .error e)
  | (s1, .ok _) => reopenTail c (takeOver s1 temp fext) reuse clean

inductive Step
  | reopen (clear reuse clean : Bool) (temp : Option Bool) (fext : Option (List Nat))
  | close (clear : Bool)
  | exit (clear : Bool)     -- leaving `with openFiler(..., clear=clear)`: `filer.close(clear=filer.temp or clear)`
  | exists                  -- `filer.exists(...)`: a query, touches nothing
  | setName (v : List Nat)  -- `filer.name = v` … plain attribute assignment after construction; the next `reopen` uses it
  | setBase (v : List Nat)
  | setFiled (b : Bool)
  | setExt (b : Bool)
  | remake (name base : List Nat) (temp clean filed ext : Bool)
                            -- a direct call of the public `filer.remake(name=…, base=…, temp=…, clean=…, filed=…, extensioned=…)`:
                            -- builds (and cleans) the path it is asked for, changes nothing on the Filer itself
  | doer (temp : Option Bool)   -- a `FilerDoer` run by a Doist with `temp` injected (`doist.do(temp=…)`, `Doist(temp=True)`,
                                -- `FilerDoer(temp=True)`): `enter` reopens ONLY when not opened, `exit` closes with `clear=filer.temp`

def step (c : Cfg) (s : St) : Step → St × Except Exn Unit
  | .reopen a b cl t f => reopen c s a b cl t f
  | .close a => close c s a
  | .exit a => close c s (s.temp || a)
  | .exists =>      -- a query; it refuses an absolute name / base like `remake` does, and touches nothing either way
    if isabs s.name || isabs s.base || isabs (withExt s.name s.fext s.filed s.ext) then (s, .error .filerError) else (s, .ok ())
  | .setName v => ({ s with name := v }, .ok ())
  | .setBase v => ({ s with base := v }, .ok ())
  | .setFiled b => ({ s with filed := b }, .ok ())
  | .setExt b => ({ s with ext := b }, .ok ())
  | .remake nm bs t cl f e =>
    match remakeFull { cur c s with name := nm, base := bs, temp := t, filed := f, ext := e } cl s.fs s.tmpN with
    | (fs, n, .ok _) => ({ s with fs := fs, tmpN := n }, .ok ())
    | (fs, n, .error ex) => ({ s with fs := fs, tmpN := n }, .error ex)
  | .doer t =>
    if s.opened then close c s s.temp
    else match reopen c s false false false t none with
      | (s1, .error e) => ((close c s1 s1.temp).1, .error e)      -- the scheduler runs the doer's `exit` also when `enter` raised
      | (s1, .ok _) => close c s1 s1.temp

/-- `Filer(name=…, base=…, clean=…, reopen=True)`: a name or base that is not path-like raises `TypeError` in
`__init__` before anything is touched; otherwise the constructor is the first `reopen` -/
def construct (c : Cfg) (s : St) (clean : Bool) : St × Except Exn Unit :=
  if c.badName then (s, .error .typeError)              -- `os.path.isabs(self.name)`
  else if isabs c.name then (s, .error .filerError)
  else if c.badBase then (s, .error .typeError)         -- `os.path.isabs(base)`
  else reopen c s false false clean none none

/-- a fresh object before its constructor's `reopen` -/
def fresh (c : Cfg) (fs : FS) : St := ⟨fs, 0, none, c.temp, c.fext, false, c.name, c.base, c.filed, c.ext⟩

/-- the state after a whole history of calls (a caller may catch an exception and go on) -/
def runAll (c : Cfg) (s : St) : List Step → St
  | [] => s
  | st :: rest => runAll c (step c s st).1 rest

end Hio.Path
