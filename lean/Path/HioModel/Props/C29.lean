import HioModel.Path.Lemmas
/-!
# C29 — Filer stays inside its head directory; clear removes only below its own path

Property theorems only.  Model: `HioModel/Path/Model.lean` (path construction with
`os.path.join/abspath/splitext` on segment lists; `remake`, `reopen`, `close`, `_clearPath`
over a modelled filesystem), faithful to the current source INCLUDING the fix (branch
fix/small) that makes `remake` reject a base/name whose normalised relative part climbs
above its start.  Before that fix the statement was false (`name = "../../x"`, DESIGN F43);
the escaping inputs are now proved to be rejected with nothing touched
(`escaping_name_is_rejected_untouched`), so the containment theorems carry no guard on
`name`/`base` at all: they hold for EVERY name, base, extension and all 16 flag combinations.

`Touched fs fs' Q` : the two filesystems differ only in entries whose path satisfies `Q`.

Across a `reopen` that changes `temp`, the clear of the old path uses the OLD setting
(`reopen_to_temp_keeps_siblings`); when the old path is additionally reused the settings and the path disagree
afterwards (`reuse_with_temp_flip_clears_holding_dir`, known finding C29-K2).

Second clause of the property, "temp resources are removed": FALSE for the top of the
temporary tree — `temp_clear_leaves_tempdir` (known finding C29-K1, DESIGN F44); what
`close(clear=True)` does remove, and that it removes nothing else, is `clear_within_path`.
-/
namespace Hio.Path

/-- the directories above the head exist (the head itself need not) -/
def HeadOk (fs : FS) (head : P) : Prop := ∀ q, q <+: head → q ≠ head → q ≠ [] → kind? fs q ≠ none

/-- C29.1, persistent Filer: whatever `name`, `base`, `fext` and flags, `remake` creates and deletes only
entries below the head directory, and an accepted path lies below `head/hio[/clean]` -/
theorem remake_inside_head (c : Cfg) (clean : Bool) (fs : FS) (n : Nat) (ht : c.temp = false)
    (hok : HeadOk fs c.head) :
    Touched fs (remake c clean fs n).1 (fun x => c.head <+: x) ∧
    ∀ p, (remake c clean fs n).2.2 = .ok p → c.head ++ tailSegs clean <+: p := by
  cases hr : rejected c with
  | true =>
    rw [remake_rejected c clean fs n hr]
    exact ⟨Touched.refl _ _, fun p h => by cases h⟩
  | false =>
    obtain ⟨q, _, he⟩ := remake_accepted c clean fs n hr
    rw [he]
    simp only [ht, Bool.false_eq_true, ↓reduceIte]
    have hB : c.head <+: dirname (c.head ++ tailSegs clean ++ q.reverse) := by
      unfold dirname
      rw [List.append_assoc, List.dropLast_append_of_ne_nil (tail_append_ne_nil clean _)]
      exact List.prefix_append _ _
    refine ⟨afterPath_touched c clean fs _ c.head hB ?_, fun p h => ?_⟩
    · intro r hr' hnb hne
      have hpre : c.head <+: c.head ++ tailSegs clean ++ q.reverse := by
        rw [List.append_assoc]; exact List.prefix_append _ _
      rcases List.prefix_or_prefix_of_prefix hr' hpre with h | h
      · exact hok r h (fun e => hnb (e ▸ List.prefix_refl _)) hne
      · exact absurd h hnb
    · rw [afterPath_path c clean fs _ p h]; exact List.prefix_append _ _

/-- C29.1, temporary Filer: `remake` creates and deletes only entries inside its own fresh `mkdtemp`
directory (that directory itself included), and an accepted path lies below `<tmp>/hio[/clean]` -/
theorem remake_inside_tempdir (c : Cfg) (clean : Bool) (fs : FS) (n : Nat) (ht : c.temp = true)
    (hok : ∀ q, q <+: c.tempHead → q ≠ [] → kind? fs q ≠ none) :
    Touched fs (remake c clean fs n).1 (fun x => c.tempHead ++ [tmpSeg n] <+: x) ∧
    ∀ p, (remake c clean fs n).2.2 = .ok p → c.tempHead ++ [tmpSeg n] ++ tailSegs clean <+: p := by
  cases hr : rejected c with
  | true =>
    rw [remake_rejected c clean fs n hr]
    exact ⟨Touched.refl _ _, fun p h => by cases h⟩
  | false =>
    obtain ⟨q, _, he⟩ := remake_accepted c clean fs n hr
    rw [he]
    simp only [ht, ↓reduceIte]
    have hB : c.tempHead ++ [tmpSeg n] <+: dirname (c.tempHead ++ [tmpSeg n] ++ tailSegs clean ++ q.reverse) := by
      unfold dirname
      rw [List.append_assoc (c.tempHead ++ [tmpSeg n]),
        List.dropLast_append_of_ne_nil (tail_append_ne_nil clean _)]
      exact List.prefix_append _ _
    have hmk : Touched fs (fs ++ [(c.tempHead ++ [tmpSeg n], Kind.dir)]) (fun x => c.tempHead ++ [tmpSeg n] <+: x) := by
      intro e
      refine ⟨fun hm => ?_, fun hm => Or.inl (List.mem_append_left _ hm)⟩
      rcases List.mem_append.mp hm with hm | hm
      · exact Or.inl hm
      · simp only [List.mem_singleton] at hm; subst hm; exact Or.inr (List.prefix_refl _)
    refine ⟨hmk.trans (afterPath_touched c clean _ _ (c.tempHead ++ [tmpSeg n]) hB ?_), fun p h => ?_⟩
    · intro r hr' hnb hne
      have hpre : c.tempHead ++ [tmpSeg n] <+: c.tempHead ++ [tmpSeg n] ++ tailSegs clean ++ q.reverse := by
        rw [List.append_assoc (c.tempHead ++ [tmpSeg n])]; exact List.prefix_append _ _
      rcases List.prefix_or_prefix_of_prefix hr' hpre with h | h
      · -- a prefix of `tempHead ++ [tmp]` that is not below it is a prefix of `tempHead`
        have : r <+: c.tempHead := by
          rcases prefix_snoc h with h' | h'
          · exact h'
          · exact absurd (h' ▸ List.prefix_refl _) hnb
        cases hk : kind? fs r with
        | none => exact absurd hk (hok r this hne)
        | some k => exact kind?_ne_none_of_mem (List.mem_append_left _ (kind?_some_mem hk))
      · exact absurd h hnb
    · rw [afterPath_path c clean _ _ p h]; exact ⟨q.reverse, rfl⟩

/-- F43 closed: a base/name whose relative part climbs above its start (`../../x`, `a/../../b`, `..` in `base`, …)
is rejected with `FilerError` and the filesystem is untouched — no `mkdtemp` either -/
theorem escaping_name_is_rejected_untouched (c : Cfg) (clean : Bool) (fs : FS) (n : Nat)
    (h : relWalk [] (splitSlash c.base ++ splitSlash (withExt c.name c.fext c.filed c.ext)) = none) :
    remake c clean fs n = (fs, n, .error .filerError) :=
  remake_rejected c clean fs n (by simp [rejected, h])

/-- C29.2: `_clearPath` adds nothing, and removes only entries at or below `.path` (persistent), or at or below
the directory holding `.path` (temporary) -/
theorem clear_within_path (c : Cfg) (fs fs' : FS) (p : P) (h : clearPath c fs (some p) = .ok fs') :
    (∀ e ∈ fs', e ∈ fs) ∧ Touched fs fs' (fun x => (if c.temp then dirname p else p) <+: x) := by
  have hdp : dirname p <+: p := dirname_prefix p
  have hQp : (if c.temp then dirname p else p) <+: p := by
    split
    · exact hdp
    · exact List.prefix_refl _
  have hQ : ∀ x, p <+: x → (if c.temp then dirname p else p) <+: x := fun x hx => hQp.trans hx
  simp only [clearPath] at h
  split at h
  · split at h
    · split at h
      · cases h
      · rename_i fs1 h1
        have s1 := remove_subset _ _ _ h1
        have t1 := remove_touched fs fs1 p _ hQp h1
        split at h
        · rename_i htemp
          refine ⟨fun e he => s1 e (rmtree_subset _ _ _ h e he), t1.trans (rmtree_touched _ _ _ _ (fun x hx => ?_) h)⟩
          simp only [htemp, ↓reduceIte]; exact hx
        · cases h; exact ⟨s1, t1⟩
    · split at h
      · exact ⟨remove_subset _ _ _ h, remove_touched _ _ _ _ hQp h⟩
      · exact ⟨rmtree_subset _ _ _ h, rmtree_touched _ _ _ _ hQ h⟩
  · cases h; exact ⟨fun _ he => he, Touched.refl _ _⟩

/-! ### every history of `reopen` / `close` calls, including calls that change `temp` and `fext` -/

/-- inside the Filer's own head directories: below the requested `headDirPath`, below one of its `mkdtemp`
directories, or below the alternative head it falls back to -/
def InHead (c : Cfg) (x : P) : Prop :=
  c.head <+: x ∨ (∃ k, c.tempHead ++ [tmpSeg k] <+: x) ∨ c.altHead <+: x

/-- none of the three head directories lies inside another one -/
def Apart (c : Cfg) : Prop :=
  ¬ c.tempHead <+: c.head ∧ ¬ c.head <+: c.tempHead ∧ ¬ c.altHead <+: c.head ∧ ¬ c.head <+: c.altHead ∧
  ¬ c.altHead <+: c.tempHead ∧ ¬ c.tempHead <+: c.altHead

/-- the directories above the three heads (the temp head itself included) exist -/
def Bases (c : Cfg) (fs : FS) : Prop :=
  HeadOk fs c.head ∧ (∀ q, q <+: c.tempHead → q ≠ [] → kind? fs q ≠ none) ∧ HeadOk fs c.altHead

/-- what a history keeps true -/
def Inv (c : Cfg) (s : St) : Prop :=
  Apart c ∧ Bases c s.fs ∧ ∀ p, s.path = some p → InHead c (dirname p)

theorem InHead.mono {c : Cfg} {x y : P} (h : InHead c x) (hxy : x <+: y) : InHead c y := by
  rcases h with h | ⟨k, h⟩ | h
  · exact Or.inl (h.trans hxy)
  · exact Or.inr (Or.inl ⟨k, h.trans hxy⟩)
  · exact Or.inr (Or.inr (h.trans hxy))

theorem prefix_antisymm {a b : P} (h1 : a <+: b) (h2 : b <+: a) : a = b :=
  List.IsPrefix.eq_of_length_le h1 h2.length_le

theorem base_preserved (c : Cfg) (fs fs' : FS) (ht : Touched fs fs' (InHead c)) (hap : Apart c)
    (h : Bases c fs) : Bases c fs' := by
  obtain ⟨a1, a2, a3, a4, a5, a6⟩ := hap
  have keep : ∀ q, ¬ InHead c q → kind? fs q ≠ none → kind? fs' q ≠ none := by
    intro q hn hk
    cases hk' : kind? fs q with
    | none => exact absurd hk' hk
    | some k =>
      rcases (ht (q, k)).2 (kind?_some_mem hk') with hm | hm
      · exact kind?_ne_none_of_mem hm
      · exact absurd hm hn
  refine ⟨fun q hq hne hnil => keep q ?_ (h.1 q hq hne hnil), fun q hq hne => keep q ?_ (h.2.1 q hq hne),
    fun q hq hne hnil => keep q ?_ (h.2.2 q hq hne hnil)⟩
  · rintro (hk | ⟨k, hk⟩ | hk)
    · exact hne (prefix_antisymm hq hk)
    · exact a1 ((List.prefix_append _ _).trans (hk.trans hq))
    · exact a3 (hk.trans hq)
  · rintro (hk | ⟨k, hk⟩ | hk)
    · exact a2 (hk.trans hq)
    · have := (hk.trans hq).length_le
      simp at this
      omega
    · exact a5 (hk.trans hq)
  · rintro (hk | ⟨k, hk⟩ | hk)
    · exact a4 (hk.trans hq)
    · exact a6 ((List.prefix_append _ _).trans (hk.trans hq))
    · exact hne (prefix_antisymm hq hk)

theorem below_tail_dirname {B p : P} {clean : Bool} (h : B ++ tailSegs clean <+: p) : B <+: dirname p := by
  obtain ⟨t, rfl⟩ := h
  unfold dirname
  rw [List.append_assoc, List.dropLast_append_of_ne_nil (tail_append_ne_nil clean _)]
  exact List.prefix_append _ _

theorem close_inside (c : Cfg) (s : St) (clear : Bool) (hi : Inv c s) :
    Touched s.fs (close c s clear).1.fs (InHead c) ∧ Inv c (close c s clear).1 ∧
      (close c s clear).1.path = s.path ∧ (close c s clear).1.temp = s.temp ∧ (close c s clear).1.tmpN = s.tmpN := by
  unfold close
  split
  · cases hp : s.path with
    | none => simp only [clearPath]; exact ⟨Touched.refl _ _, ⟨hi.1, hi.2.1, by simp [hp]⟩, by simp [hp], by simp, by simp⟩
    | some p =>
      split
      · rename_i fs' hc
        have hin := hi.2.2 p hp
        have t : Touched s.fs fs' (InHead c) :=
          (clear_within_path (cur c s) s.fs fs' p hc).2.mono (fun x hx => by
            split at hx
            · exact hin.mono hx
            · exact (hin.mono (dirname_prefix p)).mono hx)
        have hb := base_preserved c _ _ t hi.1 hi.2.1
        exact ⟨t, ⟨hi.1, hb, fun q hq => hi.2.2 q (by rw [hp]; exact hq)⟩, rfl, rfl, rfl⟩
      · exact ⟨Touched.refl _ _, ⟨hi.1, hi.2.1, fun q hq => hi.2.2 q (by rw [hp]; exact hq)⟩, rfl, rfl, rfl⟩
  · exact ⟨Touched.refl _ _, ⟨hi.1, hi.2.1, hi.2.2⟩, rfl, rfl, rfl⟩

theorem headok_kept {fs fs' : FS} {H : P} {Q : P → Prop} (ht : Touched fs fs' Q)
    (hq : ∀ q, q <+: H → q ≠ H → ¬ Q q) (h : HeadOk fs H) : HeadOk fs' H := by
  intro q hp hne hnil
  cases hk : kind? fs q with
  | none => exact absurd hk (h q hp hne hnil)
  | some k =>
    rcases (ht (q, k)).2 (kind?_some_mem hk) with hm | hm
    · exact kind?_ne_none_of_mem hm
    · exact absurd hm (hq q hp hne)

/-- a temporary Filer never takes the fallback: `remakeFull` either refuses before touching anything (no `TempHeadDir`)
or is `remake` -/
theorem remakeFull_temp (c : Cfg) (clean : Bool) (fs : FS) (n : Nat) (ht : c.temp = true) :
    ((remakeFull c clean fs n).1 = fs ∧ ∀ p, (remakeFull c clean fs n).2.2 ≠ .ok p) ∨
      remakeFull c clean fs n = remake c clean fs n := by
  unfold remakeFull
  split
  · left; split <;> exact ⟨rfl, fun p h => by cases h⟩
  · right
    have : needsAlt c clean fs = none := by simp [needsAlt, ht]
    simp [this]

/-- `remake` (with its fallback) under whatever settings are in force touches only the inside of a head, and an
accepted path lies strictly inside one -/
theorem remakeFull_inside (c : Cfg) (c' : Cfg) (hh : c'.head = c.head) (hth : c'.tempHead = c.tempHead)
    (hah : c'.altHead = c.altHead) (hap : Apart c) (clean : Bool) (fs : FS) (n : Nat) (hb : Bases c fs) :
    Touched fs (remakeFull c' clean fs n).1 (InHead c) ∧
    ∀ p, (remakeFull c' clean fs n).2.2 = .ok p → InHead c (dirname p) := by
  have plain : Touched fs (remake c' clean fs n).1 (InHead c) ∧
      ∀ p, (remake c' clean fs n).2.2 = .ok p → InHead c (dirname p) := by
    by_cases ht : c'.temp = true
    · obtain ⟨t, hp⟩ := remake_inside_tempdir c' clean fs n ht (hth ▸ hb.2.1)
      rw [hth] at t hp
      exact ⟨t.mono (fun x hx => Or.inr (Or.inl ⟨n, hx⟩)), fun p h => Or.inr (Or.inl ⟨n, below_tail_dirname (hp p h)⟩)⟩
    · simp only [Bool.not_eq_true] at ht
      obtain ⟨t, hp⟩ := remake_inside_head c' clean fs n ht (hh ▸ hb.1)
      rw [hh] at t hp
      exact ⟨t.mono (fun x hx => Or.inl hx), fun p h => Or.inl (below_tail_dirname (hp p h))⟩
  unfold remakeFull
  split
  · split <;> exact ⟨Touched.refl _ _, fun p h => by cases h⟩
  · split
    · rename_i fs2 hna
      obtain ⟨_, q, hq, hcl⟩ := needsAlt_spec c' clean fs fs2 hna
      have hB : c.head <+: dirname (c'.head ++ tailSegs clean ++ q.reverse) := by
        rw [hh]; unfold dirname
        rw [List.append_assoc, List.dropLast_append_of_ne_nil (tail_append_ne_nil clean _)]
        exact List.prefix_append _ _
      have t1 := cleanOld_touched c' clean fs fs2 _ c.head hB hcl
      have ha2 : HeadOk fs2 c'.altHead := by
        rw [hah]
        refine headok_kept t1 (fun r hr hne hk => ?_) hb.2.2
        exact hap.2.2.2.1 (hk.trans hr)
      obtain ⟨t2, hp2⟩ := altCreate_touched c' clean fs2 n q hq ha2
      rw [hah] at t2 hp2
      refine ⟨(t1.mono (fun x hx => Or.inl hx)).trans (t2.mono (fun x hx => Or.inr (Or.inr hx))), fun p h => ?_⟩
      have := hp2 p h
      obtain ⟨t, rfl⟩ := this
      refine Or.inr (Or.inr ?_)
      unfold dirname
      rw [List.append_assoc, List.dropLast_append_of_ne_nil (altTail_append_ne_nil clean _)]
      exact List.prefix_append _ _
    · exact plain

theorem reopenTail_inside (c : Cfg) (s2 : St) (reuse clean : Bool) (i2 : Inv c s2) :
    Touched s2.fs (reopenTail c s2 reuse clean).1.fs (InHead c) ∧ Inv c (reopenTail c s2 reuse clean).1 := by
  unfold reopenTail
  have hrem : Touched s2.fs
      (match remakeFull (cur c s2) clean s2.fs s2.tmpN with
        | (fs, n, Except.ok p) => (({ s2 with fs := fs, tmpN := n, path := some p, opened := true } : St), (Except.ok () : Except Exn Unit))
        | (fs, n, Except.error e) => ({ s2 with fs := fs, tmpN := n }, Except.error e)).1.fs (InHead c) ∧
      Inv c (match remakeFull (cur c s2) clean s2.fs s2.tmpN with
        | (fs, n, Except.ok p) => (({ s2 with fs := fs, tmpN := n, path := some p, opened := true } : St), (Except.ok () : Except Exn Unit))
        | (fs, n, Except.error e) => ({ s2 with fs := fs, tmpN := n }, Except.error e)).1 := by
    obtain ⟨t2, hp2⟩ := remakeFull_inside c (cur c s2) rfl rfl rfl i2.1 clean s2.fs s2.tmpN i2.2.1
    generalize remakeFull (cur c s2) clean s2.fs s2.tmpN = rr at t2 hp2
    obtain ⟨fs2, n2, r2⟩ := rr
    have hb := base_preserved c _ _ t2 i2.1 i2.2.1
    cases r2 with
    | ok p =>
      simp only at t2 hp2 hb ⊢
      exact ⟨t2, i2.1, hb, fun q hq => by
        simp only [Option.some.injEq] at hq; subst hq; exact hp2 p rfl⟩
    | error e =>
      simp only at t2 hb ⊢
      exact ⟨t2, i2.1, hb, fun q hq => i2.2.2 q hq⟩
  cases hp : s2.path with
  | none =>
    simp only [hp, Bool.not_false, ↓reduceIte] at hrem ⊢
    exact hrem
  | some p =>
    simp only [hp] at hrem ⊢
    cases hk : (fexists s2.fs p && reuse) with
    | false => simp only [Bool.not_false, ↓reduceIte]; exact hrem
    | true =>
      simp only [Bool.not_true, Bool.false_eq_true, ↓reduceIte]
      split
      · cases ho : ocfn s2.fs p with
        | error e => exact ⟨Touched.refl _ _, i2⟩
        | ok fs2 =>
          simp only
          have t2 : Touched s2.fs fs2 (InHead c) :=
            ocfn_touched _ _ _ _ ((i2.2.2 p hp).mono (dirname_prefix p)) ho
          have hb := base_preserved c _ _ t2 i2.1 i2.2.1
          exact ⟨t2, i2.1, hb, fun q hq => i2.2.2 q (by rw [hp]; exact hq)⟩
      · exact ⟨Touched.refl _ _, i2.1, i2.2.1, fun q hq => i2.2.2 q (by rw [hp]; exact hq)⟩

theorem reopen_inside (c : Cfg) (s : St) (clear reuse clean : Bool) (nt : Option Bool) (nf : Option (List Nat))
    (hi : Inv c s) :
    Touched s.fs (reopen c s clear reuse clean nt nf).1.fs (InHead c) ∧ Inv c (reopen c s clear reuse clean nt nf).1 := by
  obtain ⟨t1, i1, -, -, -⟩ := close_inside c s clear hi
  unfold reopen
  generalize close c s clear = r at t1 i1
  obtain ⟨s1, r1⟩ := r
  cases r1 with
  | error e => exact ⟨t1, i1⟩
  | ok u =>
    simp only at t1 i1 ⊢
    have i2 : Inv c (takeOver s1 nt nf) := i1
    obtain ⟨t2, i3⟩ := reopenTail_inside c (takeOver s1 nt nf) reuse clean i2
    exact ⟨t1.trans t2, i3⟩

/-- C29 for EVERY history: whatever sequence of `reopen(temp, fext, clear, reuse, clean)` / `close(clear)` calls is
made on a Filer with whatever name, base, extension and flags — also when the calls switch it between persistent and
temporary, when the Filer lives in an `openFiler` context (`exit`) or is driven by a `FilerDoer` (`doer`) — the filesystem afterwards differs from the one before only in entries inside the Filer's own head
directory or inside its own `mkdtemp` directories -/
theorem history_inside_head (c : Cfg) (steps : List Step) (s : St) (hi : Inv c s) :
    Touched s.fs (runAll c s steps).fs (InHead c) ∧ Inv c (runAll c s steps) := by
  induction steps generalizing s with
  | nil => exact ⟨Touched.refl _ _, hi⟩
  | cons st rest ih =>
    have h1 : Touched s.fs (step c s st).1.fs (InHead c) ∧ Inv c (step c s st).1 := by
      cases st with
      | reopen a b cl t f => exact reopen_inside c s a b cl t f hi
      | close a => exact ⟨(close_inside c s a hi).1, (close_inside c s a hi).2.1⟩
      | exit a => exact ⟨(close_inside c s _ hi).1, (close_inside c s _ hi).2.1⟩
      | «exists» => simp only [step]; split <;> exact ⟨Touched.refl _ _, hi⟩
      | setName v => exact ⟨Touched.refl _ _, hi⟩
      | setBase v => exact ⟨Touched.refl _ _, hi⟩
      | setFiled b => exact ⟨Touched.refl _ _, hi⟩
      | setExt b => exact ⟨Touched.refl _ _, hi⟩
      | remake nm bs t cl f e =>
        simp only [step]
        obtain ⟨t2, _⟩ := remakeFull_inside c { cur c s with name := nm, base := bs, temp := t, filed := f, ext := e } rfl rfl rfl
          hi.1 cl s.fs s.tmpN hi.2.1
        generalize remakeFull { cur c s with name := nm, base := bs, temp := t, filed := f, ext := e } cl s.fs s.tmpN = rr at t2
        obtain ⟨fs2, n2, r2⟩ := rr
        have hb := base_preserved c _ _ t2 hi.1 hi.2.1
        cases r2 <;> exact ⟨t2, hi.1, hb, fun q hq => hi.2.2 q hq⟩
      | doer t =>
        simp only [step]
        split
        · exact ⟨(close_inside c s _ hi).1, (close_inside c s _ hi).2.1⟩
        · obtain ⟨t1, i1⟩ := reopen_inside c s false false false t none hi
          generalize reopen c s false false false t none = r at t1 i1
          obtain ⟨s1, r1⟩ := r
          cases r1 with
          | error e =>
            simp only at t1 i1 ⊢
            exact ⟨t1.trans (close_inside c s1 _ i1).1, (close_inside c s1 _ i1).2.1⟩
          | ok u =>
            simp only at t1 i1 ⊢
            exact ⟨t1.trans (close_inside c s1 _ i1).1, (close_inside c s1 _ i1).2.1⟩
    obtain ⟨t2, i2⟩ := ih _ h1.2
    exact ⟨h1.1.trans t2, i2⟩

/-- … in particular from a fresh object (the constructor is the first `reopen`, `.path` not yet set) -/
theorem fresh_filer_history_inside_head (c : Cfg) (fs : FS) (steps : List Step)
    (hap : Apart c) (hb : Bases c fs) :
    Touched fs (runAll c (fresh c fs) steps).fs (InHead c) :=
  (history_inside_head c steps (fresh c fs) ⟨hap, hb, fun p h => by cases h⟩).1

/-- an absolute `name` or `base` is refused by `remake` ITSELF — whoever calls it, with whatever the attributes were set
to after construction: `FilerError`, nothing touched, no `mkdtemp` (the checks in `__init__` are not the only ones) -/
theorem absolute_name_or_base_rejected_at_every_entry (c : Cfg) (clean : Bool) (fs : FS) (n : Nat)
    (h : (isabs c.name || isabs c.base) = true) : remakeFull c clean fs n = (fs, n, .error .filerError) := by
  have hr : rejected c = true := by simp only [rejected, h, Bool.true_or]
  have h3 : (c.temp || isabs c.name || isabs c.base) = true := by
    rcases Bool.or_eq_true _ _ |>.mp h with h' | h' <;> simp [h']
  have hn : needsAlt c clean fs = none := by simp only [needsAlt, h3, ↓reduceIte]
  simp [remakeFull, h, hn, remake_rejected c clean fs n hr]

/-- C29.2 for the context manager: when `with openFiler(..., clear=cl)` is left, a temporary Filer, or any Filer
opened with `clear=True`, has nothing left at its path — whatever happened inside the block, in particular also when
the block already closed the Filer itself (`.opened` plays no role) -/
theorem context_exit_clears_path (c : Cfg) (s s' : St) (p : P) (cl : Bool) (hp : s.path = some p)
    (hc : (s.temp || cl) = true) (h : step c s (.exit cl) = (s', .ok ())) : kind? s'.fs p = none := by
  simp only [step, close, hc, ↓reduceIte, hp] at h
  split at h
  · rename_i fs' hcl
    cases h
    exact clearPath_removes_path _ _ _ _ hcl
  · cases h

/-- a `FilerDoer` run on a Filer that is ALREADY open never reopens it, whatever `temp` is injected at `enter`: the
path made before stays the Filer's path and the doer's `exit` closes (and, for a temp Filer, clears) exactly that one —
no second `mkdtemp` directory appears -/
theorem doer_on_open_filer_keeps_path (c : Cfg) (s : St) (t : Option Bool) (ho : s.opened = true) :
    (step c s (.doer t)).1.path = s.path ∧ (step c s (.doer t)).1.tmpN = s.tmpN ∧
    step c s (.doer t) = close c s s.temp := by
  simp only [step, ho, ↓reduceIte, and_true]
  unfold close
  split
  · split <;> exact ⟨rfl, rfl⟩
  · exact ⟨rfl, rfl⟩

/-- C29.2 across a reconfiguring `reopen`: a PERSISTENT Filer that is reopened as a temporary one
(`reopen(temp=True, clear=…)`) clears its old path under the OLD setting — it removes nothing that is not at or
below its own old path (the directory holding it and everything else in there stay), and otherwise only its new
`mkdtemp` directory changes -/
theorem reopen_to_temp_keeps_siblings (c : Cfg) (s : St) (p : P) (clear reuse clean : Bool) (nf : Option (List Nat))
    (hi : Inv c s) (htemp : s.temp = false) (hp : s.path = some p) :
    Touched s.fs (reopen c s clear reuse clean (some true) nf).1.fs
      (fun x => p <+: x ∨ c.tempHead ++ [tmpSeg s.tmpN] <+: x) := by
  have hc : Touched s.fs (close c s clear).1.fs (fun x => p <+: x ∨ c.tempHead ++ [tmpSeg s.tmpN] <+: x) := by
    unfold close
    split
    · rw [hp]
      split
      · rename_i fs' hcl
        refine (clear_within_path (cur c s) s.fs fs' p hcl).2.mono (fun x hx => Or.inl ?_)
        simpa [cur, htemp] using hx
      · exact Touched.refl _ _
    · exact Touched.refl _ _
  obtain ⟨-, i1, e1, -, e3⟩ := close_inside c s clear hi
  unfold reopen
  generalize close c s clear = r at hc i1 e1 e3
  obtain ⟨s1, r1⟩ := r
  cases r1 with
  | error e => exact hc
  | ok u =>
    simp only at hc i1 e1 e3 ⊢
    refine hc.trans ?_
    have hp1 : (takeOver s1 (some true) nf).path = some p := by simp [takeOver, e1, hp]
    have ht1 : (takeOver s1 (some true) nf).temp = true := by simp [takeOver]
    have hn1 : (takeOver s1 (some true) nf).tmpN = s.tmpN := by simp [takeOver, e3]
    have hf1 : (takeOver s1 (some true) nf).fs = s1.fs := rfl
    generalize takeOver s1 (some true) nf = s2 at hp1 ht1 hn1 hf1
    rw [← hf1]
    unfold reopenTail
    simp only [hp1]
    cases hk : (fexists s2.fs p && reuse) with
    | true =>
      simp only [Bool.not_true, Bool.false_eq_true, ↓reduceIte]
      split
      · cases ho : ocfn s2.fs p with
        | error e => exact Touched.refl _ _
        | ok fs2 => exact ocfn_touched _ _ _ _ (Or.inl (List.prefix_refl _)) ho
      · exact Touched.refl _ _
    | false =>
      simp only [Bool.not_false, ↓reduceIte]
      have ht' : Touched s2.fs (remakeFull (cur c s2) clean s2.fs s2.tmpN).1
          (fun x => p <+: x ∨ c.tempHead ++ [tmpSeg s.tmpN] <+: x) := by
        rcases remakeFull_temp (cur c s2) clean s2.fs s2.tmpN (by simp [cur, ht1]) with h | h
        · rw [h.1]; exact Touched.refl _ _
        · rw [h]
          have ht := (remake_inside_tempdir (cur c s2) clean s2.fs s2.tmpN (by simp [cur, ht1])
            (by rw [hf1]; exact i1.2.1.2.1)).1
          rw [hn1] at ht ⊢
          exact ht.mono (Q := fun x => c.tempHead ++ [tmpSeg s.tmpN] <+: x)
            (R := fun x => p <+: x ∨ c.tempHead ++ [tmpSeg s.tmpN] <+: x) (fun x hx => Or.inr hx)
      generalize remakeFull (cur c s2) clean s2.fs s2.tmpN = rr at ht'
      obtain ⟨fs2, n2, r2⟩ := rr
      cases r2 <;> exact ht'

/-! ### concrete witnesses and non-vacuity (tests on literals; the unbounded claims are the theorems above) -/

def exCfg (temp filed : Bool) (name : List Nat) : Cfg :=
  ⟨name, [], [116], temp, filed, false, [[104]], [[116]], [[97]], false, false⟩      -- head "/h", temp head "/t", alt head "/a", fext "t"
def exFs : FS := [([[104]], .dir), ([[116]], .dir)]
def exMain : List Nat := [109]                                      -- "m"

/-- F44 / C29-K1: temp Filer, `close(clear=True)`: the file and its directory go, the `mkdtemp` directory stays -/
theorem temp_clear_leaves_tempdir :
    let s1 := (reopen (exCfg true true exMain) (fresh (exCfg true true exMain) exFs) false false false none none).1
    let s2 := (close (exCfg true true exMain) s1 true).1
    s1.path = some [[116], tmpSeg 0, [104, 105, 111], [109, 46, 116]] ∧
    ([[116], tmpSeg 0], Kind.dir) ∈ s2.fs ∧ kind? s2.fs [[116], tmpSeg 0, [104, 105, 111]] = none := by
  decide

/-- C29-K2: a persistent filed Filer, `reopen(reuse=True, temp=True)` keeps the old path but takes over `temp`;
the later `close(clear=True)` then applies the temp rule and removes the whole holding directory with another
Filer's file in it.  (With `reuse=False` the same call clears under the OLD setting and the sibling survives:
`reopen_to_temp_keeps_siblings`.) -/
theorem reuse_with_temp_flip_clears_holding_dir :
    let c := exCfg false true exMain
    let fs0 : FS := exFs ++ [([[104], [104, 105, 111]], .dir), ([[104], [104, 105, 111], [107]], .file)]
    let s1 := (reopen c (fresh c fs0) false false false none none).1
    let s2 := (reopen c s1 false true false (some true) none).1
    let s3 := (close c s2 true).1
    s2.path = s1.path ∧ s2.temp = true ∧ ([[104], [104, 105, 111], [107]], Kind.file) ∈ s2.fs ∧
      kind? s3.fs [[104], [104, 105, 111], [107]] = none := by
  decide

/-- C29-K3: a persistent filed Filer, `reopen(temp=True)` while `TempHeadDir` does not exist: `mkdtemp` raises, the old
persistent path is kept, but `.temp` is `True` already (the settings are taken over before `remake` runs); the later
`close(clear=True)` applies the temp rule and removes the whole holding directory with another Filer's file in it -/
theorem failed_reopen_to_temp_clears_holding_dir :
    let c := exCfg false true exMain
    let fs0 : FS := [([[104]], .dir), ([[104], [104, 105, 111]], .dir), ([[104], [104, 105, 111], [107]], .file)]
    let s1 := (reopen c (fresh c fs0) false false false none none).1
    let r2 := reopen c s1 false false false (some true) none
    let s3 := (close c r2.1 true).1
    (match r2.2 with | .error .osError => true | _ => false) = true ∧ r2.1.path = s1.path ∧ r2.1.temp = true ∧
      ([[104], [104, 105, 111], [107]], Kind.file) ∈ r2.1.fs ∧ kind? s3.fs [[104], [104, 105, 111], [107]] = none := by
  decide

/-- the head-directory parameter: only `None` selects the class default — the empty string is a head of its own … -/
theorem only_none_selects_the_class_default (h d : List Nat) :
    chooseHead (some h) d = h ∧ chooseHead none d = d := ⟨rfl, rfl⟩

/-- … namely the current directory; `~` is the home directory; an absolute head is itself -/
theorem empty_head_is_the_current_directory (home cwd : P) :
    resolveHead home cwd [] = cwd ∧ resolveHead home cwd [46] = cwd ∧ resolveHead home cwd [126] = home := by
  refine ⟨?_, ?_, rfl⟩ <;> simp [resolveHead, splitSlash, walk, isSkip]

/-- a symbolic link sitting at `.path`: clearing removes the LINK (a filed Filer) or refuses (`rmtree` on a link to a
directory raises) — the link's target outside the head is never touched (in general: `clear_within_path`) -/
theorem clear_removes_the_link_not_its_target :
    let fsF : FS := [([[104]], .dir), ([[104], [104, 105, 111]], .dir), ([[104], [104, 105, 111], [109, 46, 116]], .flink), ([[111]], .dir), ([[111], [116]], .file)]
    let fsD : FS := [([[104]], .dir), ([[104], [104, 105, 111]], .dir), ([[104], [104, 105, 111], [109]], .dlink), ([[111]], .dir), ([[111], [100]], .dir)]
    (match clearPath (exCfg false true exMain) fsF (some [[104], [104, 105, 111], [109, 46, 116]]) with
      | .ok fs' => (kind? fs' [[104], [104, 105, 111], [109, 46, 116]]).isNone && (kind? fs' [[111], [116]] == some .file)
      | .error _ => false) = true ∧
    (match clearPath (exCfg false false exMain) fsD (some [[104], [104, 105, 111], [109]]) with
      | .ok _ => false
      | .error _ => true) = true := by
  decide

/-- `name = "../../x"` is rejected -/
example : (remake (exCfg false false [46, 46, 47, 46, 46, 47, 120]) false exFs 0) = (exFs, 0, .error .filerError) := by rfl
/-- `name = "a/../b"` is accepted and lands in `head/hio/b` -/
example : (remake (exCfg false false [97, 47, 46, 46, 47, 98]) false exFs 0).2.2 = .ok [[104], [104, 105, 111], [98]] := by rfl
/-- the hypotheses of the containment theorems are met by the example filesystem -/
example : HeadOk exFs (exCfg false false exMain).head := by
  intro q hq hne hnil
  rcases List.prefix_cons_iff.mp hq with rfl | ⟨t, rfl, ht⟩
  · exact absurd rfl hnil
  · have : t = [] := List.prefix_nil.mp ht
    subst this; exact absurd rfl hne

end Hio.Path
