import HioModel.Path.Lemmas
/-!
# C29 — Filer stays inside its head directory; clear removes only below its own path

Property theorems only.  Model: `HioModel/Path/Model.lean` (path construction with
`os.path.join/abspath/splitext` on segment lists; `remake`, `reopen`, `close`, `_clearPath`
over a modelled filesystem), faithful to the current source INCLUDING the fix (branch
fix/small) that makes `remake` reject a base/name whose normalised relative part climbs
above its start.  Before that fix the statement was false (`name = "../../x"`, DESIGN F43);
the escaping inputs are now proved to be rejected with nothing touched
(`escaping_name_is_rejected_untouched`), so the containment theorems carry no guard on
`name`/`base` at all: they hold for EVERY name, base, extension and all 16 flag combinations.

`Touched fs fs' Q` : the two filesystems differ only in entries whose path satisfies `Q`.

Second clause of the property, "temp resources are removed": FALSE for the top of the
temporary tree — `temp_clear_leaves_tempdir` (known finding C29-K1, DESIGN F44); what
`close(clear=True)` does remove, and that it removes nothing else, is `clear_within_path`.
-/
namespace Hio.Path

/-- the directories above the head exist (the head itself need not) -/
def HeadOk (fs : FS) (head : P) : Prop := ∀ q, q <+: head → q ≠ head → q ≠ [] → kind? fs q ≠ none

/-- C29.1, persistent Filer: whatever `name`, `base`, `fext` and flags, `remake` creates and deletes only
entries below the head directory, and an accepted path lies below `head/hio[/clean]` -/
theorem remake_inside_head (c : Cfg) (clean : Bool) (fs : FS) (n : Nat) (ht : c.temp = false)
    (hok : HeadOk fs c.head) :
    Touched fs (remake c clean fs n).1 (fun x => c.head <+: x) ∧
    ∀ p, (remake c clean fs n).2.2 = .ok p → c.head ++ tailSegs clean <+: p := by
  cases hr : rejected c with
  | true =>
    rw [remake_rejected c clean fs n hr]
    exact ⟨Touched.refl _ _, fun p h => by cases h⟩
  | false =>
    obtain ⟨q, _, he⟩ := remake_accepted c clean fs n hr
    rw [he]
    simp only [ht, Bool.false_eq_true, ↓reduceIte]
    have hB : c.head <+: dirname (c.head ++ tailSegs clean ++ q.reverse) := by
      unfold dirname
      rw [List.append_assoc, List.dropLast_append_of_ne_nil (tail_append_ne_nil clean _)]
      exact List.prefix_append _ _
    refine ⟨afterPath_touched c clean fs _ c.head hB ?_, fun p h => ?_⟩
    · intro r hr' hnb hne
      have hpre : c.head <+: c.head ++ tailSegs clean ++ q.reverse := by
        rw [List.append_assoc]; exact List.prefix_append _ _
      rcases List.prefix_or_prefix_of_prefix hr' hpre with h | h
      · exact hok r h (fun e => hnb (e ▸ List.prefix_refl _)) hne
      · exact absurd h hnb
    · rw [afterPath_path c clean fs _ p h]; exact List.prefix_append _ _

/-- C29.1, temporary Filer: `remake` creates and deletes only entries inside its own fresh `mkdtemp`
directory (that directory itself included), and an accepted path lies below `<tmp>/hio[/clean]` -/
theorem remake_inside_tempdir (c : Cfg) (clean : Bool) (fs : FS) (n : Nat) (ht : c.temp = true)
    (hok : ∀ q, q <+: c.tempHead → q ≠ [] → kind? fs q ≠ none) :
    Touched fs (remake c clean fs n).1 (fun x => c.tempHead ++ [tmpSeg n] <+: x) ∧
    ∀ p, (remake c clean fs n).2.2 = .ok p → c.tempHead ++ [tmpSeg n] ++ tailSegs clean <+: p := by
  cases hr : rejected c with
  | true =>
    rw [remake_rejected c clean fs n hr]
    exact ⟨Touched.refl _ _, fun p h => by cases h⟩
  | false =>
    obtain ⟨q, _, he⟩ := remake_accepted c clean fs n hr
    rw [he]
    simp only [ht, ↓reduceIte]
    have hB : c.tempHead ++ [tmpSeg n] <+: dirname (c.tempHead ++ [tmpSeg n] ++ tailSegs clean ++ q.reverse) := by
      unfold dirname
      rw [List.append_assoc (c.tempHead ++ [tmpSeg n]),
        List.dropLast_append_of_ne_nil (tail_append_ne_nil clean _)]
      exact List.prefix_append _ _
    have hmk : Touched fs (fs ++ [(c.tempHead ++ [tmpSeg n], Kind.dir)]) (fun x => c.tempHead ++ [tmpSeg n] <+: x) := by
      intro e
      refine ⟨fun hm => ?_, fun hm => Or.inl (List.mem_append_left _ hm)⟩
      rcases List.mem_append.mp hm with hm | hm
      · exact Or.inl hm
      · simp only [List.mem_singleton] at hm; subst hm; exact Or.inr (List.prefix_refl _)
    refine ⟨hmk.trans (afterPath_touched c clean _ _ (c.tempHead ++ [tmpSeg n]) hB ?_), fun p h => ?_⟩
    · intro r hr' hnb hne
      have hpre : c.tempHead ++ [tmpSeg n] <+: c.tempHead ++ [tmpSeg n] ++ tailSegs clean ++ q.reverse := by
        rw [List.append_assoc (c.tempHead ++ [tmpSeg n])]; exact List.prefix_append _ _
      rcases List.prefix_or_prefix_of_prefix hr' hpre with h | h
      · -- a prefix of `tempHead ++ [tmp]` that is not below it is a prefix of `tempHead`
        have : r <+: c.tempHead := by
          rcases prefix_snoc h with h' | h'
          · exact h'
          · exact absurd (h' ▸ List.prefix_refl _) hnb
        cases hk : kind? fs r with
        | none => exact absurd hk (hok r this hne)
        | some k => exact kind?_ne_none_of_mem (List.mem_append_left _ (kind?_some_mem hk))
      · exact absurd h hnb
    · rw [afterPath_path c clean _ _ p h]; exact ⟨q.reverse, rfl⟩

/-- F43 closed: a base/name whose relative part climbs above its start (`../../x`, `a/../../b`, `..` in `base`, …)
is rejected with `FilerError` and the filesystem is untouched — no `mkdtemp` either -/
theorem escaping_name_is_rejected_untouched (c : Cfg) (clean : Bool) (fs : FS) (n : Nat)
    (h : relWalk [] (splitSlash c.base ++ splitSlash (withExt c.name c.fext c.filed c.ext)) = none) :
    remake c clean fs n = (fs, n, .error .filerError) :=
  remake_rejected c clean fs n (by simp [rejected, h])

/-- C29.2: `_clearPath` adds nothing, and removes only entries at or below `.path` (persistent), or at or below
the directory holding `.path` (temporary) -/
theorem clear_within_path (c : Cfg) (fs fs' : FS) (p : P) (h : clearPath c fs (some p) = .ok fs') :
    (∀ e ∈ fs', e ∈ fs) ∧ Touched fs fs' (fun x => (if c.temp then dirname p else p) <+: x) := by
  have hdp : dirname p <+: p := dirname_prefix p
  have hQp : (if c.temp then dirname p else p) <+: p := by
    split
    · exact hdp
    · exact List.prefix_refl _
  have hQ : ∀ x, p <+: x → (if c.temp then dirname p else p) <+: x := fun x hx => hQp.trans hx
  simp only [clearPath] at h
  split at h
  · split at h
    · split at h
      · cases h
      · rename_i fs1 h1
        have s1 := remove_subset _ _ _ h1
        have t1 := remove_touched fs fs1 p _ hQp h1
        split at h
        · rename_i htemp
          refine ⟨fun e he => s1 e (rmtree_subset _ _ _ h e he), t1.trans (rmtree_touched _ _ _ _ (fun x hx => ?_) h)⟩
          simp only [htemp, ↓reduceIte]; exact hx
        · cases h; exact ⟨s1, t1⟩
    · split at h
      · exact ⟨remove_subset _ _ _ h, remove_touched _ _ _ _ hQp h⟩
      · exact ⟨rmtree_subset _ _ _ h, rmtree_touched _ _ _ _ hQ h⟩
  · cases h; exact ⟨fun _ he => he, Touched.refl _ _⟩

/-! ### every history of `reopen` / `close` calls -/

/-- inside the Filer's own head directory: below `headDirPath`, or (temp) below one of its `mkdtemp` directories -/
def InHead (c : Cfg) (x : P) : Prop :=
  if c.temp then ∃ k, c.tempHead ++ [tmpSeg k] <+: x else c.head <+: x

/-- what a history keeps true: the directories above the head (the temp head itself when temp) exist, and
`.path`, once set, lies strictly inside the head -/
def Inv (c : Cfg) (s : St) : Prop :=
  (if c.temp then ∀ q, q <+: c.tempHead → q ≠ [] → kind? s.fs q ≠ none else HeadOk s.fs c.head) ∧
  ∀ p, s.path = some p → InHead c (dirname p)

theorem InHead.mono {c : Cfg} {x y : P} (h : InHead c x) (hxy : x <+: y) : InHead c y := by
  unfold InHead at *
  split
  · rename_i ht; simp only [ht, ↓reduceIte] at h; obtain ⟨k, hk⟩ := h; exact ⟨k, hk.trans hxy⟩
  · rename_i ht; simp only [ht, ↓reduceIte] at h; exact h.trans hxy

theorem prefix_antisymm {a b : P} (h1 : a <+: b) (h2 : b <+: a) : a = b :=
  List.IsPrefix.eq_of_length_le h1 h2.length_le

theorem base_preserved (c : Cfg) (fs fs' : FS) (ht : Touched fs fs' (InHead c))
    (h : if c.temp then ∀ q, q <+: c.tempHead → q ≠ [] → kind? fs q ≠ none else HeadOk fs c.head) :
    if c.temp then ∀ q, q <+: c.tempHead → q ≠ [] → kind? fs' q ≠ none else HeadOk fs' c.head := by
  have keep : ∀ q, ¬ InHead c q → kind? fs q ≠ none → kind? fs' q ≠ none := by
    intro q hn hk
    cases hk' : kind? fs q with
    | none => exact absurd hk' hk
    | some k =>
      rcases (ht (q, k)).2 (kind?_some_mem hk') with hm | hm
      · exact kind?_ne_none_of_mem hm
      · exact absurd hm hn
  split
  · rename_i htemp
    simp only [htemp, ↓reduceIte] at h
    intro q hq hne
    refine keep q ?_ (h q hq hne)
    simp only [InHead, htemp, ↓reduceIte]
    rintro ⟨k, hk⟩
    have := (hk.trans hq).length_le
    simp at this
    omega
  · rename_i htemp
    simp only [htemp, Bool.false_eq_true, ↓reduceIte] at h
    intro q hq hne hnil
    refine keep q ?_ (h q hq hne hnil)
    simp only [InHead, htemp, Bool.false_eq_true, ↓reduceIte]
    intro hk
    exact hne (prefix_antisymm hq hk)

theorem below_tail_dirname {B p : P} {clean : Bool} (h : B ++ tailSegs clean <+: p) : B <+: dirname p := by
  obtain ⟨t, rfl⟩ := h
  unfold dirname
  rw [List.append_assoc, List.dropLast_append_of_ne_nil (tail_append_ne_nil clean _)]
  exact List.prefix_append _ _

theorem close_inside (c : Cfg) (s : St) (clear : Bool) (hi : Inv c s) :
    Touched s.fs (close c s clear).1.fs (InHead c) ∧ Inv c (close c s clear).1 := by
  unfold close
  split
  · cases hp : s.path with
    | none => simp only [clearPath]; exact ⟨Touched.refl _ _, hi.1, by simp [hp]⟩
    | some p =>
      split
      · rename_i fs' hc
        have hin := hi.2 p hp
        have t : Touched s.fs fs' (InHead c) :=
          (clear_within_path c s.fs fs' p hc).2.mono (fun x hx => by
            split at hx
            · exact hin.mono hx
            · exact (hin.mono (dirname_prefix p)).mono hx)
        exact ⟨t, base_preserved c _ _ t hi.1, fun q hq => hi.2 q (by rw [hp]; exact hq)⟩
      · exact ⟨Touched.refl _ _, hi⟩
  · exact ⟨Touched.refl _ _, hi⟩

theorem remake_inside (c : Cfg) (clean : Bool) (fs : FS) (n : Nat)
    (hb : if c.temp then ∀ q, q <+: c.tempHead → q ≠ [] → kind? fs q ≠ none else HeadOk fs c.head) :
    Touched fs (remake c clean fs n).1 (InHead c) ∧
    ∀ p, (remake c clean fs n).2.2 = .ok p → InHead c (dirname p) := by
  by_cases ht : c.temp = true
  · simp only [ht, ↓reduceIte] at hb
    obtain ⟨t, hp⟩ := remake_inside_tempdir c clean fs n ht hb
    refine ⟨t.mono (fun x hx => ?_), fun p h => ?_⟩
    · simp only [InHead, ht, ↓reduceIte]; exact ⟨n, hx⟩
    · simp only [InHead, ht, ↓reduceIte]; exact ⟨n, below_tail_dirname (hp p h)⟩
  · simp only [Bool.not_eq_true] at ht
    simp only [ht, Bool.false_eq_true, ↓reduceIte] at hb
    obtain ⟨t, hp⟩ := remake_inside_head c clean fs n ht hb
    refine ⟨t.mono (fun x hx => ?_), fun p h => ?_⟩
    · simp only [InHead, ht, Bool.false_eq_true, ↓reduceIte]; exact hx
    · simp only [InHead, ht, Bool.false_eq_true, ↓reduceIte]; exact below_tail_dirname (hp p h)

theorem reopen_inside (c : Cfg) (s : St) (clear reuse clean : Bool) (hi : Inv c s) :
    Touched s.fs (reopen c s clear reuse clean).1.fs (InHead c) ∧ Inv c (reopen c s clear reuse clean).1 := by
  obtain ⟨t1, i1⟩ := close_inside c s clear hi
  unfold reopen
  generalize close c s clear = r at t1 i1
  obtain ⟨s1, r1⟩ := r
  cases r1 with
  | error e => exact ⟨t1, i1⟩
  | ok u =>
    simp only at t1 i1 ⊢
    -- the branch that calls `remake`
    have hrem : Touched s.fs
        (match remake c clean s1.fs s1.tmpN with
          | (fs, n, Except.ok p) => (({ fs := fs, tmpN := n, path := some p } : St), (Except.ok () : Except Exn Unit))
          | (fs, n, Except.error e) => ({ fs := fs, tmpN := n, path := s1.path }, Except.error e)).1.fs (InHead c) ∧
        Inv c (match remake c clean s1.fs s1.tmpN with
          | (fs, n, Except.ok p) => (({ fs := fs, tmpN := n, path := some p } : St), (Except.ok () : Except Exn Unit))
          | (fs, n, Except.error e) => ({ fs := fs, tmpN := n, path := s1.path }, Except.error e)).1 := by
      obtain ⟨t2, hp2⟩ := remake_inside c clean s1.fs s1.tmpN i1.1
      generalize remake c clean s1.fs s1.tmpN = rr at t2 hp2
      obtain ⟨fs2, n2, r2⟩ := rr
      cases r2 with
      | ok p =>
        simp only at t2 hp2 ⊢
        exact ⟨t1.trans t2, base_preserved c _ _ t2 i1.1, fun q hq => by
          simp only [Option.some.injEq] at hq; subst hq; exact hp2 p rfl⟩
      | error e =>
        simp only at t2 ⊢
        exact ⟨t1.trans t2, base_preserved c _ _ t2 i1.1, fun q hq => i1.2 q hq⟩
    cases hp : s1.path with
    | none =>
      simp only [hp, Bool.not_false, ↓reduceIte] at hrem ⊢
      exact hrem
    | some p =>
      simp only [hp] at hrem ⊢
      cases hk : (fexists s1.fs p && reuse) with
      | false => simp only [Bool.not_false, ↓reduceIte]; exact hrem
      | true =>
        simp only [Bool.not_true, Bool.false_eq_true, ↓reduceIte]
        split
        · cases ho : ocfn s1.fs p with
          | error e => exact ⟨t1, i1⟩
          | ok fs2 =>
            simp only
            have t2 : Touched s1.fs fs2 (InHead c) :=
              ocfn_touched _ _ _ _ ((i1.2 p hp).mono (dirname_prefix p)) ho
            exact ⟨t1.trans t2, base_preserved c _ _ t2 i1.1, fun q hq => i1.2 q (by rw [hp]; exact hq)⟩
        · exact ⟨t1, i1⟩

/-- C29 for EVERY history: whatever sequence of `reopen(clear, reuse, clean)` / `close(clear)` calls is made on a
Filer with whatever name, base, extension and flags, the filesystem afterwards differs from the one before only in
entries inside the Filer's own head directory (inside its `mkdtemp` directories when temp) -/
theorem history_inside_head (c : Cfg) (steps : List Step) (s : St) (hi : Inv c s) :
    Touched s.fs (runAll c s steps).fs (InHead c) ∧ Inv c (runAll c s steps) := by
  induction steps generalizing s with
  | nil => exact ⟨Touched.refl _ _, hi⟩
  | cons st rest ih =>
    have h1 : Touched s.fs (step c s st).1.fs (InHead c) ∧ Inv c (step c s st).1 := by
      cases st with
      | reopen a b cl => exact reopen_inside c s a b cl hi
      | close a => exact close_inside c s a hi
    obtain ⟨t2, i2⟩ := ih _ h1.2
    exact ⟨h1.1.trans t2, i2⟩

/-- … in particular from a fresh object (the constructor is the first `reopen`, `.path` not yet set) -/
theorem fresh_filer_history_inside_head (c : Cfg) (fs : FS) (steps : List Step)
    (hb : if c.temp then ∀ q, q <+: c.tempHead → q ≠ [] → kind? fs q ≠ none else HeadOk fs c.head) :
    Touched fs (runAll c ⟨fs, 0, none⟩ steps).fs (InHead c) :=
  (history_inside_head c steps ⟨fs, 0, none⟩ ⟨hb, fun p h => by cases h⟩).1

/-! ### concrete witnesses and non-vacuity (tests on literals; the unbounded claims are the theorems above) -/

def exCfg (temp filed : Bool) (name : List Nat) : Cfg :=
  ⟨name, [], [116], temp, filed, false, [[104]], [[116]]⟩      -- head "/h", temp head "/t", fext "t"
def exFs : FS := [([[104]], .dir), ([[116]], .dir)]
def exMain : List Nat := [109]                                      -- "m"

/-- F44 / C29-K1: temp Filer, `close(clear=True)`: the file and its directory go, the `mkdtemp` directory stays -/
theorem temp_clear_leaves_tempdir :
    let s1 := (reopen (exCfg true true exMain) ⟨exFs, 0, none⟩ false false false).1
    let s2 := (close (exCfg true true exMain) s1 true).1
    s1.path = some [[116], tmpSeg 0, [104, 105, 111], [109, 46, 116]] ∧
    ([[116], tmpSeg 0], Kind.dir) ∈ s2.fs ∧ kind? s2.fs [[116], tmpSeg 0, [104, 105, 111]] = none := by
  decide

/-- `name = "../../x"` is rejected -/
example : (remake (exCfg false false [46, 46, 47, 46, 46, 47, 120]) false exFs 0) = (exFs, 0, .error .filerError) := by rfl
/-- `name = "a/../b"` is accepted and lands in `head/hio/b` -/
example : (remake (exCfg false false [97, 47, 46, 46, 47, 98]) false exFs 0).2.2 = .ok [[104], [104, 105, 111], [98]] := by rfl
/-- the hypotheses of the containment theorems are met by the example filesystem -/
example : HeadOk exFs (exCfg false false exMain).head := by
  intro q hq hne hnil
  rcases List.prefix_cons_iff.mp hq with rfl | ⟨t, rfl, ht⟩
  · exact absurd rfl hnil
  · have : t = [] := List.prefix_nil.mp ht
    subst this; exact absurd rfl hne

end Hio.Path
