import HioModel.Memo.Model
/-! Helper lemmas for `rend` (C20): splitting a memo into gram bodies. -/
namespace Hio.Memo

theorem chunks_nil (n f : Nat) : chunks n f [] = [] := by
  cases f <;> simp [chunks]

/-- with enough fuel and a positive chunk size the chunks concatenate back to the input -/
theorem chunks_flatten (n : Nat) (hn : 1 ≤ n) (f : Nat) (l : Bytes) (hf : l.length ≤ f) : (chunks n f l).flatten = l := by
  induction f generalizing l with
  | zero =>
    have : l = [] := List.length_eq_zero_iff.mp (by omega)
    subst this; simp [chunks]
  | succ f ih =>
    simp only [chunks]
    by_cases hl : l.isEmpty = true
    · simp only [hl, if_true]; have := List.isEmpty_iff.mp hl; subst this; rfl
    · simp only [hl, Bool.false_eq_true, if_false, List.flatten_cons]
      have hne : l ≠ [] := by intro h; simp [h] at hl
      have hpos : 0 < l.length := List.length_pos_iff.mpr hne
      rw [ih (l.drop n) (by simp; omega)]
      exact List.take_append_drop n l

theorem chunks_length (n : Nat) (hn : 1 ≤ n) (f : Nat) (l : Bytes) (hf : l.length ≤ f) :
    (chunks n f l).length = (l.length + n - 1) / n := by
  induction f generalizing l with
  | zero =>
    have : l = [] := List.length_eq_zero_iff.mp (by omega)
    subst this
    simp only [chunks, List.length_nil, Nat.zero_add]
    exact (Nat.div_eq_of_lt (by omega)).symm
  | succ f ih =>
    simp only [chunks]
    by_cases hl : l.isEmpty = true
    · simp only [hl, if_true]; have := List.isEmpty_iff.mp hl; subst this
      simp only [List.length_nil, Nat.zero_add]
      exact (Nat.div_eq_of_lt (by omega)).symm
    · simp only [hl, Bool.false_eq_true, if_false, List.length_cons]
      have hne : l ≠ [] := by intro h; simp [h] at hl
      have hpos : 0 < l.length := List.length_pos_iff.mpr hne
      rw [ih (l.drop n) (by simp; omega)]
      simp only [List.length_drop]
      by_cases hle : l.length ≤ n
      · have h1 : l.length - n = 0 := by omega
        rw [h1]
        have e1 : (0 + n - 1) / n = 0 := Nat.div_eq_of_lt (by omega)
        have e2 : (l.length + n - 1) / n = 1 := by
          apply Nat.div_eq_of_lt_le <;> omega
        omega
      · have e : l.length + n - 1 = (l.length - n + n - 1) + n := by omega
        rw [e, Nat.add_div_right _ (by omega : 0 < n)]

/-- every chunk is non-empty and at most `n` long -/
theorem chunks_bound (n : Nat) (hn : 1 ≤ n) (f : Nat) (l : Bytes) : ∀ c ∈ chunks n f l, c ≠ [] ∧ c.length ≤ n := by
  induction f generalizing l with
  | zero => intro c hc; simp [chunks] at hc
  | succ f ih =>
    intro c hc
    simp only [chunks] at hc
    by_cases hl : l.isEmpty = true
    · simp [hl] at hc
    · simp only [hl, Bool.false_eq_true, if_false, List.mem_cons] at hc
      have hne : l ≠ [] := by intro h; simp [h] at hl
      rcases hc with rfl | hc
      · constructor
        · intro h
          rcases List.take_eq_nil_iff.mp h with h | h
          · omega
          · exact hne h
        · simp [List.length_take]; omega
      · exact ih _ c hc

theorem bodies_flatten (zbz nbz : Nat) (memo : Bytes) (hn : 1 ≤ nbz ∨ memo.length ≤ zbz) :
    (bodies zbz nbz memo).flatten = memo := by
  unfold bodies
  by_cases hm : memo.isEmpty = true
  · simp only [hm, if_true]; have := List.isEmpty_iff.mp hm; subst this; rfl
  · simp only [hm, Bool.false_eq_true, if_false, List.flatten_cons]
    rcases hn with hn | hn
    · rw [chunks_flatten nbz hn memo.length (memo.drop zbz) (by simp)]
      exact List.take_append_drop zbz memo
    · have : memo.drop zbz = [] := List.drop_eq_nil_iff.mpr hn
      rw [this, chunks_nil]; simp [List.take_of_length_le hn]

theorem bodies_length (zbz nbz : Nat) (memo : Bytes) (hne : memo ≠ []) (hn : 1 ≤ nbz ∨ memo.length ≤ zbz) :
    (bodies zbz nbz memo).length = gramCount memo.length zbz nbz := by
  unfold bodies gramCount
  have hm : memo.isEmpty = false := by cases memo <;> simp_all
  simp only [hm, Bool.false_eq_true, if_false, List.length_cons]
  by_cases hle : memo.length ≤ zbz
  · have : memo.drop zbz = [] := List.drop_eq_nil_iff.mpr hle
    simp [this, chunks_nil, hle]
  · simp only [hle, if_false]
    rcases hn with hn | hn
    · rw [chunks_length nbz hn memo.length (memo.drop zbz) (by simp)]
      simp only [List.length_drop]; omega
    · exact absurd hn hle

/-- every body is non-empty; the zeroth is at most `zbz` long, the others at most `nbz` -/
theorem bodies_bound (zbz nbz : Nat) (memo : Bytes) (hz : 1 ≤ zbz) (hn : 1 ≤ nbz ∨ memo.length ≤ zbz) :
    ∀ b ∈ bodies zbz nbz memo, b ≠ [] ∧ b.length ≤ max zbz nbz := by
  unfold bodies
  by_cases hm : memo.isEmpty = true
  · simp [hm]
  · simp only [hm, Bool.false_eq_true, if_false]
    have hne : memo ≠ [] := by intro h; simp [h] at hm
    intro b hb
    rcases List.mem_cons.mp hb with rfl | hb
    · constructor
      · intro h
        rcases List.take_eq_nil_iff.mp h with h | h
        · omega
        · exact hne h
      · simp [List.length_take]; omega
    · rcases hn with hn | hn
      · have := chunks_bound nbz hn _ _ b hb
        exact ⟨this.1, by omega⟩
      · have : memo.drop zbz = [] := List.drop_eq_nil_iff.mpr hn
        rw [this, chunks_nil] at hb; cases hb

/-- the stored gram size is at least the minimum the `size` setter enforces for the CURRENT code and encoding -/
def Legal (cfg : TxCfg) : Prop := ∃ m, minSize cfg.code cfg.curt = .ok m ∧ m ≤ cfg.size

theorem setSize_legal (cfg cfg' : TxCfg) (n : Nat) (h : setSize cfg n = .ok cfg') :
    Legal cfg' ∧ cfg'.code = cfg.code ∧ cfg'.curt = cfg.curt ∧ n ≤ cfg'.size := by
  unfold setSize at h
  split at h
  · rename_i m hm
    cases h
    exact ⟨⟨m, hm, Nat.le_max_right _ _⟩, rfl, rfl, Nat.le_max_left _ _⟩
  · simp at h

/-- re-clamping a legal configuration changes nothing (what `self.size = self._size` does when nothing else changed) -/
theorem setSize_idem (cfg : TxCfg) (h : Legal cfg) : setSize cfg cfg.size = .ok cfg := by
  obtain ⟨m, hm, hle⟩ := h
  simp [setSize, hm, Nat.max_eq_left hle]

theorem applySetter_legal (cfg cfg' : TxCfg) (s : Setter) (h : applySetter cfg s = .ok cfg') : Legal cfg' := by
  cases s with
  | code c =>
    simp only [applySetter] at h
    split at h
    · exact (setSize_legal _ _ _ h).1
    · simp at h
  | curt b => exact (setSize_legal _ _ _ h).1
  | size n => exact (setSize_legal _ _ _ h).1

theorem applySetters_legal (cfg cfg' : TxCfg) (ss : List Setter) (hl : Legal cfg) (h : applySetters cfg ss = .ok cfg') : Legal cfg' := by
  induction ss generalizing cfg with
  | nil => simp only [applySetters] at h; cases h; exact hl
  | cons s ss ih =>
    simp only [applySetters] at h
    split at h
    · rename_i c1 h1; exact ih c1 (applySetter_legal _ _ _ h1) h
    · simp at h

theorem applySettersSkip_legal (cfg : TxCfg) (ss : List Setter) (hl : Legal cfg) : Legal (applySettersSkip cfg ss) := by
  induction ss generalizing cfg with
  | nil => exact hl
  | cons s ss ih =>
    simp only [applySettersSkip]
    split
    · rename_i c1 h1; exact ih c1 (applySetter_legal _ _ _ h1)
    · exact ih cfg hl

theorem mkCfg_legal (code : Bytes) (curt : Bool) (size : Nat) (cfg : TxCfg) (h : mkCfg code curt size = .ok cfg) : Legal cfg := by
  unfold mkCfg at h
  split at h
  · exact (setSize_legal _ _ _ h).1
  · simp at h

/-- what a successful `rendPlan` guarantees about the body sizes and the count field (for a legal configuration) -/
theorem rendPlan_ok (cfg : TxCfg) (ml : Nat) (vid : Option Bytes) (mid : Bytes) (pl : Plan) (hleg : Legal cfg)
    (h : rendPlan cfg ml vid mid = .ok pl) :
    1 ≤ pl.zbz ∧ (1 ≤ pl.nbz ∨ ml ≤ pl.zbz) ∧ numField cfg.curt (gramCount ml pl.zbz pl.nbz) pl.nz = .ok pl.gcnt ∧
      ml ≤ pl.nbz * (Gen.maxGramCount - 1) + pl.zbz := by
  unfold rendPlan rendPlanT at h
  repeat' split at h
  all_goals try (simp at h; done)
  all_goals try (cases h; done)
  rename_i _ zs hzs _ ncode hpair _ ns hns hvid hmid _ zcodeb hzc _ ncodeb hnc _ midb hmb _ vidb hvb hnoz hzd hmms _ gcnt hg
  cases h
  have hsize : zozOf cfg zs + 1 ≤ cfg.size := by
    obtain ⟨m, hm, hle⟩ := hleg
    unfold minSize at hm
    rw [hzs] at hm
    simp only at hm
    cases hm
    unfold zozOf
    exact hle
  refine ⟨by simp only; omega, ?_, hg, ?_⟩
  · simp only
    by_cases h0 : cfg.size - ns.oz = 0
    · right
      by_cases hgt : ml > cfg.size - zozOf cfg zs
      · exact absurd ⟨hgt, h0⟩ hzd
      · omega
    · left; omega
  · simp only
    have := hmms
    simp only [Nat.not_lt] at this
    exact Nat.le_trans this (Nat.min_le_right _ _)

/-- how the fields of a successful plan come from the configuration -/
theorem rendPlan_fields (cfg : TxCfg) (ml : Nat) (vid : Option Bytes) (mid : Bytes) (pl : Plan) (h : rendPlan cfg ml vid mid = .ok pl) :
    ∃ zs ncode ns, sizesOf cfg.code = .ok zs ∧ lookupPair cfg.code = .ok ncode ∧ sizesOf ncode = .ok ns ∧ mid.length = zs.mz ∧
      wireOf cfg cfg.code = .ok pl.zcodeb ∧ wireOf cfg ncode = .ok pl.ncodeb ∧ wireOf cfg mid = .ok pl.midb ∧
      pl.nz = (zszOf cfg zs).nz ∧ pl.zWithVid = decide ((zszOf cfg zs).vz ≠ 0) ∧ pl.zSigned = decide ((zszOf cfg zs).az ≠ 0) ∧
      pl.nWithVid = decide (ns.vz ≠ 0) ∧ pl.nSigned = decide (ns.az ≠ 0) ∧
      pl.vidt = vid.getD [] ∧ wireOf cfg (vid.getD []) = .ok pl.vidb ∧ (zs.vz ≠ 0 → vid.getD [] ≠ [] ∧ (vid.getD []).length = zs.vz) := by
  unfold rendPlan rendPlanT at h
  repeat' split at h
  all_goals try (simp at h; done)
  all_goals try (cases h; done)
  rename_i _ zs hzs _ ncode hpair _ ns hns hvid hmid _ zcodeb hzc _ ncodeb hnc _ midb hmb _ vidb hvb hnoz hzd hmms _ gcnt hg
  cases h
  refine ⟨zs, ncode, ns, hzs, hpair, hns, ?_, hzc, hnc, hmb, rfl, rfl, rfl, rfl, rfl, rfl, hvb, ?_⟩
  · simpa using hmid
  · intro hz
    by_cases he : (vid.getD []).isEmpty = true
    · exact absurd ⟨hz, Or.inl he⟩ hvid
    · by_cases hl : (vid.getD []).length ≠ zs.vz
      · exact absurd ⟨hz, Or.inr hl⟩ hvid
      · exact ⟨by intro h0; rw [h0] at he; simp at he, by simpa using hl⟩

theorem gramCount_le (ml zbz nbz k : Nat) (hk : 1 ≤ k) (hn : 1 ≤ nbz ∨ ml ≤ zbz) (h : ml ≤ nbz * (k - 1) + zbz) : gramCount ml zbz nbz ≤ k := by
  unfold gramCount
  split
  · exact hk
  · rename_i hgt
    rcases hn with hn | hn
    · have : (ml - zbz + nbz - 1) / nbz ≤ k - 1 := by
        apply Nat.le_of_lt_succ
        rw [Nat.div_lt_iff_lt_mul (by omega)]
        have : ml - zbz ≤ nbz * (k - 1) := by omega
        calc ml - zbz + nbz - 1 < nbz * (k - 1) + nbz := by omega
          _ = (k - 1 + 1) * nbz := by rw [Nat.add_mul, Nat.one_mul, Nat.mul_comm]
      omega
    · exact absurd hn hgt

theorem mkGrams_spec (sign : Bytes → Bytes → Except Exn Bytes) (curt : Bool) (nz : Nat) (ncodeb midb vidb : Bytes) (withVid signed : Bool)
    (vid : Bytes) (gn : Nat) (bs gs : List Bytes) (h : mkGrams sign curt nz ncodeb midb vidb withVid signed vid gn bs = .ok gs) :
    gs.length = bs.length ∧ ∀ i (hi : i < bs.length) (hj : i < gs.length), ∃ num, numField curt (gn + i) nz = .ok num ∧
      mkGram sign ncodeb num midb vidb withVid signed vid bs[i] = .ok gs[i] := by
  induction bs generalizing gn gs with
  | nil => simp only [mkGrams] at h; cases h; exact ⟨rfl, fun i hi => absurd hi (by simp)⟩
  | cons b bs ih =>
    simp only [mkGrams] at h
    split at h
    · simp at h
    · rename_i num hnum
      split at h
      · simp at h
      · rename_i g hg
        split at h
        · rename_i gs' hgs
          cases h
          obtain ⟨h1, h2⟩ := ih (gn + 1) gs' hgs
          refine ⟨by simp [h1], ?_⟩
          intro i hi hj
          cases i with
          | zero => exact ⟨num, by simpa using hnum, by simpa using hg⟩
          | succ i =>
            obtain ⟨num', hn', hg'⟩ := h2 i (by simpa using hi) (by simpa using hj)
            refine ⟨num', ?_, by simpa using hg'⟩
            rw [show gn + (i + 1) = gn + 1 + i by omega]; exact hn'
        · simp at h

end Hio.Memo
