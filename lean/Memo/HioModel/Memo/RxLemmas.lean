import HioModel.Memo.Model
/-! Helper lemmas for the receive side (C22, C20).  Property theorems live in `Props/`. -/
namespace Hio.Memo

/-- the exception classes the header parsing of `pick` can raise by itself -/
def ParseExn (e : Exn) : Prop := e = .memoerError ∨ e = .keyError ∨ e = .valueError ∨ e = .unicodeDecodeError

/-- … all of them are stopped by the (regenerated) `except` clause of `_serviceOneReceived` -/
theorem parseExn_caught : ∀ e, ParseExn e → rxCatches e = true := by
  rintro e (rfl | rfl | rfl | rfl) <;> decide

theorem mapChr_err (ds : List Nat) (e : B64.Exn) (h : B64.mapChr ds = .error e) : e = .keyError := by
  induction ds with
  | nil => simp [B64.mapChr] at h
  | cons d ds ih =>
    simp only [B64.mapChr] at h
    cases hc : B64.chrOf d with
    | error x =>
      simp only [hc] at h
      have : x = .keyError := by
        unfold B64.chrOf at hc; split at hc <;> simp_all
      cases h; exact this
    | ok c =>
      cases hm : B64.mapChr ds with
      | error x => simp only [hc, hm] at h; cases h; exact ih hm
      | ok cs => simp [hc, hm] at h

theorem intToB64_err (n l : Nat) (e : B64.Exn) (h : B64.intToB64 n l = .error e) : e = .keyError := by
  unfold B64.intToB64 at h
  split at h
  · simp at h
  · rename_i x hm; cases h; exact mapChr_err _ _ hm

theorem codeB2ToB64_err (b : List Nat) (l : Nat) (e : B64.Exn) (h : B64.codeB2ToB64 b l = .error e) :
    e = .valueError ∨ e = .keyError := by
  unfold B64.codeB2ToB64 at h
  split at h
  · cases h; left; rfl
  · right; exact intToB64_err _ _ _ h

theorem orShift_err (cs : List Nat) (k acc : Nat) (e : B64.Exn) (h : B64.orShift cs k acc = .error e) : e = .keyError := by
  induction cs generalizing k acc with
  | nil => simp [B64.orShift] at h
  | cons c cs ih =>
    simp only [B64.orShift] at h
    cases hc : B64.idxOf c with
    | error x =>
      simp only [hc] at h
      have : x = .keyError := by
        unfold B64.idxOf at hc; split at hc <;> simp_all
      cases h; exact this
    | ok d => simp only [hc] at h; exact ih _ _ h

theorem b64ToInt_err (s : List Nat) (e : B64.Exn) (h : B64.b64ToInt s = .error e) : e = .valueError ∨ e = .keyError := by
  unfold B64.b64ToInt at h
  split at h
  · cases h; left; rfl
  · right; exact orShift_err _ _ _ _ h

theorem liftB64_err {α} (x : Except B64.Exn α) (e : Exn) (h : liftB64 x = .error e)
    (hx : ∀ e', x = .error e' → e' = .valueError ∨ e' = .keyError) : e = .valueError ∨ e = .keyError := by
  cases x with
  | ok a => simp [liftB64] at h
  | error e' =>
    simp only [liftB64] at h; cases h
    rcases hx e' rfl with rfl | rfl
    · left; rfl
    · right; rfl

theorem wiff_err (gram : Bytes) (e : Exn) (hne : gram ≠ []) (h : wiff gram = .error e) : e = .memoerError := by
  cases gram with
  | nil => exact absurd rfl hne
  | cons b bs =>
    simp only [wiff] at h
    split at h
    · simp at h
    · split at h
      · simp at h
      · cases h; rfl

theorem sizesOf_err (code : Bytes) (e : Exn) (h : sizesOf code = .error e) : e = .keyError := by
  unfold sizesOf at h
  split at h
  · simp at h
  · cases h; rfl

theorem classify_err (code : Bytes) (vidOf : Bytes → Option Bytes) (n : Nat) (mid vid : Bytes) (mt : Bool) (e : Exn)
    (h : classify code vidOf n mid vid mt = .error e) : e = .memoerError ∨ e = .unicodeDecodeError := by
  unfold classify at h
  split at h
  · simp at h
  · split at h
    · split at h
      · split at h
        · simp at h
        · cases h; right; rfl
      · simp at h
    · cases h; left; rfl

theorem b64ToIntBytes_err (s : Bytes) (e : Exn) (h : b64ToIntBytes s = .error e) : ParseExn e := by
  unfold b64ToIntBytes at h
  split at h
  · cases h; right; right; left; rfl
  · split at h
    · cases h; right; right; right; rfl
    · split at h
      · cases h; right; left; rfl
      · rcases liftB64_err _ e h (fun e' he => b64ToInt_err _ e' he) with rfl | rfl
        · right; right; left; rfl
        · right; left; rfl

/-- every exception `pick` raises is a parse exception or comes out of `verify` -/
def FromV (V : Bytes → Bytes → Bytes → Except Exn Unit) (e : Exn) : Prop := ∃ v s m, V v s m = .error e

theorem pickTail_err (V : Bytes → Bytes → Bytes → Except Exn Unit) (mid vid : Bytes) (mt : Bool) (gn : Nat) (gc : Option Nat)
    (sig fore body : Bytes) (e : Exn) (h : pickTail V mid vid mt gn gc sig fore body = .error e) : ParseExn e ∨ FromV V e := by
  unfold pickTail at h
  split at h
  · rename_i x hx
    cases h
    split at hx
    · simp at hx
    · right; exact ⟨_, _, _, hx⟩
  · split at h
    · cases h; left; right; right; right; rfl
    · split at h
      · cases h; left; right; right; right; rfl
      · simp at h

theorem pickBody_err (code : Bytes) (s : Sizage) (vidOf : Bytes → Option Bytes) (V : Bytes → Bytes → Bytes → Except Exn Unit)
    (gram : Bytes) (n : Nat) (mid vid0 : Bytes) (mt : Bool) (conv : Bytes → Bytes) (e : Exn)
    (h : pickBody code s vidOf V gram n mid vid0 mt conv = .error e) : ParseExn e ∨ FromV V e := by
  unfold pickBody at h
  split at h
  · rename_i x hx; cases h
    rcases classify_err _ _ _ _ _ _ _ hx with rfl | rfl
    · left; left; rfl
    · left; right; right; right; rfl
  · exact pickTail_err _ _ _ _ _ _ _ _ _ _ h

theorem pickB2_err (authic : Bool) (vidOf : Bytes → Option Bytes) (V : Bytes → Bytes → Bytes → Except Exn Unit) (gram : Bytes) (e : Exn)
    (h : pickB2 authic vidOf V gram = .error e) : ParseExn e ∨ FromV V e := by
  unfold pickB2 at h
  split at h
  · cases h; left; left; rfl
  · split at h
    · rename_i x hx; cases h
      rcases liftB64_err _ _ hx (fun e' he => codeB2ToB64_err _ _ e' he) with rfl | rfl
      · left; right; right; left; rfl
      · left; right; left; rfl
    · split at h
      · cases h; left; left; rfl
      · split at h
        · rename_i x hx; cases h; left; right; left; exact sizesOf_err _ _ hx
        · split at h
          · cases h; left; left; rfl
          · exact pickBody_err _ _ _ _ _ _ _ _ _ _ _ h

theorem pickB64_err (authic : Bool) (vidOf : Bytes → Option Bytes) (V : Bytes → Bytes → Bytes → Except Exn Unit) (gram : Bytes) (e : Exn)
    (h : pickB64 authic vidOf V gram = .error e) : ParseExn e ∨ FromV V e := by
  unfold pickB64 at h
  split at h
  · cases h; left; left; rfl
  · split at h
    · cases h; left; right; right; right; rfl
    · split at h
      · cases h; left; left; rfl
      · split at h
        · rename_i x hx; cases h; left; right; left; exact sizesOf_err _ _ hx
        · split at h
          · cases h; left; left; rfl
          · split at h
            · rename_i x hx; cases h; left; exact b64ToIntBytes_err _ _ hx
            · exact pickBody_err _ _ _ _ _ _ _ _ _ _ _ h

theorem pick_err (authic : Bool) (vidOf : Bytes → Option Bytes) (V : Bytes → Bytes → Bytes → Except Exn Unit) (gram : Bytes) (e : Exn)
    (hne : gram ≠ []) (h : pick authic vidOf V gram = .error e) : ParseExn e ∨ FromV V e := by
  unfold pick at h
  split at h
  · rename_i x hx; cases h; left; left; exact wiff_err gram _ hne hx
  · exact pickB2_err _ _ _ _ _ h
  · exact pickB64_err _ _ _ _ _ h

/-! ### totality of the receive side -/

/-- assumption on `verify`: whatever it raises is an exception class the `except` clause stops
(the real `Memoer.verify` raises MemoerError, MemoerVerifyError, UnicodeDecodeError or binascii.Error) -/
def VSafe (V : Bytes → Bytes → Bytes → Except Exn Unit) : Prop := ∀ v s m e, V v s m = .error e → rxCatches e = true

theorem recvOne_total (authic : Bool) (V : Bytes → Bytes → Bytes → Except Exn Unit) (es : List Entry) (gram : Bytes) (src : Nat)
    (hV : VSafe V) (hne : gram ≠ []) : ∃ es', recvOne authic V es gram src = .ok es' := by
  unfold recvOne
  cases hp : pick authic (vidOfEntries es) V gram with
  | ok p => exact ⟨_, rfl⟩
  | error e =>
    have hc : rxCatches e = true := by
      rcases pick_err _ _ _ _ _ hne hp with h | ⟨v, s, m, h⟩
      · exact parseExn_caught e h
      · exact hV v s m e h
    simp [hc]

theorem recvLoop_total (authic : Bool) (V : Bytes → Bytes → Bytes → Except Exn Unit) (hV : VSafe V) (q : List (Bytes × Nat)) (es : List Entry) :
    ∃ r, recvLoop authic V q es = .ok r := by
  induction q generalizing es with
  | nil => exact ⟨_, rfl⟩
  | cons gs q ih =>
    obtain ⟨g, s⟩ := gs
    simp only [recvLoop]
    by_cases hg : g.isEmpty = true
    · simp [hg]
    · simp only [hg, Bool.false_eq_true, if_false]
      have hne : g ≠ [] := by intro h; simp [h] at hg
      obtain ⟨es', h⟩ := recvOne_total authic V es g s hV hne
      rw [h]; exact ih es'

theorem fuse_err (grams : List (Nat × Bytes)) (c : Nat) (e : Exn) (h : fuse grams c = .error e) : e = .unicodeDecodeError := by
  unfold fuse at h
  split at h
  · simp at h
  · split at h
    · simp at h
    · split at h
      · simp at h
      · cases h; rfl

theorem fuseAll_total (es : List Entry) : ∃ r, fuseAll es = .ok r := by
  induction es with
  | nil => exact ⟨_, rfl⟩
  | cons e es ih =>
    obtain ⟨r, hr⟩ := ih
    simp only [fuseAll]
    cases hc : e.count with
    | none => simp [hr]
    | some c =>
      simp only
      cases hf : fuse e.grams c with
      | ok o =>
        cases o with
        | none => simp [hr]
        | some m => simp [hr]
      | error x =>
        have : x = .unicodeDecodeError := fuse_err _ _ _ hf
        subst this
        have hcatch : fuseCatches .unicodeDecodeError = true := by decide
        simp [hcatch, hr]

theorem serviceAllRx_total (authic : Bool) (V : Bytes → Bytes → Bytes → Except Exn Unit) (hV : VSafe V) (es : List Entry) (q : List (Bytes × Nat)) :
    ∃ o, serviceAllRx authic V es q = .ok o := by
  unfold serviceAllRx
  obtain ⟨⟨es1, q1⟩, h1⟩ := recvLoop_total authic V hV q es
  obtain ⟨⟨es2, d⟩, h2⟩ := fuseAll_total es1
  simp [h1, h2]

theorem runBatches_total (authic : Bool) (V : Bytes → Bytes → Bytes → Except Exn Unit) (hV : VSafe V) (bs : List (List (Bytes × Nat)))
    (es : List Entry) (q : List (Bytes × Nat)) : ∃ r, runBatches authic V bs es q = .ok r := by
  induction bs generalizing es q with
  | nil => exact ⟨_, rfl⟩
  | cons b bs ih =>
    simp only [runBatches]
    obtain ⟨o, ho⟩ := serviceAllRx_total authic V hV es (q ++ b)
    obtain ⟨r, hr⟩ := ih o.entries o.queue
    simp [ho, hr]

/-! ### authenticity -/

/-- `body` is the tail of a signed part `fore` whose signature `sig` passed `verify` under `vid` -/
def SignedBody (V : Bytes → Bytes → Bytes → Except Exn Unit) (vid body : Bytes) : Prop :=
  ∃ sig fore k, V vid sig fore = .ok () ∧ body = fore.drop k

/-- regenerated table facts: every signed code has a signature part, every non-zeroth code has no vid part -/
def sigOk (c : Bytes) : Bool :=
  match sizesOf c with
  | .ok s => s.az != 0 && s.scale.az != 0
  | .error _ => true

def noVid (c : Bytes) : Bool :=
  match sizesOf c with
  | .ok s => s.vz == 0 && s.scale.vz == 0
  | .error _ => true

theorem auth_codes_table : ∀ c ∈ Gen.authDex, sigOk c = true := by decide

theorem gram_codes_table : ∀ c ∈ Gen.gramDex, noVid c = true := by decide

theorem auth_codes_have_sig (c : Bytes) (s : Sizage) (hc : c ∈ Gen.authDex) (hs : sizesOf c = .ok s) : s.az ≠ 0 ∧ s.scale.az ≠ 0 := by
  have := auth_codes_table c hc
  unfold sigOk at this; rw [hs] at this
  simpa using this

theorem gram_codes_have_no_vid (c : Bytes) (s : Sizage) (hc : c ∈ Gen.gramDex) (hs : sizesOf c = .ok s) : s.vz = 0 ∧ s.scale.vz = 0 := by
  have := gram_codes_table c hc
  unfold noVid at this; rw [hs] at this
  simpa using this

theorem encodeB64_ne_nil (l : Bytes) (h : l ≠ []) : encodeB64 l ≠ [] := by
  match l with
  | [] => exact absurd rfl h
  | [a] => simp [encodeB64]
  | [a, b] => simp [encodeB64]
  | a :: b :: c :: rest => simp [encodeB64]

theorem lastN_ne_nil (n : Nat) (l : Bytes) (hn : n ≠ 0) (hl : n ≤ l.length) : lastN n l ≠ [] := by
  unfold lastN
  intro h
  have := congrArg List.length h
  simp at this
  omega

theorem pickTail_ok (V : Bytes → Bytes → Bytes → Except Exn Unit) (mid vid : Bytes) (mt : Bool) (gn : Nat) (gc : Option Nat)
    (sig fore body : Bytes) (p : PG) (h : pickTail V mid vid mt gn gc sig fore body = .ok p) :
    p = ⟨mid, if vid.isEmpty then none else some vid, gn, gc, body⟩ ∧ (sig ≠ [] → V vid sig fore = .ok ()) := by
  unfold pickTail at h
  split at h
  · simp at h
  · rename_i u hu
    split at h
    · simp at h
    · split at h
      · simp at h
      · cases h
        refine ⟨rfl, ?_⟩
        intro hs
        have : sig.isEmpty = false := by cases sig <;> simp_all
        simp only [this, Bool.false_eq_true, if_false] at hu
        cases u; exact hu

theorem classify_ok (code : Bytes) (vidOf : Bytes → Option Bytes) (n : Nat) (mid vid0 : Bytes) (mt : Bool) (gn : Nat) (gc : Option Nat) (vid : Bytes)
    (h : classify code vidOf n mid vid0 mt = .ok (gn, gc, vid)) :
    (Gen.zeroDex.contains code = true ∧ gn = 0 ∧ gc = some n ∧ vid = vid0) ∨
    (Gen.gramDex.contains code = true ∧ gn = n ∧ gc = none ∧ ((vid0 = [] ∧ vid = (vidOf mid).getD []) ∨ (vid0 ≠ [] ∧ vid = vid0))) := by
  unfold classify at h
  split at h
  · rename_i hz; cases h; left; exact ⟨hz, rfl, rfl, rfl⟩
  · split at h
    · rename_i hg
      split at h
      · rename_i hv
        split at h
        · cases h; right
          exact ⟨hg, rfl, rfl, Or.inl ⟨List.isEmpty_iff.mp hv, rfl⟩⟩
        · simp at h
      · rename_i hv
        cases h; right
        refine ⟨hg, rfl, rfl, Or.inr ⟨?_, rfl⟩⟩
        intro h0; simp [h0] at hv
    · simp at h

/-- what a successful `pick` tells when signed grams are required (and `verify` rejects an empty vid) -/
def AuthPicked (V : Bytes → Bytes → Bytes → Except Exn Unit) (vidOf : Bytes → Option Bytes) (p : PG) : Prop :=
  ∃ vid, p.vid = some vid ∧ SignedBody V vid p.body ∧ ((p.gc.isSome = true ∧ p.gn = 0) ∨ (p.gc = none ∧ vidOf p.mid = some vid))

theorem pickBody_auth (code : Bytes) (s : Sizage) (vidOf : Bytes → Option Bytes) (V : Bytes → Bytes → Bytes → Except Exn Unit)
    (gram : Bytes) (n : Nat) (mid vid0 : Bytes) (mt : Bool) (conv : Bytes → Bytes) (p : PG)
    (hV0 : ∀ s m, V [] s m ≠ .ok ()) (hsig : sigOf s conv gram ≠ [])
    (hvz : Gen.gramDex.contains code = true → vid0 = [])
    (h : pickBody code s vidOf V gram n mid vid0 mt conv = .ok p) : AuthPicked V vidOf p := by
  unfold pickBody at h
  split at h
  · simp at h
  · rename_i gn gc vid hc
    obtain ⟨hp, hv⟩ := pickTail_ok _ _ _ _ _ _ _ _ _ _ h
    have hver := hv hsig
    have hvne : vid ≠ [] := by intro h0; rw [h0] at hver; exact hV0 _ _ hver
    have hve : vid.isEmpty = false := by cases vid <;> simp_all
    subst hp
    refine ⟨vid, by simp [hve], ⟨_, _, _, hver, rfl⟩, ?_⟩
    rcases classify_ok _ _ _ _ _ _ _ _ _ hc with ⟨_, h2, h3, _⟩ | ⟨hg, _, h3, h4⟩
    · left; simp [h2, h3]
    · right
      refine ⟨h3, ?_⟩
      rcases h4 with ⟨_, h5⟩ | ⟨h5, _⟩
      · simp only
        cases hq : vidOf mid with
        | none => rw [hq] at h5; simp at h5; exact absurd h5 hvne
        | some w => rw [hq] at h5; simp at h5; rw [h5]
      · exact absurd (hvz hg) h5

theorem slice_zero (l : Bytes) (a : Nat) : slice l a (a + 0) = [] := by simp [slice]

theorem pick_auth (vidOf : Bytes → Option Bytes) (V : Bytes → Bytes → Bytes → Except Exn Unit) (gram : Bytes) (p : PG)
    (hV0 : ∀ s m, V [] s m ≠ .ok ()) (h : pick true vidOf V gram = .ok p) : AuthPicked V vidOf p := by
  unfold pick at h
  split at h
  · simp at h
  · -- Base2
    unfold pickB2 at h
    split at h
    · simp at h
    · split at h
      · simp at h
      · rename_i code hcode
        split at h
        · simp at h
        · rename_i hau
          split at h
          · simp at h
          · rename_i s0 hs
            split at h
            · simp at h
            · rename_i hlen
              have hmem : code ∈ Gen.authDex := by
                simp only [Bool.true_and, Bool.not_eq_true'] at hau
                simpa using hau
              have haz := auth_codes_have_sig code _ hmem hs
              have hoz : s0.scale.az ≤ gram.length := by
                have : s0.scale.az ≤ s0.scale.oz := by unfold Sizage.oz; omega
                omega
              refine pickBody_auth _ _ _ _ _ _ _ _ _ _ _ hV0 ?_ ?_ h
              · simp only [sigOf, haz.2, if_false]
                exact encodeB64_ne_nil _ (lastN_ne_nil _ _ haz.2 hoz)
              · intro hg
                have hgm : code ∈ Gen.gramDex := by simpa using hg
                have := gram_codes_have_no_vid code _ hgm hs
                rw [this.2, slice_zero]; rfl
  · -- Base64
    unfold pickB64 at h
    split at h
    · simp at h
    · split at h
      · simp at h
      · split at h
        · simp at h
        · rename_i hau
          split at h
          · simp at h
          · rename_i s hs
            split at h
            · simp at h
            · rename_i hlen
              split at h
              · simp at h
              · rename_i n hn
                have hmem : gram.take 4 ∈ Gen.authDex := by
                  simp only [Bool.true_and, Bool.not_eq_true'] at hau
                  simpa using hau
                have haz := auth_codes_have_sig _ _ hmem hs
                have hoz : s.az ≤ gram.length := by
                  have : s.az ≤ s.oz := by unfold Sizage.oz; omega
                  omega
                refine pickBody_auth _ _ _ _ _ _ _ _ _ _ _ hV0 ?_ ?_ h
                · simp only [sigOf, haz.1, if_false, id]
                  exact lastN_ne_nil _ _ haz.1 hoz
                · intro hg
                  have hgm : gram.take 4 ∈ Gen.gramDex := by simpa using hg
                  have := gram_codes_have_no_vid _ _ hgm hs
                  rw [this.1, slice_zero]

/-- invariant of the receiver state when signed grams are required: every entry holds its zeroth gram, has a vid, and every
stored body verified under that vid -/
def AInv (V : Bytes → Bytes → Bytes → Except Exn Unit) (es : List Entry) : Prop :=
  ∀ e ∈ es, (e.grams.lookup 0).isSome = true ∧ ∃ vid, e.vid = some vid ∧ ∀ p ∈ e.grams, SignedBody V vid p.2

theorem lookup_append_isSome (l : List (Nat × Bytes)) (k : Nat) (x : Nat × Bytes) (h : (l.lookup k).isSome = true) :
    ((l ++ [x]).lookup k).isSome = true := by
  induction l with
  | nil => simp [List.lookup] at h
  | cons a l ih =>
    obtain ⟨a1, a2⟩ := a
    simp only [List.cons_append, List.lookup] at h ⊢
    split
    · simp
    · rename_i hne; simp only [hne] at h; exact ih h

theorem store_AInv (V : Bytes → Bytes → Bytes → Except Exn Unit) (p : PG) (src : Nat) (es : List Entry)
    (hinv : AInv V es) (hp : AuthPicked V (vidOfEntries es) p) : AInv V (store p src es) := by
  induction es with
  | nil =>
    obtain ⟨vid, hv, hsb, hor⟩ := hp
    rcases hor with ⟨_, hgn⟩ | ⟨_, hvo⟩
    · intro e he
      simp only [store, List.mem_singleton] at he
      subst he
      refine ⟨by simp [hgn, List.lookup], vid, hv, ?_⟩
      intro q hq
      simp only [List.mem_singleton] at hq
      subst hq; exact hsb
    · simp [vidOfEntries, findEntry] at hvo
  | cons e es ih =>
    simp only [store]
    by_cases hm : e.mid = p.mid
    · simp only [hm, if_true]
      obtain ⟨h0, ve, hve, hall⟩ := hinv e (List.mem_cons_self)
      intro e' he'
      rcases List.mem_cons.mp he' with rfl | he'
      · by_cases hl : (e.grams.lookup p.gn).isSome = true
        · simp only [hl, if_true]
          exact ⟨h0, ve, hve, hall⟩
        · simp only [hl, Bool.false_eq_true, if_false]
          obtain ⟨vid, hv, hsb, hor⟩ := hp
          rcases hor with ⟨_, hgn⟩ | ⟨_, hvo⟩
          · rw [hgn] at hl; exact absurd h0 hl
          · have : e.vid = some vid := by
              simpa [vidOfEntries, findEntry, hm] using hvo
            rw [hve] at this; cases this
            refine ⟨lookup_append_isSome _ _ _ h0, ve, hve, ?_⟩
            intro q hq
            rcases List.mem_append.mp hq with hq | hq
            · exact hall q hq
            · simp only [List.mem_singleton] at hq; subst hq; exact hsb
      · exact hinv e' (List.mem_cons_of_mem _ he')
    · simp only [hm, if_false]
      have hp' : AuthPicked V (vidOfEntries es) p := by
        obtain ⟨vid, hv, hsb, hor⟩ := hp
        refine ⟨vid, hv, hsb, ?_⟩
        rcases hor with h | ⟨h1, h2⟩
        · left; exact h
        · right; refine ⟨h1, ?_⟩
          simpa [vidOfEntries, findEntry, hm] using h2
      have hinv' : AInv V es := fun x hx => hinv x (List.mem_cons_of_mem _ hx)
      intro e' he'
      rcases List.mem_cons.mp he' with rfl | he'
      · exact hinv _ (List.mem_cons_self)
      · exact ih hinv' hp' e' he'

theorem recvOne_AInv (V : Bytes → Bytes → Bytes → Except Exn Unit) (hV0 : ∀ s m, V [] s m ≠ .ok ()) (es es' : List Entry) (gram : Bytes) (src : Nat)
    (hinv : AInv V es) (h : recvOne true V es gram src = .ok es') : AInv V es' := by
  unfold recvOne at h
  cases hp : pick true (vidOfEntries es) V gram with
  | ok p =>
    simp only [hp] at h; cases h
    exact store_AInv V p src es hinv (pick_auth _ V gram p hV0 hp)
  | error e =>
    simp only [hp] at h
    split at h
    · cases h; exact hinv
    · simp at h

theorem recvLoop_AInv (V : Bytes → Bytes → Bytes → Except Exn Unit) (hV0 : ∀ s m, V [] s m ≠ .ok ()) (q : List (Bytes × Nat)) (es : List Entry)
    (r : List Entry × List (Bytes × Nat)) (hinv : AInv V es) (h : recvLoop true V q es = .ok r) : AInv V r.1 := by
  induction q generalizing es with
  | nil => simp only [recvLoop] at h; cases h; exact hinv
  | cons gs q ih =>
    obtain ⟨g, s⟩ := gs
    simp only [recvLoop] at h
    split at h
    · cases h; exact hinv
    · split at h
      · rename_i es1 h1
        exact ih es1 (recvOne_AInv V hV0 es es1 g s hinv h1) h
      · simp at h

/-- a memo all of whose bytes lie in signed parts that verified under the vid it is delivered with -/
def AuthMemo (V : Bytes → Bytes → Bytes → Except Exn Unit) (m : Memo) : Prop :=
  ∃ vid, m.vid = some vid ∧ ∃ parts : List Bytes, m.text = parts.flatten ∧ ∀ b ∈ parts, SignedBody V vid b

theorem mem_of_lookup (l : List (Nat × Bytes)) (k : Nat) (b : Bytes) (h : l.lookup k = some b) : (k, b) ∈ l := by
  induction l with
  | nil => simp [List.lookup] at h
  | cons a l ih =>
    obtain ⟨a1, a2⟩ := a
    simp only [List.lookup] at h
    split at h
    · rename_i heq
      cases h
      have : k = a1 := by simpa using heq
      subst this; exact List.mem_cons_self
    · exact List.mem_cons_of_mem _ (ih h)

theorem gather_parts (grams : List (Nat × Bytes)) (k i : Nat) (m : Bytes) (h : gather grams k i = some m) :
    ∃ parts : List Bytes, m = parts.flatten ∧ ∀ b ∈ parts, ∃ j, (j, b) ∈ grams := by
  induction k generalizing i m with
  | zero => simp only [gather] at h; cases h; exact ⟨[], rfl, by simp⟩
  | succ k ih =>
    simp only [gather] at h
    split at h
    · rename_i b r hb hr
      cases h
      obtain ⟨parts, hp, hall⟩ := ih (i + 1) r hr
      refine ⟨b :: parts, by simp [hp], ?_⟩
      intro x hx
      rcases List.mem_cons.mp hx with rfl | hx
      · exact ⟨i, mem_of_lookup _ _ _ hb⟩
      · exact hall x hx
    · simp at h

theorem fuseAll_AInv (V : Bytes → Bytes → Bytes → Except Exn Unit) (es : List Entry) (r : List Entry × List Memo)
    (hinv : AInv V es) (h : fuseAll es = .ok r) : AInv V r.1 ∧ ∀ m ∈ r.2, AuthMemo V m := by
  induction es generalizing r with
  | nil => simp only [fuseAll] at h; cases h; exact ⟨hinv, by simp⟩
  | cons e es ih =>
    have hinv' : AInv V es := fun x hx => hinv x (List.mem_cons_of_mem _ hx)
    have he := hinv e (List.mem_cons_self)
    simp only [fuseAll] at h
    have keep : ∀ r', fuseAll es = .ok r' → AInv V (e :: r'.1) ∧ ∀ m ∈ r'.2, AuthMemo V m := by
      intro r' hr'
      obtain ⟨h1, h2⟩ := ih r' hinv' hr'
      refine ⟨?_, h2⟩
      intro x hx
      rcases List.mem_cons.mp hx with rfl | hx
      · exact he
      · exact h1 x hx
    split at h
    · split at h
      · rename_i k d hk; cases h; exact keep _ hk
      · simp at h
    · rename_i c hc
      split at h
      · split at h
        · rename_i k d hk; cases h; exact keep _ hk
        · simp at h
      · rename_i m hf
        split at h
        · rename_i k d hk
          cases h
          obtain ⟨h1, h2⟩ := ih _ hinv' hk
          refine ⟨h1, ?_⟩
          intro x hx
          rcases List.mem_cons.mp hx with rfl | hx
          · obtain ⟨_, vid, hv, hall⟩ := he
            refine ⟨vid, hv, ?_⟩
            unfold fuse at hf
            split at hf
            · simp at hf
            · split at hf
              · simp at hf
              · rename_i mm hg
                split at hf
                · cases hf
                  obtain ⟨parts, hp, hpa⟩ := gather_parts _ _ _ _ hg
                  refine ⟨parts, hp, ?_⟩
                  intro b hb
                  obtain ⟨j, hj⟩ := hpa b hb
                  exact hall (j, b) hj
                · simp at hf
          · exact h2 x hx
        · simp at h
      · split at h
        · exact ih r hinv' h
        · simp at h

theorem runBatches_auth (V : Bytes → Bytes → Bytes → Except Exn Unit) (hV0 : ∀ s m, V [] s m ≠ .ok ()) (bs : List (List (Bytes × Nat)))
    (es : List Entry) (q : List (Bytes × Nat)) (r : List Entry × List (Bytes × Nat) × List (List Memo))
    (hinv : AInv V es) (h : runBatches true V bs es q = .ok r) : AInv V r.1 ∧ ∀ d ∈ r.2.2, ∀ m ∈ d, AuthMemo V m := by
  induction bs generalizing es q r with
  | nil => simp only [runBatches] at h; cases h; exact ⟨hinv, by simp⟩
  | cons b bs ih =>
    simp only [runBatches] at h
    split at h
    · simp at h
    · rename_i o ho
      split at h
      · rename_i es' q' ds hr
        cases h
        unfold serviceAllRx at ho
        split at ho
        · simp at ho
        · rename_i es1 q1 h1
          split at ho
          · simp at ho
          · rename_i es2 d h2
            cases ho
            have i1 := recvLoop_AInv V hV0 _ _ _ hinv h1
            obtain ⟨i2, i3⟩ := fuseAll_AInv V _ _ i1 h2
            obtain ⟨j1, j2⟩ := ih _ _ _ i2 hr
            refine ⟨j1, ?_⟩
            intro dd hdd m hm
            rcases List.mem_cons.mp hdd with rfl | hdd
            · exact i3 m hm
            · exact j2 dd hdd m hm
      · simp at h

/-! ### the signed pair of a gram -/

/-- the (signature as qb64 text, signed part) pair `pick` hands to `verify`, as a function of the datagram alone
(`none` when the encoding / code is not recognised) -/
def splitSig (gram : Bytes) : Option (Bytes × Bytes) :=
  match wiff gram with
  | .ok true =>
    match liftB64 (B64.codeB2ToB64 gram 4) with
    | .ok code =>
      match sizesOf code with
      | .ok s0 => some (sigOf s0.scale encodeB64 gram, foreOf s0.scale gram)
      | .error _ => none
    | .error _ => none
  | .ok false =>
    match sizesOf (gram.take 4) with
    | .ok s => some (sigOf s id gram, foreOf s gram)
    | .error _ => none
  | .error _ => none

theorem pickBody_ver (code : Bytes) (s : Sizage) (vidOf : Bytes → Option Bytes) (V : Bytes → Bytes → Bytes → Except Exn Unit)
    (gram : Bytes) (n : Nat) (mid vid0 : Bytes) (mt : Bool) (conv : Bytes → Bytes) (p : PG) (hsig : sigOf s conv gram ≠ [])
    (h : pickBody code s vidOf V gram n mid vid0 mt conv = .ok p) : ∃ vid, V vid (sigOf s conv gram) (foreOf s gram) = .ok () := by
  unfold pickBody at h
  split at h
  · simp at h
  · rename_i gn gc vid hc
    exact ⟨vid, (pickTail_ok _ _ _ _ _ _ _ _ _ _ h).2 hsig⟩

/-- when signed grams are required, a gram that `pick` accepts had its signed pair verified under some vid -/
theorem pick_ver (vidOf : Bytes → Option Bytes) (V : Bytes → Bytes → Bytes → Except Exn Unit) (gram : Bytes) (p : PG)
    (h : pick true vidOf V gram = .ok p) : ∃ sig fore vid, splitSig gram = some (sig, fore) ∧ V vid sig fore = .ok () := by
  unfold pick at h
  split at h
  · simp at h
  · rename_i hw
    unfold pickB2 at h
    split at h
    · simp at h
    · split at h
      · simp at h
      · rename_i code hcode
        split at h
        · simp at h
        · rename_i hau
          split at h
          · simp at h
          · rename_i s0 hs
            split at h
            · simp at h
            · rename_i hlen
              have hmem : code ∈ Gen.authDex := by
                simp only [Bool.true_and, Bool.not_eq_true'] at hau
                simpa using hau
              have haz := auth_codes_have_sig code _ hmem hs
              have hoz : s0.scale.az ≤ gram.length := by
                have : s0.scale.az ≤ s0.scale.oz := by unfold Sizage.oz; omega
                omega
              have hsig : sigOf s0.scale encodeB64 gram ≠ [] := by
                simp only [sigOf, haz.2, if_false]
                exact encodeB64_ne_nil _ (lastN_ne_nil _ _ haz.2 hoz)
              obtain ⟨vid, hv⟩ := pickBody_ver _ _ _ _ _ _ _ _ _ _ _ hsig h
              exact ⟨_, _, vid, by simp [splitSig, hw, hcode, hs], hv⟩
  · rename_i hw
    unfold pickB64 at h
    split at h
    · simp at h
    · split at h
      · simp at h
      · split at h
        · simp at h
        · rename_i hau
          split at h
          · simp at h
          · rename_i s hs
            split at h
            · simp at h
            · rename_i hlen
              split at h
              · simp at h
              · rename_i n hn
                have hmem : gram.take 4 ∈ Gen.authDex := by
                  simp only [Bool.true_and, Bool.not_eq_true'] at hau
                  simpa using hau
                have haz := auth_codes_have_sig _ _ hmem hs
                have hoz : s.az ≤ gram.length := by
                  have : s.az ≤ s.oz := by unfold Sizage.oz; omega
                  omega
                have hsig : sigOf s id gram ≠ [] := by
                  simp only [sigOf, haz.1, if_false, id]
                  exact lastN_ne_nil _ _ haz.1 hoz
                obtain ⟨vid, hv⟩ := pickBody_ver _ _ _ _ _ _ _ _ _ _ _ hsig h
                exact ⟨_, _, vid, by simp [splitSig, hw, hs], hv⟩

/-- the signed pair determines the datagram: it is the signed part followed by the raw signature bytes -/
theorem split_recompose (gram sig fore : Bytes) (h : splitSig gram = some (sig, fore)) :
    ∃ raw, gram = fore ++ raw ∧ (sig = raw ∨ sig = encodeB64 raw ∨ (raw = [] ∧ sig = [])) := by
  have key : ∀ (s : Sizage) (conv : Bytes → Bytes), (conv = id ∨ conv = encodeB64) →
      ∃ raw, gram = foreOf s gram ++ raw ∧ (sigOf s conv gram = raw ∨ sigOf s conv gram = encodeB64 raw ∨ (raw = [] ∧ sigOf s conv gram = [])) := by
    intro s conv hconv
    by_cases hz : s.az = 0
    · exact ⟨[], by simp [foreOf, hz], Or.inr (Or.inr ⟨rfl, by simp [sigOf, hz]⟩)⟩
    · refine ⟨lastN s.az gram, by simp [foreOf, hz, dropLastN, lastN], ?_⟩
      rcases hconv with rfl | rfl
      · left; simp [sigOf, hz]
      · right; left; simp [sigOf, hz]
  unfold splitSig at h
  split at h
  · split at h
    · split at h
      · cases h; exact key _ _ (Or.inr rfl)
      · simp at h
    · simp at h
  · split at h
    · cases h; exact key _ _ (Or.inl rfl)
    · simp at h
  · simp at h

end Hio.Memo
