import HioModel.Basic.Sexp
import HioModel.Memo.Model
open Hio Hio.Memo Hio.Sexp

def exnName : Exn → String
  | .memoerError => "MemoerError" | .memoerVerifyError => "MemoerVerifyError" | .keyError => "KeyError"
  | .valueError => "ValueError" | .unicodeDecodeError => "UnicodeDecodeError" | .binasciiError => "Error"
  | .unboundLocalError => "UnboundLocalError" | .overflowError => "OverflowError"
  | .zeroDivisionError => "ZeroDivisionError" | .indexError => "IndexError" | .osError _ => "OSError"
  | .typeError => "TypeError" | .attributeError => "AttributeError"

def exnOfName : String → Exn
  | "MemoerError" => .memoerError | "MemoerVerifyError" => .memoerVerifyError | "KeyError" => .keyError
  | "ValueError" => .valueError | "UnicodeDecodeError" => .unicodeDecodeError | "Error" => .binasciiError
  | "UnboundLocalError" => .unboundLocalError | "OverflowError" => .overflowError
  | "ZeroDivisionError" => .zeroDivisionError | "IndexError" => .indexError | "OSError" => .osError 0
  | "TypeError" => .typeError | _ => .attributeError

def optBytes? : Sexp → Option (Option (List Nat))
  | .atom "-" => some none
  | s => (bytes? s).map some

def ofOptBytes : Option (List Nat) → Sexp
  | none => sym "-"
  | some b => ofBytes b

/-- verify table `((#vid #sig #ser outcome) …)`; a triple that is not listed raises `TypeError` (never caught) -/
def parseVtab (xs : List Sexp) : Option (List (List Nat × List Nat × List Nat × Option Exn)) :=
  xs.mapM fun
    | .list [v, s, m, .atom o] => do
      let v ← bytes? v; let s ← bytes? s; let m ← bytes? m
      some (v, s, m, if o == "ok" then none else some (exnOfName o))
    | _ => none

def mkV (tab : List (List Nat × List Nat × List Nat × Option Exn)) (vid sig ser : List Nat) : Except Exn Unit :=
  match tab.find? (fun (v, s, m, _) => v == vid && s == sig && m == ser) with
  | some (_, _, _, none) => .ok ()
  | some (_, _, _, some e) => .error e
  | none => .error .typeError

/-- sign table `((#vid #ser #sig) …)` -/
def parseStab (xs : List Sexp) : Option (List (List Nat × List Nat × List Nat)) :=
  xs.mapM fun
    | .list [v, m, s] => do
      let v ← bytes? v; let m ← bytes? m; let s ← bytes? s
      some (v, m, s)
    | _ => none

def mkSign (tab : List (List Nat × List Nat × List Nat)) (vid ser : List Nat) : Except Exn (List Nat) :=
  match tab.find? (fun (v, m, _) => v == vid && m == ser) with
  | some (_, _, s) => .ok s
  | none => .error .typeError

def parseBatch (xs : List Sexp) : Option (List (List Nat × Nat)) :=
  xs.mapM fun
    | .list [g, s] => do
      let g ← bytes? g; let s ← nat? s
      some (g, s)
    | _ => none

def outEntry (e : Entry) : Sexp :=
  .list [ofBytes e.mid, .list (e.grams.map fun (n, b) => .list [ofNat n, ofBytes b]), ofOpt ofNat e.count, ofOptBytes e.vid, ofNat e.src]

def outMemo (m : Memo) : Sexp := .list [ofBytes m.text, ofNat m.src, ofOptBytes m.vid]

/-- run the batches one `serviceAllRx()` at a time, reporting after each: delivered memos, entries, queue length -/
def rxRun (authic : Bool) (V : List Nat → List Nat → List Nat → Except Exn Unit) :
    List (List (List Nat × Nat)) → List Entry → List (List Nat × Nat) → List Sexp
  | [], _, _ => []
  | b :: bs, es, q =>
    match serviceAllRx authic V es (q ++ b) with
    | .error e => [tag "escape" [sym (exnName e)]]
    | .ok o =>
      .list [tag "delivered" (o.delivered.map outMemo), tag "entries" (o.entries.map outEntry), tag "queue" [ofNat o.queue.length]]
        :: rxRun authic V bs o.entries o.queue

def parseSend : Sexp → Option SendRes
  | .list [.atom "a", n] => (nat? n).map SendRes.accept
  | .list [.atom "w"] => some .block
  | .list [.atom "e", n] => (nat? n).map SendRes.err
  | _ => none

def outSend : SendRes → Sexp
  | .accept n => .list [sym "a", ofNat n]
  | .block => .list [sym "w"]
  | .err e => .list [sym "e", ofNat e]

def outEv (e : TxEv) : Sexp :=
  .list [ofNat e.dst, ofBytes e.offered,
    match e.res with
    | .accept n => .list [sym "a", ofNat (min n e.offered.length)]
    | r => outSend r]

def outTx (st : Tx) : Sexp :=
  .list [tag "txgs" (st.txgs.map fun (g, d) => .list [ofBytes g, ofNat d]), tag "txb" [ofBytes st.txb], tag "dst" [ofOpt ofNat st.txdst]]

/-- calls: `g` = serviceTxGrams, `o` = serviceTxGramsOnce, `(q #gram dst)` = gramit -/
def txRun : List Sexp → Tx → List SendRes → List Sexp
  | [], st, _ => [tag "final" [outTx st]]
  | c :: cs, st, sc =>
    match c with
    | .list [.atom "q", g, d] =>
      match bytes? g, nat? d with
      | some g, some d => txRun cs { st with txgs := st.txgs ++ [(g, d)] } sc
      | _, _ => [sym "bad-request"]
    | .atom k =>
      let r := serviceCall (k == "g") st sc
      let line := tag "call" (r.evs.map outEv)
      match r.escaped with
      | some e => [line, tag "escape" [sym (exnName e), outTx r.st]]
      | none => line :: txRun cs r.st r.script
    | _ => [sym "bad-request"]

def outGrams (r : Except Exn (List (List Nat))) : Sexp :=
  match r with
  | .ok gs => tag "grams" (gs.map ofBytes)
  | .error e => tag "raise" [sym (exnName e)]

def parseMemo : Sexp → Option (List Nat × List Nat × Nat)
  | .list [t, m, s] => do
    let t ← bytes? t; let m ← bytes? m; let s ← nat? s
    some (t, m, s)
  | _ => none

/-- `(memo-index gram-index)` or `(memo-index gram-index source)` when the datagram arrives from another source -/
def parsePair : Sexp → Option (Nat × Nat × Option Nat)
  | .list [mi, gi] => do
    let mi ← nat? mi; let gi ← nat? gi
    some (mi, gi, none)
  | .list [mi, gi, s] => do
    let mi ← nat? mi; let gi ← nat? gi; let s ← nat? s
    some (mi, gi, some s)
  | _ => none

def parseSched (b : Sexp) : Option (List (Nat × Nat × Option Nat)) := do
  let b ← list? b
  b.mapM parsePair

def parseSetter : Sexp → Option Setter
  | .list [.atom "code", c] => (bytes? c).map Setter.code
  | .list [.atom "curt", b] => (bool? b).map Setter.curt
  | .list [.atom "size", n] => (nat? n).map Setter.size
  | _ => none

def e2eRun (cfg : TxCfg) (authic : Bool) (vid : Option (List Nat)) (stab : List (List Nat × List Nat × List Nat))
    (vtab : List (List Nat × List Nat × List Nat × Option Exn)) (memos : List (List Nat × List Nat × Nat))
    (sched : List (List (Nat × Nat × Option Nat))) : Sexp :=
  let rs : List (Except Exn (List (List Nat))) := memos.map fun (tm : List Nat × List Nat × Nat) => rend cfg (mkSign stab) tm.1 vid tm.2.1
  let pick1 : Nat × Nat × Option Nat → Option (List Nat × Nat) := fun p =>
    match rs[p.1]?, memos[p.1]? with
    | some (.ok gs), some tm =>
      if gs.isEmpty then none else (gs[p.2.1 % gs.length]?).map fun g => (g, p.2.2.getD tm.2.2)
    | _, _ => none
  let batches : List (List (List Nat × Nat)) := sched.map fun (b : List (Nat × Nat × Option Nat)) => b.filterMap pick1
  Sexp.list [tag "cfg" [ofBytes cfg.code, ofBool cfg.curt, ofNat cfg.size], tag "rend" (rs.map outGrams), tag "rx" (rxRun authic (mkV vtab) batches [] [])]

def handle (req : Sexp) : Sexp :=
  match req with
  | .list (.atom "tx" :: fs) =>
    (do
      let grams ← field "grams" fs
      let grams ← parseBatch grams
      let script ← field "script" fs
      let script ← script.mapM parseSend
      let calls ← field "calls" fs
      some (Sexp.list (txRun calls ⟨grams, [], none⟩ script))).getD (sym "bad-request")
  | .list (.atom "rx" :: fs) =>
    (do
      let authic ← (field1 "authic" fs) >>= bool?
      let vtab ← field "vtab" fs >>= parseVtab
      let batches ← field "batches" fs
      let batches ← batches.mapM fun b => list? b >>= parseBatch
      some (Sexp.list (rxRun authic (mkV vtab) batches [] []))).getD (sym "bad-request")
  | .list (.atom "e2e" :: fs) =>
    (do
      let code ← (field1 "code" fs) >>= bytes?
      let curt ← (field1 "curt" fs) >>= bool?
      let size ← (field1 "size" fs) >>= nat?
      let authic ← (field1 "authic" fs) >>= bool?
      let vid ← (field1 "vid" fs) >>= optBytes?
      let stab ← field "stab" fs >>= parseStab
      let vtab ← field "vtab" fs >>= parseVtab
      let memos ← field "memos" fs
      let memos ← memos.mapM parseMemo
      let sched ← field "sched" fs
      let sched ← sched.mapM parseSched
      let hist ← (field "hist" fs).getD [] |>.mapM parseSetter
      match (mkCfg code curt size).bind (fun c => applySetters c hist) with
      | .ok cfg => some (e2eRun cfg authic vid stab vtab memos sched)
      | .error e => some (Sexp.list [tag "cfg-raise" [sym (exnName e)]])).getD (sym "bad-request")
  | _ => sym "bad-request"

def main : IO Unit := serve handle
