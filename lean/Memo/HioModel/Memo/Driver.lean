import HioModel.Basic.Sexp
import HioModel.Memo.Model
open Hio Hio.Memo Hio.Sexp

def exnName : Exn → String
  | .memoerError => "MemoerError" | .memoerVerifyError => "MemoerVerifyError" | .keyError => "KeyError"
  | .valueError => "ValueError" | .unicodeDecodeError => "UnicodeDecodeError" | .binasciiError => "Error"
  | .unboundLocalError => "UnboundLocalError" | .overflowError => "OverflowError"
  | .zeroDivisionError => "ZeroDivisionError" | .indexError => "IndexError" | .osError _ => "OSError"
  | .typeError => "TypeError" | .attributeError => "AttributeError"

def exnOfName : String → Exn
  | "MemoerError" => .memoerError | "MemoerVerifyError" => .memoerVerifyError | "KeyError" => .keyError
  | "ValueError" => .valueError | "UnicodeDecodeError" => .unicodeDecodeError | "Error" => .binasciiError
  | "UnboundLocalError" => .unboundLocalError | "OverflowError" => .overflowError
  | "ZeroDivisionError" => .zeroDivisionError | "IndexError" => .indexError | "OSError" => .osError 0
  | "TypeError" => .typeError | _ => .attributeError

def optBytes? : Sexp → Option (Option (List Nat))
  | .atom "-" => some none
  | s => (bytes? s).map some

def ofOptBytes : Option (List Nat) → Sexp
  | none => sym "-"
  | some b => ofBytes b

/-- verify table `((#vid #sig #ser outcome) …)`; a triple that is not listed raises `TypeError` (never caught) -/
def parseVtab (xs : List Sexp) : Option (List (List Nat × List Nat × List Nat × Option Exn)) :=
  xs.mapM fun
    | .list [v, s, m, .atom o] => do
      let v ← bytes? v; let s ← bytes? s; let m ← bytes? m
      some (v, s, m, if o == "ok" then none else some (exnOfName o))
    | _ => none

def mkV (tab : List (List Nat × List Nat × List Nat × Option Exn)) (vid sig ser : List Nat) : Except Exn Unit :=
  match tab.find? (fun (v, s, m, _) => v == vid && s == sig && m == ser) with
  | some (_, _, _, none) => .ok ()
  | some (_, _, _, some e) => .error e
  | none => .error .typeError

/-- outcome of a decoder: `(ok #raw [code])` or `(err Name)` -/
def parseDec (xs : List Sexp) : Option (List (List Nat × Except Exn (List Nat × Nat))) :=
  xs.mapM fun
    | .list [k, .list [.atom "ok", r]] => do
      let k ← bytes? k; let r ← bytes? r
      some (k, .ok (r, 0))
    | .list [k, .list [.atom "ok", r, c]] => do
      let k ← bytes? k; let r ← bytes? r; let c ← nat? c
      some (k, .ok (r, c))
    | .list [k, .list [.atom "err", .atom n]] => do
      let k ← bytes? k
      some (k, .error (exnOfName n))
    | _ => none

def lookDec (tab : List (List Nat × Except Exn (List Nat × Nat))) (k : List Nat) : Except Exn (List Nat × Nat) :=
  match tab.find? (fun x => x.1 == k) with
  | some (_, r) => r
  | none => .error .typeError

def parseKeep (xs : List Sexp) : Option (List (List Nat × List Nat)) :=
  xs.mapM fun
    | .list [v, q] => do
      let v ← bytes? v; let q ← bytes? q
      some (v, q)
    | _ => none

/-- `((#key #rawsig #ser t|f) …)` -/
def parseChk (xs : List Sexp) : Option (List (List Nat × List Nat × List Nat × Bool)) :=
  xs.mapM fun
    | .list [k, s, m, b] => do
      let k ← bytes? k; let s ← bytes? s; let m ← bytes? m; let b ← bool? b
      some (k, s, m, b)
    | _ => none

/-- the verify function of the model, from the receiver's keep and the tables of the third-party parts -/
def mkVerify (fs : List Sexp) : Option (List (List Nat × List Nat) × (List (List Nat × List Nat) → List Nat → List Nat → List Nat → Except Exn Unit)) := do
  let keep ← field "keep" fs >>= parseKeep
  let dvid ← field "dvid" fs >>= parseDec
  let dqvk ← field "dqvk" fs >>= parseDec
  let dsgn ← field "dsgn" fs >>= parseDec
  let chk ← field "chk" fs >>= parseChk
  let P : VerifyParts := {
    decVID := lookDec dvid,
    decQVK := fun q => (lookDec dqvk q).map (·.1),
    decSGN := fun s => (lookDec dsgn s).map (·.1),
    check := fun k s m => match chk.find? (fun x => x.1 == k && x.2.1 == s && x.2.2.1 == m) with
      | some (_, _, _, b) => b
      | none => false }
  some (keep, verifyM P)

/-- sign table `((#vid #ser #sig) …)` -/
def parseStab (xs : List Sexp) : Option (List (List Nat × List Nat × Except Exn (List Nat))) :=
  xs.mapM fun
    | .list [v, m, .list [.atom "err", .atom n]] => do
      let v ← bytes? v; let m ← bytes? m
      some (v, m, .error (exnOfName n))
    | .list [v, m, s] => do
      let v ← bytes? v; let m ← bytes? m; let s ← bytes? s
      some (v, m, .ok s)
    | _ => none

/-- `Memoer.sign` as recorded from the real run: the signature, or the exception it raised (no key for that vid in the keep);
a (vid, ser) the real run never signed raises `TypeError` (never matches) -/
def mkSign (tab : List (List Nat × List Nat × Except Exn (List Nat))) (vid ser : List Nat) : Except Exn (List Nat) :=
  match tab.find? (fun (v, m, _) => v == vid && m == ser) with
  | some (_, _, s) => s
  | none => .error .typeError

def parseBatch (xs : List Sexp) : Option (List (List Nat × Nat)) :=
  xs.mapM fun
    | .list [g, s] => do
      let g ← bytes? g; let s ← nat? s
      some (g, s)
    | _ => none

def outEntry (e : Entry) : Sexp :=
  .list [ofBytes e.mid, .list (e.grams.map fun (n, b) => .list [ofNat n, ofBytes b]), ofOpt ofNat e.count, ofOptBytes e.vid, ofNat e.src]

def outMemo (m : Memo) : Sexp := .list [ofBytes m.text, ofNat m.src, ofOptBytes m.vid]

/-- receive-side history.  `all b` = datagrams `b` arrive, then `serviceAllRx()` (or `service()`, the same on the receive side);
`once b` = datagrams arrive, then `serviceAllRxOnce()`; `close` / `reopen` = `.close()` / `.reopen()`: while closed nothing is taken
from the transport but the fuse pass and the inbox move still run. -/
inductive RxOp
  | all (b : List (List Nat × Nat))
  | once (b : List (List Nat × Nat))
  | rxg (b : List (List Nat × Nat))     -- serviceReceives() + serviceRxGrams(): fused memos stay pending in .rxms
  | close
  | reopen
  | keep (vid : List Nat) (qvk : Option (List Nat))   -- .keep[vid] = … / del .keep[vid] on the receiver

def parseOp : Sexp → Option RxOp
  | .atom "close" => some .close
  | .atom "reopen" => some .reopen
  | .list [.atom "once", .list b] => (parseBatch b).map RxOp.once
  | .list [.atom "all", .list b] => (parseBatch b).map RxOp.all
  | .list [.atom "rxg", .list b] => (parseBatch b).map RxOp.rxg
  | .list [.atom "keep", v, q] => do
    let v ← bytes? v; let q ← optBytes? q
    some (.keep v q)
  | _ => none

/-- reported after each service call: memos that reached the inbox, entries, transport queue length, fused memos still pending in `.rxms` -/
def rxRun (authic : Bool) (VK : List (List Nat × List Nat) → List Nat → List Nat → List Nat → Except Exn Unit) :
    List RxOp → List (List Nat × List Nat) → Bool → List Entry → List (List Nat × Nat) → List Memo → List Sexp
  | [], _, _, _, _, _ => []
  | .keep v qv :: bs, keep, opened, es, q, pend => rxRun authic VK bs (setKeep keep v qv) opened es q pend
  | .close :: bs, keep, _, es, q, pend => rxRun authic VK bs keep false es q pend
  | .reopen :: bs, keep, _, es, q, pend => rxRun authic VK bs keep true es q pend
  | .once b :: bs, keep, opened, es, q, pend =>
    let V := VK keep
    let q1 := q ++ b
    let res := if opened then serviceAllRxOnce authic V es q1 pend
      else match serviceAllRxOnce authic V es [] pend with
        | .ok (e2, _, p2, d2) => .ok (e2, q1, p2, d2)
        | .error e => .error e
    match res with
    | .error e => [tag "escape" [sym (exnName e)]]
    | .ok (es2, q2, pend2, dl) =>
      .list [tag "delivered" (dl.map outMemo), tag "entries" (es2.map outEntry), tag "queue" [ofNat q2.length], tag "pending" [ofNat pend2.length]]
        :: rxRun authic VK bs keep opened es2 q2 pend2
  | .rxg b :: bs, keep, opened, es, q, pend =>
    let V := VK keep
    let q1 := q ++ b
    match serviceAllRx authic V es (if opened then q1 else []) with
    | .error e => [tag "escape" [sym (exnName e)]]
    | .ok o =>
      let q2 := if opened then o.queue else q1
      .list [tag "delivered" [], tag "entries" (o.entries.map outEntry), tag "queue" [ofNat q2.length], tag "pending" [ofNat (pend ++ o.delivered).length]]
        :: rxRun authic VK bs keep opened o.entries q2 (pend ++ o.delivered)
  | .all b :: bs, keep, opened, es, q, pend =>
    let V := VK keep
    let q1 := q ++ b
    match serviceAllRx authic V es (if opened then q1 else []) with
    | .error e => [tag "escape" [sym (exnName e)]]
    | .ok o =>
      let q2 := if opened then o.queue else q1
      .list [tag "delivered" ((pend ++ o.delivered).map outMemo), tag "entries" (o.entries.map outEntry), tag "queue" [ofNat q2.length], tag "pending" [ofNat 0]]
        :: rxRun authic VK bs keep opened o.entries q2 []

def parseSend : Sexp → Option SendRes
  | .list [.atom "a", n] => (nat? n).map SendRes.accept
  | .list [.atom "w"] => some .block
  | .list [.atom "e", n] => (nat? n).map SendRes.err
  | _ => none

def outSend : SendRes → Sexp
  | .accept n => .list [sym "a", ofNat n]
  | .block => .list [sym "w"]
  | .err e => .list [sym "e", ofNat e]

def outEv (e : TxEv) : Sexp :=
  .list [ofNat e.dst, ofBytes e.offered,
    match e.res with
    | .accept n => .list [sym "a", ofNat (min n e.offered.length)]
    | r => outSend r]

def outTx (st : Tx) : Sexp :=
  .list [tag "txgs" (st.txgs.map fun (g, d) => .list [ofBytes g, ofNat d]), tag "txb" [ofBytes st.txb], tag "dst" [ofOpt ofNat st.txdst]]

/-- calls: `g` = serviceTxGrams, `o` = serviceTxGramsOnce, `(q #gram dst)` = gramit -/
def txRun : List Sexp → Bool → Tx → List SendRes → List Sexp
  | [], _, st, _ => [tag "final" [outTx st]]
  | c :: cs, opened, st, sc =>
    match c with
    | .list [.atom "q", g, d] =>
      match bytes? g, nat? d with
      | some g, some d => txRun cs opened { st with txgs := st.txgs ++ [(g, d)] } sc
      | _, _ => [sym "bad-request"]
    | .atom "c" => txRun cs false st sc        -- .close(): service calls do nothing until .reopen(); queue and remainder are kept
    | .atom "r" => txRun cs true st sc
    | .atom k =>
      if !opened then tag "call" [] :: txRun cs opened st sc
      else
        let r := serviceCall (k == "g") st sc
        let line := tag "call" (r.evs.map outEv)
        match r.escaped with
        | some e => [line, tag "escape" [sym (exnName e), outTx r.st]]
        | none => line :: txRun cs opened r.st r.script
    | _ => [sym "bad-request"]

/-- socket-level view of the send calls of a PeerMemoer: event `j` (counted over the whole history) shows what the socket script said -/
def outEvP (raw : List SockRes) (j : Nat) (e : TxEv) : Sexp :=
  .list [ofNat e.dst, ofBytes e.offered,
    match raw[j]? with
    | some (.sent n) => .list [sym "a", ofNat (min n e.offered.length)]
    | some (.errno x) => .list [sym "e", ofNat x]
    | none => .list [sym "a", ofNat e.offered.length]]

def outEvsP (raw : List SockRes) : Nat → List TxEv → List Sexp
  | _, [] => []
  | j, e :: es => outEvP raw j e :: outEvsP raw (j + 1) es

def txRunP (raw : List SockRes) : Nat → List Sexp → Bool → Tx → List SendRes → List Sexp
  | _, [], _, st, _ => [tag "final" [outTx st]]
  | j, c :: cs, opened, st, sc =>
    match c with
    | .list [.atom "q", g, d] =>
      match bytes? g, nat? d with
      | some g, some d => txRunP raw j cs opened { st with txgs := st.txgs ++ [(g, d)] } sc
      | _, _ => [sym "bad-request"]
    | .atom "c" => txRunP raw j cs false st sc
    | .atom "r" => txRunP raw j cs true st sc
    | .atom k =>
      if !opened then tag "call" [] :: txRunP raw j cs opened st sc
      else
        let r := serviceCall (k == "g") st sc
        let line := tag "call" (outEvsP raw j r.evs)
        match r.escaped with
        | some e => [line, tag "escape" [sym (exnName e), outTx r.st]]
        | none => line :: txRunP raw (j + r.evs.length) cs opened r.st r.script
    | _ => [sym "bad-request"]

def parseSock : Sexp → Option SockRes
  | .list [.atom "a", n] => (nat? n).map SockRes.sent
  | .list [.atom "e", n] => (nat? n).map SockRes.errno
  | _ => none

def outGrams (r : Except Exn (List (List Nat))) : Sexp :=
  match r with
  | .ok gs => tag "grams" (gs.map ofBytes)
  | .error e => tag "raise" [sym (exnName e)]

def parseMemo : Sexp → Option (List Nat × List Nat × Nat)
  | .list [t, m, s] => do
    let t ← bytes? t; let m ← bytes? m; let s ← nat? s
    some (t, m, s)
  | _ => none

/-- `(memo-index gram-index)` or `(memo-index gram-index source)` when the datagram arrives from another source -/
def parsePair : Sexp → Option (Nat × Nat × Option Nat)
  | .list [mi, gi] => do
    let mi ← nat? mi; let gi ← nat? gi
    some (mi, gi, none)
  | .list [mi, gi, s] => do
    let mi ← nat? mi; let gi ← nat? gi; let s ← nat? s
    some (mi, gi, some s)
  | _ => none

def parseSched (b : Sexp) : Option (List (Nat × Nat × Option Nat)) := do
  let b ← list? b
  b.mapM parsePair

def parseSetter : Sexp → Option Setter
  | .list [.atom "code", c] => (bytes? c).map Setter.code
  | .list [.atom "curt", b] => (bool? b).map Setter.curt
  | .list [.atom "size", n] => (nat? n).map Setter.size
  | _ => none

inductive SchedOp
  | all (b : List (Nat × Nat × Option Nat))
  | once (b : List (Nat × Nat × Option Nat))
  | rxg (b : List (Nat × Nat × Option Nat))
  | close
  | reopen
  | keep (vid : List Nat) (qvk : Option (List Nat))

def parseSchedOp : Sexp → Option SchedOp
  | .atom "close" => some .close
  | .atom "reopen" => some .reopen
  | .list [.atom "once", b] => (parseSched b).map SchedOp.once
  | .list [.atom "all", b] => (parseSched b).map SchedOp.all
  | .list [.atom "rxg", b] => (parseSched b).map SchedOp.rxg
  | .list [.atom "keep", v, q] => do
    let v ← bytes? v; let q ← optBytes? q
    some (.keep v q)
  | _ => none

/-- memo `(#text #mid src)` or `(#text #mid src (setter…))`: the setters are assigned on the live sender just before this memo is rent -/
def parseMemoS : Sexp → Option (List Nat × List Nat × Nat × List Setter)
  | .list [t, m, s] => do
    let t ← bytes? t; let m ← bytes? m; let s ← nat? s
    some (t, m, s, [])
  | .list [t, m, s, .list ss] => do
    let t ← bytes? t; let m ← bytes? m; let s ← nat? s; let ss ← ss.mapM parseSetter
    some (t, m, s, ss)
  | _ => none

/-- rend the memos one after the other on the same sender, re-configuring in between -/
def rendAll (sign : List Nat → List Nat → Except Exn (List Nat)) (vid : Option (List Nat)) :
    TxCfg → List (List Nat × List Nat × Nat × List Setter) → List (Except Exn (List (List Nat))) × TxCfg
  | cfg, [] => ([], cfg)
  | cfg, (t, m, _, ss) :: rest =>
    let cfg' := applySettersSkip cfg ss
    let r := rend cfg' sign t vid m
    let (rs, cf) := rendAll sign vid cfg' rest
    (r :: rs, cf)

def e2eRun (cfg : TxCfg) (authic : Bool) (vid : Option (List Nat)) (sign : List Nat → List Nat → Except Exn (List Nat))
    (keep0 : List (List Nat × List Nat)) (VK : List (List Nat × List Nat) → List Nat → List Nat → List Nat → Except Exn Unit)
    (memos : List (List Nat × List Nat × Nat × List Setter))
    (sched : List SchedOp) : Sexp :=
  let (rs, cfgEnd) := rendAll sign vid cfg memos
  let pick1 : Nat × Nat × Option Nat → Option (List Nat × Nat) := fun p =>
    match rs[p.1]?, memos[p.1]? with
    | some (.ok gs), some tm =>
      if gs.isEmpty then none else (gs[p.2.1 % gs.length]?).map fun g => (g, p.2.2.getD tm.2.2.1)
    | _, _ => none
  let ops : List RxOp := sched.map fun
    | .all b => RxOp.all (b.filterMap pick1)
    | .once b => RxOp.once (b.filterMap pick1)
    | .rxg b => RxOp.rxg (b.filterMap pick1)
    | .close => RxOp.close
    | .reopen => RxOp.reopen
    | .keep v q => RxOp.keep v q
  Sexp.list [tag "cfg" [ofBytes cfgEnd.code, ofBool cfgEnd.curt, ofNat cfgEnd.size], tag "rend" (rs.map outGrams),
    tag "rx" (rxRun authic VK ops keep0 true [] [] [])]

def handle (req : Sexp) : Sexp :=
  match req with
  | .list (.atom "tx" :: fs) =>
    (do
      let grams ← field "grams" fs
      let grams ← parseBatch grams
      let script ← field "script" fs
      let script ← script.mapM parseSend
      let calls ← field "calls" fs
      let st0 : Tx := match field "txbs" fs with
        | some [b, d] => (match bytes? b, nat? d with
          | some b, some d => ⟨grams, b, some d⟩
          | _, _ => ⟨grams, [], none⟩)
        | _ => ⟨grams, [], none⟩
      some (Sexp.list (txRun calls true st0 script))).getD (sym "bad-request")
  | .list (.atom "txp" :: fs) =>
    (do
      let kind ← (field1 "peer" fs) >>= sym?
      let k := if kind == "udp" then PeerKind.udp else PeerKind.uxd
      let grams ← field "grams" fs
      let grams ← parseBatch grams
      let script ← field "script" fs
      let raw ← script.mapM parseSock
      let calls ← field "calls" fs
      let st0 : Tx := match field "txbs" fs with
        | some [b, d] => (match bytes? b, nat? d with
          | some b, some d => ⟨grams, b, some d⟩
          | _, _ => ⟨grams, [], none⟩)
        | _ => ⟨grams, [], none⟩
      some (Sexp.list (txRunP raw 0 calls true st0 (raw.map (peerSend k))))).getD (sym "bad-request")
  | .list (.atom "rx" :: fs) =>
    (do
      let authic ← (field1 "authic" fs) >>= bool?
      let (keep0, VK) ← mkVerify fs
      let ops ← field "batches" fs >>= fun bs => bs.mapM parseOp
      some (Sexp.list (rxRun authic VK ops keep0 true [] [] []))).getD (sym "bad-request")
  | .list (.atom "e2e" :: fs) =>
    (do
      let code ← (field1 "code" fs) >>= bytes?
      let curt ← (field1 "curt" fs) >>= bool?
      let size ← (field1 "size" fs) >>= nat?
      let authic ← (field1 "authic" fs) >>= bool?
      let vid ← (field1 "vid" fs) >>= optBytes?
      let stab ← field "stab" fs >>= parseStab
      let (keep0, VK) ← mkVerify fs
      let memos ← field "memos" fs
      let memos ← memos.mapM parseMemoS
      let sched ← field "sched" fs
      let sched ← sched.mapM parseSchedOp
      let hist ← (field "hist" fs).getD [] |>.mapM parseSetter
      match mkCfg code curt size with
      | .ok cfg => some (e2eRun (applySettersSkip cfg hist) authic vid (mkSign stab) keep0 VK memos sched)
      | .error e => some (Sexp.list [tag "cfg-raise" [sym (exnName e)]])).getD (sym "bad-request")
  | _ => sym "bad-request"

def main : IO Unit := serve handle
