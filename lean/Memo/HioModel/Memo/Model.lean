import HioModel.B64.Model
import HioModel.Gen.MemoTables
/-!
# Model of `hio.core.memo.memoing.Memoer` (faithful to the current source, branch fix/memo)

* `rend`      : memo bytes → grams (headers in Base64 text or Base2, signed or unsigned codes)
* `pick`      : one datagram → parsed gram (mid, vid, gram number, gram count, body) or a Python exception
* `recvLoop` / `fuseAll` / `serviceAllRx` : the receive side (`serviceReceives`, `serviceRxGrams`, `serviceRxMemos`)
* `onceTx` / `loopTx` / `serviceTxGrams`  : the transmit side over a scripted transport

Bytes are `List Nat` (values `< 256`), `str` values that only ever hold decoded UTF-8 are kept as their bytes.
Python exceptions are values (`Exn`).  Signing / verification (`Memoer.sign`, `Memoer.verify`, which call pysodium)
are PARAMETERS (`sign`, `V`).  The four receive dictionaries `rxgs/counts/vids/sources` always have `rxgs`, `vids`
and `sources` defined on the same keys (set and deleted together), so they are one insertion-ordered list of `Entry`.
The size / code tables, the unreachable-errno tuple and the `except` class sets are regenerated from the source on
every run (`HioModel/Gen/MemoTables.lean`).
-/
namespace Hio.Memo

abbrev Bytes := List Nat

/-- the Python exception classes that occur on the modelled paths -/
inductive Exn
  | memoerError | memoerVerifyError | keyError | valueError | unicodeDecodeError | binasciiError
  | unboundLocalError | overflowError | zeroDivisionError | indexError | osError (errno : Nat)
  | typeError | attributeError
deriving Repr, DecidableEq

/-- position in the translator's class list (`harness/extract/memo.py: EXN`) -/
def Exn.code : Exn → Nat
  | .memoerError => 0 | .memoerVerifyError => 1 | .keyError => 2 | .valueError => 3 | .unicodeDecodeError => 4
  | .binasciiError => 5 | .unboundLocalError => 6 | .overflowError => 7 | .zeroDivisionError => 8 | .indexError => 9
  | .osError _ => 10 | .typeError => 11 | .attributeError => 12

def ofB64 : B64.Exn → Exn
  | .valueError => .valueError | .keyError => .keyError | .overflowError => .overflowError

def liftB64 {α} : Except B64.Exn α → Except Exn α
  | .ok a => .ok a
  | .error e => .error (ofB64 e)

/-! ### CPython `bytes.decode()` (strict UTF-8) as a validity predicate -/

def isCont (b : Nat) : Bool := 0x80 ≤ b && b ≤ 0xBF

def utf8Valid : Bytes → Bool
  | [] => true
  | b0 :: rest =>
    if b0 < 0x80 then utf8Valid rest
    else match rest with
      | [] => false
      | b1 :: r1 =>
        if 0xC2 ≤ b0 && b0 ≤ 0xDF then isCont b1 && utf8Valid r1
        else match r1 with
          | [] => false
          | b2 :: r2 =>
            if b0 == 0xE0 then (0xA0 ≤ b1 && b1 ≤ 0xBF) && isCont b2 && utf8Valid r2
            else if (0xE1 ≤ b0 && b0 ≤ 0xEC) || b0 == 0xEE || b0 == 0xEF then isCont b1 && isCont b2 && utf8Valid r2
            else if b0 == 0xED then (0x80 ≤ b1 && b1 ≤ 0x9F) && isCont b2 && utf8Valid r2
            else match r2 with
              | [] => false
              | b3 :: r3 =>
                if b0 == 0xF0 then (0x90 ≤ b1 && b1 ≤ 0xBF) && isCont b2 && isCont b3 && utf8Valid r3
                else if 0xF1 ≤ b0 && b0 ≤ 0xF3 then isCont b1 && isCont b2 && isCont b3 && utf8Valid r3
                else if b0 == 0xF4 then (0x80 ≤ b1 && b1 ≤ 0x8F) && isCont b2 && isCont b3 && utf8Valid r3
                else false

/-! ### stdlib `base64.urlsafe_b64encode` / `urlsafe_b64decode` on aligned data -/

def stdChr (s : Nat) : Nat :=
  if s < 26 then 65 + s else if s < 52 then 97 + (s - 26) else if s < 62 then 48 + (s - 52)
  else if s = 62 then 45 else 95

def stdIdx (c : Nat) : Option Nat :=
  if 65 ≤ c ∧ c ≤ 90 then some (c - 65) else if 97 ≤ c ∧ c ≤ 122 then some (c - 97 + 26)
  else if 48 ≤ c ∧ c ≤ 57 then some (c - 48 + 52) else if c = 45 then some 62 else if c = 95 then some 63 else none

/-- `urlsafe_b64encode`; 61 is `=` -/
def encodeB64 : Bytes → Bytes
  | a :: b :: c :: rest =>
    stdChr (a / 4) :: stdChr ((a % 4) * 16 + b / 16) :: stdChr ((b % 16) * 4 + c / 64) :: stdChr (c % 64) :: encodeB64 rest
  | [a, b] => [stdChr (a / 4), stdChr ((a % 4) * 16 + b / 16), stdChr ((b % 16) * 4), 61]
  | [a] => [stdChr (a / 4), stdChr ((a % 4) * 16), 61, 61]
  | [] => []

/-- `urlsafe_b64decode` restricted to its strict domain: alphabet characters only, length a multiple of 4, no padding.
(The lenient behaviour of the C decoder on other input is outside the model; `rend` only decodes codes, mids, vids and signatures.) -/
def decodeB64 : Bytes → Option Bytes
  | c0 :: c1 :: c2 :: c3 :: rest =>
    match stdIdx c0, stdIdx c1, stdIdx c2, stdIdx c3, decodeB64 rest with
    | some s0, some s1, some s2, some s3, some r =>
      some ((s0 * 4 + s1 / 16) :: ((s1 % 16) * 16 + s2 / 4) :: ((s2 % 4) * 64 + s3) :: r)
    | _, _, _, _, _ => none
  | [] => some []
  | _ => none

/-! ### tables -/

structure Sizage where
  bz : Nat
  nz : Nat
  mz : Nat
  vz : Nat
  az : Nat
deriving Repr, DecidableEq

def Sizage.oz (s : Sizage) : Nat := s.bz + s.nz + s.mz + s.vz + s.az

/-- `self.Sizes[code]` -/
def sizesOf (code : Bytes) : Except Exn Sizage :=
  match Gen.memoSizes.lookup code with
  | some (bz, nz, mz, vz, az) => .ok ⟨bz, nz, mz, vz, az⟩
  | none => .error .keyError

/-- head part sizes in Base2: every part is `3 * x // 4` -/
def Sizage.scale (s : Sizage) : Sizage := ⟨3 * s.bz / 4, 3 * s.nz / 4, 3 * s.mz / 4, 3 * s.vz / 4, 3 * s.az / 4⟩

def slice (l : Bytes) (a b : Nat) : Bytes := (l.drop a).take (b - a)

/-- `gram[-az:]` for `az > 0` -/
def lastN (n : Nat) (l : Bytes) : Bytes := l.drop (l.length - n)

/-- `del gram[-az:]` -/
def dropLastN (n : Nat) (l : Bytes) : Bytes := l.take (l.length - n)

/-! ### transmit side: `size` setter and `rend` -/

/-- the rending configuration of a live Memoer: `._code`, `._curt`, `._size` (the STORED gram size) -/
structure TxCfg where
  code : Bytes      -- zeroth gram code, a member of `Zedex`
  curt : Bool
  size : Nat        -- `._size`: what the last run of the `size` setter stored
deriving Repr, DecidableEq

/-- smallest gram size the `size` setter stores for `(code, curt)`: zeroth overhead (scaled by 3/4 when `curt`) plus one body byte -/
def minSize (code : Bytes) (curt : Bool) : Except Exn Nat :=
  match sizesOf code with
  | .ok s => .ok ((if curt then 3 * s.oz / 4 else s.oz) + 1)
  | .error e => .error e

/-- the `size` property setter body: `self._size = max(size, oz + 1)` for the CURRENT code and encoding -/
def setSize (cfg : TxCfg) (size : Nat) : Except Exn TxCfg :=
  match minSize cfg.code cfg.curt with
  | .ok m => .ok { cfg with size := max size m }
  | .error e => .error e

/-- one assignment to a configuration property of a live Memoer -/
inductive Setter
  | code (c : Bytes)
  | curt (b : Bool)
  | size (n : Nat)
deriving Repr, DecidableEq

/-- the property setters: `.code` rejects a code outside `Zedex` (MemoerError, nothing changed) and otherwise stores it and
RE-CLAMPS the size (`self.size = self._size`); `.curt` stores and re-clamps; `.size` clamps the new value -/
def applySetter (cfg : TxCfg) : Setter → Except Exn TxCfg
  | .code c => if Gen.zedex.contains c then setSize { cfg with code := c } cfg.size else .error .memoerError
  | .curt b => setSize { cfg with curt := b } cfg.size
  | .size n => setSize cfg n

/-- a history of assignments; stops at the first one that raises -/
def applySetters : TxCfg → List Setter → Except Exn TxCfg
  | cfg, [] => .ok cfg
  | cfg, s :: ss =>
    match applySetter cfg s with
    | .ok cfg' => applySetters cfg' ss
    | .error e => .error e

/-- a history in which a refused assignment (it raises before anything is stored) is survived by the caller and the history goes on -/
def applySettersSkip : TxCfg → List Setter → TxCfg
  | cfg, [] => cfg
  | cfg, s :: ss =>
    match applySetter cfg s with
    | .ok cfg' => applySettersSkip cfg' ss
    | .error _ => applySettersSkip cfg ss

/-- `Memoer(code=…, curt=…, size=…)`: the constructor assigns code, curt (no size stored yet, nothing to clamp), then size -/
def mkCfg (code : Bytes) (curt : Bool) (size : Nat) : Except Exn TxCfg :=
  if Gen.zedex.contains code then setSize ⟨code, curt, 0⟩ size else .error .memoerError

/-- `memo[:n]`, `del memo[:n]` repeated while memo is non-empty; `fuel` = remaining length -/
def chunks (n : Nat) : Nat → Bytes → List Bytes
  | 0, _ => []
  | f + 1, l => if l.isEmpty then [] else l.take n :: chunks n f (l.drop n)

/-- bodies of the grams of a memo: the zeroth holds up to `zbz` bytes, every later one up to `nbz` -/
def bodies (zbz nbz : Nat) (memo : Bytes) : List Bytes :=
  if memo.isEmpty then [] else memo.take zbz :: chunks nbz memo.length (memo.drop zbz)

/-- the gram count written into the zeroth gram (after the `fix:` commit): `1 if ml <= zbz else 1 + ceil((ml-zbz)/nbz)` for `nbz ≥ 1` -/
def gramCount (ml zbz nbz : Nat) : Nat :=
  if ml ≤ zbz then 1 else 1 + (ml - zbz + nbz - 1) / nbz

/-- the gram number / count field -/
def numField (curt : Bool) (n nz : Nat) : Except Exn Bytes :=
  if curt then liftB64 (B64.toBytes n nz) else liftB64 (B64.intToB64 n nz)

def decodeOrRaise (t : Bytes) : Except Exn Bytes :=
  match decodeB64 t with
  | some b => .ok b
  | none => .error .binasciiError

/-- assemble and (when the code is signed) sign one gram -/
def mkGram (sign : Bytes → Bytes → Except Exn Bytes) (codeb num midb vidb : Bytes) (withVid signed : Bool) (vid body : Bytes) :
    Except Exn Bytes :=
  let fore := codeb ++ num ++ midb ++ (if withVid then vidb else []) ++ body
  if signed then
    match sign vid fore with
    | .ok sig => .ok (fore ++ sig)
    | .error e => .error e
  else .ok fore

def mkGrams (sign : Bytes → Bytes → Except Exn Bytes) (curt : Bool) (nz : Nat) (ncodeb midb vidb : Bytes) (withVid signed : Bool) (vid : Bytes) :
    Nat → List Bytes → Except Exn (List Bytes)
  | _, [] => .ok []
  | gn, b :: bs =>
    match numField curt gn nz with
    | .error e => .error e
    | .ok num =>
      match mkGram sign ncodeb num midb vidb withVid signed vid b with
      | .error e => .error e
      | .ok g =>
        match mkGrams sign curt nz ncodeb midb vidb withVid signed vid (gn + 1) bs with
        | .ok gs => .ok (g :: gs)
        | .error e => .error e

/-- everything `rend` computes before it starts cutting the memo -/
structure Plan where
  zcodeb : Bytes      -- zeroth code on the wire
  ncodeb : Bytes      -- non-zeroth code on the wire
  midb : Bytes
  vidb : Bytes
  vidt : Bytes        -- vid text handed to `sign`
  nz : Nat            -- width of the number / count field on the wire
  zWithVid : Bool
  zSigned : Bool
  nWithVid : Bool
  nSigned : Bool
  zbz : Nat           -- zeroth body size
  nbz : Nat           -- later body size
  gcnt : Bytes        -- the count field
deriving Repr

def lookupPair (code : Bytes) : Except Exn Bytes :=
  match Gen.memoPairs.lookup code with
  | some c => .ok c
  | none => .error .keyError

/-- zeroth overhead on the wire: scaled by 3/4 with Base2 headers -/
def zozOf (cfg : TxCfg) (zs : Sizage) : Nat := if cfg.curt then 3 * zs.oz / 4 else zs.oz

def zszOf (cfg : TxCfg) (zs : Sizage) : Sizage := if cfg.curt then zs.scale else zs

def wireOf (cfg : TxCfg) (t : Bytes) : Except Exn Bytes := if cfg.curt then decodeOrRaise t else .ok t

/-- the head of `Memoer.rend(memo, vid)` for a memo of `ml` bytes; `vidt` is the effective vid text
(`vid if vid is not None else self.vid`, empty = falsy), `mid` what `makeMID()` returned.
The non-zeroth overhead `ns.oz` is NOT scaled when curt (the tree's own test pins the resulting gram count), so the
later body size `size - ns.oz` may be ≤ 0: negative gives "Memo length exceeds max" (mms negative), zero gives ZeroDivisionError
unless the memo fits the zeroth gram.  `cfg.size - zozOf cfg zs` is the zeroth body size: it is ≥ 1 whenever `cfg` came out of the
constructor and any history of property assignments (`Legal`, theorem `setters_legal`); for other triples Python would work with a negative
size and this definition (natural-number subtraction) is not claimed to describe it. -/
def rendPlanT (cfg : TxCfg) (ml : Nat) (vidt : Bytes) (mid : Bytes) : Except Exn Plan :=
  match sizesOf cfg.code with
  | .error e => .error e
  | .ok zs =>
  match lookupPair cfg.code with
  | .error e => .error e
  | .ok ncode =>
  match sizesOf ncode with
  | .error e => .error e
  | .ok ns =>
  if zs.vz ≠ 0 ∧ (vidt.isEmpty ∨ vidt.length ≠ zs.vz) then .error .memoerError
  else if mid.length ≠ zs.mz then .error .memoerError
  else
  match wireOf cfg cfg.code with
  | .error e => .error e
  | .ok zcodeb =>
  match wireOf cfg ncode with
  | .error e => .error e
  | .ok ncodeb =>
  match wireOf cfg mid with
  | .error e => .error e
  | .ok midb =>
  match wireOf cfg vidt with
  | .error e => .error e
  | .ok vidb =>
  if cfg.size < ns.oz then .error .memoerError
  else if ml > cfg.size - zozOf cfg zs ∧ cfg.size - ns.oz = 0 then .error .zeroDivisionError
  else if ml > min Gen.maxMemoSize ((cfg.size - ns.oz) * (Gen.maxGramCount - 1) + (cfg.size - zozOf cfg zs)) then .error .memoerError
  else
  match numField cfg.curt (gramCount ml (cfg.size - zozOf cfg zs) (cfg.size - ns.oz)) (zszOf cfg zs).nz with
  | .error e => .error e
  | .ok gcnt =>
    .ok ⟨zcodeb, ncodeb, midb, vidb, vidt, (zszOf cfg zs).nz, (zszOf cfg zs).vz ≠ 0, (zszOf cfg zs).az ≠ 0, ns.vz ≠ 0, ns.az ≠ 0,
         cfg.size - zozOf cfg zs, cfg.size - ns.oz, gcnt⟩

def rendPlan (cfg : TxCfg) (ml : Nat) (vid : Option Bytes) (mid : Bytes) : Except Exn Plan :=
  rendPlanT cfg ml (vid.getD []) mid

/-- the `while memo:` loop of `rend` -/
def assemble (cfg : TxCfg) (sign : Bytes → Bytes → Except Exn Bytes) (pl : Plan) (memo : Bytes) : Except Exn (List Bytes) :=
  match bodies pl.zbz pl.nbz memo with
  | [] => .ok []
  | b0 :: bs =>
    match mkGram sign pl.zcodeb pl.gcnt pl.midb pl.vidb pl.zWithVid pl.zSigned pl.vidt b0 with
    | .error e => .error e
    | .ok g0 =>
      match mkGrams sign cfg.curt pl.nz pl.ncodeb pl.midb pl.vidb pl.nWithVid pl.nSigned pl.vidt 1 bs with
      | .error e => .error e
      | .ok gs => .ok (g0 :: gs)

/-- `Memoer.rend(memo, vid)`: the grams in order -/
def rend (cfg : TxCfg) (sign : Bytes → Bytes → Except Exn Bytes) (memo : Bytes) (vid : Option Bytes) (mid : Bytes) :
    Except Exn (List Bytes) :=
  match rendPlan cfg memo.length vid mid with
  | .error e => .error e
  | .ok pl => assemble cfg sign pl memo

/-! ### receive side: `wiff`, `pick` -/

/-- `wiff(gram)` for a non-empty gram: `false` Base64 text, `true` Base2 -/
def wiff (gram : Bytes) : Except Exn Bool :=
  match gram with
  | [] => .error .indexError
  | b :: _ =>
    if b / 4 = 0o30 then .ok false else if b / 4 = 0o33 then .ok true else .error .memoerError

/-- parsed gram -/
structure PG where
  mid : Bytes
  vid : Option Bytes
  gn : Nat
  gc : Option Nat
  body : Bytes
deriving Repr, DecidableEq

/-- `helping.b64ToInt(gnum)` on bytes: `decode("utf-8")` then the table lookup per character -/
def b64ToIntBytes (s : Bytes) : Except Exn Nat :=
  if s.isEmpty then .error .valueError
  else if !utf8Valid s then .error .unicodeDecodeError
  else if s.any (fun b => 0x80 ≤ b) then .error .keyError   -- a non-ASCII character is not in the table
  else liftB64 (B64.b64ToInt s)

/-- the three-way code switch: zeroth → count in the neck, non-zeroth → number in the neck and vid from `.vids`,
ack / anything else → `MemoerError` (acks are rejected since the `fix:` commit) -/
def classify (code : Bytes) (vidOf : Bytes → Option Bytes) (n : Nat) (mid vid : Bytes) (midIsText : Bool) :
    Except Exn (Nat × Option Nat × Bytes) :=
  if Gen.zeroDex.contains code then .ok (0, some n, vid)
  else if Gen.gramDex.contains code then
    if vid.isEmpty then
      if midIsText then .ok (n, none, (vidOf mid).getD []) else .error .unicodeDecodeError
    else .ok (n, none, vid)
  else .error .memoerError

/-- the end of `pick`: verify when there is a signature, then `mid.decode()`, `vid.decode()` -/
def pickTail (V : Bytes → Bytes → Bytes → Except Exn Unit) (mid vid : Bytes) (midText : Bool) (gn : Nat) (gc : Option Nat)
    (sig fore body : Bytes) : Except Exn PG :=
  match (if sig.isEmpty then Except.ok () else V vid sig fore) with
  | .error e => .error e
  | .ok _ =>
    if !midText then .error .unicodeDecodeError
    else if !vid.isEmpty && !utf8Valid vid then .error .unicodeDecodeError
    else .ok ⟨mid, if vid.isEmpty then none else some vid, gn, gc, body⟩

/-- the signature (as qb64 text) and the signed part of a gram with part sizes `s` (`sigConv` = `encodeB64` for Base2 headers) -/
def sigOf (s : Sizage) (sigConv : Bytes → Bytes) (gram : Bytes) : Bytes := if s.az = 0 then [] else sigConv (lastN s.az gram)

def foreOf (s : Sizage) (gram : Bytes) : Bytes := if s.az = 0 then gram else dropLastN s.az gram

/-- the part of `pick` after the header fields have been sliced out -/
def pickBody (code : Bytes) (s : Sizage) (vidOf : Bytes → Option Bytes) (V : Bytes → Bytes → Bytes → Except Exn Unit) (gram : Bytes)
    (n : Nat) (mid vid0 : Bytes) (midText : Bool) (sigConv : Bytes → Bytes) : Except Exn PG :=
  match classify code vidOf n mid vid0 midText with
  | .error e => .error e
  | .ok (gn, gc, vid) =>
    pickTail V mid vid midText gn gc (sigOf s sigConv gram) (foreOf s gram) ((foreOf s gram).drop (s.oz - s.az))

/-- Base2 header branch of `pick` -/
def pickB2 (authic : Bool) (vidOf : Bytes → Option Bytes) (V : Bytes → Bytes → Bytes → Except Exn Unit) (gram : Bytes) : Except Exn PG :=
  if gram.length < 3 then .error .memoerError
  else match liftB64 (B64.codeB2ToB64 gram 4) with
    | .error e => .error e
    | .ok code =>
      if authic && !Gen.authDex.contains code then .error .memoerError
      else match sizesOf code with
        | .error e => .error e
        | .ok s0 =>
          if gram.length < s0.scale.oz then .error .memoerError
          else
            pickBody code s0.scale vidOf V gram
              (B64.fromBytes (slice gram s0.scale.bz (s0.scale.bz + s0.scale.nz)))
              (encodeB64 (slice gram (s0.scale.bz + s0.scale.nz) (s0.scale.bz + s0.scale.nz + s0.scale.mz)))
              (encodeB64 (slice gram (s0.scale.bz + s0.scale.nz + s0.scale.mz) (s0.scale.bz + s0.scale.nz + s0.scale.mz + s0.scale.vz)))
              true encodeB64

/-- Base64 text header branch of `pick` -/
def pickB64 (authic : Bool) (vidOf : Bytes → Option Bytes) (V : Bytes → Bytes → Bytes → Except Exn Unit) (gram : Bytes) : Except Exn PG :=
  if gram.length < 4 then .error .memoerError
  else if !utf8Valid (gram.take 4) then .error .unicodeDecodeError
  else if authic && !Gen.authDex.contains (gram.take 4) then .error .memoerError
  else match sizesOf (gram.take 4) with
    | .error e => .error e
    | .ok s =>
      if gram.length < s.oz then .error .memoerError
      else match b64ToIntBytes (slice gram s.bz (s.bz + s.nz)) with
        | .error e => .error e
        | .ok n =>
          pickBody (gram.take 4) s vidOf V gram n
            (slice gram (s.bz + s.nz) (s.bz + s.nz + s.mz))
            (slice gram (s.bz + s.nz + s.mz) (s.bz + s.nz + s.mz + s.vz))
            (utf8Valid (slice gram (s.bz + s.nz) (s.bz + s.nz + s.mz))) id

/-- `Memoer.pick(gram)` for a non-empty gram.  `vidOf` is `self.vids.get`, `V vid sig ser` is `self.verify`. -/
def pick (authic : Bool) (vidOf : Bytes → Option Bytes) (V : Bytes → Bytes → Bytes → Except Exn Unit) (gram : Bytes) :
    Except Exn PG :=
  match wiff gram with
  | .error e => .error e
  | .ok true => pickB2 authic vidOf V gram
  | .ok false => pickB64 authic vidOf V gram

/-! ### receive side: state, `_serviceOneReceived`, `fuse`, `_serviceOnceRxGrams` -/

/-- `rxgs[mid]`, `counts[mid]`, `vids[mid]`, `sources[mid]` -/
structure Entry where
  mid : Bytes
  grams : List (Nat × Bytes)
  count : Option Nat
  vid : Option Bytes
  src : Nat
deriving Repr, DecidableEq

def findEntry (mid : Bytes) : List Entry → Option Entry
  | [] => none
  | e :: es => if e.mid = mid then some e else findEntry mid es

/-- `self.vids.get(mid)` -/
def vidOfEntries (es : List Entry) (mid : Bytes) : Option Bytes :=
  match findEntry mid es with
  | some e => e.vid
  | none => none

/-- first-only, idempotent storage of a parsed gram -/
def store (p : PG) (src : Nat) : List Entry → List Entry
  | [] => [{ mid := p.mid, grams := [(p.gn, p.body)], count := p.gc, vid := p.vid, src := src }]
  | e :: es =>
    if e.mid = p.mid then
      { e with grams := if (e.grams.lookup p.gn).isSome then e.grams else e.grams ++ [(p.gn, p.body)],
               count := match e.count with
                 | some c => some c
                 | none => p.gc } :: es
    else e :: store p src es

/-- does the `except` clause around `self.pick` stop this exception? (regenerated class set) -/
def rxCatches (e : Exn) : Bool := Gen.rxCaught.contains e.code

def fuseCatches (e : Exn) : Bool := Gen.fuseCaught.contains e.code

/-- `_serviceOneReceived` for a non-empty datagram -/
def recvOne (authic : Bool) (V : Bytes → Bytes → Bytes → Except Exn Unit) (es : List Entry) (gram : Bytes) (src : Nat) :
    Except Exn (List Entry) :=
  match pick authic (vidOfEntries es) V gram with
  | .ok p => .ok (store p src es)
  | .error e => if rxCatches e then .ok es else .error e

/-- `serviceReceives` over the queued datagrams (echoic transport): stops at the first empty datagram -/
def recvLoop (authic : Bool) (V : Bytes → Bytes → Bytes → Except Exn Unit) :
    List (Bytes × Nat) → List Entry → Except Exn (List Entry × List (Bytes × Nat))
  | [], es => .ok (es, [])
  | (g, s) :: q, es =>
    if g.isEmpty then .ok (es, q)
    else match recvOne authic V es g s with
      | .ok es' => recvLoop authic V q es'
      | .error e => .error e

/-- bodies `i, i+1, …, i+k-1` concatenated, `none` when one is missing -/
def gather (grams : List (Nat × Bytes)) : Nat → Nat → Option Bytes
  | 0, _ => some []
  | k + 1, i =>
    match grams.lookup i, gather grams k (i + 1) with
    | some b, some r => some (b ++ r)
    | _, _ => none

/-- `fuse(grams, cnt)` -/
def fuse (grams : List (Nat × Bytes)) (cnt : Nat) : Except Exn (Option Bytes) :=
  if grams.length < cnt then .ok none
  else match gather grams cnt 0 with
    | none => .ok none
    | some m => if utf8Valid m then .ok (some m) else .error .unicodeDecodeError

/-- a delivered memo: `(memo, src, vid)` -/
structure Memo where
  text : Bytes
  src : Nat
  vid : Option Bytes
deriving Repr, DecidableEq

/-- `_serviceOnceRxGrams`: one pass over the mids in insertion order -/
def fuseAll : List Entry → Except Exn (List Entry × List Memo)
  | [] => .ok ([], [])
  | e :: es =>
    match e.count with
    | none =>
      match fuseAll es with
      | .ok (k, d) => .ok (e :: k, d)
      | .error x => .error x
    | some c =>
      match fuse e.grams c with
      | .ok none =>
        match fuseAll es with
        | .ok (k, d) => .ok (e :: k, d)
        | .error x => .error x
      | .ok (some m) =>
        match fuseAll es with
        | .ok (k, d) => .ok (k, ⟨m, e.src, e.vid⟩ :: d)
        | .error x => .error x
      | .error x =>
        if fuseCatches x then fuseAll es else .error x

structure RxOut where
  entries : List Entry
  queue : List (Bytes × Nat)
  delivered : List Memo
deriving Repr

/-- `serviceAllRx()`: receive greedily, one fuse pass, move every fused memo to the inbox -/
def serviceAllRx (authic : Bool) (V : Bytes → Bytes → Bytes → Except Exn Unit) (es : List Entry) (queue : List (Bytes × Nat)) :
    Except Exn RxOut :=
  match recvLoop authic V queue es with
  | .error e => .error e
  | .ok (es1, q1) =>
    match fuseAll es1 with
    | .error e => .error e
    | .ok (es2, d) => .ok ⟨es2, q1, d⟩

/-- `serviceReceivesOnce()`: at most ONE datagram is taken from the transport (an empty one is consumed and ignored) -/
def recvOnceStep (authic : Bool) (V : Bytes → Bytes → Bytes → Except Exn Unit) (es : List Entry) :
    List (Bytes × Nat) → Except Exn (List Entry × List (Bytes × Nat))
  | [] => .ok (es, [])
  | (g, s) :: q =>
    if g.isEmpty then .ok (es, q)
    else match recvOne authic V es g s with
      | .ok es' => .ok (es', q)
      | .error e => .error e

/-- `serviceAllRxOnce()`: one datagram at most, one fuse pass, and ONE fused memo (the oldest pending in `.rxms`) goes to the inbox.
`rxms` are the fused memos not yet moved.  Result: entries, transport queue, still pending, moved to the inbox. -/
def serviceAllRxOnce (authic : Bool) (V : Bytes → Bytes → Bytes → Except Exn Unit) (es : List Entry) (queue : List (Bytes × Nat))
    (rxms : List Memo) : Except Exn (List Entry × List (Bytes × Nat) × List Memo × List Memo) :=
  match recvOnceStep authic V es queue with
  | .error e => .error e
  | .ok (es1, q1) =>
    match fuseAll es1 with
    | .error e => .error e
    | .ok (es2, d) =>
      match rxms ++ d with
      | [] => .ok (es2, q1, [], [])
      | m :: rest => .ok (es2, q1, rest, [m])

/-- a history of service calls: each batch is appended to the transport queue, then `serviceAllRx()` runs -/
def runBatches (authic : Bool) (V : Bytes → Bytes → Bytes → Except Exn Unit) :
    List (List (Bytes × Nat)) → List Entry → List (Bytes × Nat) → Except Exn (List Entry × List (Bytes × Nat) × List (List Memo))
  | [], es, q => .ok (es, q, [])
  | b :: bs, es, q =>
    match serviceAllRx authic V es (q ++ b) with
    | .error e => .error e
    | .ok o =>
      match runBatches authic V bs o.entries o.queue with
      | .ok (es', q', ds) => .ok (es', q', o.delivered :: ds)
      | .error e => .error e

/-! ### transmit side: `_serviceOnceTxGrams`, `serviceTxGramsOnce`, `serviceTxGrams` over a scripted transport -/

/-- what one `send(gram, dst)` call does: accepts `n` bytes (capped at the length offered), would block (returns 0),
or raises `OSError(errno)` -/
inductive SendRes
  | accept (n : Nat)
  | block
  | err (errno : Nat)
deriving Repr, DecidableEq

structure Tx where
  txgs : List (Bytes × Nat)     -- queued (gram, dst)
  txb : Bytes                   -- `.txbs[0]`
  txdst : Option Nat            -- `.txbs[1]`
deriving Repr, DecidableEq

/-- one `send` call as seen by the transport -/
structure TxEv where
  dst : Nat
  offered : Bytes
  res : SendRes
deriving Repr, DecidableEq

structure TxStep where
  more : Bool                   -- return value of `_serviceOnceTxGrams`
  st : Tx
  script : List SendRes
  evs : List TxEv
  escaped : Option Exn
deriving Repr

/-- number of bytes the transport takes -/
def SendRes.count (r : SendRes) (len : Nat) : Nat :=
  match r with
  | .accept n => min n len
  | .block => 0
  | .err _ => 0

/-- the outcome of the next `send`: an exhausted script means the transport accepts everything -/
def nextRes (script : List SendRes) (len : Nat) : SendRes :=
  match script with
  | [] => .accept len
  | r :: _ => r

/-- the part of `_serviceOnceTxGrams` after the gram to send has been chosen: `send(gram, dst)` answered `r` -/
def sendStep (st : Tx) (gram : Bytes) (dst : Nat) (rest : List (Bytes × Nat)) (r : SendRes) (script' : List SendRes) : TxStep :=
  match r with
  | .err e =>
    if Gen.txDropErrnos.contains e then
      ⟨true, ⟨rest, [], none⟩, script', [⟨dst, gram, r⟩], none⟩
    else
      -- re-raised: the popped gram is gone from `.txgs`, `.txbs` keeps its old value
      ⟨false, ⟨rest, st.txb, st.txdst⟩, script', [⟨dst, gram, r⟩], some (.osError e)⟩
  | .accept n =>
    let left := gram.drop (min n gram.length)
    if left.isEmpty then ⟨true, ⟨rest, left, none⟩, script', [⟨dst, gram, r⟩], none⟩
    else ⟨false, ⟨rest, left, some dst⟩, script', [⟨dst, gram, r⟩], none⟩
  | .block =>
    if gram.isEmpty then ⟨true, ⟨rest, gram, none⟩, script', [⟨dst, gram, r⟩], none⟩
    else ⟨false, ⟨rest, gram, some dst⟩, script', [⟨dst, gram, r⟩], none⟩

/-- `_serviceOnceTxGrams` -/
def onceTx (st : Tx) (script : List SendRes) : TxStep :=
  match st.txdst with
  | some d => sendStep st st.txb d st.txgs (nextRes script st.txb.length) script.tail
  | none =>
    match st.txgs with
    | [] => ⟨false, st, script, [], none⟩
    | (g, d) :: rest => sendStep st g d rest (nextRes script g.length) script.tail

def Tx.pending (st : Tx) : Bool := !st.txgs.isEmpty || st.txdst.isSome

/-- `serviceTxGramsOnce()` (transport open) -/
def serviceTxGramsOnce (st : Tx) (script : List SendRes) : TxStep :=
  if st.pending then onceTx st script else ⟨false, st, script, [], none⟩

/-- the `while self.opened and (self.txgs or remainder): if not once(): break` loop -/
def loopTx : Nat → Tx → List SendRes → TxStep
  | 0, st, sc => ⟨false, st, sc, [], none⟩
  | f + 1, st, sc =>
    if st.pending then
      let r := onceTx st sc
      if r.escaped.isSome || !r.more then r
      else
        let r2 := loopTx f r.st r.script
        ⟨r2.more, r2.st, r2.script, r.evs ++ r2.evs, r2.escaped⟩
    else ⟨false, st, sc, [], none⟩

/-- `serviceTxGrams()`: every iteration that continues either takes a gram off the queue or clears the remainder,
so `2 * |txgs| + 2` iterations always suffice (`loopTx_fuel` in the lemmas) -/
def serviceTxGrams (st : Tx) (script : List SendRes) : TxStep :=
  loopTx (2 * st.txgs.length + 2) st script

/-- a history of calls on the transmit side -/
inductive Call
  | greedy                          -- serviceTxGrams()
  | once                            -- serviceTxGramsOnce()
  | enqueue (g : Bytes) (d : Nat)   -- gramit(g, d)
deriving Repr, DecidableEq

def serviceCall (greedy : Bool) (st : Tx) (script : List SendRes) : TxStep :=
  if greedy then serviceTxGrams st script else serviceTxGramsOnce st script

structure TxRun where
  st : Tx
  script : List SendRes
  evs : List TxEv
  escaped : Option Exn
deriving Repr

/-- run a history; stops at the first exception that escapes a service call -/
def runCalls : List Call → Tx → List SendRes → TxRun
  | [], st, sc => ⟨st, sc, [], none⟩
  | .enqueue g d :: cs, st, sc => runCalls cs { st with txgs := st.txgs ++ [(g, d)] } sc
  | .greedy :: cs, st, sc =>
    let r := serviceCall true st sc
    match r.escaped with
    | some e => ⟨r.st, r.script, r.evs, some e⟩
    | none =>
      let r2 := runCalls cs r.st r.script
      ⟨r2.st, r2.script, r.evs ++ r2.evs, r2.escaped⟩
  | .once :: cs, st, sc =>
    let r := serviceCall false st sc
    match r.escaped with
    | some e => ⟨r.st, r.script, r.evs, some e⟩
    | none =>
      let r2 := runCalls cs r.st r.script
      ⟨r2.st, r2.script, r.evs ++ r2.evs, r2.escaped⟩

/-! ### `Memoer.verify`: which key a signer id is verified against -/

/-- the third-party parts of `Memoer.verify` as parameters: decoding of qualified Base64 material (stdlib base64, with the checks of
`_decodeVID`, `_decodeQVK`, `_decodeSGN`) and the ed25519 check of pysodium -/
structure VerifyParts where
  decVID : Bytes → Except Exn (Bytes × Nat)   -- `_decodeVID(vid)`: (raw 32 bytes, code character: 66 'B' non-transferable, 68 'D', 69 'E')
  decQVK : Bytes → Except Exn Bytes           -- `_decodeQVK(keyage.qvk)`: raw verification key
  decSGN : Bytes → Except Exn Bytes           -- `_decodeSGN(sig)`: raw signature
  check : Bytes → Bytes → Bytes → Bool        -- `crypto_sign_verify_detached(rawsig, ser, verkey)` does not raise: `check verkey rawsig ser`

/-- the verification key `Memoer.verify` uses for a signer id: the key embedded in the id ONLY for the non-transferable code 'B';
for every other code the key the receiver's `.keep` holds for that id (`MemoerVerifyError` when it holds none) -/
def keyFor (P : VerifyParts) (keep : List (Bytes × Bytes)) (vid : Bytes) : Except Exn Bytes :=
  match P.decVID vid with
  | .error e => .error e
  | .ok (raw, code) =>
    if code = 66 then .ok raw
    else match keep.lookup vid with
      | none => .error .memoerVerifyError
      | some qvk => P.decQVK qvk

/-- `Memoer.verify(vid, sig, ser)` (vid and sig arrive as bytes from `pick`) -/
def verifyM (P : VerifyParts) (keep : List (Bytes × Bytes)) (vid sig ser : Bytes) : Except Exn Unit :=
  if !utf8Valid vid then .error .unicodeDecodeError
  else match keyFor P keep vid with
    | .error e => .error e
    | .ok key =>
      match P.decSGN sig with
      | .error e => if e = .memoerError then .error .memoerVerifyError else .error e
      | .ok rawsig => if P.check key rawsig ser then .ok () else .error .memoerVerifyError

/-- `.keep[vid] = Keyage(qvk, …)` (`some qvk`) or `del .keep[vid]` (`none`): the application rotates / revokes a signer's key between service passes -/
def setKeep (keep : List (Bytes × Bytes)) (vid : Bytes) (qvk : Option Bytes) : List (Bytes × Bytes) :=
  match qvk with
  | some q => (vid, q) :: keep.filter (fun x => x.1 != vid)
  | none => keep.filter (fun x => x.1 != vid)

/-- a receive history with key management in between: a batch of datagrams followed by `serviceAllRx()`, or an update of the keep.
`verify` is `verifyM P` over the keep CURRENT at that step — the model holds no other key state -/
inductive RStep
  | batch (b : List (Bytes × Nat))
  | rekey (vid : Bytes) (qvk : Option Bytes)

def runKeyed (authic : Bool) (P : VerifyParts) :
    List RStep → List (Bytes × Bytes) → List Entry → List (Bytes × Nat) → Except Exn (List Entry × List (Bytes × Nat) × List (List Memo))
  | [], _, es, q => .ok (es, q, [])
  | .rekey vid qvk :: rest, keep, es, q => runKeyed authic P rest (setKeep keep vid qvk) es q
  | .batch b :: rest, keep, es, q =>
    match serviceAllRx authic (verifyM P keep) es (q ++ b) with
    | .error e => .error e
    | .ok o =>
      match runKeyed authic P rest keep o.entries o.queue with
      | .ok (es', q', ds) => .ok (es', q', o.delivered :: ds)
      | .error e => .error e

/-! ### the datagram transports under the Memoer: `udping.Peer.send`, `uxding.Peer.send` -/

/-- what the socket's `sendto(data, dst)` does: returns a byte count or raises `OSError(errno)` -/
inductive SockRes
  | sent (n : Nat)
  | errno (e : Nat)
deriving Repr, DecidableEq

inductive PeerKind
  | udp
  | uxd
deriving Repr, DecidableEq

/-- the errnos on which `Peer.send` returns 0 ("try again later with same data"), regenerated by probing the real method with every errno -/
def zeroErrnos : PeerKind → List Nat
  | .udp => Gen.udpSendZero
  | .uxd => Gen.uxdSendZero

/-- `Peer.send(data, dst)`: the count `sendto` returned; 0 on a would-block errno; any other `OSError` is re-raised to the Memoer -/
def peerSend (k : PeerKind) : SockRes → SendRes
  | .sent n => .accept n
  | .errno e => if (zeroErrnos k).contains e then .block else .err e

/-- a history of transmit calls of a `PeerMemoer` whose socket behaves as scripted -/
def runCallsPeer (k : PeerKind) (cs : List Call) (st : Tx) (sock : List SockRes) : TxRun :=
  runCalls cs st (sock.map (peerSend k))

end Hio.Memo
