import HioModel.Memo.HeadLemmas
/-! Header round trip with Base2 (`curt`) headers (C20). -/
namespace Hio.Memo

/-- re-encoding the value of a digit string with its own length as the minimum gives the characters back -/
theorem intToB64_val64 (cs ds : List Nat) (hf : List.Forall₂ (fun c d => B64.idxOf c = .ok d) cs ds) (hne : cs ≠ []) :
    B64.intToB64 (B64.val64 ds) cs.length = .ok cs := by
  have hd := B64.forall₂_digits_lt hf
  have hlen : cs.length = ds.length := List.Forall₂.length_eq hf
  have hvlt : B64.val64 ds < 64 ^ cs.length := hlen ▸ B64.val64_lt ds hd
  have hs0 : ¬(cs.length = 0 ∧ B64.val64 ds = 0) := by
    intro ⟨h0, _⟩; exact hne (List.length_eq_zero_iff.mp h0)
  obtain ⟨s', h1, h2, h3⟩ := B64.intToB64_spec (B64.val64 ds) cs.length hs0
  rw [h1]; congr 1
  have hk : (B64.digits64 (B64.val64 ds)).length ≤ cs.length := by
    by_cases h64 : 64 ≤ B64.val64 ds
    · have := B64.digits_tight _ h64
      have hlt' : 64 ^ ((B64.digits64 (B64.val64 ds)).length - 1) < 64 ^ cs.length := Nat.lt_of_le_of_lt this hvlt
      have := (Nat.pow_lt_pow_iff_right (by omega : 1 < 64)).mp hlt'
      omega
    · have : (B64.digits64 (B64.val64 ds)).length = 1 := by
        rw [B64.digits64]; simp [Nat.lt_of_not_le h64]
      have : 0 < cs.length := List.length_pos_iff.mpr hne
      omega
  have hpl : (List.replicate (cs.length - (B64.digits64 (B64.val64 ds)).length) 0 ++ B64.digits64 (B64.val64 ds)).length = ds.length := by
    simp; omega
  have hplt : ∀ d ∈ List.replicate (cs.length - (B64.digits64 (B64.val64 ds)).length) 0 ++ B64.digits64 (B64.val64 ds), d < 64 := by
    intro d hd'
    rcases List.mem_append.mp hd' with hd' | hd'
    · rw [(List.mem_replicate.mp hd').2]; omega
    · exact B64.digits_lt _ d hd'
  have hpv : B64.val64 (List.replicate (cs.length - (B64.digits64 (B64.val64 ds)).length) 0 ++ B64.digits64 (B64.val64 ds)) = B64.val64 ds := by
    rw [B64.val64_replicate_zero, B64.val64_digits]
  have := B64.val64_inj _ ds hpl hplt hd hpv
  rw [this] at h3
  exact B64.forall₂_idx_inj h3 hf

/-- the stdlib url-safe alphabet is hio's alphabet table (re-checked by `decide` against the regenerated table) -/
def stdOk (c : Nat) : Bool :=
  match stdIdx c with
  | some s => Gen.b64IdxByChr.lookup c == some s && decide (s < 64) && stdChr s == c
  | none => true

theorem std_table : ∀ c ∈ List.range 128, stdOk c = true := by decide +kernel

theorem stdIdx_spec (c s : Nat) (h : stdIdx c = some s) : B64.idxOf c = .ok s ∧ s < 64 ∧ stdChr s = c := by
  have hc : c < 128 := by
    unfold stdIdx at h
    repeat' split at h
    all_goals first | omega | simp at h
  have := std_table c (List.mem_range.mpr hc)
  unfold stdOk at this
  rw [h] at this
  simp only [Bool.and_eq_true, beq_iff_eq, decide_eq_true_eq] at this
  obtain ⟨⟨h1, h2⟩, h3⟩ := this
  exact ⟨by unfold B64.idxOf; rw [h1], h2, h3⟩

/-- a four character code decoded to its three bytes is read back by `codeB2ToB64(…, 4)`, whatever follows -/
theorem code_b2_roundtrip (t b rest : Bytes) (ht : t.length = 4) (hd : decodeB64 t = some b) :
    b.length = 3 ∧ B64.codeB2ToB64 (b ++ rest) 4 = .ok t := by
  match t, ht with
  | [c0, c1, c2, c3], _ =>
    simp only [decodeB64] at hd
    split at hd
    · rename_i s0 s1 s2 s3 r h0 h1 h2 h3 hr
      cases hr
      cases hd
      obtain ⟨i0, l0, _⟩ := stdIdx_spec c0 s0 h0
      obtain ⟨i1, l1, _⟩ := stdIdx_spec c1 s1 h1
      obtain ⟨i2, l2, _⟩ := stdIdx_spec c2 s2 h2
      obtain ⟨i3, l3, _⟩ := stdIdx_spec c3 s3 h3
      refine ⟨rfl, ?_⟩
      have hf : List.Forall₂ (fun c d => B64.idxOf c = .ok d) [c0, c1, c2, c3] [s0, s1, s2, s3] :=
        .cons i0 (.cons i1 (.cons i2 (.cons i3 .nil)))
      have hval : B64.fromBytes [s0 * 4 + s1 / 16, s1 % 16 * 16 + s2 / 4, s2 % 4 * 64 + s3] = B64.val64 [s0, s1, s2, s3] := by
        simp only [B64.fromBytes, B64.val64, List.foldl_cons, List.foldl_nil]
        omega
      have := intToB64_val64 [c0, c1, c2, c3] [s0, s1, s2, s3] hf (by simp)
      unfold B64.codeB2ToB64
      have hoct : B64.octets 4 = 3 := by decide
      rw [hoct]
      have hlen : ¬ 3 > ([s0 * 4 + s1 / 16, s1 % 16 * 16 + s2 / 4, s2 % 4 * 64 + s3] ++ rest).length := by simp
      rw [if_neg hlen]
      have htake : ([s0 * 4 + s1 / 16, s1 % 16 * 16 + s2 / 4, s2 % 4 * 64 + s3] ++ rest).take 3 = [s0 * 4 + s1 / 16, s1 % 16 * 16 + s2 / 4, s2 % 4 * 64 + s3] := by simp
      rw [htake, hval]
      simpa using this
    · simp at hd

/-- `pick` on a datagram laid out `code ++ num ++ mid ++ vid ++ body ++ sig` in Base2 (every header part `3/4` of its text size):
the code is read back by `codeB2ToB64`, the number by `int.from_bytes`, mid / vid / signature are handed on re-encoded as Base64 text,
the signed part is everything before the signature, the body is what lies between. -/
theorem pick_layout_b2 (authic : Bool) (vidOf : Bytes → Option Bytes) (V : Bytes → Bytes → Bytes → Except Exn Unit)
    (code codeb numb midb vidb body sigraw : Bytes) (s : Sizage)
    (hs : sizesOf code = .ok s) (hau : authic = true → Gen.authDex.contains code = true)
    (hcl : codeb.length = 3) (hw : wiff codeb = .ok true) (hcode : ∀ rest, B64.codeB2ToB64 (codeb ++ rest) 4 = .ok code)
    (hnum : numb.length = s.scale.nz) (hmid : midb.length = s.scale.mz) (hvid : vidb.length = s.scale.vz) (hsig : sigraw.length = s.scale.az) :
    pick authic vidOf V (codeb ++ (numb ++ (midb ++ (vidb ++ (body ++ sigraw))))) =
      match classify code vidOf (B64.fromBytes numb) (encodeB64 midb) (encodeB64 vidb) true with
      | .error e => .error e
      | .ok (gn, gc, vid) =>
        pickTail V (encodeB64 midb) vid true gn gc (if s.scale.az = 0 then [] else encodeB64 sigraw)
          (codeb ++ (numb ++ (midb ++ (vidb ++ body)))) body := by
  obtain ⟨_, hbz4, _, _⟩ := code_facts code s hs
  have hbz : s.scale.bz = 3 := by simp [Sizage.scale, hbz4]
  have hlen : (codeb ++ (numb ++ (midb ++ (vidb ++ (body ++ sigraw))))).length = s.scale.oz + body.length := by
    simp [Sizage.oz, hcl, hbz, hnum, hmid, hvid, hsig]; omega
  unfold pick
  rw [wiff_append _ _ _ hw]
  simp only
  unfold pickB2
  rw [hcode]
  have h1 : ¬ (codeb ++ (numb ++ (midb ++ (vidb ++ (body ++ sigraw))))).length < 3 := by rw [hlen]; unfold Sizage.oz; omega
  have h2 : (authic && !Gen.authDex.contains code) = false := by
    cases authic with
    | false => rfl
    | true => have := hau rfl; rw [this]; rfl
  have h3 : ¬ (codeb ++ (numb ++ (midb ++ (vidb ++ (body ++ sigraw))))).length < s.scale.oz := by rw [hlen]; omega
  simp only [h1, if_false, liftB64, h2, Bool.false_eq_true, hs, h3]
  have e1 : slice (codeb ++ (numb ++ (midb ++ (vidb ++ (body ++ sigraw))))) s.scale.bz (s.scale.bz + s.scale.nz) = numb := by
    rw [hbz, ← hcl, ← hnum]; simp [slice]
  have e2 : slice (codeb ++ (numb ++ (midb ++ (vidb ++ (body ++ sigraw))))) (s.scale.bz + s.scale.nz) (s.scale.bz + s.scale.nz + s.scale.mz) = midb := by
    rw [hbz, ← hcl, ← hnum, ← hmid]; simp [slice]
  have e3 : slice (codeb ++ (numb ++ (midb ++ (vidb ++ (body ++ sigraw))))) (s.scale.bz + s.scale.nz + s.scale.mz)
      (s.scale.bz + s.scale.nz + s.scale.mz + s.scale.vz) = vidb := by
    rw [hbz, ← hcl, ← hnum, ← hmid, ← hvid]; simp [slice, Nat.add_assoc]
    have : codeb.length + (numb.length + (midb.length + vidb.length)) - (codeb.length + (numb.length + midb.length)) = vidb.length := by omega
    rw [this]; exact List.take_left
  have e4 : sigOf s.scale encodeB64 (codeb ++ (numb ++ (midb ++ (vidb ++ (body ++ sigraw))))) = (if s.scale.az = 0 then [] else encodeB64 sigraw) := by
    unfold sigOf
    by_cases hz : s.scale.az = 0
    · simp [hz]
    · simp only [hz, if_false, lastN]
      have : (codeb ++ (numb ++ (midb ++ (vidb ++ (body ++ sigraw))))).length - s.scale.az = (codeb ++ (numb ++ (midb ++ (vidb ++ body)))).length := by
        simp; omega
      rw [this]
      have e : codeb ++ (numb ++ (midb ++ (vidb ++ (body ++ sigraw)))) = (codeb ++ (numb ++ (midb ++ (vidb ++ body)))) ++ sigraw := by simp
      rw [e, List.drop_left]
  have e5 : foreOf s.scale (codeb ++ (numb ++ (midb ++ (vidb ++ (body ++ sigraw))))) = codeb ++ (numb ++ (midb ++ (vidb ++ body))) := by
    unfold foreOf
    by_cases hz : s.scale.az = 0
    · have : sigraw = [] := List.length_eq_zero_iff.mp (by omega)
      simp [hz, this]
    · simp only [hz, if_false, dropLastN]
      have : (codeb ++ (numb ++ (midb ++ (vidb ++ (body ++ sigraw))))).length - s.scale.az = (codeb ++ (numb ++ (midb ++ (vidb ++ body)))).length := by
        simp; omega
      rw [this]
      have e : codeb ++ (numb ++ (midb ++ (vidb ++ (body ++ sigraw)))) = (codeb ++ (numb ++ (midb ++ (vidb ++ body)))) ++ sigraw := by simp
      rw [e]; exact List.take_left
  have e6 : (codeb ++ (numb ++ (midb ++ (vidb ++ body)))).drop (s.scale.oz - s.scale.az) = body := by
    have : s.scale.oz - s.scale.az = (codeb ++ (numb ++ (midb ++ vidb))).length := by
      simp [Sizage.oz, hcl, hbz, hnum, hmid, hvid]; omega
    rw [this]
    have e : codeb ++ (numb ++ (midb ++ (vidb ++ body))) = (codeb ++ (numb ++ (midb ++ vidb))) ++ body := by simp
    rw [e]; exact List.drop_left
  unfold pickBody
  rw [e1, e2, e3, e4, e5, e6]
  generalize classify code vidOf (B64.fromBytes numb) (encodeB64 midb) (encodeB64 vidb) true = c
  cases c with
  | error e => rfl
  | ok t => obtain ⟨a, b, c⟩ := t; rfl

/-- the table codes on the wire in Base2: three bytes that `wiff` recognises as Base2 and `codeB2ToB64` reads back -/
theorem code_wire_b2 (code : Bytes) (s : Sizage) (hs : sizesOf code = .ok s) :
    ∃ codeb, decodeB64 code = some codeb ∧ codeb.length = 3 ∧ wiff codeb = .ok true ∧ ∀ rest, B64.codeB2ToB64 (codeb ++ rest) 4 = .ok code := by
  have hmem : ∃ v, (code, v) ∈ Gen.memoSizes := by
    unfold sizesOf at hs
    split at hs
    · rename_i bz nz mz vz az hl; exact ⟨_, lookup_mem' _ _ _ hl⟩
    · simp at hs
  obtain ⟨v, hv⟩ := hmem
  have hdec : ∀ p ∈ Gen.memoSizes, (match decodeB64 p.1 with
      | some b => (match wiff b with | .ok true => true | _ => false)
      | none => false) = true := by decide
  have h1 := hdec (code, v) hv
  obtain ⟨hc4, _, _, _⟩ := code_facts code s hs
  cases hd : decodeB64 code with
  | none => rw [hd] at h1; simp at h1
  | some b =>
    rw [hd] at h1
    simp only at h1
    have hw : wiff b = .ok true := by
      cases hwb : wiff b with
      | error e => rw [hwb] at h1; simp at h1
      | ok r => cases r <;> simp_all
    exact ⟨b, rfl, (code_b2_roundtrip code b [] hc4 hd).1, hw, fun rest => (code_b2_roundtrip code b rest hc4 hd).2⟩

theorem decodeB64_length : ∀ (t b : Bytes), decodeB64 t = some b → 4 * b.length = 3 * t.length
  | [], b, h => by simp [decodeB64] at h; subst h; rfl
  | [_], b, h => by simp [decodeB64] at h
  | [_, _], b, h => by simp [decodeB64] at h
  | [_, _, _], b, h => by simp [decodeB64] at h
  | c0 :: c1 :: c2 :: c3 :: rest, b, h => by
    simp only [decodeB64] at h
    split at h
    · rename_i s0 s1 s2 s3 r _ _ _ _ hr
      cases h
      have := decodeB64_length rest r hr
      simp only [List.length_cons]; omega
    · simp at h

/-- `urlsafe_b64encode(urlsafe_b64decode(t)) == t` on the strict domain (alphabet only, length a multiple of 4) -/
theorem encode_decode : ∀ (t b : Bytes), decodeB64 t = some b → encodeB64 b = t
  | [], b, h => by simp [decodeB64] at h; subst h; rfl
  | [_], b, h => by simp [decodeB64] at h
  | [_, _], b, h => by simp [decodeB64] at h
  | [_, _, _], b, h => by simp [decodeB64] at h
  | c0 :: c1 :: c2 :: c3 :: rest, b, h => by
    simp only [decodeB64] at h
    split at h
    · rename_i s0 s1 s2 s3 r h0 h1 h2 h3 hr
      cases h
      have ih := encode_decode rest r hr
      obtain ⟨_, l0, k0⟩ := stdIdx_spec c0 s0 h0
      obtain ⟨_, l1, k1⟩ := stdIdx_spec c1 s1 h1
      obtain ⟨_, l2, k2⟩ := stdIdx_spec c2 s2 h2
      obtain ⟨_, l3, k3⟩ := stdIdx_spec c3 s3 h3
      have e0 : (s0 * 4 + s1 / 16) / 4 = s0 := by omega
      have e1 : (s0 * 4 + s1 / 16) % 4 * 16 + (s1 % 16 * 16 + s2 / 4) / 16 = s1 := by omega
      have e2 : (s1 % 16 * 16 + s2 / 4) % 16 * 4 + (s2 % 4 * 64 + s3) / 64 = s2 := by omega
      have e3 : (s2 % 4 * 64 + s3) % 64 = s3 := by omega
      simp only [encodeB64, e0, e1, e2, e3, k0, k1, k2, k3, ih]
    · simp at h

/-- regenerated table fact about every (zeroth, later) code pair: same number / mid widths, the count field can hold `MaxGramCount`,
the zeroth code is in `ZeroDex`, the later one in `GramDex` only -/
def pairOk (p : Bytes × Bytes) : Bool :=
  match sizesOf p.1, sizesOf p.2 with
  | .ok zs, .ok ns =>
    ns.nz == zs.nz && ns.mz == zs.mz && decide (1 ≤ zs.nz) && decide (Gen.maxGramCount < 64 ^ zs.nz) && decide (1 ≤ Gen.maxGramCount) &&
      Gen.zeroDex.contains p.1 && !Gen.zeroDex.contains p.2 && Gen.gramDex.contains p.2 && decide (zs.mz % 4 = 0) &&
      ns.az == zs.az && ns.vz == 0 && (zs.az == 0 || (Gen.authDex.contains p.1 && Gen.authDex.contains p.2)) &&
      (zs.az == 0 || zs.scale.az != 0) && (zs.vz == 0 || zs.scale.vz != 0) && decide (zs.vz % 4 = 0)
  | _, _ => false

theorem pairs_table : ∀ p ∈ Gen.memoPairs, pairOk p = true := by decide

theorem pair_facts (code ncode : Bytes) (zs ns : Sizage) (hp : lookupPair code = .ok ncode) (hzs : sizesOf code = .ok zs) (hns : sizesOf ncode = .ok ns) :
    ns.nz = zs.nz ∧ ns.mz = zs.mz ∧ 1 ≤ zs.nz ∧ Gen.maxGramCount < 64 ^ zs.nz ∧ 1 ≤ Gen.maxGramCount ∧
      Gen.zeroDex.contains code = true ∧ Gen.zeroDex.contains ncode = false ∧ Gen.gramDex.contains ncode = true ∧ zs.mz % 4 = 0 ∧
      ns.az = zs.az ∧ ns.vz = 0 ∧ (zs.az ≠ 0 → Gen.authDex.contains code = true ∧ Gen.authDex.contains ncode = true) ∧
      (zs.az ≠ 0 → zs.scale.az ≠ 0) ∧ (zs.vz ≠ 0 → zs.scale.vz ≠ 0) ∧ zs.vz % 4 = 0 := by
  have hmem : (code, ncode) ∈ Gen.memoPairs := by
    unfold lookupPair at hp
    split at hp
    · rename_i c hl; cases hp; exact B64.lookup_mem _ _ _ hl
    · simp at hp
  have := pairs_table (code, ncode) hmem
  unfold pairOk at this
  simp only [hzs, hns] at this
  simp only [Bool.and_eq_true, beq_iff_eq, decide_eq_true_eq, Bool.not_eq_true'] at this
  obtain ⟨⟨⟨⟨⟨⟨⟨⟨⟨⟨⟨⟨⟨⟨h1, h2⟩, h3⟩, h4⟩, h5⟩, h6⟩, h7⟩, h8⟩, h9⟩, h10⟩, h11⟩, h12⟩, h13⟩, h14⟩, h15⟩ := this
  refine ⟨h1, h2, h3, h4, h5, h6, h7, h8, h9, h10, h11, ?_, ?_, ?_, h15⟩
  · intro hz
    simp only [Bool.or_eq_true, beq_iff_eq, Bool.and_eq_true] at h12
    rcases h12 with h | h
    · exact absurd h hz
    · exact h
  · intro hz
    simp only [Bool.or_eq_true, beq_iff_eq, bne_iff_ne, ne_eq] at h13
    rcases h13 with h | h
    · exact absurd h hz
    · exact h
  · intro hz
    simp only [Bool.or_eq_true, beq_iff_eq, bne_iff_ne, ne_eq] at h14
    rcases h14 with h | h
    · exact absurd h hz
    · exact h

end Hio.Memo
