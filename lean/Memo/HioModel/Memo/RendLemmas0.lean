import HioModel.Memo.Model
/-! Helper lemmas for `rend` (C20): splitting a memo into gram bodies. -/
namespace Hio.Memo

theorem chunks_nil (n f : Nat) : chunks n f [] = [] := by
  cases f <;> simp [chunks]

/-- with enough fuel and a positive chunk size the chunks concatenate back to the input -/
theorem chunks_flatten (n : Nat) (hn : 1 ≤ n) (f : Nat) (l : Bytes) (hf : l.length ≤ f) : (chunks n f l).flatten = l := by
  induction f generalizing l with
  | zero =>
    have : l = [] := List.length_eq_zero_iff.mp (by omega)
    subst this; simp [chunks]
  | succ f ih =>
    simp only [chunks]
    by_cases hl : l.isEmpty = true
    · simp only [hl, if_true]; have := List.isEmpty_iff.mp hl; subst this; rfl
    · simp only [hl, Bool.false_eq_true, if_false, List.flatten_cons]
      have hne : l ≠ [] := by intro h; simp [h] at hl
      have hpos : 0 < l.length := List.length_pos_iff.mpr hne
      rw [ih (l.drop n) (by simp; omega)]
      exact List.take_append_drop n l

theorem chunks_length (n : Nat) (hn : 1 ≤ n) (f : Nat) (l : Bytes) (hf : l.length ≤ f) :
    (chunks n f l).length = (l.length + n - 1) / n := by
  induction f generalizing l with
  | zero =>
    have : l = [] := List.length_eq_zero_iff.mp (by omega)
    subst this
    simp only [chunks, List.length_nil, Nat.zero_add]
    exact (Nat.div_eq_of_lt (by omega)).symm
  | succ f ih =>
    simp only [chunks]
    by_cases hl : l.isEmpty = true
    · simp only [hl, if_true]; have := List.isEmpty_iff.mp hl; subst this
      simp only [List.length_nil, Nat.zero_add]
      exact (Nat.div_eq_of_lt (by omega)).symm
    · simp only [hl, Bool.false_eq_true, if_false, List.length_cons]
      have hne : l ≠ [] := by intro h; simp [h] at hl
      have hpos : 0 < l.length := List.length_pos_iff.mpr hne
      rw [ih (l.drop n) (by simp; omega)]
      simp only [List.length_drop]
      by_cases hle : l.length ≤ n
      · have h1 : l.length - n = 0 := by omega
        rw [h1]
        have e1 : (0 + n - 1) / n = 0 := Nat.div_eq_of_lt (by omega)
        have e2 : (l.length + n - 1) / n = 1 := by
          apply Nat.div_eq_of_lt_le <;> omega
        omega
      · have e : l.length + n - 1 = (l.length - n + n - 1) + n := by omega
        rw [e, Nat.add_div_right _ (by omega : 0 < n)]

/-- every chunk is non-empty and at most `n` long -/
theorem chunks_bound (n : Nat) (hn : 1 ≤ n) (f : Nat) (l : Bytes) : ∀ c ∈ chunks n f l, c ≠ [] ∧ c.length ≤ n := by
  induction f generalizing l with
  | zero => intro c hc; simp [chunks] at hc
  | succ f ih =>
    intro c hc
    simp only [chunks] at hc
    by_cases hl : l.isEmpty = true
    · simp [hl] at hc
    · simp only [hl, Bool.false_eq_true, if_false, List.mem_cons] at hc
      have hne : l ≠ [] := by intro h; simp [h] at hl
      rcases hc with rfl | hc
      · constructor
        · intro h
          rcases List.take_eq_nil_iff.mp h with h | h
          · omega
          · exact hne h
        · simp [List.length_take]; omega
      · exact ih _ c hc

theorem bodies_flatten (zbz nbz : Nat) (memo : Bytes) (hn : 1 ≤ nbz ∨ memo.length ≤ zbz) :
    (bodies zbz nbz memo).flatten = memo := by
  unfold bodies
  by_cases hm : memo.isEmpty = true
  · simp only [hm, if_true]; have := List.isEmpty_iff.mp hm; subst this; rfl
  · simp only [hm, Bool.false_eq_true, if_false, List.flatten_cons]
    rcases hn with hn | hn
    · rw [chunks_flatten nbz hn memo.length (memo.drop zbz) (by simp)]
      exact List.take_append_drop zbz memo
    · have : memo.drop zbz = [] := List.drop_eq_nil_iff.mpr hn
      rw [this, chunks_nil]; simp [List.take_of_length_le hn]

theorem bodies_length (zbz nbz : Nat) (memo : Bytes) (hne : memo ≠ []) (hn : 1 ≤ nbz ∨ memo.length ≤ zbz) :
    (bodies zbz nbz memo).length = gramCount memo.length zbz nbz := by
  unfold bodies gramCount
  have hm : memo.isEmpty = false := by cases memo <;> simp_all
  simp only [hm, Bool.false_eq_true, if_false, List.length_cons]
  by_cases hle : memo.length ≤ zbz
  · have : memo.drop zbz = [] := List.drop_eq_nil_iff.mpr hle
    simp [this, chunks_nil, hle]
  · simp only [hle, if_false]
    rcases hn with hn | hn
    · rw [chunks_length nbz hn memo.length (memo.drop zbz) (by simp)]
      simp only [List.length_drop]; omega
    · exact absurd hn hle

/-- every body is non-empty; the zeroth is at most `zbz` long, the others at most `nbz` -/
theorem bodies_bound (zbz nbz : Nat) (memo : Bytes) (hz : 1 ≤ zbz) (hn : 1 ≤ nbz ∨ memo.length ≤ zbz) :
    ∀ b ∈ bodies zbz nbz memo, b ≠ [] ∧ b.length ≤ max zbz nbz := by
  unfold bodies
  by_cases hm : memo.isEmpty = true
  · simp [hm]
  · simp only [hm, Bool.false_eq_true, if_false]
    have hne : memo ≠ [] := by intro h; simp [h] at hm
    intro b hb
    rcases List.mem_cons.mp hb with rfl | hb
    · constructor
      · intro h
        rcases List.take_eq_nil_iff.mp h with h | h
        · omega
        · exact hne h
      · simp [List.length_take]; omega
    · rcases hn with hn | hn
      · have := chunks_bound nbz hn _ _ b hb
        exact ⟨this.1, by omega⟩
      · have : memo.drop zbz = [] := List.drop_eq_nil_iff.mpr hn
        rw [this, chunks_nil] at hb; cases hb


end Hio.Memo
