import HioModel.Memo.Model
/-! Helper lemmas for the transmit side (C21).  Property theorems live in `Props/C21.lean`. -/
namespace Hio.Memo

/-- what the sender still has to get rid of, head first: the remainder in `.txbs` (if any) then the queue -/
def heldG (st : Tx) : List (Bytes × Nat) :=
  (match st.txdst with
   | some d => [(st.txb, d)]
   | none => []) ++ st.txgs

/-- SPEC of one transport call against the list of held grams: the call must offer exactly the whole unsent head gram to
its destination; accepted bytes are removed from it (the gram is finished when nothing is left); the gram is given up only
on an errno of the regenerated unreachable table. `none` = not a legal transmission step. -/
def after (q : List (Bytes × Nat)) (e : TxEv) : Option (List (Bytes × Nat)) :=
  match q with
  | [] => none
  | (g, d) :: rest =>
    if e.dst = d ∧ e.offered = g then
      match e.res with
      | .err x => if Gen.txDropErrnos.contains x then some rest else none
      | .accept n =>
        let left := g.drop (min n g.length)
        some (if left.isEmpty then rest else (left, d) :: rest)
      | .block => some (if g.isEmpty then rest else (g, d) :: rest)
    else none

/-- SPEC of a whole log -/
def replay : List (Bytes × Nat) → List TxEv → Option (List (Bytes × Nat))
  | q, [] => some q
  | q, e :: es =>
    match after q e with
    | some q' => replay q' es
    | none => none

theorem replay_append (q : List (Bytes × Nat)) (a b : List TxEv) :
    replay q (a ++ b) = (replay q a).bind (fun q1 => replay q1 b) := by
  induction a generalizing q with
  | nil => rfl
  | cons e es ih =>
    simp only [List.cons_append, replay]
    cases after q e with
    | none => rfl
    | some q' => exact ih q'

theorem sendStep_replay (st : Tx) (g : Bytes) (d : Nat) (rest : List (Bytes × Nat)) (r : SendRes) (sc : List SendRes)
    (h : (sendStep st g d rest r sc).escaped = none) :
    replay ((g, d) :: rest) (sendStep st g d rest r sc).evs = some (heldG (sendStep st g d rest r sc).st) := by
  cases r with
  | err x =>
    by_cases hx : x ∈ Gen.txDropErrnos
    · simp [sendStep, hx, replay, after, heldG]
    · simp [sendStep, hx] at h
  | accept n =>
    by_cases hl : (List.drop (min n g.length) g).isEmpty = true
    · simp [sendStep, hl, replay, after, heldG]
    · simp [sendStep, hl, replay, after, heldG]
  | block =>
    by_cases hl : g.isEmpty = true
    · simp [sendStep, hl, replay, after, heldG]
    · simp [sendStep, hl, replay, after, heldG]

/-- one `_serviceOnceTxGrams` is a legal transmission step (or no step) -/
theorem once_replay (st : Tx) (sc : List SendRes) (h : (onceTx st sc).escaped = none) :
    replay (heldG st) (onceTx st sc).evs = some (heldG (onceTx st sc).st) := by
  obtain ⟨txgs, txb, txdst⟩ := st
  cases txdst with
  | some d =>
    simp only [onceTx] at h ⊢
    exact sendStep_replay _ _ _ _ _ _ h
  | none =>
    cases txgs with
    | nil => simp [onceTx, heldG, replay]
    | cons gd rest =>
      obtain ⟨g, d⟩ := gd
      simp only [onceTx] at h ⊢
      exact sendStep_replay _ _ _ _ _ _ h

theorem serviceOnce_replay (st : Tx) (sc : List SendRes) (h : (serviceTxGramsOnce st sc).escaped = none) :
    replay (heldG st) (serviceTxGramsOnce st sc).evs = some (heldG (serviceTxGramsOnce st sc).st) := by
  unfold serviceTxGramsOnce at h ⊢
  by_cases hp : st.pending = true
  · simp only [hp, if_true] at h ⊢; exact once_replay st sc h
  · simp [hp, replay]

theorem loop_replay (f : Nat) (st : Tx) (sc : List SendRes) (h : (loopTx f st sc).escaped = none) :
    replay (heldG st) (loopTx f st sc).evs = some (heldG (loopTx f st sc).st) := by
  induction f generalizing st sc with
  | zero => simp [loopTx, replay]
  | succ f ih =>
    unfold loopTx at h ⊢
    by_cases hp : st.pending = true
    · simp only [hp, if_true] at h ⊢
      by_cases hc : ((onceTx st sc).escaped.isSome || !(onceTx st sc).more) = true
      · simp only [hc, if_true] at h ⊢; exact once_replay st sc h
      · simp only [hc] at h ⊢
        simp only [Bool.false_eq_true, if_false] at h ⊢
        have h1 : (onceTx st sc).escaped = none := by
          cases he : (onceTx st sc).escaped with
          | none => rfl
          | some e => simp [he] at hc
        rw [replay_append, once_replay st sc h1]
        exact ih _ _ h
    · simp [hp, replay]

theorem replay_mono (q q' x : List (Bytes × Nat)) (evs : List TxEv) (h : replay q evs = some q') :
    replay (q ++ x) evs = some (q' ++ x) := by
  induction evs generalizing q with
  | nil => simp [replay] at h ⊢; rw [h]
  | cons e es ih =>
    cases q with
    | nil => simp [replay, after] at h
    | cons gd rest =>
      obtain ⟨g, d⟩ := gd
      simp only [replay] at h ⊢
      cases ha : after ((g, d) :: rest) e with
      | none => simp [ha] at h
      | some q1 =>
        rw [ha] at h
        have : after ((g, d) :: rest ++ x) e = some (q1 ++ x) := by
          simp only [after, List.cons_append] at ha ⊢
          by_cases hc : e.dst = d ∧ e.offered = g
          · simp only [hc, and_self, if_true] at ha ⊢
            cases hr : e.res with
            | err y =>
              rw [hr] at ha
              by_cases hy : Gen.txDropErrnos.contains y = true
              · simp only [hy, if_true] at ha ⊢; cases ha; rfl
              · simp only [hy] at ha; simp at ha
            | accept n =>
              rw [hr] at ha
              simp only at ha ⊢
              by_cases hl : (List.drop (min n g.length) g).isEmpty = true
              · simp only [hl, if_true] at ha ⊢; cases ha; rfl
              · simp only [hl] at ha ⊢; cases ha; rfl
            | block =>
              rw [hr] at ha
              simp only at ha ⊢
              by_cases hl : g.isEmpty = true
              · simp only [hl, if_true] at ha ⊢; cases ha; rfl
              · simp only [hl] at ha ⊢; cases ha; rfl
          · simp [hc] at ha
        rw [this]
        exact ih q1 h

/-- grams enqueued (`gramit`) during a history -/
def enqOf : List Call → List (Bytes × Nat)
  | [] => []
  | .enqueue g d :: cs => (g, d) :: enqOf cs
  | .greedy :: cs => enqOf cs
  | .once :: cs => enqOf cs

theorem serviceCall_replay (b : Bool) (st : Tx) (sc : List SendRes) (h : (serviceCall b st sc).escaped = none) :
    replay (heldG st) (serviceCall b st sc).evs = some (heldG (serviceCall b st sc).st) := by
  cases b with
  | true => exact loop_replay _ st sc h
  | false => exact serviceOnce_replay st sc h

theorem heldG_enqueue (st : Tx) (g : Bytes) (d : Nat) :
    heldG { st with txgs := st.txgs ++ [(g, d)] } = heldG st ++ [(g, d)] := by
  simp [heldG, List.append_assoc]

theorem runCalls_replay (cs : List Call) (st : Tx) (sc : List SendRes) (h : (runCalls cs st sc).escaped = none) :
    replay (heldG st ++ enqOf cs) (runCalls cs st sc).evs = some (heldG (runCalls cs st sc).st) := by
  induction cs generalizing st sc with
  | nil => simp [runCalls, enqOf, replay]
  | cons c cs ih =>
    cases c with
    | enqueue g d =>
      simp only [runCalls, enqOf] at h ⊢
      have := ih _ _ h
      rw [heldG_enqueue] at this
      simpa [List.append_assoc] using this
    | greedy =>
      simp only [runCalls, enqOf] at h ⊢
      cases he : (serviceCall true st sc).escaped with
      | some e => simp [he] at h
      | none =>
        simp only [he] at h ⊢
        rw [replay_append, replay_mono _ _ _ _ (serviceCall_replay true st sc he)]
        exact ih _ _ h
    | once =>
      simp only [runCalls, enqOf] at h ⊢
      cases he : (serviceCall false st sc).escaped with
      | some e => simp [he] at h
      | none =>
        simp only [he] at h ⊢
        rw [replay_append, replay_mono _ _ _ _ (serviceCall_replay false st sc he)]
        exact ih _ _ h

/-! ### bytes on the wire -/

def tagB (d : Nat) (bs : Bytes) : List (Nat × Nat) := bs.map (fun b => (d, b))

/-- destination-tagged bytes of a list of grams -/
def flatT : List (Bytes × Nat) → List (Nat × Nat)
  | [] => []
  | (g, d) :: rest => tagB d g ++ flatT rest

/-- bytes of one send call that the transport accepted -/
def acceptedT (e : TxEv) : List (Nat × Nat) :=
  match e.res with
  | .accept n => tagB e.dst (e.offered.take (min n e.offered.length))
  | .block => []
  | .err _ => []

/-- bytes given up by one send call (the rest of the gram when the destination is unreachable) -/
def droppedT (e : TxEv) : List (Nat × Nat) :=
  match e.res with
  | .err _ => tagB e.dst e.offered
  | .accept _ => []
  | .block => []

/-- the held bytes before = accepted-or-dropped bytes of each call, in order, then the held bytes after -/
def wire : List TxEv → List (Nat × Nat)
  | [] => []
  | e :: es => acceptedT e ++ droppedT e ++ wire es

theorem flatT_append (a b : List (Bytes × Nat)) : flatT (a ++ b) = flatT a ++ flatT b := by
  induction a with
  | nil => rfl
  | cons gd rest ih => obtain ⟨g, d⟩ := gd; simp [flatT, ih, List.append_assoc]

theorem tagB_take_drop (d : Nat) (g : Bytes) (k : Nat) : tagB d (g.take k) ++ tagB d (g.drop k) = tagB d g := by
  simp [tagB]

theorem after_bytes (q q' : List (Bytes × Nat)) (e : TxEv) (h : after q e = some q') :
    acceptedT e ++ droppedT e ++ flatT q' = flatT q := by
  cases q with
  | nil => simp [after] at h
  | cons gd rest =>
    obtain ⟨g, d⟩ := gd
    simp only [after] at h
    by_cases hc : e.dst = d ∧ e.offered = g
    · simp only [hc, and_self, if_true] at h
      obtain ⟨hd, ho⟩ := hc
      cases hr : e.res with
      | err y =>
        rw [hr] at h
        by_cases hy : Gen.txDropErrnos.contains y = true
        · simp only [hy, if_true] at h; cases h
          simp [acceptedT, droppedT, hr, flatT, hd, ho]
        · simp only [hy] at h; simp at h
      | accept n =>
        rw [hr] at h
        simp only at h
        by_cases hl : (List.drop (min n g.length) g).isEmpty = true
        · simp only [hl, if_true] at h; cases h
          have : List.drop (min n g.length) g = [] := List.isEmpty_iff.mp hl
          have h2 := tagB_take_drop d g (min n g.length)
          rw [this] at h2
          simp only [acceptedT, droppedT, hr, flatT, hd, ho, List.append_nil]
          simp only [tagB, List.map_nil, List.append_nil] at h2 ⊢
          rw [h2]
        · simp only [hl] at h; cases h
          simp only [acceptedT, droppedT, hr, flatT, hd, ho, List.append_nil, Bool.false_eq_true, if_false]
          rw [← List.append_assoc, tagB_take_drop]
      | block =>
        rw [hr] at h
        simp only at h
        by_cases hl : g.isEmpty = true
        · simp only [hl, if_true] at h; cases h
          have : g = [] := List.isEmpty_iff.mp hl
          simp [acceptedT, droppedT, hr, flatT, this, tagB]
        · simp only [hl] at h; cases h
          simp [acceptedT, droppedT, hr, flatT]
    · simp [hc] at h

theorem replay_bytes (q q' : List (Bytes × Nat)) (evs : List TxEv) (h : replay q evs = some q') :
    wire evs ++ flatT q' = flatT q := by
  induction evs generalizing q with
  | nil => simp [replay] at h; simp [wire, h]
  | cons e es ih =>
    simp only [replay] at h
    cases ha : after q e with
    | none => simp [ha] at h
    | some q1 =>
      rw [ha] at h
      have h1 := ih q1 h
      have h2 := after_bytes q q1 e ha
      simp only [wire, List.append_assoc] at h2 ⊢
      rw [h1]; exact h2

/-- in a legal log a gram is given up only on an errno of the unreachable table -/
theorem replay_drop_errno (q q' : List (Bytes × Nat)) (evs : List TxEv) (h : replay q evs = some q') :
    ∀ e ∈ evs, ∀ x, e.res = .err x → x ∈ Gen.txDropErrnos := by
  induction evs generalizing q with
  | nil => intro e he; cases he
  | cons e0 es ih =>
    simp only [replay] at h
    cases ha : after q e0 with
    | none => simp [ha] at h
    | some q1 =>
      rw [ha] at h
      intro e he x hx
      rcases List.mem_cons.mp he with rfl | he
      · cases q with
        | nil => simp [after] at ha
        | cons gd rest =>
          obtain ⟨g, d⟩ := gd
          simp only [after] at ha
          by_cases hc : e.dst = d ∧ e.offered = g
          · simp only [hc, and_self, if_true, hx] at ha
            by_cases hy : Gen.txDropErrnos.contains x = true
            · simpa using hy
            · simp only [hy] at ha; simp at ha
          · simp [hc] at ha
      · exact ih q1 h e he x hx

/-! ### which exceptions escape -/

/-- the transport never raises an errno outside the unreachable table -/
def ScriptOk (sc : List SendRes) : Prop := ∀ x, SendRes.err x ∈ sc → x ∈ Gen.txDropErrnos

theorem nextRes_mem (sc : List SendRes) (len x : Nat) (h : nextRes sc len = .err x) : SendRes.err x ∈ sc := by
  cases sc with
  | nil => simp [nextRes] at h
  | cons r rs => simp [nextRes] at h; simp [h]

theorem ScriptOk_tail {sc : List SendRes} (h : ScriptOk sc) : ScriptOk sc.tail := by
  intro x hx; exact h x (List.mem_of_mem_tail hx)

theorem sendStep_escaped (st : Tx) (g : Bytes) (d : Nat) (rest : List (Bytes × Nat)) (r : SendRes) (sc : List SendRes) (e : Exn)
    (h : (sendStep st g d rest r sc).escaped = some e) : ∃ x, e = .osError x ∧ x ∉ Gen.txDropErrnos ∧ r = .err x := by
  cases r with
  | err x =>
    by_cases hx : x ∈ Gen.txDropErrnos
    · simp [sendStep, hx] at h
    · simp [sendStep, hx] at h; exact ⟨x, h.symm, hx, rfl⟩
  | accept n =>
    by_cases hl : (List.drop (min n g.length) g).isEmpty = true <;> simp [sendStep, hl] at h
  | block =>
    by_cases hl : g.isEmpty = true <;> simp [sendStep, hl] at h

theorem sendStep_script (st : Tx) (g : Bytes) (d : Nat) (rest : List (Bytes × Nat)) (r : SendRes) (sc : List SendRes) :
    (sendStep st g d rest r sc).script = sc := by
  cases r with
  | err x => by_cases hx : x ∈ Gen.txDropErrnos <;> simp [sendStep, hx]
  | accept n => by_cases hl : (List.drop (min n g.length) g).isEmpty = true <;> simp [sendStep, hl]
  | block => by_cases hl : g.isEmpty = true <;> simp [sendStep, hl]

theorem once_escaped (st : Tx) (sc : List SendRes) (e : Exn) (h : (onceTx st sc).escaped = some e) :
    ∃ x, e = .osError x ∧ x ∉ Gen.txDropErrnos ∧ SendRes.err x ∈ sc := by
  obtain ⟨txgs, txb, txdst⟩ := st
  cases txdst with
  | some d =>
    simp only [onceTx] at h
    obtain ⟨x, h1, h2, h3⟩ := sendStep_escaped _ _ _ _ _ _ _ h
    exact ⟨x, h1, h2, nextRes_mem _ _ _ h3⟩
  | none =>
    cases txgs with
    | nil => simp [onceTx] at h
    | cons gd rest =>
      obtain ⟨g, d⟩ := gd
      simp only [onceTx] at h
      obtain ⟨x, h1, h2, h3⟩ := sendStep_escaped _ _ _ _ _ _ _ h
      exact ⟨x, h1, h2, nextRes_mem _ _ _ h3⟩

/-- the script after one step is the script itself (no send was made) or its tail -/
theorem once_script (st : Tx) (sc : List SendRes) : (onceTx st sc).script = sc ∨ (onceTx st sc).script = sc.tail := by
  obtain ⟨txgs, txb, txdst⟩ := st
  cases txdst with
  | some d => right; simp only [onceTx]; exact sendStep_script _ _ _ _ _ _
  | none =>
    cases txgs with
    | nil => left; simp [onceTx]
    | cons gd rest => obtain ⟨g, d⟩ := gd; right; simp only [onceTx]; exact sendStep_script _ _ _ _ _ _

theorem mem_of_once_script (st : Tx) (sc : List SendRes) (r : SendRes) (h : r ∈ (onceTx st sc).script) : r ∈ sc := by
  rcases once_script st sc with h1 | h1 <;> rw [h1] at h
  · exact h
  · exact List.mem_of_mem_tail h

theorem once_script_le (st : Tx) (sc : List SendRes) : (onceTx st sc).script.length ≤ sc.length := by
  rcases once_script st sc with h1 | h1 <;> rw [h1] <;> simp

theorem loop_escaped (f : Nat) (st : Tx) (sc : List SendRes) (e : Exn) (h : (loopTx f st sc).escaped = some e) :
    ∃ x, e = .osError x ∧ x ∉ Gen.txDropErrnos ∧ SendRes.err x ∈ sc := by
  induction f generalizing st sc with
  | zero => simp [loopTx] at h
  | succ f ih =>
    unfold loopTx at h
    by_cases hp : st.pending = true
    · simp only [hp, if_true] at h
      by_cases hc : ((onceTx st sc).escaped.isSome || !(onceTx st sc).more) = true
      · simp only [hc, if_true] at h; exact once_escaped st sc e h
      · simp only [hc, Bool.false_eq_true, if_false] at h
        obtain ⟨x, h1, h2, h3⟩ := ih _ _ h
        exact ⟨x, h1, h2, mem_of_once_script st sc _ h3⟩
    · simp [hp] at h

theorem loop_script_mem (f : Nat) (st : Tx) (sc : List SendRes) (r : SendRes) (h : r ∈ (loopTx f st sc).script) : r ∈ sc := by
  induction f generalizing st sc with
  | zero => simpa [loopTx] using h
  | succ f ih =>
    unfold loopTx at h
    by_cases hp : st.pending = true
    · simp only [hp, if_true] at h
      by_cases hc : ((onceTx st sc).escaped.isSome || !(onceTx st sc).more) = true
      · simp only [hc, if_true] at h; exact mem_of_once_script st sc r h
      · simp only [hc, Bool.false_eq_true, if_false] at h
        exact mem_of_once_script st sc r (ih _ _ h)
    · simpa [hp] using h

theorem serviceCall_escaped (b : Bool) (st : Tx) (sc : List SendRes) (e : Exn) (h : (serviceCall b st sc).escaped = some e) :
    ∃ x, e = .osError x ∧ x ∉ Gen.txDropErrnos ∧ SendRes.err x ∈ sc := by
  cases b with
  | true => exact loop_escaped _ st sc e h
  | false =>
    simp only [serviceCall, serviceTxGramsOnce, Bool.false_eq_true, if_false] at h
    by_cases hp : st.pending = true
    · simp only [hp, if_true] at h; exact once_escaped st sc e h
    · simp [hp] at h

theorem serviceCall_script_mem (b : Bool) (st : Tx) (sc : List SendRes) (r : SendRes) (h : r ∈ (serviceCall b st sc).script) : r ∈ sc := by
  cases b with
  | true => exact loop_script_mem _ st sc r h
  | false =>
    simp only [serviceCall, serviceTxGramsOnce, Bool.false_eq_true, if_false] at h
    by_cases hp : st.pending = true
    · simp only [hp, if_true] at h; exact mem_of_once_script st sc r h
    · simpa [hp] using h

theorem runCalls_escaped (cs : List Call) (st : Tx) (sc : List SendRes) (e : Exn) (h : (runCalls cs st sc).escaped = some e) :
    ∃ x, e = .osError x ∧ x ∉ Gen.txDropErrnos ∧ SendRes.err x ∈ sc := by
  induction cs generalizing st sc with
  | nil => simp [runCalls] at h
  | cons c cs ih =>
    cases c with
    | enqueue g d => simp only [runCalls] at h; exact ih _ _ h
    | greedy =>
      simp only [runCalls] at h
      cases he : (serviceCall true st sc).escaped with
      | some e1 => simp only [he] at h; cases h; exact serviceCall_escaped true st sc _ he
      | none =>
        simp only [he] at h
        obtain ⟨x, h1, h2, h3⟩ := ih _ _ h
        exact ⟨x, h1, h2, serviceCall_script_mem true st sc _ h3⟩
    | once =>
      simp only [runCalls] at h
      cases he : (serviceCall false st sc).escaped with
      | some e1 => simp only [he] at h; cases h; exact serviceCall_escaped false st sc _ he
      | none =>
        simp only [he] at h
        obtain ⟨x, h1, h2, h3⟩ := ih _ _ h
        exact ⟨x, h1, h2, serviceCall_script_mem false st sc _ h3⟩

/-! ### progress, fuel, liveness -/

/-- loop measure: every continuing iteration takes a gram off the queue or clears the remainder -/
def mu (st : Tx) : Nat := 2 * st.txgs.length + (if st.txdst.isSome then 1 else 0)

theorem sendStep_more (st : Tx) (g : Bytes) (d : Nat) (rest : List (Bytes × Nat)) (r : SendRes) (sc : List SendRes)
    (h : (sendStep st g d rest r sc).more = true) :
    (sendStep st g d rest r sc).st.txgs = rest ∧ (sendStep st g d rest r sc).st.txdst = none := by
  cases r with
  | err x => by_cases hx : x ∈ Gen.txDropErrnos <;> simp [sendStep, hx] at h ⊢
  | accept n => by_cases hl : (List.drop (min n g.length) g).isEmpty = true <;> simp [sendStep, hl] at h ⊢
  | block => by_cases hl : g.isEmpty = true <;> simp [sendStep, hl] at h ⊢

theorem sendStep_evs (st : Tx) (g : Bytes) (d : Nat) (rest : List (Bytes × Nat)) (r : SendRes) (sc : List SendRes) :
    (sendStep st g d rest r sc).evs = [⟨d, g, r⟩] := by
  cases r with
  | err x => by_cases hx : x ∈ Gen.txDropErrnos <;> simp [sendStep, hx]
  | accept n => by_cases hl : (List.drop (min n g.length) g).isEmpty = true <;> simp [sendStep, hl]
  | block => by_cases hl : g.isEmpty = true <;> simp [sendStep, hl]

theorem once_more_mu (st : Tx) (sc : List SendRes) (hm : (onceTx st sc).more = true) : mu (onceTx st sc).st < mu st := by
  obtain ⟨txgs, txb, txdst⟩ := st
  cases txdst with
  | some d =>
    simp only [onceTx] at hm ⊢
    obtain ⟨h1, h2⟩ := sendStep_more _ _ _ _ _ _ hm
    simp [mu, h1, h2]
  | none =>
    cases txgs with
    | nil => simp [onceTx] at hm
    | cons gd rest =>
      obtain ⟨g, d⟩ := gd
      simp only [onceTx] at hm ⊢
      obtain ⟨h1, h2⟩ := sendStep_more _ _ _ _ _ _ hm
      simp [mu, h1, h2]

/-- any fuel above the measure gives the same result: the bound in `serviceTxGrams` is never the reason to stop -/
theorem loop_fuel (f g : Nat) (st : Tx) (sc : List SendRes) (hf : mu st < f) (hg : mu st < g) :
    loopTx f st sc = loopTx g st sc := by
  induction f generalizing g st sc with
  | zero => omega
  | succ f ih =>
    cases g with
    | zero => omega
    | succ g =>
      unfold loopTx
      by_cases hp : st.pending = true
      · simp only [hp, if_true]
        by_cases hc : ((onceTx st sc).escaped.isSome || !(onceTx st sc).more) = true
        · simp only [hc, if_true]
        · simp only [hc, Bool.false_eq_true, if_false]
          have hm : (onceTx st sc).more = true := by
            cases h : (onceTx st sc).more with
            | true => rfl
            | false => simp [h] at hc
          have := once_more_mu st sc hm
          rw [ih g _ _ (by omega) (by omega)]
      · simp [hp]

theorem serviceTxGrams_fuel (f : Nat) (st : Tx) (sc : List SendRes) (hf : 2 * st.txgs.length + 2 ≤ f) :
    loopTx f st sc = serviceTxGrams st sc := by
  unfold serviceTxGrams
  apply loop_fuel
  · unfold mu; split <;> omega
  · unfold mu; split <;> omega

/-- a step that leaves work behind consumed a script entry: the exhausted script (accept everything) always completes -/
theorem once_incomplete_consumes (st : Tx) (sc : List SendRes) (hp : st.pending = true) (hm : (onceTx st sc).more = false) :
    (onceTx st sc).script.length < sc.length := by
  obtain ⟨txgs, txb, txdst⟩ := st
  have key : ∀ (g : Bytes) (d : Nat) (rest : List (Bytes × Nat)) (st0 : Tx),
      (sendStep st0 g d rest (nextRes sc g.length) sc.tail).more = false →
      (sendStep st0 g d rest (nextRes sc g.length) sc.tail).script.length < sc.length := by
    intro g d rest st0 h
    rw [sendStep_script]
    cases sc with
    | nil => simp [nextRes, sendStep] at h
    | cons r rs => simp
  cases txdst with
  | some d => simp only [onceTx] at hm ⊢; exact key _ _ _ _ hm
  | none =>
    cases txgs with
    | nil => simp [Tx.pending] at hp
    | cons gd rest => obtain ⟨g, d⟩ := gd; simp only [onceTx] at hm ⊢; exact key _ _ _ _ hm

theorem once_evs_of_pending (st : Tx) (sc : List SendRes) (hp : st.pending = true) : (onceTx st sc).evs ≠ [] := by
  obtain ⟨txgs, txb, txdst⟩ := st
  cases txdst with
  | some d => simp only [onceTx]; rw [sendStep_evs]; simp
  | none =>
    cases txgs with
    | nil => simp [Tx.pending] at hp
    | cons gd rest => obtain ⟨g, d⟩ := gd; simp only [onceTx]; rw [sendStep_evs]; simp

theorem loop_script_le (f : Nat) (st : Tx) (sc : List SendRes) : (loopTx f st sc).script.length ≤ sc.length := by
  induction f generalizing st sc with
  | zero => simp [loopTx]
  | succ f ih =>
    unfold loopTx
    by_cases hp : st.pending = true
    · simp only [hp, if_true]
      by_cases hc : ((onceTx st sc).escaped.isSome || !(onceTx st sc).more) = true
      · simp only [hc, if_true]; exact once_script_le st sc
      · simp only [hc, Bool.false_eq_true, if_false]
        exact Nat.le_trans (ih _ _) (once_script_le st sc)
    · simp [hp]

/-- a greedy call ends with nothing pending, or with an escaped exception, or having consumed at least one script entry -/
theorem loop_progress (f : Nat) (st : Tx) (sc : List SendRes) (hf : mu st < f) :
    (loopTx f st sc).st.pending = false ∨ (loopTx f st sc).escaped.isSome = true ∨ (loopTx f st sc).script.length < sc.length := by
  induction f generalizing st sc with
  | zero => omega
  | succ f ih =>
    unfold loopTx
    by_cases hp : st.pending = true
    · simp only [hp, if_true]
      by_cases hc : ((onceTx st sc).escaped.isSome || !(onceTx st sc).more) = true
      · simp only [hc, if_true]
        cases he : (onceTx st sc).escaped.isSome with
        | true => right; left; rfl
        | false =>
          right; right
          have hm : (onceTx st sc).more = false := by
            cases h : (onceTx st sc).more with
            | false => rfl
            | true => simp [he, h] at hc
          exact once_incomplete_consumes st sc hp hm
      · simp only [hc, Bool.false_eq_true, if_false]
        have hm : (onceTx st sc).more = true := by
          cases h : (onceTx st sc).more with
          | true => rfl
          | false => simp [h] at hc
        have hlt := once_more_mu st sc hm
        rcases ih (onceTx st sc).st (onceTx st sc).script (by omega) with h | h | h
        · left; exact h
        · right; left; exact h
        · right; right; exact Nat.lt_of_lt_of_le h (once_script_le st sc)
    · left; simp [hp]

theorem loop_evs_of_pending (f : Nat) (st : Tx) (sc : List SendRes) (hp : st.pending = true) : (loopTx (f + 1) st sc).evs ≠ [] := by
  unfold loopTx
  simp only [hp, if_true]
  by_cases hc : ((onceTx st sc).escaped.isSome || !(onceTx st sc).more) = true
  · simp only [hc, if_true]; exact once_evs_of_pending st sc hp
  · simp only [hc, Bool.false_eq_true, if_false]
    intro h
    exact once_evs_of_pending st sc hp (List.append_eq_nil_iff.mp h).1

theorem greedy_idle (st : Tx) (sc : List SendRes) (hp : st.pending = false) :
    serviceCall true st sc = ⟨false, st, sc, [], none⟩ := by
  simp [serviceCall, serviceTxGrams, loopTx, hp]

theorem runGreedy_idle (n : Nat) (st : Tx) (sc : List SendRes) (hp : st.pending = false) :
    (runCalls (List.replicate n Call.greedy) st sc).st = st ∧ (runCalls (List.replicate n Call.greedy) st sc).escaped = none := by
  induction n with
  | zero => simp [runCalls]
  | succ n ih =>
    simp only [List.replicate_succ, runCalls, greedy_idle st sc hp]
    exact ih

theorem ScriptOk_of_mem {sc sc' : List SendRes} (h : ScriptOk sc) (hs : ∀ r ∈ sc', r ∈ sc) : ScriptOk sc' :=
  fun x hx => h x (hs _ hx)

theorem serviceCall_no_escape (b : Bool) (st : Tx) (sc : List SendRes) (h : ScriptOk sc) : (serviceCall b st sc).escaped = none := by
  cases he : (serviceCall b st sc).escaped with
  | none => rfl
  | some e =>
    obtain ⟨x, _, h2, h3⟩ := serviceCall_escaped b st sc e he
    exact absurd (h x h3) h2

/-- after `|script| + 1` greedy service calls nothing is pending -/
theorem greedy_drains (n : Nat) (st : Tx) (sc : List SendRes) (hok : ScriptOk sc) (hn : sc.length < n) :
    (runCalls (List.replicate n Call.greedy) st sc).escaped = none ∧
      (runCalls (List.replicate n Call.greedy) st sc).st.pending = false := by
  induction n generalizing st sc with
  | zero => omega
  | succ n ih =>
    have he := serviceCall_no_escape true st sc hok
    simp only [List.replicate_succ, runCalls, he]
    have hmu : mu st < 2 * st.txgs.length + 2 := by unfold mu; split <;> omega
    have hok' : ScriptOk (serviceCall true st sc).script :=
      ScriptOk_of_mem hok (fun r hr => serviceCall_script_mem true st sc r hr)
    rcases loop_progress (2 * st.txgs.length + 2) st sc hmu with h | h | h
    · have h' : (serviceCall true st sc).st.pending = false := h
      obtain ⟨h1, h2⟩ := runGreedy_idle n _ (serviceCall true st sc).script h'
      exact ⟨h2, by rw [h1]; exact h'⟩
    · have : (serviceCall true st sc).escaped.isSome = true := h
      rw [he] at this; simp at this
    · have h' : (serviceCall true st sc).script.length < sc.length := h
      exact ih _ _ hok' (by omega)

end Hio.Memo
