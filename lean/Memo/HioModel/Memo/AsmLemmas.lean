import HioModel.Memo.RxLemmas
import Mathlib.Data.List.Nodup
/-! Reassembly lemmas (C20): the receiver state seen from ONE memo, under any delivery sequence. -/
namespace Hio.Memo

/-- `_serviceOneReceived` for a sequence of datagrams that `pick` accepted: store the parsed grams in order -/
def storeAll : List (PG × Nat) → List Entry → List Entry
  | [], es => es
  | (p, s) :: ps, es => storeAll ps (store p s es)

def Entry.upd (e : Entry) (p : PG) : Entry :=
  { e with grams := if (e.grams.lookup p.gn).isSome then e.grams else e.grams ++ [(p.gn, p.body)],
           count := match e.count with
             | some c => some c
             | none => p.gc }

def Entry.fresh (p : PG) (src : Nat) : Entry :=
  { mid := p.mid, grams := [(p.gn, p.body)], count := p.gc, vid := p.vid, src := src }

theorem findEntry_store_ne (p : PG) (s : Nat) (es : List Entry) (mid : Bytes) (h : p.mid ≠ mid) :
    findEntry mid (store p s es) = findEntry mid es := by
  induction es with
  | nil => simp [store, findEntry, h]
  | cons e es ih =>
    simp only [store]
    by_cases hm : e.mid = p.mid
    · have : e.mid ≠ mid := by rw [hm]; exact h
      simp [hm, findEntry, h]
    · simp only [hm, if_false, findEntry]
      by_cases h2 : e.mid = mid
      · simp [h2]
      · simp [h2, ih]

theorem findEntry_store_eq (p : PG) (s : Nat) (es : List Entry) :
    findEntry p.mid (store p s es) = some (match findEntry p.mid es with
      | none => Entry.fresh p s
      | some e => e.upd p) := by
  induction es with
  | nil => simp [store, findEntry, Entry.fresh]
  | cons e es ih =>
    simp only [store]
    by_cases hm : e.mid = p.mid
    · simp only [hm, if_true, findEntry, Entry.upd]
      generalize e.count = c
      cases c <;> rfl
    · simp [hm, findEntry, ih]

def MidsNodup (es : List Entry) : Prop := (es.map (·.mid)).Nodup

theorem store_mids (p : PG) (s : Nat) (es : List Entry) :
    (store p s es).map (·.mid) = if p.mid ∈ es.map (·.mid) then es.map (·.mid) else es.map (·.mid) ++ [p.mid] := by
  induction es with
  | nil => simp [store]
  | cons e es ih =>
    simp only [store]
    by_cases hm : e.mid = p.mid
    · simp [hm]
    · have hm' : ¬ p.mid = e.mid := fun h => hm h.symm
      simp only [hm, if_false, List.map_cons, ih, List.mem_cons, hm', false_or]
      split <;> simp

theorem store_nodup (p : PG) (s : Nat) (es : List Entry) (h : MidsNodup es) : MidsNodup (store p s es) := by
  unfold MidsNodup at h ⊢
  rw [store_mids]
  split
  · exact h
  · rename_i hn
    exact List.Nodup.append h (List.nodup_singleton _) (by
      intro a ha hb
      simp only [List.mem_singleton] at hb
      subst hb; exact hn ha)

theorem storeAll_nodup (seq : List (PG × Nat)) (es : List Entry) (h : MidsNodup es) : MidsNodup (storeAll seq es) := by
  induction seq generalizing es with
  | nil => exact h
  | cons x xs ih => obtain ⟨p, s⟩ := x; exact ih _ (store_nodup p s es h)

theorem findEntry_none_of_not_mem (mid : Bytes) (es : List Entry) (h : mid ∉ es.map (·.mid)) : findEntry mid es = none := by
  induction es with
  | nil => rfl
  | cons a as ih =>
    simp only [List.map_cons, List.mem_cons, not_or] at h
    have : a.mid ≠ mid := fun h' => h.1 h'.symm
    simp only [findEntry, this, if_false]
    exact ih h.2

theorem findEntry_filter (f : Entry → Bool) (mid : Bytes) (es : List Entry) (h : MidsNodup es) :
    findEntry mid (es.filter f) = match findEntry mid es with
      | some e => if f e then some e else none
      | none => none := by
  induction es with
  | nil => simp [findEntry]
  | cons e es ih =>
    have h' : MidsNodup es := by unfold MidsNodup at h ⊢; exact (List.nodup_cons.mp h).2
    have hnot : e.mid ∉ es.map (·.mid) := by unfold MidsNodup at h; exact (List.nodup_cons.mp h).1
    by_cases hm : e.mid = mid
    · have hnone : findEntry mid es = none := by
        subst hm; exact findEntry_none_of_not_mem _ _ hnot
      by_cases hf : f e = true
      · simp [List.filter, hf, findEntry, hm]
      · simp only [List.filter, hf, findEntry, hm, if_true]
        rw [ih h', hnone]; simp
    · by_cases hf : f e = true
      · simp [List.filter, hf, findEntry, hm, ih h']
      · simp [List.filter, hf, findEntry, hm, ih h']

/-! ### one memo -/

/-- a memo as the sender cut it: its id, the bodies of its grams in order, its source and signer id -/
structure SMemo where
  mid : Bytes
  bodies : List Bytes
  src : Nat
  vid : Option Bytes

/-- the parsed form of gram `i` of the memo: the zeroth carries the count, the others their number -/
def SMemo.gram (S : SMemo) (i : Nat) : PG :=
  ⟨S.mid, S.vid, i, if i = 0 then some S.bodies.length else none, S.bodies.getD i []⟩

/-- in the delivery sequence everything that bears the memo's id is one of its genuine grams from its source
(grams of other memo ids are arbitrary) -/
def Genuine (S : SMemo) (seq : List (PG × Nat)) : Prop :=
  ∀ x ∈ seq, x.1.mid = S.mid → ∃ i, i < S.bodies.length ∧ x = (S.gram i, S.src)

/-- gram numbers of the memo that occur in the sequence -/
def idx (S : SMemo) (seq : List (PG × Nat)) : List Nat :=
  seq.filterMap (fun x => if x.1.mid = S.mid then some x.1.gn else none)

def hasKey (e : Entry) (j : Nat) : Prop := (e.grams.lookup j).isSome = true

structure GoodEntry (S : SMemo) (e : Entry) : Prop where
  mid : e.mid = S.mid
  src : e.src = S.src
  vid : e.vid = S.vid
  grams : ∀ i b, e.grams.lookup i = some b → i < S.bodies.length ∧ b = S.bodies.getD i []
  count : e.count = if (e.grams.lookup 0).isSome then some S.bodies.length else none

theorem good_fresh (S : SMemo) (i : Nat) (hi : i < S.bodies.length) : GoodEntry S (Entry.fresh (S.gram i) S.src) := by
  refine ⟨rfl, rfl, rfl, ?_, ?_⟩
  · intro j b h
    simp only [Entry.fresh, SMemo.gram, List.lookup] at h
    split at h
    · rename_i heq; cases h
      have : j = i := by simpa using heq
      subst this; exact ⟨hi, rfl⟩
    · simp at h
  · simp only [Entry.fresh, SMemo.gram, List.lookup]
    by_cases h0 : i = 0
    · subst h0; simp
    · have : (0 == i) = false := by simp; omega
      simp [h0, this]

theorem lookup_snoc (l : List (Nat × Bytes)) (k i : Nat) (b : Bytes) :
    (l ++ [(i, b)]).lookup k = match l.lookup k with
      | some x => some x
      | none => if k = i then some b else none := by
  induction l with
  | nil =>
    simp only [List.nil_append, List.lookup]
    by_cases h : k = i
    · subst h; simp
    · have : (k == i) = false := by simpa using h
      simp [this, h]
  | cons a l ih =>
    obtain ⟨a1, a2⟩ := a
    simp only [List.cons_append, List.lookup]
    split
    · rfl
    · exact ih

theorem good_upd (S : SMemo) (e : Entry) (i : Nat) (hi : i < S.bodies.length) (h : GoodEntry S e) : GoodEntry S (e.upd (S.gram i)) := by
  obtain ⟨h1, h2, h3, h4, h5⟩ := h
  by_cases hp : (e.grams.lookup i).isSome = true
  · refine ⟨h1, h2, h3, ?_, ?_⟩
    · intro j b hj
      simp only [Entry.upd, SMemo.gram, hp, if_true] at hj
      exact h4 j b hj
    · simp only [Entry.upd, SMemo.gram, hp, if_true]
      cases h0 : e.grams.lookup 0 with
      | some x => rw [h5, h0]; simp
      | none =>
        rw [h5, h0]
        have hz : i ≠ 0 := by intro hz; subst hz; rw [h0] at hp; simp at hp
        simp [hz]
  · refine ⟨h1, h2, h3, ?_, ?_⟩
    · intro j b hj
      simp only [Entry.upd, SMemo.gram, hp, Bool.false_eq_true, if_false] at hj
      rw [lookup_snoc] at hj
      split at hj
      · rename_i x hx; cases hj; exact h4 j _ hx
      · split at hj
        · rename_i heq; cases hj; subst heq; exact ⟨hi, rfl⟩
        · simp at hj
    · simp only [Entry.upd, SMemo.gram, hp, Bool.false_eq_true, if_false]
      rw [lookup_snoc, h5]
      cases h0 : e.grams.lookup 0 with
      | some x => simp
      | none =>
        by_cases hz : i = 0
        · subst hz; simp
        · have : ¬ (0 = i) := fun h => hz h.symm
          simp [hz, this]

theorem hasKey_fresh (p : PG) (s j : Nat) : hasKey (Entry.fresh p s) j ↔ j = p.gn := by
  simp only [hasKey, Entry.fresh, List.lookup]
  by_cases h : j = p.gn
  · subst h; simp
  · have : (j == p.gn) = false := by simpa using h
    simp [this, h]

theorem hasKey_upd (e : Entry) (p : PG) (j : Nat) : hasKey (e.upd p) j ↔ hasKey e j ∨ j = p.gn := by
  simp only [hasKey, Entry.upd]
  by_cases hp : (e.grams.lookup p.gn).isSome = true
  · simp only [hp, if_true]
    constructor
    · intro h; left; exact h
    · rintro (h | h)
      · exact h
      · subst h; exact hp
  · simp only [hp, Bool.false_eq_true, if_false]
    rw [lookup_snoc]
    cases hj : e.grams.lookup j with
    | some x => simp
    | none =>
      by_cases h : j = p.gn
      · simp [h]
      · simp [h]

/-- the memo's entry, if any, is good -/
def SInv (S : SMemo) (es : List Entry) : Prop := ∀ e, findEntry S.mid es = some e → GoodEntry S e

/-- gram number `j` of the memo is held -/
def keyOf (S : SMemo) (es : List Entry) (j : Nat) : Prop := ∃ e, findEntry S.mid es = some e ∧ hasKey e j

theorem store_genuine (S : SMemo) (es : List Entry) (i : Nat) (hi : i < S.bodies.length) (h : SInv S es) :
    SInv S (store (S.gram i) S.src es) ∧ ∀ j, keyOf S (store (S.gram i) S.src es) j ↔ keyOf S es j ∨ j = i := by
  have hfe := findEntry_store_eq (S.gram i) S.src es
  have hmid : (S.gram i).mid = S.mid := rfl
  rw [hmid] at hfe
  constructor
  · intro e he
    rw [hfe] at he; cases he
    cases hf : findEntry S.mid es with
    | none => simp only; exact good_fresh S i hi
    | some e0 => simp only; exact good_upd S e0 i hi (h e0 hf)
  · intro j
    unfold keyOf
    rw [hfe]
    cases hf : findEntry S.mid es with
    | none =>
      simp only [Option.some.injEq, exists_eq_left']
      rw [hasKey_fresh]
      constructor
      · intro h; right; exact h
      · rintro (⟨e, he, _⟩ | h)
        · cases he
        · exact h
    | some e0 =>
      simp only [Option.some.injEq, exists_eq_left']
      rw [hasKey_upd]
      rfl

theorem store_other (S : SMemo) (es : List Entry) (p : PG) (s : Nat) (hp : p.mid ≠ S.mid) (h : SInv S es) :
    SInv S (store p s es) ∧ ∀ j, keyOf S (store p s es) j ↔ keyOf S es j := by
  have := findEntry_store_ne p s es S.mid hp
  constructor
  · intro e he; rw [this] at he; exact h e he
  · intro j; unfold keyOf; rw [this]

theorem storeAll_genuine (S : SMemo) (seq : List (PG × Nat)) (es : List Entry) (hg : Genuine S seq) (h : SInv S es) :
    SInv S (storeAll seq es) ∧ ∀ j, keyOf S (storeAll seq es) j ↔ keyOf S es j ∨ j ∈ idx S seq := by
  induction seq generalizing es with
  | nil => exact ⟨h, fun j => by simp [storeAll, idx]⟩
  | cons x xs ih =>
    obtain ⟨p, s⟩ := x
    have hg' : Genuine S xs := fun y hy => hg y (List.mem_cons_of_mem _ hy)
    simp only [storeAll]
    by_cases hm : p.mid = S.mid
    · obtain ⟨i, hi, hx⟩ := hg (p, s) (List.mem_cons_self) hm
      cases hx
      obtain ⟨h1, h2⟩ := store_genuine S es i hi h
      obtain ⟨h3, h4⟩ := ih _ hg' h1
      refine ⟨h3, ?_⟩
      intro j
      rw [h4, h2]
      have : idx S ((S.gram i, S.src) :: xs) = i :: idx S xs := by simp [idx, SMemo.gram]
      rw [this, List.mem_cons]
      constructor
      · rintro ((h | h) | h)
        · left; exact h
        · right; left; exact h
        · right; right; exact h
      · rintro (h | h | h)
        · left; left; exact h
        · left; right; exact h
        · right; exact h
    · obtain ⟨h1, h2⟩ := store_other S es p s hm h
      obtain ⟨h3, h4⟩ := ih _ hg' h1
      refine ⟨h3, ?_⟩
      intro j
      rw [h4, h2]
      have : idx S ((p, s) :: xs) = idx S xs := by simp [idx, hm]
      rw [this]

/-! ### the fuse pass, entry by entry -/

/-- the entry is kept by `_serviceOnceRxGrams` -/
def stays (e : Entry) : Bool :=
  match e.count with
  | none => true
  | some c =>
    match fuse e.grams c with
    | .ok none => true
    | .ok (some _) => false
    | .error _ => false

/-- what `_serviceOnceRxGrams` appends to `.rxms` for the entry -/
def deliv (e : Entry) : Option Memo :=
  match e.count with
  | none => none
  | some c =>
    match fuse e.grams c with
    | .ok (some m) => some ⟨m, e.src, e.vid⟩
    | .ok none => none
    | .error _ => none

/-- `_serviceOnceRxGrams` treats every memo id independently: it keeps exactly the entries that `stays`, and the memos it
queues are exactly `deliv` of each entry, in order -/
theorem fuseAll_char (es : List Entry) : fuseAll es = .ok (es.filter stays, es.filterMap deliv) := by
  induction es with
  | nil => rfl
  | cons e es ih =>
    simp only [fuseAll, ih]
    cases hc : e.count with
    | none => simp [stays, deliv, hc]
    | some c =>
      simp only
      cases hf : fuse e.grams c with
      | ok o =>
        cases o with
        | none => simp [stays, deliv, hc, hf]
        | some m => simp [stays, deliv, hc, hf]
      | error x =>
        have : x = .unicodeDecodeError := fuse_err _ _ _ hf
        subst this
        have hcatch : fuseCatches .unicodeDecodeError = true := by decide
        simp [stays, deliv, hc, hf, hcatch]

theorem gather_all (grams : List (Nat × Bytes)) (bodies : List Bytes) (m k : Nat) (hk : k + m = bodies.length)
    (h : ∀ i, k ≤ i → i < bodies.length → grams.lookup i = some (bodies.getD i [])) :
    gather grams m k = some (bodies.drop k).flatten := by
  induction m generalizing k with
  | zero =>
    have : k = bodies.length := by omega
    subst this; simp [gather]
  | succ m ih =>
    have hlt : k < bodies.length := by omega
    simp only [gather, h k (Nat.le_refl _) hlt, ih (k + 1) (by omega) (fun i hi => h i (by omega))]
    have e1 : bodies.getD k [] = bodies[k] := by simp [List.getD_eq_getElem?_getD, List.getElem?_eq_getElem hlt]
    rw [e1]
    conv_rhs => rw [List.drop_eq_getElem_cons hlt, List.flatten_cons]

theorem gather_none (grams : List (Nat × Bytes)) (m k i : Nat) (h1 : k ≤ i) (h2 : i < k + m) (h : grams.lookup i = none) :
    gather grams m k = none := by
  induction m generalizing k with
  | zero => omega
  | succ m ih =>
    simp only [gather]
    by_cases hik : i = k
    · subst hik; rw [h]
    · rw [ih (k + 1) (by omega) (by omega)]
      split <;> simp_all

theorem length_ge_of_keys (grams : List (Nat × Bytes)) (n : Nat) (h : ∀ i, i < n → (grams.lookup i).isSome = true) : n ≤ grams.length := by
  have hsub : List.range n ⊆ grams.map Prod.fst := by
    intro i hi
    have hi' : i < n := List.mem_range.mp hi
    have := h i hi'
    cases hl : grams.lookup i with
    | none => rw [hl] at this; simp at this
    | some b => exact List.mem_map.mpr ⟨(i, b), mem_of_lookup _ _ _ hl, rfl⟩
  have := (List.nodup_range (n := n)).length_le_of_subset hsub
  simpa using this

/-- a good entry that holds every gram of the memo delivers the memo: text = the bodies concatenated, its source, its signer id -/
theorem deliv_complete (S : SMemo) (e : Entry) (hn : 1 ≤ S.bodies.length) (hu : utf8Valid S.bodies.flatten = true) (hg : GoodEntry S e)
    (hall : ∀ i, i < S.bodies.length → hasKey e i) : deliv e = some ⟨S.bodies.flatten, S.src, S.vid⟩ ∧ stays e = false := by
  have h0 : (e.grams.lookup 0).isSome = true := hall 0 (by omega)
  have hc : e.count = some S.bodies.length := by rw [hg.count, h0]; rfl
  have hlen : ¬ e.grams.length < S.bodies.length := by
    have := length_ge_of_keys e.grams S.bodies.length (fun i hi => hall i hi)
    omega
  have hlook : ∀ i, 0 ≤ i → i < S.bodies.length → e.grams.lookup i = some (S.bodies.getD i []) := by
    intro i _ hi
    have := hall i hi
    unfold hasKey at this
    cases hl : e.grams.lookup i with
    | none => rw [hl] at this; simp at this
    | some b => rw [(hg.grams i b hl).2]
  have hga := gather_all e.grams S.bodies S.bodies.length 0 (by omega) hlook
  simp only [List.drop_zero] at hga
  have hf : fuse e.grams S.bodies.length = .ok (some S.bodies.flatten) := by
    simp [fuse, hlen, hga, hu]
  simp [deliv, stays, hc, hf, hg.src, hg.vid]

/-- a good entry that misses a gram of the memo delivers nothing and is kept -/
theorem deliv_incomplete (S : SMemo) (e : Entry) (hg : GoodEntry S e) (j : Nat) (hj : j < S.bodies.length) (hmiss : ¬ hasKey e j) :
    deliv e = none ∧ stays e = true := by
  cases hc : e.count with
  | none => simp [deliv, stays, hc]
  | some c =>
    have hcn : c = S.bodies.length := by
      have := hg.count; rw [hc] at this
      split at this
      · cases this; rfl
      · simp at this
    subst hcn
    have hnone : e.grams.lookup j = none := by
      unfold hasKey at hmiss
      cases hl : e.grams.lookup j with
      | none => rfl
      | some b => rw [hl] at hmiss; simp at hmiss
    have hga := gather_none e.grams S.bodies.length 0 j (by omega) (by omega) hnone
    have hf : fuse e.grams S.bodies.length = .ok none := by
      unfold fuse; split
      · rfl
      · rw [hga]
    simp [deliv, stays, hc, hf]

/-- a good entry delivers nothing or exactly the memo -/
theorem deliv_good (S : SMemo) (e : Entry) (hn : 1 ≤ S.bodies.length) (hu : utf8Valid S.bodies.flatten = true) (hg : GoodEntry S e) :
    (deliv e = none ∧ stays e = true) ∨ (deliv e = some ⟨S.bodies.flatten, S.src, S.vid⟩ ∧ stays e = false ∧ ∀ i, i < S.bodies.length → hasKey e i) := by
  by_cases hall : ∀ i, i < S.bodies.length → hasKey e i
  · right; obtain ⟨h1, h2⟩ := deliv_complete S e hn hu hg hall; exact ⟨h1, h2, hall⟩
  · left
    have : ∃ j, j < S.bodies.length ∧ ¬ hasKey e j := by
      apply Classical.byContradiction
      intro hne
      apply hall
      intro i hi
      apply Classical.byContradiction
      intro hk
      exact hne ⟨i, hi, hk⟩
    obtain ⟨j, hj, hmiss⟩ := this
    exact deliv_incomplete S e hg j hj hmiss

/-! ### histories of service batches, seen from one memo -/

/-- what the memo's entry delivered at the end of each batch (`none` = nothing), over a history of batches of accepted grams -/
def runS (S : SMemo) : List (List (PG × Nat)) → List Entry → List (Option Memo)
  | [], _ => []
  | b :: bs, es => ((findEntry S.mid (storeAll b es)).bind deliv) :: runS S bs ((storeAll b es).filter stays)

theorem SInv_filter (S : SMemo) (es : List Entry) (f : Entry → Bool) (hnd : MidsNodup es) (h : SInv S es) : SInv S (es.filter f) := by
  intro e he
  rw [findEntry_filter f S.mid es hnd] at he
  cases hf : findEntry S.mid es with
  | none => rw [hf] at he; simp at he
  | some e0 =>
    rw [hf] at he
    simp only at he
    by_cases hfe : f e0 = true
    · simp only [hfe, if_true] at he; cases he; exact h e hf
    · simp [hfe] at he

theorem filter_nodup (es : List Entry) (f : Entry → Bool) (h : MidsNodup es) : MidsNodup (es.filter f) := by
  unfold MidsNodup at h ⊢
  exact List.Nodup.sublist (List.Sublist.map _ List.filter_sublist) h

theorem keyOf_filter (S : SMemo) (es : List Entry) (f : Entry → Bool) (hnd : MidsNodup es) (j : Nat) (h : keyOf S (es.filter f) j) : keyOf S es j := by
  obtain ⟨e, he, hk⟩ := h
  rw [findEntry_filter f S.mid es hnd] at he
  cases hf : findEntry S.mid es with
  | none => rw [hf] at he; simp at he
  | some e0 =>
    rw [hf] at he
    simp only at he
    by_cases hfe : f e0 = true
    · simp only [hfe, if_true] at he; cases he; exact ⟨e, hf, hk⟩
    · simp [hfe] at he

theorem noEntry_SInv (S : SMemo) (es : List Entry) (h : findEntry S.mid es = none) : SInv S es := by
  intro e he; rw [h] at he; cases he

theorem noEntry_noKey (S : SMemo) (es : List Entry) (h : findEntry S.mid es = none) (j : Nat) : ¬ keyOf S es j := by
  rintro ⟨e, he, _⟩; rw [h] at he; cases he

/-- one batch, seen from the memo -/
theorem batch_step (S : SMemo) (hn : 1 ≤ S.bodies.length) (hu : utf8Valid S.bodies.flatten = true) (b : List (PG × Nat)) (es : List Entry)
    (hnd : MidsNodup es) (hinv : SInv S es) (hg : Genuine S b) :
    let es1 := storeAll b es
    let o := (findEntry S.mid es1).bind deliv
    let es2 := es1.filter stays
    MidsNodup es2 ∧ SInv S es2 ∧
      ((o = none ∧ (∀ j, keyOf S es2 j ↔ keyOf S es j ∨ j ∈ idx S b) ∧ ¬ (∀ i, i < S.bodies.length → keyOf S es i ∨ i ∈ idx S b)) ∨
       (o = some ⟨S.bodies.flatten, S.src, S.vid⟩ ∧ findEntry S.mid es2 = none ∧ (∀ i, i < S.bodies.length → keyOf S es i ∨ i ∈ idx S b))) := by
  intro es1 o es2
  have hnd1 : MidsNodup es1 := storeAll_nodup b es hnd
  obtain ⟨hinv1, hkeys⟩ := storeAll_genuine S b es hg hinv
  refine ⟨filter_nodup es1 stays hnd1, SInv_filter S es1 stays hnd1 hinv1, ?_⟩
  cases hf : findEntry S.mid es1 with
  | none =>
    left
    have hfe2 : findEntry S.mid es2 = none := by
      show findEntry S.mid (es1.filter stays) = none
      rw [findEntry_filter stays S.mid es1 hnd1, hf]
    refine ⟨by simp [o, hf], ?_, ?_⟩
    · intro j
      constructor
      · intro h; exact absurd h (noEntry_noKey S es2 hfe2 j)
      · intro h; exact absurd ((hkeys j).mpr h) (noEntry_noKey S es1 hf j)
    · intro hall
      have := (hkeys 0).mpr (hall 0 (by omega))
      exact noEntry_noKey S es1 hf 0 this
  | some e =>
    have hge := hinv1 e hf
    rcases deliv_good S e hn hu hge with ⟨hd, hs⟩ | ⟨hd, hs, hall⟩
    · left
      have hfe2 : findEntry S.mid es2 = some e := by
        show findEntry S.mid (es1.filter stays) = some e
        rw [findEntry_filter stays S.mid es1 hnd1, hf]; simp [hs]
      refine ⟨by simp [o, hf, hd], ?_, ?_⟩
      · intro j
        rw [← hkeys j]
        unfold keyOf
        rw [hfe2, hf]
      · intro hall
        have hk : ∀ i, i < S.bodies.length → hasKey e i := by
          intro i hi
          obtain ⟨e', he', hk'⟩ := (hkeys i).mpr (hall i hi)
          rw [hf] at he'; cases he'; exact hk'
        have := (deliv_complete S e hn hu hge hk).1
        rw [hd] at this; cases this
    · right
      have hfe2 : findEntry S.mid es2 = none := by
        show findEntry S.mid (es1.filter stays) = none
        rw [findEntry_filter stays S.mid es1 hnd1, hf]; simp [hs]
      refine ⟨by simp [o, hf, hd], hfe2, ?_⟩
      intro i hi
      exact (hkeys i).mp ⟨e, hf, hall i hi⟩

/-- the state after a history of batches (what `runS` threads through) -/
def stateAfter : List (List (PG × Nat)) → List Entry → List Entry
  | [], es => es
  | b :: bs, es => stateAfter bs ((storeAll b es).filter stays)

theorem runS_length (S : SMemo) (bs : List (List (PG × Nat))) (es : List Entry) : (runS S bs es).length = bs.length := by
  induction bs generalizing es with
  | nil => rfl
  | cons b bs ih => simp [runS, ih]

theorem idx_append (S : SMemo) (a b : List (PG × Nat)) : idx S (a ++ b) = idx S a ++ idx S b := by
  simp [idx, List.filterMap_append]

theorem runS_append (S : SMemo) (pre rest : List (List (PG × Nat))) (es : List Entry) :
    runS S (pre ++ rest) es = runS S pre es ++ runS S rest (stateAfter pre es) := by
  induction pre generalizing es with
  | nil => rfl
  | cons b bs ih => simp [runS, stateAfter, ih]

/-- while some gram number has not arrived yet nothing is delivered and the held grams accumulate over the batches -/
theorem runS_incomplete_prefix (S : SMemo) (hn : 1 ≤ S.bodies.length) (hu : utf8Valid S.bodies.flatten = true)
    (pre : List (List (PG × Nat))) (es : List Entry) (hnd : MidsNodup es) (hinv : SInv S es) (hg : ∀ b ∈ pre, Genuine S b)
    (j : Nat) (hj : j < S.bodies.length) (hk : ¬ keyOf S es j) (hmiss : j ∉ idx S pre.flatten) :
    runS S pre es = List.replicate pre.length none ∧ MidsNodup (stateAfter pre es) ∧ SInv S (stateAfter pre es) ∧
      ∀ i, keyOf S (stateAfter pre es) i ↔ keyOf S es i ∨ i ∈ idx S pre.flatten := by
  induction pre generalizing es with
  | nil => exact ⟨rfl, hnd, hinv, fun i => by simp [stateAfter, idx]⟩
  | cons b bs ih =>
    have hb := batch_step S hn hu b es hnd hinv (hg b List.mem_cons_self)
    simp only at hb
    obtain ⟨h1, h2, hcase⟩ := hb
    simp only [List.flatten_cons, idx_append, List.mem_append, not_or] at hmiss
    rcases hcase with ⟨hnone, hkeys, _⟩ | ⟨_, _, hall⟩
    · have hk' : ¬ keyOf S ((storeAll b es).filter stays) j := by
        intro h
        rcases (hkeys j).mp h with h | h
        · exact hk h
        · exact hmiss.1 h
      obtain ⟨r1, r2, r3, r4⟩ := ih _ h1 h2 (fun b' hb' => hg b' (List.mem_cons_of_mem _ hb')) hk' hmiss.2
      refine ⟨by simp [runS, hnone, r1, List.replicate_succ], r2, r3, ?_⟩
      intro i
      simp only [stateAfter, List.flatten_cons, idx_append, List.mem_append]
      rw [r4 i, hkeys i]
      constructor
      · rintro ((h | h) | h)
        · left; exact h
        · right; left; exact h
        · right; right; exact h
      · rintro (h | h | h)
        · left; left; exact h
        · left; right; exact h
        · right; exact h
    · exfalso
      rcases hall j hj with h | h
      · exact hk h
      · exact hmiss.1 h

/-! ### from datagrams to accepted grams -/

/-- the parsed grams of a queue of datagrams all of which `pick` accepts (each in the state the previous ones left); `none` if one is
empty or rejected -/
def picks (authic : Bool) (V : Bytes → Bytes → Bytes → Except Exn Unit) : List (Bytes × Nat) → List Entry → Option (List (PG × Nat))
  | [], _ => some []
  | (g, s) :: q, es =>
    if g.isEmpty then none
    else match pick authic (vidOfEntries es) V g with
      | .ok p =>
        match picks authic V q (store p s es) with
        | some ps => some ((p, s) :: ps)
        | none => none
      | .error _ => none

theorem recvLoop_picks (authic : Bool) (V : Bytes → Bytes → Bytes → Except Exn Unit) (q : List (Bytes × Nat)) (es : List Entry)
    (pgs : List (PG × Nat)) (h : picks authic V q es = some pgs) : recvLoop authic V q es = .ok (storeAll pgs es, []) := by
  induction q generalizing es pgs with
  | nil => simp only [picks] at h; cases h; rfl
  | cons gs q ih =>
    obtain ⟨g, s⟩ := gs
    simp only [picks] at h
    split at h
    · simp at h
    · rename_i hg
      split at h
      · rename_i p hp
        split at h
        · rename_i ps hps
          cases h
          simp only [recvLoop, hg, Bool.false_eq_true, if_false, recvOne, hp, storeAll]
          exact ih _ _ hps
        · simp at h
      · simp at h

theorem vidOf_of_SInv (S : SMemo) (hv : S.vid = none) (es : List Entry) (hinv : SInv S es) : vidOfEntries es S.mid = none := by
  unfold vidOfEntries
  cases hf : findEntry S.mid es with
  | none => rfl
  | some e => simp only; rw [(hinv e hf).vid, hv]

/-- a queue made only of datagrams that `pick` parses — in any state holding no vid for the memo id — into genuine grams of the memo
is accepted as a whole, whatever the order and the repetitions -/
theorem picks_genuine (S : SMemo) (hv : S.vid = none) (V : Bytes → Bytes → Bytes → Except Exn Unit) (G : Nat → Bytes)
    (hG : ∀ i, i < S.bodies.length → ∀ vidOf : Bytes → Option Bytes, vidOf S.mid = none → pick false vidOf V (G i) = .ok (S.gram i))
    (is : List Nat) (his : ∀ i ∈ is, i < S.bodies.length) (es : List Entry) (hinv : SInv S es) :
    picks false V (is.map fun i => (G i, S.src)) es = some (is.map fun i => (S.gram i, S.src)) := by
  induction is generalizing es with
  | nil => rfl
  | cons i is ih =>
    have hi : i < S.bodies.length := his i List.mem_cons_self
    have hp := hG i hi (vidOfEntries es) (vidOf_of_SInv S hv es hinv)
    have hne : (G i).isEmpty = false := by
      cases hg : G i with
      | nil =>
        have := hG i hi (fun _ => none) rfl
        rw [hg] at this
        simp [pick, wiff] at this
      | cons a as => rfl
    simp only [List.map_cons, picks, hne, Bool.false_eq_true, if_false, hp]
    rw [ih (fun k hk => his k (List.mem_cons_of_mem _ hk)) _ (store_genuine S es i hi hinv).1]

theorem idx_map_gram (S : SMemo) (is : List Nat) : idx S (is.map fun i => (S.gram i, S.src)) = is := by
  induction is with
  | nil => rfl
  | cons i is ih =>
    have : idx S ((S.gram i, S.src) :: is.map fun i => (S.gram i, S.src)) = i :: idx S (is.map fun i => (S.gram i, S.src)) := by
      simp [idx, SMemo.gram]
    rw [List.map_cons, this, ih]

theorem genuine_map_gram (S : SMemo) (is : List Nat) (his : ∀ i ∈ is, i < S.bodies.length) : Genuine S (is.map fun i => (S.gram i, S.src)) := by
  intro x hx _
  obtain ⟨i, hi, rfl⟩ := List.mem_map.mp hx
  exact ⟨i, his i hi, rfl⟩

theorem store_only (m : Bytes) (p : PG) (s : Nat) (es : List Entry) (hp : p.mid = m) (he : ∀ e ∈ es, e.mid = m) :
    ∀ e ∈ store p s es, e.mid = m := by
  induction es with
  | nil => intro e h; simp only [store, List.mem_singleton] at h; subst h; exact hp
  | cons a as ih =>
    intro e h
    simp only [store] at h
    split at h
    · rcases List.mem_cons.mp h with rfl | h
      · exact he a List.mem_cons_self
      · exact he e (List.mem_cons_of_mem _ h)
    · rcases List.mem_cons.mp h with rfl | h
      · exact he _ List.mem_cons_self
      · exact ih (fun x hx => he x (List.mem_cons_of_mem _ hx)) e h

theorem storeAll_only (m : Bytes) (seq : List (PG × Nat)) (es : List Entry) (hs : ∀ x ∈ seq, x.1.mid = m) (he : ∀ e ∈ es, e.mid = m) :
    ∀ e ∈ storeAll seq es, e.mid = m := by
  induction seq generalizing es with
  | nil => exact he
  | cons x xs ih =>
    obtain ⟨p, s⟩ := x
    exact ih _ (fun y hy => hs y (List.mem_cons_of_mem _ hy)) (store_only m p s es (hs (p, s) List.mem_cons_self) he)

/-- a state all of whose entries bear one memo id has at most one entry -/
theorem single_entry (m : Bytes) (es : List Entry) (hnd : MidsNodup es) (he : ∀ e ∈ es, e.mid = m) : es = [] ∨ ∃ e, es = [e] := by
  match es with
  | [] => left; rfl
  | [e] => right; exact ⟨e, rfl⟩
  | a :: b :: rest =>
    exfalso
    unfold MidsNodup at hnd
    simp only [List.map_cons, List.nodup_cons, List.mem_cons, not_or] at hnd
    exact hnd.1.1 ((he a List.mem_cons_self).trans (he b (List.mem_cons_of_mem _ List.mem_cons_self)).symm)

theorem vidOf_of_held (S : SMemo) (es : List Entry) (hinv : SInv S es) (e : Entry) (he : findEntry S.mid es = some e) :
    vidOfEntries es S.mid = S.vid := by
  unfold vidOfEntries; rw [he]; exact (hinv e he).vid

/-- signed (or any) memo whose later grams need the vid held by the receiver: once the memo's entry exists, every further genuine gram
is accepted -/
theorem picks_held (authic : Bool) (S : SMemo) (V : Bytes → Bytes → Bytes → Except Exn Unit) (G : Nat → Bytes)
    (hG : ∀ i, i < S.bodies.length → ∀ vidOf : Bytes → Option Bytes, vidOf S.mid = S.vid → pick authic vidOf V (G i) = .ok (S.gram i))
    (is : List Nat) (his : ∀ i ∈ is, i < S.bodies.length) (es : List Entry) (hinv : SInv S es) (e : Entry) (he : findEntry S.mid es = some e) :
    picks authic V (is.map fun i => (G i, S.src)) es = some (is.map fun i => (S.gram i, S.src)) := by
  induction is generalizing es e with
  | nil => rfl
  | cons i is ih =>
    have hi : i < S.bodies.length := his i List.mem_cons_self
    have hp := hG i hi (vidOfEntries es) (vidOf_of_held S es hinv e he)
    have hne : (G i).isEmpty = false := by
      cases hg : G i with
      | nil =>
        rw [hg] at hp
        simp [pick, wiff] at hp
      | cons a as => rfl
    simp only [List.map_cons, picks, hne, Bool.false_eq_true, if_false, hp]
    have hfe := findEntry_store_eq (S.gram i) S.src es
    have hmid : (S.gram i).mid = S.mid := rfl
    rw [hmid] at hfe
    rw [ih (fun k hk => his k (List.mem_cons_of_mem _ hk)) _ (store_genuine S es i hi hinv).1 _ hfe]

/-- … and when the zeroth gram (which carries the vid and is accepted in any state) comes first, the whole queue is accepted -/
theorem picks_zeroth_first (authic : Bool) (S : SMemo) (hn : 1 ≤ S.bodies.length) (V : Bytes → Bytes → Bytes → Except Exn Unit) (G : Nat → Bytes)
    (hG0 : ∀ vidOf : Bytes → Option Bytes, pick authic vidOf V (G 0) = .ok (S.gram 0))
    (hG : ∀ i, i < S.bodies.length → ∀ vidOf : Bytes → Option Bytes, vidOf S.mid = S.vid → pick authic vidOf V (G i) = .ok (S.gram i))
    (rest : List Nat) (his : ∀ i ∈ rest, i < S.bodies.length) (es : List Entry) (hinv : SInv S es) :
    picks authic V ((0 :: rest).map fun i => (G i, S.src)) es = some ((0 :: rest).map fun i => (S.gram i, S.src)) := by
  have hp := hG0 (vidOfEntries es)
  have hne : (G 0).isEmpty = false := by
    cases hg : G 0 with
    | nil => rw [hg] at hp; simp [pick, wiff] at hp
    | cons a as => rfl
  simp only [List.map_cons, picks, hne, Bool.false_eq_true, if_false, hp]
  have hfe := findEntry_store_eq (S.gram 0) S.src es
  have hmid : (S.gram 0).mid = S.mid := rfl
  rw [hmid] at hfe
  rw [picks_held authic S V G hG rest his _ (store_genuine S es 0 (by omega) hinv).1 _ hfe]

/-! ### several memos interleaved -/

theorem findEntry_mem (mid : Bytes) (es : List Entry) (e : Entry) (h : findEntry mid es = some e) : e ∈ es ∧ e.mid = mid := by
  induction es with
  | nil => simp [findEntry] at h
  | cons a as ih =>
    simp only [findEntry] at h
    split at h
    · rename_i hm; cases h; exact ⟨List.mem_cons_self, hm⟩
    · obtain ⟨h1, h2⟩ := ih h; exact ⟨List.mem_cons_of_mem _ h1, h2⟩

theorem findEntry_of_mem_nodup (es : List Entry) (hnd : MidsNodup es) (e : Entry) (he : e ∈ es) : findEntry e.mid es = some e := by
  induction es with
  | nil => cases he
  | cons a as ih =>
    have hnd' : MidsNodup as := by unfold MidsNodup at hnd ⊢; exact (List.nodup_cons.mp hnd).2
    have hnot : a.mid ∉ as.map (·.mid) := by unfold MidsNodup at hnd; exact (List.nodup_cons.mp hnd).1
    rcases List.mem_cons.mp he with rfl | he
    · simp [findEntry]
    · have : a.mid ≠ e.mid := by
        intro h; apply hnot; rw [h]; exact List.mem_map.mpr ⟨e, he, rfl⟩
      simp only [findEntry, this, if_false]
      exact ih hnd' he

theorem store_mid_mem (p : PG) (s : Nat) (es : List Entry) : ∀ e ∈ store p s es, e.mid = p.mid ∨ e.mid ∈ es.map (·.mid) := by
  intro e he
  have := store_mids p s es
  have hm : e.mid ∈ (store p s es).map (·.mid) := List.mem_map.mpr ⟨e, he, rfl⟩
  rw [this] at hm
  split at hm
  · right; exact hm
  · rcases List.mem_append.mp hm with h | h
    · right; exact h
    · left; simpa using h

theorem storeAll_mid_mem (seq : List (PG × Nat)) (es : List Entry) :
    ∀ e ∈ storeAll seq es, (∃ x ∈ seq, x.1.mid = e.mid) ∨ e.mid ∈ es.map (·.mid) := by
  induction seq generalizing es with
  | nil => intro e he; right; exact List.mem_map.mpr ⟨e, he, rfl⟩
  | cons x xs ih =>
    obtain ⟨p, s⟩ := x
    intro e he
    rcases ih (store p s es) e he with ⟨y, hy, hym⟩ | h
    · left; exact ⟨y, List.mem_cons_of_mem _ hy, hym⟩
    · obtain ⟨e', he', hm'⟩ := List.mem_map.mp h
      rcases store_mid_mem p s es e' he' with h1 | h1
      · left; exact ⟨(p, s), List.mem_cons_self, by rw [← hm']; exact h1.symm⟩
      · right; rw [← hm']; exact h1

/-- a family of memos with pairwise different ids -/
def MidInj (F : List SMemo) : Prop := ∀ a ∈ F, ∀ b ∈ F, a.mid = b.mid → a = b

/-- a shuffled queue of grams of several memos (none carrying a signer id) is accepted as a whole: storing a gram of one memo does not
touch what is held for the others -/
theorem picks_family (F : List SMemo) (hinj : MidInj F) (hv : ∀ S ∈ F, S.vid = none) (V : Bytes → Bytes → Bytes → Except Exn Unit)
    (G : SMemo → Nat → Bytes)
    (hG : ∀ S ∈ F, ∀ i, i < S.bodies.length → ∀ vidOf : Bytes → Option Bytes, vidOf S.mid = none → pick false vidOf V (G S i) = .ok (S.gram i))
    (js : List (SMemo × Nat)) (hjs : ∀ x ∈ js, x.1 ∈ F ∧ x.2 < x.1.bodies.length) (es : List Entry) (hinv : ∀ S ∈ F, SInv S es) :
    picks false V (js.map fun x => (G x.1 x.2, x.1.src)) es = some (js.map fun x => (x.1.gram x.2, x.1.src)) := by
  induction js generalizing es with
  | nil => rfl
  | cons x xs ih =>
    obtain ⟨S, i⟩ := x
    obtain ⟨hS, hi⟩ := hjs (S, i) List.mem_cons_self
    have hp := hG S hS i hi (vidOfEntries es) (vidOf_of_SInv S (hv S hS) es (hinv S hS))
    have hne : (G S i).isEmpty = false := by
      cases hg : G S i with
      | nil => rw [hg] at hp; simp [pick, wiff] at hp
      | cons a as => rfl
    simp only [List.map_cons, picks, hne, Bool.false_eq_true, if_false, hp]
    have hinv' : ∀ S' ∈ F, SInv S' (store (S.gram i) S.src es) := by
      intro S' hS'
      by_cases hm : S.mid = S'.mid
      · have := hinj S hS S' hS' hm
        subst this
        exact (store_genuine S es i hi (hinv S hS)).1
      · exact (store_other S' es (S.gram i) S.src hm (hinv S' hS')).1
    rw [ih (fun y hy => hjs y (List.mem_cons_of_mem _ hy)) _ hinv']

theorem genuine_family (F : List SMemo) (hinj : MidInj F) (js : List (SMemo × Nat)) (hjs : ∀ x ∈ js, x.1 ∈ F ∧ x.2 < x.1.bodies.length)
    (S : SMemo) (hS : S ∈ F) : Genuine S (js.map fun x => (x.1.gram x.2, x.1.src)) := by
  intro y hy hm
  obtain ⟨x, hx, rfl⟩ := List.mem_map.mp hy
  obtain ⟨hxF, hxi⟩ := hjs x hx
  have : x.1 = S := hinj x.1 hxF S hS hm
  subst this
  exact ⟨x.2, hxi, rfl⟩

theorem idx_family (F : List SMemo) (hinj : MidInj F) (js : List (SMemo × Nat)) (hjs : ∀ x ∈ js, x.1 ∈ F ∧ x.2 < x.1.bodies.length)
    (S : SMemo) (hS : S ∈ F) (i : Nat) : i ∈ idx S (js.map fun x => (x.1.gram x.2, x.1.src)) ↔ (S, i) ∈ js := by
  induction js with
  | nil => simp [idx]
  | cons x xs ih =>
    have ih' := ih (fun y hy => hjs y (List.mem_cons_of_mem _ hy))
    obtain ⟨hxF, _⟩ := hjs x List.mem_cons_self
    by_cases hm : x.1.mid = S.mid
    · have hx1 : x.1 = S := hinj x.1 hxF S hS hm
      have : idx S ((x.1.gram x.2, x.1.src) :: xs.map fun x => (x.1.gram x.2, x.1.src)) = x.2 :: idx S (xs.map fun x => (x.1.gram x.2, x.1.src)) := by
        simp [idx, SMemo.gram, hm]
      rw [List.map_cons, this, List.mem_cons, List.mem_cons, ih']
      constructor
      · rintro (h | h)
        · left; rw [h, ← hx1]
        · right; exact h
      · rintro (h | h)
        · left; rw [← h]
        · right; exact h
    · have : idx S ((x.1.gram x.2, x.1.src) :: xs.map fun x => (x.1.gram x.2, x.1.src)) = idx S (xs.map fun x => (x.1.gram x.2, x.1.src)) := by
        simp [idx, SMemo.gram, hm]
      rw [List.map_cons, this, List.mem_cons, ih']
      constructor
      · intro h; right; exact h
      · rintro (h | h)
        · exfalso; apply hm; rw [← h]
        · exact h

end Hio.Memo
