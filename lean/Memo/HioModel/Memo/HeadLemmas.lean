import HioModel.Memo.RxLemmas
import HioModel.B64.Lemmas
/-! Header round trip (C20): `pick` on a gram laid out as `rend` lays it out, Base64 text headers. -/
namespace Hio.Memo

/-- regenerated table fact: every code is four characters and has `bz = 4` -/
def codeOk (c : Bytes) : Bool :=
  match sizesOf c with
  | .ok s => c.length == 4 && s.bz == 4 && utf8Valid c && (match c with | b :: _ => b / 4 == 0o30 | [] => false)
  | .error _ => true

theorem codes_table : ∀ p ∈ Gen.memoSizes, codeOk p.1 = true := by decide

theorem lookup_mem' (l : List (Bytes × (Nat × Nat × Nat × Nat × Nat))) (k : Bytes) (v) (h : l.lookup k = some v) : (k, v) ∈ l := by
  induction l with
  | nil => simp [List.lookup] at h
  | cons a l ih =>
    obtain ⟨a1, a2⟩ := a
    simp only [List.lookup] at h
    split at h
    · rename_i heq
      cases h
      have : k = a1 := by simpa using heq
      subst this; exact List.mem_cons_self
    · exact List.mem_cons_of_mem _ (ih h)

theorem code_facts (code : Bytes) (s : Sizage) (h : sizesOf code = .ok s) :
    code.length = 4 ∧ s.bz = 4 ∧ utf8Valid code = true ∧ wiff code = .ok false := by
  have hmem : ∃ v, (code, v) ∈ Gen.memoSizes := by
    unfold sizesOf at h
    split at h
    · rename_i bz nz mz vz az hl; exact ⟨_, lookup_mem' _ _ _ hl⟩
    · simp at h
  obtain ⟨v, hv⟩ := hmem
  have := codes_table (code, v) hv
  unfold codeOk at this
  simp only [h] at this
  simp only [Bool.and_eq_true, beq_iff_eq] at this
  obtain ⟨⟨⟨h1, h2⟩, h3⟩, h4⟩ := this
  refine ⟨h1, h2, h3, ?_⟩
  cases code with
  | nil => simp at h4
  | cons b bs =>
    simp only [beq_iff_eq] at h4
    simp [wiff, h4]

theorem wiff_append (a b : Bytes) (r : Bool) (h : wiff a = .ok r) : wiff (a ++ b) = .ok r := by
  cases a with
  | nil => simp [wiff] at h
  | cons x xs => simpa [wiff] using h

/-- `pick` on a datagram laid out `code ++ num ++ mid ++ vid ++ body ++ sig` with the part sizes of `code` (Base64 text header):
the header fields come back exactly, the signed part is everything before the signature, the body is what lies between. -/
theorem pick_layout_b64 (authic : Bool) (vidOf : Bytes → Option Bytes) (V : Bytes → Bytes → Bytes → Except Exn Unit)
    (code num mid vid0 body sigb : Bytes) (s : Sizage) (n : Nat)
    (hs : sizesOf code = .ok s) (hau : authic = true → Gen.authDex.contains code = true)
    (hnum : num.length = s.nz) (hn : b64ToIntBytes num = .ok n) (hmid : mid.length = s.mz) (hvid : vid0.length = s.vz) (hsig : sigb.length = s.az) :
    pick authic vidOf V (code ++ (num ++ (mid ++ (vid0 ++ (body ++ sigb))))) =
      match classify code vidOf n mid vid0 (utf8Valid mid) with
      | .error e => .error e
      | .ok (gn, gc, vid) => pickTail V mid vid (utf8Valid mid) gn gc sigb (code ++ (num ++ (mid ++ (vid0 ++ body)))) body := by
  obtain ⟨hc4, hbz, hutf, hw⟩ := code_facts code s hs
  have hlen : (code ++ (num ++ (mid ++ (vid0 ++ (body ++ sigb))))).length = s.oz + body.length := by
    simp [Sizage.oz, hc4, hbz, hnum, hmid, hvid, hsig]; omega
  have htake : (code ++ (num ++ (mid ++ (vid0 ++ (body ++ sigb))))).take 4 = code := by
    rw [← hc4]; exact List.take_left
  unfold pick
  rw [wiff_append _ _ _ hw]
  simp only
  unfold pickB64
  rw [htake, hs]
  have h1 : ¬ (code ++ (num ++ (mid ++ (vid0 ++ (body ++ sigb))))).length < 4 := by rw [hlen]; unfold Sizage.oz; omega
  have h2 : (authic && !Gen.authDex.contains code) = false := by
    cases authic with
    | false => rfl
    | true => have := hau rfl; rw [this]; rfl
  have h3 : ¬ (code ++ (num ++ (mid ++ (vid0 ++ (body ++ sigb))))).length < s.oz := by rw [hlen]; omega
  simp only [h1, if_false, hutf, Bool.not_true, Bool.false_eq_true, h2, h3]
  have e1 : slice (code ++ (num ++ (mid ++ (vid0 ++ (body ++ sigb))))) s.bz (s.bz + s.nz) = num := by
    rw [hbz, ← hc4, ← hnum]; simp [slice]
  have e2 : slice (code ++ (num ++ (mid ++ (vid0 ++ (body ++ sigb))))) (s.bz + s.nz) (s.bz + s.nz + s.mz) = mid := by
    rw [hbz, ← hc4, ← hnum, ← hmid]; simp [slice]
  have e3 : slice (code ++ (num ++ (mid ++ (vid0 ++ (body ++ sigb))))) (s.bz + s.nz + s.mz) (s.bz + s.nz + s.mz + s.vz) = vid0 := by
    rw [hbz, ← hc4, ← hnum, ← hmid, ← hvid]; simp [slice, Nat.add_assoc]
    have : code.length + (num.length + (mid.length + vid0.length)) - (code.length + (num.length + mid.length)) = vid0.length := by omega
    rw [this]; exact List.take_left
  have e4 : sigOf s id (code ++ (num ++ (mid ++ (vid0 ++ (body ++ sigb))))) = sigb := by
    unfold sigOf
    by_cases hz : s.az = 0
    · have : sigb = [] := List.length_eq_zero_iff.mp (by omega)
      simp [hz, this]
    · simp only [hz, if_false, id, lastN]
      have : (code ++ (num ++ (mid ++ (vid0 ++ (body ++ sigb))))).length - s.az = (code ++ (num ++ (mid ++ (vid0 ++ body)))).length := by
        simp; omega
      rw [this]
      have e : code ++ (num ++ (mid ++ (vid0 ++ (body ++ sigb)))) = (code ++ (num ++ (mid ++ (vid0 ++ body)))) ++ sigb := by simp
      rw [e]; exact List.drop_left
  have e5 : foreOf s (code ++ (num ++ (mid ++ (vid0 ++ (body ++ sigb))))) = code ++ (num ++ (mid ++ (vid0 ++ body))) := by
    unfold foreOf
    by_cases hz : s.az = 0
    · have : sigb = [] := List.length_eq_zero_iff.mp (by omega)
      simp [hz, this]
    · simp only [hz, if_false, dropLastN]
      have : (code ++ (num ++ (mid ++ (vid0 ++ (body ++ sigb))))).length - s.az = (code ++ (num ++ (mid ++ (vid0 ++ body)))).length := by
        simp; omega
      rw [this]
      have e : code ++ (num ++ (mid ++ (vid0 ++ (body ++ sigb)))) = (code ++ (num ++ (mid ++ (vid0 ++ body)))) ++ sigb := by simp
      rw [e]; exact List.take_left
  have e6 : (code ++ (num ++ (mid ++ (vid0 ++ body)))).drop (s.oz - s.az) = body := by
    have : s.oz - s.az = (code ++ (num ++ (mid ++ vid0))).length := by
      simp [Sizage.oz, hc4, hbz, hnum, hmid, hvid]; omega
    rw [this]
    have e : code ++ (num ++ (mid ++ (vid0 ++ body))) = (code ++ (num ++ (mid ++ vid0))) ++ body := by simp
    rw [e]; exact List.drop_left
  rw [e1, hn]
  simp only
  unfold pickBody
  rw [e2, e3, e4, e5, e6]
  generalize classify code vidOf n mid vid0 (utf8Valid mid) = c
  cases c with
  | error e => rfl
  | ok t => obtain ⟨a, b, c⟩ := t; rfl

/-! ### the number / count field in Base64 text -/

theorem idx_chars_ascii : ∀ p ∈ Gen.b64IdxByChr, p.1 < 128 := by decide

theorem idxOf_ascii {c d : Nat} (h : B64.idxOf c = .ok d) : c < 128 := by
  unfold B64.idxOf at h
  split at h
  · rename_i i hl
    exact idx_chars_ascii (c, i) (B64.lookup_mem _ _ _ hl)
  · simp at h

theorem utf8Valid_ascii (l : Bytes) (h : ∀ b ∈ l, b < 128) : utf8Valid l = true := by
  induction l with
  | nil => rfl
  | cons b bs ih =>
    have hb : b < 0x80 := h b List.mem_cons_self
    rw [utf8Valid.eq_def]
    simp only [hb, if_true]
    exact ih (fun x hx => h x (List.mem_cons_of_mem _ hx))

theorem forall₂_ascii {cs ds : List Nat} (h : List.Forall₂ (fun c d => B64.idxOf c = .ok d) cs ds) : ∀ c ∈ cs, c < 128 := by
  induction h with
  | nil => intro c hc; cases hc
  | cons hcd _ ih =>
    intro c hc
    rcases List.mem_cons.mp hc with rfl | hc
    · exact idxOf_ascii hcd
    · exact ih c hc

/-- `intToB64b(n, l=nz)` for `n < 64^nz` is exactly `nz` ASCII alphabet characters that `b64ToInt` reads back as `n` -/
theorem numField_b64_roundtrip (n nz : Nat) (hnz : 1 ≤ nz) (hn : n < 64 ^ nz) (num : Bytes) (h : numField false n nz = .ok num) :
    num.length = nz ∧ b64ToIntBytes num = .ok n := by
  have h0 : ¬ (nz = 0 ∧ n = 0) := by omega
  obtain ⟨s, h1, h2, h3⟩ := B64.intToB64_spec n nz h0
  simp only [numField, Bool.false_eq_true, if_false, h1, liftB64] at h
  cases h
  have hk : (B64.digits64 n).length ≤ nz := by
    by_cases h64 : 64 ≤ n
    · have := B64.digits_tight _ h64
      have hlt' : 64 ^ ((B64.digits64 n).length - 1) < 64 ^ nz := Nat.lt_of_le_of_lt this hn
      have := (Nat.pow_lt_pow_iff_right (by omega : 1 < 64)).mp hlt'
      omega
    · have : (B64.digits64 n).length = 1 := by
        rw [B64.digits64]; simp [Nat.lt_of_not_le h64]
      omega
  have hlen : num.length = nz := by rw [h2]; omega
  refine ⟨hlen, ?_⟩
  have hne : num ≠ [] := by intro e; rw [e] at hlen; simp at hlen; omega
  have hasc := forall₂_ascii h3
  have hlt : ∀ d ∈ List.replicate (nz - (B64.digits64 n).length) 0 ++ B64.digits64 n, d < 64 := by
    intro d hd
    rcases List.mem_append.mp hd with hd | hd
    · rw [(List.mem_replicate.mp hd).2]; omega
    · exact B64.digits_lt n d hd
  have hdec : B64.b64ToInt num = .ok n := by
    rw [B64.b64ToInt_of_digits num _ hne h3 hlt, B64.val64_replicate_zero, B64.val64_digits]
  unfold b64ToIntBytes
  have e1 : num.isEmpty = false := by cases num <;> simp_all
  have e2 : utf8Valid num = true := utf8Valid_ascii num hasc
  have e3 : num.any (fun b => decide (0x80 ≤ b)) = false := by
    rw [List.any_eq_false]
    intro b hb
    have := hasc b hb
    simp; omega
  simp [e1, e2, e3, hdec, liftB64]

end Hio.Memo
