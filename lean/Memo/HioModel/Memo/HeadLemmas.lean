import HioModel.Memo.RxLemmas
import HioModel.B64.Lemmas
/-! Header round trip (C20): `pick` on a gram laid out as `rend` lays it out, Base64 text headers. -/
namespace Hio.Memo

/-- regenerated table fact: every code is four characters and has `bz = 4` -/
def codeOk (c : Bytes) : Bool :=
  match sizesOf c with
  | .ok s => c.length == 4 && s.bz == 4 && utf8Valid c && (match c with | b :: _ => b / 4 == 0o30 | [] => false)
  | .error _ => true

theorem codes_table : ∀ p ∈ Gen.memoSizes, codeOk p.1 = true := by decide

theorem lookup_mem' (l : List (Bytes × (Nat × Nat × Nat × Nat × Nat))) (k : Bytes) (v) (h : l.lookup k = some v) : (k, v) ∈ l := by
  induction l with
  | nil => simp [List.lookup] at h
  | cons a l ih =>
    obtain ⟨a1, a2⟩ := a
    simp only [List.lookup] at h
    split at h
    · rename_i heq
      cases h
      have : k = a1 := by simpa using heq
      subst this; exact List.mem_cons_self
    · exact List.mem_cons_of_mem _ (ih h)

theorem code_facts (code : Bytes) (s : Sizage) (h : sizesOf code = .ok s) :
    code.length = 4 ∧ s.bz = 4 ∧ utf8Valid code = true ∧ wiff code = .ok false := by
  have hmem : ∃ v, (code, v) ∈ Gen.memoSizes := by
    unfold sizesOf at h
    split at h
    · rename_i bz nz mz vz az hl; exact ⟨_, lookup_mem' _ _ _ hl⟩
    · simp at h
  obtain ⟨v, hv⟩ := hmem
  have := codes_table (code, v) hv
  unfold codeOk at this
  simp only [h] at this
  simp only [Bool.and_eq_true, beq_iff_eq] at this
  obtain ⟨⟨⟨h1, h2⟩, h3⟩, h4⟩ := this
  refine ⟨h1, h2, h3, ?_⟩
  cases code with
  | nil => simp at h4
  | cons b bs =>
    simp only [beq_iff_eq] at h4
    simp [wiff, h4]

theorem wiff_append (a b : Bytes) (r : Bool) (h : wiff a = .ok r) : wiff (a ++ b) = .ok r := by
  cases a with
  | nil => simp [wiff] at h
  | cons x xs => simpa [wiff] using h

/-- `pick` on a datagram laid out `code ++ num ++ mid ++ vid ++ body ++ sig` with the part sizes of `code` (Base64 text header):
the header fields come back exactly, the signed part is everything before the signature, the body is what lies between. -/
theorem pick_layout_b64 (authic : Bool) (vidOf : Bytes → Option Bytes) (V : Bytes → Bytes → Bytes → Except Exn Unit)
    (code num mid vid0 body sigb : Bytes) (s : Sizage) (n : Nat)
    (hs : sizesOf code = .ok s) (hau : authic = true → Gen.authDex.contains code = true)
    (hnum : num.length = s.nz) (hn : b64ToIntBytes num = .ok n) (hmid : mid.length = s.mz) (hvid : vid0.length = s.vz) (hsig : sigb.length = s.az) :
    pick authic vidOf V (code ++ (num ++ (mid ++ (vid0 ++ (body ++ sigb))))) =
      match classify code vidOf n mid vid0 (utf8Valid mid) with
      | .error e => .error e
      | .ok (gn, gc, vid) => pickTail V mid vid (utf8Valid mid) gn gc sigb (code ++ (num ++ (mid ++ (vid0 ++ body)))) body := by
  obtain ⟨hc4, hbz, hutf, hw⟩ := code_facts code s hs
  have hlen : (code ++ (num ++ (mid ++ (vid0 ++ (body ++ sigb))))).length = s.oz + body.length := by
    simp [Sizage.oz, hc4, hbz, hnum, hmid, hvid, hsig]; omega
  have htake : (code ++ (num ++ (mid ++ (vid0 ++ (body ++ sigb))))).take 4 = code := by
    rw [← hc4]; exact List.take_left
  unfold pick
  rw [wiff_append _ _ _ hw]
  simp only
  unfold pickB64
  rw [htake, hs]
  have h1 : ¬ (code ++ (num ++ (mid ++ (vid0 ++ (body ++ sigb))))).length < 4 := by rw [hlen]; unfold Sizage.oz; omega
  have h2 : (authic && !Gen.authDex.contains code) = false := by
    cases authic with
    | false => rfl
    | true => have := hau rfl; rw [this]; rfl
  have h3 : ¬ (code ++ (num ++ (mid ++ (vid0 ++ (body ++ sigb))))).length < s.oz := by rw [hlen]; omega
  simp only [h1, if_false, hutf, Bool.not_true, Bool.false_eq_true, h2, h3]
  have e1 : slice (code ++ (num ++ (mid ++ (vid0 ++ (body ++ sigb))))) s.bz (s.bz + s.nz) = num := by
    rw [hbz, ← hc4, ← hnum]; simp [slice]
  have e2 : slice (code ++ (num ++ (mid ++ (vid0 ++ (body ++ sigb))))) (s.bz + s.nz) (s.bz + s.nz + s.mz) = mid := by
    rw [hbz, ← hc4, ← hnum, ← hmid]; simp [slice]
  have e3 : slice (code ++ (num ++ (mid ++ (vid0 ++ (body ++ sigb))))) (s.bz + s.nz + s.mz) (s.bz + s.nz + s.mz + s.vz) = vid0 := by
    rw [hbz, ← hc4, ← hnum, ← hmid, ← hvid]; simp [slice, Nat.add_assoc]
    have : code.length + (num.length + (mid.length + vid0.length)) - (code.length + (num.length + mid.length)) = vid0.length := by omega
    rw [this]; exact List.take_left
  have e4 : sigOf s id (code ++ (num ++ (mid ++ (vid0 ++ (body ++ sigb))))) = sigb := by
    unfold sigOf
    by_cases hz : s.az = 0
    · have : sigb = [] := List.length_eq_zero_iff.mp (by omega)
      simp [hz, this]
    · simp only [hz, if_false, id, lastN]
      have : (code ++ (num ++ (mid ++ (vid0 ++ (body ++ sigb))))).length - s.az = (code ++ (num ++ (mid ++ (vid0 ++ body)))).length := by
        simp; omega
      rw [this]
      have e : code ++ (num ++ (mid ++ (vid0 ++ (body ++ sigb)))) = (code ++ (num ++ (mid ++ (vid0 ++ body)))) ++ sigb := by simp
      rw [e]; exact List.drop_left
  have e5 : foreOf s (code ++ (num ++ (mid ++ (vid0 ++ (body ++ sigb))))) = code ++ (num ++ (mid ++ (vid0 ++ body))) := by
    unfold foreOf
    by_cases hz : s.az = 0
    · have : sigb = [] := List.length_eq_zero_iff.mp (by omega)
      simp [hz, this]
    · simp only [hz, if_false, dropLastN]
      have : (code ++ (num ++ (mid ++ (vid0 ++ (body ++ sigb))))).length - s.az = (code ++ (num ++ (mid ++ (vid0 ++ body)))).length := by
        simp; omega
      rw [this]
      have e : code ++ (num ++ (mid ++ (vid0 ++ (body ++ sigb)))) = (code ++ (num ++ (mid ++ (vid0 ++ body)))) ++ sigb := by simp
      rw [e]; exact List.take_left
  have e6 : (code ++ (num ++ (mid ++ (vid0 ++ body)))).drop (s.oz - s.az) = body := by
    have : s.oz - s.az = (code ++ (num ++ (mid ++ vid0))).length := by
      simp [Sizage.oz, hc4, hbz, hnum, hmid, hvid]; omega
    rw [this]
    have e : code ++ (num ++ (mid ++ (vid0 ++ body))) = (code ++ (num ++ (mid ++ vid0))) ++ body := by simp
    rw [e]; exact List.drop_left
  rw [e1, hn]
  simp only
  unfold pickBody
  rw [e2, e3, e4, e5, e6]
  generalize classify code vidOf n mid vid0 (utf8Valid mid) = c
  cases c with
  | error e => rfl
  | ok t => obtain ⟨a, b, c⟩ := t; rfl

end Hio.Memo
