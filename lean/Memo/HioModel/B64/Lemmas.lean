import HioModel.B64.Model
import Mathlib.Data.List.Forall2
import Mathlib.Data.List.Induction
import Mathlib.Tactic.Ring
/-! Helper lemmas for the Base64 model.  Property theorems live in `Props/C26.lean`. -/
namespace Hio.B64

/-! ### facts about the regenerated tables (re-checked by `decide` on every run) -/

theorem chr_table : ∀ i, i < 64 → ∃ c, Gen.b64ChrByIdx.lookup i = some c ∧ Gen.b64IdxByChr.lookup c = some i := by
  decide

theorem idx_table_mem : ∀ p ∈ Gen.b64IdxByChr, p.2 < 64 ∧ Gen.b64ChrByIdx.lookup p.2 = some p.1 := by
  decide

theorem chr_zero : Gen.b64ChrByIdx.lookup 0 = some 65 := by decide

theorem lookup_mem {α β} [BEq α] [LawfulBEq α] (l : List (α × β)) (a : α) (b : β)
    (h : l.lookup a = some b) : (a, b) ∈ l := by
  induction l with
  | nil => simp [List.lookup] at h
  | cons x xs ih =>
    obtain ⟨k, v⟩ := x
    simp only [List.lookup] at h
    split at h
    · rename_i heq
      have : a = k := by simpa using heq
      simp_all
    · exact List.mem_cons_of_mem _ (ih h)

theorem idxOf_ok {c d : Nat} (h : idxOf c = .ok d) : d < 64 ∧ chrOf d = .ok c := by
  unfold idxOf at h
  split at h
  · rename_i i hi
    cases h
    have := idx_table_mem _ (lookup_mem _ _ _ hi)
    simp only at this
    refine ⟨this.1, ?_⟩
    unfold chrOf; rw [this.2]
  · cases h

theorem chrOf_ok {i : Nat} (h : i < 64) : ∃ c, chrOf i = .ok c ∧ idxOf c = .ok i := by
  obtain ⟨c, h1, h2⟩ := chr_table i h
  exact ⟨c, by unfold chrOf; rw [h1], by unfold idxOf; rw [h2]⟩

/-! ### digits -/

def val64 (ds : List Nat) : Nat := ds.foldl (fun acc d => acc * 64 + d) 0

theorem val64_append (a b : List Nat) :
    val64 (a ++ b) = b.foldl (fun acc d => acc * 64 + d) (val64 a) := by
  simp [val64, List.foldl_append]

theorem val64_snoc (a : List Nat) (d : Nat) : val64 (a ++ [d]) = val64 a * 64 + d := by
  simp [val64_append]

theorem val64_digits (n : Nat) : val64 (digits64 n) = n := by
  induction n using digits64.induct with
  | case1 n h => rw [digits64]; simp [h, val64]
  | case2 n h ih => rw [digits64]; simp [h, val64_snoc, ih]; omega

theorem digits_lt (n : Nat) : ∀ d ∈ digits64 n, d < 64 := by
  induction n using digits64.induct with
  | case1 n h => rw [digits64]; simp [h]
  | case2 n h ih =>
    rw [digits64]; simp [h]
    intro d hd; rcases hd with hd | hd
    · exact ih d hd
    · omega

theorem digits_ne_nil (n : Nat) : digits64 n ≠ [] := by
  rw [digits64]; split <;> simp

theorem digits_length_pos (n : Nat) : 0 < (digits64 n).length :=
  List.length_pos_iff.mpr (digits_ne_nil n)

/-- number of base-64 digits: smallest `k ≥ 1` with `n < 64^k` -/
theorem digits_bound (n : Nat) : n < 64 ^ (digits64 n).length := by
  induction n using digits64.induct with
  | case1 n h => rw [digits64]; simp [h]
  | case2 n h ih =>
    rw [digits64]; simp [h, Nat.pow_succ]
    omega

theorem digits_tight (n : Nat) (h : 64 ≤ n) : 64 ^ ((digits64 n).length - 1) ≤ n := by
  induction n using digits64.induct with
  | case1 n h' => omega
  | case2 n h' ih =>
    rw [digits64]; simp [h']
    by_cases h2 : 64 ≤ n / 64
    · have := ih h2
      have hp := digits_length_pos (n / 64)
      have : 64 ^ ((digits64 (n / 64)).length - 1) * 64 ≤ n / 64 * 64 := Nat.mul_le_mul_right _ this
      rw [← Nat.pow_succ, Nat.succ_eq_add_one] at this
      have e : (digits64 (n / 64)).length - 1 + 1 = (digits64 (n / 64)).length := by omega
      rw [e] at this
      omega
    · have : n / 64 < 64 := by omega
      rw [digits64]; simp [this]; omega

/-! ### mapChr / orShift -/

theorem mapChr_ok (ds : List Nat) (h : ∀ d ∈ ds, d < 64) :
    ∃ cs, mapChr ds = .ok cs ∧ cs.length = ds.length ∧
      List.Forall₂ (fun c d => idxOf c = .ok d) cs ds := by
  induction ds with
  | nil => exact ⟨[], rfl, rfl, .nil⟩
  | cons d ds ih =>
    obtain ⟨cs, h1, h2, h3⟩ := ih (fun x hx => h x (List.mem_cons_of_mem _ hx))
    obtain ⟨c, hc, hi⟩ := chrOf_ok (h d List.mem_cons_self)
    refine ⟨c :: cs, ?_, by simp [h2], .cons hi h3⟩
    simp [mapChr, hc, h1]

/-- `orShift` over the reversed string computes the positional value, provided the accumulator is below `64^e` -/
theorem orShift_val (cs ds : List Nat) (hf : List.Forall₂ (fun c d => idxOf c = .ok d) cs ds)
    (hd : ∀ d ∈ ds, d < 64) (e acc : Nat) (hacc : acc < 64 ^ e) :
    orShift cs e acc = .ok (acc + 64 ^ e * val64 ds.reverse) := by
  induction hf generalizing e acc with
  | nil => simp [orShift, val64]
  | @cons c d cs ds hcd _ ih =>
    have hd0 : d < 64 := hd d List.mem_cons_self
    have hds : ∀ x ∈ ds, x < 64 := fun x hx => hd x (List.mem_cons_of_mem _ hx)
    simp only [orShift, hcd]
    have hor : acc ||| (d <<< (e * 6)) = d * 64 ^ e + acc := by
      have h64 : (64 : Nat) ^ e = 2 ^ (e * 6) := by
        rw [Nat.mul_comm, Nat.pow_mul]
      have := Nat.shiftLeft_add_eq_or_of_lt (b := acc) (i := e * 6) (by rw [← h64]; exact hacc) d
      rw [Nat.or_comm, ← this, Nat.shiftLeft_eq, ← h64]
    rw [hor]
    have hlt : d * 64 ^ e + acc < 64 ^ (e + 1) := by
      rw [Nat.pow_succ]
      have : d * 64 ^ e ≤ 63 * 64 ^ e := Nat.mul_le_mul_right _ (by omega)
      omega
    rw [ih hds (e + 1) _ hlt]
    congr 1
    simp only [List.reverse_cons, val64_snoc, Nat.pow_succ]
    ring

theorem forall₂_reverse {α β} {R : α → β → Prop} {a : List α} {b : List β}
    (h : List.Forall₂ R a b) : List.Forall₂ R a.reverse b.reverse := by
  induction h with
  | nil => exact .nil
  | cons h1 _ ih =>
    simp only [List.reverse_cons]
    exact List.rel_append ih (.cons h1 .nil)

theorem forall₂_append {α β} {R : α → β → Prop} {a a' : List α} {b b' : List β}
    (h : List.Forall₂ R a b) (h' : List.Forall₂ R a' b') : List.Forall₂ R (a ++ a') (b ++ b') :=
  List.rel_append h h'

theorem forall₂_replicate {α β} {R : α → β → Prop} (x : α) (y : β) (k : Nat) (h : R x y) :
    List.Forall₂ R (List.replicate k x) (List.replicate k y) := by
  induction k with
  | zero => exact .nil
  | succ k ih => simp only [List.replicate_succ]; exact .cons h ih

theorem val64_replicate_zero (k : Nat) (ds : List Nat) : val64 (List.replicate k 0 ++ ds) = val64 ds := by
  induction k with
  | zero => simp
  | succ k ih =>
    have : val64 (List.replicate (k + 1) 0 ++ ds) = val64 (List.replicate k 0 ++ ds) := by
      simp only [List.replicate_succ, List.cons_append, val64, List.foldl_cons]
    rw [this, ih]

/-- decoding a string whose characters are the table images of digits `ds` gives `val64 ds` -/
theorem b64ToInt_of_digits (cs ds : List Nat) (hne : cs ≠ [])
    (hf : List.Forall₂ (fun c d => idxOf c = .ok d) cs ds) (hd : ∀ d ∈ ds, d < 64) :
    b64ToInt cs = .ok (val64 ds) := by
  unfold b64ToInt
  have : cs.isEmpty = false := by cases cs <;> simp_all
  simp only [this, Bool.false_eq_true, ↓reduceIte]
  have := orShift_val cs.reverse ds.reverse (forall₂_reverse hf)
    (fun d hd' => hd d (List.mem_reverse.mp hd')) 0 0 (by simp)
  simpa using this

theorem idxOf_65 : idxOf 65 = .ok 0 := by
  have : Gen.b64IdxByChr.lookup 65 = some 0 := by decide
  unfold idxOf; rw [this]

/-! ### bytes -/

theorem beBytes_length (i n : Nat) : (beBytes i n).length = n := by
  induction n generalizing i with
  | zero => rfl
  | succ n ih => simp [beBytes, ih]

theorem fromBytes_snoc (b : List Nat) (x : Nat) : fromBytes (b ++ [x]) = fromBytes b * 256 + x := by
  simp [fromBytes, List.foldl_append]

theorem fromBytes_beBytes (i n : Nat) (h : i < 256 ^ n) : fromBytes (beBytes i n) = i := by
  induction n generalizing i with
  | zero => simp [beBytes, fromBytes] at *; omega
  | succ n ih =>
    simp only [beBytes, fromBytes_snoc]
    rw [ih (i / 256) (by rw [Nat.pow_succ] at h; omega)]
    omega

theorem beBytes_lt (i n : Nat) : ∀ x ∈ beBytes i n, x < 256 := by
  induction n generalizing i with
  | zero => simp [beBytes]
  | succ n ih =>
    simp only [beBytes, List.mem_append, List.mem_singleton]
    intro x hx; rcases hx with hx | hx
    · exact ih _ x hx
    · omega

theorem fromBytes_lt (b : List Nat) (h : ∀ x ∈ b, x < 256) : fromBytes b < 256 ^ b.length := by
  induction b using List.reverseRecOn with
  | nil => simp [fromBytes]
  | append_singleton b x ih =>
    rw [fromBytes_snoc]
    have h1 := ih (fun y hy => h y (by simp [hy]))
    have h2 : x < 256 := h x (by simp)
    simp [Nat.pow_succ]; omega

end Hio.B64

namespace Hio.B64

/-! ### injectivity of positional value on fixed-length digit strings -/

def valLE : List Nat → Nat
  | [] => 0
  | d :: ds => d + 64 * valLE ds

theorem val64_eq_valLE (ds : List Nat) : val64 ds = valLE ds.reverse := by
  induction ds using List.reverseRecOn with
  | nil => rfl
  | append_singleton ds d ih => simp [val64_snoc, valLE, ih]; omega

theorem valLE_inj : ∀ (a b : List Nat), a.length = b.length → (∀ d ∈ a, d < 64) → (∀ d ∈ b, d < 64) →
    valLE a = valLE b → a = b
  | [], [], _, _, _, _ => rfl
  | [], _ :: _, h, _, _, _ => by simp at h
  | _ :: _, [], h, _, _, _ => by simp at h
  | x :: a, y :: b, hl, ha, hb, hv => by
    have hx : x < 64 := ha x List.mem_cons_self
    have hy : y < 64 := hb y List.mem_cons_self
    simp only [valLE] at hv
    have h1 : x = y := by omega
    have h2 : valLE a = valLE b := by omega
    have := valLE_inj a b (by simpa using hl) (fun d hd => ha d (List.mem_cons_of_mem _ hd))
      (fun d hd => hb d (List.mem_cons_of_mem _ hd)) h2
    rw [h1, this]

theorem val64_inj (a b : List Nat) (hl : a.length = b.length) (ha : ∀ d ∈ a, d < 64) (hb : ∀ d ∈ b, d < 64)
    (hv : val64 a = val64 b) : a = b := by
  rw [val64_eq_valLE, val64_eq_valLE] at hv
  have := valLE_inj a.reverse b.reverse (by simpa using hl) (fun d hd => ha d (List.mem_reverse.mp hd))
    (fun d hd => hb d (List.mem_reverse.mp hd)) hv
  exact List.reverse_injective this

theorem val64_lt (ds : List Nat) (h : ∀ d ∈ ds, d < 64) : val64 ds < 64 ^ ds.length := by
  induction ds using List.reverseRecOn with
  | nil => simp [val64]
  | append_singleton ds d ih =>
    rw [val64_snoc]
    have h1 := ih (fun y hy => h y (by simp [hy]))
    have h2 : d < 64 := h d (by simp)
    simp [Nat.pow_succ]; omega

/-- characters determine digits and vice versa -/
theorem forall₂_idx_inj {cs cs' ds : List Nat}
    (h : List.Forall₂ (fun c d => idxOf c = .ok d) cs ds)
    (h' : List.Forall₂ (fun c d => idxOf c = .ok d) cs' ds) : cs = cs' := by
  induction h generalizing cs' with
  | nil => cases h'; rfl
  | @cons c d cs ds hcd _ ih =>
    cases h' with
    | cons hcd' hrest =>
      have e1 := (idxOf_ok hcd).2
      have e2 := (idxOf_ok hcd').2
      rw [e1] at e2
      cases e2
      rw [ih hrest]

theorem forall₂_of_valid (s : List Nat) (h : ∀ c ∈ s, ∃ d, idxOf c = .ok d) :
    ∃ ds, List.Forall₂ (fun c d => idxOf c = .ok d) s ds := by
  induction s with
  | nil => exact ⟨[], .nil⟩
  | cons c s ih =>
    obtain ⟨d, hd⟩ := h c List.mem_cons_self
    obtain ⟨ds, hds⟩ := ih (fun x hx => h x (List.mem_cons_of_mem _ hx))
    exact ⟨d :: ds, .cons hd hds⟩

theorem forall₂_digits_lt {cs ds : List Nat} (h : List.Forall₂ (fun c d => idxOf c = .ok d) cs ds) :
    ∀ d ∈ ds, d < 64 := by
  induction h with
  | nil => simp
  | cons hcd _ ih =>
    intro d hd
    rcases List.mem_cons.mp hd with rfl | hd
    · exact (idxOf_ok hcd).1
    · exact ih d hd

/-- the full shape of `intToB64`'s result when it does not take the `(0, 0)` branch -/
theorem intToB64_spec (n l : Nat) (h : ¬(l = 0 ∧ n = 0)) :
    ∃ s, intToB64 n l = .ok s ∧ s.length = max l (digits64 n).length ∧
      List.Forall₂ (fun c d => idxOf c = .ok d) s
        (List.replicate (l - (digits64 n).length) 0 ++ digits64 n) := by
  obtain ⟨cs, h1, h2, h3⟩ := mapChr_ok (digits64 n) (digits_lt n)
  refine ⟨List.replicate (l - cs.length) 65 ++ cs, ?_, ?_, ?_⟩
  · unfold intToB64; simp only [h, ↓reduceIte, h1]
  · simp [h2]; omega
  · rw [h2]
    exact forall₂_append (forall₂_replicate 65 0 _ idxOf_65) h3

theorem forall₂_left_valid {cs ds : List Nat} (h : List.Forall₂ (fun c d => idxOf c = .ok d) cs ds) :
    ∀ c ∈ cs, ∃ d, idxOf c = .ok d := by
  induction h with
  | nil => simp
  | cons hcd _ ih =>
    intro c hc
    rcases List.mem_cons.mp hc with rfl | hc
    · exact ⟨_, hcd⟩
    · exact ih c hc

theorem octets_bits (l : Nat) : 6 * l + 2 * (l % 4) = 8 * octets l := by
  unfold octets; omega

end Hio.B64
