import HioModel.Gen.B64Table
/-!
# Model of `hio.help.helping` Base64 utilities (faithful to the current source)

Strings are lists of code points (`Nat`), bytes are lists of `Nat < 256`,
Python exceptions are values.  The two alphabet tables are regenerated from the
live module on every run (`HioModel/Gen/B64Table.lean`).
-/
namespace Hio.B64

inductive Exn | valueError | keyError | overflowError
deriving Repr, DecidableEq

/-- `B64ChrByIdx[i]` -/
def chrOf (i : Nat) : Except Exn Nat :=
  match Gen.b64ChrByIdx.lookup i with
  | some c => .ok c
  | none => .error .keyError

/-- `B64IdxByChr[c]` -/
def idxOf (c : Nat) : Except Exn Nat :=
  match Gen.b64IdxByChr.lookup c with
  | some i => .ok i
  | none => .error .keyError

/-- the `while l or i: appendleft(i % 64); i //= 64; if not i: break` loop: base-64 digits, most significant first -/
def digits64 (n : Nat) : List Nat :=
  if n < 64 then [n] else digits64 (n / 64) ++ [n % 64]
decreasing_by omega

def mapChr : List Nat → Except Exn (List Nat)
  | [] => .ok []
  | d :: ds => match chrOf d, mapChr ds with
    | .ok c, .ok cs => .ok (c :: cs)
    | .error e, _ => .error e
    | _, .error e => .error e

/-- `intToB64(i, l)`; the left padding is the literal `"A"` (code point 65) -/
def intToB64 (n l : Nat) : Except Exn (List Nat) :=
  match mapChr (if l = 0 ∧ n = 0 then [] else digits64 n) with
  | .ok cs => .ok (List.replicate (l - cs.length) 65 ++ cs)
  | .error e => .error e

/-- body of `for e, c in enumerate(reversed(s)): i |= B64IdxByChr[c] << (e * 6)` -/
def orShift : List Nat → Nat → Nat → Except Exn Nat
  | [], _, acc => .ok acc
  | c :: cs, e, acc => match idxOf c with
    | .ok d => orShift cs (e + 1) (acc ||| (d <<< (e * 6)))
    | .error x => .error x

/-- `b64ToInt(s)` -/
def b64ToInt (s : List Nat) : Except Exn Nat :=
  if s.isEmpty then .error .valueError else orShift s.reverse 0 0

/-- `int.from_bytes(b, 'big')` -/
def fromBytes (b : List Nat) : Nat := b.foldl (fun acc x => acc * 256 + x) 0

/-- big-endian digits of `i` in exactly `n` bytes (no range check) -/
def beBytes (i : Nat) : Nat → List Nat
  | 0 => []
  | n + 1 => beBytes (i / 256) n ++ [i % 256]

/-- `i.to_bytes(n, 'big')` -/
def toBytes (i n : Nat) : Except Exn (List Nat) :=
  if i < 256 ^ n then .ok (beBytes i n) else .error .overflowError

/-- `sceil(l * 3 / 4)` -/
def octets (l : Nat) : Nat := (3 * l + 3) / 4

/-- `codeB64ToB2(s)` -/
def codeB64ToB2 (s : List Nat) : Except Exn (List Nat) :=
  match b64ToInt s with
  | .ok i => toBytes (i <<< (2 * (s.length % 4))) (octets s.length)
  | .error e => .error e

/-- `codeB2ToB64(b, l)` -/
def codeB2ToB64 (b : List Nat) (l : Nat) : Except Exn (List Nat) :=
  if octets l > b.length then .error .valueError
  else intToB64 (fromBytes (b.take (octets l)) >>> (2 * (l % 4))) l

/-- `nabSextets(b, l)` -/
def nabSextets (b : List Nat) (l : Nat) : Except Exn (List Nat) :=
  if octets l > b.length then .error .valueError
  else
    let p := 2 * (l % 4)
    toBytes ((fromBytes (b.take (octets l)) >>> p) <<< p) (octets l)

end Hio.B64
