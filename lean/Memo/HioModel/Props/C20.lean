import HioModel.Memo.RendLemmas
import HioModel.Memo.AsmLemmas
import HioModel.Memo.HeadLemmas
import HioModel.Memo.B2Lemmas
/-!
# C20 — memos survive segmentation into grams and any delivery order

Property theorems only.  Model: `HioModel/Memo/Model.lean` (`rendPlan`/`assemble`/`rend` = `Memoer.rend`, `pick`, `store` = the
idempotent first-only storage of `_serviceOneReceived`, `fuse`, `fuseAll` = `_serviceOnceRxGrams`) of the tree at branch fix/memo
(pre-finding F31 — gram count 0 / negative with Base2 headers — repaired).  Size / code tables regenerated on every run.

Full statement: for any non-empty memo, any legal gram size, both header encodings, signed or unsigned grams and any delivery
order / duplication / interleaving / batching, the receiver delivers the memo exactly once with the same text, source and
signer id, and never when a gram is missing.

What is proved here (all unbounded):
* configuration histories (`setters_legal`, `size_setter_spec`, `rend_fuse_after_history`): constructor + any `.code/.curt/.size` assignments
  keep the stored gram size legal for the code and encoding in force;
* sender (`rend_fuse`): the bodies of the grams, in gram-number order, concatenate to the memo, none is empty, their number is the number of
  grams and is what the count field encodes, each gram is header ++ body (++ signature);
* header codec (`header_roundtrip_b64*`, `header_roundtrip_b2*`) and rend → pick (`grams_parse_b64`, `grams_parse_b2`, `grams_parse_b64_signed`);
* receiver (`reassembly_one_batch`, `never_incomplete`, `delivered_content`, `delivered_when_complete`, `exactly_once_history`,
  `exactly_once_unless_replayed`): over sequences of grams that `pick` ACCEPTED, for one memo among ARBITRARY other traffic with other ids;
* composed end to end on the model functions themselves (`end_to_end_unsigned_b64`, `end_to_end_unsigned_b2`, `end_to_end_signed_b64`):
  rend → any delivery order with duplicates → `serviceAllRx()` on an empty receiver → exactly `[(memo, source, vid)]` iff every gram arrived.
Correspondence only: signed grams with Base2 headers end to end; several rendered memos interleaved in the composed statements.

Known findings, stated as they are in the theorems' guards:
* K3 (F33): "exactly once" holds unless a complete set of the memo's grams arrives again after delivery
  (`exactly_once_unless_replayed`; `redelivered_on_full_replay` is the witness).
* K2 (F32): a signed non-zeroth gram is accepted by `pick` only when the zeroth gram is held (its vid is looked up in the state), so
  for signed codes the accepted-gram sequences of this file are those in which the zeroth gram came first (or the gram was repeated later).
* K1: with Base2 headers and an unsigned code `rend` refuses sizes below 33 (`rendPlan` returns MemoerError / ZeroDivisionError).
-/
namespace Hio.Memo

/-- configuration histories: the constructor and EVERY property assignment (`.code`, `.curt`, `.size`, in any order, any number of
times) leave the stored gram size at or above the minimum for the code and encoding then in force — the `.code` and `.curt` setters
re-clamp by re-assigning the stored size — so `rend` always works from a zeroth body size ≥ 1 -/
theorem setters_legal (code : Bytes) (curt : Bool) (size : Nat) (hist : List Setter) (cfg0 cfg : TxCfg)
    (h0 : mkCfg code curt size = .ok cfg0) (h : applySetters cfg0 hist = .ok cfg) : Legal cfg :=
  applySetters_legal cfg0 cfg hist (mkCfg_legal code curt size cfg0 h0) h

/-- … also when refused assignments (a code outside `Zedex` raises before anything is stored) are survived and the history goes on -/
theorem setters_skip_legal (code : Bytes) (curt : Bool) (size : Nat) (hist : List Setter) (cfg0 : TxCfg)
    (h0 : mkCfg code curt size = .ok cfg0) : Legal (applySettersSkip cfg0 hist) :=
  applySettersSkip_legal cfg0 hist (mkCfg_legal code curt size cfg0 h0)

/-- … and an assignment never lowers a requested size: after `.size = n` the stored size is ≥ n; re-clamping a legal configuration
(what `self.size = self._size` does when code and encoding did not change) is the identity -/
theorem size_setter_spec (cfg cfg' : TxCfg) (n : Nat) (h : applySetter cfg (.size n) = .ok cfg') :
    Legal cfg' ∧ cfg'.code = cfg.code ∧ cfg'.curt = cfg.curt ∧ n ≤ cfg'.size ∧ (Legal cfg → applySetter cfg (.size cfg.size) = .ok cfg) := by
  obtain ⟨h1, h2, h3, h4⟩ := setSize_legal cfg cfg' n h
  exact ⟨h1, h2, h3, h4, fun hl => setSize_idem cfg hl⟩

/-- C20 sender side: whenever `rend` produces grams for a non-empty memo, with `bs` the bodies it cut:
`bs` concatenates to the memo; no body is empty; there are exactly `|bs|` grams and the count field of the zeroth gram encodes `|bs|`;
gram 0 is zeroth-header ++ body 0 (++ signature) and gram `i ≥ 1` is later-header with number `i` ++ body `i` (++ signature). -/
theorem rend_fuse (cfg : TxCfg) (sign : Bytes → Bytes → Except Exn Bytes) (memo : Bytes) (vid : Option Bytes) (mid : Bytes) (grams : List Bytes)
    (hleg : Legal cfg) (hne : memo ≠ []) (h : rend cfg sign memo vid mid = .ok grams) :
    ∃ pl, rendPlan cfg memo.length vid mid = .ok pl ∧
      (bodies pl.zbz pl.nbz memo).flatten = memo ∧
      (∀ b ∈ bodies pl.zbz pl.nbz memo, b ≠ [] ∧ b.length ≤ max pl.zbz pl.nbz) ∧
      grams.length = (bodies pl.zbz pl.nbz memo).length ∧
      numField cfg.curt grams.length pl.nz = .ok pl.gcnt ∧
      (∀ (h0 : 0 < (bodies pl.zbz pl.nbz memo).length) (h1 : 0 < grams.length),
        mkGram sign pl.zcodeb pl.gcnt pl.midb pl.vidb pl.zWithVid pl.zSigned pl.vidt (bodies pl.zbz pl.nbz memo)[0] = .ok grams[0]) ∧
      (∀ i (hi : i + 1 < (bodies pl.zbz pl.nbz memo).length) (hj : i + 1 < grams.length), ∃ num, numField cfg.curt (i + 1) pl.nz = .ok num ∧
        mkGram sign pl.ncodeb num pl.midb pl.vidb pl.nWithVid pl.nSigned pl.vidt (bodies pl.zbz pl.nbz memo)[i + 1] = .ok grams[i + 1]) := by
  unfold rend at h
  split at h
  · simp at h
  · rename_i pl hpl
    obtain ⟨hz, hn, hcnt, _⟩ := rendPlan_ok cfg memo.length vid mid pl hleg hpl
    have hflat := bodies_flatten pl.zbz pl.nbz memo hn
    have hlen := bodies_length pl.zbz pl.nbz memo hne hn
    have hb := bodies_bound pl.zbz pl.nbz memo hz hn
    refine ⟨pl, hpl, hflat, hb, ?_⟩
    unfold assemble at h
    split at h
    · rename_i hnil
      rw [hnil] at hlen
      have : 1 ≤ gramCount memo.length pl.zbz pl.nbz := by
        unfold gramCount; split
        · exact Nat.le_refl 1
        · exact Nat.le_add_right 1 _
      simp at hlen; omega
    · rename_i b0 bs hbs
      split at h
      · simp at h
      · rename_i g0 hg0
        split at h
        · simp at h
        · rename_i gs hgs
          cases h
          obtain ⟨hl, hspec⟩ := mkGrams_spec _ _ _ _ _ _ _ _ _ _ _ _ hgs
          rw [hbs] at hlen ⊢
          have hlen2 : (g0 :: gs).length = (b0 :: bs).length := by simp [hl]
          refine ⟨hlen2, ?_, ?_, ?_⟩
          · rw [hlen2, hlen]; exact hcnt
          · intro _ _; simpa using hg0
          · intro i hi hj
            obtain ⟨num, hnum, hg⟩ := hspec i (by simpa using hi) (by simpa using hj)
            refine ⟨num, ?_, by simpa using hg⟩
            rw [Nat.add_comm]; exact hnum

/-- header_roundtrip (Base64 text headers, every code of the regenerated table, signed or not): a datagram laid out as `rend` lays it
out — code, number field `intToB64b(n, nz)` with `n < 64^nz`, mid, vid part, body, signature part, each of the size the table gives —
is parsed by `pick` into exactly these fields: the number comes back as `n` (Base64 round trip), the signed part is everything before
the signature, the body is what lies between header and signature.  What remains is the three-way code switch and `verify`. -/
theorem header_roundtrip_b64 (authic : Bool) (vidOf : Bytes → Option Bytes) (V : Bytes → Bytes → Bytes → Except Exn Unit)
    (code num mid vid0 body sigb : Bytes) (s : Sizage) (n : Nat)
    (hs : sizesOf code = .ok s) (hau : authic = true → Gen.authDex.contains code = true)
    (hnz : 1 ≤ s.nz) (hn : n < 64 ^ s.nz) (hnum : numField false n s.nz = .ok num)
    (hmid : mid.length = s.mz) (hvid : vid0.length = s.vz) (hsig : sigb.length = s.az) :
    pick authic vidOf V (code ++ (num ++ (mid ++ (vid0 ++ (body ++ sigb))))) =
      match classify code vidOf n mid vid0 (utf8Valid mid) with
      | .error e => .error e
      | .ok (gn, gc, vid) => pickTail V mid vid (utf8Valid mid) gn gc sigb (code ++ (num ++ (mid ++ (vid0 ++ body)))) body := by
  obtain ⟨h1, h2⟩ := numField_b64_roundtrip n s.nz hnz hn num hnum
  exact pick_layout_b64 authic vidOf V code num mid vid0 body sigb s n hs hau h1 h2 hmid hvid hsig

/-- … unsigned zeroth gram: `(mid, no vid, gram number 0, count n, body)` whatever the receiver state -/
theorem header_roundtrip_zeroth_unsigned (vidOf : Bytes → Option Bytes) (V : Bytes → Bytes → Bytes → Except Exn Unit)
    (code num mid body : Bytes) (s : Sizage) (n : Nat)
    (hs : sizesOf code = .ok s) (hz : Gen.zeroDex.contains code = true) (hv : s.vz = 0) (ha : s.az = 0)
    (hnz : 1 ≤ s.nz) (hn : n < 64 ^ s.nz) (hnum : numField false n s.nz = .ok num) (hmid : mid.length = s.mz) (hutf : utf8Valid mid = true) :
    pick false vidOf V (code ++ (num ++ (mid ++ body))) = .ok ⟨mid, none, 0, some n, body⟩ := by
  have := header_roundtrip_b64 false vidOf V code num mid [] body [] s n hs (by simp) hnz hn hnum hmid (by simp [hv]) (by simp [ha])
  simp only [List.nil_append, List.append_nil] at this
  rw [this]
  have hz' : code ∈ Gen.zeroDex := by simpa using hz
  simp [classify, hz', pickTail, hutf]

/-- … unsigned later gram, when the receiver holds no vid for that memo id: `(mid, no vid, gram number n, no count, body)` -/
theorem header_roundtrip_later_unsigned (vidOf : Bytes → Option Bytes) (V : Bytes → Bytes → Bytes → Except Exn Unit)
    (code num mid body : Bytes) (s : Sizage) (n : Nat)
    (hs : sizesOf code = .ok s) (hz : Gen.zeroDex.contains code = false) (hg : Gen.gramDex.contains code = true) (hv : s.vz = 0) (ha : s.az = 0)
    (hnz : 1 ≤ s.nz) (hn : n < 64 ^ s.nz) (hnum : numField false n s.nz = .ok num) (hmid : mid.length = s.mz) (hutf : utf8Valid mid = true)
    (hvo : vidOf mid = none) :
    pick false vidOf V (code ++ (num ++ (mid ++ body))) = .ok ⟨mid, none, n, none, body⟩ := by
  have := header_roundtrip_b64 false vidOf V code num mid [] body [] s n hs (by simp) hnz hn hnum hmid (by simp [hv]) (by simp [ha])
  simp only [List.nil_append, List.append_nil] at this
  rw [this]
  have hz' : code ∉ Gen.zeroDex := by simpa using hz
  have hg' : code ∈ Gen.gramDex := by simpa using hg
  simp [classify, hz', hg', pickTail, hutf, hvo]

/-- … signed zeroth gram whose signature verifies under the vid it carries: `(mid, that vid, 0, count n, body)` -/
theorem header_roundtrip_zeroth_signed (authic : Bool) (vidOf : Bytes → Option Bytes) (V : Bytes → Bytes → Bytes → Except Exn Unit)
    (code num mid vid0 body sigb : Bytes) (s : Sizage) (n : Nat)
    (hs : sizesOf code = .ok s) (hau : Gen.authDex.contains code = true) (hz : Gen.zeroDex.contains code = true)
    (hnz : 1 ≤ s.nz) (hn : n < 64 ^ s.nz) (hnum : numField false n s.nz = .ok num) (hmid : mid.length = s.mz) (hutf : utf8Valid mid = true)
    (hvid : vid0.length = s.vz) (hvne : vid0 ≠ []) (hvutf : utf8Valid vid0 = true) (hsig : sigb.length = s.az) (hsne : sigb ≠ [])
    (hver : V vid0 sigb (code ++ (num ++ (mid ++ (vid0 ++ body)))) = .ok ()) :
    pick authic vidOf V (code ++ (num ++ (mid ++ (vid0 ++ (body ++ sigb))))) = .ok ⟨mid, some vid0, 0, some n, body⟩ := by
  rw [header_roundtrip_b64 authic vidOf V code num mid vid0 body sigb s n hs (fun _ => hau) hnz hn hnum hmid hvid hsig]
  have e1 : sigb.isEmpty = false := by cases sigb <;> simp_all
  have e2 : vid0.isEmpty = false := by cases vid0 <;> simp_all
  have hz' : code ∈ Gen.zeroDex := by simpa using hz
  simp [classify, hz', pickTail, hutf, e1, e2, hver, hvutf, hvne, hsne]

/-- … signed later gram: accepted exactly under the vid the receiver holds for that memo id (set by the zeroth gram) — and, K2 / F32,
REJECTED when the receiver holds none, because then `verify` is asked about the empty vid -/
theorem header_roundtrip_later_signed (authic : Bool) (vidOf : Bytes → Option Bytes) (V : Bytes → Bytes → Bytes → Except Exn Unit)
    (code num mid body sigb : Bytes) (s : Sizage) (n : Nat)
    (hs : sizesOf code = .ok s) (hau : Gen.authDex.contains code = true) (hz : Gen.zeroDex.contains code = false) (hg : Gen.gramDex.contains code = true)
    (hv : s.vz = 0) (hnz : 1 ≤ s.nz) (hn : n < 64 ^ s.nz) (hnum : numField false n s.nz = .ok num) (hmid : mid.length = s.mz) (hutf : utf8Valid mid = true)
    (hsig : sigb.length = s.az) (hsne : sigb ≠ []) :
    (∀ v, vidOf mid = some v → v ≠ [] → utf8Valid v = true → V v sigb (code ++ (num ++ (mid ++ body))) = .ok () →
      pick authic vidOf V (code ++ (num ++ (mid ++ (body ++ sigb)))) = .ok ⟨mid, some v, n, none, body⟩) ∧
    (vidOf mid = none → ∀ e, V [] sigb (code ++ (num ++ (mid ++ body))) = .error e →
      pick authic vidOf V (code ++ (num ++ (mid ++ (body ++ sigb)))) = .error e) := by
  have := header_roundtrip_b64 authic vidOf V code num mid [] body sigb s n hs (fun _ => hau) hnz hn hnum hmid (by simp [hv]) hsig
  simp only [List.nil_append] at this
  have e1 : sigb.isEmpty = false := by cases sigb <;> simp_all
  have hz' : code ∉ Gen.zeroDex := by simpa using hz
  have hg' : code ∈ Gen.gramDex := by simpa using hg
  constructor
  · intro v hvo hvne hvutf hver
    have e2 : v.isEmpty = false := by cases v <;> simp_all
    rw [this]
    simp [classify, hz', hg', pickTail, hutf, e1, e2, hvo, hver, hvutf, hvne, hsne]
  · intro hvo e hver
    rw [this]
    simp [classify, hz', hg', pickTail, hutf, e1, hvo, hver, hsne]

/-- header_roundtrip, Base2 (`curt`) headers, every code of the regenerated table, signed or not: a datagram laid out as `rend` lays it out
with binary headers — the code's three bytes, the number as `n.to_bytes(nz)`, raw mid / vid parts, body, raw signature, each `3/4` of its
text size — is parsed by `pick` into: the code (`codeB2ToB64`), the number `n` (`int.from_bytes`), mid / vid / signature RE-ENCODED as
Base64 text (`encodeB64`), signed part = everything before the signature, body = what lies between -/
theorem header_roundtrip_b2 (authic : Bool) (vidOf : Bytes → Option Bytes) (V : Bytes → Bytes → Bytes → Except Exn Unit)
    (code codeb numb midb vidb body sigraw : Bytes) (s : Sizage) (n : Nat)
    (hs : sizesOf code = .ok s) (hau : authic = true → Gen.authDex.contains code = true)
    (hcodeb : decodeB64 code = some codeb) (hnum : numField true n s.scale.nz = .ok numb)
    (hmid : midb.length = s.scale.mz) (hvid : vidb.length = s.scale.vz) (hsig : sigraw.length = s.scale.az) :
    pick authic vidOf V (codeb ++ (numb ++ (midb ++ (vidb ++ (body ++ sigraw))))) =
      match classify code vidOf n (encodeB64 midb) (encodeB64 vidb) true with
      | .error e => .error e
      | .ok (gn, gc, vid) =>
        pickTail V (encodeB64 midb) vid true gn gc (if s.scale.az = 0 then [] else encodeB64 sigraw)
          (codeb ++ (numb ++ (midb ++ (vidb ++ body)))) body := by
  obtain ⟨cb, h1, h2, h3, h4⟩ := code_wire_b2 code s hs
  rw [hcodeb] at h1; cases h1
  have hn : numb.length = s.scale.nz ∧ B64.fromBytes numb = n := by
    simp only [numField, if_true, B64.toBytes] at hnum
    split at hnum
    · rename_i hlt
      simp only [liftB64] at hnum; cases hnum
      exact ⟨B64.beBytes_length _ _, B64.fromBytes_beBytes _ _ hlt⟩
    · simp [liftB64] at hnum
  have := pick_layout_b2 authic vidOf V code codeb numb midb vidb body sigraw s hs hau h2 h3 h4 hn.1 hmid hvid hsig
  rw [hn.2] at this
  exact this

/-- … unsigned zeroth gram with binary headers: `(mid as text, no vid, gram number 0, count n, body)` whatever the receiver state -/
theorem header_roundtrip_b2_zeroth_unsigned (vidOf : Bytes → Option Bytes) (V : Bytes → Bytes → Bytes → Except Exn Unit)
    (code codeb numb midb body : Bytes) (s : Sizage) (n : Nat)
    (hs : sizesOf code = .ok s) (hz : Gen.zeroDex.contains code = true) (hv : s.vz = 0) (ha : s.az = 0)
    (hcodeb : decodeB64 code = some codeb) (hnum : numField true n s.scale.nz = .ok numb) (hmid : midb.length = s.scale.mz) :
    pick false vidOf V (codeb ++ (numb ++ (midb ++ body))) = .ok ⟨encodeB64 midb, none, 0, some n, body⟩ := by
  have hv' : s.scale.vz = 0 := by simp [Sizage.scale, hv]
  have ha' : s.scale.az = 0 := by simp [Sizage.scale, ha]
  have := header_roundtrip_b2 false vidOf V code codeb numb midb [] body [] s n hs (by simp) hcodeb hnum hmid (by simp [hv']) (by simp [ha'])
  simp only [List.nil_append, List.append_nil] at this
  rw [this]
  have hz' : code ∈ Gen.zeroDex := by simpa using hz
  simp [classify, hz', pickTail, ha', encodeB64]

/-- … unsigned later gram with binary headers, when the receiver holds no vid for that memo id -/
theorem header_roundtrip_b2_later_unsigned (vidOf : Bytes → Option Bytes) (V : Bytes → Bytes → Bytes → Except Exn Unit)
    (code codeb numb midb body : Bytes) (s : Sizage) (n : Nat)
    (hs : sizesOf code = .ok s) (hz : Gen.zeroDex.contains code = false) (hg : Gen.gramDex.contains code = true) (hv : s.vz = 0) (ha : s.az = 0)
    (hcodeb : decodeB64 code = some codeb) (hnum : numField true n s.scale.nz = .ok numb) (hmid : midb.length = s.scale.mz)
    (hvo : vidOf (encodeB64 midb) = none) :
    pick false vidOf V (codeb ++ (numb ++ (midb ++ body))) = .ok ⟨encodeB64 midb, none, n, none, body⟩ := by
  have hv' : s.scale.vz = 0 := by simp [Sizage.scale, hv]
  have ha' : s.scale.az = 0 := by simp [Sizage.scale, ha]
  have := header_roundtrip_b2 false vidOf V code codeb numb midb [] body [] s n hs (by simp) hcodeb hnum hmid (by simp [hv']) (by simp [ha'])
  simp only [List.nil_append, List.append_nil] at this
  rw [this]
  have hz' : code ∉ Gen.zeroDex := by simpa using hz
  have hg' : code ∈ Gen.gramDex := by simpa using hg
  simp [classify, hz', hg', pickTail, ha', encodeB64, hvo]

/-- the fuse pass treats every memo id independently (this is what lets one memo be followed through arbitrary other traffic):
`_serviceOnceRxGrams` keeps exactly the entries that `stays` and queues exactly `deliv` of each entry, in order -/
theorem fuse_pass_per_entry (es : List Entry) : fuseAll es = .ok (es.filter stays, es.filterMap deliv) :=
  fuseAll_char es

/-- the bridge from the service call to the per-memo view: when `pick` accepts every datagram of the queue (parsed grams `pgs`),
`serviceAllRx()` stores them in order and then runs the fuse pass — the delivered memos are `deliv` of each entry of `storeAll pgs es` -/
theorem service_is_store_then_fuse (authic : Bool) (V : Bytes → Bytes → Bytes → Except Exn Unit) (q : List (Bytes × Nat)) (es : List Entry)
    (pgs : List (PG × Nat)) (h : picks authic V q es = some pgs) :
    serviceAllRx authic V es q = .ok ⟨(storeAll pgs es).filter stays, [], (storeAll pgs es).filterMap deliv⟩ := by
  simp [serviceAllRx, recvLoop_picks authic V q es pgs h, fuseAll_char]

/-- C20 receiver side, one service batch: a receiver that holds nothing for the memo's id receives ANY sequence of accepted grams in
which every gram bearing that id is a genuine gram of the memo (any order, any duplicates, interleaved with arbitrary grams of other ids).
At the end of the batch the memo is delivered — text = the bodies concatenated, its source, its signer id — if and only if every gram number
occurs in the sequence; it is delivered by its single entry (memo ids stay unique), which is then removed; otherwise nothing is delivered for
it and the entry is kept. -/
theorem reassembly_one_batch (S : SMemo) (hn : 1 ≤ S.bodies.length) (hu : utf8Valid S.bodies.flatten = true)
    (es : List Entry) (hnd : MidsNodup es) (hno : findEntry S.mid es = none) (seq : List (PG × Nat)) (hg : Genuine S seq) :
    MidsNodup (storeAll seq es) ∧
    ((∀ i, i < S.bodies.length → i ∈ idx S seq) →
        (findEntry S.mid (storeAll seq es)).bind deliv = some ⟨S.bodies.flatten, S.src, S.vid⟩ ∧
        findEntry S.mid ((storeAll seq es).filter stays) = none) ∧
    (¬ (∀ i, i < S.bodies.length → i ∈ idx S seq) → (findEntry S.mid (storeAll seq es)).bind deliv = none) := by
  have hb := batch_step S hn hu seq es hnd (noEntry_SInv S es hno) hg
  simp only at hb
  obtain ⟨_, _, hcase⟩ := hb
  refine ⟨storeAll_nodup seq es hnd, ?_, ?_⟩
  · intro hall
    rcases hcase with ⟨_, _, hnot⟩ | ⟨ho, hf, _⟩
    · exact absurd (fun i hi => Or.inr (hall i hi)) hnot
    · exact ⟨ho, hf⟩
  · intro hnall
    rcases hcase with ⟨ho, _, _⟩ | ⟨_, _, hall⟩
    · exact ho
    · exfalso; apply hnall
      intro i hi
      rcases hall i hi with h | h
      · exact absurd h (noEntry_noKey S es hno i)
      · exact h

/-- any history of batches: whatever the memo's entry ever delivers is the memo itself — same text, source and signer id -/
theorem delivered_content (S : SMemo) (hn : 1 ≤ S.bodies.length) (hu : utf8Valid S.bodies.flatten = true)
    (bs : List (List (PG × Nat))) (es : List Entry) (hnd : MidsNodup es) (hinv : SInv S es) (hg : ∀ b ∈ bs, Genuine S b) :
    ∀ o ∈ runS S bs es, o = none ∨ o = some ⟨S.bodies.flatten, S.src, S.vid⟩ := by
  induction bs generalizing es with
  | nil => intro o ho; simp [runS] at ho
  | cons b bs ih =>
    have hb := batch_step S hn hu b es hnd hinv (hg b (List.mem_cons_self))
    simp only at hb
    obtain ⟨h1, h2, hcase⟩ := hb
    intro o ho
    simp only [runS, List.mem_cons] at ho
    rcases ho with rfl | ho
    · rcases hcase with ⟨h, _⟩ | ⟨h, _⟩
      · left; exact h
      · right; exact h
    · exact ih _ h1 h2 (fun b' hb' => hg b' (List.mem_cons_of_mem _ hb')) o ho

/-- a memo missing any gram is never delivered: if some gram number `j` is not held and never arrives in any batch, the memo's entry
delivers nothing, in any batch, whatever else arrives in whatever order -/
theorem never_incomplete (S : SMemo) (hn : 1 ≤ S.bodies.length) (hu : utf8Valid S.bodies.flatten = true)
    (bs : List (List (PG × Nat))) (es : List Entry) (hnd : MidsNodup es) (hinv : SInv S es) (hg : ∀ b ∈ bs, Genuine S b)
    (j : Nat) (hj : j < S.bodies.length) (hk : ¬ keyOf S es j) (hnever : ∀ b ∈ bs, j ∉ idx S b) :
    ∀ o ∈ runS S bs es, o = none := by
  induction bs generalizing es with
  | nil => intro o ho; simp [runS] at ho
  | cons b bs ih =>
    have hb := batch_step S hn hu b es hnd hinv (hg b (List.mem_cons_self))
    simp only at hb
    obtain ⟨h1, h2, hcase⟩ := hb
    have hjb : j ∉ idx S b := hnever b (List.mem_cons_self)
    intro o ho
    simp only [runS, List.mem_cons] at ho
    rcases hcase with ⟨hnone, hkeys, _⟩ | ⟨_, _, hall⟩
    · rcases ho with rfl | ho
      · exact hnone
      · refine ih _ h1 h2 (fun b' hb' => hg b' (List.mem_cons_of_mem _ hb')) ?_ (fun b' hb' => hnever b' (List.mem_cons_of_mem _ hb')) o ho
        intro hkj
        rcases (hkeys j).mp hkj with h | h
        · exact hk h
        · exact hjb h
    · exfalso
      rcases hall j hj with h | h
      · exact hk h
      · exact hjb h

/-- … and it IS delivered at the end of the batch by which every gram number has arrived (held from earlier batches or in this one) -/
theorem delivered_when_complete (S : SMemo) (hn : 1 ≤ S.bodies.length) (hu : utf8Valid S.bodies.flatten = true)
    (b : List (PG × Nat)) (bs : List (List (PG × Nat))) (es : List Entry) (hnd : MidsNodup es) (hinv : SInv S es) (hg : Genuine S b)
    (hall : ∀ i, i < S.bodies.length → keyOf S es i ∨ i ∈ idx S b) :
    (runS S (b :: bs) es).head? = some (some ⟨S.bodies.flatten, S.src, S.vid⟩) := by
  have hb := batch_step S hn hu b es hnd hinv hg
  simp only at hb
  obtain ⟨_, _, hcase⟩ := hb
  rcases hcase with ⟨_, _, hnot⟩ | ⟨ho, _, _⟩
  · exact absurd hall hnot
  · simp [runS, ho]

/-- grams held across batches accumulate while nothing is delivered (so `delivered_when_complete` chains over a history) -/
theorem keys_accumulate (S : SMemo) (hn : 1 ≤ S.bodies.length) (hu : utf8Valid S.bodies.flatten = true)
    (b : List (PG × Nat)) (es : List Entry) (hnd : MidsNodup es) (hinv : SInv S es) (hg : Genuine S b)
    (hnone : (findEntry S.mid (storeAll b es)).bind deliv = none) :
    ∀ j, keyOf S ((storeAll b es).filter stays) j ↔ keyOf S es j ∨ j ∈ idx S b := by
  have hb := batch_step S hn hu b es hnd hinv hg
  simp only at hb
  obtain ⟨_, _, hcase⟩ := hb
  rcases hcase with ⟨_, hkeys, _⟩ | ⟨ho, _, _⟩
  · exact hkeys
  · rw [ho] at hnone; cases hnone

/-- EXACTLY ONCE, under the guard of known finding K3 (F33): the memo completes in the first batch and afterwards at least one of its
gram numbers never arrives again (i.e. no complete set is replayed) — then it is delivered in that batch and never again -/
theorem exactly_once_unless_replayed (S : SMemo) (hn : 1 ≤ S.bodies.length) (hu : utf8Valid S.bodies.flatten = true)
    (b : List (PG × Nat)) (bs : List (List (PG × Nat))) (es : List Entry) (hnd : MidsNodup es) (hno : findEntry S.mid es = none)
    (hg : Genuine S b) (hgs : ∀ b' ∈ bs, Genuine S b') (hall : ∀ i, i < S.bodies.length → i ∈ idx S b)
    (j : Nat) (hj : j < S.bodies.length) (hnever : ∀ b' ∈ bs, j ∉ idx S b') :
    ∃ rest, runS S (b :: bs) es = some ⟨S.bodies.flatten, S.src, S.vid⟩ :: rest ∧ ∀ o ∈ rest, o = none := by
  have hb := batch_step S hn hu b es hnd (noEntry_SInv S es hno) hg
  simp only at hb
  obtain ⟨h1, h2, hcase⟩ := hb
  rcases hcase with ⟨_, _, hnot⟩ | ⟨ho, hf, _⟩
  · exact absurd (fun i hi => Or.inr (hall i hi)) hnot
  · refine ⟨runS S bs ((storeAll b es).filter stays), by simp [runS, ho], ?_⟩
    exact never_incomplete S hn hu bs _ h1 h2 hgs j hj (noEntry_noKey S _ hf j) hnever

/-- EXACTLY ONCE over a whole history, one packaged statement (under the guard of K3 / F33).  A receiver that holds nothing for the memo's id
sees any history of service batches `pre ++ [b] ++ post` of accepted grams — any order, duplicates, arbitrary other traffic, the memo's grams
spread over the batches — such that after `pre` some gram number is still missing, with `b` every gram number has arrived, and afterwards at
least one gram number never arrives again.  Then the memo's entry delivers nothing during `pre`, delivers the memo — the bodies concatenated,
its source, its signer id — at the end of `b`, and nothing ever after: exactly one delivery, at exactly the batch that completes it. -/
theorem exactly_once_history (S : SMemo) (hn : 1 ≤ S.bodies.length) (hu : utf8Valid S.bodies.flatten = true)
    (pre post : List (List (PG × Nat))) (b : List (PG × Nat)) (es : List Entry) (hnd : MidsNodup es) (hno : findEntry S.mid es = none)
    (hgpre : ∀ b' ∈ pre, Genuine S b') (hgb : Genuine S b) (hgpost : ∀ b' ∈ post, Genuine S b')
    (j0 : Nat) (hj0 : j0 < S.bodies.length) (hmiss : j0 ∉ idx S pre.flatten)
    (hall : ∀ i, i < S.bodies.length → i ∈ idx S (pre.flatten ++ b))
    (j : Nat) (hj : j < S.bodies.length) (hnever : ∀ b' ∈ post, j ∉ idx S b') :
    runS S (pre ++ b :: post) es =
      List.replicate pre.length none ++ some ⟨S.bodies.flatten, S.src, S.vid⟩ :: List.replicate post.length none := by
  obtain ⟨r1, r2, r3, r4⟩ := runS_incomplete_prefix S hn hu pre es hnd (noEntry_SInv S es hno) hgpre j0 hj0 (noEntry_noKey S es hno j0) hmiss
  rw [runS_append, r1]
  congr 1
  have hb := batch_step S hn hu b (stateAfter pre es) r2 r3 hgb
  simp only at hb
  obtain ⟨h1, h2, hcase⟩ := hb
  have hall' : ∀ i, i < S.bodies.length → keyOf S (stateAfter pre es) i ∨ i ∈ idx S b := by
    intro i hi
    have := hall i hi
    rw [idx_append, List.mem_append] at this
    rcases this with h | h
    · left; exact (r4 i).mpr (Or.inr h)
    · right; exact h
  rcases hcase with ⟨_, _, hnot⟩ | ⟨ho, hf, _⟩
  · exact absurd hall' hnot
  · simp only [runS, ho]
    congr 1
    have hnone := never_incomplete S hn hu post _ h1 h2 hgpost j hj (noEntry_noKey S _ hf j) hnever
    exact List.eq_replicate_iff.mpr ⟨runS_length S post _, hnone⟩

/-- rend → pick, unsigned codes, Base64 text headers: EVERY gram `rend` produces is parsed back by `pick` — in any receiver state that holds
no vid for the memo id — into its fields: the memo id, no vid, its gram number, the count (zeroth gram only), and exactly the body `rend` cut -/
theorem grams_parse_b64 (cfg : TxCfg) (hleg : Legal cfg) (hc : cfg.curt = false) (sign : Bytes → Bytes → Except Exn Bytes)
    (memo : Bytes) (vid : Option Bytes) (mid : Bytes) (grams : List Bytes) (hne : memo ≠ []) (hmu : utf8Valid mid = true)
    (zs ns : Sizage) (ncode : Bytes) (hzs : sizesOf cfg.code = .ok zs) (hp : lookupPair cfg.code = .ok ncode) (hns : sizesOf ncode = .ok ns)
    (hu : zs.vz = 0 ∧ zs.az = 0 ∧ ns.vz = 0 ∧ ns.az = 0) (h : rend cfg sign memo vid mid = .ok grams) :
    ∃ bs : List Bytes, bs.flatten = memo ∧ grams.length = bs.length ∧ 1 ≤ bs.length ∧
      ∀ i (hi : i < grams.length) (vidOf : Bytes → Option Bytes) (V : Bytes → Bytes → Bytes → Except Exn Unit), vidOf mid = none →
        pick false vidOf V grams[i] = .ok ⟨mid, none, i, if i = 0 then some bs.length else none, bs.getD i []⟩ := by
  obtain ⟨pl, hpl, hflat, hbnd, hlen, hcnt, hg0, hgi⟩ := rend_fuse cfg sign memo vid mid grams hleg hne h
  obtain ⟨zs', ncode', ns', e1, e2, e3, hml, w1, w2, w3, f1, f2, f3, f4, f5, _, _, _⟩ := rendPlan_fields cfg memo.length vid mid pl hpl
  rw [hzs] at e1; cases e1
  rw [hp] at e2; cases e2
  rw [hns] at e3; cases e3
  obtain ⟨p1, p2, p3, p4, p5, p6, p7, p8, _, _, _, _, _, _, _⟩ := pair_facts cfg.code ncode zs ns hp hzs hns
  obtain ⟨_, hnb, _, hmms⟩ := rendPlan_ok cfg memo.length vid mid pl hleg hpl
  have hwz : pl.zcodeb = cfg.code := by simp [wireOf, hc] at w1; exact w1.symm
  have hwn : pl.ncodeb = ncode := by simp [wireOf, hc] at w2; exact w2.symm
  have hwm : pl.midb = mid := by simp [wireOf, hc] at w3; exact w3.symm
  have hnz : pl.nz = zs.nz := by simp [zszOf, hc] at f1; exact f1
  have hzv : pl.zWithVid = false := by simp [zszOf, hc, hu.1] at f2; exact f2
  have hza : pl.zSigned = false := by simp [zszOf, hc, hu.2.1] at f3; exact f3
  have hnv : pl.nWithVid = false := by simp [hu.2.2.1] at f4; exact f4
  have hna : pl.nSigned = false := by simp [hu.2.2.2] at f5; exact f5
  have hge1 : 1 ≤ (bodies pl.zbz pl.nbz memo).length := by
    rw [bodies_length pl.zbz pl.nbz memo hne hnb]
    unfold gramCount; split
    · exact Nat.le_refl 1
    · exact Nat.le_add_right 1 _
  have hcap : grams.length < 64 ^ zs.nz := by
    rw [hlen, bodies_length pl.zbz pl.nbz memo hne hnb]
    exact Nat.lt_of_le_of_lt (gramCount_le _ _ _ _ p5 hnb hmms) p4
  refine ⟨bodies pl.zbz pl.nbz memo, hflat, hlen, hge1, ?_⟩
  intro i hi vidOf V hvo
  have hib : i < (bodies pl.zbz pl.nbz memo).length := by omega
  have hgetD : (bodies pl.zbz pl.nbz memo).getD i [] = (bodies pl.zbz pl.nbz memo)[i] := by
    simp [List.getD_eq_getElem?_getD, List.getElem?_eq_getElem hib]
  rw [hgetD]
  cases i with
  | zero =>
    have hg := hg0 hib hi
    simp only [mkGram, hzv, hza, hwz, hwm, Bool.false_eq_true, if_false, List.append_nil] at hg
    rw [← Except.ok.inj hg]
    have := header_roundtrip_zeroth_unsigned vidOf V cfg.code pl.gcnt mid (bodies pl.zbz pl.nbz memo)[0] zs grams.length hzs p6 hu.1 hu.2.1 p3 hcap
      (by rw [← hnz, ← hc]; exact hcnt) hml hmu
    simp only [List.append_assoc] at this ⊢
    rw [this, hlen]; simp
  | succ k =>
    obtain ⟨num, hnum, hg⟩ := hgi k hib hi
    simp only [mkGram, hnv, hna, hwn, hwm, Bool.false_eq_true, if_false, List.append_nil] at hg
    rw [← Except.ok.inj hg]
    have := header_roundtrip_later_unsigned vidOf V ncode num mid (bodies pl.zbz pl.nbz memo)[k + 1] ns (k + 1) hns p7 p8 hu.2.2.1 hu.2.2.2
      (by omega) (by rw [p1]; omega) (by rw [p1, ← hnz, ← hc]; exact hnum) (by rw [p2]; exact hml) hmu hvo
    simp only [List.append_assoc] at this ⊢
    rw [this]; simp

/-- rend → pick, unsigned codes, Base2 (`curt`) headers: every gram `rend` produces is parsed back into its fields; the memo id comes back as
the Base64 text of the raw id bytes on the wire -/
theorem grams_parse_b2 (cfg : TxCfg) (hleg : Legal cfg) (hc : cfg.curt = true) (sign : Bytes → Bytes → Except Exn Bytes)
    (memo : Bytes) (vid : Option Bytes) (mid : Bytes) (grams : List Bytes) (hne : memo ≠ [])
    (zs ns : Sizage) (ncode : Bytes) (hzs : sizesOf cfg.code = .ok zs) (hp : lookupPair cfg.code = .ok ncode) (hns : sizesOf ncode = .ok ns)
    (hu : zs.vz = 0 ∧ zs.az = 0 ∧ ns.vz = 0 ∧ ns.az = 0) (h : rend cfg sign memo vid mid = .ok grams) :
    ∃ (bs : List Bytes) (midb : Bytes), decodeB64 mid = some midb ∧ bs.flatten = memo ∧ grams.length = bs.length ∧ 1 ≤ bs.length ∧
      ∀ i (hi : i < grams.length) (vidOf : Bytes → Option Bytes) (V : Bytes → Bytes → Bytes → Except Exn Unit), vidOf (encodeB64 midb) = none →
        pick false vidOf V grams[i] = .ok ⟨encodeB64 midb, none, i, if i = 0 then some bs.length else none, bs.getD i []⟩ := by
  obtain ⟨pl, hpl, hflat, hbnd, hlen, hcnt, hg0, hgi⟩ := rend_fuse cfg sign memo vid mid grams hleg hne h
  obtain ⟨zs', ncode', ns', e1, e2, e3, hml, w1, w2, w3, f1, f2, f3, f4, f5, _, _, _⟩ := rendPlan_fields cfg memo.length vid mid pl hpl
  rw [hzs] at e1; cases e1
  rw [hp] at e2; cases e2
  rw [hns] at e3; cases e3
  obtain ⟨p1, p2, p3, p4, p5, p6, p7, p8, p9, _, _, _, _, _, _⟩ := pair_facts cfg.code ncode zs ns hp hzs hns
  obtain ⟨_, hnb, _, hmms⟩ := rendPlan_ok cfg memo.length vid mid pl hleg hpl
  have dz : decodeB64 cfg.code = some pl.zcodeb := by
    simp only [wireOf, hc, if_true, decodeOrRaise] at w1; split at w1 <;> simp_all
  have dn : decodeB64 ncode = some pl.ncodeb := by
    simp only [wireOf, hc, if_true, decodeOrRaise] at w2; split at w2 <;> simp_all
  have dm : decodeB64 mid = some pl.midb := by
    simp only [wireOf, hc, if_true, decodeOrRaise] at w3; split at w3 <;> simp_all
  have hmlen : pl.midb.length = zs.scale.mz := by
    have := decodeB64_length mid pl.midb dm
    simp only [Sizage.scale]; omega
  have hnz : pl.nz = zs.scale.nz := by simp [zszOf, hc] at f1; exact f1
  have hzv : pl.zWithVid = false := by simp [zszOf, hc, Sizage.scale, hu.1] at f2; exact f2
  have hza : pl.zSigned = false := by simp [zszOf, hc, Sizage.scale, hu.2.1] at f3; exact f3
  have hnv : pl.nWithVid = false := by simp [hu.2.2.1] at f4; exact f4
  have hna : pl.nSigned = false := by simp [hu.2.2.2] at f5; exact f5
  have hge1 : 1 ≤ (bodies pl.zbz pl.nbz memo).length := by
    rw [bodies_length pl.zbz pl.nbz memo hne hnb]
    unfold gramCount; split
    · exact Nat.le_refl 1
    · exact Nat.le_add_right 1 _
  refine ⟨bodies pl.zbz pl.nbz memo, pl.midb, dm, hflat, hlen, hge1, ?_⟩
  intro i hi vidOf V hvo
  have hib : i < (bodies pl.zbz pl.nbz memo).length := by omega
  have hgetD : (bodies pl.zbz pl.nbz memo).getD i [] = (bodies pl.zbz pl.nbz memo)[i] := by
    simp [List.getD_eq_getElem?_getD, List.getElem?_eq_getElem hib]
  rw [hgetD]
  cases i with
  | zero =>
    have hg := hg0 hib hi
    simp only [mkGram, hzv, hza, Bool.false_eq_true, if_false, List.append_nil] at hg
    rw [← Except.ok.inj hg]
    have := header_roundtrip_b2_zeroth_unsigned vidOf V cfg.code pl.zcodeb pl.gcnt pl.midb (bodies pl.zbz pl.nbz memo)[0] zs grams.length
      hzs p6 hu.1 hu.2.1 dz (by rw [← hnz, ← hc]; exact hcnt) hmlen
    simp only [List.append_assoc] at this ⊢
    rw [this, hlen]; simp
  | succ k =>
    obtain ⟨num, hnum, hg⟩ := hgi k hib hi
    simp only [mkGram, hnv, hna, Bool.false_eq_true, if_false, List.append_nil] at hg
    rw [← Except.ok.inj hg]
    have hsn : ns.scale.nz = zs.scale.nz := by simp [Sizage.scale, p1]
    have hsm : ns.scale.mz = zs.scale.mz := by simp [Sizage.scale, p2]
    have := header_roundtrip_b2_later_unsigned vidOf V ncode pl.ncodeb num pl.midb (bodies pl.zbz pl.nbz memo)[k + 1] ns (k + 1)
      hns p7 p8 hu.2.2.1 hu.2.2.2 dn (by rw [hsn, ← hnz, ← hc]; exact hnum) (by rw [hsm]; exact hmlen) hvo
    simp only [List.append_assoc] at this ⊢
    rw [this]; simp

/-- the receiver half of every end-to-end statement: a queue that `pick` accepts as the grams `is` of the memo `S`, handed to an empty
receiver in one `serviceAllRx()` — nothing raises, the queue is consumed, the receiver delivers EXACTLY `[(text, source, vid)]` when every
gram number occurs in `is` (and keeps nothing), and NOTHING when one is missing -/
theorem end_to_end_of_picks (authic : Bool) (S : SMemo) (hn : 1 ≤ S.bodies.length) (hu : utf8Valid S.bodies.flatten = true)
    (V : Bytes → Bytes → Bytes → Except Exn Unit) (q : List (Bytes × Nat)) (is : List Nat) (his : ∀ i ∈ is, i < S.bodies.length)
    (hpk : picks authic V q [] = some (is.map fun i => (S.gram i, S.src))) :
    ∃ o, serviceAllRx authic V [] q = .ok o ∧ o.queue = [] ∧
      ((∀ i, i < S.bodies.length → i ∈ is) → o.delivered = [⟨S.bodies.flatten, S.src, S.vid⟩] ∧ o.entries = []) ∧
      (¬ (∀ i, i < S.bodies.length → i ∈ is) → o.delivered = []) := by
  have hnd0 : MidsNodup [] := by simp [MidsNodup]
  have hsvc := service_is_store_then_fuse authic V _ [] _ hpk
  refine ⟨_, hsvc, rfl, ?_⟩
  have hgen := genuine_map_gram S is his
  obtain ⟨hnd1, hyes, hno⟩ := reassembly_one_batch S hn hu [] hnd0 rfl _ hgen
  rw [idx_map_gram] at hyes hno
  have honly := storeAll_only S.mid (is.map fun i => (S.gram i, S.src)) [] (by
    intro x hx; obtain ⟨i, _, rfl⟩ := List.mem_map.mp hx; rfl) (by intro e he; cases he)
  rcases single_entry S.mid _ hnd1 honly with hnil | ⟨e, he⟩
  · simp only [hnil] at hyes hno ⊢
    constructor
    · intro hall; have := (hyes hall).1; simp [findEntry] at this
    · intro _; rfl
  · have hem : e.mid = S.mid := honly e (by rw [he]; exact List.mem_cons_self)
    simp only [he] at hyes hno ⊢
    have hfe : findEntry S.mid [e] = some e := by simp [findEntry, hem]
    rw [hfe] at hyes hno
    simp only [Option.bind_some] at hyes hno
    constructor
    · intro hall
      obtain ⟨h1, h2⟩ := hyes hall
      have hst : stays e = false := by
        rw [findEntry_filter stays S.mid [e] (by rw [← he]; exact hnd1), hfe] at h2
        simp only at h2
        cases hs : stays e with
        | false => rfl
        | true => rw [hs] at h2; simp at h2
      simp [List.filterMap, h1, List.filter, hst]
    · intro hnall
      simp [List.filterMap, hno hnall]

/-- generic composition, memo without signer id: the grams are `G 0 … G (n-1)`, each parsed by `pick` (in any state holding no vid for the memo
id) into gram `i` of `S`; ANY delivery sequence `is` of gram numbers — any order, any duplicates -/
theorem end_to_end_generic (S : SMemo) (hn : 1 ≤ S.bodies.length) (hu : utf8Valid S.bodies.flatten = true) (hv : S.vid = none)
    (V : Bytes → Bytes → Bytes → Except Exn Unit) (G : Nat → Bytes)
    (hG : ∀ i, i < S.bodies.length → ∀ vidOf : Bytes → Option Bytes, vidOf S.mid = none → pick false vidOf V (G i) = .ok (S.gram i))
    (is : List Nat) (his : ∀ i ∈ is, i < S.bodies.length) :
    ∃ o, serviceAllRx false V [] (is.map fun i => (G i, S.src)) = .ok o ∧ o.queue = [] ∧
      ((∀ i, i < S.bodies.length → i ∈ is) → o.delivered = [⟨S.bodies.flatten, S.src, S.vid⟩] ∧ o.entries = []) ∧
      (¬ (∀ i, i < S.bodies.length → i ∈ is) → o.delivered = []) :=
  end_to_end_of_picks false S hn hu V _ is his (picks_genuine S hv V G hG is his [] (noEntry_SInv S [] rfl))

/-- generic composition, signed memo, under the guard of K2 (F32) that the zeroth gram comes FIRST: the zeroth gram is accepted in any state,
every gram is accepted once the receiver holds the memo's vid; then ANY order and duplication of the rest -/
theorem end_to_end_generic_zeroth_first (authic : Bool) (S : SMemo) (hn : 1 ≤ S.bodies.length) (hu : utf8Valid S.bodies.flatten = true)
    (V : Bytes → Bytes → Bytes → Except Exn Unit) (G : Nat → Bytes)
    (hG0 : ∀ vidOf : Bytes → Option Bytes, pick authic vidOf V (G 0) = .ok (S.gram 0))
    (hG : ∀ i, i < S.bodies.length → ∀ vidOf : Bytes → Option Bytes, vidOf S.mid = S.vid → pick authic vidOf V (G i) = .ok (S.gram i))
    (rest : List Nat) (his : ∀ i ∈ rest, i < S.bodies.length) :
    ∃ o, serviceAllRx authic V [] ((0 :: rest).map fun i => (G i, S.src)) = .ok o ∧ o.queue = [] ∧
      ((∀ i, i < S.bodies.length → i ∈ 0 :: rest) → o.delivered = [⟨S.bodies.flatten, S.src, S.vid⟩] ∧ o.entries = []) ∧
      (¬ (∀ i, i < S.bodies.length → i ∈ 0 :: rest) → o.delivered = []) :=
  end_to_end_of_picks authic S hn hu V _ (0 :: rest)
    (by intro i hi; rcases List.mem_cons.mp hi with rfl | hi
        · omega
        · exact his i hi)
    (picks_zeroth_first authic S hn V G hG0 hG rest his [] (noEntry_SInv S [] rfl))

/-- SEVERAL memos interleaved, generic composition: a family `F` of memos with pairwise different ids (none carrying a signer id), the grams
of memo `S` being `G S 0 … G S (n_S - 1)`, each parsed by `pick` into gram `i` of `S` in any state holding no vid for its id.  ANY sequence `js`
of (memo, gram number) — the grams of all memos shuffled together, any order, any duplicates — handed to an empty receiver in one
`serviceAllRx()`: nothing raises, the queue is consumed, and a record is delivered if and only if it is the record (text, source, vid) of a
memo of the family ALL of whose grams occur in the sequence — each memo independently of the others.  No memo is delivered twice: the
delivered list is `deliv` of a list of entries with pairwise different ids, each belonging to a memo of the family. -/
theorem end_to_end_interleaved (F : List SMemo) (hinj : MidInj F) (hv : ∀ S ∈ F, S.vid = none)
    (hn : ∀ S ∈ F, 1 ≤ S.bodies.length) (hu : ∀ S ∈ F, utf8Valid S.bodies.flatten = true)
    (V : Bytes → Bytes → Bytes → Except Exn Unit) (G : SMemo → Nat → Bytes)
    (hG : ∀ S ∈ F, ∀ i, i < S.bodies.length → ∀ vidOf : Bytes → Option Bytes, vidOf S.mid = none → pick false vidOf V (G S i) = .ok (S.gram i))
    (js : List (SMemo × Nat)) (hjs : ∀ x ∈ js, x.1 ∈ F ∧ x.2 < x.1.bodies.length) :
    ∃ o, serviceAllRx false V [] (js.map fun x => (G x.1 x.2, x.1.src)) = .ok o ∧ o.queue = [] ∧
      (∀ m, m ∈ o.delivered ↔ ∃ S ∈ F, (∀ i, i < S.bodies.length → (S, i) ∈ js) ∧ m = ⟨S.bodies.flatten, S.src, S.vid⟩) ∧
      (∃ es1, MidsNodup es1 ∧ o.delivered = es1.filterMap deliv ∧ ∀ e ∈ es1, ∃ S ∈ F, e.mid = S.mid) := by
  have hnd0 : MidsNodup [] := by simp [MidsNodup]
  have hpk := picks_family F hinj hv V G hG js hjs [] (fun S _ => noEntry_SInv S [] rfl)
  have hsvc := service_is_store_then_fuse false V _ [] _ hpk
  refine ⟨_, hsvc, rfl, ?_, ?_⟩
  · have hnd1 := storeAll_nodup (js.map fun x => (x.1.gram x.2, x.1.src)) [] hnd0
    have hper : ∀ S ∈ F, ((∀ i, i < S.bodies.length → (S, i) ∈ js) →
          (findEntry S.mid (storeAll (js.map fun x => (x.1.gram x.2, x.1.src)) [])).bind deliv = some ⟨S.bodies.flatten, S.src, S.vid⟩) ∧
        (¬ (∀ i, i < S.bodies.length → (S, i) ∈ js) →
          (findEntry S.mid (storeAll (js.map fun x => (x.1.gram x.2, x.1.src)) [])).bind deliv = none) := by
      intro S hS
      obtain ⟨_, hyes, hno⟩ := reassembly_one_batch S (hn S hS) (hu S hS) [] hnd0 rfl _ (genuine_family F hinj js hjs S hS)
      constructor
      · intro hall
        exact (hyes (fun i hi => (idx_family F hinj js hjs S hS i).mpr (hall i hi))).1
      · intro hnall
        apply hno
        intro hall
        exact hnall (fun i hi => (idx_family F hinj js hjs S hS i).mp (hall i hi))
    intro m
    simp only [List.mem_filterMap]
    constructor
    · rintro ⟨e, he, hd⟩
      rcases storeAll_mid_mem _ [] e he with ⟨y, hy, hym⟩ | h
      · obtain ⟨x, hx, rfl⟩ := List.mem_map.mp hy
        obtain ⟨hxF, _⟩ := hjs x hx
        have hfe : findEntry x.1.mid (storeAll (js.map fun x => (x.1.gram x.2, x.1.src)) []) = some e := by
          have := findEntry_of_mem_nodup _ hnd1 e he
          rw [← hym] at this; exact this
        by_cases hall : ∀ i, i < x.1.bodies.length → (x.1, i) ∈ js
        · have := (hper x.1 hxF).1 hall
          rw [hfe] at this
          simp only [Option.bind_some] at this
          rw [hd] at this
          exact ⟨x.1, hxF, hall, (Option.some.inj this)⟩
        · have := (hper x.1 hxF).2 hall
          rw [hfe] at this
          simp only [Option.bind_some] at this
          rw [hd] at this; cases this
      · simp at h
    · rintro ⟨S, hS, hall, rfl⟩
      have := (hper S hS).1 hall
      cases hfe : findEntry S.mid (storeAll (js.map fun x => (x.1.gram x.2, x.1.src)) []) with
      | none => rw [hfe] at this; simp at this
      | some e =>
        rw [hfe] at this
        simp only [Option.bind_some] at this
        exact ⟨e, (findEntry_mem _ _ _ hfe).1, this⟩
  · refine ⟨_, storeAll_nodup _ [] hnd0, rfl, ?_⟩
    intro e he
    rcases storeAll_mid_mem _ [] e he with ⟨y, hy, hym⟩ | h
    · obtain ⟨x, hx, rfl⟩ := List.mem_map.mp hy
      exact ⟨x.1, (hjs x hx).1, hym.symm⟩
    · simp at h

/-- END TO END, unsigned codes with Base64 text headers: for ANY configuration history ending in such a code, ANY non-empty memo `rend`
accepts, and ANY delivery sequence of its grams (order, duplicates) to an empty receiver in one service call: the memo is delivered exactly
once — same text, same source, no signer id — if and only if every gram is in the sequence; with a gram missing nothing is delivered -/
theorem end_to_end_unsigned_b64 (cfg : TxCfg) (hleg : Legal cfg) (hc : cfg.curt = false) (sign : Bytes → Bytes → Except Exn Bytes)
    (memo : Bytes) (vid : Option Bytes) (mid : Bytes) (grams : List Bytes) (hne : memo ≠ []) (hmu : utf8Valid mid = true)
    (hmemo : utf8Valid memo = true)
    (zs ns : Sizage) (ncode : Bytes) (hzs : sizesOf cfg.code = .ok zs) (hp : lookupPair cfg.code = .ok ncode) (hns : sizesOf ncode = .ok ns)
    (hu : zs.vz = 0 ∧ zs.az = 0 ∧ ns.vz = 0 ∧ ns.az = 0) (h : rend cfg sign memo vid mid = .ok grams)
    (src : Nat) (V : Bytes → Bytes → Bytes → Except Exn Unit) (is : List Nat) (his : ∀ i ∈ is, i < grams.length) :
    ∃ o, serviceAllRx false V [] (is.map fun i => (grams.getD i [], src)) = .ok o ∧ o.queue = [] ∧
      ((∀ i, i < grams.length → i ∈ is) → o.delivered = [⟨memo, src, none⟩] ∧ o.entries = []) ∧
      (¬ (∀ i, i < grams.length → i ∈ is) → o.delivered = []) := by
  obtain ⟨bs, hflat, hlen, hge, hparse⟩ := grams_parse_b64 cfg hleg hc sign memo vid mid grams hne hmu zs ns ncode hzs hp hns hu h
  have := end_to_end_generic ⟨mid, bs, src, none⟩ hge (by simpa [hflat] using hmemo) rfl V (fun i => grams.getD i [])
    (by
      intro i hi vidOf hvo
      have hig : i < grams.length := by rw [hlen]; exact hi
      have := hparse i hig vidOf V hvo
      simp only [List.getD_eq_getElem?_getD, List.getElem?_eq_getElem hig, Option.getD_some]
      rw [this]; rfl)
    is (by intro i hi; have := his i hi; simpa [← hlen] using this)
  simpa [hflat, ← hlen] using this

/-- END TO END, unsigned codes with Base2 (`curt`) headers — same statement as `end_to_end_unsigned_b64` -/
theorem end_to_end_unsigned_b2 (cfg : TxCfg) (hleg : Legal cfg) (hc : cfg.curt = true) (sign : Bytes → Bytes → Except Exn Bytes)
    (memo : Bytes) (vid : Option Bytes) (mid : Bytes) (grams : List Bytes) (hne : memo ≠ []) (hmemo : utf8Valid memo = true)
    (zs ns : Sizage) (ncode : Bytes) (hzs : sizesOf cfg.code = .ok zs) (hp : lookupPair cfg.code = .ok ncode) (hns : sizesOf ncode = .ok ns)
    (hu : zs.vz = 0 ∧ zs.az = 0 ∧ ns.vz = 0 ∧ ns.az = 0) (h : rend cfg sign memo vid mid = .ok grams)
    (src : Nat) (V : Bytes → Bytes → Bytes → Except Exn Unit) (is : List Nat) (his : ∀ i ∈ is, i < grams.length) :
    ∃ o, serviceAllRx false V [] (is.map fun i => (grams.getD i [], src)) = .ok o ∧ o.queue = [] ∧
      ((∀ i, i < grams.length → i ∈ is) → o.delivered = [⟨memo, src, none⟩] ∧ o.entries = []) ∧
      (¬ (∀ i, i < grams.length → i ∈ is) → o.delivered = []) := by
  obtain ⟨bs, midb, _, hflat, hlen, hge, hparse⟩ := grams_parse_b2 cfg hleg hc sign memo vid mid grams hne zs ns ncode hzs hp hns hu h
  have := end_to_end_generic ⟨encodeB64 midb, bs, src, none⟩ hge (by simpa [hflat] using hmemo) rfl V (fun i => grams.getD i [])
    (by
      intro i hi vidOf hvo
      have hig : i < grams.length := by rw [hlen]; exact hi
      have := hparse i hig vidOf V hvo
      simp only [List.getD_eq_getElem?_getD, List.getElem?_eq_getElem hig, Option.getD_some]
      rw [this]; rfl)
    is (by intro i hi; have := his i hi; simpa [← hlen] using this)
  simpa [hflat, ← hlen] using this

/-- rend → pick, SIGNED codes, Base64 text headers.  Assumption on the signature scheme (hypothesis `hsv`, never an axiom): what `sign` returns
for the signer id has the signature size of the table and passes `verify` for that id and that signed part.  Then the zeroth gram is parsed back in
ANY receiver state, and every later gram in any state that holds the memo's vid (K2 / F32: in a state that does not, it is rejected —
`header_roundtrip_later_signed`) -/
theorem grams_parse_b64_signed (authic : Bool) (cfg : TxCfg) (hleg : Legal cfg) (hc : cfg.curt = false) (sign : Bytes → Bytes → Except Exn Bytes)
    (memo vidt mid : Bytes) (grams : List Bytes) (hne : memo ≠ []) (hmu : utf8Valid mid = true) (hvu : utf8Valid vidt = true)
    (zs ns : Sizage) (ncode : Bytes) (hzs : sizesOf cfg.code = .ok zs) (hp : lookupPair cfg.code = .ok ncode) (hns : sizesOf ncode = .ok ns)
    (hs : zs.vz ≠ 0 ∧ zs.az ≠ 0) (V : Bytes → Bytes → Bytes → Except Exn Unit)
    (hsv : ∀ ser sig, sign vidt ser = .ok sig → sig.length = zs.az ∧ V vidt sig ser = .ok ())
    (h : rend cfg sign memo (some vidt) mid = .ok grams) :
    ∃ bs : List Bytes, bs.flatten = memo ∧ grams.length = bs.length ∧ 1 ≤ bs.length ∧
      ∀ i (hi : i < grams.length) (vidOf : Bytes → Option Bytes), (i = 0 ∨ vidOf mid = some vidt) →
        pick authic vidOf V grams[i] = .ok ⟨mid, some vidt, i, if i = 0 then some bs.length else none, bs.getD i []⟩ := by
  obtain ⟨pl, hpl, hflat, hbnd, hlen, hcnt, hg0, hgi⟩ := rend_fuse cfg sign memo (some vidt) mid grams hleg hne h
  obtain ⟨zs', ncode', ns', e1, e2, e3, hml, w1, w2, w3, f1, f2, f3, f4, f5, v1, v2, v3⟩ := rendPlan_fields cfg memo.length (some vidt) mid pl hpl
  rw [hzs] at e1; cases e1
  rw [hp] at e2; cases e2
  rw [hns] at e3; cases e3
  obtain ⟨p1, p2, p3, p4, p5, p6, p7, p8, _, p10, p11, p12, _, _, _⟩ := pair_facts cfg.code ncode zs ns hp hzs hns
  obtain ⟨ha1, ha2⟩ := p12 hs.2
  obtain ⟨_, hnb, _, hmms⟩ := rendPlan_ok cfg memo.length (some vidt) mid pl hleg hpl
  simp only [Option.getD_some] at v1 v2 v3
  obtain ⟨hvne, hvlen⟩ := v3 hs.1
  have hwz : pl.zcodeb = cfg.code := by simp [wireOf, hc] at w1; exact w1.symm
  have hwn : pl.ncodeb = ncode := by simp [wireOf, hc] at w2; exact w2.symm
  have hwm : pl.midb = mid := by simp [wireOf, hc] at w3; exact w3.symm
  have hwv : pl.vidb = vidt := by simp [wireOf, hc] at v2; exact v2.symm
  have hnz : pl.nz = zs.nz := by simp [zszOf, hc] at f1; exact f1
  have hzv : pl.zWithVid = true := by simp [zszOf, hc, hs.1] at f2; exact f2
  have hza : pl.zSigned = true := by simp [zszOf, hc, hs.2] at f3; exact f3
  have hnv : pl.nWithVid = false := by simp [p11] at f4; exact f4
  have hna : pl.nSigned = true := by simp [p10, hs.2] at f5; exact f5
  have hge1 : 1 ≤ (bodies pl.zbz pl.nbz memo).length := by
    rw [bodies_length pl.zbz pl.nbz memo hne hnb]
    unfold gramCount; split
    · exact Nat.le_refl 1
    · exact Nat.le_add_right 1 _
  have hcap : grams.length < 64 ^ zs.nz := by
    rw [hlen, bodies_length pl.zbz pl.nbz memo hne hnb]
    exact Nat.lt_of_le_of_lt (gramCount_le _ _ _ _ p5 hnb hmms) p4
  refine ⟨bodies pl.zbz pl.nbz memo, hflat, hlen, hge1, ?_⟩
  intro i hi vidOf hcase
  have hib : i < (bodies pl.zbz pl.nbz memo).length := by omega
  have hgetD : (bodies pl.zbz pl.nbz memo).getD i [] = (bodies pl.zbz pl.nbz memo)[i] := by
    simp [List.getD_eq_getElem?_getD, List.getElem?_eq_getElem hib]
  rw [hgetD]
  cases i with
  | zero =>
    have hg := hg0 hib hi
    simp only [mkGram, hzv, hza, hwz, hwm, hwv, v1, if_true] at hg
    split at hg
    · rename_i sig hsig
      obtain ⟨hsl, hver⟩ := hsv _ sig hsig
      rw [← Except.ok.inj hg]
      have hsne : sig ≠ [] := by intro h0; rw [h0] at hsl; simp at hsl; exact hs.2 hsl.symm
      have := header_roundtrip_zeroth_signed authic vidOf V cfg.code pl.gcnt mid vidt (bodies pl.zbz pl.nbz memo)[0] sig zs grams.length
        hzs ha1 p6 p3 hcap (by rw [← hnz, ← hc]; exact hcnt) hml hmu hvlen hvne hvu hsl hsne (by simpa [List.append_assoc] using hver)
      simp only [List.append_assoc] at this ⊢
      rw [this, hlen]; simp
    · simp at hg
  | succ k =>
    have hvo : vidOf mid = some vidt := by
      rcases hcase with h0 | h0
      · omega
      · exact h0
    obtain ⟨num, hnum, hg⟩ := hgi k hib hi
    simp only [mkGram, hnv, hna, hwn, hwm, v1, if_true, Bool.false_eq_true, if_false, List.append_nil] at hg
    split at hg
    · rename_i sig hsig
      obtain ⟨hsl, hver⟩ := hsv _ sig hsig
      rw [← Except.ok.inj hg]
      have hsne : sig ≠ [] := by intro h0; rw [h0] at hsl; simp at hsl; exact hs.2 hsl.symm
      have := (header_roundtrip_later_signed authic vidOf V ncode num mid (bodies pl.zbz pl.nbz memo)[k + 1] sig ns (k + 1)
        hns ha2 p7 p8 p11 (by omega) (by rw [p1]; omega) (by rw [p1, ← hnz, ← hc]; exact hnum) (by rw [p2]; exact hml) hmu
        (by rw [p10]; exact hsl) hsne).1 vidt hvo hvne hvu (by simpa [List.append_assoc] using hver)
      simp only [List.append_assoc] at this ⊢
      rw [this]; simp
    · simp at hg

/-- END TO END, SIGNED codes with Base64 text headers, receiver requiring signatures or not, under the guard of K2 (F32) that the zeroth gram
arrives first: for ANY configuration history ending in a signed code, ANY non-empty memo `rend` accepts for signer id `vidt`, ANY order and
duplication of the remaining grams, one service call on an empty receiver: the memo is delivered exactly once with the same text, source and
signer id if and only if every gram is in the sequence; with a gram missing nothing is delivered -/
theorem end_to_end_signed_b64 (authic : Bool) (cfg : TxCfg) (hleg : Legal cfg) (hc : cfg.curt = false) (sign : Bytes → Bytes → Except Exn Bytes)
    (memo vidt mid : Bytes) (grams : List Bytes) (hne : memo ≠ []) (hmu : utf8Valid mid = true) (hvu : utf8Valid vidt = true)
    (hmemo : utf8Valid memo = true)
    (zs ns : Sizage) (ncode : Bytes) (hzs : sizesOf cfg.code = .ok zs) (hp : lookupPair cfg.code = .ok ncode) (hns : sizesOf ncode = .ok ns)
    (hs : zs.vz ≠ 0 ∧ zs.az ≠ 0) (V : Bytes → Bytes → Bytes → Except Exn Unit)
    (hsv : ∀ ser sig, sign vidt ser = .ok sig → sig.length = zs.az ∧ V vidt sig ser = .ok ())
    (h : rend cfg sign memo (some vidt) mid = .ok grams) (src : Nat) (rest : List Nat) (his : ∀ i ∈ rest, i < grams.length) :
    ∃ o, serviceAllRx authic V [] ((0 :: rest).map fun i => (grams.getD i [], src)) = .ok o ∧ o.queue = [] ∧
      ((∀ i, i < grams.length → i ∈ 0 :: rest) → o.delivered = [⟨memo, src, some vidt⟩] ∧ o.entries = []) ∧
      (¬ (∀ i, i < grams.length → i ∈ 0 :: rest) → o.delivered = []) := by
  obtain ⟨bs, hflat, hlen, hge, hparse⟩ := grams_parse_b64_signed authic cfg hleg hc sign memo vidt mid grams hne hmu hvu zs ns ncode hzs hp hns hs V hsv h
  have hpk : ∀ i, i < bs.length → ∀ vidOf : Bytes → Option Bytes, (i = 0 ∨ vidOf mid = some vidt) →
      pick authic vidOf V (grams.getD i []) = .ok ((⟨mid, bs, src, some vidt⟩ : SMemo).gram i) := by
    intro i hi vidOf hcase
    have hig : i < grams.length := by rw [hlen]; exact hi
    have := hparse i hig vidOf hcase
    simp only [List.getD_eq_getElem?_getD, List.getElem?_eq_getElem hig, Option.getD_some]
    rw [this]; rfl
  have := end_to_end_generic_zeroth_first authic ⟨mid, bs, src, some vidt⟩ hge (by simpa [hflat] using hmemo) V (fun i => grams.getD i [])
    (fun vidOf => hpk 0 (by omega) vidOf (Or.inl rfl))
    (fun i hi vidOf hvo => hpk i hi vidOf (Or.inr hvo))
    rest (by intro i hi; have := his i hi; simpa [← hlen] using this)
  simpa [hflat, ← hlen] using this

/-- rend → pick, SIGNED codes, Base2 (`curt`) headers: same as `grams_parse_b64_signed`; on the wire mid, vid and signature are raw bytes, `pick`
re-encodes them and — `encodeB64 (decodeB64 t) = t` — hands back exactly the texts the sender used.  `sign` returns the signature in wire
form (raw); the assumption `hsv` is about its Base64 text, which is what `verify` is given -/
theorem grams_parse_b2_signed (authic : Bool) (cfg : TxCfg) (hleg : Legal cfg) (hc : cfg.curt = true) (sign : Bytes → Bytes → Except Exn Bytes)
    (memo vidt mid : Bytes) (grams : List Bytes) (hne : memo ≠ []) (hvu : utf8Valid vidt = true)
    (zs ns : Sizage) (ncode : Bytes) (hzs : sizesOf cfg.code = .ok zs) (hp : lookupPair cfg.code = .ok ncode) (hns : sizesOf ncode = .ok ns)
    (hs : zs.vz ≠ 0 ∧ zs.az ≠ 0) (V : Bytes → Bytes → Bytes → Except Exn Unit)
    (hsv : ∀ ser sig, sign vidt ser = .ok sig → sig.length = zs.scale.az ∧ V vidt (encodeB64 sig) ser = .ok ())
    (h : rend cfg sign memo (some vidt) mid = .ok grams) :
    ∃ bs : List Bytes, bs.flatten = memo ∧ grams.length = bs.length ∧ 1 ≤ bs.length ∧
      ∀ i (hi : i < grams.length) (vidOf : Bytes → Option Bytes), (i = 0 ∨ vidOf mid = some vidt) →
        pick authic vidOf V grams[i] = .ok ⟨mid, some vidt, i, if i = 0 then some bs.length else none, bs.getD i []⟩ := by
  obtain ⟨pl, hpl, hflat, hbnd, hlen, hcnt, hg0, hgi⟩ := rend_fuse cfg sign memo (some vidt) mid grams hleg hne h
  obtain ⟨zs', ncode', ns', e1, e2, e3, hml, w1, w2, w3, f1, f2, f3, f4, f5, v1, v2, v3⟩ := rendPlan_fields cfg memo.length (some vidt) mid pl hpl
  rw [hzs] at e1; cases e1
  rw [hp] at e2; cases e2
  rw [hns] at e3; cases e3
  obtain ⟨p1, p2, p3, p4, p5, p6, p7, p8, p9, p10, p11, p12, p13, p14, p15⟩ := pair_facts cfg.code ncode zs ns hp hzs hns
  obtain ⟨ha1, ha2⟩ := p12 hs.2
  have hsaz := p13 hs.2
  have hsvz := p14 hs.1
  obtain ⟨_, hnb, _, hmms⟩ := rendPlan_ok cfg memo.length (some vidt) mid pl hleg hpl
  simp only [Option.getD_some] at v1 v2 v3
  obtain ⟨hvne, hvlen⟩ := v3 hs.1
  have dz : decodeB64 cfg.code = some pl.zcodeb := by
    simp only [wireOf, hc, if_true, decodeOrRaise] at w1; split at w1 <;> simp_all
  have dn : decodeB64 ncode = some pl.ncodeb := by
    simp only [wireOf, hc, if_true, decodeOrRaise] at w2; split at w2 <;> simp_all
  have dm : decodeB64 mid = some pl.midb := by
    simp only [wireOf, hc, if_true, decodeOrRaise] at w3; split at w3 <;> simp_all
  have dv : decodeB64 vidt = some pl.vidb := by
    simp only [wireOf, hc, if_true, decodeOrRaise] at v2; split at v2 <;> simp_all
  have em : encodeB64 pl.midb = mid := encode_decode mid pl.midb dm
  have ev : encodeB64 pl.vidb = vidt := encode_decode vidt pl.vidb dv
  have hmlen : pl.midb.length = zs.scale.mz := by
    have := decodeB64_length mid pl.midb dm
    simp only [Sizage.scale]; omega
  have hvlen2 : pl.vidb.length = zs.scale.vz := by
    have := decodeB64_length vidt pl.vidb dv
    simp only [Sizage.scale]; omega
  have hnz : pl.nz = zs.scale.nz := by simp [zszOf, hc] at f1; exact f1
  have hzv : pl.zWithVid = true := by simp [zszOf, hc, hsvz] at f2; exact f2
  have hza : pl.zSigned = true := by simp [zszOf, hc, hsaz] at f3; exact f3
  have hnv : pl.nWithVid = false := by simp [p11] at f4; exact f4
  have hna : pl.nSigned = true := by simp [p10, hs.2] at f5; exact f5
  have hsn : ns.scale.nz = zs.scale.nz := by simp [Sizage.scale, p1]
  have hsm : ns.scale.mz = zs.scale.mz := by simp [Sizage.scale, p2]
  have hsa : ns.scale.az = zs.scale.az := by simp [Sizage.scale, p10]
  have hsv0 : ns.scale.vz = 0 := by simp [Sizage.scale, p11]
  have hge1 : 1 ≤ (bodies pl.zbz pl.nbz memo).length := by
    rw [bodies_length pl.zbz pl.nbz memo hne hnb]
    unfold gramCount; split
    · exact Nat.le_refl 1
    · exact Nat.le_add_right 1 _
  have hve : vidt.isEmpty = false := by cases vidt <;> simp_all
  refine ⟨bodies pl.zbz pl.nbz memo, hflat, hlen, hge1, ?_⟩
  intro i hi vidOf hcase
  have hib : i < (bodies pl.zbz pl.nbz memo).length := by omega
  have hgetD : (bodies pl.zbz pl.nbz memo).getD i [] = (bodies pl.zbz pl.nbz memo)[i] := by
    simp [List.getD_eq_getElem?_getD, List.getElem?_eq_getElem hib]
  rw [hgetD]
  cases i with
  | zero =>
    have hg := hg0 hib hi
    simp only [mkGram, hzv, hza, v1, if_true] at hg
    split at hg
    · rename_i sig hsig
      obtain ⟨hsl, hver⟩ := hsv _ sig hsig
      rw [← Except.ok.inj hg]
      have hsne : sig ≠ [] := by intro h0; rw [h0] at hsl; simp at hsl; exact hsaz hsl.symm
      have hse : (encodeB64 sig).isEmpty = false := by
        have := encodeB64_ne_nil sig hsne
        cases hh : encodeB64 sig <;> simp_all
      have := header_roundtrip_b2 authic vidOf V cfg.code pl.zcodeb pl.gcnt pl.midb pl.vidb (bodies pl.zbz pl.nbz memo)[0] sig zs grams.length
        hzs (fun _ => ha1) dz (by rw [← hnz, ← hc]; exact hcnt) hmlen hvlen2 hsl
      simp only [List.append_assoc] at this ⊢
      rw [this, em, ev]
      have hz' : cfg.code ∈ Gen.zeroDex := by simpa using p6
      have hver' : V vidt (encodeB64 sig) (pl.zcodeb ++ (pl.gcnt ++ (pl.midb ++ (pl.vidb ++ (bodies pl.zbz pl.nbz memo)[0])))) = .ok () := by
        simpa [List.append_assoc] using hver
      simp [classify, hz', pickTail, hsaz, hse, hve, hver', hvu, hvne, hlen]
    · simp at hg
  | succ k =>
    have hvo : vidOf mid = some vidt := by
      rcases hcase with h0 | h0
      · omega
      · exact h0
    obtain ⟨num, hnum, hg⟩ := hgi k hib hi
    simp only [mkGram, hnv, hna, v1, if_true, Bool.false_eq_true, if_false, List.append_nil] at hg
    split at hg
    · rename_i sig hsig
      obtain ⟨hsl, hver⟩ := hsv _ sig hsig
      rw [← Except.ok.inj hg]
      have hsne : sig ≠ [] := by intro h0; rw [h0] at hsl; simp at hsl; exact hsaz hsl.symm
      have hse : (encodeB64 sig).isEmpty = false := by
        have := encodeB64_ne_nil sig hsne
        cases hh : encodeB64 sig <;> simp_all
      have := header_roundtrip_b2 authic vidOf V ncode pl.ncodeb num pl.midb [] (bodies pl.zbz pl.nbz memo)[k + 1] sig ns (k + 1)
        hns (fun _ => ha2) dn (by rw [hsn, ← hnz, ← hc]; exact hnum) (by rw [hsm]; exact hmlen) (by simp [hsv0]) (by rw [hsa]; exact hsl)
      simp only [List.nil_append, List.append_assoc] at this ⊢
      rw [this, em]
      have hz' : ncode ∉ Gen.zeroDex := by simpa using p7
      have hg' : ncode ∈ Gen.gramDex := by simpa using p8
      have hsaz' : ns.scale.az ≠ 0 := by rw [hsa]; exact hsaz
      have hver' : V vidt (encodeB64 sig) (pl.ncodeb ++ (num ++ (pl.midb ++ (bodies pl.zbz pl.nbz memo)[k + 1]))) = .ok () := by
        simpa [List.append_assoc] using hver
      simp [classify, hz', hg', pickTail, hsaz', hse, hve, hvo, hver', hvu, hvne, encodeB64]
    · simp at hg

/-- END TO END, SIGNED codes with Base2 (`curt`) headers, under the guard of K2 (F32) that the zeroth gram arrives first — same statement as
`end_to_end_signed_b64` -/
theorem end_to_end_signed_b2 (authic : Bool) (cfg : TxCfg) (hleg : Legal cfg) (hc : cfg.curt = true) (sign : Bytes → Bytes → Except Exn Bytes)
    (memo vidt mid : Bytes) (grams : List Bytes) (hne : memo ≠ []) (hvu : utf8Valid vidt = true) (hmemo : utf8Valid memo = true)
    (zs ns : Sizage) (ncode : Bytes) (hzs : sizesOf cfg.code = .ok zs) (hp : lookupPair cfg.code = .ok ncode) (hns : sizesOf ncode = .ok ns)
    (hs : zs.vz ≠ 0 ∧ zs.az ≠ 0) (V : Bytes → Bytes → Bytes → Except Exn Unit)
    (hsv : ∀ ser sig, sign vidt ser = .ok sig → sig.length = zs.scale.az ∧ V vidt (encodeB64 sig) ser = .ok ())
    (h : rend cfg sign memo (some vidt) mid = .ok grams) (src : Nat) (rest : List Nat) (his : ∀ i ∈ rest, i < grams.length) :
    ∃ o, serviceAllRx authic V [] ((0 :: rest).map fun i => (grams.getD i [], src)) = .ok o ∧ o.queue = [] ∧
      ((∀ i, i < grams.length → i ∈ 0 :: rest) → o.delivered = [⟨memo, src, some vidt⟩] ∧ o.entries = []) ∧
      (¬ (∀ i, i < grams.length → i ∈ 0 :: rest) → o.delivered = []) := by
  obtain ⟨bs, hflat, hlen, hge, hparse⟩ := grams_parse_b2_signed authic cfg hleg hc sign memo vidt mid grams hne hvu zs ns ncode hzs hp hns hs V hsv h
  have hpk : ∀ i, i < bs.length → ∀ vidOf : Bytes → Option Bytes, (i = 0 ∨ vidOf mid = some vidt) →
      pick authic vidOf V (grams.getD i []) = .ok ((⟨mid, bs, src, some vidt⟩ : SMemo).gram i) := by
    intro i hi vidOf hcase
    have hig : i < grams.length := by rw [hlen]; exact hi
    have := hparse i hig vidOf hcase
    simp only [List.getD_eq_getElem?_getD, List.getElem?_eq_getElem hig, Option.getD_some]
    rw [this]; rfl
  have := end_to_end_generic_zeroth_first authic ⟨mid, bs, src, some vidt⟩ hge (by simpa [hflat] using hmemo) V (fun i => grams.getD i [])
    (fun vidOf => hpk 0 (by omega) vidOf (Or.inl rfl))
    (fun i hi vidOf hvo => hpk i hi vidOf (Or.inr hvo))
    rest (by intro i hi; have := his i hi; simpa [← hlen] using this)
  simpa [hflat, ← hlen] using this

/-- END TO END, TWO memos interleaved (unsigned codes, Base64 text headers; the two senders may be configured differently): the grams of two
`rend` outputs with different memo ids, shuffled together in ANY order with ANY duplicates (`false` = a gram of the first memo, `true` = of the
second), one service call on an empty receiver: a record is delivered iff it is the first memo and all its grams arrived, or the second memo and
all its grams arrived — each independently of the other -/
theorem end_to_end_two_memos_b64 (cfg1 cfg2 : TxCfg) (hl1 : Legal cfg1) (hl2 : Legal cfg2) (hc1 : cfg1.curt = false) (hc2 : cfg2.curt = false)
    (sign : Bytes → Bytes → Except Exn Bytes) (memo1 memo2 : Bytes) (vid1 vid2 : Option Bytes) (mid1 mid2 : Bytes) (g1 g2 : List Bytes)
    (hne1 : memo1 ≠ []) (hne2 : memo2 ≠ []) (hmu1 : utf8Valid mid1 = true) (hmu2 : utf8Valid mid2 = true)
    (hu1 : utf8Valid memo1 = true) (hu2 : utf8Valid memo2 = true) (hmid : mid1 ≠ mid2)
    (zs1 ns1 zs2 ns2 : Sizage) (nc1 nc2 : Bytes)
    (hz1 : sizesOf cfg1.code = .ok zs1) (hp1 : lookupPair cfg1.code = .ok nc1) (hn1 : sizesOf nc1 = .ok ns1)
    (hz2 : sizesOf cfg2.code = .ok zs2) (hp2 : lookupPair cfg2.code = .ok nc2) (hn2 : sizesOf nc2 = .ok ns2)
    (hun1 : zs1.vz = 0 ∧ zs1.az = 0 ∧ ns1.vz = 0 ∧ ns1.az = 0) (hun2 : zs2.vz = 0 ∧ zs2.az = 0 ∧ ns2.vz = 0 ∧ ns2.az = 0)
    (h1 : rend cfg1 sign memo1 vid1 mid1 = .ok g1) (h2 : rend cfg2 sign memo2 vid2 mid2 = .ok g2)
    (src1 src2 : Nat) (V : Bytes → Bytes → Bytes → Except Exn Unit) (js : List (Bool × Nat))
    (hjs : ∀ x ∈ js, x.2 < (if x.1 then g2.length else g1.length)) :
    ∃ o, serviceAllRx false V [] (js.map fun x => if x.1 then (g2.getD x.2 [], src2) else (g1.getD x.2 [], src1)) = .ok o ∧ o.queue = [] ∧
      ∀ m, m ∈ o.delivered ↔
        ((∀ i, i < g1.length → (false, i) ∈ js) ∧ m = ⟨memo1, src1, none⟩) ∨ ((∀ i, i < g2.length → (true, i) ∈ js) ∧ m = ⟨memo2, src2, none⟩) := by
  obtain ⟨bs1, hf1, hlen1, hge1, hpa1⟩ := grams_parse_b64 cfg1 hl1 hc1 sign memo1 vid1 mid1 g1 hne1 hmu1 zs1 ns1 nc1 hz1 hp1 hn1 hun1 h1
  obtain ⟨bs2, hf2, hlen2, hge2, hpa2⟩ := grams_parse_b64 cfg2 hl2 hc2 sign memo2 vid2 mid2 g2 hne2 hmu2 zs2 ns2 nc2 hz2 hp2 hn2 hun2 h2
  let S1 : SMemo := ⟨mid1, bs1, src1, none⟩
  let S2 : SMemo := ⟨mid2, bs2, src2, none⟩
  let G : SMemo → Nat → Bytes := fun S i => if S.mid = mid1 then g1.getD i [] else g2.getD i []
  have hinj : MidInj [S1, S2] := by
    intro a ha b hb hab
    simp only [List.mem_cons, List.mem_nil_iff, or_false] at ha hb
    rcases ha with rfl | rfl <;> rcases hb with rfl | rfl
    · rfl
    · exact absurd hab hmid
    · exact absurd hab.symm hmid
    · rfl
  have hG : ∀ S ∈ [S1, S2], ∀ i, i < S.bodies.length → ∀ vidOf : Bytes → Option Bytes, vidOf S.mid = none →
      pick false vidOf V (G S i) = .ok (S.gram i) := by
    intro S hS i hi vidOf hvo
    simp only [List.mem_cons, List.mem_nil_iff, or_false] at hS
    rcases hS with rfl | rfl
    · have hig : i < g1.length := by rw [hlen1]; exact hi
      have := hpa1 i hig vidOf V hvo
      simp only [G, S1, if_true, List.getD_eq_getElem?_getD, List.getElem?_eq_getElem hig, Option.getD_some]
      rw [this]; rfl
    · have hig : i < g2.length := by rw [hlen2]; exact hi
      have := hpa2 i hig vidOf V hvo
      have hne : ¬ (mid2 = mid1) := fun h => hmid h.symm
      simp only [G, S2, hne, if_false, List.getD_eq_getElem?_getD, List.getElem?_eq_getElem hig, Option.getD_some]
      rw [this]; rfl
  have key := end_to_end_interleaved [S1, S2] hinj (by intro S hS; simp only [List.mem_cons, List.mem_nil_iff, or_false] at hS; rcases hS with rfl | rfl <;> rfl)
    (by intro S hS; simp only [List.mem_cons, List.mem_nil_iff, or_false] at hS; rcases hS with rfl | rfl <;> assumption)
    (by intro S hS; simp only [List.mem_cons, List.mem_nil_iff, or_false] at hS
        rcases hS with rfl | rfl
        · simpa [S1, hf1] using hu1
        · simpa [S2, hf2] using hu2)
    V G hG (js.map fun x => (if x.1 then S2 else S1, x.2))
    (by intro y hy
        obtain ⟨x, hx, rfl⟩ := List.mem_map.mp hy
        have := hjs x hx
        cases hb : x.1 <;> simp [hb, S1, S2] at this ⊢ <;> omega)
  obtain ⟨o, ho, hq, hiff, _⟩ := key
  have hmap : ((js.map fun x => (if x.1 then S2 else S1, x.2)).map fun x => (G x.1 x.2, x.1.src)) =
      js.map fun x => if x.1 then (g2.getD x.2 [], src2) else (g1.getD x.2 [], src1) := by
    rw [List.map_map]
    apply List.map_congr_left
    intro x _
    have hne : ¬ (mid2 = mid1) := fun h => hmid h.symm
    cases hb : x.1 <;> simp [G, S1, S2, hb, hne]
  rw [hmap] at ho
  refine ⟨o, ho, hq, ?_⟩
  intro m
  rw [hiff m]
  have mem1 : ∀ i, (S1, i) ∈ (js.map fun x => (if x.1 then S2 else S1, x.2)) ↔ (false, i) ∈ js := by
    intro i
    simp only [List.mem_map, Prod.mk.injEq]
    constructor
    · rintro ⟨x, hx, h1, h2⟩
      cases hb : x.1
      · have : x = (false, i) := by cases x; simp_all
        rw [← this]; exact hx
      · rw [hb] at h1; simp only [if_true] at h1
        have : mid2 = mid1 := congrArg SMemo.mid h1
        exact absurd this.symm hmid
    · intro h; exact ⟨(false, i), h, by simp, rfl⟩
  have mem2 : ∀ i, (S2, i) ∈ (js.map fun x => (if x.1 then S2 else S1, x.2)) ↔ (true, i) ∈ js := by
    intro i
    simp only [List.mem_map, Prod.mk.injEq]
    constructor
    · rintro ⟨x, hx, h1, h2⟩
      cases hb : x.1
      · rw [hb] at h1; simp only [Bool.false_eq_true, if_false] at h1
        have : mid1 = mid2 := congrArg SMemo.mid h1
        exact absurd this hmid
      · have : x = (true, i) := by cases x; simp_all
        rw [← this]; exact hx
    · intro h; exact ⟨(true, i), h, by simp, rfl⟩
  constructor
  · rintro ⟨S, hS, hall, rfl⟩
    simp only [List.mem_cons, List.mem_nil_iff, or_false] at hS
    rcases hS with rfl | rfl
    · left
      exact ⟨fun i hi => (mem1 i).mp (hall i (by simpa [S1, ← hlen1] using hi)), by simp [S1, hf1]⟩
    · right
      exact ⟨fun i hi => (mem2 i).mp (hall i (by simpa [S2, ← hlen2] using hi)), by simp [S2, hf2]⟩
  · rintro (⟨hall, rfl⟩ | ⟨hall, rfl⟩)
    · exact ⟨S1, by simp, fun i hi => (mem1 i).mpr (hall i (by simpa [S1, ← hlen1] using hi)), by simp [S1, hf1]⟩
    · exact ⟨S2, by simp, fun i hi => (mem2 i).mpr (hall i (by simpa [S2, ← hlen2] using hi)), by simp [S2, hf2]⟩

/-- witness for K3 (F33), a concrete test: the same complete set in a second batch is delivered a second time -/
theorem redelivered_on_full_replay :
    runS ⟨[1], [[104], [105]], 7, none⟩
      [[(⟨[1], none, 0, some 2, [104]⟩, 7), (⟨[1], none, 1, none, [105]⟩, 7)], [(⟨[1], none, 1, none, [105]⟩, 7), (⟨[1], none, 0, some 2, [104]⟩, 7)]] []
      = [some ⟨[104, 105], 7, none⟩, some ⟨[104, 105], 7, none⟩] := by decide

/-- `rend_fuse` after ANY configuration history: constructor, then any assignments, then `rend` -/
theorem rend_fuse_after_history (code : Bytes) (curt : Bool) (size : Nat) (hist : List Setter) (cfg0 cfg : TxCfg)
    (sign : Bytes → Bytes → Except Exn Bytes) (memo : Bytes) (vid : Option Bytes) (mid : Bytes) (grams : List Bytes)
    (h0 : mkCfg code curt size = .ok cfg0) (hh : applySetters cfg0 hist = .ok cfg) (hne : memo ≠ [])
    (h : rend cfg sign memo vid mid = .ok grams) :
    ∃ pl, rendPlan cfg memo.length vid mid = .ok pl ∧ 1 ≤ pl.zbz ∧
      (bodies pl.zbz pl.nbz memo).flatten = memo ∧ grams.length = (bodies pl.zbz pl.nbz memo).length ∧
      numField cfg.curt grams.length pl.nz = .ok pl.gcnt := by
  have hleg := setters_legal code curt size hist cfg0 cfg h0 hh
  obtain ⟨pl, h1, h2, _, h4, h5, _⟩ := rend_fuse cfg sign memo vid mid grams hleg hne h
  exact ⟨pl, h1, (rendPlan_ok cfg memo.length vid mid pl hleg h1).1, h2, h4, h5⟩

/-! ### non-vacuity / concrete tests (bounded checks, not the unbounded claims) -/

/-- test: the history of seeded change C20-m3 — size 150 chosen for the plain code, then the code switched to the signed one — re-clamps to 165 -/
example : (mkCfg [98, 65, 65, 65] false 150).bind (fun c => applySetters c [.code [98, 65, 65, 67]]) = .ok ⟨[98, 65, 65, 67], false, 165⟩ := by decide
/-- test: signed code with Base2 headers at 140, then back to Base64 text headers: 165 -/
example : (mkCfg [98, 65, 65, 67] true 140).bind (fun c => applySetters c [.curt false]) = .ok ⟨[98, 65, 65, 67], false, 165⟩ := by decide

/-- the hypotheses of the header round trip are met by the plain zeroth code `bAAA` with count 2 and a 24 character mid -/
example : ∃ s num, sizesOf [98, 65, 65, 65] = .ok s ∧ Gen.zeroDex.contains [98, 65, 65, 65] = true ∧ s.vz = 0 ∧ s.az = 0 ∧ 1 ≤ s.nz ∧
    2 < 64 ^ s.nz ∧ numField false 2 s.nz = .ok num ∧ (List.replicate 24 65).length = s.mz ∧ utf8Valid (List.replicate 24 65) = true := by
  obtain ⟨t, h1, _, _⟩ := B64.intToB64_spec 2 4 (by omega)
  exact ⟨⟨4, 4, 24, 0, 0⟩, t, by decide, by decide, rfl, rfl, by decide, by decide, by simp [numField, h1, liftB64], by decide, by decide⟩

example : Genuine ⟨[1], [[104], [105]], 7, none⟩ [(⟨[1], none, 1, none, [105]⟩, 7), (⟨[9], none, 5, none, [0]⟩, 3), (⟨[1], none, 0, some 2, [104]⟩, 7)] := by
  intro x hx hm
  simp only [List.mem_cons, List.mem_nil_iff, or_false] at hx
  rcases hx with rfl | rfl | rfl
  · exact ⟨1, by decide, rfl⟩
  · exact absurd hm (by decide)
  · exact ⟨0, by decide, rfl⟩
example : utf8Valid ([[104], [105]] : List Bytes).flatten = true := by decide
/-- test: bodies of a 10 byte memo with zeroth body size 4 and later body size 3 -/
example : bodies 4 3 [0, 1, 2, 3, 4, 5, 6, 7, 8, 9] = [[0, 1, 2, 3], [4, 5, 6], [7, 8, 9]] ∧ gramCount 10 4 3 = 3 := by decide
/-- test (F31 repaired): a memo shorter than the difference of the two body sizes still counts one gram -/
example : gramCount 3 14 6 = 1 ∧ bodies 14 6 [1, 2, 3] = [[1, 2, 3]] := by decide

end Hio.Memo
