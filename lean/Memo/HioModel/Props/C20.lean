import HioModel.Memo.Model
namespace Hio.Memo
end Hio.Memo
