import HioModel.Memo.RendLemmas
import HioModel.Memo.AsmLemmas
import HioModel.Memo.HeadLemmas
/-!
# C20 — memos survive segmentation into grams and any delivery order

Property theorems only.  Model: `HioModel/Memo/Model.lean` (`rendPlan`/`assemble`/`rend` = `Memoer.rend`, `pick`, `store` = the
idempotent first-only storage of `_serviceOneReceived`, `fuse`, `fuseAll` = `_serviceOnceRxGrams`) of the tree at branch fix/memo
(pre-finding F31 — gram count 0 / negative with Base2 headers — repaired).  Size / code tables regenerated on every run.

Full statement: for any non-empty memo, any legal gram size, both header encodings, signed or unsigned grams and any delivery
order / duplication / interleaving / batching, the receiver delivers the memo exactly once with the same text, source and
signer id, and never when a gram is missing.

What is proved here (all unbounded):
* sender (`rend_fuse`): for every configuration in which `rend` succeeds the bodies of the grams, in gram-number order, concatenate
  to the memo, none is empty, their number is the number of grams and is what the count field encodes, and each gram is
  header ++ body (++ signature);
* receiver (`reassembly_*`, `never_incomplete`, `delivered_content`, `exactly_once_unless_replayed`): over sequences of grams that
  `pick` ACCEPTED (parsed grams), for one memo among ARBITRARY other traffic with other memo ids.
The two are joined, and the byte-level parse of a genuine gram is covered, by the differential end-to-end run (harness/props/C20.py).

Known findings, stated as they are in the theorems' guards:
* K3 (F33): "exactly once" holds unless a complete set of the memo's grams arrives again after delivery
  (`exactly_once_unless_replayed`; `redelivered_on_full_replay` is the witness).
* K2 (F32): a signed non-zeroth gram is accepted by `pick` only when the zeroth gram is held (its vid is looked up in the state), so
  for signed codes the accepted-gram sequences of this file are those in which the zeroth gram came first (or the gram was repeated later).
* K1: with Base2 headers and an unsigned code `rend` refuses sizes below 33 (`rendPlan` returns MemoerError / ZeroDivisionError).
-/
namespace Hio.Memo

/-- configuration histories: the constructor and EVERY property assignment (`.code`, `.curt`, `.size`, in any order, any number of
times) leave the stored gram size at or above the minimum for the code and encoding then in force — the `.code` and `.curt` setters
re-clamp by re-assigning the stored size — so `rend` always works from a zeroth body size ≥ 1 -/
theorem setters_legal (code : Bytes) (curt : Bool) (size : Nat) (hist : List Setter) (cfg0 cfg : TxCfg)
    (h0 : mkCfg code curt size = .ok cfg0) (h : applySetters cfg0 hist = .ok cfg) : Legal cfg :=
  applySetters_legal cfg0 cfg hist (mkCfg_legal code curt size cfg0 h0) h

/-- … and an assignment never lowers a requested size: after `.size = n` the stored size is ≥ n; re-clamping a legal configuration
(what `self.size = self._size` does when code and encoding did not change) is the identity -/
theorem size_setter_spec (cfg cfg' : TxCfg) (n : Nat) (h : applySetter cfg (.size n) = .ok cfg') :
    Legal cfg' ∧ cfg'.code = cfg.code ∧ cfg'.curt = cfg.curt ∧ n ≤ cfg'.size ∧ (Legal cfg → applySetter cfg (.size cfg.size) = .ok cfg) := by
  obtain ⟨h1, h2, h3, h4⟩ := setSize_legal cfg cfg' n h
  exact ⟨h1, h2, h3, h4, fun hl => setSize_idem cfg hl⟩

/-- C20 sender side: whenever `rend` produces grams for a non-empty memo, with `bs` the bodies it cut:
`bs` concatenates to the memo; no body is empty; there are exactly `|bs|` grams and the count field of the zeroth gram encodes `|bs|`;
gram 0 is zeroth-header ++ body 0 (++ signature) and gram `i ≥ 1` is later-header with number `i` ++ body `i` (++ signature). -/
theorem rend_fuse (cfg : TxCfg) (sign : Bytes → Bytes → Except Exn Bytes) (memo : Bytes) (vid : Option Bytes) (mid : Bytes) (grams : List Bytes)
    (hleg : Legal cfg) (hne : memo ≠ []) (h : rend cfg sign memo vid mid = .ok grams) :
    ∃ pl, rendPlan cfg memo.length vid mid = .ok pl ∧
      (bodies pl.zbz pl.nbz memo).flatten = memo ∧
      (∀ b ∈ bodies pl.zbz pl.nbz memo, b ≠ [] ∧ b.length ≤ max pl.zbz pl.nbz) ∧
      grams.length = (bodies pl.zbz pl.nbz memo).length ∧
      numField cfg.curt grams.length pl.nz = .ok pl.gcnt ∧
      (∀ (h0 : 0 < (bodies pl.zbz pl.nbz memo).length) (h1 : 0 < grams.length),
        mkGram sign pl.zcodeb pl.gcnt pl.midb pl.vidb pl.zWithVid pl.zSigned pl.vidt (bodies pl.zbz pl.nbz memo)[0] = .ok grams[0]) ∧
      (∀ i (hi : i + 1 < (bodies pl.zbz pl.nbz memo).length) (hj : i + 1 < grams.length), ∃ num, numField cfg.curt (i + 1) pl.nz = .ok num ∧
        mkGram sign pl.ncodeb num pl.midb pl.vidb pl.nWithVid pl.nSigned pl.vidt (bodies pl.zbz pl.nbz memo)[i + 1] = .ok grams[i + 1]) := by
  unfold rend at h
  split at h
  · simp at h
  · rename_i pl hpl
    obtain ⟨hz, hn, hcnt, _⟩ := rendPlan_ok cfg memo.length vid mid pl hleg hpl
    have hflat := bodies_flatten pl.zbz pl.nbz memo hn
    have hlen := bodies_length pl.zbz pl.nbz memo hne hn
    have hb := bodies_bound pl.zbz pl.nbz memo hz hn
    refine ⟨pl, hpl, hflat, hb, ?_⟩
    unfold assemble at h
    split at h
    · rename_i hnil
      rw [hnil] at hlen
      have : 1 ≤ gramCount memo.length pl.zbz pl.nbz := by
        unfold gramCount; split
        · exact Nat.le_refl 1
        · exact Nat.le_add_right 1 _
      simp at hlen; omega
    · rename_i b0 bs hbs
      split at h
      · simp at h
      · rename_i g0 hg0
        split at h
        · simp at h
        · rename_i gs hgs
          cases h
          obtain ⟨hl, hspec⟩ := mkGrams_spec _ _ _ _ _ _ _ _ _ _ _ _ hgs
          rw [hbs] at hlen ⊢
          have hlen2 : (g0 :: gs).length = (b0 :: bs).length := by simp [hl]
          refine ⟨hlen2, ?_, ?_, ?_⟩
          · rw [hlen2, hlen]; exact hcnt
          · intro _ _; simpa using hg0
          · intro i hi hj
            obtain ⟨num, hnum, hg⟩ := hspec i (by simpa using hi) (by simpa using hj)
            refine ⟨num, ?_, by simpa using hg⟩
            rw [Nat.add_comm]; exact hnum

/-- header_roundtrip (Base64 text headers, every code of the regenerated table, signed or not): a datagram laid out as `rend` lays it
out — code, number field `intToB64b(n, nz)` with `n < 64^nz`, mid, vid part, body, signature part, each of the size the table gives —
is parsed by `pick` into exactly these fields: the number comes back as `n` (Base64 round trip), the signed part is everything before
the signature, the body is what lies between header and signature.  What remains is the three-way code switch and `verify`. -/
theorem header_roundtrip_b64 (authic : Bool) (vidOf : Bytes → Option Bytes) (V : Bytes → Bytes → Bytes → Except Exn Unit)
    (code num mid vid0 body sigb : Bytes) (s : Sizage) (n : Nat)
    (hs : sizesOf code = .ok s) (hau : authic = true → Gen.authDex.contains code = true)
    (hnz : 1 ≤ s.nz) (hn : n < 64 ^ s.nz) (hnum : numField false n s.nz = .ok num)
    (hmid : mid.length = s.mz) (hvid : vid0.length = s.vz) (hsig : sigb.length = s.az) :
    pick authic vidOf V (code ++ (num ++ (mid ++ (vid0 ++ (body ++ sigb))))) =
      match classify code vidOf n mid vid0 (utf8Valid mid) with
      | .error e => .error e
      | .ok (gn, gc, vid) => pickTail V mid vid (utf8Valid mid) gn gc sigb (code ++ (num ++ (mid ++ (vid0 ++ body)))) body := by
  obtain ⟨h1, h2⟩ := numField_b64_roundtrip n s.nz hnz hn num hnum
  exact pick_layout_b64 authic vidOf V code num mid vid0 body sigb s n hs hau h1 h2 hmid hvid hsig

/-- … unsigned zeroth gram: `(mid, no vid, gram number 0, count n, body)` whatever the receiver state -/
theorem header_roundtrip_zeroth_unsigned (vidOf : Bytes → Option Bytes) (V : Bytes → Bytes → Bytes → Except Exn Unit)
    (code num mid body : Bytes) (s : Sizage) (n : Nat)
    (hs : sizesOf code = .ok s) (hz : Gen.zeroDex.contains code = true) (hv : s.vz = 0) (ha : s.az = 0)
    (hnz : 1 ≤ s.nz) (hn : n < 64 ^ s.nz) (hnum : numField false n s.nz = .ok num) (hmid : mid.length = s.mz) (hutf : utf8Valid mid = true) :
    pick false vidOf V (code ++ (num ++ (mid ++ body))) = .ok ⟨mid, none, 0, some n, body⟩ := by
  have := header_roundtrip_b64 false vidOf V code num mid [] body [] s n hs (by simp) hnz hn hnum hmid (by simp [hv]) (by simp [ha])
  simp only [List.nil_append, List.append_nil] at this
  rw [this]
  have hz' : code ∈ Gen.zeroDex := by simpa using hz
  simp [classify, hz', pickTail, hutf]

/-- … unsigned later gram, when the receiver holds no vid for that memo id: `(mid, no vid, gram number n, no count, body)` -/
theorem header_roundtrip_later_unsigned (vidOf : Bytes → Option Bytes) (V : Bytes → Bytes → Bytes → Except Exn Unit)
    (code num mid body : Bytes) (s : Sizage) (n : Nat)
    (hs : sizesOf code = .ok s) (hz : Gen.zeroDex.contains code = false) (hg : Gen.gramDex.contains code = true) (hv : s.vz = 0) (ha : s.az = 0)
    (hnz : 1 ≤ s.nz) (hn : n < 64 ^ s.nz) (hnum : numField false n s.nz = .ok num) (hmid : mid.length = s.mz) (hutf : utf8Valid mid = true)
    (hvo : vidOf mid = none) :
    pick false vidOf V (code ++ (num ++ (mid ++ body))) = .ok ⟨mid, none, n, none, body⟩ := by
  have := header_roundtrip_b64 false vidOf V code num mid [] body [] s n hs (by simp) hnz hn hnum hmid (by simp [hv]) (by simp [ha])
  simp only [List.nil_append, List.append_nil] at this
  rw [this]
  have hz' : code ∉ Gen.zeroDex := by simpa using hz
  have hg' : code ∈ Gen.gramDex := by simpa using hg
  simp [classify, hz', hg', pickTail, hutf, hvo]

/-- … signed zeroth gram whose signature verifies under the vid it carries: `(mid, that vid, 0, count n, body)` -/
theorem header_roundtrip_zeroth_signed (authic : Bool) (vidOf : Bytes → Option Bytes) (V : Bytes → Bytes → Bytes → Except Exn Unit)
    (code num mid vid0 body sigb : Bytes) (s : Sizage) (n : Nat)
    (hs : sizesOf code = .ok s) (hau : Gen.authDex.contains code = true) (hz : Gen.zeroDex.contains code = true)
    (hnz : 1 ≤ s.nz) (hn : n < 64 ^ s.nz) (hnum : numField false n s.nz = .ok num) (hmid : mid.length = s.mz) (hutf : utf8Valid mid = true)
    (hvid : vid0.length = s.vz) (hvne : vid0 ≠ []) (hvutf : utf8Valid vid0 = true) (hsig : sigb.length = s.az) (hsne : sigb ≠ [])
    (hver : V vid0 sigb (code ++ (num ++ (mid ++ (vid0 ++ body)))) = .ok ()) :
    pick authic vidOf V (code ++ (num ++ (mid ++ (vid0 ++ (body ++ sigb))))) = .ok ⟨mid, some vid0, 0, some n, body⟩ := by
  rw [header_roundtrip_b64 authic vidOf V code num mid vid0 body sigb s n hs (fun _ => hau) hnz hn hnum hmid hvid hsig]
  have e1 : sigb.isEmpty = false := by cases sigb <;> simp_all
  have e2 : vid0.isEmpty = false := by cases vid0 <;> simp_all
  have hz' : code ∈ Gen.zeroDex := by simpa using hz
  simp [classify, hz', pickTail, hutf, e1, e2, hver, hvutf, hvne, hsne]

/-- … signed later gram: accepted exactly under the vid the receiver holds for that memo id (set by the zeroth gram) — and, K2 / F32,
REJECTED when the receiver holds none, because then `verify` is asked about the empty vid -/
theorem header_roundtrip_later_signed (authic : Bool) (vidOf : Bytes → Option Bytes) (V : Bytes → Bytes → Bytes → Except Exn Unit)
    (code num mid body sigb : Bytes) (s : Sizage) (n : Nat)
    (hs : sizesOf code = .ok s) (hau : Gen.authDex.contains code = true) (hz : Gen.zeroDex.contains code = false) (hg : Gen.gramDex.contains code = true)
    (hv : s.vz = 0) (hnz : 1 ≤ s.nz) (hn : n < 64 ^ s.nz) (hnum : numField false n s.nz = .ok num) (hmid : mid.length = s.mz) (hutf : utf8Valid mid = true)
    (hsig : sigb.length = s.az) (hsne : sigb ≠ []) :
    (∀ v, vidOf mid = some v → v ≠ [] → utf8Valid v = true → V v sigb (code ++ (num ++ (mid ++ body))) = .ok () →
      pick authic vidOf V (code ++ (num ++ (mid ++ (body ++ sigb)))) = .ok ⟨mid, some v, n, none, body⟩) ∧
    (vidOf mid = none → ∀ e, V [] sigb (code ++ (num ++ (mid ++ body))) = .error e →
      pick authic vidOf V (code ++ (num ++ (mid ++ (body ++ sigb)))) = .error e) := by
  have := header_roundtrip_b64 authic vidOf V code num mid [] body sigb s n hs (fun _ => hau) hnz hn hnum hmid (by simp [hv]) hsig
  simp only [List.nil_append] at this
  have e1 : sigb.isEmpty = false := by cases sigb <;> simp_all
  have hz' : code ∉ Gen.zeroDex := by simpa using hz
  have hg' : code ∈ Gen.gramDex := by simpa using hg
  constructor
  · intro v hvo hvne hvutf hver
    have e2 : v.isEmpty = false := by cases v <;> simp_all
    rw [this]
    simp [classify, hz', hg', pickTail, hutf, e1, e2, hvo, hver, hvutf, hvne, hsne]
  · intro hvo e hver
    rw [this]
    simp [classify, hz', hg', pickTail, hutf, e1, hvo, hver, hsne]

/-- the fuse pass treats every memo id independently (this is what lets one memo be followed through arbitrary other traffic):
`_serviceOnceRxGrams` keeps exactly the entries that `stays` and queues exactly `deliv` of each entry, in order -/
theorem fuse_pass_per_entry (es : List Entry) : fuseAll es = .ok (es.filter stays, es.filterMap deliv) :=
  fuseAll_char es

/-- the bridge from the service call to the per-memo view: when `pick` accepts every datagram of the queue (parsed grams `pgs`),
`serviceAllRx()` stores them in order and then runs the fuse pass — the delivered memos are `deliv` of each entry of `storeAll pgs es` -/
theorem service_is_store_then_fuse (authic : Bool) (V : Bytes → Bytes → Bytes → Except Exn Unit) (q : List (Bytes × Nat)) (es : List Entry)
    (pgs : List (PG × Nat)) (h : picks authic V q es = some pgs) :
    serviceAllRx authic V es q = .ok ⟨(storeAll pgs es).filter stays, [], (storeAll pgs es).filterMap deliv⟩ := by
  simp [serviceAllRx, recvLoop_picks authic V q es pgs h, fuseAll_char]

/-- C20 receiver side, one service batch: a receiver that holds nothing for the memo's id receives ANY sequence of accepted grams in
which every gram bearing that id is a genuine gram of the memo (any order, any duplicates, interleaved with arbitrary grams of other ids).
At the end of the batch the memo is delivered — text = the bodies concatenated, its source, its signer id — if and only if every gram number
occurs in the sequence; it is delivered by its single entry (memo ids stay unique), which is then removed; otherwise nothing is delivered for
it and the entry is kept. -/
theorem reassembly_one_batch (S : SMemo) (hn : 1 ≤ S.bodies.length) (hu : utf8Valid S.bodies.flatten = true)
    (es : List Entry) (hnd : MidsNodup es) (hno : findEntry S.mid es = none) (seq : List (PG × Nat)) (hg : Genuine S seq) :
    MidsNodup (storeAll seq es) ∧
    ((∀ i, i < S.bodies.length → i ∈ idx S seq) →
        (findEntry S.mid (storeAll seq es)).bind deliv = some ⟨S.bodies.flatten, S.src, S.vid⟩ ∧
        findEntry S.mid ((storeAll seq es).filter stays) = none) ∧
    (¬ (∀ i, i < S.bodies.length → i ∈ idx S seq) → (findEntry S.mid (storeAll seq es)).bind deliv = none) := by
  have hb := batch_step S hn hu seq es hnd (noEntry_SInv S es hno) hg
  simp only at hb
  obtain ⟨_, _, hcase⟩ := hb
  refine ⟨storeAll_nodup seq es hnd, ?_, ?_⟩
  · intro hall
    rcases hcase with ⟨_, _, hnot⟩ | ⟨ho, hf, _⟩
    · exact absurd (fun i hi => Or.inr (hall i hi)) hnot
    · exact ⟨ho, hf⟩
  · intro hnall
    rcases hcase with ⟨ho, _, _⟩ | ⟨_, _, hall⟩
    · exact ho
    · exfalso; apply hnall
      intro i hi
      rcases hall i hi with h | h
      · exact absurd h (noEntry_noKey S es hno i)
      · exact h

/-- any history of batches: whatever the memo's entry ever delivers is the memo itself — same text, source and signer id -/
theorem delivered_content (S : SMemo) (hn : 1 ≤ S.bodies.length) (hu : utf8Valid S.bodies.flatten = true)
    (bs : List (List (PG × Nat))) (es : List Entry) (hnd : MidsNodup es) (hinv : SInv S es) (hg : ∀ b ∈ bs, Genuine S b) :
    ∀ o ∈ runS S bs es, o = none ∨ o = some ⟨S.bodies.flatten, S.src, S.vid⟩ := by
  induction bs generalizing es with
  | nil => intro o ho; simp [runS] at ho
  | cons b bs ih =>
    have hb := batch_step S hn hu b es hnd hinv (hg b (List.mem_cons_self))
    simp only at hb
    obtain ⟨h1, h2, hcase⟩ := hb
    intro o ho
    simp only [runS, List.mem_cons] at ho
    rcases ho with rfl | ho
    · rcases hcase with ⟨h, _⟩ | ⟨h, _⟩
      · left; exact h
      · right; exact h
    · exact ih _ h1 h2 (fun b' hb' => hg b' (List.mem_cons_of_mem _ hb')) o ho

/-- a memo missing any gram is never delivered: if some gram number `j` is not held and never arrives in any batch, the memo's entry
delivers nothing, in any batch, whatever else arrives in whatever order -/
theorem never_incomplete (S : SMemo) (hn : 1 ≤ S.bodies.length) (hu : utf8Valid S.bodies.flatten = true)
    (bs : List (List (PG × Nat))) (es : List Entry) (hnd : MidsNodup es) (hinv : SInv S es) (hg : ∀ b ∈ bs, Genuine S b)
    (j : Nat) (hj : j < S.bodies.length) (hk : ¬ keyOf S es j) (hnever : ∀ b ∈ bs, j ∉ idx S b) :
    ∀ o ∈ runS S bs es, o = none := by
  induction bs generalizing es with
  | nil => intro o ho; simp [runS] at ho
  | cons b bs ih =>
    have hb := batch_step S hn hu b es hnd hinv (hg b (List.mem_cons_self))
    simp only at hb
    obtain ⟨h1, h2, hcase⟩ := hb
    have hjb : j ∉ idx S b := hnever b (List.mem_cons_self)
    intro o ho
    simp only [runS, List.mem_cons] at ho
    rcases hcase with ⟨hnone, hkeys, _⟩ | ⟨_, _, hall⟩
    · rcases ho with rfl | ho
      · exact hnone
      · refine ih _ h1 h2 (fun b' hb' => hg b' (List.mem_cons_of_mem _ hb')) ?_ (fun b' hb' => hnever b' (List.mem_cons_of_mem _ hb')) o ho
        intro hkj
        rcases (hkeys j).mp hkj with h | h
        · exact hk h
        · exact hjb h
    · exfalso
      rcases hall j hj with h | h
      · exact hk h
      · exact hjb h

/-- … and it IS delivered at the end of the batch by which every gram number has arrived (held from earlier batches or in this one) -/
theorem delivered_when_complete (S : SMemo) (hn : 1 ≤ S.bodies.length) (hu : utf8Valid S.bodies.flatten = true)
    (b : List (PG × Nat)) (bs : List (List (PG × Nat))) (es : List Entry) (hnd : MidsNodup es) (hinv : SInv S es) (hg : Genuine S b)
    (hall : ∀ i, i < S.bodies.length → keyOf S es i ∨ i ∈ idx S b) :
    (runS S (b :: bs) es).head? = some (some ⟨S.bodies.flatten, S.src, S.vid⟩) := by
  have hb := batch_step S hn hu b es hnd hinv hg
  simp only at hb
  obtain ⟨_, _, hcase⟩ := hb
  rcases hcase with ⟨_, _, hnot⟩ | ⟨ho, _, _⟩
  · exact absurd hall hnot
  · simp [runS, ho]

/-- grams held across batches accumulate while nothing is delivered (so `delivered_when_complete` chains over a history) -/
theorem keys_accumulate (S : SMemo) (hn : 1 ≤ S.bodies.length) (hu : utf8Valid S.bodies.flatten = true)
    (b : List (PG × Nat)) (es : List Entry) (hnd : MidsNodup es) (hinv : SInv S es) (hg : Genuine S b)
    (hnone : (findEntry S.mid (storeAll b es)).bind deliv = none) :
    ∀ j, keyOf S ((storeAll b es).filter stays) j ↔ keyOf S es j ∨ j ∈ idx S b := by
  have hb := batch_step S hn hu b es hnd hinv hg
  simp only at hb
  obtain ⟨_, _, hcase⟩ := hb
  rcases hcase with ⟨_, hkeys, _⟩ | ⟨ho, _, _⟩
  · exact hkeys
  · rw [ho] at hnone; cases hnone

/-- EXACTLY ONCE, under the guard of known finding K3 (F33): the memo completes in the first batch and afterwards at least one of its
gram numbers never arrives again (i.e. no complete set is replayed) — then it is delivered in that batch and never again -/
theorem exactly_once_unless_replayed (S : SMemo) (hn : 1 ≤ S.bodies.length) (hu : utf8Valid S.bodies.flatten = true)
    (b : List (PG × Nat)) (bs : List (List (PG × Nat))) (es : List Entry) (hnd : MidsNodup es) (hno : findEntry S.mid es = none)
    (hg : Genuine S b) (hgs : ∀ b' ∈ bs, Genuine S b') (hall : ∀ i, i < S.bodies.length → i ∈ idx S b)
    (j : Nat) (hj : j < S.bodies.length) (hnever : ∀ b' ∈ bs, j ∉ idx S b') :
    ∃ rest, runS S (b :: bs) es = some ⟨S.bodies.flatten, S.src, S.vid⟩ :: rest ∧ ∀ o ∈ rest, o = none := by
  have hb := batch_step S hn hu b es hnd (noEntry_SInv S es hno) hg
  simp only at hb
  obtain ⟨h1, h2, hcase⟩ := hb
  rcases hcase with ⟨_, _, hnot⟩ | ⟨ho, hf, _⟩
  · exact absurd (fun i hi => Or.inr (hall i hi)) hnot
  · refine ⟨runS S bs ((storeAll b es).filter stays), by simp [runS, ho], ?_⟩
    exact never_incomplete S hn hu bs _ h1 h2 hgs j hj (noEntry_noKey S _ hf j) hnever

/-- witness for K3 (F33), a concrete test: the same complete set in a second batch is delivered a second time -/
theorem redelivered_on_full_replay :
    runS ⟨[1], [[104], [105]], 7, none⟩
      [[(⟨[1], none, 0, some 2, [104]⟩, 7), (⟨[1], none, 1, none, [105]⟩, 7)], [(⟨[1], none, 1, none, [105]⟩, 7), (⟨[1], none, 0, some 2, [104]⟩, 7)]] []
      = [some ⟨[104, 105], 7, none⟩, some ⟨[104, 105], 7, none⟩] := by decide

/-- `rend_fuse` after ANY configuration history: constructor, then any assignments, then `rend` -/
theorem rend_fuse_after_history (code : Bytes) (curt : Bool) (size : Nat) (hist : List Setter) (cfg0 cfg : TxCfg)
    (sign : Bytes → Bytes → Except Exn Bytes) (memo : Bytes) (vid : Option Bytes) (mid : Bytes) (grams : List Bytes)
    (h0 : mkCfg code curt size = .ok cfg0) (hh : applySetters cfg0 hist = .ok cfg) (hne : memo ≠ [])
    (h : rend cfg sign memo vid mid = .ok grams) :
    ∃ pl, rendPlan cfg memo.length vid mid = .ok pl ∧ 1 ≤ pl.zbz ∧
      (bodies pl.zbz pl.nbz memo).flatten = memo ∧ grams.length = (bodies pl.zbz pl.nbz memo).length ∧
      numField cfg.curt grams.length pl.nz = .ok pl.gcnt := by
  have hleg := setters_legal code curt size hist cfg0 cfg h0 hh
  obtain ⟨pl, h1, h2, _, h4, h5, _⟩ := rend_fuse cfg sign memo vid mid grams hleg hne h
  exact ⟨pl, h1, (rendPlan_ok cfg memo.length vid mid pl hleg h1).1, h2, h4, h5⟩

/-! ### non-vacuity / concrete tests (bounded checks, not the unbounded claims) -/

/-- test: the history of seeded change C20-m3 — size 150 chosen for the plain code, then the code switched to the signed one — re-clamps to 165 -/
example : (mkCfg [98, 65, 65, 65] false 150).bind (fun c => applySetters c [.code [98, 65, 65, 67]]) = .ok ⟨[98, 65, 65, 67], false, 165⟩ := by decide
/-- test: signed code with Base2 headers at 140, then back to Base64 text headers: 165 -/
example : (mkCfg [98, 65, 65, 67] true 140).bind (fun c => applySetters c [.curt false]) = .ok ⟨[98, 65, 65, 67], false, 165⟩ := by decide

/-- the hypotheses of the header round trip are met by the plain zeroth code `bAAA` with count 2 and a 24 character mid -/
example : ∃ s num, sizesOf [98, 65, 65, 65] = .ok s ∧ Gen.zeroDex.contains [98, 65, 65, 65] = true ∧ s.vz = 0 ∧ s.az = 0 ∧ 1 ≤ s.nz ∧
    2 < 64 ^ s.nz ∧ numField false 2 s.nz = .ok num ∧ (List.replicate 24 65).length = s.mz ∧ utf8Valid (List.replicate 24 65) = true := by
  obtain ⟨t, h1, _, _⟩ := B64.intToB64_spec 2 4 (by omega)
  exact ⟨⟨4, 4, 24, 0, 0⟩, t, by decide, by decide, rfl, rfl, by decide, by decide, by simp [numField, h1, liftB64], by decide, by decide⟩

example : Genuine ⟨[1], [[104], [105]], 7, none⟩ [(⟨[1], none, 1, none, [105]⟩, 7), (⟨[9], none, 5, none, [0]⟩, 3), (⟨[1], none, 0, some 2, [104]⟩, 7)] := by
  intro x hx hm
  simp only [List.mem_cons, List.mem_nil_iff, or_false] at hx
  rcases hx with rfl | rfl | rfl
  · exact ⟨1, by decide, rfl⟩
  · exact absurd hm (by decide)
  · exact ⟨0, by decide, rfl⟩
example : utf8Valid ([[104], [105]] : List Bytes).flatten = true := by decide
/-- test: bodies of a 10 byte memo with zeroth body size 4 and later body size 3 -/
example : bodies 4 3 [0, 1, 2, 3, 4, 5, 6, 7, 8, 9] = [[0, 1, 2, 3], [4, 5, 6], [7, 8, 9]] ∧ gramCount 10 4 3 = 3 := by decide
/-- test (F31 repaired): a memo shorter than the difference of the two body sizes still counts one gram -/
example : gramCount 3 14 6 = 1 ∧ bodies 14 6 [1, 2, 3] = [[1, 2, 3]] := by decide

end Hio.Memo
