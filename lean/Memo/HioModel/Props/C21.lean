import HioModel.Memo.TxLemmas
/-!
# C21 — memo transmission loses no gram under transport backpressure

Property theorems only.  Model: `HioModel/Memo/Model.lean` (`onceTx` = `Memoer._serviceOnceTxGrams`, `serviceTxGramsOnce`,
`serviceTxGrams`, `runCalls` = any history of service calls and `gramit`s) of the tree at branch fix/memo
(pre-findings F34 and F35 repaired).  The transport is a script: per `send` call `accept n | block | err errno`, an exhausted
script accepts everything.  The unreachable-errno table `Gen.txDropErrnos` and the would-block tables of udp / uxd
`Peer.send` are regenerated from the source on every run.

SPEC (`after` / `replay`, in `TxLemmas.lean`): a log of send calls is a legal transmission of a list of held grams when every
call offers exactly the whole unsent rest of the head gram to that gram's destination, accepted bytes are removed from its
front, the gram is finished when nothing is left, and it is given up only when the call raised an errno of the unreachable
table.  Hence: every gram is sent completely before the next one starts, in queue order, nothing lost, duplicated or reordered.
-/
namespace Hio.Memo

/-- C21 safety, full strength: for EVERY initial state, transport script and history of calls (greedy / once / gramit) that
ends without an escaped exception, the log of send calls is a legal transmission of the grams held at the start followed by
the enqueued ones, and what remains is exactly what the Memoer still holds (remainder in `.txbs`, then `.txgs`). -/
theorem tx_fifo_exact (cs : List Call) (st : Tx) (sc : List SendRes) (h : (runCalls cs st sc).escaped = none) :
    replay (heldG st ++ enqOf cs) (runCalls cs st sc).evs = some (heldG (runCalls cs st sc).st) :=
  runCalls_replay cs st sc h

/-- byte level: accepted-or-given-up bytes in call order, followed by the bytes still held, are the bytes of the queued
grams in queue order (tagged with their destination) -/
theorem tx_conservation (cs : List Call) (st : Tx) (sc : List SendRes) (h : (runCalls cs st sc).escaped = none) :
    wire (runCalls cs st sc).evs ++ flatT (heldG (runCalls cs st sc).st) = flatT (heldG st ++ enqOf cs) :=
  replay_bytes _ _ _ (runCalls_replay cs st sc h)

/-- … and therefore per destination -/
theorem tx_conservation_per_dst (cs : List Call) (st : Tx) (sc : List SendRes) (d : Nat) (h : (runCalls cs st sc).escaped = none) :
    (wire (runCalls cs st sc).evs).filter (fun p => p.1 == d) ++ (flatT (heldG (runCalls cs st sc).st)).filter (fun p => p.1 == d)
      = (flatT (heldG st ++ enqOf cs)).filter (fun p => p.1 == d) := by
  rw [← List.filter_append, tx_conservation cs st sc h]

/-- a gram is dropped only when the transport reported an errno of the (regenerated) unreachable table -/
theorem tx_drop_only_unreachable (cs : List Call) (st : Tx) (sc : List SendRes) (h : (runCalls cs st sc).escaped = none) :
    ∀ e ∈ (runCalls cs st sc).evs, ∀ x, e.res = .err x → x ∈ Gen.txDropErrnos :=
  replay_drop_errno _ _ _ (runCalls_replay cs st sc h)

/-- the only exception that can escape transmit servicing is the transport's own OSError with an errno outside the table -/
theorem tx_escape_only_unexpected_errno (cs : List Call) (st : Tx) (sc : List SendRes) (e : Exn)
    (h : (runCalls cs st sc).escaped = some e) :
    ∃ x, e = .osError x ∧ x ∉ Gen.txDropErrnos ∧ SendRes.err x ∈ sc :=
  runCalls_escaped cs st sc e h

/-- under partial accepts, would-block and unreachable errors nothing escapes -/
theorem tx_no_escape (cs : List Call) (st : Tx) (sc : List SendRes) (hok : ScriptOk sc) : (runCalls cs st sc).escaped = none := by
  cases he : (runCalls cs st sc).escaped with
  | none => rfl
  | some e =>
    obtain ⟨x, _, h2, h3⟩ := runCalls_escaped cs st sc e he
    exact absurd (hok x h3) h2

/-- progress (F35): whenever something is pending — a queued gram OR a partial remainder — a service call, greedy or not,
makes at least one send attempt -/
theorem tx_progress (b : Bool) (st : Tx) (sc : List SendRes) (hp : st.pending = true) : (serviceCall b st sc).evs ≠ [] := by
  cases b with
  | true => exact loop_evs_of_pending _ st sc hp
  | false => simp only [serviceCall, serviceTxGramsOnce, hp, if_true, Bool.false_eq_true, if_false]; exact once_evs_of_pending st sc hp

/-- liveness: if the transport only ever accepts partially, blocks or reports unreachable, then after `|script| + 1` greedy
service calls (i.e. once it accepts) nothing is pending and every gram held at the start was transmitted completely or
given up on unreachable, in order -/
theorem tx_liveness (st : Tx) (sc : List SendRes) (hok : ScriptOk sc) :
    let r := runCalls (List.replicate (sc.length + 1) Call.greedy) st sc
    r.escaped = none ∧ r.st.pending = false ∧ replay (heldG st) r.evs = some [] := by
  intro r
  obtain ⟨h1, h2⟩ := greedy_drains (sc.length + 1) st sc hok (Nat.lt_succ_self _)
  refine ⟨h1, h2, ?_⟩
  have h3 := runCalls_replay (List.replicate (sc.length + 1) Call.greedy) st sc h1
  have henq : ∀ n, enqOf (List.replicate n Call.greedy) = [] := by
    intro n; induction n with
    | zero => rfl
    | succ n ih => simp [List.replicate_succ, enqOf, ih]
  rw [henq, List.append_nil] at h3
  have hnil : heldG r.st = [] := by
    have hp : r.st.pending = false := h2
    unfold Tx.pending at hp
    simp only [Bool.or_eq_false_iff, Bool.not_eq_false'] at hp
    obtain ⟨ha, hb⟩ := hp
    have h1 : r.st.txgs = [] := List.isEmpty_iff.mp ha
    have h2 : r.st.txdst = none := by cases h : r.st.txdst <;> simp_all
    simp [heldG, h1, h2]
  rw [← hnil]; exact h3

/-- the loop bound inside the model's `serviceTxGrams` is never the reason to stop: any larger fuel gives the same result -/
theorem loopTx_fuel (f : Nat) (st : Tx) (sc : List SendRes) (hf : 2 * st.txgs.length + 2 ≤ f) :
    loopTx f st sc = serviceTxGrams st sc :=
  serviceTxGrams_fuel f st sc hf

/-- regenerated tables: the errnos on which udp / uxd `Peer.send` returns 0 (would-block: EAGAIN, EWOULDBLOCK, ENOBUFS at least) are never
treated as "unreachable" by the Memoer, so a would-block can never drop a gram -/
theorem wouldblock_never_drops :
    (∀ e ∈ Gen.udpSendZero ++ Gen.uxdSendZero, e ∉ Gen.txDropErrnos) ∧
      Gen.eAGAIN ∈ Gen.udpSendZero ∧ Gen.eWOULDBLOCK ∈ Gen.udpSendZero ∧ Gen.eNOBUFS ∈ Gen.udpSendZero ∧
      Gen.eAGAIN ∈ Gen.uxdSendZero ∧ Gen.eWOULDBLOCK ∈ Gen.uxdSendZero ∧ Gen.eNOBUFS ∈ Gen.uxdSendZero := by
  decide

/-! ### end to end from the socket: `PeerMemoer` = `udping.Peer` / `uxding.Peer` under the Memoer

The script is now what the SOCKET does on each `sendto` (returns a count, or raises `OSError(errno)`); `Peer.send` — modelled by `peerSend`
from the regenerated errno tables — turns a would-block errno into "0 bytes sent" and re-raises everything else to the Memoer. -/

/-- socket level: every non-escaping history is a legal transmission (same SPEC as `tx_fifo_exact`) -/
theorem tx_fifo_exact_socket (k : PeerKind) (cs : List Call) (st : Tx) (sock : List SockRes) (h : (runCallsPeer k cs st sock).escaped = none) :
    replay (heldG st ++ enqOf cs) (runCallsPeer k cs st sock).evs = some (heldG (runCallsPeer k cs st sock).st) :=
  runCalls_replay cs st _ h

/-- socket level: when the socket only ever returns counts, would-block errnos (EAGAIN / EWOULDBLOCK / ENOBUFS / ENOMEM: the regenerated
`Peer.send` table) or unreachable errnos (the regenerated Memoer table), nothing escapes transmit servicing -/
theorem tx_no_escape_socket (k : PeerKind) (cs : List Call) (st : Tx) (sock : List SockRes)
    (hok : ∀ e, SockRes.errno e ∈ sock → e ∈ zeroErrnos k ∨ e ∈ Gen.txDropErrnos) : (runCallsPeer k cs st sock).escaped = none := by
  apply tx_no_escape
  intro x hx
  obtain ⟨r, hr, hrx⟩ := List.mem_map.mp hx
  cases r with
  | sent n => simp [peerSend] at hrx
  | errno e =>
    simp only [peerSend] at hrx
    split at hrx
    · simp at hrx
    · rename_i hz
      cases hrx
      rcases hok x hr with h | h
      · exact absurd (by simpa using h) hz
      · exact h

/-- socket level: a would-block errno never costs a gram — `Peer.send` answers 0, the Memoer keeps the whole gram for retry; a gram is given up
only on an errno that is in the unreachable table and NOT a would-block errno -/
theorem tx_wouldblock_keeps_gram (k : PeerKind) (e : Nat) (he : e ∈ zeroErrnos k) :
    peerSend k (.errno e) = .block ∧ e ∉ Gen.txDropErrnos := by
  constructor
  · simp [peerSend, he]
  · have h := wouldblock_never_drops.1 e
    apply h
    cases k with
    | udp => exact List.mem_append_left _ he
    | uxd => exact List.mem_append_right _ he

/-- socket level liveness: under counts, would-blocks and unreachables only, after `|script| + 1` greedy service calls nothing is pending and
every gram was transmitted completely, in order, or given up on unreachable -/
theorem tx_liveness_socket (k : PeerKind) (st : Tx) (sock : List SockRes)
    (hok : ∀ e, SockRes.errno e ∈ sock → e ∈ zeroErrnos k ∨ e ∈ Gen.txDropErrnos) :
    let r := runCallsPeer k (List.replicate (sock.length + 1) Call.greedy) st sock
    r.escaped = none ∧ r.st.pending = false ∧ replay (heldG st) r.evs = some [] := by
  have hsok : ScriptOk (sock.map (peerSend k)) := by
    intro x hx
    obtain ⟨r, hr, hrx⟩ := List.mem_map.mp hx
    cases r with
    | sent n => simp [peerSend] at hrx
    | errno e =>
      simp only [peerSend] at hrx
      split at hrx
      · simp at hrx
      · rename_i hz
        cases hrx
        rcases hok x hr with h | h
        · exact absurd (by simpa using h) hz
        · exact h
  have := tx_liveness st (sock.map (peerSend k)) hsok
  simpa [runCallsPeer] using this

/-! ### non-vacuity and concrete tests (bounded checks, not the unbounded claims) -/

example : ScriptOk [.accept 3, .block, .err 111, .accept 0] := by
  intro x hx
  simp only [List.mem_cons, List.mem_nil_iff, or_false] at hx
  rcases hx with h | h | h | h <;> first | cases h | skip
  decide
/-- test: the F34 history — would-block on a fresh gram, then partial, then everything — loses nothing -/
example : (runCalls [.greedy, .greedy, .greedy] ⟨[([65, 65, 65], 1), ([66, 66], 1)], [], none⟩ [.block, .accept 2]).evs
    = [⟨1, [65, 65, 65], .block⟩, ⟨1, [65, 65, 65], .accept 2⟩, ⟨1, [65], .accept 1⟩, ⟨1, [66, 66], .accept 2⟩] := by decide
/-- test: F35 — the remainder is retried although the queue is empty -/
example : (runCalls [.once, .once] ⟨[([65, 65, 65], 1)], [], none⟩ [.accept 2]).st = ⟨[], [], none⟩ := by decide
example : (⟨[], [65], some 1⟩ : Tx).pending = true := by decide
/-- test: ENOBUFS (105) from the UDP socket is a would-block, the gram is retried and completes; ECONNREFUSED (111) drops the next one -/
example : (runCallsPeer .udp [.greedy, .greedy] ⟨[([65, 65], 1), ([66], 1)], [], none⟩ [.errno 105, .sent 2, .errno 111]).st = ⟨[], [], none⟩ ∧
    (runCallsPeer .udp [.greedy, .greedy] ⟨[([65, 65], 1), ([66], 1)], [], none⟩ [.errno 105, .sent 2, .errno 111]).escaped = none := by decide

end Hio.Memo
