import HioModel.Memo.RxLemmas
/-!
# C22 — memo receivers survive arbitrary datagrams and accept only authentic memos

Property theorems only.  Model: `HioModel/Memo/Model.lean` (`pick`, `recvOne` = `_serviceOneReceived`, `recvLoop` =
`serviceReceives`, `fuse`, `fuseAll` = `_serviceOnceRxGrams`, `serviceAllRx`, `runBatches` = any history of service calls)
of the tree at branch fix/memo (pre-finding F36 repaired).  Every raising operation of `pick` / `fuse` carries its Python
exception class; the class sets of the two `except` clauses, the size table and the codexes are regenerated from the source
on every run.  `Memoer.verify` is the parameter `V`.

Assumptions on `V` (hypotheses, never axioms):
* `VSafe V`   — whatever `verify` raises is a class the `except` clause of `_serviceOneReceived` stops (the real one raises
                MemoerError / MemoerVerifyError / UnicodeDecodeError / binascii.Error; checked on every sampled call);
* `V [] s m ≠ ok` — `verify` rejects an empty vid (the real one raises MemoerError from `_decodeVID`).
-/
namespace Hio.Memo

/-- C22.1 for one datagram: for EVERY non-empty datagram, receiver state, source and mode, `_serviceOneReceived` does not raise -/
theorem rx_total (authic : Bool) (V : Bytes → Bytes → Bytes → Except Exn Unit) (hV : VSafe V) (es : List Entry) (gram : Bytes) (src : Nat)
    (hne : gram ≠ []) : ∃ es', recvOne authic V es gram src = .ok es' :=
  recvOne_total authic V es gram src hV hne

/-- C22.1 for a whole service call: `serviceAllRx()` over ANY queue of datagrams (empty ones included) from ANY state never raises
(receive loop, `fuse` of every memo id — gram numbers beyond the count, non UTF-8 memo bytes — and delivery) -/
theorem service_total (authic : Bool) (V : Bytes → Bytes → Bytes → Except Exn Unit) (hV : VSafe V) (es : List Entry) (q : List (Bytes × Nat)) :
    ∃ o, serviceAllRx authic V es q = .ok o :=
  serviceAllRx_total authic V hV es q

/-- … and for any history of service calls -/
theorem history_total (authic : Bool) (V : Bytes → Bytes → Bytes → Except Exn Unit) (hV : VSafe V) (bs : List (List (Bytes × Nat))) :
    ∃ r, runBatches authic V bs [] [] = .ok r :=
  runBatches_total authic V hV bs [] []

/-- the classes header parsing can raise are all stopped by the regenerated `except` clause (re-checked by `decide` on every run);
`UnboundLocalError` (ack codes, before the fix) is NOT — the model raises `MemoerError` for acks like the fixed code -/
theorem parse_classes_caught :
    rxCatches .memoerError = true ∧ rxCatches .memoerVerifyError = true ∧ rxCatches .keyError = true ∧ rxCatches .valueError = true ∧
      rxCatches .unicodeDecodeError = true ∧ rxCatches .binasciiError = true ∧ fuseCatches .unicodeDecodeError = true ∧
      rxCatches .unboundLocalError = false := by decide

/-- C22.2: an invalid gram (one `pick` rejects) is dropped — the receiver state is unchanged -/
theorem rx_invalid_dropped (authic : Bool) (V : Bytes → Bytes → Bytes → Except Exn Unit) (hV : VSafe V) (es : List Entry) (gram : Bytes) (src : Nat)
    (e : Exn) (hne : gram ≠ []) (h : pick authic (vidOfEntries es) V gram = .error e) : recvOne authic V es gram src = .ok es := by
  have hc : rxCatches e = true := by
    rcases pick_err _ _ _ _ _ hne h with h1 | ⟨v, s, m, h1⟩
    · exact parseExn_caught e h1
    · exact hV v s m e h1
  simp [recvOne, h, hc]

/-- C22.3 (authentic): with signed grams required, from the empty state, after ANY history of service calls over ANY datagrams:
every delivered memo carries a vid, and its text is a concatenation of bodies each of which is the tail of a signed part whose
signature passed `verify` under exactly that vid; the same holds for every gram still stored -/
theorem authentic (V : Bytes → Bytes → Bytes → Except Exn Unit) (hV0 : ∀ s m, V [] s m ≠ .ok ()) (bs : List (List (Bytes × Nat)))
    (es : List Entry) (q : List (Bytes × Nat)) (ds : List (List Memo)) (h : runBatches true V bs [] [] = .ok (es, q, ds)) :
    (∀ d ∈ ds, ∀ m ∈ d, AuthMemo V m) ∧ AInv V es := by
  have hinv : AInv V [] := by intro e he; cases he
  obtain ⟨h1, h2⟩ := runBatches_auth V hV0 bs [] [] _ hinv h
  exact ⟨h2, h1⟩

/-- C22.3 (tampered content is dropped): with signed grams required, a datagram whose signed pair does not verify under ANY vid
leaves the receiver unchanged.  By `split_recompose` the signed pair determines the datagram, so a datagram that differs in
any byte from every datagram the key holder produced has a pair the key holder never signed; under unforgeability
(`verify` accepts only pairs the key holder signed) every single-byte mutation of a signed gram is therefore dropped. -/
theorem tampered_dropped (V : Bytes → Bytes → Bytes → Except Exn Unit) (hV : VSafe V) (es : List Entry) (gram sig fore : Bytes) (src : Nat)
    (hne : gram ≠ []) (hs : splitSig gram = some (sig, fore)) (hbad : ∀ vid, V vid sig fore ≠ .ok ()) :
    recvOne true V es gram src = .ok es := by
  cases hp : pick true (vidOfEntries es) V gram with
  | error e => exact rx_invalid_dropped true V hV es gram src e hne hp
  | ok p =>
    obtain ⟨sig', fore', vid, h1, h2⟩ := pick_ver _ V gram p hp
    rw [hs] at h1; cases h1
    exact absurd h2 (hbad vid)

/-- the signed pair determines the datagram (so "another datagram" means "another signed pair") -/
theorem signed_pair_determines_gram (gram sig fore : Bytes) (h : splitSig gram = some (sig, fore)) :
    ∃ raw, gram = fore ++ raw ∧ (sig = raw ∨ sig = encodeB64 raw ∨ (raw = [] ∧ sig = [])) :=
  split_recompose gram sig fore h

/-- with signed grams required an unsigned gram is never stored: a gram that `pick` accepts had its signed pair verified -/
theorem authic_requires_verified (V : Bytes → Bytes → Bytes → Except Exn Unit) (vidOf : Bytes → Option Bytes) (gram : Bytes) (p : PG)
    (h : pick true vidOf V gram = .ok p) : ∃ sig fore vid, splitSig gram = some (sig, fore) ∧ V vid sig fore = .ok () :=
  pick_ver vidOf V gram p h

/-! ### non-vacuity: the hypotheses are satisfiable, and concrete tests (bounded checks) -/

/-- a verify that accepts exactly one triple: satisfies both assumptions -/
def Vone (v s m : Bytes) : Except Exn Unit := if v = [66] ∧ s = [1] ∧ m = [2] then .ok () else .error .memoerVerifyError

example : VSafe Vone := by
  intro v s m e h
  unfold Vone at h; split at h
  · simp at h
  · cases h; decide
example : ∀ s m, Vone [] s m ≠ .ok () := by intro s m; simp [Vone]
/-- test: an unknown code `bZZZ…` is dropped (KeyError caught) -/
example : recvOne false Vone [] ([98, 90, 90, 90] ++ List.replicate 40 65) 1 = .ok [] := by rfl
/-- test: an ack code is dropped -/
example : recvOne false Vone [] ([98, 65, 65, 73] ++ List.replicate 40 65) 1 = .ok [] := by rfl

end Hio.Memo
