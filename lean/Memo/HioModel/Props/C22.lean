import HioModel.Memo.RxLemmas
/-!
# C22 — memo receivers survive arbitrary datagrams and accept only authentic memos

Property theorems only.  Model: `HioModel/Memo/Model.lean` (`pick`, `recvOne` = `_serviceOneReceived`, `recvLoop` =
`serviceReceives`, `fuse`, `fuseAll` = `_serviceOnceRxGrams`, `serviceAllRx`, `runBatches` = any history of service calls)
of the tree at branch fix/memo (pre-finding F36 repaired).  Every raising operation of `pick` / `fuse` carries its Python
exception class; the class sets of the two `except` clauses, the size table and the codexes are regenerated from the source
on every run.  `Memoer.verify` is the parameter `V`.

Assumptions on `V` (hypotheses, never axioms):
* `VSafe V`   — whatever `verify` raises is a class the `except` clause of `_serviceOneReceived` stops (the real one raises
                MemoerError / MemoerVerifyError / UnicodeDecodeError / binascii.Error; checked on every sampled call);
* `V [] s m ≠ ok` — `verify` rejects an empty vid (the real one raises MemoerError from `_decodeVID`).
-/
namespace Hio.Memo

/-- C22.1 for one datagram: for EVERY non-empty datagram, receiver state, source and mode, `_serviceOneReceived` does not raise -/
theorem rx_total (authic : Bool) (V : Bytes → Bytes → Bytes → Except Exn Unit) (hV : VSafe V) (es : List Entry) (gram : Bytes) (src : Nat)
    (hne : gram ≠ []) : ∃ es', recvOne authic V es gram src = .ok es' :=
  recvOne_total authic V es gram src hV hne

/-- C22.1 for a whole service call: `serviceAllRx()` over ANY queue of datagrams (empty ones included) from ANY state never raises
(receive loop, `fuse` of every memo id — gram numbers beyond the count, non UTF-8 memo bytes — and delivery) -/
theorem service_total (authic : Bool) (V : Bytes → Bytes → Bytes → Except Exn Unit) (hV : VSafe V) (es : List Entry) (q : List (Bytes × Nat)) :
    ∃ o, serviceAllRx authic V es q = .ok o :=
  serviceAllRx_total authic V hV es q

/-- … and for any history of service calls -/
theorem history_total (authic : Bool) (V : Bytes → Bytes → Bytes → Except Exn Unit) (hV : VSafe V) (bs : List (List (Bytes × Nat))) :
    ∃ r, runBatches authic V bs [] [] = .ok r :=
  runBatches_total authic V hV bs [] []

/-- … and the non-greedy entry point `serviceAllRxOnce()` (one datagram, one fuse pass, one memo to the inbox) never raises either -/
theorem service_once_total (authic : Bool) (V : Bytes → Bytes → Bytes → Except Exn Unit) (hV : VSafe V) (es : List Entry) (q : List (Bytes × Nat))
    (rxms : List Memo) : ∃ r, serviceAllRxOnce authic V es q rxms = .ok r := by
  have hstep : ∃ r, recvOnceStep authic V es q = .ok r := by
    cases q with
    | nil => exact ⟨_, rfl⟩
    | cons gs q' =>
      obtain ⟨g, s⟩ := gs
      by_cases hg : g.isEmpty = true
      · exact ⟨(es, q'), by simp [recvOnceStep, hg]⟩
      · have hne : g ≠ [] := by intro h; simp [h] at hg
        obtain ⟨es', h⟩ := recvOne_total authic V es g s hV hne
        exact ⟨(es', q'), by simp [recvOnceStep, hg, h]⟩
  obtain ⟨⟨es1, q1⟩, h1⟩ := hstep
  obtain ⟨⟨es2, d⟩, h2⟩ := fuseAll_total es1
  unfold serviceAllRxOnce
  simp only [h1, h2]
  cases rxms ++ d with
  | nil => exact ⟨_, rfl⟩
  | cons m rest => exact ⟨_, rfl⟩

/-- the classes header parsing can raise are all stopped by the regenerated `except` clause (re-checked by `decide` on every run);
`UnboundLocalError` (ack codes, before the fix) is NOT — the model raises `MemoerError` for acks like the fixed code -/
theorem parse_classes_caught :
    rxCatches .memoerError = true ∧ rxCatches .memoerVerifyError = true ∧ rxCatches .keyError = true ∧ rxCatches .valueError = true ∧
      rxCatches .unicodeDecodeError = true ∧ rxCatches .binasciiError = true ∧ fuseCatches .unicodeDecodeError = true ∧
      rxCatches .unboundLocalError = false := by decide

/-- C22.2: an invalid gram (one `pick` rejects) is dropped — the receiver state is unchanged -/
theorem rx_invalid_dropped (authic : Bool) (V : Bytes → Bytes → Bytes → Except Exn Unit) (hV : VSafe V) (es : List Entry) (gram : Bytes) (src : Nat)
    (e : Exn) (hne : gram ≠ []) (h : pick authic (vidOfEntries es) V gram = .error e) : recvOne authic V es gram src = .ok es := by
  have hc : rxCatches e = true := by
    rcases pick_err _ _ _ _ _ hne h with h1 | ⟨v, s, m, h1⟩
    · exact parseExn_caught e h1
    · exact hV v s m e h1
  simp [recvOne, h, hc]

/-- C22.3 (authentic): with signed grams required, from the empty state, after ANY history of service calls over ANY datagrams:
every delivered memo carries a vid, and its text is a concatenation of bodies each of which is the tail of a signed part whose
signature passed `verify` under exactly that vid; the same holds for every gram still stored -/
theorem authentic (V : Bytes → Bytes → Bytes → Except Exn Unit) (hV0 : ∀ s m, V [] s m ≠ .ok ()) (bs : List (List (Bytes × Nat)))
    (es : List Entry) (q : List (Bytes × Nat)) (ds : List (List Memo)) (h : runBatches true V bs [] [] = .ok (es, q, ds)) :
    (∀ d ∈ ds, ∀ m ∈ d, AuthMemo V m) ∧ AInv V es := by
  have hinv : AInv V [] := by intro e he; cases he
  obtain ⟨h1, h2⟩ := runBatches_auth V hV0 bs [] [] _ hinv h
  exact ⟨h2, h1⟩

/-- C22.3 (tampered content is dropped): with signed grams required, a datagram whose signed pair does not verify under ANY vid
leaves the receiver unchanged.  By `split_recompose` the signed pair determines the datagram, so a datagram that differs in
any byte from every datagram the key holder produced has a pair the key holder never signed; under unforgeability
(`verify` accepts only pairs the key holder signed) every single-byte mutation of a signed gram is therefore dropped. -/
theorem tampered_dropped (V : Bytes → Bytes → Bytes → Except Exn Unit) (hV : VSafe V) (es : List Entry) (gram sig fore : Bytes) (src : Nat)
    (hne : gram ≠ []) (hs : splitSig gram = some (sig, fore)) (hbad : ∀ vid, V vid sig fore ≠ .ok ()) :
    recvOne true V es gram src = .ok es := by
  cases hp : pick true (vidOfEntries es) V gram with
  | error e => exact rx_invalid_dropped true V hV es gram src e hne hp
  | ok p =>
    obtain ⟨sig', fore', vid, h1, h2⟩ := pick_ver _ V gram p hp
    rw [hs] at h1; cases h1
    exact absurd h2 (hbad vid)

/-- the signed pair determines the datagram (so "another datagram" means "another signed pair") -/
theorem signed_pair_determines_gram (gram sig fore : Bytes) (h : splitSig gram = some (sig, fore)) :
    ∃ raw, gram = fore ++ raw ∧ (sig = raw ∨ sig = encodeB64 raw ∨ (raw = [] ∧ sig = [])) :=
  split_recompose gram sig fore h

/-- with signed grams required an unsigned gram is never stored: a gram that `pick` accepts had its signed pair verified -/
theorem authic_requires_verified (V : Bytes → Bytes → Bytes → Except Exn Unit) (vidOf : Bytes → Option Bytes) (gram : Bytes) (p : PG)
    (h : pick true vidOf V gram = .ok p) : ∃ sig fore vid, splitSig gram = some (sig, fore) ∧ V vid sig fore = .ok () :=
  pick_ver vidOf V gram p h

/-! ### which key: `Memoer.verify` itself (`verifyM`), over the receiver's keep

`verifyM P keep` is the model of `Memoer.verify`; only the decoding of qualified Base64 material and the ed25519 check stay parameters (`P`). -/

/-- the key a signer id is verified against: the key embedded in the id for the non-transferable code 'B' only; otherwise the key the
receiver's keep holds for that id -/
def KeyFor (P : VerifyParts) (keep : List (Bytes × Bytes)) (vid key : Bytes) : Prop :=
  ∃ raw code, P.decVID vid = .ok (raw, code) ∧
    ((code = 66 ∧ key = raw) ∨ (code ≠ 66 ∧ ∃ qvk, keep.lookup vid = some qvk ∧ P.decQVK qvk = .ok key))

/-- C22.3, key authority: whenever `verify` accepts, the signature decoded and passed the ed25519 check under the key `KeyFor` names —
for a transferable ('D') or digest ('E') id that is the key in the receiver's keep, NOT the key embedded in the id -/
theorem verify_key_authority (P : VerifyParts) (keep : List (Bytes × Bytes)) (vid sig ser : Bytes) (h : verifyM P keep vid sig ser = .ok ()) :
    ∃ key rawsig, KeyFor P keep vid key ∧ P.decSGN sig = .ok rawsig ∧ P.check key rawsig ser = true := by
  unfold verifyM at h
  split at h
  · simp at h
  · split at h
    · simp at h
    · rename_i key hk
      split at h
      · split at h <;> simp at h
      · rename_i rawsig hs
        split at h
        · rename_i hc
          refine ⟨key, rawsig, ?_, hs, hc⟩
          cases hd : P.decVID vid with
          | error e => simp [keyFor, hd] at hk
          | ok rc =>
            obtain ⟨raw, code⟩ := rc
            simp only [keyFor, hd] at hk
            by_cases hb : code = 66
            · simp only [hb, if_true] at hk; exact ⟨raw, code, hd, Or.inl ⟨hb, (Except.ok.inj hk).symm⟩⟩
            · simp only [hb, if_false] at hk
              cases hq : keep.lookup vid with
              | none => simp [hq] at hk
              | some qvk => simp only [hq] at hk; exact ⟨raw, code, hd, Or.inr ⟨hb, qvk, hq, hk⟩⟩
        · simp at h

/-- a transferable id the keep does not know cannot be verified at all (anybody can mint one): rejected with MemoerVerifyError -/
theorem verify_unknown_id_rejected (P : VerifyParts) (keep : List (Bytes × Bytes)) (vid sig ser raw : Bytes) (code : Nat)
    (hu : utf8Valid vid = true) (hd : P.decVID vid = .ok (raw, code)) (hc : code ≠ 66) (hk : keep.lookup vid = none) :
    verifyM P keep vid sig ser = .error .memoerVerifyError := by
  simp [verifyM, hu, keyFor, hd, hc, hk]

/-- a ROTATED id: the keep holds key `k2` for it; a signature that passes only under the retired key embedded in the id is rejected -/
theorem verify_retired_key_rejected (P : VerifyParts) (keep : List (Bytes × Bytes)) (vid sig ser raw qvk k2 : Bytes) (code : Nat)
    (hd : P.decVID vid = .ok (raw, code)) (hc : code ≠ 66) (hk : keep.lookup vid = some qvk) (hq : P.decQVK qvk = .ok k2)
    (hbad : ∀ rawsig, P.decSGN sig = .ok rawsig → P.check k2 rawsig ser = false) :
    verifyM P keep vid sig ser ≠ .ok () := by
  intro h
  obtain ⟨key, rawsig, ⟨raw', code', hd', hor⟩, hs, hchk⟩ := verify_key_authority P keep vid sig ser h
  rw [hd] at hd'; cases hd'
  rcases hor with ⟨hb, _⟩ | ⟨_, qvk', hq', hk'⟩
  · exact hc hb
  · rw [hk] at hq'; cases hq'
    rw [hq] at hk'; cases hk'
    rw [hbad rawsig hs] at hchk; cases hchk

/-- the assumptions of the totality / authenticity theorems hold of `verifyM` as soon as the decoders raise only classes the `except` clause
stops and reject the empty id -/
theorem verifyM_safe (P : VerifyParts) (keep : List (Bytes × Bytes))
    (h1 : ∀ v e, P.decVID v = .error e → rxCatches e = true) (h2 : ∀ q e, P.decQVK q = .error e → rxCatches e = true)
    (h3 : ∀ s e, P.decSGN s = .error e → rxCatches e = true) (h0 : ∀ r, P.decVID [] ≠ .ok r) :
    VSafe (verifyM P keep) ∧ ∀ s m, verifyM P keep [] s m ≠ .ok () := by
  constructor
  · intro v s m e h
    unfold verifyM at h
    split at h
    · cases h; decide
    · split at h
      · rename_i x hx
        cases h
        unfold keyFor at hx
        split at hx
        · rename_i y hy; cases hx; exact h1 _ _ hy
        · split at hx
          · simp at hx
          · split at hx
            · cases hx; decide
            · exact h2 _ _ hx
      · split at h
        · rename_i x hx
          split at h
          · cases h; decide
          · cases h; exact h3 _ _ hx
        · split at h
          · simp at h
          · cases h; decide
  · intro s m h
    obtain ⟨key, rawsig, ⟨raw, code, hd, _⟩, _, _⟩ := verify_key_authority P keep [] s m h
    exact h0 _ hd

/-- NO KEY STATE BESIDES THE KEEP: the outcome of `verify` is a function of what the CURRENT keep holds for that signer id (and of the
arguments) — not of any earlier call.  In the model this is by construction (`verifyM` has no other state; `runKeyed` threads only the keep);
the correspondence runs histories in which the keep is changed between service passes against the real code. -/
theorem verify_depends_only_on_current_keep (P : VerifyParts) (keep1 keep2 : List (Bytes × Bytes)) (vid sig ser : Bytes)
    (h : keep1.lookup vid = keep2.lookup vid) : verifyM P keep1 vid sig ser = verifyM P keep2 vid sig ser := by
  simp only [verifyM, keyFor, h]

/-- `.keep[vid] = …` / `del .keep[vid]`: afterwards the keep holds exactly that for the id, and what it holds for other ids is untouched -/
theorem setKeep_lookup (keep : List (Bytes × Bytes)) (vid : Bytes) (q : Option Bytes) :
    (setKeep keep vid q).lookup vid = q ∧ ∀ v, v ≠ vid → (setKeep keep vid q).lookup v = keep.lookup v := by
  have hfil : ∀ (l : List (Bytes × Bytes)), (l.filter (fun x => x.1 != vid)).lookup vid = none := by
    intro l
    induction l with
    | nil => rfl
    | cons a l ih =>
      by_cases ha : a.1 = vid
      · simp [List.filter, ha, ih]
      · have : (a.1 != vid) = true := by simpa using ha
        have hne : (vid == a.1) = false := by simpa using fun h => ha h.symm
        simp only [List.filter, this, List.lookup, hne]
        exact ih
  have hoth : ∀ (l : List (Bytes × Bytes)) v, v ≠ vid → (l.filter (fun x => x.1 != vid)).lookup v = l.lookup v := by
    intro l v hv
    induction l with
    | nil => rfl
    | cons a l ih =>
      by_cases ha : a.1 = vid
      · have hva : (v == vid) = false := by simpa using hv
        simp [List.filter, ha, List.lookup, hva, ih]
      · have : (a.1 != vid) = true := by simpa using ha
        simp only [List.filter, this, List.lookup]
        split
        · rfl
        · exact ih
  cases q with
  | none => exact ⟨by simp [setKeep, hfil], fun v hv => by simp [setKeep, hoth _ v hv]⟩
  | some qv =>
    refine ⟨by simp [setKeep, List.lookup], fun v hv => ?_⟩
    have hvv : (v == vid) = false := by simpa using hv
    simp [setKeep, List.lookup, hvv, hoth _ v hv]

/-- key ROTATION: once the keep holds `q2` for a transferable id, `verify` accepts for that id exactly under the key decoded from `q2` —
whatever the receiver verified for that id before (memos signed with the new key are accepted, those signed with the retired key refused) -/
theorem verify_after_rotation (P : VerifyParts) (keep : List (Bytes × Bytes)) (vid q2 sig ser raw : Bytes) (code : Nat)
    (hd : P.decVID vid = .ok (raw, code)) (hc : code ≠ 66) (h : verifyM P (setKeep keep vid (some q2)) vid sig ser = .ok ()) :
    ∃ key rawsig, P.decQVK q2 = .ok key ∧ P.decSGN sig = .ok rawsig ∧ P.check key rawsig ser = true := by
  obtain ⟨key, rawsig, ⟨raw', code', hd', hor⟩, hs, hchk⟩ := verify_key_authority P _ vid sig ser h
  rw [hd] at hd'; cases hd'
  rcases hor with ⟨hb, _⟩ | ⟨_, qvk, hq, hk⟩
  · exact absurd hb hc
  · rw [(setKeep_lookup keep vid (some q2)).1] at hq
    cases hq
    exact ⟨key, rawsig, hk, hs, hchk⟩

/-- a receive history with key management in between (`runKeyed`: batches and keep updates in any order) never raises -/
theorem keyed_history_total (authic : Bool) (P : VerifyParts)
    (h1 : ∀ v e, P.decVID v = .error e → rxCatches e = true) (h2 : ∀ q e, P.decQVK q = .error e → rxCatches e = true)
    (h3 : ∀ s e, P.decSGN s = .error e → rxCatches e = true) (h0 : ∀ r, P.decVID [] ≠ .ok r)
    (steps : List RStep) (keep : List (Bytes × Bytes)) (es : List Entry) (q : List (Bytes × Nat)) :
    ∃ r, runKeyed authic P steps keep es q = .ok r := by
  induction steps generalizing keep es q with
  | nil => exact ⟨_, rfl⟩
  | cons st rest ih =>
    cases st with
    | rekey vid qvk => simp only [runKeyed]; exact ih _ _ _
    | batch b =>
      simp only [runKeyed]
      obtain ⟨o, ho⟩ := serviceAllRx_total authic (verifyM P keep) (verifyM_safe P keep h1 h2 h3 h0).1 es (q ++ b)
      obtain ⟨r, hr⟩ := ih keep o.entries o.queue
      simp [ho, hr]

/-- C22.3 with the key spelled out: with signed grams required, from the empty state, after ANY history of service calls over ANY datagrams,
every delivered memo carries a signer id, and its text is a concatenation of bodies each lying in a signed part whose signature passed the
ed25519 check under the key the RECEIVER holds for that id (`KeyFor`: embedded key only for non-transferable ids) -/
theorem authentic_keyed (P : VerifyParts) (keep : List (Bytes × Bytes)) (h0 : ∀ r, P.decVID [] ≠ .ok r)
    (bs : List (List (Bytes × Nat))) (es : List Entry) (q : List (Bytes × Nat)) (ds : List (List Memo))
    (h : runBatches true (verifyM P keep) bs [] [] = .ok (es, q, ds)) :
    ∀ d ∈ ds, ∀ m ∈ d, ∃ vid, m.vid = some vid ∧ ∃ parts : List Bytes, m.text = parts.flatten ∧
      ∀ b ∈ parts, ∃ sig fore k key rawsig, b = fore.drop k ∧ KeyFor P keep vid key ∧ P.decSGN sig = .ok rawsig ∧ P.check key rawsig fore = true := by
  have hV0 : ∀ s m, verifyM P keep [] s m ≠ .ok () := by
    intro s m h'
    obtain ⟨key, rawsig, ⟨raw, code, hd, _⟩, _, _⟩ := verify_key_authority P keep [] s m h'
    exact h0 _ hd
  obtain ⟨hall, _⟩ := authentic (verifyM P keep) hV0 bs es q ds h
  intro d hd m hm
  obtain ⟨vid, hv, parts, hp, hsb⟩ := hall d hd m hm
  refine ⟨vid, hv, parts, hp, ?_⟩
  intro b hb
  obtain ⟨sig, fore, k, hver, hbk⟩ := hsb b hb
  obtain ⟨key, rawsig, hkf, hs, hc⟩ := verify_key_authority P keep vid sig fore hver
  exact ⟨sig, fore, k, key, rawsig, hbk, hkf, hs, hc⟩

/-! ### non-vacuity: the hypotheses are satisfiable, and concrete tests (bounded checks) -/

/-- a verify that accepts exactly one triple: satisfies both assumptions -/
def Vone (v s m : Bytes) : Except Exn Unit := if v = [66] ∧ s = [1] ∧ m = [2] then .ok () else .error .memoerVerifyError

example : VSafe Vone := by
  intro v s m e h
  unfold Vone at h; split at h
  · simp at h
  · cases h; decide
example : ∀ s m, Vone [] s m ≠ .ok () := by intro s m; simp [Vone]
/-- concrete third-party parts meeting the hypotheses of `verifyM_safe` / `authentic_keyed`: a 'D' id `[68]` with embedded key `[1]`,
the keep holds the rotated key `[2]` for it; the check accepts only signature `[9]` under key `[2]` -/
def Pdemo : VerifyParts where
  decVID v := if v = [68] then .ok ([1], 68) else .error .memoerError
  decQVK q := if q = [7] then .ok [2] else .error .memoerError
  decSGN s := .ok s
  check k s _ := k == [2] && s == [9]

example : (∀ v e, Pdemo.decVID v = .error e → rxCatches e = true) ∧ (∀ r, Pdemo.decVID [] ≠ .ok r) := by
  constructor
  · intro v e h; simp only [Pdemo] at h; split at h
    · simp at h
    · cases h; decide
  · intro r h; simp [Pdemo] at h
/-- test: current key accepted, retired key (a signature that would only pass under the embedded key `[1]`) rejected -/
example : verifyM Pdemo [([68], [7])] [68] [9] [0] = .ok () ∧ verifyM Pdemo [([68], [7])] [68] [8] [0] = .error .memoerVerifyError ∧
    verifyM Pdemo [] [68] [9] [0] = .error .memoerVerifyError := by
  refine ⟨by rfl, by rfl, by rfl⟩

/-- test: an unknown code `bZZZ…` is dropped (KeyError caught) -/
example : recvOne false Vone [] ([98, 90, 90, 90] ++ List.replicate 40 65) 1 = .ok [] := by rfl
/-- test: an ack code is dropped -/
example : recvOne false Vone [] ([98, 65, 65, 73] ++ List.replicate 40 65) 1 = .ok [] := by rfl

end Hio.Memo
