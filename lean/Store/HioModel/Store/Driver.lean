import HioModel.Basic.Sexp
import HioModel.Store.Model
import HioModel.Store.Queue
open Hio Hio.Store Hio.Sexp

def exnName : Exn → String
  | .keyError => "KeyError" | .valueError => "ValueError" | .typeError => "TypeError"
  | .badValsize => "BadValsizeError" | .hierError => "HierError" | .indexError => "IndexError"
  | .ordinalOverflow => "OrdinalOverflow"

def outRaise (e : Exn) : Sexp := .list [sym "raise", sym (exnName e)]

def outRes : Res → Sexp
  | .bool b => ofBool b
  | .nat n => ofNat n
  | .opt v => ofOpt ofBytes v
  | .vals vs => .list (vs.map ofBytes)
  | .pairs ps => .list (ps.map fun p => .list [ofBytes p.1, ofBytes p.2])
  | .raise e => outRaise e
  | .unsupported => sym "unsupported"

def bytesL (xs : List Sexp) : Option (List Bytes) := xs.mapM bytes?

def parseOp (kind : Kind) : Sexp → Option Op
  | .list [.atom "put", k, v] => do
    let k ← bytes? k
    match kind with
    | .plain => do let v ← bytes? v; pure (.put k v)
    | _ => do let vs ← list? v; let vs ← bytesL vs; pure (.putL k vs)
  | .list [.atom "pin", k, v] => do
    let k ← bytes? k
    match kind with
    | .plain => do let v ← bytes? v; pure (.pin k v)
    | _ => do let vs ← list? v; let vs ← bytesL vs; pure (.pinL k vs)
  | .list [.atom "add", k, v] => do pure (.add (← bytes? k) (← bytes? v))
  | .list [.atom "remv", k, v] => do pure (.remv (← bytes? k) (← bytes? v))
  | .list [.atom "get", k] => do pure (.get (← bytes? k))
  | .list [.atom "iter", k] => do pure (.iter (← bytes? k))
  | .list [.atom "first", k] => do pure (.first (← bytes? k))
  | .list [.atom "last", k] => do pure (.last (← bytes? k))
  | .list [.atom "pop", k] => do pure (.pop (← bytes? k))
  | .list [.atom "rem", k] => do pure (.rem (← bytes? k))
  | .list [.atom "cnt", k] => do pure (.cnt (← bytes? k))
  | .list [.atom "cnt"] => some .cntAll
  | .list [.atom "items"] => some .items
  | .list [.atom "itemstop", t] => do pure (.itemsTop (← bytes? t))
  | .list [.atom "fullitems", t] => do pure (.fullItems (← bytes? t))
  | .list [.atom "trim", t] => do pure (.trim (← bytes? t))
  | .list [.atom "badput", k] => do pure (.bad false (← bytes? k))
  | .list [.atom "badpin", k] => do pure (.bad true (← bytes? k))
  | _ => none

def c24 (kind : Kind) (fs : List Sexp) : Option Sexp := do
  let keys ← bytesL (← field "keys" fs)
  let ops ← (← field "ops" fs).mapM (parseOp kind)
  let (steps, dbf) := run kind keys [] ops
  let outSteps := steps.map fun (r, snap) => Sexp.list [outRes r, .list (snap.map outRes)]
  some (.list [.list outSteps, .list (dbf.map fun e => .list [ofBytes e.1, ofBytes e.2])])

/-! ### C24 over the library's own wiring: one Subery = three independent sub-dbs (cans plain, drqs io, dsqs ioset) -/

def storeKind : String → Option Kind
  | "cans" => some .plain
  | "drqs" => some .io
  | "dsqs" => some .ioset
  | _ => none

structure Three where
  c : Db
  q : Db
  s : Db

def Three.get (t : Three) : Kind → Db
  | .plain => t.c | .io => t.q | .ioset => t.s

def Three.set (t : Three) (k : Kind) (db : Db) : Three :=
  match k with
  | .plain => { t with c := db } | .io => { t with q := db } | .ioset => { t with s := db }

def subRun (keys : List Bytes) : Three → List (Kind × Op) → List Sexp × Three
  | t, [] => ([], t)
  | t, (kd, op) :: rest =>
    let (db', r) := step kd (t.get kd) op
    let t' := t.set kd db'
    let snap := Sexp.list ([Kind.plain, Kind.io, Kind.ioset].map fun k => Sexp.list (keys.map fun key => outRes (observe k (t'.get k) key)))
    let (out, tf) := subRun keys t' rest
    (Sexp.list [outRes r, snap] :: out, tf)

def c24sub (fs : List Sexp) : Option Sexp := do
  let keys ← bytesL (← field "keys" fs)
  let ops ← (← field "ops" fs).mapM fun
    | .list (.atom st :: rest) => do
      let kd ← storeKind st
      let op ← parseOp kd (.list rest)
      pure (kd, op)
    | _ => none
  let (steps, tf) := subRun keys ⟨[], [], []⟩ ops
  let dump (db : Db) : Sexp := .list (db.map fun e => .list [ofBytes e.1, ofBytes e.2])
  some (.list [.list steps, .list [dump tf.c, dump tf.q, dump tf.s]])

/-! ### C23 -/

def parseVal : Sexp → Option Bytes
  | .list [_, b] => bytes? b
  | _ => none

def parseArg : Sexp → Option Arg
  | .list [_, b] => do pure (.ok (← bytes? b))
  | .atom "none" => some .none
  | .atom "junk" => some .junk
  | _ => none

/-- ops address queues by index into the key list; arguments arrive as called (possibly None / a foreign object) -/
def parseQOp (keys : List Bytes) : Sexp → Option MOp
  | .list [.atom "push", i, v] => do pure (.a (← keys[(← nat? i)]?) (.push (← parseArg v)))
  | .list [.atom "remove", i, v] => do pure (.a (← keys[(← nat? i)]?) (.remove (← parseArg v)))
  | .list [.atom "count", i, v] => do pure (.a (← keys[(← nat? i)]?) (.count (← parseArg v)))
  | .list [.atom "extend", i, .list vs] => do pure (.a (← keys[(← nat? i)]?) (.extend (← vs.mapM parseArg)))
  | .list [.atom "pull", i] => do pure (.a (← keys[(← nat? i)]?) (.pull true))
  | .list [.atom "pullx", i] => do pure (.a (← keys[(← nat? i)]?) (.pull false))
  | .list [.atom "clear", i] => do pure (.a (← keys[(← nat? i)]?) .clear)
  | .list [.atom "sync", i, f] => do pure (.a (← keys[(← nat? i)]?) (.sync (← bool? f)))
  | .list (.atom "reopen" :: pres) => do
    let ps ← pres.mapM fun
      | .list vs => do pure (some (← vs.mapM parseVal))
      | .atom "keep" => some none
      | _ => none
    pure (.reopen (fun k => match (keys.zip ps).find? (fun p => p.1 == k) with | some p => p.2 | none => some []))
  | _ => none

def outQRes : QRes → Sexp
  | .bool b => ofBool b
  | .nat n => ofNat n
  | .val v => ofOpt ofBytes v
  | .raise e => outRaise e
  | .unsupported => sym "unsupported"

def outDur : Except Exn (List Bytes) → Sexp
  | .ok vs => .list (vs.map ofBytes)
  | .error e => outRaise e

def c23 (kind : QKind) (fs : List Sexp) : Option Sexp := do
  let keys ← bytesL (← field "keys" fs)
  let table ← (← field "table" fs).mapM fun
    | .list [e, b] => do pure ((← nat? e), (← bytes? b))
    | _ => none
  let ops ← (← field "ops" fs).mapM (parseQOp keys)
  let cls : Bytes → Nat := fun b => match table.find? (fun p => p.2 == b) with
    | some p => p.1
    | none => 1000000 + b.length
  -- building the Hold injects a fresh queue at every key of the (empty) store
  let (db0, ms0, _) := injectAll cls kind (fun _ => some []) keys [] (fun _ => ⟨[], true⟩)
  let out := mrun cls kind keys db0 ms0 ops
  some (.list (out.map fun (r, obs) => Sexp.list [outQRes r, .list (obs.map fun (m, d) => Sexp.list [.list (m.map ofBytes), outDur d])]))

def handle : Sexp → Sexp
  | .list (.atom "plain" :: fs) => (c24 .plain fs).getD (sym "bad-request")
  | .list (.atom "io" :: fs) => (c24 .io fs).getD (sym "bad-request")
  | .list (.atom "ioset" :: fs) => (c24 .ioset fs).getD (sym "bad-request")
  | .list (.atom "oracleonly" :: _) => sym "oracle-only"
  | .list (.atom "subery" :: fs) => (c24sub fs).getD (sym "bad-request")
  | .list (.atom "durq" :: fs) => (c23 .durq fs).getD (sym "bad-request")
  | .list (.atom "dusq" :: fs) => (c23 .dusq fs).getD (sym "bad-request")
  | _ => sym "bad-request"

def main : IO Unit := serve handle
