import HioModel.Basic.Sexp
import HioModel.Store.Model
import HioModel.Store.Queue
open Hio Hio.Store Hio.Sexp

def exnName : Exn → String
  | .keyError => "KeyError" | .valueError => "ValueError" | .typeError => "TypeError"
  | .badValsize => "BadValsizeError" | .hierError => "HierError" | .indexError => "IndexError"
  | .ordinalOverflow => "OrdinalOverflow"

def outRaise (e : Exn) : Sexp := .list [sym "raise", sym (exnName e)]

def outRes : Res → Sexp
  | .bool b => ofBool b
  | .nat n => ofNat n
  | .opt v => ofOpt ofBytes v
  | .vals vs => .list (vs.map ofBytes)
  | .pairs ps => .list (ps.map fun p => .list [ofBytes p.1, ofBytes p.2])
  | .raise e => outRaise e
  | .unsupported => sym "unsupported"

def bytesL (xs : List Sexp) : Option (List Bytes) := xs.mapM bytes?

def parseOp (kind : Kind) : Sexp → Option Op
  | .list [.atom "put", k, v] => do
    let k ← bytes? k
    match kind with
    | .plain => do let v ← bytes? v; pure (.put k v)
    | _ => do let vs ← list? v; let vs ← bytesL vs; pure (.putL k vs)
  | .list [.atom "pin", k, v] => do
    let k ← bytes? k
    match kind with
    | .plain => do let v ← bytes? v; pure (.pin k v)
    | _ => do let vs ← list? v; let vs ← bytesL vs; pure (.pinL k vs)
  | .list [.atom "add", k, v] => do pure (.add (← bytes? k) (← bytes? v))
  | .list [.atom "remv", k, v] => do pure (.remv (← bytes? k) (← bytes? v))
  | .list [.atom "get", k] => do pure (.get (← bytes? k))
  | .list [.atom "iter", k] => do pure (.iter (← bytes? k))
  | .list [.atom "first", k] => do pure (.first (← bytes? k))
  | .list [.atom "last", k] => do pure (.last (← bytes? k))
  | .list [.atom "pop", k] => do pure (.pop (← bytes? k))
  | .list [.atom "rem", k] => do pure (.rem (← bytes? k))
  | .list [.atom "cnt", k] => do pure (.cnt (← bytes? k))
  | .list [.atom "cnt"] => some .cntAll
  | .list [.atom "items"] => some .items
  | _ => none

def c24 (kind : Kind) (fs : List Sexp) : Option Sexp := do
  let keys ← bytesL (← field "keys" fs)
  let ops ← (← field "ops" fs).mapM (parseOp kind)
  let (steps, dbf) := run kind keys [] ops
  let outSteps := steps.map fun (r, snap) => Sexp.list [outRes r, .list (snap.map outRes)]
  some (.list [.list outSteps, .list (dbf.map fun e => .list [ofBytes e.1, ofBytes e.2])])

/-! ### C23 -/

def parseVal : Sexp → Option Bytes
  | .list [_, b] => bytes? b
  | _ => none

inductive MOp where
  | q (i : Nat) (o : QOp)
  | reopen

def parseQOp : Sexp → Option MOp
  | .list [.atom "push", i, v] => do pure (.q (← nat? i) (.push (← parseVal v)))
  | .list [.atom "remove", i, v] => do pure (.q (← nat? i) (.remove (← parseVal v)))
  | .list [.atom "count", i, v] => do pure (.q (← nat? i) (.count (← parseVal v)))
  | .list [.atom "extend", i, .list vs] => do pure (.q (← nat? i) (.extend (← vs.mapM parseVal)))
  | .list [.atom "pull", i] => do pure (.q (← nat? i) (.pull true))
  | .list [.atom "pullx", i] => do pure (.q (← nat? i) (.pull false))
  | .list [.atom "clear", i] => do pure (.q (← nat? i) .clear)
  | .list [.atom "reopen"] => some .reopen
  | _ => none

def outQRes : QRes → Sexp
  | .bool b => ofBool b
  | .nat n => ofNat n
  | .val v => ofOpt ofBytes v
  | .raise e => outRaise e
  | .unsupported => sym "unsupported"

def outDur : Except Exn (List Bytes) → Sexp
  | .ok vs => .list (vs.map ofBytes)
  | .error e => outRaise e

/-- inject a fresh queue at every key, in order; a failing inject keeps the old object -/
def injectAll (cls : Bytes → Nat) (kind : QKind) : List Bytes → List Q → Db → Db × List Q × Option Exn
  | [], _, db => (db, [], none)
  | k :: ks, olds, db =>
    let old := olds.headD ⟨[], true⟩
    match inject cls kind k db with
    | (db', .ok q) => let (db'', qs, e) := injectAll cls kind ks olds.tail db'; (db'', q :: qs, e)
    | (db', .error x) => (db', old :: olds.tail, some x)

def setAt (qs : List Q) (i : Nat) (q : Q) : List Q := qs.set i q

def observeAll (keys : List Bytes) (qs : List Q) (db : Db) : Sexp :=
  .list ((keys.zip qs).map fun (k, q) => .list [.list (q.mem.map ofBytes), outDur (durable db k)])

def mrun (cls : Bytes → Nat) (kind : QKind) (keys : List Bytes) : Db → List Q → List MOp → List Sexp
  | _, _, [] => []
  | db, qs, .reopen :: os =>
    let (db', qs', e) := injectAll cls kind keys qs db
    let r := match e with | none => ofBool true | some x => outRaise x
    .list [r, observeAll keys qs' db'] :: mrun cls kind keys db' qs' os
  | db, qs, .q i o :: os =>
    match keys[i]?, qs[i]? with
    | some k, some q =>
      let (db', q', r) := qstep cls kind k db q o
      let qs' := setAt qs i q'
      .list [outQRes r, observeAll keys qs' db'] :: mrun cls kind keys db' qs' os
    | _, _ => [sym "bad-queue-index"]

def c23 (kind : QKind) (fs : List Sexp) : Option Sexp := do
  let keys ← bytesL (← field "keys" fs)
  let table ← (← field "table" fs).mapM fun
    | .list [e, b] => do pure ((← nat? e), (← bytes? b))
    | _ => none
  let ops ← (← field "ops" fs).mapM parseQOp
  let cls : Bytes → Nat := fun b => match table.find? (fun p => p.2 == b) with
    | some p => p.1
    | none => 1000000 + b.length
  let (db0, qs0, _) := injectAll cls kind keys [] []
  some (.list (mrun cls kind keys db0 qs0 ops))

def handle : Sexp → Sexp
  | .list (.atom "plain" :: fs) => (c24 .plain fs).getD (sym "bad-request")
  | .list (.atom "io" :: fs) => (c24 .io fs).getD (sym "bad-request")
  | .list (.atom "ioset" :: fs) => (c24 .ioset fs).getD (sym "bad-request")
  | .list (.atom "durq" :: fs) => (c23 .durq fs).getD (sym "bad-request")
  | .list (.atom "dusq" :: fs) => (c23 .dusq fs).getD (sym "bad-request")
  | _ => sym "bad-request"

def main : IO Unit := serve handle
