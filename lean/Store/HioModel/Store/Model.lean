import HioModel.Gen.StoreConsts
/-!
# Store area — executable model of `hio.base.during` (Duror / Suber / IoSuber / IoSetSuber)

Import-free apart from the regenerated constants.  Faithful to the tree at `fix/store`
(F37 repaired; F38, F39 present).

* **lmdb** (trusted, exercised by the correspondence): one sub-database is a `List (key × value)`
  sorted by bytewise lexicographic key order with unique keys.  `set_range k` positions the cursor at the
  first entry with key `≥ k` (`setRange` returns the entries from the cursor on), `iternext` walks that
  list, `cursor.delete()` erases the entry under the cursor, `put` inserts in order (overwrite or not),
  `put` of an empty key or of a key longer than `maxKeySize` raises `BadValsizeError`.  Every Duror method runs
  in one transaction: an exception aborts it, so a failing method leaves the database unchanged.
* **suffix / unsuffix**: `key ++ [sep] ++ <SuffixSize lower-case hex digits>`; `unsuffix` splits at the LAST
  separator and parses hex (`none` = Python `ValueError`).  Modelling boundary: `"%032x" % n` for
  `n ≥ 16^32` prints more digits; the model raises `Exn.ordinalOverflow` instead (needs 16^32 adds).
  `int(b, 16)` also accepts signs / underscores / `0x`; the model does not — unreachable, every key in an
  io sub-db was written by `suffix` (theorem `reachable_wellformed`).
* every scan loop (`for iokey, val in cursor.iternext(): … if ckey != key: break`) is structural
  recursion over the entries from the cursor on (`scan`).
-/
namespace Hio.Store

abbrev Bytes := List Nat
abbrev Entry := Bytes × Bytes
abbrev Db := List Entry

inductive Exn where
  | keyError | valueError | typeError | badValsize | hierError | indexError | ordinalOverflow
deriving DecidableEq, Repr

def W : Nat := Hio.Gen.suffixSize
def sepB : Nat := Hio.Gen.ionSep
def maxKey : Nat := Hio.Gen.maxKeySize
def maxSuffix : Nat := Hio.Gen.maxSuffix

/-! ## bytewise order and the sorted-list model of lmdb -/

def lexLt : Bytes → Bytes → Bool
  | _, [] => false
  | [], _ :: _ => true
  | a :: as, b :: bs => a < b || (a == b && lexLt as bs)

/-- entries from the cursor on after `cursor.set_range(k)` (empty = `set_range` returned False) -/
def setRange (db : Db) (k : Bytes) : Db := db.dropWhile (fun e => lexLt e.1 k)

def lookup : Db → Bytes → Option Bytes
  | [], _ => none
  | e :: es, k => if e.1 = k then some e.2 else lookup es k

/-- ordered insert, replacing the value of an existing key -/
def insert : Db → Bytes → Bytes → Db
  | [], k, v => [(k, v)]
  | e :: es, k, v =>
    if lexLt k e.1 then (k, v) :: e :: es
    else if e.1 = k then (k, v) :: es
    else e :: insert es k v

def erase : Db → Bytes → Db
  | [], _ => []
  | e :: es, k => if e.1 = k then es else e :: erase es k

def validKey (k : Bytes) : Bool := 0 < k.length && k.length ≤ maxKey

/-- `txn.put` / `cursor.put`: new database and the boolean lmdb returns -/
def lmdbPut (db : Db) (k v : Bytes) (overwrite : Bool) : Except Exn (Db × Bool) :=
  if !validKey k then .error .badValsize
  else match lookup db k with
    | some _ => if overwrite then .ok (insert db k v, true) else .ok (db, false)
    | none => .ok (insert db k v, true)

/-! ## suffix / unsuffix -/

def hexChar (d : Nat) : Nat := if d < 10 then 48 + d else 87 + d

/-- exactly `w` lower-case hex digits of `n`, most significant first (`"%0wx" % n` when `n < 16^w`) -/
def hexFix : Nat → Nat → Bytes
  | 0, _ => []
  | w + 1, n => hexFix w (n / 16) ++ [hexChar (n % 16)]

def suffixW (sep w : Nat) (k : Bytes) (ion : Nat) : Bytes := k ++ sep :: hexFix w ion

/-- `Duror.suffix(key, ion)` with the default separator -/
def suffix (k : Bytes) (ion : Nat) : Bytes := suffixW sepB W k ion

/-- `bytes.rsplit(sep, 1)` for a one-byte separator: (before the last sep, after it) -/
def rsplit (s : Nat) : Bytes → Option (Bytes × Bytes)
  | [] => none
  | b :: bs => match rsplit s bs with
    | some (k, r) => some (b :: k, r)
    | none => if b = s then some ([], bs) else none

def hexVal (c : Nat) : Option Nat :=
  if 48 ≤ c ∧ c ≤ 57 then some (c - 48)
  else if 97 ≤ c ∧ c ≤ 102 then some (c - 87)
  else if 65 ≤ c ∧ c ≤ 70 then some (c - 55)
  else none

def parseHexAux : Bytes → Nat → Option Nat
  | [], acc => some acc
  | c :: cs, acc => match hexVal c with
    | some d => parseHexAux cs (acc * 16 + d)
    | none => none

def parseHex (b : Bytes) : Option Nat := if b = [] then none else parseHexAux b 0

def unsuffixW (sep : Nat) (b : Bytes) : Option (Bytes × Nat) :=
  match rsplit sep b with
  | none => none
  | some (k, r) => match parseHex r with
    | none => none
    | some i => some (k, i)

/-- `Duror.unsuffix(iokey)`; `none` is Python's `ValueError` -/
def unsuffix (b : Bytes) : Option (Bytes × Nat) := unsuffixW sepB b

/-! ## Duror: plain values -/

def putVal (db : Db) (k v : Bytes) : Except Exn (Db × Bool) :=
  match lmdbPut db k v false with
  | .error _ => .error .keyError
  | .ok r => .ok r

def pinVal (db : Db) (k v : Bytes) : Except Exn (Db × Bool) :=
  match lmdbPut db k v true with
  | .error _ => .error .keyError
  | .ok r => .ok r

def getVal (db : Db) (k : Bytes) : Except Exn (Option Bytes) :=
  if k = [] then .error .keyError else .ok (lookup db k)

def remVal (db : Db) (k : Bytes) : Except Exn (Db × Bool) :=
  if k = [] then .error .keyError else .ok (erase db k, (lookup db k).isSome)

/-! ## Duror: insertion-ordered values (shared by Io and IoSet) -/

structure Hit where
  iokey : Bytes
  ion : Nat
  val : Bytes
deriving DecidableEq, Repr

/-- the scan loop: walk from the cursor while the apparent key is `k` -/
def scan (k : Bytes) : Db → Except Exn (List Hit)
  | [] => .ok []
  | e :: es => match unsuffix e.1 with
    | none => .error .valueError
    | some (ck, ci) =>
      if ck = k then
        match scan k es with
        | .ok hs => .ok (⟨e.1, ci, e.2⟩ :: hs)
        | .error x => .error x
      else .ok []

def scanKey (db : Db) (k : Bytes) : Except Exn (List Hit) := scan k (setRange db (suffix k 0))

/-- `ion = cion + 1` for every entry found: one past the last ordinal seen, 0 if none -/
def nextIon : List Hit → Nat
  | [] => 0
  | [h] => h.ion + 1
  | _ :: h :: hs => nextIon (h :: hs)

def getIoVals (db : Db) (k : Bytes) : Except Exn (List Bytes) :=
  match scanKey db k with
  | .ok hs => .ok (hs.map (·.val))
  | .error x => .error x

def cntIoVals (db : Db) (k : Bytes) : Except Exn Nat :=
  match getIoVals db k with
  | .ok vs => .ok vs.length
  | .error x => .error x

def getIoValFirst (db : Db) (k : Bytes) : Except Exn (Option Bytes) :=
  match setRange db (suffix k 0) with
  | [] => .ok none
  | e :: _ => match unsuffix e.1 with
    | none => .error .valueError
    | some (ck, _) => .ok (if ck = k then some e.2 else none)

def popIoVal (db : Db) (k : Bytes) : Except Exn (Db × Option Bytes) :=
  match setRange db (suffix k 0) with
  | [] => .ok (db, none)
  | e :: _ => match unsuffix e.1 with
    | none => .error .valueError
    | some (ck, _) => if ck = k then .ok (erase db e.1, some e.2) else .ok (db, none)

def eraseAll (db : Db) : List Hit → Db
  | [] => db
  | h :: hs => eraseAll (erase db h.iokey) hs

def remIoVals (db : Db) (k : Bytes) : Except Exn (Db × Bool) :=
  match scanKey db k with
  | .ok hs => .ok (eraseAll db hs, !hs.isEmpty)
  | .error x => .error x

def ionOf (k : Bytes) (e : Entry) : Except Exn (Option Nat) :=
  match unsuffix e.1 with
  | none => .error .valueError
  | some (ck, ci) => .ok (if ck = k then some ci else none)

/-- `getIoValLast`: position at `suffix k MaxSuffix`, look at that entry, else one back, else the last entry -/
def getIoValLast (db : Db) (k : Bytes) : Except Exn (Option Bytes) :=
  let target := suffix k maxSuffix
  let before := db.takeWhile (fun e => lexLt e.1 target)
  let after := db.dropWhile (fun e => lexLt e.1 target)
  let ion : Except Exn (Option Nat) :=
    match after with
    | [] => match db.getLast? with
      | none => .ok none
      | some e => ionOf k e
    | e :: _ => match ionOf k e with
      | .error x => .error x
      | .ok (some ci) => .ok (some ci)
      | .ok none => match before.getLast? with
        | none => .ok none
        | some e' => ionOf k e'
  match ion with
  | .error x => .error x
  | .ok none => .ok none
  | .ok (some i) => match lookup db (suffix k i) with
    | some v => .ok (some v)
    | none => .error .typeError     -- bytes(None)

/-- consecutive `cursor.put(suffix(key, ion+i), val)`; `orr` = results or-ed (`… or result`) vs last one wins -/
def putMany (k : Bytes) (overwrite orr : Bool) : Db → Nat → List Bytes → Bool → Except Exn (Db × Bool)
  | db, _, [], r => .ok (db, r)
  | db, ion, v :: vs, r =>
    if ion ≥ 16 ^ W then .error .ordinalOverflow
    else match lmdbPut db (suffix k ion) v overwrite with
      | .error x => .error x
      | .ok (db', r') => putMany k overwrite orr db' (ion + 1) vs (if orr then r' || r else r')

def addIoVal (db : Db) (k v : Bytes) : Except Exn (Db × Bool) :=
  match scanKey db k with
  | .error x => .error x
  | .ok hs => putMany k true false db (nextIon hs) [v] false

def putIoVals (db : Db) (k : Bytes) (vals : List Bytes) : Except Exn (Db × Bool) :=
  match scanKey db k with
  | .error x => .error x
  | .ok hs => putMany k true false db (nextIon hs) vals false

/-- two transactions: the removal is committed even when the puts fail -/
def pinIoVals (db : Db) (k : Bytes) (vals : List Bytes) : Db × Except Exn Bool :=
  match remIoVals db k with
  | .error x => (db, .error x)
  | .ok (db1, _) => match putMany k true false db1 0 vals false with
    | .error x => (db1, .error x)
    | .ok (db2, r) => (db2, .ok r)

/-! ## Duror: insertion-ordered sets -/

/-- `OrderedSet(vals)`: first occurrences, in order -/
def dedupAcc : List Bytes → List Bytes → List Bytes
  | [], acc => acc.reverse
  | v :: vs, acc => if acc.contains v then dedupAcc vs acc else dedupAcc vs (v :: acc)

def dedup (vs : List Bytes) : List Bytes := dedupAcc vs []

def addIoSetVal (db : Db) (k v : Bytes) : Except Exn (Db × Bool) :=
  match scanKey db k with
  | .error x => .error x
  | .ok hs =>
    if (hs.map (·.val)).contains v then .ok (db, false)
    else putMany k false false db (nextIon hs) [v] false

def putIoSetVals (db : Db) (k : Bytes) (vals : List Bytes) : Except Exn (Db × Bool) :=
  match scanKey db k with
  | .error x => .error x
  | .ok hs =>
    let pvals := hs.map (·.val)
    putMany k false true db (nextIon hs) ((dedup vals).filter (fun v => !pvals.contains v)) false

def pinIoSetVals (db : Db) (k : Bytes) (vals : List Bytes) : Db × Except Exn Bool :=
  match remIoVals db k with
  | .error x => (db, .error x)
  | .ok (db1, _) => match putMany k true true db1 0 (dedup vals) false with
    | .error x => (db1, .error x)
    | .ok (db2, r) => (db2, .ok r)

/-- the linear search of `remIoSetVal`: iokey of the first entry of `k` holding `v` -/
def findVal (k v : Bytes) : Db → Except Exn (Option Bytes)
  | [] => .ok none
  | e :: es => match unsuffix e.1 with
    | none => .error .valueError
    | some (ck, _) =>
      if ck = k then (if e.2 = v then .ok (some e.1) else findVal k v es) else .ok none

def remIoSetVal (db : Db) (k v : Bytes) : Except Exn (Db × Bool) :=
  match findVal k v (setRange db (suffix k 0)) with
  | .error x => .error x
  | .ok none => .ok (db, false)
  | .ok (some iokey) => .ok (erase db iokey, true)

/-- `getTopIoItemIter(top=b'')`: every entry with its suffix stripped -/
def ioItems : Db → Except Exn (List (Bytes × Bytes))
  | [] => .ok []
  | e :: es => match unsuffix e.1 with
    | none => .error .valueError
    | some (ck, _) => match ioItems es with
      | .ok r => .ok ((ck, e.2) :: r)
      | .error x => .error x

/-! ## branches of the key space: getTopItemIter / remTopVals (SuberBase.getItemIter, getFullItemIter, trim) -/

def startsWith : Bytes → Bytes → Bool
  | [], _ => true
  | _ :: _, [] => false
  | a :: as, b :: bs => a == b && startsWith as bs

/-- `getTopItemIter(top)`: from `set_range(top)` while the key starts with `top` (`startsWith top key`) -/
def topItems (db : Db) (top : Bytes) : Db := (setRange db top).takeWhile (fun e => startsWith top e.1)

def eraseKeys (db : Db) : Db → Db
  | [] => db
  | e :: es => eraseKeys (erase db e.1) es

/-- `remTopVals(top)`: delete that branch; True iff something was deleted -/
def remTop (db : Db) (top : Bytes) : Db × Bool := (eraseKeys db (topItems db top), !(topItems db top).isEmpty)

/-! ## the three Suber classes as one step function (keys and values are already bytes) -/

inductive Kind where
  | plain | io | ioset
deriving DecidableEq, Repr

inductive Op where
  | put (k v : Bytes)            -- plain
  | pin (k v : Bytes)            -- plain
  | add (k v : Bytes)            -- io, ioset
  | putL (k : Bytes) (vs : List Bytes)
  | pinL (k : Bytes) (vs : List Bytes)
  | get (k : Bytes)
  | iter (k : Bytes)
  | first (k : Bytes)
  | last (k : Bytes)
  | pop (k : Bytes)
  | rem (k : Bytes)
  | remv (k v : Bytes)           -- ioset
  | cnt (k : Bytes)              -- io, ioset
  | cntAll                       -- all kinds: number of entries of the sub-db
  | items                        -- getItemIter() of the whole sub-db
  | itemsTop (top : Bytes)       -- getItemIter(top)
  | fullItems (top : Bytes)      -- getFullItemIter(top)
  | trim (top : Bytes)
  | bad (isPin : Bool) (k : Bytes)   -- put/pin/add whose value (or a batch element, at any position) is not str/bytes: lmdb raises TypeError
deriving Repr

inductive Res where
  | bool (b : Bool)
  | nat (n : Nat)
  | opt (v : Option Bytes)
  | vals (vs : List Bytes)
  | pairs (ps : List (Bytes × Bytes))
  | raise (e : Exn)
  | unsupported
deriving DecidableEq, Repr

def liftDb {α} (db : Db) (f : α → Res) : Except Exn (Db × α) → Db × Res
  | .ok (db', a) => (db', f a)
  | .error x => (db, .raise x)

def liftRo {α} (db : Db) (f : α → Res) : Except Exn α → Db × Res
  | .ok a => (db, f a)
  | .error x => (db, .raise x)

def liftPin : Db × Except Exn Bool → Db × Res
  | (db, .ok b) => (db, .bool b)
  | (db, .error x) => (db, .raise x)

def step (kind : Kind) (db : Db) : Op → Db × Res
  | .put k v => match kind with
    | .plain => liftDb db .bool (putVal db k v)
    | _ => (db, .unsupported)
  | .pin k v => match kind with
    | .plain => liftDb db .bool (pinVal db k v)
    | _ => (db, .unsupported)
  | .add k v => match kind with
    | .plain => (db, .unsupported)
    | .io => liftDb db .bool (addIoVal db k v)
    | .ioset => liftDb db .bool (addIoSetVal db k v)
  | .putL k vs => match kind with
    | .plain => (db, .unsupported)
    | .io => liftDb db .bool (putIoVals db k vs)
    | .ioset => liftDb db .bool (putIoSetVals db k vs)
  | .pinL k vs => match kind with
    | .plain => (db, .unsupported)
    | .io => liftPin (pinIoVals db k vs)
    | .ioset => liftPin (pinIoSetVals db k vs)
  | .get k => match kind with
    | .plain => liftRo db .opt (getVal db k)
    | _ => liftRo db .vals (getIoVals db k)
  | .iter k => match kind with
    | .plain => (db, .unsupported)
    | _ => liftRo db .vals (getIoVals db k)
  | .first k => match kind with
    | .plain => (db, .unsupported)
    | _ => liftRo db .opt (getIoValFirst db k)
  | .last k => match kind with
    | .plain => (db, .unsupported)
    | _ => liftRo db .opt (getIoValLast db k)
  | .pop k => match kind with
    | .plain => (db, .unsupported)
    | _ => liftDb db .opt (popIoVal db k)
  | .rem k => match kind with
    | .plain => liftDb db .bool (remVal db k)
    | _ => liftDb db .bool (remIoVals db k)
  | .remv k v => match kind with
    | .ioset => if v = [] then liftDb db .bool (remIoVals db k) else liftDb db .bool (remIoSetVal db k v)
    | _ => (db, .unsupported)
  | .cnt k => match kind with
    | .plain => (db, .unsupported)
    | _ => liftRo db .nat (cntIoVals db k)
  | .cntAll => (db, .nat db.length)
  | .items => match kind with
    | .plain => (db, .pairs db)
    | _ => liftRo db .pairs (ioItems db)
  | .itemsTop top => match kind with
    | .plain => (db, .pairs (topItems db top))
    | _ => liftRo db .pairs (ioItems (topItems db top))
  | .fullItems top => (db, .pairs (topItems db top))
  | .trim top => ((remTop db top).1, .bool (remTop db top).2)
  | .bad isPin k =>
    -- the TypeError comes out of the write transaction, which is aborted: no effect - EXCEPT that the io kinds' pin
    -- removes the old values in a transaction of its own first (unless the tree has made pin atomic: regenerated flag)
    -- (lmdb looks at the key first: an unstorable key wins over the bad value)
    match kind with
    | .plain => (db, .raise (if validKey k then .typeError else .keyError))
    | _ =>
      if !validKey (suffix k 0) then (db, .raise .badValsize)
      else if isPin && !Hio.Gen.pinAtomic then
        match remIoVals db k with
        | .ok (db', _) => (db', .raise .typeError)
        | .error x => (db, .raise x)
      else (db, .raise .typeError)

/-- what `get(k)` answers, as a `Res` -/
def observe (kind : Kind) (db : Db) (k : Bytes) : Res := (step kind db (.get k)).2

/-- run a history; after every op the result and `get` of every watched key -/
def run (kind : Kind) (watch : List Bytes) : Db → List Op → List (Res × List Res) × Db
  | db, [] => ([], db)
  | db, op :: ops =>
    let (db', r) := step kind db op
    let (rest, dbf) := run kind watch db' ops
    ((r, watch.map (observe kind db')) :: rest, dbf)

end Hio.Store
