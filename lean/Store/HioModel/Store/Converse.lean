import HioModel.Store.Refine
/-! # Store lemmas 12: the exact guard is necessary — from the trigger to a failing history -/
set_option linter.unusedSimpArgs false
namespace Hio.Store

theorem exists_gap (k k' : Bytes) (hne : k' ≠ k) (N : Nat) (hN : N < 16 ^ W) (h1 : lexLt (suffix k 0) (suffix k' 0) = true)
    (h2 : lexLt (suffix k' 0) (suffix k N) = true) :
    ∃ i, i < N ∧ lexLt (suffix k i) (suffix k' 0) = true ∧ lexLt (suffix k' 0) (suffix k (i + 1)) = true := by
  induction N with
  | zero => rw [lexLt_asymm h1] at h2; cases h2
  | succ N ih =>
    cases h : lexLt (suffix k' 0) (suffix k N) with
    | true =>
      obtain ⟨i, hi, ha, hb⟩ := ih (by omega) h
      exact ⟨i, by omega, ha, hb⟩
    | false =>
      have hne2 : suffix k' 0 ≠ suffix k N :=
        fun e => hne (suffix_inj (Nat.pow_pos (by omega)) (by omega) e).1
      exact ⟨N, by omega, lexLt_of_not_ge h hne2, h2⟩

theorem mem_mkEnts_idx (k : Bytes) : ∀ (vs : List Bytes) (ion j : Nat), j < vs.length → ∃ v, (suffix k (ion + j), v) ∈ mkEnts k ion vs
  | [], _, _, h => by simp at h
  | v :: vs, ion, 0, _ => ⟨v, by simp [mkEnts]⟩
  | v :: vs, ion, j + 1, h => by
    obtain ⟨w, hw⟩ := mem_mkEnts_idx k vs (ion + 1) j (by simpa using h)
    exact ⟨w, by simp only [mkEnts, List.mem_cons]; right; rwa [show ion + (j + 1) = ion + 1 + j by omega]⟩

theorem noChild_nil (k : Bytes) : NoChild k [] := by intro x hx; cases hx

/-- the failing history: `i+2` values at `k`, one value at `k'`, then `get k` -/
def gapOps (k k' : Bytes) (i : Nat) : List Op :=
  [.putL k (List.replicate (i + 2) [118]), .add k' [119], .get k]

/-- NECESSITY, constructively: if the ordinal-0 entry of `k'` sorts strictly between `suffix k i` and
`suffix k (i+1)`, the three-operation history `gapOps` is answered differently by the store and by the dictionary. -/
theorem gap_history_fails (k k' : Bytes) (hne : k' ≠ k) (hk : validKey (suffix k 0) = true) (hk' : validKey (suffix k' 0) = true)
    (i : Nat) (hi : i + 3 ≤ 16 ^ W) (ha : lexLt (suffix k i) (suffix k' 0) = true)
    (hb : lexLt (suffix k' 0) (suffix k (i + 1)) = true) :
    ∃ out, specRun false [] (fun _ => []) (gapOps k k' i) = some out ∧ (run .io [] [] (gapOps k k' i)).1 ≠ out := by
  let vs : List Bytes := List.replicate (i + 2) [118]
  have hvl : vs.length = i + 2 := by simp [vs]
  have hne' : k ≠ k' := fun e => hne e.symm
  -- 1. the values at k
  obtain ⟨db1, h1, p1, b1⟩ := putAfter_spec inv_nil hk (n := 0) (by intro e he; cases he) true false vs (by omega)
  have hE0 : entsOf ([] : Db) k = [] := rfl
  have hput : putIoVals [] k vs = .ok (db1, !vs.isEmpty) := by
    simp only [putIoVals, scanKey_eq inv_nil (noChild_nil k), hE0, List.map_nil]
    simpa [hE0] using h1
  have hat1 : entsOf db1 k = mkEnts k 0 vs := by
    have := p1.atk; simpa [hE0, nextIon] using this
  have hall1 : ∀ e ∈ db1, ckeyIs k e = true := by
    intro e he
    rcases p1.keys e he with h | h
    · cases h
    · exact h
  -- 2. one value at k'
  have hE1 : entsOf db1 k' = [] := by
    rw [entsOf, List.filter_eq_nil_iff]
    intro e he hc
    exact hne (ckeyIs_unique hc (hall1 e he))
  have hnc1 : NoChild k' db1 := by
    intro x hx e2 h2 hk2
    exact absurd (ckeyIs_unique hk2 (hall1 e2 h2)) hne
  obtain ⟨db2, h2, p2, b2⟩ := putAfter_spec p1.inv hk' b1 true false [[119]] (by simp; omega)
  have hadd : addIoVal db1 k' [119] = .ok (db2, true) := by
    simp only [addIoVal, scanKey_eq p1.inv hnc1, hE1, List.map_nil]
    simpa [hE1] using h2
  have hat2 : entsOf db2 k' = [(suffix k' 0, [119])] := by
    have := p2.atk; simpa [hE1, nextIon, mkEnts] using this
  have hx : (suffix k' 0, ([119] : Bytes)) ∈ db2 := (mem_entsOf.mp (by rw [hat2]; simp)).1
  have hframe : entsOf db2 k = mkEnts k 0 vs := by rw [p2.frame k hne', hat1]
  obtain ⟨v, hv⟩ := mem_mkEnts_idx k vs 0 (i + 1) (by omega)
  rw [Nat.zero_add] at hv
  have he2 := mem_entsOf.mp (by rw [hframe]; exact hv : (suffix k (i + 1), v) ∈ entsOf db2 k)
  -- 3. get k is short
  have hlo : lexLt (suffix k' 0) (suffix k 0) = false := by
    cases h : lexLt (suffix k' 0) (suffix k 0) with
    | false => rfl
    | true =>
      have := lexLt_trans ha h
      rw [suffix_zero_le k (by omega)] at this; cases this
  have hxk : ckeyIs k (suffix k' 0, ([119] : Bytes)) = false := by
    rw [ckeyIs_suffix k k' (Nat.pow_pos (by omega))]; simp [hne]
  obtain ⟨got, hg, hshort⟩ := get_short_of_not_contiguous p2.inv hx he2.1 he2.2 hlo hb hxk
  have habs : absIo db2 k = vs := by simp [absIo, hframe, mkEnts_vals]
  rw [habs] at hshort
  -- 4. both runs
  have hspec : specRun false [] (fun _ => []) (gapOps k k' i) =
      some [(.bool (!vs.isEmpty), []), (.bool true, []), (.vals vs, [])] := by
    simp [specRun, specIo, gapOps, upd, hne', vs]
  refine ⟨_, hspec, ?_⟩
  have hrun : (run .io [] [] (gapOps k k' i)).1 = [(.bool (!vs.isEmpty), []), (.bool true, []), (.vals got, [])] := by
    simp only [run, gapOps, step, liftDb, liftRo, List.map_nil]
    rw [show putIoVals [] k (List.replicate (i + 2) [118]) = .ok (db1, !vs.isEmpty) from hput]
    simp only [hadd, hg]
  rw [hrun]
  intro e
  simp only [List.cons.injEq, Prod.mk.injEq, Res.vals.injEq, and_true, true_and] at e
  rw [e] at hshort; omega

/-- … hence from the C24-K1 trigger `suffix k 0 < suffix k' 0 < suffix k N` to a failing history over `{k, k'}` that
consumes at most `N + 2` ordinals: the exact guard of `io_refines_dict_partial` cannot be weakened. -/
theorem exact_guard_necessary (k k' : Bytes) (hne : k' ≠ k) (hk : validKey (suffix k 0) = true) (hk' : validKey (suffix k' 0) = true)
    (N : Nat) (hN : N + 2 ≤ 16 ^ W) (h1 : lexLt (suffix k 0) (suffix k' 0) = true) (h2 : lexLt (suffix k' 0) (suffix k N) = true) :
    ∃ ops out, (∀ op ∈ ops, opKey op = some k ∨ opKey op = some k') ∧ totalWeight ops ≤ N + 2 ∧
      specRun false [] (fun _ => []) ops = some out ∧ (run .io [] [] ops).1 ≠ out := by
  obtain ⟨i, hi, ha, hb⟩ := exists_gap k k' hne N (by omega) h1 h2
  obtain ⟨out, ho1, ho2⟩ := gap_history_fails k k' hne hk hk' i (by omega) ha hb
  refine ⟨gapOps k k' i, out, ?_, ?_, ho1, ho2⟩
  · intro op hop
    simp only [gapOps, List.mem_cons, List.not_mem_nil, or_false] at hop
    rcases hop with rfl | rfl | rfl <;> simp [opKey]
  · simp [gapOps, totalWeight, opWeight]; omega

/-- the same for getLast (C24-K2 trigger): `add k; add k'; getLast k` answers None -/
theorem last_history_fails (k k' : Bytes) (hne : k' ≠ k) (hk : validKey (suffix k 0) = true) (hk' : validKey (suffix k' 0) = true)
    (h1 : lexLt (suffix k 0) (suffix k' 0) = true) (h2 : lexLt (suffix k' 0) (suffix k maxSuffix) = true) :
    (run .io [] [] [.add k [118], .add k' [119], .last k]).1 = [(.bool true, []), (.bool true, []), (.opt none, [])] ∧
    specRun false [] (fun _ => []) [.add k [118], .add k' [119], .last k] =
      some [(.bool true, []), (.bool true, []), (.opt (some [118]), [])] := by
  have hne' : k ≠ k' := fun e => hne e.symm
  have hW : (0 : Nat) < 16 ^ W := Nat.pow_pos (by omega)
  have hv0 : (!validKey (suffix k 0)) = false := by rw [hk]; rfl
  have hv0' : (!validKey (suffix k' 0)) = false := by rw [hk']; rfl
  have hT : lexLt (suffix k 0) (suffix k maxSuffix) = true := lexLt_trans h1 h2
  have hge : lexLt (suffix k' 0) (suffix k 0) = false := lexLt_asymm h1
  have hkeyne : suffix k 0 ≠ suffix k' 0 := lexLt_ne h1
  have hun : unsuffix (suffix k 0) = some (k, 0) := unsuffix_suffix k hW
  have hun' : unsuffix (suffix k' 0) = some (k', 0) := unsuffix_suffix k' hW
  have hpos : ¬ (0 : Nat) ≥ 16 ^ W := by omega
  constructor
  · simp [run, step, liftDb, liftRo, addIoVal, scanKey, setRange, scan, nextIon, putMany, lmdbPut, hv0, hv0', lookup, insert,
      hpos, hge, hkeyne, hkeyne.symm, h1, hun, hun', hne, hne', getIoValLast, hT, h2, ionOf, lexLt_irrefl]
  · simp [specRun, specIo, upd, hne']

end Hio.Store
