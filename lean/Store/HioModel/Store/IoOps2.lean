import HioModel.Store.IoOps
/-! # Store lemmas 5: add / put / pin / set variants, under the guard -/
set_option linter.unusedSimpArgs false
namespace Hio.Store

theorem Post.trans {k : Bytes} {db db1 db2 : Db} {e1 e2 : Db} (h1 : Post k db db1 e1) (h2 : Post k db1 db2 e2) :
    Post k db db2 e2 :=
  ⟨h2.inv, h2.atk, fun k' hk => (h2.frame k' hk).trans (h1.frame k' hk),
   fun e he => by
     rcases h2.keys e he with h | h
     · exact h1.keys e h
     · exact Or.inr h⟩

/-- puts at the ordinals after the last one seen by the scan: an append at `k` -/
theorem putAfter_spec {db : Db} (hinv : Inv db) {k : Bytes} (hk : validKey (suffix k 0) = true) {n : Nat} (hb : IonsBelow n db)
    (ow orr : Bool) (vals : List Bytes) (hlen : n + vals.length ≤ 16 ^ W) :
    ∃ db', putMany k ow orr db (nextIon ((entsOf db k).map toHit)) vals false = .ok (db', !vals.isEmpty) ∧
      Post k db db' (entsOf db k ++ mkEnts k (nextIon ((entsOf db k).map toHit)) vals) ∧ IonsBelow (n + vals.length) db' := by
  have hle := nextIon_le hinv hb k
  obtain ⟨db', h1, h2, h3, h4⟩ := putMany_spec hk ow orr vals db _ false hinv (nextIon_above hinv k) (by omega)
  refine ⟨db', ?_, post_of_putMany hinv h2 (by omega) h3 h4, ionsBelow_of_putMany hb hle hlen h4⟩
  rw [h1]; cases vals <;> simp

theorem absIo_append_mkEnts {k : Bytes} {db db' : Db} {ion : Nat} {vals : List Bytes}
    (h : Post k db db' (entsOf db k ++ mkEnts k ion vals)) : absIo db' k = absIo db k ++ vals := by
  rw [h.absIo_at]; simp [absIo, mkEnts_vals]

theorem addIoVal_spec {db : Db} (hinv : Inv db) {k : Bytes} (hnc : NoChild k db) (hk : validKey (suffix k 0) = true) {n : Nat}
    (hb : IonsBelow n db) (v : Bytes) (hlen : n + 1 ≤ 16 ^ W) :
    ∃ db' ents, addIoVal db k v = .ok (db', true) ∧ Post k db db' ents ∧ absIo db' k = absIo db k ++ [v] ∧ IonsBelow (n + 1) db' := by
  obtain ⟨db', h1, h2, h3⟩ := putAfter_spec hinv hk hb true false [v] (by simpa using hlen)
  exact ⟨db', _, by simp [addIoVal, scanKey_eq hinv hnc, h1], h2, absIo_append_mkEnts h2, h3⟩

theorem putIoVals_spec {db : Db} (hinv : Inv db) {k : Bytes} (hnc : NoChild k db) (hk : validKey (suffix k 0) = true) {n : Nat}
    (hb : IonsBelow n db) (vals : List Bytes) (hlen : n + vals.length ≤ 16 ^ W) :
    ∃ db' ents, putIoVals db k vals = .ok (db', !vals.isEmpty) ∧ Post k db db' ents ∧ absIo db' k = absIo db k ++ vals ∧
      IonsBelow (n + vals.length) db' := by
  obtain ⟨db', h1, h2, h3⟩ := putAfter_spec hinv hk hb true false vals hlen
  exact ⟨db', _, by simp [putIoVals, scanKey_eq hinv hnc, h1], h2, absIo_append_mkEnts h2, h3⟩

theorem kIonsBelow_zero_of_empty {db : Db} (hinv : Inv db) {k : Bytes} (h : entsOf db k = []) : KIonsBelow k 0 db := by
  intro e he i hi hei
  have : e ∈ entsOf db k := mem_entsOf.mpr ⟨he, (ckeyIs_iff hinv he k).mpr ⟨i, hi, hei⟩⟩
  rw [h] at this; cases this

/-- remove everything at `k`, then put `vals` at ordinals 0.. : replace -/
theorem pinGen_spec {db : Db} (hinv : Inv db) {k : Bytes} (hnc : NoChild k db) (hk : validKey (suffix k 0) = true) {n : Nat}
    (hb : IonsBelow n db) (orr : Bool) (vals : List Bytes) (hlen : n + vals.length ≤ 16 ^ W) :
    ∃ db1 db2 ents, remIoVals db k = .ok (db1, !(absIo db k).isEmpty) ∧
      putMany k true orr db1 0 vals false = .ok (db2, !vals.isEmpty) ∧
      Post k db db2 ents ∧ absIo db2 k = vals ∧ IonsBelow (n + vals.length) db2 := by
  obtain ⟨db1, h1, p1⟩ := remIoVals_spec hinv hnc
  have hb1 : IonsBelow n db1 := ionsBelow_of_post_sub hb (fun e he => by
    rcases p1.keys e he with h | h
    · exact h
    · have : e ∈ entsOf db1 k := mem_entsOf.mpr ⟨he, h⟩
      rw [p1.atk] at this; cases this)
  obtain ⟨db2, h2, h3, h4, h5⟩ := putMany_spec hk true orr vals db1 0 false p1.inv
    (kIonsBelow_zero_of_empty p1.inv p1.atk) (by omega)
  have p2 := post_of_putMany p1.inv h3 (by omega) h4 h5
  refine ⟨db1, db2, _, h1, ?_, p1.trans p2, ?_, ionsBelow_of_putMany hb1 (Nat.zero_le _) hlen h5⟩
  · rw [h2]; cases vals <;> simp
  · rw [p2.absIo_at, p1.atk]; simp [mkEnts_vals]

theorem pinIoVals_spec {db : Db} (hinv : Inv db) {k : Bytes} (hnc : NoChild k db) (hk : validKey (suffix k 0) = true) {n : Nat}
    (hb : IonsBelow n db) (vals : List Bytes) (hlen : n + vals.length ≤ 16 ^ W) :
    ∃ db' ents, pinIoVals db k vals = (db', .ok (!vals.isEmpty)) ∧ Post k db db' ents ∧ absIo db' k = vals ∧
      IonsBelow (n + vals.length) db' := by
  obtain ⟨db1, db2, ents, h1, h2, h3, h4, h5⟩ := pinGen_spec hinv hnc hk hb false vals hlen
  exact ⟨db2, ents, by simp [pinIoVals, h1, h2], h3, h4, h5⟩

/-! ## sets -/

theorem dedupAcc_length_le (vs acc : List Bytes) : (dedupAcc vs acc).length ≤ vs.length + acc.length := by
  induction vs generalizing acc with
  | nil => simp [dedupAcc]
  | cons v vs ih =>
    simp only [dedupAcc]
    split
    · have := ih acc; simp; omega
    · have := ih (v :: acc); simp at this ⊢; omega

theorem dedup_length_le (vs : List Bytes) : (dedup vs).length ≤ vs.length := by
  have := dedupAcc_length_le vs []; simpa [dedup] using this

theorem contains_vals {db : Db} (k v : Bytes) :
    (((entsOf db k).map toHit).map (·.val)).contains v = (absIo db k).contains v := by
  rw [map_val_toHit]; rfl

theorem addIoSetVal_spec {db : Db} (hinv : Inv db) {k : Bytes} (hnc : NoChild k db) (hk : validKey (suffix k 0) = true) {n : Nat}
    (hb : IonsBelow n db) (v : Bytes) (hlen : n + 1 ≤ 16 ^ W) :
    ∃ db' ents, addIoSetVal db k v = .ok (db', !(absIo db k).contains v) ∧ Post k db db' ents ∧
      absIo db' k = (if (absIo db k).contains v then absIo db k else absIo db k ++ [v]) ∧ IonsBelow (n + 1) db' := by
  by_cases hc : (absIo db k).contains v = true
  · refine ⟨db, _, ?_, post_refl hinv, by rw [if_pos hc], fun e he k' i hi hei => by have := hb e he k' i hi hei; omega⟩
    simp only [addIoSetVal, scanKey_eq hinv hnc, contains_vals, hc]; rfl
  · obtain ⟨db', h1, h2, h3⟩ := putAfter_spec hinv hk hb false false [v] (by simpa using hlen)
    refine ⟨db', _, ?_, h2, ?_, h3⟩
    · simp only [addIoSetVal, scanKey_eq hinv hnc, contains_vals, hc]
      simp [h1]
    · rw [absIo_append_mkEnts h2, if_neg hc]

theorem putIoSetVals_spec {db : Db} (hinv : Inv db) {k : Bytes} (hnc : NoChild k db) (hk : validKey (suffix k 0) = true) {n : Nat}
    (hb : IonsBelow n db) (vals : List Bytes) (hlen : n + vals.length ≤ 16 ^ W) :
    ∃ db' ents, putIoSetVals db k vals = .ok (db', !((dedup vals).filter (fun v => !(absIo db k).contains v)).isEmpty) ∧
      Post k db db' ents ∧
      absIo db' k = absIo db k ++ (dedup vals).filter (fun v => !(absIo db k).contains v) ∧ IonsBelow (n + vals.length) db' := by
  have hl : ((dedup vals).filter (fun v => !(absIo db k).contains v)).length ≤ vals.length :=
    Nat.le_trans (List.length_filter_le _ _) (dedup_length_le vals)
  obtain ⟨db', h1, h2, h3⟩ := putAfter_spec hinv hk hb false true ((dedup vals).filter (fun v => !(absIo db k).contains v)) (by omega)
  refine ⟨db', _, ?_, h2, absIo_append_mkEnts h2, fun e he k' i hi hei => by have := h3 e he k' i hi hei; omega⟩
  simp only [putIoSetVals, scanKey_eq hinv hnc, map_val_toHit]
  exact h1

theorem pinIoSetVals_spec {db : Db} (hinv : Inv db) {k : Bytes} (hnc : NoChild k db) (hk : validKey (suffix k 0) = true) {n : Nat}
    (hb : IonsBelow n db) (vals : List Bytes) (hlen : n + vals.length ≤ 16 ^ W) :
    ∃ db' ents, pinIoSetVals db k vals = (db', .ok (!(dedup vals).isEmpty)) ∧ Post k db db' ents ∧ absIo db' k = dedup vals ∧
      IonsBelow (n + vals.length) db' := by
  have hl := dedup_length_le vals
  obtain ⟨db1, db2, ents, h1, h2, h3, h4, h5⟩ := pinGen_spec hinv hnc hk hb true (dedup vals) (by omega)
  exact ⟨db2, ents, by simp [pinIoSetVals, h1, h2], h3, h4, fun e he k' i hi hei => by have := h5 e he k' i hi hei; omega⟩

/-! ### remove one value -/

theorem findVal_eq {k v : Bytes} {l : Db} (hs : Sorted l) (hwf : ∀ e ∈ l, ∃ k' i, i < 16 ^ W ∧ e.1 = suffix k' i)
    (hb : Block k l) : findVal k v l = .ok (((l.filter (ckeyIs k)).find? (fun e => e.2 == v)).map (·.1)) := by
  induction l with
  | nil => rfl
  | cons x xs ih =>
    obtain ⟨k', i, hi, hxk⟩ := hwf x (List.mem_cons_self ..)
    have hun : unsuffix x.1 = some (k', i) := by rw [hxk]; exact unsuffix_suffix k' hi
    by_cases hkk : k' = k
    · have hck : ckeyIs k x = true := by simp [ckeyIs, hun, hkk]
      have := ih hs.tail (fun e he => hwf e (List.mem_cons_of_mem _ he)) hb.tail
      simp only [findVal, hun, hkk, ↓reduceIte, List.filter_cons, hck, List.find?_cons]
      by_cases hv : x.2 = v
      · have hvb : (x.2 == v) = true := by simp [hv]
        rw [if_pos hv, hvb]; rfl
      · have hvb : (x.2 == v) = false := by simp [hv]
        rw [if_neg hv, hvb, this]
    · have hck : ckeyIs k x = false := by simp [ckeyIs, hun, hkk]
      rw [filter_nil_of_head_foreign hs hb hck]
      simp [findVal, hun, hkk]

theorem post_erase_mem {db : Db} (hinv : Inv db) {k : Bytes} {x : Entry} (hxE : x ∈ entsOf db k) :
    Post k db (erase db x.1) ((entsOf db k).filter (fun e => e.1 != x.1)) := by
  have hs := hinv.sorted
  have hx := mem_entsOf.mp hxE
  refine ⟨inv_erase hinv _, entsOf_erase hs _ _, ?_, ?_⟩
  · intro k' hkk
    apply frame_of_mem hs (sorted_erase hs _) _ hkk
    intro e hce
    rw [mem_erase hs]
    constructor
    · exact fun h => h.1
    · intro h
      refine ⟨h, fun heq => ?_⟩
      have := hs.key_inj h hx.1 heq
      rw [this, hx.2] at hce; cases hce
  · intro e he; exact Or.inl ((erase_sublist db _).subset he)

theorem find_erase_vals {E : Db} (hs : Sorted E) (v : Bytes) :
    (match E.find? (fun e => e.2 == v) with
     | none => (E.map (·.2)).contains v = false
     | some x => x ∈ E ∧ (E.map (·.2)).contains v = true ∧
         (E.filter (fun e => e.1 != x.1)).map (·.2) = (E.map (·.2)).erase v) := by
  induction E with
  | nil => simp
  | cons y ys ih =>
    have ih := ih hs.tail
    by_cases hv : y.2 = v
    · have hself : ys.filter (fun e => e.1 != y.1) = ys := by
        rw [List.filter_eq_self]; intro e he
        have := (sorted_cons.mp hs).1 e he
        simp only [bne_iff_ne, ne_eq]
        intro heq; rw [heq, lexLt_irrefl] at this; cases this
      simp [List.find?_cons, hv, hself]
    · simp only [List.find?_cons, beq_iff_eq, hv, if_false]
      have hvb : (y.2 == v) = false := by simp [hv]
      rw [hvb]
      cases hf : ys.find? (fun e => e.2 == v) with
      | none =>
        rw [hf] at ih; simp only at ih ⊢
        simp only [List.map_cons, List.contains_cons, ih, Bool.or_false]
        simp [hv, Ne.symm hv]
      | some x =>
        rw [hf] at ih; simp only at ih ⊢
        obtain ⟨h1, h2, h3⟩ := ih
        refine ⟨List.mem_cons_of_mem _ h1, by simp only [List.map_cons, List.contains_cons, h2, Bool.or_true], ?_⟩
        have hne : (y.1 != x.1) = true := by
          have := (sorted_cons.mp hs).1 x h1
          simp only [bne_iff_ne, ne_eq]
          intro heq; rw [heq, lexLt_irrefl] at this; cases this
        simp only [List.filter_cons, hne, ↓reduceIte, List.map_cons, h3]
        rw [List.erase_cons_tail]
        simp [hv]

theorem remIoSetVal_spec {db : Db} (hinv : Inv db) {k : Bytes} (hnc : NoChild k db) (v : Bytes) :
    ∃ db' ents, remIoSetVal db k v = .ok (db', (absIo db k).contains v) ∧ Post k db db' ents ∧
      absIo db' k = (absIo db k).erase v ∧ (∀ e ∈ db', e ∈ db) := by
  have hf := findVal_eq (v := v) (sorted_setRange hinv.sorted (suffix k 0))
    (fun e he => hinv.wf e ((setRange_sublist db _).subset he)) (block_setRange hinv hnc)
  rw [filter_setRange hinv k] at hf
  have hfe := find_erase_vals (hinv.sorted.filter (ckeyIs k)) v
  change (match (entsOf db k).find? (fun e => e.2 == v) with | none => _ | some x => _) at hfe
  unfold remIoSetVal
  rw [hf]
  cases hfind : (entsOf db k).find? (fun e => e.2 == v) with
  | none =>
    rw [hfind] at hfe; simp only at hfe
    have hc : (absIo db k).contains v = false := hfe
    refine ⟨db, _, by simp only [Option.map_none, hc], post_refl hinv, ?_, fun e he => he⟩
    rw [List.erase_of_not_mem]
    intro hm
    have : (absIo db k).contains v = true := List.contains_iff_mem.mpr hm
    rw [hc] at this; cases this
  | some x =>
    rw [hfind] at hfe; simp only at hfe
    obtain ⟨h1, h2, h3⟩ := hfe
    have hc : (absIo db k).contains v = true := h2
    have p := post_erase_mem hinv h1
    refine ⟨erase db x.1, _, by simp only [Option.map_some, hc], p, ?_, fun e he => (erase_sublist db _).subset he⟩
    rw [p.absIo_at]; exact h3

end Hio.Store
