import HioModel.Store.Model
/-!
# Durq / Dusq / Hold.inject — executable model (`hio.base.hier.durqing`, `dusqing`, `holding`)

A value is represented by its serialisation (`DomSuberBase._ser`, bytes).  Python's `==`/`hash` on the
deserialised values is the parameter `cls : Bytes → α` (equal class ⇔ `==`; the driver uses `α = Nat`): the in-memory
`OrderedSet` of a Dusq dedups by `cls`, the durable IoSet sub-db by the bytes themselves (F38 is exactly
a non-injective `cls`).  A queue lives in a `Hold` over an opened `Subery`, so `.durable` is True
throughout; `reopen` closes the environment, opens it again (the sub-db content persists), and injects a
fresh queue object at each key (`Hold.inject` → `sync`).

Every operation returns the new database, the new in-memory state and the result; an exception leaves
whatever the code had already changed (the in-memory container is updated BEFORE the durable call).
-/
namespace Hio.Store

inductive QKind where
  | durq | dusq
deriving DecidableEq, Repr

structure Q where
  mem : List Bytes
  stale : Bool
deriving DecidableEq, Repr

inductive QOp where
  | push (v : Bytes)
  | pull (emptive : Bool)
  | extend (vs : List Bytes)      -- Durq.extend / Dusq.update
  | clear
  | remove (v : Bytes)            -- Dusq only
  | count (v : Bytes)             -- Durq only
  | sync (force : Bool)           -- sync(force=…) called on the live object
deriving Repr

inductive QRes where
  | bool (b : Bool)
  | nat (n : Nat)
  | val (v : Option Bytes)
  | raise (e : Exn)
  | unsupported
deriving DecidableEq, Repr

/-- `OrderedSet.add`: append unless an `==` element is present -/
def osetAdd {α : Type} [DecidableEq α] (cls : Bytes → α) (m : List Bytes) (v : Bytes) : List Bytes :=
  if m.any (fun x => cls x == cls v) then m else m ++ [v]

def osetUpdate {α : Type} [DecidableEq α] (cls : Bytes → α) : List Bytes → List Bytes → List Bytes
  | m, [] => m
  | m, v :: vs => osetUpdate cls (osetAdd cls m v) vs

/-- `OrderedSet.remove`: drop the `==` element (`none` = KeyError) -/
def osetRemove {α : Type} [DecidableEq α] (cls : Bytes → α) : List Bytes → Bytes → Option (List Bytes)
  | [], _ => none
  | x :: xs, v => if cls x == cls v then some xs else (osetRemove cls xs v).map (x :: ·)

/-- the common tail of `pull`: the in-memory container was empty (`hit = none`) or gave `hit`; now pop the durable copy -/
def pullDurable (db : Db) (k : Bytes) (hit : Option Bytes) (emptive : Bool) : Db × QRes :=
  match popIoVal db k with
  | .error x => (db, .raise x)
  | .ok (db', popped) =>
    match hit with
    | none =>
      if popped.isSome then (db', .raise .hierError)
      else if emptive then (db', .val none) else (db', .raise .indexError)
    | some v => if popped.isNone then (db', .raise .hierError) else (db', .val (some v))

/-- the body of `sync()` once `durable and (stale or force)` holds, for an object whose in-memory content is `mem`:
a NON-EMPTY durable copy wins (the container is cleared and reloaded), an empty one is overwritten by pinning `mem`. -/
def syncBody {α : Type} [DecidableEq α] (cls : Bytes → α) (kind : QKind) (k : Bytes) (db : Db) (mem : List Bytes) : Db × Except Exn Q :=
  match cntIoVals db k with
  | .error x => (db, .error x)
  | .ok n =>
    if n ≠ 0 then
      match getIoVals db k with
      | .error x => (db, .error x)
      | .ok vs => (db, .ok ⟨(match kind with | .durq => vs | .dusq => osetUpdate cls [] vs), false⟩)
    else
      match (match kind with | .durq => pinIoVals db k mem | .dusq => pinIoSetVals db k mem) with
      | (db', .ok _) => (db', .ok ⟨mem, false⟩)
      | (db', .error x) => (db', .error x)

def qstep {α : Type} [DecidableEq α] (cls : Bytes → α) (kind : QKind) (k : Bytes) (db : Db) (q : Q) : QOp → Db × Q × QRes
  | .push v => match kind with
    | .durq =>
      let q' : Q := ⟨q.mem ++ [v], false⟩
      match addIoVal db k v with
      | .error x => (db, q', .raise x)
      | .ok (db', r) => if r = false then (db', q', .raise .hierError) else (db', q', .bool true)
    | .dusq =>
      let m' := osetAdd cls q.mem v
      let unique := m'.length > q.mem.length
      let q' : Q := ⟨m', false⟩
      match addIoSetVal db k v with
      | .error x => (db, q', .raise x)
      | .ok (db', r) => if unique && r = false then (db', q', .raise .hierError) else (db', q', .bool true)
  | .pull emptive => match q.mem with
    | [] => let (db', r) := pullDurable db k none emptive; (db', q, r)
    | v :: rest => let (db', r) := pullDurable db k (some v) emptive; (db', ⟨rest, q.stale⟩, r)
  | .extend vs => match kind with
    | .durq =>
      if vs = [] then (db, q, .bool false)
      else
        let q' : Q := ⟨q.mem ++ vs, false⟩
        match putIoVals db k vs with
        | .error x => (db, q', .raise x)
        | .ok (db', r) => if r = false then (db', q', .raise .hierError) else (db', q', .bool true)
    | .dusq =>
      let m' := osetUpdate cls q.mem vs
      if m'.length > q.mem.length then
        let q' : Q := ⟨m', false⟩
        match putIoSetVals db k vs with
        | .error x => (db, q', .raise x)
        | .ok (db', r) => if r = false then (db', q', .raise .hierError) else (db', q', .bool true)
      else (db, ⟨m', q.stale⟩, .bool false)
  | .clear =>
    if q.mem = [] then (db, q, .bool false)
    else
      let q' : Q := ⟨[], q.stale⟩
      match remIoVals db k with
      | .error x => (db, q', .raise x)
      | .ok (db', r) => if r = false then (db', q', .raise .hierError) else (db', q', .bool true)
  | .remove v => match kind with
    | .durq => (db, q, .unsupported)
    | .dusq => match osetRemove cls q.mem v with
      | none => (db, q, .bool false)
      | some m' =>
        let q' : Q := ⟨m', q.stale⟩
        -- IoSetSuber.rem(keys, val): `if val:` is true for a dom instance -> remIoSetVal on the serialisation
        match remIoSetVal db k v with
        | .error x => (db, q', .raise x)
        | .ok (db', r) => if r = false then (db', q', .raise .hierError) else (db', q', .bool true)
  | .count v => match kind with
    | .durq => (db, q, .nat (q.mem.filter (fun x => cls x == cls v)).length)
    | .dusq => (db, q, .unsupported)
  | .sync force =>
    if q.stale || force then
      match syncBody cls kind k db q.mem with
      | (db', .ok q') => (db', q', .bool true)
      | (db', .error x) => (db', q, .raise x)
    else (db, q, .val none)

/-- what `Durq(pre)` / `Dusq(pre)` holds before it is injected (`pre = []`: a fresh empty object) -/
def initMem {α : Type} [DecidableEq α] (cls : Bytes → α) (kind : QKind) (pre : List Bytes) : List Bytes :=
  match kind with
  | .durq => pre
  | .dusq => osetUpdate cls [] pre

/-- `Hold.inject` of a new `Durq(pre)` / `Dusq(pre)` at key `k`: the object is stale, so `sync()` runs its body -/
def inject {α : Type} [DecidableEq α] (cls : Bytes → α) (kind : QKind) (k : Bytes) (db : Db) (pre : List Bytes := []) : Db × Except Exn Q :=
  syncBody cls kind k db (initMem cls kind pre)

/-- one queue at one key: the history language of the C23 theorems -/
inductive HOp where
  | op (o : QOp)
  | reopen (pre : List Bytes)     -- close, open, inject `Durq(pre)` / `Dusq(pre)` at the key
deriving Repr

def hstep {α : Type} [DecidableEq α] (cls : Bytes → α) (kind : QKind) (k : Bytes) (db : Db) (q : Q) : HOp → Db × Q × QRes
  | .op o => qstep cls kind k db q o
  | .reopen pre => match inject cls kind k db pre with
    | (db', .ok q') => (db', q', .bool true)
    | (db', .error x) => (db', q, .raise x)

/-- what the durable copy holds at the key (`sdb.get(key)`) -/
def durable (db : Db) (k : Bytes) : Except Exn (List Bytes) := getIoVals db k

/-- run a history from a state; per op: result, in-memory content, durable content -/
def hrun {α : Type} [DecidableEq α] (cls : Bytes → α) (kind : QKind) (k : Bytes) : Db → Q → List HOp → List (QRes × List Bytes × Except Exn (List Bytes))
  | _, _, [] => []
  | db, q, o :: os =>
    let (db', q', r) := hstep cls kind k db q o
    (r, q'.mem, durable db' k) :: hrun cls kind k db' q' os

/-! ## several queues of one kind in one Hold over one Subery -/

/-- the in-memory queue object held at each key -/
abbrev MS := Bytes → Q

def setQ (ms : MS) (k : Bytes) (q : Q) : MS := fun k' => if k' = k then q else ms k'

/-- an argument as the caller passes it: a RegDom/IceRegDom value (by serialisation), `None`, or any other object -/
inductive Arg where
  | ok (b : Bytes)
  | none
  | junk
deriving DecidableEq, Repr

/-- an operation as called, before the method has looked at its arguments -/
inductive AOp where
  | push (a : Arg)
  | pull (emptive : Bool)
  | extend (as : List Arg)
  | clear
  | remove (a : Arg)
  | count (a : Arg)
  | sync (force : Bool)
deriving Repr

def argsOk : List Arg → Option (List Bytes)
  | [] => some []
  | .ok b :: as => (argsOk as).map (b :: ·)
  | _ :: _ => Option.none

/-- the `isinstance` checks every method of Durq / Dusq makes BEFORE it touches anything: either the validated
operation, or the outcome of the rejected call (`push(None)` → False; a non-RegDom anywhere in a batch, as push or
remove argument → HierError; `count` of a foreign object → 0).  The whole batch is checked before any element is used. -/
def validate : AOp → Except QRes QOp
  | .push (.ok b) => .ok (.push b)
  | .push .none => .error (.bool false)
  | .push .junk => .error (.raise .hierError)
  | .pull e => .ok (.pull e)
  | .extend as => match argsOk as with
    | some bs => .ok (.extend bs)
    | Option.none => .error (.raise .hierError)
  | .clear => .ok .clear
  | .remove (.ok b) => .ok (.remove b)
  | .remove _ => .error (.raise .hierError)
  | .count (.ok b) => .ok (.count b)
  | .count _ => .error (.nat 0)
  | .sync f => .ok (.sync f)

inductive MOp where
  | q (k : Bytes) (o : QOp)
  | a (k : Bytes) (o : AOp)       -- as called: may be rejected
  | reopen (pre : Bytes → Option (List Bytes))   -- per key: `some p` = a new object preloaded with `p`; `none` = the SAME object re-injected

/-- `Hold` rebuilt after reopen: a fresh object injected at every key, in order; a failing inject stops -/
def injectAll {α : Type} [DecidableEq α] (cls : Bytes → α) (kind : QKind) (pre : Bytes → Option (List Bytes)) :
    List Bytes → Db → MS → Db × MS × Option Exn
  | [], db, ms => (db, ms, none)
  | k :: ks, db, ms => match pre k with
    | some p => (match inject cls kind k db p with
      | (db', .ok q) => injectAll cls kind pre ks db' (setQ ms k q)
      | (db', .error x) => (db', ms, some x))
    | none =>
      -- the old object is put into the new Hold: `sync()` does nothing unless it is stale
      if (ms k).stale then
        (match syncBody cls kind k db (ms k).mem with
         | (db', .ok q) => injectAll cls kind pre ks db' (setQ ms k q)
         | (db', .error x) => (db', ms, some x))
      else injectAll cls kind pre ks db ms

def mstep {α : Type} [DecidableEq α] (cls : Bytes → α) (kind : QKind) (keys : List Bytes) (db : Db) (ms : MS) : MOp → Db × MS × QRes
  | .q k o => ((qstep cls kind k db (ms k) o).1, setQ ms k (qstep cls kind k db (ms k) o).2.1, (qstep cls kind k db (ms k) o).2.2)
  | .a k o => match validate o with
    | .ok qo => ((qstep cls kind k db (ms k) qo).1, setQ ms k (qstep cls kind k db (ms k) qo).2.1, (qstep cls kind k db (ms k) qo).2.2)
    | .error r => (db, ms, r)      -- rejected: nothing was touched
  | .reopen pre => match injectAll cls kind pre keys db ms with
    | (db', ms', none) => (db', ms', .bool true)
    | (db', ms', some x) => (db', ms', .raise x)

/-- per op: result and, for EVERY key of the Hold, in-memory content and durable content -/
def mrun {α : Type} [DecidableEq α] (cls : Bytes → α) (kind : QKind) (keys : List Bytes) :
    Db → MS → List MOp → List (QRes × List (List Bytes × Except Exn (List Bytes)))
  | _, _, [] => []
  | db, ms, o :: os =>
    (((mstep cls kind keys db ms o).2.2,
      keys.map (fun k => (((mstep cls kind keys db ms o).2.1 k).mem, durable (mstep cls kind keys db ms o).1 k))) ::
      mrun cls kind keys (mstep cls kind keys db ms o).1 (mstep cls kind keys db ms o).2.1 os)

end Hio.Store
