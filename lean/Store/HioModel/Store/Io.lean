import HioModel.Store.Sorted
/-! # Store lemmas 3: key blocks, contiguity, the scan lemma -/
namespace Hio.Store

/-- does the entry belong to apparent key `k` (what the scan loops test after `unsuffix`) -/
def ckeyIs (k : Bytes) (e : Entry) : Bool :=
  match unsuffix e.1 with
  | some (ck, _) => ck == k
  | none => false

/-- the entries of apparent key `k`, in database order -/
def entsOf (db : Db) (k : Bytes) : Db := db.filter (ckeyIs k)

/-- ABSTRACTION: the list of values a dictionary `Key → List Val` holds at `k` -/
def absIo (db : Db) (k : Bytes) : List Bytes := (entsOf db k).map (·.2)

/-- well-formed io sub-db: sorted, every key written by `suffix` with an ordinal `< 16^W` -/
structure Inv (db : Db) : Prop where
  sorted : Sorted db
  wf : ∀ e ∈ db, ∃ k i, i < 16 ^ W ∧ e.1 = suffix k i

/-- CONTIGUITY of `k` in `db` — the exact condition every scan loop for `k` needs: whatever entry sorts at or after
the first possible entry of `k` and before an entry of `k` is itself an entry of `k`. -/
def NoChild (k : Bytes) (db : Db) : Prop :=
  ∀ x ∈ db, ∀ e2 ∈ db, ckeyIs k e2 = true → lexLt x.1 (suffix k 0) = false → lexLt x.1 e2.1 = true → ckeyIs k x = true

/-- the simple sufficient condition: no other apparent key in the database extends `k ++ sep` -/
def NoChildSyn (k : Bytes) (db : Db) : Prop :=
  ∀ e ∈ db, ∀ k' i, i < 16 ^ W → e.1 = suffix k' i → k' ≠ k → ¬ (k ++ [sepB]) <+: k'

theorem inv_nil : Inv [] := ⟨sorted_nil, by simp⟩

theorem ckeyIs_suffix (k k' : Bytes) {i : Nat} (hi : i < 16 ^ W) (v : Bytes) :
    ckeyIs k (suffix k' i, v) = (k' == k) := by
  simp [ckeyIs, unsuffix_suffix k' hi]

theorem ckeyIs_iff {db : Db} (hinv : Inv db) {e : Entry} (he : e ∈ db) (k : Bytes) :
    ckeyIs k e = true ↔ ∃ i, i < 16 ^ W ∧ e.1 = suffix k i := by
  obtain ⟨k', i, hi, hk⟩ := hinv.wf e he
  constructor
  · intro h
    have : ckeyIs k (suffix k' i, e.2) = true := by rw [← hk]; exact h
    rw [ckeyIs_suffix k k' hi] at this
    have : k' = k := by simpa using this
    exact ⟨i, hi, this ▸ hk⟩
  · rintro ⟨j, hj, hkj⟩
    have : ckeyIs k (suffix k j, e.2) = true := by rw [ckeyIs_suffix k k hj]; simp
    rw [← hkj] at this; exact this

theorem mem_entsOf {db : Db} {k : Bytes} {e : Entry} : e ∈ entsOf db k ↔ e ∈ db ∧ ckeyIs k e = true := by
  simp [entsOf, List.mem_filter]

theorem Inv.sub {db db' : Db} (h : Inv db) (hs : db'.Sublist db) : Inv db' :=
  ⟨h.sorted.sublist hs, fun e he => h.wf e (hs.subset he)⟩

/-! ## contiguity (DESIGN Appendix A.3) -/

theorem suffix_eq_append (k : Bytes) (i : Nat) : suffix k i = (k ++ [sepB]) ++ hexFix W i := by
  simp [suffix, suffixW]

/-- anything of the form `suffix k' j` lying at or above `suffix k i` and below `suffix k i'` belongs to `k`
or to a key that extends `k ++ sep` -/
theorem between_suffix {k k' : Bytes} {i i' j : Nat} (h1 : lexLt (suffix k' j) (suffix k i) = false)
    (h2 : lexLt (suffix k' j) (suffix k i') = true) : k' = k ∨ (k ++ [sepB]) <+: k' := by
  rw [suffix_eq_append k i] at h1
  rw [suffix_eq_append k i'] at h2
  obtain ⟨r, hr⟩ := prefix_of_between h1 h2
  -- suffix k' j = k' ++ [sep] ++ H = (k ++ [sep]) ++ r
  have hp1 : (k ++ [sepB]) <+: suffix k' j := ⟨r, hr.symm⟩
  have hp2 : k' <+: suffix k' j := ⟨sepB :: hexFix W j, by simp [suffix, suffixW]⟩
  by_cases hlen : (k ++ [sepB]).length ≤ k'.length
  · exact Or.inr (List.prefix_of_prefix_length_le hp1 hp2 hlen)
  · by_cases hlen2 : k.length = k'.length
    · left
      have hp3 : k <+: suffix k' j := ⟨sepB :: r, by rw [hr]; simp⟩
      have := List.prefix_of_prefix_length_le hp3 hp2 (by omega)
      exact (List.IsPrefix.eq_of_length this hlen2).symm
    · -- |k'| < |k| : k' ++ [sep] is a prefix of k, so the hex part would contain the separator
      exfalso
      simp only [List.length_append, List.length_cons, List.length_nil] at hlen
      have hp3 : k <+: suffix k' j := ⟨sepB :: r, by rw [hr]; simp⟩
      have hp4 : (k' ++ [sepB]) <+: suffix k' j := ⟨hexFix W j, by simp [suffix, suffixW]⟩
      have hpk : (k' ++ [sepB]) <+: k := List.prefix_of_prefix_length_le hp4 hp3 (by simp; omega)
      obtain ⟨m, hm⟩ := hpk
      have : suffix k' j = (k' ++ [sepB]) ++ (m ++ sepB :: r) := by rw [hr, ← hm]; simp
      rw [suffix_eq_append k' j] at this
      have := List.append_cancel_left this
      have hmem : sepB ∈ hexFix W j := by rw [this]; simp
      exact sep_not_in_hex sepB_not_hex W j hmem

/-- CONTIGUITY from the simple guard (DESIGN A.3) -/
theorem noChild_of_syn {db : Db} (hinv : Inv db) {k : Bytes} (hnc : NoChildSyn k db) : NoChild k db := by
  intro x hx e2 h2 hk2 hlo hhi
  obtain ⟨i2, hi2, he2⟩ := (ckeyIs_iff hinv h2 k).mp hk2
  obtain ⟨k', j, hj, hxk⟩ := hinv.wf x hx
  rw [hxk] at hlo hhi; rw [he2] at hhi
  rcases between_suffix hlo hhi with rfl | hpre
  · exact (ckeyIs_iff hinv hx k').mpr ⟨j, hj, hxk⟩
  · by_cases hkk : k' = k
    · subst hkk; exact (ckeyIs_iff hinv hx k').mpr ⟨j, hj, hxk⟩
    · exact absurd hpre (hnc x hx k' j hj hxk hkk)

theorem contiguous {db : Db} (_hinv : Inv db) {k : Bytes} (hnc : NoChild k db) {x e2 : Entry}
    (hx : x ∈ db) (h2 : e2 ∈ db) (hk2 : ckeyIs k e2 = true)
    (hlo : lexLt x.1 (suffix k 0) = false) (hhi : lexLt x.1 e2.1 = true) : ckeyIs k x = true :=
  hnc x hx e2 h2 hk2 hlo hhi

/-! ## the scan lemma -/

def toHit (e : Entry) : Hit :=
  ⟨e.1, (match unsuffix e.1 with | some (_, i) => i | none => 0), e.2⟩

/-- entries of `k` sort below the foreign entries of the list -/
def Block (k : Bytes) (l : Db) : Prop :=
  ∀ e ∈ l, ∀ f ∈ l, ckeyIs k e = true → ckeyIs k f = false → lexLt e.1 f.1 = true

theorem Block.tail {k : Bytes} {x : Entry} {l : Db} (h : Block k (x :: l)) : Block k l :=
  fun e he f hf => h e (List.mem_cons_of_mem _ he) f (List.mem_cons_of_mem _ hf)

/-- a foreign head of a sorted block list means no entries of `k` at all -/
theorem filter_nil_of_head_foreign {k : Bytes} {x : Entry} {l : Db} (hs : Sorted (x :: l)) (hb : Block k (x :: l))
    (hx : ckeyIs k x = false) : (x :: l).filter (ckeyIs k) = [] := by
  rw [List.filter_eq_nil_iff]
  intro f hf
  rcases List.mem_cons.mp hf with rfl | hf'
  · simp [hx]
  · intro hkf
    have h1 := (sorted_cons.mp hs).1 f hf'
    have h2 := hb f hf x (List.mem_cons_self ..) hkf hx
    rw [lexLt_asymm h1] at h2; cases h2

theorem scan_eq {k : Bytes} {l : Db} (hs : Sorted l) (hwf : ∀ e ∈ l, ∃ k' i, i < 16 ^ W ∧ e.1 = suffix k' i)
    (hb : Block k l) : scan k l = .ok ((l.filter (ckeyIs k)).map toHit) := by
  induction l with
  | nil => rfl
  | cons x xs ih =>
    obtain ⟨k', i, hi, hxk⟩ := hwf x (List.mem_cons_self ..)
    have hun : unsuffix x.1 = some (k', i) := by rw [hxk]; exact unsuffix_suffix k' hi
    by_cases hkk : k' = k
    · have hck : ckeyIs k x = true := by simp [ckeyIs, hun, hkk]
      have := ih hs.tail (fun e he => hwf e (List.mem_cons_of_mem _ he)) hb.tail
      simp only [scan, hun, hkk, ↓reduceIte, this, List.filter_cons, hck, List.map_cons]
      simp [toHit, hun]
    · have hck : ckeyIs k x = false := by simp [ckeyIs, hun, hkk]
      rw [filter_nil_of_head_foreign hs hb hck]
      simp [scan, hun, hkk]

theorem block_setRange {db : Db} (hinv : Inv db) {k : Bytes} (hnc : NoChild k db) :
    Block k (setRange db (suffix k 0)) := by
  intro e he f hf hke hkf
  have he' := (mem_setRange hinv.sorted _ e).mp he
  have hf' := (mem_setRange hinv.sorted _ f).mp hf
  rcases lexLt_total e.1 f.1 with h | h | h
  · exact h
  · have := hinv.sorted.key_inj he'.1 hf'.1 h
    rw [this, hkf] at hke; cases hke
  · have := contiguous hinv hnc hf'.1 he'.1 hke hf'.2 h
    rw [this] at hkf; cases hkf

theorem suffix_zero_le (k : Bytes) {i : Nat} (hi : i < 16 ^ W) : lexLt (suffix k i) (suffix k 0) = false := by
  cases h : lexLt (suffix k i) (suffix k 0) with
  | false => rfl
  | true => have := (suffix_lt_iff k hi (Nat.pow_pos (by omega))).mp h; omega

theorem filter_setRange {db : Db} (hinv : Inv db) (k : Bytes) :
    (setRange db (suffix k 0)).filter (ckeyIs k) = entsOf db k := by
  apply sorted_ext ((sorted_setRange hinv.sorted _).filter _) (hinv.sorted.filter _)
  intro e
  simp only [List.mem_filter, mem_setRange hinv.sorted]
  constructor
  · rintro ⟨⟨h1, _⟩, h3⟩; exact ⟨h1, h3⟩
  · rintro ⟨h1, h3⟩
    obtain ⟨i, hi, hk⟩ := (ckeyIs_iff hinv h1 k).mp h3
    exact ⟨⟨h1, by rw [hk]; exact suffix_zero_le k hi⟩, h3⟩

/-- THE SCAN LEMMA: under the guard every scan loop for `k` sees exactly the entries of `k` -/
theorem scanKey_eq {db : Db} (hinv : Inv db) {k : Bytes} (hnc : NoChild k db) :
    scanKey db k = .ok ((entsOf db k).map toHit) := by
  unfold scanKey
  rw [scan_eq (sorted_setRange hinv.sorted _) (fun e he => hinv.wf e ((setRange_sublist db _).subset he))
    (block_setRange hinv hnc), filter_setRange hinv k]

/-- head of the cursor position: either the first entry of `k`, or `k` has no entries -/
theorem head_setRange {db : Db} (hinv : Inv db) {k : Bytes} (hnc : NoChild k db) :
    (match setRange db (suffix k 0) with
     | [] => entsOf db k = []
     | x :: _ => if ckeyIs k x = true then ∃ t, entsOf db k = x :: t else entsOf db k = []) := by
  have hf := filter_setRange hinv k
  have hb := block_setRange hinv hnc
  have hs := sorted_setRange hinv.sorted (suffix k 0)
  cases hl : setRange db (suffix k 0) with
  | nil => rw [hl] at hf; simpa using hf.symm
  | cons x xs =>
    rw [hl] at hf hb hs
    simp only
    split
    · rename_i hck
      exact ⟨_, by rw [← hf, List.filter_cons, if_pos hck]⟩
    · rename_i hck
      rw [← hf]; exact filter_nil_of_head_foreign hs hb (by simpa using hck)

end Hio.Store
