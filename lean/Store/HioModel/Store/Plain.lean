import HioModel.Store.Sorted
/-! # Store lemmas 7: the plain Suber is a dictionary `Key → Val` -/
set_option linter.unusedSimpArgs false
namespace Hio.Store

theorem lookup_insert {db : Db} (hs : Sorted db) (k v k' : Bytes) :
    lookup (insert db k v) k' = if k' = k then some v else lookup db k' := by
  have hs' := sorted_insert hs k v
  split
  · rename_i h; subst h
    exact (lookup_eq_some hs' _ _).mpr ((mem_insert hs _ _ _).mpr (Or.inl rfl))
  · rename_i hne
    cases hl : lookup db k' with
    | none =>
      rw [lookup_eq_none] at hl ⊢
      intro e he
      rcases (mem_insert hs _ _ e).mp he with rfl | ⟨h, _⟩
      · exact fun h => hne h.symm
      · exact hl e h
    | some w =>
      have := (lookup_eq_some hs _ _).mp hl
      exact (lookup_eq_some hs' _ _).mpr ((mem_insert hs _ _ _).mpr (Or.inr ⟨this, hne⟩))

theorem lookup_erase {db : Db} (hs : Sorted db) (k k' : Bytes) :
    lookup (erase db k) k' = if k' = k then none else lookup db k' := by
  have hs' := sorted_erase hs k
  split
  · rename_i h; subst h
    rw [lookup_eq_none]; intro e he
    exact ((mem_erase hs _ e).mp he).2
  · rename_i hne
    cases hl : lookup db k' with
    | none =>
      rw [lookup_eq_none] at hl ⊢
      intro e he
      exact hl e ((mem_erase hs _ e).mp he).1
    | some w =>
      have := (lookup_eq_some hs _ _).mp hl
      exact (lookup_eq_some hs' _ _).mpr ((mem_erase hs _ _).mpr ⟨this, hne⟩)

abbrev PSt := Bytes → Option Bytes

def updP (σ : PSt) (k : Bytes) (v : Option Bytes) : PSt := fun k' => if k' = k then v else σ k'

/-- dictionary semantics of the plain Suber on legal lmdb keys (`none`: not in the dictionary language) -/
def specPlain (σ : PSt) : Op → Option (PSt × Res)
  | .put k v => if validKey k then
      some (updP σ k (match σ k with | some w => some w | none => some v), .bool (σ k).isNone) else none
  | .pin k v => if validKey k then some (updP σ k (some v), .bool true) else none
  | .get k => if validKey k then some (σ, .opt (σ k)) else none
  | .rem k => if validKey k then some (updP σ k none, .bool (σ k).isSome) else none
  | .bad _ k => some (σ, .raise (if validKey k then .typeError else .keyError))      -- a rejected write is the identity
  | _ => none

structure PRel (db : Db) (σ : PSt) : Prop where
  sorted : Sorted db
  abs : ∀ k, lookup db k = σ k

theorem validKey_ne_nil {k : Bytes} (h : validKey k = true) : k ≠ [] := by
  intro e; subst e; simp [validKey] at h

theorem plain_step_refines {db : Db} {σ : PSt} (hr : PRel db σ) (op : Op) {σ' : PSt} {r : Res}
    (hspec : specPlain σ op = some (σ', r)) : ∃ db', step .plain db op = (db', r) ∧ PRel db' σ' := by
  have hs := hr.sorted
  cases op with
  | put k v =>
    simp only [specPlain] at hspec
    split at hspec
    · rename_i hv
      simp only [Option.some.injEq, Prod.mk.injEq] at hspec
      obtain ⟨rfl, rfl⟩ := hspec
      cases hl : lookup db k with
      | some w =>
        refine ⟨db, by simp [step, putVal, lmdbPut, hv, hl, liftDb, ← hr.abs], hs, ?_⟩
        intro k'; simp only [updP, ← hr.abs, hl]; split
        · rename_i h; rw [h, hl]
        · rfl
      | none =>
        refine ⟨insert db k v, by simp [step, putVal, lmdbPut, hv, hl, liftDb, ← hr.abs], sorted_insert hs _ _, ?_⟩
        intro k'; rw [lookup_insert hs]; simp only [updP, ← hr.abs, hl]
    · cases hspec
  | pin k v =>
    simp only [specPlain] at hspec
    split at hspec
    · rename_i hv
      simp only [Option.some.injEq, Prod.mk.injEq] at hspec
      obtain ⟨rfl, rfl⟩ := hspec
      refine ⟨insert db k v, ?_, sorted_insert hs _ _, ?_⟩
      · cases hl : lookup db k <;> simp [step, pinVal, lmdbPut, hv, hl, liftDb]
      · intro k'; rw [lookup_insert hs]; simp only [updP, ← hr.abs]
    · cases hspec
  | get k =>
    simp only [specPlain] at hspec
    split at hspec
    · rename_i hv
      simp only [Option.some.injEq, Prod.mk.injEq] at hspec
      obtain ⟨rfl, rfl⟩ := hspec
      exact ⟨db, by simp [step, getVal, validKey_ne_nil hv, liftRo, hr.abs], hr⟩
    · cases hspec
  | rem k =>
    simp only [specPlain] at hspec
    split at hspec
    · rename_i hv
      simp only [Option.some.injEq, Prod.mk.injEq] at hspec
      obtain ⟨rfl, rfl⟩ := hspec
      refine ⟨erase db k, by simp [step, remVal, validKey_ne_nil hv, liftDb, hr.abs], sorted_erase hs _, ?_⟩
      intro k'; rw [lookup_erase hs]; simp only [updP, ← hr.abs]
    · cases hspec
  | pinL _ _ => simp [specPlain] at hspec
  | putL _ _ => simp [specPlain] at hspec
  | add _ _ => simp [specPlain] at hspec
  | iter _ => simp [specPlain] at hspec
  | first _ => simp [specPlain] at hspec
  | last _ => simp [specPlain] at hspec
  | pop _ => simp [specPlain] at hspec
  | remv _ _ => simp [specPlain] at hspec
  | cnt _ => simp [specPlain] at hspec
  | cntAll => simp [specPlain] at hspec
  | items => simp [specPlain] at hspec
  | itemsTop _ => simp [specPlain] at hspec
  | fullItems _ => simp [specPlain] at hspec
  | trim _ => simp [specPlain] at hspec
  | bad p k =>
    simp only [specPlain, Option.some.injEq, Prod.mk.injEq] at hspec
    obtain ⟨rfl, rfl⟩ := hspec
    exact ⟨db, rfl, hr⟩

def specRunPlain (watch : List Bytes) : PSt → List Op → Option (List (Res × List Res))
  | _, [] => some []
  | σ, op :: ops => match specPlain σ op with
    | none => none
    | some (σ', r) => match specRunPlain watch σ' ops with
      | none => none
      | some rest => some ((r, watch.map (fun k => Res.opt (σ' k))) :: rest)

theorem plain_run_refines (watch : List Bytes) (hwatch : ∀ w ∈ watch, validKey w = true) :
    ∀ (ops : List Op) (db : Db) (σ : PSt), PRel db σ → ∀ out, specRunPlain watch σ ops = some out →
      (run .plain watch db ops).1 = out
  | [], _, _, _, out, h => by simp [specRunPlain] at h; simp [run, h]
  | op :: ops, db, σ, hr, out, h => by
    simp only [specRunPlain] at h
    cases hs : specPlain σ op with
    | none => rw [hs] at h; cases h
    | some p =>
      obtain ⟨σ', r⟩ := p
      rw [hs] at h
      simp only at h
      cases hrest : specRunPlain watch σ' ops with
      | none => rw [hrest] at h; cases h
      | some rest =>
        rw [hrest] at h
        simp only [Option.some.injEq] at h
        obtain ⟨db', h1, h2⟩ := plain_step_refines hr op hs
        have ih := plain_run_refines watch hwatch ops db' σ' h2 rest hrest
        have hobs : watch.map (observe .plain db') = watch.map (fun k => Res.opt (σ' k)) := by
          apply List.map_congr_left
          intro w hw'
          simp [observe, step, getVal, validKey_ne_nil (hwatch w hw'), liftRo, h2.abs]
        simp only [run, h1, hobs]
        rw [← h, ← ih]

end Hio.Store
