import HioModel.Store.Refine
import HioModel.Store.Queue
/-! # Store lemmas 8: Durq / Dusq against FIFO queue / insertion-ordered set, durable mirror, reopen -/
set_option linter.unusedSimpArgs false
namespace Hio.Store

instance : DecidableEq (Except Exn (List Bytes)) := fun a b =>
  match a, b with
  | .ok x, .ok y => if h : x = y then isTrue (by rw [h]) else isFalse (by intro e; cases e; exact h rfl)
  | .error x, .error y => if h : x = y then isTrue (by rw [h]) else isFalse (by intro e; cases e; exact h rfl)
  | .ok _, .error _ => isFalse (by intro e; cases e)
  | .error _, .ok _ => isFalse (by intro e; cases e)

/-! ## ordered-set list functions -/

def addOne (m : List Bytes) (v : Bytes) : List Bytes := if m.contains v then m else m ++ [v]

def addAll : List Bytes → List Bytes → List Bytes
  | m, [] => m
  | m, v :: vs => addAll (addOne m v) vs

/-- first occurrences, structurally -/
def dd : List Bytes → List Bytes
  | [] => []
  | v :: vs => v :: (dd vs).filter (fun x => x != v)

theorem bnot_of_not_true {b : Bool} (h : ¬ b = true) : (!b) = true := by cases b <;> simp_all

theorem dedupAcc_eq (vs acc : List Bytes) :
    dedupAcc vs acc = acc.reverse ++ (dd vs).filter (fun x => !acc.contains x) := by
  induction vs generalizing acc with
  | nil => simp [dedupAcc, dd]
  | cons v vs ih =>
    simp only [dedupAcc, dd]
    split
    · rename_i hc
      rw [ih, List.filter_cons]
      have h0 : ¬ (!acc.contains v) = true := by rw [hc]; simp
      rw [if_neg h0, List.filter_filter]
      congr 1
      apply List.filter_congr
      intro x _
      show (!acc.contains x) = (!acc.contains x && !(x == v))
      by_cases hx : x = v
      · subst hx; rw [hc]; rfl
      · have : (x == v) = false := by simp [hx]
        rw [this]; simp
    · rename_i hc
      rw [ih, List.filter_cons, if_pos (bnot_of_not_true hc), List.filter_filter, List.reverse_cons, List.append_assoc,
        List.singleton_append]
      congr 2
      apply List.filter_congr
      intro x _
      rw [List.contains_cons]
      show (!(x == v || acc.contains x)) = (!acc.contains x && !(x == v))
      cases h1 : (x == v) <;> cases h2 : acc.contains x <;> rfl

theorem dedup_eq_dd (vs : List Bytes) : dedup vs = dd vs := by
  simp [dedup, dedupAcc_eq]

theorem addAll_eq (l vs : List Bytes) : addAll l vs = l ++ (dd vs).filter (fun x => !l.contains x) := by
  induction vs generalizing l with
  | nil => simp [addAll, dd]
  | cons v vs ih =>
    simp only [addAll, dd, ih, addOne]
    split
    · rename_i hc
      rw [List.filter_cons]
      have h0 : ¬ (!l.contains v) = true := by rw [hc]; simp
      rw [if_neg h0, List.filter_filter]
      congr 1
      apply List.filter_congr
      intro x _
      show (!l.contains x) = (!l.contains x && !(x == v))
      by_cases hx : x = v
      · subst hx; rw [hc]; rfl
      · have : (x == v) = false := by simp [hx]
        rw [this]; simp
    · rename_i hc
      rw [List.filter_cons, if_pos (bnot_of_not_true hc), List.filter_filter, List.append_assoc, List.singleton_append]
      congr 2
      apply List.filter_congr
      intro x _
      rw [List.contains_append, List.contains_cons, List.contains_nil, Bool.or_false]
      show (!(l.contains x || x == v)) = (!l.contains x && !(x == v))
      cases h1 : (x == v) <;> cases h2 : l.contains x <;> rfl

theorem addOne_nodup {l : List Bytes} (v : Bytes) (h : l.Nodup) : (addOne l v).Nodup := by
  unfold addOne
  split
  · exact h
  · rename_i hc
    rw [List.nodup_append]
    refine ⟨h, by simp, ?_⟩
    intro a ha b hb
    simp only [List.mem_singleton] at hb; subst hb
    intro e; subst e
    exact hc (List.contains_iff_mem.mpr ha)

theorem addAll_nodup {l : List Bytes} (vs : List Bytes) (h : l.Nodup) : (addAll l vs).Nodup := by
  induction vs generalizing l with
  | nil => exact h
  | cons v vs ih => exact ih (addOne_nodup v h)

theorem dd_of_nodup {l : List Bytes} (h : l.Nodup) : dd l = l := by
  induction l with
  | nil => rfl
  | cons v vs ih =>
    have hv := List.nodup_cons.mp h
    simp only [dd, ih hv.2]
    congr 1
    rw [List.filter_eq_self]
    intro x hx
    simp only [bne_iff_ne, ne_eq]
    intro e; subst e; exact hv.1 hx

section cls
variable {α : Type} [DecidableEq α] (cls : Bytes → α)

theorem any_cls (hinj : ∀ a b, cls a = cls b → a = b) (m : List Bytes) (v : Bytes) :
    m.any (fun x => cls x == cls v) = m.contains v := by
  induction m with
  | nil => rfl
  | cons x xs ih =>
    simp only [List.any_cons, ih, List.contains_cons]
    have : (cls x == cls v) = (v == x) := by
      rw [Bool.eq_iff_iff]
      simp only [beq_iff_eq]
      exact ⟨fun e => (hinj _ _ e).symm, fun e => by rw [e]⟩
    rw [this]

theorem osetAdd_eq (hinj : ∀ a b, cls a = cls b → a = b) (m : List Bytes) (v : Bytes) : osetAdd cls m v = addOne m v := by
  simp [osetAdd, addOne, any_cls cls hinj]

theorem osetUpdate_eq (hinj : ∀ a b, cls a = cls b → a = b) (m vs : List Bytes) : osetUpdate cls m vs = addAll m vs := by
  induction vs generalizing m with
  | nil => rfl
  | cons v vs ih => simp [osetUpdate, addAll, osetAdd_eq cls hinj, ih]

theorem osetRemove_eq (hinj : ∀ a b, cls a = cls b → a = b) (m : List Bytes) (v : Bytes) :
    osetRemove cls m v = if m.contains v then some (m.erase v) else none := by
  induction m with
  | nil => simp [osetRemove]
  | cons x xs ih =>
    simp only [osetRemove, ih, List.contains_cons, List.erase_cons]
    by_cases h : x = v
    · subst h; simp
    · have this : cls x ≠ cls v := fun e => h (hinj _ _ e)
      have h1 : (cls x == cls v) = false := by simp [this]
      have h2 : (v == x) = false := by simp [Ne.symm h]
      have h3 : (x == v) = false := by simp [h]
      rw [h1, h2, h3]
      cases hc : xs.contains v <;> simp

end cls

/-! ## the specification: FIFO queue / insertion-ordered set with FIFO pull -/

/-- what a preloaded object holds, specification side: the list / the ordered set of the preload -/
def initS (kind : QKind) (pre : List Bytes) : List Bytes :=
  match kind with
  | .durq => pre
  | .dusq => addAll [] pre

def specQ {α : Type} [DecidableEq α] (cls : Bytes → α) (kind : QKind) (l : List Bytes) : HOp → List Bytes × QRes
  | .reopen pre => (if l = [] then initS kind pre else l, .bool true)
  | .op (.sync force) => (l, if force then .bool true else .val none)
  | .op (.push v) => match kind with
    | .durq => (l ++ [v], .bool true)
    | .dusq => (addOne l v, .bool true)
  | .op (.pull emptive) => match l with
    | [] => ([], if emptive then .val none else .raise .indexError)
    | v :: t => (t, .val (some v))
  | .op (.extend vs) => match kind with
    | .durq => (l ++ vs, .bool (!vs.isEmpty))
    | .dusq => (addAll l vs, .bool (decide ((addAll l vs).length > l.length)))
  | .op .clear => ([], .bool (!l.isEmpty))
  | .op (.remove v) => match kind with
    | .durq => (l, .unsupported)
    | .dusq => (l.erase v, .bool (l.contains v))
  | .op (.count v) => match kind with
    | .durq => (l, .nat (l.filter (fun x => cls x == cls v)).length)
    | .dusq => (l, .unsupported)

def hweight : HOp → Nat
  | .op (.push _) => 1
  | .op (.extend vs) => vs.length
  | .reopen pre => pre.length
  | _ => 0

def htotal : List HOp → Nat
  | [] => 0
  | o :: os => hweight o + htotal os

/-- per op: result, content, and a durable copy that IS the content -/
def specHRun {α : Type} [DecidableEq α] (cls : Bytes → α) (kind : QKind) : List Bytes → List HOp → List (QRes × List Bytes × Except Exn (List Bytes))
  | _, [] => []
  | l, o :: os => ((specQ cls kind l o).2, (specQ cls kind l o).1, .ok (specQ cls kind l o).1) :: specHRun cls kind (specQ cls kind l o).1 os

/-! ## the invariant: the durable copy at the key is the in-memory content -/

structure QInv (K : Bytes → Prop) (k : Bytes) (kind : QKind) (n : Nat) (db : Db) (mem : List Bytes) (τ : St) : Prop where
  rel : Rel K n db (absIo db)
  mirror : absIo db k = mem
  nodup : kind = .dusq → mem.Nodup
  /-- what the other keys hold (`τ` is arbitrary: the operations on `k` preserve it, whatever it is) -/
  others : ∀ k', k' ≠ k → absIo db k' = τ k'

theorem rel_self_of_post {K : Bytes → Prop} {n n' : Nat} {db db' ents : Db} {k : Bytes} (hr : Rel K n db (absIo db)) (hk : K k)
    (hp : Post k db db' ents) (hi : IonsBelow n' db') : Rel K n' db' (absIo db') := by
  refine ⟨hp.inv, ?_, hi, fun _ => rfl⟩
  intro e he
  rcases hp.keys e he with h | h
  · exact hr.keys e h
  · exact ⟨k, hk, h⟩

theorem post_sub_of_shrink {k : Bytes} {db db' ents : Db} (hp : Post k db db' ents) (hsub : ∀ e ∈ ents, e ∈ db) : ∀ e ∈ db', e ∈ db := by
  intro e he
  rcases hp.keys e he with h | h
  · exact h
  · have : e ∈ entsOf db' k := mem_entsOf.mpr ⟨he, h⟩
    rw [hp.atk] at this; exact hsub e this

theorem QInv.step {K : Bytes → Prop} {k : Bytes} {kind : QKind} {n n' : Nat} {db db' ents : Db} {mem mem' : List Bytes} {τ : St}
    (hq : QInv K k kind n db mem τ) (hk : K k) (hp : Post k db db' ents) (hi : IonsBelow n' db') (hm : absIo db' k = mem')
    (hnd : kind = .dusq → mem'.Nodup) : QInv K k kind n' db' mem' τ :=
  ⟨rel_self_of_post hq.rel hk hp hi, hm, hnd, fun k' h => by rw [hp.absIo_other h]; exact hq.others k' h⟩

theorem QInv.mono {K : Bytes → Prop} {k : Bytes} {kind : QKind} {n n' : Nat} {db : Db} {mem : List Bytes} {τ : St}
    (hq : QInv K k kind n db mem τ) (h : n ≤ n') : QInv K k kind n' db mem τ :=
  ⟨hq.rel.mono h, hq.mirror, hq.nodup, hq.others⟩

theorem addAll_nil_length_le (pre : List Bytes) : (addAll [] pre).length ≤ pre.length := by
  rw [addAll_eq, List.nil_append, ← dedup_eq_dd]
  exact Nat.le_trans (List.length_filter_le _ _) (dedup_length_le pre)

section step
variable {α : Type} [DecidableEq α] (cls : Bytes → α)

theorem initMem_eq {kind : QKind} (hinj : kind = .dusq → ∀ a b, cls a = cls b → a = b) (pre : List Bytes) :
    initMem cls kind pre = initS kind pre := by
  cases kind with
  | durq => rfl
  | dusq => simp [initMem, initS, osetUpdate_eq cls (hinj rfl)]

/-- THE SYNC BODY for an object holding `m` (fresh, preloaded or live): a non-empty durable copy wins, an empty one takes `m` -/
theorem syncBody_spec {kind : QKind} (hinj : kind = .dusq → ∀ a b, cls a = cls b → a = b)
    {K : Bytes → Prop} {k : Bytes} (hk : K k) {B : Nat} (hE : ExactAt K k B) (hB : B < 16 ^ W) (hvk : validKey (suffix k 0) = true)
    {n : Nat} {db : Db} {cur : List Bytes} {τ : St} (hq : QInv K k kind n db cur τ) (m : List Bytes) (hmn : kind = .dusq → m.Nodup)
    (hn : n ≤ B) (hwB : cur = [] → n + m.length ≤ B) :
    ∃ db', syncBody cls kind k db m = (db', .ok ⟨if cur = [] then m else cur, false⟩) ∧
      QInv K k kind (n + (if cur = [] then m.length else 0)) db' (if cur = [] then m else cur) τ := by
  have hr := hq.rel
  have hinv := hr.inv
  have hnc := hr.noChild hE hB hn
  have hm := hq.mirror
  have hc := cntIoVals_spec hinv hnc
  have hg := getIoVals_spec hinv hnc
  by_cases hz : cur = []
  · simp only [hz, ↓reduceIte]
    cases kind with
    | durq =>
      obtain ⟨db', ents, h1, h2, h3, h4⟩ := pinIoVals_spec hinv hnc hvk hr.ions m (by have := hwB hz; omega)
      exact ⟨db', by simp [syncBody, hc, hm, hz, h1], hq.step hk h2 h4 h3 (fun h => by cases h)⟩
    | dusq =>
      obtain ⟨db', ents, h1, h2, h3, h4⟩ := pinIoSetVals_spec hinv hnc hvk hr.ions m (by have := hwB hz; omega)
      have hd : dedup m = m := by rw [dedup_eq_dd, dd_of_nodup (hmn rfl)]
      exact ⟨db', by simp [syncBody, hc, hm, hz, h1], hq.step hk h2 h4 (by rw [h3, hd]) hmn⟩
  · have hlen : cur.length ≠ 0 := by simpa using hz
    simp only [hz, ↓reduceIte, Nat.add_zero]
    cases kind with
    | durq => exact ⟨db, by simp [syncBody, hc, hg, hm, hlen], hq⟩
    | dusq =>
      have hnd := hq.nodup rfl
      have : osetUpdate cls [] cur = cur := by
        rw [osetUpdate_eq cls (hinj rfl), addAll_eq]; simp [dd_of_nodup hnd]
      exact ⟨db, by simp [syncBody, hc, hg, hm, hlen, this], hq⟩

theorem hstep_refines {kind : QKind} (hinj : kind = .dusq → ∀ a b, cls a = cls b → a = b)
    {K : Bytes → Prop} {k : Bytes} (hk : K k) {B : Nat} (hE : ExactAt K k B) (hB : B < 16 ^ W) (hvk : validKey (suffix k 0) = true)
    {n : Nat} {db : Db} {q : Q} {τ : St} (hq : QInv K k kind n db q.mem τ) (hst : q.stale = false) (o : HOp)
    (hwB : n + hweight o ≤ B) :
    ∃ db' q', hstep cls kind k db q o = (db', q', (specQ cls kind q.mem o).2) ∧ q'.mem = (specQ cls kind q.mem o).1 ∧
      QInv K k kind (n + hweight o) db' q'.mem τ := by
  have hw : n + hweight o ≤ 16 ^ W := by omega
  have hr := hq.rel
  have hinv := hr.inv
  have hnc := hr.noChild hE hB (by omega)
  have hm := hq.mirror
  cases o with
  | reopen pre =>
    have hlen := addAll_nil_length_le pre
    have hml : (initS kind pre).length ≤ pre.length := by cases kind <;> simp [initS, hlen]
    have hmn : kind = .dusq → (initS kind pre).Nodup := by
      intro h; subst h; exact addAll_nodup pre List.nodup_nil
    simp only [hweight] at hwB
    obtain ⟨db', h1, h2⟩ := syncBody_spec cls hinj hk hE hB hvk hq (initS kind pre) hmn (by omega) (fun _ => by omega)
    refine ⟨db', ⟨if q.mem = [] then initS kind pre else q.mem, false⟩, ?_, by simp [specQ], h2.mono ?_⟩
    · simp only [hstep, inject, initMem_eq cls hinj, h1, specQ]
    · simp only [hweight]; split <;> omega
  | op o =>
    cases o with
    | push v =>
      cases kind with
      | durq =>
        obtain ⟨db', ents, h1, h2, h3, h4⟩ := addIoVal_spec hinv hnc hvk hr.ions v hw
        refine ⟨db', ⟨q.mem ++ [v], false⟩, by simp [hstep, qstep, h1, specQ], by simp [specQ], ?_⟩
        exact hq.step hk h2 h4 (by rw [h3, hm]) (fun h => by cases h)
      | dusq =>
        have hi := hinj rfl
        obtain ⟨db', ents, h1, h2, h3, h4⟩ := addIoSetVal_spec hinv hnc hvk hr.ions v hw
        refine ⟨db', ⟨addOne q.mem v, false⟩, ?_, by simp [specQ], ?_⟩
        · simp only [hstep, qstep, osetAdd_eq cls hi, h1, hm, specQ]
          split
          · rename_i hcond
            exfalso
            simp only [Bool.and_eq_true, decide_eq_true_eq] at hcond
            obtain ⟨hl, hr'⟩ := hcond
            have hc : q.mem.contains v = true := by
              cases hcv : q.mem.contains v with
              | true => rfl
              | false => rw [hcv] at hr'; cases hr'
            simp only [addOne, hc, ↓reduceIte] at hl
            exact absurd hl (Nat.lt_irrefl _)
          · rfl
        · exact hq.step hk h2 h4 (by rw [h3, hm]; rfl) (fun _ => addOne_nodup v (hq.nodup rfl))
    | pull emptive =>
      obtain ⟨db', h1, h2⟩ := popIoVal_spec hinv hnc
      have hsub : ∀ e ∈ db', e ∈ db :=
        post_sub_of_shrink h2 (fun e he => (mem_entsOf.mp (List.mem_of_mem_tail he)).1)
      have hrel := rel_self_of_post hr hk h2 (fun e he => hr.ions e (hsub e he))
      have habs : absIo db' k = q.mem.tail := by rw [h2.absIo_at, ← hm]; simp [absIo]
      cases hmem : q.mem with
      | nil =>
        rw [hm, hmem] at h1
        rw [hmem] at habs
        refine ⟨db', q, ?_, by simp [specQ, hmem], ?_⟩
        · simp only [hstep, qstep, hmem, pullDurable, h1, specQ]
          cases emptive <;> simp
        · rw [hmem]; exact ⟨hrel, habs, fun _ => List.nodup_nil, fun k' h => by rw [h2.absIo_other h]; exact hq.others k' h⟩
      | cons v rest =>
        rw [hm, hmem] at h1
        rw [hmem] at habs
        refine ⟨db', ⟨rest, q.stale⟩, ?_, by simp [specQ, hmem], ?_⟩
        · simp [hstep, qstep, hmem, pullDurable, h1, specQ]
        · refine ⟨hrel, habs, fun h => ?_, fun k' h => by rw [h2.absIo_other h]; exact hq.others k' h⟩
          have := hq.nodup h; rw [hmem] at this; exact (List.nodup_cons.mp this).2
    | extend vs =>
      cases kind with
      | durq =>
        by_cases hvs : vs = []
        · subst hvs
          refine ⟨db, q, by simp [hstep, qstep, specQ], by simp [specQ], ?_⟩
          exact ⟨hr, hm, (fun h => by cases h), hq.others⟩
        · obtain ⟨db', ents, h1, h2, h3, h4⟩ := putIoVals_spec hinv hnc hvk hr.ions vs hw
          have hne : vs.isEmpty = false := by cases vs <;> simp at hvs ⊢
          refine ⟨db', ⟨q.mem ++ vs, false⟩, by simp [hstep, qstep, hvs, h1, hne, specQ], by simp [specQ], ?_⟩
          exact hq.step hk h2 h4 (by rw [h3, hm]) (fun h => by cases h)
      | dusq =>
        have hi := hinj rfl
        have hupd := osetUpdate_eq cls hi q.mem vs
        by_cases hgt : (addAll q.mem vs).length > q.mem.length
        · obtain ⟨db', ents, h1, h2, h3, h4⟩ := putIoSetVals_spec hinv hnc hvk hr.ions vs hw
          have hnew : absIo db k ++ (dedup vs).filter (fun v => !(absIo db k).contains v) = addAll q.mem vs := by
            rw [hm, addAll_eq, dedup_eq_dd]
          have hne : ((dedup vs).filter (fun v => !(absIo db k).contains v)).isEmpty = false := by
            cases hf : (dedup vs).filter (fun v => !(absIo db k).contains v) with
            | nil =>
              rw [hf, List.append_nil, hm] at hnew
              rw [← hnew] at hgt
              exact absurd hgt (Nat.lt_irrefl _)
            | cons a b => rfl
          have hex : ∃ x, x ∈ dedup vs ∧ ¬ x ∈ absIo db k := by
            cases hf : (dedup vs).filter (fun v => !(absIo db k).contains v) with
            | nil => rw [hf] at hne; simp at hne
            | cons a b =>
              have : a ∈ (dedup vs).filter (fun v => !(absIo db k).contains v) := by rw [hf]; exact List.mem_cons_self ..
              rw [List.mem_filter] at this
              exact ⟨a, this.1, by simpa using this.2⟩
          refine ⟨db', ⟨addAll q.mem vs, false⟩, ?_, by simp [specQ], ?_⟩
          · simp [hstep, qstep, hupd, hgt, h1, hne, specQ]
            exact hex
          · exact hq.step hk h2 h4 (by rw [h3, hnew]) (fun _ => addAll_nodup vs (hq.nodup rfl))
        · have hsame : addAll q.mem vs = q.mem := by
            rw [addAll_eq] at hgt ⊢
            cases hf : (dd vs).filter (fun x => !q.mem.contains x) with
            | nil => simp
            | cons a b => rw [hf] at hgt; simp at hgt
          refine ⟨db, ⟨addAll q.mem vs, q.stale⟩, ?_, by simp [specQ], ?_⟩
          · simp [hstep, qstep, hupd, hgt, specQ]
          · rw [hsame]
            exact ⟨hr.mono (by omega), hm, hq.nodup, hq.others⟩
    | clear =>
      by_cases hz : q.mem = []
      · refine ⟨db, q, by simp [hstep, qstep, hz, specQ], by simp [specQ, hz], ?_⟩
        exact ⟨hr, hm, hq.nodup, hq.others⟩
      · obtain ⟨db', h1, h2⟩ := remIoVals_spec hinv hnc
        have hsub : ∀ e ∈ db', e ∈ db := post_sub_of_shrink h2 (fun e he => by cases he)
        have hne : (absIo db k).isEmpty = false := by rw [hm]; cases hq' : q.mem <;> simp_all
        refine ⟨db', ⟨[], q.stale⟩, ?_, by simp [specQ], ?_⟩
        · rw [hm] at hne
          simp [hstep, qstep, hz, h1, hne, hm, specQ]
        · exact hq.step hk h2 (fun e he => hr.ions e (hsub e he)) (by rw [h2.absIo_at]; rfl) (fun _ => List.nodup_nil)
    | remove v =>
      cases kind with
      | durq => exact ⟨db, q, by simp [hstep, qstep, specQ], by simp [specQ], hr, hm, hq.nodup, hq.others⟩
      | dusq =>
        have hi := hinj rfl
        have hrem := osetRemove_eq cls hi q.mem v
        by_cases hc : q.mem.contains v = true
        · obtain ⟨db', ents, h1, h2, h3, h4⟩ := remIoSetVal_spec hinv hnc v
          rw [hm] at h1 h3
          have hmem : v ∈ q.mem := List.contains_iff_mem.mp hc
          refine ⟨db', ⟨q.mem.erase v, q.stale⟩, ?_, by simp [specQ], ?_⟩
          · simp [hstep, qstep, hrem, hc, hmem, h1, specQ]
          · exact hq.step hk h2 (fun e he => hr.ions e (h4 e he)) h3 (fun _ => (hq.nodup rfl).erase v)
        · have hnm : ¬ v ∈ q.mem := fun h => hc (List.contains_iff_mem.mpr h)
          refine ⟨db, q, ?_, ?_, hr, hm, hq.nodup, hq.others⟩
          · simp [hstep, qstep, hrem, hc, hnm, specQ]
          · simp only [specQ]
            rw [List.erase_of_not_mem]
            intro hmem; exact hc (List.contains_iff_mem.mpr hmem)
    | count v =>
      cases kind with
      | durq => exact ⟨db, q, by simp [hstep, qstep, specQ], by simp [specQ], hr, hm, hq.nodup, hq.others⟩
      | dusq => exact ⟨db, q, by simp [hstep, qstep, specQ], by simp [specQ], hr, hm, hq.nodup, hq.others⟩
    | sync force =>
      cases force with
      | false => exact ⟨db, q, by simp [hstep, qstep, hst, specQ], by simp [specQ], hr, hm, hq.nodup, hq.others⟩
      | true =>
        obtain ⟨db', h1, h2⟩ := syncBody_spec cls hinj hk hE hB hvk hq q.mem hq.nodup (by omega)
          (fun hz => by rw [hz]; simp; omega)
        have hsame : (if q.mem = [] then q.mem else q.mem) = q.mem := by split <;> rfl
        rw [hsame] at h1 h2
        refine ⟨db', ⟨q.mem, false⟩, by simp [hstep, qstep, hst, h1, specQ], by simp [specQ], h2.mono ?_⟩
        split <;> simp_all [hweight]

theorem syncBody_stale (kind : QKind) (k : Bytes) (db : Db) (m : List Bytes) {db' : Db} {q' : Q}
    (h : syncBody cls kind k db m = (db', .ok q')) : q'.stale = false := by
  unfold syncBody at h
  split at h
  · cases h
  · split at h
    · split at h
      · cases h
      · simp only [Prod.mk.injEq, Except.ok.injEq] at h; rw [← h.2]
    · split at h
      · simp only [Prod.mk.injEq, Except.ok.injEq] at h; rw [← h.2]
      · cases h

/-- a queue that is in sync stays flagged in sync -/
theorem hstep_stale (kind : QKind) (k : Bytes) (db : Db) (q : Q) (o : HOp) (hst : q.stale = false) :
    (hstep cls kind k db q o).2.1.stale = false := by
  cases o with
  | reopen pre =>
    simp only [hstep, inject]
    cases h : syncBody cls kind k db (initMem cls kind pre) with
    | mk d r => cases r with
      | error x => exact hst
      | ok q' => exact syncBody_stale cls kind k db _ h
  | op o =>
    cases o with
    | sync force =>
      simp only [hstep, qstep]
      split
      · cases h : syncBody cls kind k db q.mem with
        | mk d r => cases r with
          | error x => exact hst
          | ok q' => exact syncBody_stale cls kind k db _ h
      · exact hst
    | pull e =>
      simp only [hstep, qstep]
      cases q.mem <;> simp [hst]
    | push v => cases kind <;> simp only [hstep, qstep] <;> (repeat' split) <;> simp [hst]
    | extend vs => cases kind <;> simp only [hstep, qstep] <;> (repeat' split) <;> simp [hst]
    | clear => simp only [hstep, qstep]; (repeat' split) <;> simp [hst]
    | remove v => cases kind <;> simp only [hstep, qstep] <;> (repeat' split) <;> simp [hst]
    | count v => cases kind <;> simp [hstep, qstep, hst]

theorem hrun_refines {kind : QKind} (hinj : kind = .dusq → ∀ a b, cls a = cls b → a = b)
    {K : Bytes → Prop} {k : Bytes} (hk : K k) {B : Nat} (hE : ExactAt K k B) (hB : B < 16 ^ W) (hvk : validKey (suffix k 0) = true)
    {τ : St} :
    ∀ (os : List HOp) (n : Nat) (db : Db) (q : Q), QInv K k kind n db q.mem τ → q.stale = false → n + htotal os ≤ B →
      hrun cls kind k db q os = specHRun cls kind q.mem os
  | [], _, _, _, _, _, _ => rfl
  | o :: os, n, db, q, hq, hst, hw => by
    simp only [htotal] at hw
    obtain ⟨db', q', h1, h2, h3⟩ := hstep_refines cls hinj hk hE hB hvk hq hst o (by omega)
    have hst' : q'.stale = false := by have := hstep_stale cls kind k db q o hst; rw [h1] at this; exact this
    have ih := hrun_refines hinj hk hE hB hvk os _ db' q' h3 hst' (by omega)
    have hd : durable db' k = .ok q'.mem := by
      rw [durable, getIoVals_spec h3.rel.inv (h3.rel.noChild hE hB (by omega)), h3.mirror]
    simp only [hrun, h1, specHRun, hd, ih, h2]

/-- the state a history leads to -/
def hfinal (kind : QKind) (k : Bytes) : Db → Q → List HOp → Db × Q
  | db, q, [] => (db, q)
  | db, q, o :: os => hfinal kind k (hstep cls kind k db q o).1 (hstep cls kind k db q o).2.1 os

theorem hfinal_inv {kind : QKind} (hinj : kind = .dusq → ∀ a b, cls a = cls b → a = b)
    {K : Bytes → Prop} {k : Bytes} (hk : K k) {B : Nat} (hE : ExactAt K k B) (hB : B < 16 ^ W) (hvk : validKey (suffix k 0) = true)
    {τ : St} :
    ∀ (os : List HOp) (n : Nat) (db : Db) (q : Q), QInv K k kind n db q.mem τ → q.stale = false → n + htotal os ≤ B →
      QInv K k kind (n + htotal os) (hfinal cls kind k db q os).1 (hfinal cls kind k db q os).2.mem τ ∧
        (hfinal cls kind k db q os).2.stale = false
  | [], _, _, _, hq, hst, _ => ⟨hq, hst⟩
  | o :: os, n, db, q, hq, hst, hw => by
    simp only [htotal] at hw
    obtain ⟨db', q', h1, _, h3⟩ := hstep_refines cls hinj hk hE hB hvk hq hst o (by omega)
    have hst' : q'.stale = false := by have := hstep_stale cls kind k db q o hst; rw [h1] at this; exact this
    have ih := hfinal_inv hinj hk hE hB hvk os _ db' q' h3 hst' (by omega)
    simp only [hfinal, h1, htotal]
    rw [← Nat.add_assoc]; exact ih

theorem specHRun_mirror (kind : QKind) : ∀ (os : List HOp) (l : List Bytes), ∀ x ∈ specHRun cls kind l os, x.2.2 = .ok x.2.1
  | [], _, x, hx => by simp [specHRun] at hx
  | o :: os, l, x, hx => by
    simp only [specHRun, List.mem_cons] at hx
    rcases hx with rfl | hx
    · rfl
    · exact specHRun_mirror kind os _ x hx

theorem specQ_no_hier (kind : QKind) (l : List Bytes) (o : HOp) : (specQ cls kind l o).2 ≠ .raise .hierError := by
  cases o with
  | reopen => simp [specQ]
  | op o =>
    cases o with
    | pull e => cases l <;> simp [specQ] <;> split <;> simp
    | sync f => cases f <;> simp [specQ]
    | push v => cases kind <;> simp [specQ]
    | extend vs => cases kind <;> simp [specQ]
    | clear => simp [specQ]
    | remove v => cases kind <;> simp [specQ]
    | count v => cases kind <;> simp [specQ]

theorem specHRun_no_hier (kind : QKind) : ∀ (os : List HOp) (l : List Bytes), ∀ x ∈ specHRun cls kind l os, x.1 ≠ .raise .hierError
  | [], _, x, hx => by simp [specHRun] at hx
  | o :: os, l, x, hx => by
    simp only [specHRun, List.mem_cons] at hx
    rcases hx with rfl | hx
    · exact specQ_no_hier cls kind l o
    · exact specHRun_no_hier kind os _ x hx

/-! ## several queues in one store -/

/-- the specification: independent FIFO queues / ordered sets, one per key.  Reopen with preloads: at every key of the
Hold a non-empty content stays, an empty one takes the preload; a rejected call is the identity. -/
def specM (kind : QKind) (keys : List Bytes) (σ : St) : MOp → St × QRes
  | .q k o => (upd σ k (specQ cls kind (σ k) (.op o)).1, (specQ cls kind (σ k) (.op o)).2)
  | .a k o => match validate o with
    | .ok qo => (upd σ k (specQ cls kind (σ k) (.op qo)).1, (specQ cls kind (σ k) (.op qo)).2)
    | .error r => (σ, r)          -- a rejected call is the identity of the specification
  | .reopen pre => (fun k => if k ∈ keys then (match pre k with
      | some p => if σ k = [] then initS kind p else σ k
      | none => σ k) else σ k, .bool true)

def specMRun (kind : QKind) (keys : List Bytes) : St → List MOp → List (QRes × List (List Bytes × Except Exn (List Bytes)))
  | _, [] => []
  | σ, o :: os => ((specM cls kind keys σ o).2, keys.map (fun k => ((specM cls kind keys σ o).1 k, .ok ((specM cls kind keys σ o).1 k)))) ::
      specMRun kind keys (specM cls kind keys σ o).1 os

def preLen : Option (List Bytes) → Nat
  | some p => p.length
  | none => 0

def preWeight (pre : Bytes → Option (List Bytes)) : List Bytes → Nat
  | [] => 0
  | k :: ks => preLen (pre k) + preWeight pre ks

def mweight (keys : List Bytes) : MOp → Nat
  | .q _ o => hweight (.op o)
  | .a _ o => match validate o with
    | .ok qo => hweight (.op qo)
    | .error _ => 0
  | .reopen pre => preWeight pre keys

def mkey : MOp → Option Bytes
  | .q k _ | .a k _ => some k
  | .reopen _ => none

def mtotal (keys : List Bytes) : List MOp → Nat
  | [] => 0
  | o :: os => mweight keys o + mtotal keys os

structure MInv (K : Bytes → Prop) (kind : QKind) (keys : List Bytes) (n : Nat) (db : Db) (ms : MS) : Prop where
  rel : Rel K n db (absIo db)
  each : ∀ k ∈ keys, absIo db k = (ms k).mem ∧ (kind = .dusq → (ms k).mem.Nodup) ∧ (ms k).stale = false

theorem injectAll_spec {kind : QKind} (hinj : kind = .dusq → ∀ a b, cls a = cls b → a = b)
    {K : Bytes → Prop} {B : Nat} (hG : ∀ k, K k → ExactAt K k B) (hB : B < 16 ^ W) (hvk : ∀ k, K k → validKey (suffix k 0) = true)
    (keys : List Bytes) (hkeys : ∀ k ∈ keys, K k) (pre : Bytes → Option (List Bytes)) :
    ∀ (ks : List Bytes), ks.Nodup → (∀ k ∈ ks, k ∈ keys) → ∀ (n : Nat) (db : Db) (ms : MS), MInv K kind keys n db ms →
      n + preWeight pre ks ≤ B →
      ∃ db' ms', injectAll cls kind pre ks db ms = (db', ms', none) ∧ MInv K kind keys (n + preWeight pre ks) db' ms' ∧
        ∀ k, (ms' k).mem = if k ∈ ks then (match pre k with
          | some p => if (ms k).mem = [] then initS kind p else (ms k).mem
          | none => (ms k).mem) else (ms k).mem
  | [], _, _, n, db, ms, hm, _ => ⟨db, ms, rfl, hm, fun _ => by simp⟩
  | k :: ks, hnd, hks, n, db, ms, hm, hw => by
    have hkm := hks k (List.mem_cons_self ..)
    have hk := hkeys k hkm
    have hnd' := List.nodup_cons.mp hnd
    simp only [preWeight] at hw
    cases hp : pre k with
    | none =>
      simp only [hp, preLen, Nat.zero_add] at hw
      obtain ⟨db'', ms'', h4, h5, h6⟩ := injectAll_spec hinj hG hB hvk keys hkeys pre ks hnd'.2
        (fun k2 hk2 => hks k2 (List.mem_cons_of_mem _ hk2)) n db ms hm hw
      refine ⟨db'', ms'', by simp only [injectAll, hp, (hm.each k hkm).2.2, Bool.false_eq_true, ↓reduceIte, h4], ?_, ?_⟩
      · simp only [preWeight, hp, preLen, Nat.zero_add]; exact h5
      · intro k2
        rw [h6 k2]
        by_cases e : k2 = k
        · subst e; simp [hnd'.1, hp]
        · simp [e]
    | some p =>
      simp only [hp, preLen] at hw
      have hq : QInv K k kind n db (ms k).mem (absIo db) := ⟨hm.rel, (hm.each k hkm).1, (hm.each k hkm).2.1, fun _ _ => rfl⟩
      obtain ⟨db', q', h1, h2, h3⟩ := hstep_refines cls hinj hk (hG k hk) hB (hvk k hk) hq (hm.each k hkm).2.2 (.reopen p)
        (by simp only [hweight]; omega)
      have hst' : q'.stale = false := by
        have := hstep_stale cls kind k db (ms k) (.reopen p) (hm.each k hkm).2.2; rw [h1] at this; exact this
      have hinjq : inject cls kind k db p = (db', .ok q') := by
        simp only [hstep] at h1
        cases hi : inject cls kind k db p with
        | mk d r =>
          rw [hi] at h1
          cases r with
          | error x => simp [specQ] at h1
          | ok q0 => simp only [Prod.mk.injEq] at h1; rw [h1.1, h1.2.1]
      have hmem : q'.mem = if (ms k).mem = [] then initS kind p else (ms k).mem := by rw [h2]; rfl
      have hm' : MInv K kind keys (n + p.length) db' (setQ ms k q') := by
        refine ⟨h3.rel, ?_⟩
        intro k2 hk2
        by_cases e : k2 = k
        · subst e; simp only [setQ, ↓reduceIte]; exact ⟨h3.mirror, h3.nodup, hst'⟩
        · simp only [setQ, e, ↓reduceIte]
          rw [h3.others k2 e]; exact hm.each k2 hk2
      obtain ⟨db'', ms'', h4, h5, h6⟩ := injectAll_spec hinj hG hB hvk keys hkeys pre ks hnd'.2
        (fun k2 hk2 => hks k2 (List.mem_cons_of_mem _ hk2)) _ db' (setQ ms k q') hm' (by omega)
      refine ⟨db'', ms'', by simp only [injectAll, hp, hinjq, h4], ?_, ?_⟩
      · simp only [preWeight, hp, preLen]; rw [← Nat.add_assoc]; exact h5
      · intro k2
        rw [h6 k2]
        by_cases e : k2 = k
        · subst e
          simp [setQ, hnd'.1, hmem, hp]
        · simp [setQ, e]

theorem mstep_refines_q {kind : QKind} (hinj : kind = .dusq → ∀ a b, cls a = cls b → a = b)
    {K : Bytes → Prop} {B : Nat} (hG : ∀ k, K k → ExactAt K k B) (hB : B < 16 ^ W) (hvk : ∀ k, K k → validKey (suffix k 0) = true)
    (keys : List Bytes) (hkeys : ∀ k ∈ keys, K k) {n : Nat} {db : Db} {ms : MS} (hm : MInv K kind keys n db ms)
    {σ : St} (hσ : ∀ k ∈ keys, σ k = (ms k).mem) (k : Bytes) (qo : QOp) (hkm : k ∈ keys) (hw : n + hweight (.op qo) ≤ B) :
    (mstep cls kind keys db ms (.q k qo)).2.2 = (specM cls kind keys σ (.q k qo)).2 ∧
    MInv K kind keys (n + hweight (.op qo)) (mstep cls kind keys db ms (.q k qo)).1 (mstep cls kind keys db ms (.q k qo)).2.1 ∧
    ∀ k2 ∈ keys, (specM cls kind keys σ (.q k qo)).1 k2 = ((mstep cls kind keys db ms (.q k qo)).2.1 k2).mem := by
  have hk := hkeys k hkm
  have hq : QInv K k kind n db (ms k).mem (absIo db) := ⟨hm.rel, (hm.each k hkm).1, (hm.each k hkm).2.1, fun _ _ => rfl⟩
  obtain ⟨db', q', h1, h2, h3⟩ := hstep_refines cls hinj hk (hG k hk) hB (hvk k hk) hq (hm.each k hkm).2.2 (.op qo) hw
  have hst' : q'.stale = false := by
    have := hstep_stale cls kind k db (ms k) (.op qo) (hm.each k hkm).2.2; rw [h1] at this; exact this
  simp only [hstep] at h1
  simp only [mstep, h1, specM, hσ k hkm]
  refine ⟨trivial, ⟨h3.rel, ?_⟩, ?_⟩
  · intro k2 hk2
    by_cases e : k2 = k
    · subst e; simp only [setQ, ↓reduceIte]; exact ⟨h3.mirror, h3.nodup, hst'⟩
    · simp only [setQ, e, ↓reduceIte]
      rw [h3.others k2 e]; exact hm.each k2 hk2
  · intro k2 hk2
    by_cases e : k2 = k
    · subst e; simp [setQ, upd, h2]
    · simp [setQ, upd, e, hσ k2 hk2]

/-- REJECTED ⇒ IDENTITY (model side): a call the method refuses changes neither the store nor any in-memory queue -/
theorem mstep_rejected (kind : QKind) (keys : List Bytes) (db : Db) (ms : MS) (k : Bytes) (ao : AOp) (r : QRes)
    (h : validate ao = .error r) : mstep cls kind keys db ms (.a k ao) = (db, ms, r) := by
  simp only [mstep, h]

theorem mstep_refines {kind : QKind} (hinj : kind = .dusq → ∀ a b, cls a = cls b → a = b)
    {K : Bytes → Prop} {B : Nat} (hG : ∀ k, K k → ExactAt K k B) (hB : B < 16 ^ W) (hvk : ∀ k, K k → validKey (suffix k 0) = true)
    (keys : List Bytes) (hnd : keys.Nodup) (hkeys : ∀ k ∈ keys, K k) {n : Nat} {db : Db} {ms : MS} (hm : MInv K kind keys n db ms)
    {σ : St} (hσ : ∀ k ∈ keys, σ k = (ms k).mem) (o : MOp) (ho : ∀ k, mkey o = some k → k ∈ keys) (hw : n + mweight keys o ≤ B) :
    (mstep cls kind keys db ms o).2.2 = (specM cls kind keys σ o).2 ∧
    MInv K kind keys (n + mweight keys o) (mstep cls kind keys db ms o).1 (mstep cls kind keys db ms o).2.1 ∧
    ∀ k ∈ keys, (specM cls kind keys σ o).1 k = ((mstep cls kind keys db ms o).2.1 k).mem := by
  cases o with
  | reopen pre =>
    obtain ⟨db', ms', h1, h2, h3⟩ := injectAll_spec cls hinj hG hB hvk keys hkeys pre keys hnd (fun _ h => h) n db ms hm
      (by simpa [mweight] using hw)
    simp only [mstep, h1, specM, mweight]
    exact ⟨trivial, h2, fun k hk => by rw [h3 k]; simp only [hk, ↓reduceIte, hσ k hk]⟩
  | q k qo => exact mstep_refines_q cls hinj hG hB hvk keys hkeys hm hσ k qo (ho k rfl) hw
  | a k ao =>
    cases hv : validate ao with
    | error r =>
      simp only [mstep, specM, mweight, hv]
      exact ⟨trivial, hm, hσ⟩
    | ok qo =>
      simp only [mweight, hv] at hw
      have h := mstep_refines_q cls hinj hG hB hvk keys hkeys hm hσ k qo (ho k rfl) hw
      simp only [mstep, specM, mweight, hv] at h ⊢
      exact h

theorem mrun_refines {kind : QKind} (hinj : kind = .dusq → ∀ a b, cls a = cls b → a = b)
    {K : Bytes → Prop} {B : Nat} (hG : ∀ k, K k → ExactAt K k B) (hB : B < 16 ^ W) (hvk : ∀ k, K k → validKey (suffix k 0) = true)
    (keys : List Bytes) (hnd : keys.Nodup) (hkeys : ∀ k ∈ keys, K k) :
    ∀ (os : List MOp) (n : Nat) (db : Db) (ms : MS) (σ : St), MInv K kind keys n db ms → (∀ k ∈ keys, σ k = (ms k).mem) →
      (∀ o ∈ os, ∀ k, mkey o = some k → k ∈ keys) → n + mtotal keys os ≤ B →
      mrun cls kind keys db ms os = specMRun cls kind keys σ os
  | [], _, _, _, _, _, _, _, _ => rfl
  | o :: os, n, db, ms, σ, hm, hσ, hos, hw => by
    simp only [mtotal] at hw
    obtain ⟨h1, h2, h3⟩ := mstep_refines cls hinj hG hB hvk keys hnd hkeys hm hσ o (hos o (List.mem_cons_self ..)) (by omega)
    have ih := mrun_refines hinj hG hB hvk keys hnd hkeys os _ _ _ _ h2 h3
      (fun o' ho' => hos o' (List.mem_cons_of_mem _ ho')) (by omega)
    simp only [mrun, specMRun, h1, ih]
    congr 2
    apply List.map_congr_left
    intro k hk
    have hd : durable (mstep cls kind keys db ms o).1 k = .ok ((mstep cls kind keys db ms o).2.1 k).mem := by
      rw [durable, getIoVals_spec h2.rel.inv (h2.rel.noChild (hG k (hkeys k hk)) hB (by omega)), (h2.each k hk).1]
    rw [hd, h3 k hk]

end step

end Hio.Store
