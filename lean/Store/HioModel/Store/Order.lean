import HioModel.Store.Model
/-! # Store lemmas 1: bytewise order, hex suffix, suffix/unsuffix -/
namespace Hio.Store

/-! ## lexLt is a strict total order -/

theorem lexLt_nil_right (a : Bytes) : lexLt a [] = false := by cases a <;> rfl

theorem lexLt_cons (a b : Nat) (as bs : Bytes) :
    lexLt (a :: as) (b :: bs) = (decide (a < b) || (a == b && lexLt as bs)) := rfl

theorem lexLt_irrefl (a : Bytes) : lexLt a a = false := by
  induction a with
  | nil => rfl
  | cons x xs ih => simp [lexLt_cons, ih]

theorem lexLt_trans {a b c : Bytes} (h1 : lexLt a b = true) (h2 : lexLt b c = true) : lexLt a c = true := by
  induction a generalizing b c with
  | nil =>
    cases c with
    | nil => simp [lexLt_nil_right] at h2
    | cons z zs => rfl
  | cons x xs ih =>
    cases b with
    | nil => simp [lexLt_nil_right] at h1
    | cons y ys =>
      cases c with
      | nil => simp [lexLt_nil_right] at h2
      | cons z zs =>
        simp only [lexLt_cons, Bool.or_eq_true, decide_eq_true_eq, Bool.and_eq_true, beq_iff_eq] at h1 h2 ⊢
        rcases h1 with h1 | ⟨rfl, h1⟩
        · rcases h2 with h2 | ⟨rfl, _⟩
          · left; omega
          · left; exact h1
        · rcases h2 with h2 | ⟨rfl, h2⟩
          · left; exact h2
          · right; exact ⟨rfl, ih h1 h2⟩

theorem lexLt_asymm {a b : Bytes} (h : lexLt a b = true) : lexLt b a = false := by
  cases hb : lexLt b a with
  | false => rfl
  | true => have := lexLt_trans h hb; rw [lexLt_irrefl] at this; cases this

theorem lexLt_ne {a b : Bytes} (h : lexLt a b = true) : a ≠ b := by
  intro e; subst e; rw [lexLt_irrefl] at h; cases h

theorem lexLt_total (a b : Bytes) : lexLt a b = true ∨ a = b ∨ lexLt b a = true := by
  induction a generalizing b with
  | nil => cases b with
    | nil => right; left; rfl
    | cons y ys => left; rfl
  | cons x xs ih =>
    cases b with
    | nil => right; right; rfl
    | cons y ys =>
      simp only [lexLt_cons, Bool.or_eq_true, decide_eq_true_eq, Bool.and_eq_true, beq_iff_eq, List.cons.injEq]
      rcases Nat.lt_trichotomy x y with h | h | h
      · left; left; exact h
      · subst h
        rcases ih ys with h | h | h
        · left; right; exact ⟨rfl, h⟩
        · right; left; exact ⟨rfl, h⟩
        · right; right; right; exact ⟨rfl, h⟩
      · right; right; left; exact h

theorem lexLt_of_not_ge {a b : Bytes} (h1 : lexLt a b = false) (h2 : a ≠ b) : lexLt b a = true := by
  rcases lexLt_total a b with h | h | h
  · rw [h] at h1; cases h1
  · exact absurd h h2
  · exact h

theorem lexLt_append_left (p a b : Bytes) : lexLt (p ++ a) (p ++ b) = lexLt a b := by
  induction p with
  | nil => rfl
  | cons x xs ih => simp [lexLt_cons, ih]

/-- anything at or above `p ++ a` and below `p ++ b` starts with `p` -/
theorem prefix_of_between {p a b x : Bytes} (h1 : lexLt x (p ++ a) = false) (h2 : lexLt x (p ++ b) = true) :
    ∃ r, x = p ++ r := by
  induction p generalizing x with
  | nil => exact ⟨x, rfl⟩
  | cons c p ih =>
    cases x with
    | nil => simp [lexLt] at h1
    | cons d xs =>
      simp only [List.cons_append, lexLt_cons, Bool.or_eq_false_iff, decide_eq_false_iff_not, Bool.and_eq_false_iff,
        Bool.or_eq_true, decide_eq_true_eq, Bool.and_eq_true, beq_iff_eq] at h1 h2
      rcases h2 with h2 | ⟨rfl, h2⟩
      · exact absurd h2 h1.1
      · rcases h1.2 with h | h
        · simp at h
        · obtain ⟨r, hr⟩ := ih h h2
          exact ⟨r, by rw [hr]; rfl⟩

/-- equal-length heads decide first -/
theorem lexLt_append_of_length_eq {xs ys : Bytes} (h : xs.length = ys.length) (s t : Bytes) :
    lexLt (xs ++ s) (ys ++ t) = (lexLt xs ys || (xs == ys && lexLt s t)) := by
  induction xs generalizing ys with
  | nil => cases ys with
    | nil => simp [lexLt_irrefl]
    | cons y ys => simp at h
  | cons x xs ih =>
    cases ys with
    | nil => simp at h
    | cons y ys =>
      simp only [List.length_cons, Nat.add_right_cancel_iff] at h
      simp only [List.cons_append, lexLt_cons, ih h]
      by_cases hxy : x = y
      · subst hxy; simp
      · have h1 : (x :: xs == y :: ys) = false := by simp [hxy]
        have h2 : (x == y) = false := by simp [hxy]
        simp [h1, h2]

/-! ## fixed-width hex -/

theorem hexFix_length (w n : Nat) : (hexFix w n).length = w := by
  induction w generalizing n with
  | zero => rfl
  | succ w ih => simp [hexFix, ih]

theorem hexChar_lt {a b : Nat} (hb : b < 16) (h : a < b) : hexChar a < hexChar b := by
  unfold hexChar; split <;> split <;> omega

theorem hexChar_inj {a b : Nat} (ha : a < 16) (hb : b < 16) (h : hexChar a = hexChar b) : a = b := by
  unfold hexChar at h; split at h <;> split at h <;> omega

theorem hexVal_hexChar {d : Nat} (h : d < 16) : hexVal (hexChar d) = some d := by
  unfold hexVal hexChar
  by_cases h10 : d < 10
  · simp only [h10, ↓reduceIte]
    have : 48 ≤ 48 + d ∧ 48 + d ≤ 57 := by omega
    simp only [this, and_self, ↓reduceIte]; congr 1; omega
  · simp only [h10, ↓reduceIte]
    have h1 : ¬ (48 ≤ 87 + d ∧ 87 + d ≤ 57) := by omega
    have h2 : 97 ≤ 87 + d ∧ 87 + d ≤ 102 := by omega
    simp only [h1, h2, and_self, ↓reduceIte]; congr 1; omega

/-- SUFFIX ORDER: on ordinals below `16^w` the fixed-width hex rendering is strictly monotone -/
theorem hexFix_lt (w : Nat) {a b : Nat} (hb : b < 16 ^ w) (h : a < b) : lexLt (hexFix w a) (hexFix w b) = true := by
  induction w generalizing a b with
  | zero => simp at hb; omega
  | succ w ih =>
    simp only [hexFix]
    rw [lexLt_append_of_length_eq (by simp [hexFix_length])]
    have hb' : b / 16 < 16 ^ w := by
      rw [Nat.pow_succ] at hb; exact Nat.div_lt_of_lt_mul (by omega)
    by_cases hq : a / 16 < b / 16
    · simp [ih hb' hq]
    · have hq' : a / 16 = b / 16 := by
        have : a / 16 ≤ b / 16 := Nat.div_le_div_right (by omega)
        omega
      have hr : a % 16 < b % 16 := by
        have ha := Nat.div_add_mod a 16; have hb2 := Nat.div_add_mod b 16; omega
      have hc := hexChar_lt (Nat.mod_lt b (by omega)) hr
      simp [hq', lexLt_cons, hc]

theorem hexFix_inj (w : Nat) {a b : Nat} (ha : a < 16 ^ w) (hb : b < 16 ^ w) (h : hexFix w a = hexFix w b) : a = b := by
  rcases Nat.lt_trichotomy a b with hlt | heq | hgt
  · have := hexFix_lt w hb hlt; rw [h, lexLt_irrefl] at this; cases this
  · exact heq
  · have := hexFix_lt w ha hgt; rw [h, lexLt_irrefl] at this; cases this

theorem hexFix_lt_iff (w : Nat) {a b : Nat} (ha : a < 16 ^ w) (hb : b < 16 ^ w) :
    lexLt (hexFix w a) (hexFix w b) = true ↔ a < b := by
  constructor
  · intro h
    rcases Nat.lt_trichotomy a b with hlt | heq | hgt
    · exact hlt
    · subst heq; rw [lexLt_irrefl] at h; cases h
    · have := lexLt_asymm (hexFix_lt w ha hgt); rw [h] at this; cases this
  · exact hexFix_lt w hb

theorem hexFix_isHex (w n : Nat) : ∀ c ∈ hexFix w n, ∃ d, d < 16 ∧ c = hexChar d := by
  induction w generalizing n with
  | zero => intro c hc; simp [hexFix] at hc
  | succ w ih =>
    intro c hc
    simp only [hexFix, List.mem_append, List.mem_singleton] at hc
    rcases hc with hc | hc
    · exact ih _ c hc
    · exact ⟨n % 16, Nat.mod_lt _ (by omega), hc⟩

theorem parseHexAux_append (xs : Bytes) (c acc : Nat) :
    parseHexAux (xs ++ [c]) acc = (parseHexAux xs acc).bind (fun a => (hexVal c).map (fun d => a * 16 + d)) := by
  induction xs generalizing acc with
  | nil => simp [parseHexAux]; cases hexVal c <;> rfl
  | cons x xs ih =>
    simp only [List.cons_append, parseHexAux]
    cases hexVal x with
    | none => rfl
    | some d => exact ih _

theorem parseHexAux_hexFix (w n : Nat) (hn : n < 16 ^ w) : parseHexAux (hexFix w n) 0 = some n := by
  induction w generalizing n with
  | zero => simp at hn; subst hn; rfl
  | succ w ih =>
    have hq : n / 16 < 16 ^ w := by
      rw [Nat.pow_succ] at hn; exact Nat.div_lt_of_lt_mul (by omega)
    simp only [hexFix, parseHexAux_append, ih _ hq, hexVal_hexChar (Nat.mod_lt n (by omega : 16 > 0)), Option.bind_some, Option.map_some]
    congr 1; have := Nat.div_add_mod n 16; omega

/-! ## suffix / unsuffix -/

theorem rsplit_none {s : Nat} {h : Bytes} (hs : s ∉ h) : rsplit s h = none := by
  induction h with
  | nil => rfl
  | cons b bs ih =>
    simp only [List.mem_cons, not_or] at hs
    simp only [rsplit, ih hs.2]
    simp [Ne.symm hs.1]

theorem rsplit_suffix {s : Nat} (k h : Bytes) (hs : s ∉ h) : rsplit s (k ++ s :: h) = some (k, h) := by
  induction k with
  | nil => simp [rsplit, rsplit_none hs]
  | cons b bs ih => simp only [List.cons_append, rsplit, ih]

/-- a separator that is not a hex digit never occurs in the hex part -/
theorem sep_not_in_hex {s : Nat} (hs : hexVal s = none) (w n : Nat) : s ∉ hexFix w n := by
  intro hm
  obtain ⟨d, hd, rfl⟩ := hexFix_isHex w n s hm
  rw [hexVal_hexChar hd] at hs; cases hs

theorem unsuffixW_suffixW {s w : Nat} (hs : hexVal s = none) (hw : 0 < w) (k : Bytes) {i : Nat} (hi : i < 16 ^ w) :
    unsuffixW s (suffixW s w k i) = some (k, i) := by
  unfold unsuffixW suffixW
  rw [rsplit_suffix k _ (sep_not_in_hex hs w i)]
  have hne : hexFix w i ≠ [] := by
    intro e; have := hexFix_length w i; rw [e] at this; simp at this; omega
  simp [parseHex, hne, parseHexAux_hexFix w i hi]

theorem sepB_not_hex : hexVal sepB = none := by decide
theorem W_pos : 0 < W := by decide

/-- unsuffix ∘ suffix = id for every key and every ordinal below 16^W -/
theorem unsuffix_suffix (k : Bytes) {i : Nat} (hi : i < 16 ^ W) : unsuffix (suffix k i) = some (k, i) :=
  unsuffixW_suffixW sepB_not_hex W_pos k hi

theorem suffix_lt_iff (k : Bytes) {i j : Nat} (hi : i < 16 ^ W) (hj : j < 16 ^ W) :
    lexLt (suffix k i) (suffix k j) = true ↔ i < j := by
  unfold suffix suffixW
  rw [lexLt_append_left, lexLt_cons]
  simp [hexFix_lt_iff W hi hj]

theorem suffix_inj {k k' : Bytes} {i j : Nat} (hi : i < 16 ^ W) (hj : j < 16 ^ W) (h : suffix k i = suffix k' j) :
    k = k' ∧ i = j := by
  have h1 := unsuffix_suffix k hi
  rw [h, unsuffix_suffix k' hj] at h1
  simp at h1; exact ⟨h1.1.symm, h1.2.symm⟩

theorem suffix_length (k : Bytes) (i : Nat) : (suffix k i).length = k.length + 1 + W := by
  simp [suffix, suffixW, hexFix_length]; omega

end Hio.Store
