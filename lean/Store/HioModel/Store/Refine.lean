import HioModel.Store.IoOps2
import HioModel.Store.Last
import HioModel.Store.Exact
/-! # Store lemmas 6: the dictionary specifications and the refinement steps -/
set_option linter.unusedSimpArgs false
namespace Hio.Store

/-! ## the specification: a dictionary `Key → List Val` (io) / `Key → ordered set` (ioset) -/

abbrev St := Bytes → List Bytes

def upd (σ : St) (k : Bytes) (l : List Bytes) : St := fun k' => if k' = k then l else σ k'

theorem upd_same (σ : St) (k : Bytes) (l : List Bytes) : upd σ k l k = l := by simp [upd]
theorem upd_other (σ : St) {k k' : Bytes} (l : List Bytes) (h : k' ≠ k) : upd σ k l k' = σ k' := by simp [upd, h]

/-- dictionary semantics of the operations the property names; `set = true` for the ordered-set flavour.
`none`: the operation is not part of the dictionary language (getItemIter, plain-only ops). -/
def specIo (set : Bool) (σ : St) : Op → Option (St × Res)
  | .add k v =>
    if set then some (upd σ k (if (σ k).contains v then σ k else σ k ++ [v]), .bool (!(σ k).contains v))
    else some (upd σ k (σ k ++ [v]), .bool true)
  | .putL k vs =>
    let new := if set then (dedup vs).filter (fun v => !(σ k).contains v) else vs
    some (upd σ k (σ k ++ new), .bool (!new.isEmpty))
  | .pinL k vs =>
    let new := if set then dedup vs else vs
    some (upd σ k new, .bool (!new.isEmpty))
  | .get k => some (σ, .vals (σ k))
  | .iter k => some (σ, .vals (σ k))
  | .first k => some (σ, .opt (σ k).head?)
  | .last k => some (σ, .opt (σ k).getLast?)
  | .pop k => some (upd σ k (σ k).tail, .opt (σ k).head?)
  | .rem k => some (upd σ k [], .bool (!(σ k).isEmpty))
  | .remv k v =>
    if set then
      (if v = [] then some (upd σ k [], .bool (!(σ k).isEmpty))       -- documented: empty value = remove all
       else some (upd σ k ((σ k).erase v), .bool ((σ k).contains v)))
    else none
  | .cnt k => some (σ, .nat (σ k).length)
  -- a put / add with a non-bytes value is rejected without effect; a pin too IF the tree makes pin atomic (probed flag)
  | .bad isPin k => if isPin && !Hio.Gen.pinAtomic then none
    else some (σ, .raise (if validKey (suffix k 0) then .typeError else .badValsize))
  | _ => none

def opKey : Op → Option Bytes
  | .put k _ | .pin k _ | .add k _ | .putL k _ | .pinL k _ | .get k | .iter k | .first k | .last k | .pop k | .rem k
  | .remv k _ | .cnt k => some k
  | .bad _ k => some k
  | .cntAll | .items | .itemsTop _ | .fullItems _ | .trim _ => none

/-- how many ordinals an operation can consume -/
def opWeight : Op → Nat
  | .add _ _ => 1
  | .putL _ vs | .pinL _ vs => vs.length
  | _ => 0

/-- operations on one key never change another key (specification side) -/
theorem specIo_frame {set : Bool} {σ σ' : St} {op : Op} {r : Res} (h : specIo set σ op = some (σ', r)) {k k' : Bytes}
    (hk : opKey op = some k) (hkk : k' ≠ k) : σ' k' = σ k' := by
  cases op <;> simp only [specIo, opKey, Option.some.injEq, reduceCtorEq] at h hk
  all_goals try subst hk
  all_goals (try split at h) <;> (try split at h) <;> simp only [Option.some.injEq, Prod.mk.injEq, reduceCtorEq] at h <;>
    (try (obtain ⟨rfl, _⟩ := h)) <;> (try rfl) <;> (try exact upd_other _ _ hkk)

/-! ## the refinement relation -/

def SepFree (K : Bytes → Prop) : Prop := ∀ k k', K k → K k' → k' ≠ k → ¬ (k ++ [sepB]) <+: k'

structure Rel (K : Bytes → Prop) (n : Nat) (db : Db) (σ : St) : Prop where
  inv : Inv db
  keys : ∀ e ∈ db, ∃ k, K k ∧ ckeyIs k e = true
  ions : IonsBelow n db
  abs : ∀ k, absIo db k = σ k

theorem rel_nil (K : Bytes → Prop) : Rel K 0 [] (fun _ => []) :=
  ⟨inv_nil, by simp, (by intro e he; cases he), fun _ => rfl⟩

theorem Rel.noChild {K : Bytes → Prop} {n : Nat} {db : Db} {σ : St} (hr : Rel K n db σ) {k : Bytes} {B : Nat}
    (hE : ExactAt K k B) (hB : B < 16 ^ W) (hn : n ≤ B) : NoChild k db :=
  noChild_of_exact hr.inv hr.keys hE hB (fun e he i hi hei => by have := hr.ions e he k i hi hei; omega)

theorem Rel.noChildMax {K : Bytes → Prop} {n : Nat} {db : Db} {σ : St} (hr : Rel K n db σ) {k : Bytes}
    (hE : ExactAt K k maxSuffix) : NoChildMax k db := noChildMax_of_exact hr.inv hr.keys hE

/-- the simple guard implies the exact one for every bound -/
theorem exactAt_of_sepFree {K : Bytes → Prop} (hK : SepFree K) {k : Bytes} (hk : K k) (B : Nat) : ExactAt K k B := by
  intro k' hk' hne
  by_cases hpre : (k ++ [sepB]) <+: k'
  · exact absurd hpre (hK k k' hk hk' hne)
  · -- not an extension of k ++ sep: it cannot lie between two suffixes of k
    rcases lexLt_total (suffix k' 0) (suffix k 0) with h | h | h
    · exact Or.inl h
    · exact absurd (suffix_inj (Nat.pow_pos (by omega)) (Nat.pow_pos (by omega)) h).1 hne
    · right
      cases hB : lexLt (suffix k B) (suffix k' 0) with
      | true => rfl
      | false =>
        exfalso
        have hne2 : suffix k' 0 ≠ suffix k B := by
          intro e
          rw [suffix_eq_append k B] at e
          have : (k ++ [sepB]) <+: suffix k' 0 := ⟨_, e.symm⟩
          -- then k' = k or k ++ sep is a prefix of k'
          have hp2 : k' <+: suffix k' 0 := ⟨sepB :: hexFix W 0, by simp [suffix, suffixW]⟩
          have hl : (suffix k' 0).length = (suffix k B).length := by rw [e, ← suffix_eq_append]
          simp only [suffix_length] at hl
          have : k'.length = k.length := by omega
          have hp3 : k <+: suffix k' 0 := ⟨sepB :: hexFix W B, by rw [e]; simp⟩
          exact hne (List.IsPrefix.eq_of_length (List.prefix_of_prefix_length_le hp2 hp3 (by omega)) this)
        have hlt : lexLt (suffix k' 0) (suffix k B) = true := lexLt_of_not_ge hB (Ne.symm hne2)
        have h0 : lexLt (suffix k' 0) (suffix k 0) = false := lexLt_asymm h
        rcases between_suffix h0 hlt with h' | h'
        · exact hne h'
        · exact hpre h'

theorem Rel.mono {K : Bytes → Prop} {n m : Nat} {db : Db} {σ : St} (hr : Rel K n db σ) (h : n ≤ m) : Rel K m db σ :=
  ⟨hr.inv, hr.keys, fun e he k i hi hei => by have := hr.ions e he k i hi hei; omega, hr.abs⟩

theorem rel_of_post {K : Bytes → Prop} {n n' : Nat} {db db' ents : Db} {σ : St} (hr : Rel K n db σ) {k : Bytes} (hk : K k)
    (hp : Post k db db' ents) (hi : IonsBelow n' db') {l : List Bytes} (hl : absIo db' k = l) : Rel K n' db' (upd σ k l) := by
  refine ⟨hp.inv, ?_, hi, ?_⟩
  · intro e he
    rcases hp.keys e he with h | h
    · exact hr.keys e h
    · exact ⟨k, hk, h⟩
  · intro k'
    by_cases hkk : k' = k
    · subst hkk; rw [upd_same, hl]
    · rw [upd_other _ _ hkk, hp.absIo_other hkk, hr.abs]

def kindOf (set : Bool) : Kind := if set then .ioset else .io

/-- ONE STEP: the model's method returns what the dictionary returns and the abstraction follows -/
theorem io_step_refines {K : Bytes → Prop} (β : Bytes → Nat) (hG : ∀ k, K k → ExactAt K k (β k))
    (hvk : ∀ k, K k → validKey (suffix k 0) = true) (set : Bool)
    {n : Nat} {db : Db} {σ : St} (hr : Rel K n db σ) (op : Op) {σ' : St} {r : Res}
    (hspec : specIo set σ op = some (σ', r)) (hkey : ∀ k, opKey op = some k → K k) (hw : n + opWeight op ≤ 16 ^ W)
    (hβ : ∀ k, K k → n ≤ β k ∧ β k < 16 ^ W) (hlast : ∀ k, op = .last k → β k = maxSuffix) :
    ∃ db', step (kindOf set) db op = (db', r) ∧ Rel K (n + opWeight op) db' σ' := by
  have hinv := hr.inv
  have hNC : ∀ k, K k → NoChild k db := fun k hk => hr.noChild (hG k hk) (hβ k hk).2 (hβ k hk).1
  cases op with
  | put k v => simp [specIo] at hspec
  | pin k v => simp [specIo] at hspec
  | cntAll => simp [specIo] at hspec
  | items => simp [specIo] at hspec
  | itemsTop _ => simp [specIo] at hspec
  | fullItems _ => simp [specIo] at hspec
  | trim _ => simp [specIo] at hspec
  | bad p k =>
    simp only [specIo] at hspec
    split at hspec
    · cases hspec
    · rename_i hc
      simp only [Option.some.injEq, Prod.mk.injEq] at hspec
      obtain ⟨rfl, rfl⟩ := hspec
      have hv := hvk k (hkey k rfl)
      refine ⟨db, ?_, hr⟩
      cases set <;> simp [step, kindOf, hc, hv]
  | add k v =>
    have hk := hkey k rfl
    have hnc := hNC k hk
    cases set with
    | false =>
      simp only [specIo, Bool.false_eq_true, ↓reduceIte, Option.some.injEq, Prod.mk.injEq] at hspec
      obtain ⟨rfl, rfl⟩ := hspec
      obtain ⟨db', ents, h1, h2, h3, h4⟩ := addIoVal_spec hinv hnc (hvk k hk) hr.ions v hw
      exact ⟨db', by simp [step, kindOf, liftDb, h1], rel_of_post hr hk h2 h4 (by rw [h3, hr.abs])⟩
    | true =>
      simp only [specIo, ↓reduceIte, Option.some.injEq, Prod.mk.injEq] at hspec
      obtain ⟨rfl, rfl⟩ := hspec
      obtain ⟨db', ents, h1, h2, h3, h4⟩ := addIoSetVal_spec hinv hnc (hvk k hk) hr.ions v hw
      exact ⟨db', by simp [step, kindOf, liftDb, h1, hr.abs], rel_of_post hr hk h2 h4 (by rw [h3, hr.abs])⟩
  | putL k vs =>
    have hk := hkey k rfl
    have hnc := hNC k hk
    cases set with
    | false =>
      simp only [specIo, Bool.false_eq_true, ↓reduceIte, Option.some.injEq, Prod.mk.injEq] at hspec
      obtain ⟨rfl, rfl⟩ := hspec
      obtain ⟨db', ents, h1, h2, h3, h4⟩ := putIoVals_spec hinv hnc (hvk k hk) hr.ions vs hw
      exact ⟨db', by simp [step, kindOf, liftDb, h1], rel_of_post hr hk h2 h4 (by rw [h3, hr.abs])⟩
    | true =>
      simp only [specIo, ↓reduceIte, Option.some.injEq, Prod.mk.injEq] at hspec
      obtain ⟨rfl, rfl⟩ := hspec
      obtain ⟨db', ents, h1, h2, h3, h4⟩ := putIoSetVals_spec hinv hnc (hvk k hk) hr.ions vs hw
      exact ⟨db', by simp [step, kindOf, liftDb, h1, hr.abs], rel_of_post hr hk h2 h4 (by rw [h3, hr.abs])⟩
  | pinL k vs =>
    have hk := hkey k rfl
    have hnc := hNC k hk
    cases set with
    | false =>
      simp only [specIo, Bool.false_eq_true, ↓reduceIte, Option.some.injEq, Prod.mk.injEq] at hspec
      obtain ⟨rfl, rfl⟩ := hspec
      obtain ⟨db', ents, h1, h2, h3, h4⟩ := pinIoVals_spec hinv hnc (hvk k hk) hr.ions vs hw
      exact ⟨db', by simp [step, kindOf, liftPin, h1], rel_of_post hr hk h2 h4 h3⟩
    | true =>
      simp only [specIo, ↓reduceIte, Option.some.injEq, Prod.mk.injEq] at hspec
      obtain ⟨rfl, rfl⟩ := hspec
      obtain ⟨db', ents, h1, h2, h3, h4⟩ := pinIoSetVals_spec hinv hnc (hvk k hk) hr.ions vs hw
      exact ⟨db', by simp [step, kindOf, liftPin, h1], rel_of_post hr hk h2 h4 h3⟩
  | get k =>
    have hnc := hNC k (hkey k rfl)
    simp only [specIo, Option.some.injEq, Prod.mk.injEq] at hspec
    obtain ⟨rfl, rfl⟩ := hspec
    refine ⟨db, ?_, hr⟩
    cases set <;> simp [step, kindOf, liftRo, getIoVals_spec hinv hnc, hr.abs]
  | iter k =>
    have hnc := hNC k (hkey k rfl)
    simp only [specIo, Option.some.injEq, Prod.mk.injEq] at hspec
    obtain ⟨rfl, rfl⟩ := hspec
    refine ⟨db, ?_, hr⟩
    cases set <;> simp [step, kindOf, liftRo, getIoVals_spec hinv hnc, hr.abs]
  | first k =>
    have hnc := hNC k (hkey k rfl)
    simp only [specIo, Option.some.injEq, Prod.mk.injEq] at hspec
    obtain ⟨rfl, rfl⟩ := hspec
    refine ⟨db, ?_, hr⟩
    cases set <;> simp [step, kindOf, liftRo, getIoValFirst_spec hinv hnc, hr.abs]
  | last k =>
    have hnc : NoChildMax k db := hr.noChildMax (by have := hG k (hkey k rfl); rwa [hlast k rfl] at this)
    simp only [specIo, Option.some.injEq, Prod.mk.injEq] at hspec
    obtain ⟨rfl, rfl⟩ := hspec
    refine ⟨db, ?_, hr⟩
    cases set <;> simp [step, kindOf, liftRo, getIoValLast_spec hinv hnc, hr.abs]
  | cnt k =>
    have hnc := hNC k (hkey k rfl)
    simp only [specIo, Option.some.injEq, Prod.mk.injEq] at hspec
    obtain ⟨rfl, rfl⟩ := hspec
    refine ⟨db, ?_, hr⟩
    cases set <;> simp [step, kindOf, liftRo, cntIoVals_spec hinv hnc, hr.abs]
  | pop k =>
    have hk := hkey k rfl
    have hnc := hNC k hk
    simp only [specIo, Option.some.injEq, Prod.mk.injEq] at hspec
    obtain ⟨rfl, rfl⟩ := hspec
    obtain ⟨db', h1, h2⟩ := popIoVal_spec hinv hnc
    have hsub : ∀ e ∈ db', e ∈ db := by
      intro e he
      rcases h2.keys e he with h | h
      · exact h
      · have : e ∈ entsOf db' k := mem_entsOf.mpr ⟨he, h⟩
        rw [h2.atk] at this
        exact (mem_entsOf.mp (List.mem_of_mem_tail this)).1
    refine ⟨db', ?_, rel_of_post hr hk h2 (fun e he => hr.ions e (hsub e he)) (by rw [h2.absIo_at, ← hr.abs]; simp [absIo])⟩
    cases set <;> simp [step, kindOf, liftDb, h1, hr.abs]
  | rem k =>
    have hk := hkey k rfl
    have hnc := hNC k hk
    simp only [specIo, Option.some.injEq, Prod.mk.injEq] at hspec
    obtain ⟨rfl, rfl⟩ := hspec
    obtain ⟨db', h1, h2⟩ := remIoVals_spec hinv hnc
    have hsub : ∀ e ∈ db', e ∈ db := by
      intro e he
      rcases h2.keys e he with h | h
      · exact h
      · have : e ∈ entsOf db' k := mem_entsOf.mpr ⟨he, h⟩
        rw [h2.atk] at this; cases this
    refine ⟨db', ?_, rel_of_post hr hk h2 (fun e he => hr.ions e (hsub e he)) (by rw [h2.absIo_at]; rfl)⟩
    cases set <;> simp [step, kindOf, liftDb, h1, hr.abs]
  | remv k v =>
    have hk := hkey k rfl
    have hnc := hNC k hk
    cases set with
    | false => simp [specIo] at hspec
    | true =>
      simp only [specIo, ↓reduceIte] at hspec
      by_cases hv : v = []
      · simp only [hv, ↓reduceIte, Option.some.injEq, Prod.mk.injEq] at hspec
        obtain ⟨rfl, rfl⟩ := hspec
        obtain ⟨db', h1, h2⟩ := remIoVals_spec hinv hnc
        have hsub : ∀ e ∈ db', e ∈ db := by
          intro e he
          rcases h2.keys e he with h | h
          · exact h
          · have : e ∈ entsOf db' k := mem_entsOf.mpr ⟨he, h⟩
            rw [h2.atk] at this; cases this
        exact ⟨db', by simp [step, kindOf, liftDb, h1, hr.abs, hv],
          rel_of_post hr hk h2 (fun e he => hr.ions e (hsub e he)) (by rw [h2.absIo_at]; rfl)⟩
      · simp only [hv, ↓reduceIte, Option.some.injEq, Prod.mk.injEq] at hspec
        obtain ⟨rfl, rfl⟩ := hspec
        obtain ⟨db', ents, h1, h2, h3, h4⟩ := remIoSetVal_spec hinv hnc v
        exact ⟨db', by simp [step, kindOf, liftDb, h1, hr.abs, hv],
          rel_of_post hr hk h2 (fun e he => hr.ions e (h4 e he)) (by rw [h3, hr.abs])⟩

/-! ## whole histories -/

def specRun (set : Bool) (watch : List Bytes) : St → List Op → Option (List (Res × List Res))
  | _, [] => some []
  | σ, op :: ops => match specIo set σ op with
    | none => none
    | some (σ', r) => match specRun set watch σ' ops with
      | none => none
      | some rest => some ((r, watch.map (fun k => Res.vals (σ' k))) :: rest)

def totalWeight : List Op → Nat
  | [] => 0
  | op :: ops => opWeight op + totalWeight ops

theorem observe_spec {K : Bytes → Prop} (set : Bool) {n : Nat} {db : Db} {σ : St} (hr : Rel K n db σ) {k : Bytes} {B : Nat}
    (hE : ExactAt K k B) (hB : B < 16 ^ W) (hn : n ≤ B) : observe (kindOf set) db k = .vals (σ k) := by
  have := getIoVals_spec hr.inv (hr.noChild hE hB hn)
  cases set <;> simp [observe, step, kindOf, liftRo, this, hr.abs]

theorem io_run_refines {K : Bytes → Prop} (β : Bytes → Nat) (hG : ∀ k, K k → ExactAt K k (β k))
    (hvk : ∀ k, K k → validKey (suffix k 0) = true) (set : Bool)
    (watch : List Bytes) (hwatch : ∀ w ∈ watch, K w) :
    ∀ (ops : List Op) (n : Nat) (db : Db) (σ : St), Rel K n db σ → (∀ op ∈ ops, ∀ k, opKey op = some k → K k) →
      (∀ k, K k → n + totalWeight ops ≤ β k ∧ β k < 16 ^ W) → n + totalWeight ops ≤ 16 ^ W →
      (∀ k, Op.last k ∈ ops → β k = maxSuffix) →
      ∀ out, specRun set watch σ ops = some out → (run (kindOf set) watch db ops).1 = out
  | [], _, _, _, _, _, _, _, _, out, h => by simp [specRun] at h; simp [run, h]
  | op :: ops, n, db, σ, hr, hkeys, hβ, hw, hlast, out, h => by
    simp only [specRun] at h
    cases hs : specIo set σ op with
    | none => rw [hs] at h; cases h
    | some p =>
      obtain ⟨σ', r⟩ := p
      rw [hs] at h
      simp only at h
      cases hrest : specRun set watch σ' ops with
      | none => rw [hrest] at h; cases h
      | some rest =>
        rw [hrest] at h
        simp only [Option.some.injEq] at h
        simp only [totalWeight] at hw hβ
        obtain ⟨db', h1, h2⟩ := io_step_refines β hG hvk set hr op hs (hkeys op (List.mem_cons_self ..)) (by omega)
          (fun k hk => ⟨by have := (hβ k hk).1; omega, (hβ k hk).2⟩)
          (fun k hk => hlast k (by rw [hk]; exact List.mem_cons_self ..))
        have ih := io_run_refines β hG hvk set watch hwatch ops _ db' σ' h2
          (fun o ho => hkeys o (List.mem_cons_of_mem _ ho))
          (fun k hk => ⟨by have := (hβ k hk).1; omega, (hβ k hk).2⟩) (by omega)
          (fun k hk => hlast k (List.mem_cons_of_mem _ hk)) rest hrest
        have hobs : watch.map (observe (kindOf set) db') = watch.map (fun k => Res.vals (σ' k)) := by
          apply List.map_congr_left
          intro w hw'
          have hk := hwatch w hw'
          exact observe_spec set h2 (hG w hk) (hβ w hk).2 (by have := (hβ w hk).1; omega)
        simp only [run, h1, hobs]
        rw [← h, ← ih]

end Hio.Store
