import HioModel.Store.Plain
import HioModel.Store.Refine
import HioModel.Store.Reach
/-! # Store lemmas 13: getItemIter / getFullItemIter / trim / cntAll against the dictionary -/
set_option linter.unusedSimpArgs false
namespace Hio.Store

theorem startsWith_iff (top k : Bytes) : startsWith top k = true ↔ top <+: k := by
  induction top generalizing k with
  | nil => simp [startsWith]
  | cons a as ih =>
    cases k with
    | nil => simp [startsWith]
    | cons b bs => simp [startsWith, ih, List.cons_prefix_cons]

theorem lexLt_prefix_ge {top k : Bytes} (h : top <+: k) : lexLt k top = false := by
  obtain ⟨r, rfl⟩ := h
  have := lexLt_append_left top r []
  rw [List.append_nil] at this; rw [this, lexLt_nil_right]

theorem mem_takeWhile_of_all_before {p : Entry → Bool} {l : Db} (hs : Sorted l) {e : Entry} (he : e ∈ l) (hp : p e = true)
    (hall : ∀ x ∈ l, lexLt x.1 e.1 = true → p x = true) : e ∈ l.takeWhile p := by
  induction l with
  | nil => cases he
  | cons y ys ih =>
    obtain ⟨hy, hys⟩ := sorted_cons.mp hs
    rw [List.takeWhile_cons]
    rcases List.mem_cons.mp he with rfl | he'
    · rw [if_pos hp]; exact List.mem_cons_self ..
    · rw [if_pos (hall y (List.mem_cons_self ..) (hy e he'))]
      exact List.mem_cons_of_mem _ (ih hys he' (fun x hx => hall x (List.mem_cons_of_mem _ hx)))

/-- a branch of the key space is an interval of the sorted sub-db: the cursor walk sees exactly the keys with that prefix -/
theorem topItems_eq_filter {db : Db} (hs : Sorted db) (top : Bytes) :
    topItems db top = db.filter (fun e => startsWith top e.1) := by
  have hsl := sorted_setRange hs top
  apply sorted_ext (hsl.sublist (List.takeWhile_sublist _)) (hs.filter _)
  intro e
  simp only [topItems, List.mem_filter]
  constructor
  · intro h
    exact ⟨(setRange_sublist db top).subset ((List.takeWhile_sublist _).subset h), mem_takeWhile_imp' h⟩
  · rintro ⟨he, hp⟩
    have hpre := (startsWith_iff top e.1).mp hp
    have hel : e ∈ setRange db top := (mem_setRange hs top e).mpr ⟨he, lexLt_prefix_ge hpre⟩
    apply mem_takeWhile_of_all_before hsl hel hp
    intro x hx hlt
    have hx' := (mem_setRange hs top x).mp hx
    obtain ⟨r, hr⟩ := hpre
    have h1 : lexLt x.1 (top ++ []) = false := by rw [List.append_nil]; exact hx'.2
    have h2 : lexLt x.1 (top ++ r) = true := by rw [hr]; exact hlt
    obtain ⟨r', hr'⟩ := prefix_of_between h1 h2
    exact (startsWith_iff top x.1).mpr ⟨r', hr'.symm⟩

theorem mem_eraseKeys {db : Db} (hs : Sorted db) (es : Db) (e : Entry) :
    e ∈ eraseKeys db es ↔ e ∈ db ∧ ∀ x ∈ es, e.1 ≠ x.1 := by
  induction es generalizing db with
  | nil => simp [eraseKeys]
  | cons y ys ih =>
    simp only [eraseKeys, ih (sorted_erase hs _), mem_erase hs, List.mem_cons, forall_eq_or_imp]
    constructor
    · rintro ⟨⟨h1, h2⟩, h3⟩; exact ⟨h1, h2, h3⟩
    · rintro ⟨h1, h2, h3⟩; exact ⟨⟨h1, h2⟩, h3⟩

theorem sorted_eraseKeys {db : Db} (hs : Sorted db) (es : Db) : Sorted (eraseKeys db es) := hs.sublist (eraseKeys_sublist db es)

theorem mem_remTop {db : Db} (hs : Sorted db) (top : Bytes) (e : Entry) :
    e ∈ (remTop db top).1 ↔ e ∈ db ∧ ¬ top <+: e.1 := by
  simp only [remTop, mem_eraseKeys hs, topItems_eq_filter hs]
  constructor
  · rintro ⟨h1, h2⟩
    refine ⟨h1, fun hp => ?_⟩
    exact h2 e (List.mem_filter.mpr ⟨h1, (startsWith_iff _ _).mpr hp⟩) rfl
  · rintro ⟨h1, h2⟩
    refine ⟨h1, fun x hx heq => ?_⟩
    have := (startsWith_iff _ _).mp (List.mem_filter.mp hx).2
    rw [← heq] at this; exact h2 this

/-! ## plain Suber -/

/-- getItemIter(top) / getFullItemIter(top) of the plain Suber: exactly the dictionary's items under that prefix, each
key once (the list is strictly ascending) -/
theorem plain_itemsTop_spec {db : Db} {σ : PSt} (hr : PRel db σ) (top : Bytes) :
    ∃ l, step .plain db (.itemsTop top) = (db, .pairs l) ∧ step .plain db (.fullItems top) = (db, .pairs l) ∧ Sorted l ∧
      ∀ k v, (k, v) ∈ l ↔ σ k = some v ∧ top <+: k := by
  refine ⟨topItems db top, rfl, rfl, ?_, ?_⟩
  · rw [topItems_eq_filter hr.sorted]; exact hr.sorted.filter _
  · intro k v
    rw [topItems_eq_filter hr.sorted, List.mem_filter, ← hr.abs, lookup_eq_some hr.sorted, startsWith_iff]

theorem plain_items_spec {db : Db} {σ : PSt} (hr : PRel db σ) :
    step .plain db .items = (db, .pairs db) ∧ Sorted db ∧ ∀ k v, (k, v) ∈ db ↔ σ k = some v :=
  ⟨rfl, hr.sorted, fun k v => by rw [← hr.abs, lookup_eq_some hr.sorted]⟩

/-- cntAll of the plain Suber = number of keys of the dictionary -/
theorem plain_cntAll_spec {db : Db} {σ : PSt} (hr : PRel db σ) :
    ∃ ks : List Bytes, ks.Nodup ∧ (∀ k, k ∈ ks ↔ (σ k).isSome = true) ∧ step .plain db .cntAll = (db, .nat ks.length) := by
  refine ⟨db.map (·.1), ?_, ?_, by simp [step]⟩
  · have := hr.sorted
    unfold Sorted at this
    rw [List.nodup_iff_pairwise_ne, List.pairwise_map]
    exact this.imp (fun h => lexLt_ne h)
  · intro k
    rw [← hr.abs, lookup_isSome, List.mem_map]

/-- trim(top) of the plain Suber deletes exactly the keys with that prefix -/
theorem plain_trim_spec {db : Db} {σ : PSt} (hr : PRel db σ) (top : Bytes) :
    ∃ db' b, step .plain db (.trim top) = (db', .bool b) ∧ PRel db' (fun k => if top <+: k then none else σ k) ∧
      (b = true ↔ ∃ k, top <+: k ∧ (σ k).isSome = true) := by
  have hs := hr.sorted
  have hs' : Sorted (remTop db top).1 := sorted_eraseKeys hs _
  refine ⟨(remTop db top).1, (remTop db top).2, rfl, ⟨hs', ?_⟩, ?_⟩
  · intro k
    split
    · rename_i hp
      rw [lookup_eq_none]; intro e he heq
      exact ((mem_remTop hs top e).mp he).2 (heq ▸ hp)
    · rename_i hp
      rw [← hr.abs]
      cases hl : lookup db k with
      | none =>
        rw [lookup_eq_none] at hl ⊢
        intro e he; exact hl e ((mem_remTop hs top e).mp he).1
      | some v =>
        rw [lookup_eq_some hs] at hl
        rw [lookup_eq_some hs']
        exact (mem_remTop hs top _).mpr ⟨hl, hp⟩
  · simp only [remTop, topItems_eq_filter hs, Bool.not_eq_true', List.isEmpty_eq_false_iff_exists_mem, List.mem_filter,
      startsWith_iff]
    constructor
    · rintro ⟨e, he, hp⟩
      exact ⟨e.1, hp, by rw [← hr.abs, lookup_isSome]; exact ⟨e, he, rfl⟩⟩
    · rintro ⟨k, hp, hsome⟩
      rw [← hr.abs, lookup_isSome] at hsome
      obtain ⟨e, he, rfl⟩ := hsome
      exact ⟨e, he, hp⟩

/-! ## IoSuber / IoSetSuber: the whole sub-db (no guard on the key set needed) -/

def ckeyOf (e : Entry) : Bytes := match unsuffix e.1 with | some (ck, _) => ck | none => []

theorem ioItems_eq {l : Db} (hwf : ∀ e ∈ l, ∃ k' i, i < 16 ^ W ∧ e.1 = suffix k' i) :
    ioItems l = .ok (l.map (fun e => (ckeyOf e, e.2))) := by
  induction l with
  | nil => rfl
  | cons x xs ih =>
    obtain ⟨k', i, hi, hxk⟩ := hwf x (List.mem_cons_self ..)
    have hun : unsuffix x.1 = some (k', i) := by rw [hxk]; exact unsuffix_suffix k' hi
    simp [ioItems, hun, ih (fun e he => hwf e (List.mem_cons_of_mem _ he)), ckeyOf]

theorem ckeyOf_eq_iff {db : Db} (hinv : Inv db) {e : Entry} (he : e ∈ db) (k : Bytes) : ckeyOf e = k ↔ ckeyIs k e = true := by
  obtain ⟨k', i, hi, hxk⟩ := hinv.wf e he
  simp [ckeyOf, ckeyIs, hxk, unsuffix_suffix k' hi]

/-- getItemIter() of the whole io sub-db: for every key, the items carrying that key are, in order, the dictionary's
list at that key (and nothing else is there) — holds for EVERY reachable sub-db, also under F39 -/
theorem io_items_spec {kind : Kind} (hkind : kind ≠ .plain) {db : Db} (hinv : Inv db) :
    ∃ l, step kind db .items = (db, .pairs l) ∧ step kind db (.itemsTop []) = (db, .pairs l) ∧
      step kind db .cntAll = (db, .nat l.length) ∧
      ∀ k, (l.filter (fun p => p.1 == k)).map (·.2) = absIo db k := by
  have hall : topItems db [] = db := by
    rw [topItems_eq_filter hinv.sorted, List.filter_eq_self]; intro a _; rfl
  refine ⟨db.map (fun e => (ckeyOf e, e.2)), ?_, ?_, ?_, ?_⟩
  · cases kind <;> first | exact absurd rfl hkind | simp [step, liftRo, ioItems_eq hinv.wf]
  · cases kind <;> first | exact absurd rfl hkind | simp [step, liftRo, hall, ioItems_eq hinv.wf]
  · cases kind <;> first | exact absurd rfl hkind | simp [step]
  · intro k
    simp only [absIo, entsOf, List.filter_map, List.map_map]
    congr 1
    apply List.filter_congr
    intro e he
    simp only [Function.comp]
    rw [Bool.eq_iff_iff, beq_iff_eq, ckeyOf_eq_iff hinv he k]

/-- trim() of the whole io sub-db empties every key -/
theorem io_trim_all_spec {kind : Kind} {db : Db} (hinv : Inv db) :
    step kind db (.trim []) = ([], .bool (!db.isEmpty)) := by
  have hs := hinv.sorted
  have hall : topItems db [] = db := by
    rw [topItems_eq_filter hs, List.filter_eq_self]; intro a _; rfl
  have hnil : (remTop db []).1 = [] := by
    rw [List.eq_nil_iff_forall_not_mem]
    intro e he
    exact ((mem_remTop hs [] e).mp he).2 List.nil_prefix
  simp only [step, hnil]
  simp [remTop, hall]

end Hio.Store
