import HioModel.Store.Io
/-! # Store lemmas 4: what every IoSuber / IoSetSuber method does to the abstraction, under the guard -/
set_option linter.unusedSimpArgs false
namespace Hio.Store

def IonsBelow (n : Nat) (db : Db) : Prop := ∀ e ∈ db, ∀ k i, i < 16 ^ W → e.1 = suffix k i → i < n
def KIonsBelow (k : Bytes) (n : Nat) (db : Db) : Prop := ∀ e ∈ db, ∀ i, i < 16 ^ W → e.1 = suffix k i → i < n

theorem ckeyIs_unique {k k' : Bytes} {e : Entry} (h : ckeyIs k e = true) (h' : ckeyIs k' e = true) : k = k' := by
  unfold ckeyIs at h h'
  cases hu : unsuffix e.1 with
  | none => rw [hu] at h; cases h
  | some p =>
    obtain ⟨ck, ci⟩ := p
    rw [hu] at h h'
    simp only [beq_iff_eq] at h h'
    rw [← h, ← h']

/-- FRAME: a change that only touches entries of `k` leaves every other key's entries alone -/
theorem frame_of_mem {db db' : Db} (hs : Sorted db) (hs' : Sorted db') {k : Bytes}
    (h : ∀ e, ckeyIs k e = false → (e ∈ db' ↔ e ∈ db)) {k' : Bytes} (hkk : k' ≠ k) :
    entsOf db' k' = entsOf db k' := by
  apply sorted_ext (hs'.filter _) (hs.filter _)
  intro e
  simp only [entsOf, List.mem_filter]
  constructor
  · rintro ⟨h1, h2⟩
    have : ckeyIs k e = false := by
      cases hc : ckeyIs k e with
      | false => rfl
      | true => exact absurd (ckeyIs_unique h2 hc) hkk
    exact ⟨(h e this).mp h1, h2⟩
  · rintro ⟨h1, h2⟩
    have : ckeyIs k e = false := by
      cases hc : ckeyIs k e with
      | false => rfl
      | true => exact absurd (ckeyIs_unique h2 hc) hkk
    exact ⟨(h e this).mpr h1, h2⟩

/-- what an operation on key `k` guarantees -/
structure Post (k : Bytes) (db db' : Db) (ents : Db) : Prop where
  inv : Inv db'
  atk : entsOf db' k = ents
  frame : ∀ k', k' ≠ k → entsOf db' k' = entsOf db k'
  keys : ∀ e ∈ db', e ∈ db ∨ ckeyIs k e = true

theorem Post.absIo_other {k : Bytes} {db db' ents : Db} (h : Post k db db' ents) {k' : Bytes} (hk : k' ≠ k) :
    absIo db' k' = absIo db k' := by simp [absIo, h.frame k' hk]

theorem Post.absIo_at {k : Bytes} {db db' ents : Db} (h : Post k db db' ents) : absIo db' k = ents.map (·.2) := by
  simp [absIo, h.atk]

theorem post_refl {k : Bytes} {db : Db} (hinv : Inv db) : Post k db db (entsOf db k) :=
  ⟨hinv, rfl, fun _ _ => rfl, fun _ he => Or.inl he⟩

/-! ## reads -/

theorem map_val_toHit (l : Db) : (l.map toHit).map (·.val) = l.map (·.2) := by
  induction l with
  | nil => rfl
  | cons x xs ih => simp [toHit]

theorem getIoVals_spec {db : Db} (hinv : Inv db) {k : Bytes} (hnc : NoChild k db) :
    getIoVals db k = .ok (absIo db k) := by
  simp only [getIoVals, scanKey_eq hinv hnc, map_val_toHit]; rfl

theorem cntIoVals_spec {db : Db} (hinv : Inv db) {k : Bytes} (hnc : NoChild k db) :
    cntIoVals db k = .ok (absIo db k).length := by
  simp [cntIoVals, getIoVals_spec hinv hnc]

theorem getIoValFirst_spec {db : Db} (hinv : Inv db) {k : Bytes} (hnc : NoChild k db) :
    getIoValFirst db k = .ok (absIo db k).head? := by
  have hh := head_setRange hinv hnc
  unfold getIoValFirst
  cases hl : setRange db (suffix k 0) with
  | nil => rw [hl] at hh; simp [absIo, hh]
  | cons x xs =>
    rw [hl] at hh
    have hx : x ∈ db := (setRange_sublist db _).subset (by rw [hl]; exact List.mem_cons_self ..)
    obtain ⟨k', i, hi, hxk⟩ := hinv.wf x hx
    have hun : unsuffix x.1 = some (k', i) := by rw [hxk]; exact unsuffix_suffix k' hi
    simp only [hun]
    simp only at hh
    by_cases hkk : k' = k
    · have hck : ckeyIs k x = true := by simp [ckeyIs, hun, hkk]
      rw [if_pos hck] at hh
      obtain ⟨t, ht⟩ := hh
      simp [hkk, absIo, ht]
    · have hck : ¬ ckeyIs k x = true := by simp [ckeyIs, hun, hkk]
      rw [if_neg hck] at hh
      simp [hkk, absIo, hh]

/-! ## erase-based writes -/

theorem inv_erase {db : Db} (hinv : Inv db) (key : Bytes) : Inv (erase db key) := hinv.sub (erase_sublist db key)

theorem entsOf_erase {db : Db} (hs : Sorted db) (key k : Bytes) :
    entsOf (erase db key) k = (entsOf db k).filter (fun e => e.1 != key) := by
  apply sorted_ext ((sorted_erase hs key).filter _) ((hs.filter _).filter _)
  intro e
  simp only [entsOf, List.mem_filter, mem_erase hs, bne_iff_ne, ne_eq, decide_not, Bool.not_eq_eq_eq_not, Bool.not_true,
    decide_eq_false_iff_not]
  constructor
  · rintro ⟨⟨h1, h2⟩, h3⟩; exact ⟨⟨h1, h3⟩, h2⟩
  · rintro ⟨⟨h1, h3⟩, h2⟩; exact ⟨⟨h1, h2⟩, h3⟩

/-- removing the head entry of the block of `k` -/
theorem post_erase_head {db : Db} (hinv : Inv db) {k : Bytes} {x : Entry} {t : Db} (hE : entsOf db k = x :: t) :
    Post k db (erase db x.1) t := by
  have hs := hinv.sorted
  have hxE : x ∈ entsOf db k := by rw [hE]; exact List.mem_cons_self ..
  have hx := mem_entsOf.mp hxE
  refine ⟨inv_erase hinv _, ?_, ?_, ?_⟩
  · rw [entsOf_erase hs, hE]
    have hsE : Sorted (x :: t) := hE ▸ hs.filter _
    simp only [List.filter_cons, bne_self_eq_false, Bool.false_eq_true, ↓reduceIte]
    rw [List.filter_eq_self]
    intro e he
    have := (sorted_cons.mp hsE).1 e he
    simp only [bne_iff_ne, ne_eq]
    intro heq; rw [heq, lexLt_irrefl] at this; cases this
  · intro k' hkk
    apply frame_of_mem hs (sorted_erase hs _) _ hkk
    intro e hce
    rw [mem_erase hs]
    constructor
    · exact fun h => h.1
    · intro h
      refine ⟨h, fun heq => ?_⟩
      have := hs.key_inj h hx.1 heq
      rw [this, hx.2] at hce; cases hce
  · intro e he; exact Or.inl ((erase_sublist db _).subset he)

theorem popIoVal_spec {db : Db} (hinv : Inv db) {k : Bytes} (hnc : NoChild k db) :
    ∃ db', popIoVal db k = .ok (db', (absIo db k).head?) ∧ Post k db db' (entsOf db k).tail := by
  have hh := head_setRange hinv hnc
  unfold popIoVal
  cases hl : setRange db (suffix k 0) with
  | nil =>
    rw [hl] at hh; simp only at hh
    refine ⟨db, by simp [absIo, hh], ?_⟩
    have := post_refl (k := k) hinv; rwa [hh] at this ⊢
  | cons x xs =>
    rw [hl] at hh
    have hx : x ∈ db := (setRange_sublist db _).subset (by rw [hl]; exact List.mem_cons_self ..)
    obtain ⟨k', i, hi, hxk⟩ := hinv.wf x hx
    have hun : unsuffix x.1 = some (k', i) := by rw [hxk]; exact unsuffix_suffix k' hi
    simp only [hun]
    simp only at hh
    by_cases hkk : k' = k
    · have hck : ckeyIs k x = true := by simp [ckeyIs, hun, hkk]
      rw [if_pos hck] at hh
      obtain ⟨t, ht⟩ := hh
      refine ⟨erase db x.1, by simp [hkk, absIo, ht], ?_⟩
      rw [ht]; exact post_erase_head hinv ht
    · have hck : ¬ ckeyIs k x = true := by simp [ckeyIs, hun, hkk]
      rw [if_neg hck] at hh
      refine ⟨db, by simp [hkk, absIo, hh], ?_⟩
      have := post_refl (k := k) hinv; rwa [hh] at this ⊢

theorem sorted_eraseAll {db : Db} (hs : Sorted db) (hits : List Hit) : Sorted (eraseAll db hits) := by
  induction hits generalizing db with
  | nil => exact hs
  | cons h hs' ih => exact ih (sorted_erase hs _)

theorem mem_eraseAll {db : Db} (hs : Sorted db) (hits : List Hit) (e : Entry) :
    e ∈ eraseAll db hits ↔ e ∈ db ∧ ∀ h ∈ hits, e.1 ≠ h.iokey := by
  induction hits generalizing db with
  | nil => simp [eraseAll]
  | cons h hs' ih =>
    simp only [eraseAll, ih (sorted_erase hs _), mem_erase hs, List.mem_cons, forall_eq_or_imp]
    constructor
    · rintro ⟨⟨h1, h2⟩, h3⟩; exact ⟨h1, h2, h3⟩
    · rintro ⟨h1, h2, h3⟩; exact ⟨⟨h1, h2⟩, h3⟩

theorem eraseAll_sublist (db : Db) (hits : List Hit) : (eraseAll db hits).Sublist db := by
  induction hits generalizing db with
  | nil => exact List.Sublist.refl _
  | cons h hs' ih => exact (ih _).trans (erase_sublist db _)

theorem remIoVals_spec {db : Db} (hinv : Inv db) {k : Bytes} (hnc : NoChild k db) :
    ∃ db', remIoVals db k = .ok (db', !(absIo db k).isEmpty) ∧ Post k db db' [] := by
  have hs := hinv.sorted
  refine ⟨eraseAll db ((entsOf db k).map toHit), ?_, ?_⟩
  · simp [remIoVals, scanKey_eq hinv hnc, absIo]
  · have hmem : ∀ e, e ∈ eraseAll db ((entsOf db k).map toHit) ↔ e ∈ db ∧ ckeyIs k e = false := by
      intro e
      rw [mem_eraseAll hs]
      constructor
      · rintro ⟨h1, h2⟩
        refine ⟨h1, ?_⟩
        cases hc : ckeyIs k e with
        | false => rfl
        | true =>
          have := h2 (toHit e) (List.mem_map.mpr ⟨e, mem_entsOf.mpr ⟨h1, hc⟩, rfl⟩)
          simp [toHit] at this
      · rintro ⟨h1, h2⟩
        refine ⟨h1, ?_⟩
        intro h hh
        obtain ⟨x, hx, rfl⟩ := List.mem_map.mp hh
        intro heq
        have := hs.key_inj h1 (mem_entsOf.mp hx).1 (by simpa [toHit] using heq)
        rw [this, (mem_entsOf.mp hx).2] at h2; cases h2
    refine ⟨hinv.sub (eraseAll_sublist _ _), ?_, ?_, ?_⟩
    · rw [entsOf, List.filter_eq_nil_iff]
      intro e he; rw [(hmem e).mp he |>.2]; simp
    · intro k' hkk
      apply frame_of_mem hs (sorted_eraseAll hs _) _ hkk
      intro e hce; rw [hmem]; simp [hce]
    · intro e he; exact Or.inl ((hmem e).mp he).1

/-! ## ordinals -/

theorem nextIon_aux {k : Bytes} : ∀ (E : Db), Sorted E → (∀ e ∈ E, ∃ i, i < 16 ^ W ∧ e.1 = suffix k i) →
    (∀ e ∈ E, ∀ i, i < 16 ^ W → e.1 = suffix k i → i < nextIon (E.map toHit)) ∧
    (E = [] ∧ nextIon (E.map toHit) = 0 ∨ ∃ e ∈ E, ∃ i, i < 16 ^ W ∧ e.1 = suffix k i ∧ nextIon (E.map toHit) = i + 1)
  | [], _, _ => ⟨by simp, Or.inl ⟨rfl, rfl⟩⟩
  | [x], _, hk => by
    obtain ⟨i, hi, hx⟩ := hk x (List.mem_cons_self ..)
    have hion : (toHit x).ion = i := by simp [toHit, hx, unsuffix_suffix k hi]
    refine ⟨?_, Or.inr ⟨x, List.mem_cons_self .., i, hi, hx, by simp [nextIon, hion]⟩⟩
    intro e he j hj hej
    simp only [List.mem_singleton] at he; subst he
    have := (suffix_inj hj hi (hej.symm.trans hx)).2
    simp [nextIon, hion]; omega
  | x :: y :: t, hs, hk => by
    have ih := nextIon_aux (y :: t) hs.tail (fun e he => hk e (List.mem_cons_of_mem _ he))
    have hn : nextIon ((x :: y :: t).map toHit) = nextIon ((y :: t).map toHit) := by simp [nextIon]
    rw [hn]
    refine ⟨?_, ?_⟩
    · intro e he j hj hej
      rcases List.mem_cons.mp he with rfl | he'
      · obtain ⟨iy, hiy, hy⟩ := hk y (by simp)
        have hlt := (sorted_cons.mp hs).1 y (List.mem_cons_self ..)
        rw [hej, hy] at hlt
        have := (suffix_lt_iff k hj hiy).mp hlt
        have := ih.1 y (List.mem_cons_self ..) iy hiy hy
        omega
      · exact ih.1 e he' j hj hej
    · rcases ih.2 with ⟨h, _⟩ | ⟨e, he, i, hi, hei, hni⟩
      · cases h
      · exact Or.inr ⟨e, List.mem_cons_of_mem _ he, i, hi, hei, hni⟩

theorem entsOf_keys {db : Db} (hinv : Inv db) (k : Bytes) : ∀ e ∈ entsOf db k, ∃ i, i < 16 ^ W ∧ e.1 = suffix k i := by
  intro e he
  exact (ckeyIs_iff hinv (mem_entsOf.mp he).1 k).mp (mem_entsOf.mp he).2

theorem nextIon_above {db : Db} (hinv : Inv db) (k : Bytes) : KIonsBelow k (nextIon ((entsOf db k).map toHit)) db := by
  intro e he i hi hei
  have hE : e ∈ entsOf db k := mem_entsOf.mpr ⟨he, (ckeyIs_iff hinv he k).mpr ⟨i, hi, hei⟩⟩
  exact (nextIon_aux (entsOf db k) (hinv.sorted.filter _) (entsOf_keys hinv k)).1 e hE i hi hei

theorem nextIon_le {db : Db} (hinv : Inv db) {n : Nat} (hb : IonsBelow n db) (k : Bytes) :
    nextIon ((entsOf db k).map toHit) ≤ n := by
  rcases (nextIon_aux (entsOf db k) (hinv.sorted.filter _) (entsOf_keys hinv k)).2 with ⟨_, h⟩ | ⟨e, he, i, hi, hei, hni⟩
  · omega
  · have := hb e (mem_entsOf.mp he).1 k i hi hei; omega

/-! ## put-based writes -/

def mkEnts (k : Bytes) : Nat → List Bytes → Db
  | _, [] => []
  | ion, v :: vs => (suffix k ion, v) :: mkEnts k (ion + 1) vs

theorem mkEnts_vals (k : Bytes) (ion : Nat) (vs : List Bytes) : (mkEnts k ion vs).map (·.2) = vs := by
  induction vs generalizing ion with
  | nil => rfl
  | cons v vs ih => simp [mkEnts, ih]

theorem mem_mkEnts {k : Bytes} {ion : Nat} {vs : List Bytes} {e : Entry} (he : e ∈ mkEnts k ion vs) :
    ∃ i, ion ≤ i ∧ i < ion + vs.length ∧ e.1 = suffix k i := by
  induction vs generalizing ion with
  | nil => simp [mkEnts] at he
  | cons v vs ih =>
    simp only [mkEnts, List.mem_cons] at he
    rcases he with rfl | he
    · exact ⟨ion, Nat.le_refl _, by simp, rfl⟩
    · obtain ⟨i, h1, h2, h3⟩ := ih he
      exact ⟨i, by omega, by simp; omega, h3⟩

theorem validKey_suffix (k : Bytes) (i j : Nat) : validKey (suffix k i) = validKey (suffix k j) := by
  simp [validKey, suffix_length]

theorem entsOf_insert_same {db : Db} (hinv : Inv db) {k : Bytes} {ion : Nat} (hion : ion < 16 ^ W)
    (hb : KIonsBelow k ion db) (v : Bytes) :
    entsOf (insert db (suffix k ion) v) k = entsOf db k ++ [(suffix k ion, v)] := by
  have hs := hinv.sorted
  apply sorted_ext ((sorted_insert hs _ _).filter _)
  · unfold Sorted
    rw [List.pairwise_append]
    refine ⟨hs.filter _, by simp, ?_⟩
    intro e he f hf
    simp only [List.mem_singleton] at hf; subst hf
    obtain ⟨i, hi, hei⟩ := entsOf_keys hinv k e he
    have := hb e (mem_entsOf.mp he).1 i hi hei
    rw [hei]; exact (suffix_lt_iff k hi hion).mpr this
  · intro e
    simp only [entsOf, List.mem_filter, mem_insert hs, List.mem_append, List.mem_singleton]
    constructor
    · rintro ⟨h1 | ⟨h1, _⟩, h2⟩
      · exact Or.inr h1
      · exact Or.inl ⟨h1, h2⟩
    · rintro (⟨h1, h2⟩ | h1)
      · refine ⟨Or.inr ⟨h1, fun heq => ?_⟩, h2⟩
        have := hb e h1 ion hion heq; omega
      · subst h1
        exact ⟨Or.inl rfl, by rw [ckeyIs_suffix k k hion]; simp⟩

theorem inv_insert {db : Db} (hinv : Inv db) (k : Bytes) {ion : Nat} (hion : ion < 16 ^ W) (v : Bytes) :
    Inv (insert db (suffix k ion) v) := by
  refine ⟨sorted_insert hinv.sorted _ _, ?_⟩
  intro e he
  rcases (mem_insert hinv.sorted _ _ e).mp he with rfl | ⟨h, _⟩
  · exact ⟨k, ion, hion, rfl⟩
  · exact hinv.wf e h

theorem putMany_spec {k : Bytes} (hk : validKey (suffix k 0) = true) (ow orr : Bool) :
    ∀ (vals : List Bytes) (db : Db) (ion : Nat) (r0 : Bool), Inv db → KIonsBelow k ion db → ion + vals.length ≤ 16 ^ W →
    ∃ db', putMany k ow orr db ion vals r0 = .ok (db', if vals = [] then r0 else true) ∧ Inv db' ∧
      entsOf db' k = entsOf db k ++ mkEnts k ion vals ∧
      (∀ e, e ∈ db' ↔ e ∈ db ∨ e ∈ mkEnts k ion vals)
  | [], db, ion, r0, hinv, _, _ => ⟨db, by simp [putMany], hinv, by simp [mkEnts], by simp [mkEnts]⟩
  | v :: vs, db, ion, r0, hinv, hb, hlen => by
    have hion : ion < 16 ^ W := by simp at hlen; omega
    have hnone : lookup db (suffix k ion) = none := by
      rw [lookup_eq_none]; intro e he heq
      have := hb e he ion hion heq; omega
    have hvk : validKey (suffix k ion) = true := by rw [validKey_suffix k ion 0]; exact hk
    have hput : lmdbPut db (suffix k ion) v ow = .ok (insert db (suffix k ion) v, true) := by
      simp [lmdbPut, hvk, hnone]
    have hinv1 := inv_insert hinv k hion v
    have hb1 : KIonsBelow k (ion + 1) (insert db (suffix k ion) v) := by
      intro e he i hi hei
      rcases (mem_insert hinv.sorted _ _ e).mp he with rfl | ⟨h, _⟩
      · have := (suffix_inj hi hion hei.symm).2; omega
      · have := hb e h i hi hei; omega
    obtain ⟨db', h1, h2, h3, h4⟩ := putMany_spec hk ow orr vs (insert db (suffix k ion) v) (ion + 1)
      (if orr then true || r0 else true) hinv1 hb1 (by simp at hlen; omega)
    refine ⟨db', ?_, h2, ?_, ?_⟩
    · have hn : ¬ ion ≥ 16 ^ W := by omega
      simp only [putMany, hn, ↓reduceIte, hput, h1]
      cases orr <;> simp
    · rw [h3, entsOf_insert_same hinv hion hb v]; simp [mkEnts]
    · intro e
      rw [h4, mem_insert hinv.sorted]
      simp only [mkEnts, List.mem_cons]
      constructor
      · rintro ((h | ⟨h, _⟩) | h)
        · exact Or.inr (Or.inl h)
        · exact Or.inl h
        · exact Or.inr (Or.inr h)
      · rintro (h | h | h)
        · refine Or.inl (Or.inr ⟨h, fun heq => ?_⟩)
          have := hb e h ion hion heq; omega
        · exact Or.inl (Or.inl h)
        · exact Or.inr h

/-- a successful run of puts at fresh ordinals is an append at `k` and nothing else -/
theorem post_of_putMany {k : Bytes} {db db' : Db} (hinv : Inv db) (hinv' : Inv db') {ion : Nat} {vals : List Bytes}
    (hlen : ion + vals.length ≤ 16 ^ W)
    (hat : entsOf db' k = entsOf db k ++ mkEnts k ion vals)
    (hmem : ∀ e, e ∈ db' ↔ e ∈ db ∨ e ∈ mkEnts k ion vals) : Post k db db' (entsOf db k ++ mkEnts k ion vals) := by
  have hnew : ∀ e ∈ mkEnts k ion vals, ckeyIs k e = true := by
    intro e he
    obtain ⟨i, _, h2, h3⟩ := mem_mkEnts he
    have : ckeyIs k (suffix k i, e.2) = true := by rw [ckeyIs_suffix k k (by omega)]; simp
    rw [← h3] at this; exact this
  refine ⟨hinv', hat, ?_, ?_⟩
  · intro k' hkk
    apply frame_of_mem hinv.sorted hinv'.sorted _ hkk
    intro e hce
    rw [hmem]
    constructor
    · rintro (h | h)
      · exact h
      · rw [hnew e h] at hce; cases hce
    · exact Or.inl
  · intro e he
    rcases (hmem e).mp he with h | h
    · exact Or.inl h
    · exact Or.inr (hnew e h)

theorem ionsBelow_of_putMany {k : Bytes} {db db' : Db} {n ion : Nat} {vals : List Bytes} (hb : IonsBelow n db) (hion : ion ≤ n)
    (hlen : n + vals.length ≤ 16 ^ W)
    (hmem : ∀ e, e ∈ db' ↔ e ∈ db ∨ e ∈ mkEnts k ion vals) : IonsBelow (n + vals.length) db' := by
  intro e he k' i hi hei
  rcases (hmem e).mp he with h | h
  · have := hb e h k' i hi hei; omega
  · obtain ⟨j, _, h2, h3⟩ := mem_mkEnts h
    have := (suffix_inj hi (by omega) (hei.symm.trans h3)).2
    omega

theorem ionsBelow_of_post_sub {db db' : Db} {n : Nat} (hb : IonsBelow n db) (hsub : ∀ e ∈ db', e ∈ db) : IonsBelow n db' :=
  fun e he => hb e (hsub e he)

end Hio.Store
