import HioModel.Store.IoOps
/-! # Store lemmas 9: every reachable io sub-db is well-formed (NO guard on the key set) -/
set_option linter.unusedSimpArgs false
namespace Hio.Store

theorem scan_ok {k : Bytes} {l : Db} (hwf : ∀ e ∈ l, ∃ k' i, i < 16 ^ W ∧ e.1 = suffix k' i) : ∃ hs, scan k l = .ok hs := by
  induction l with
  | nil => exact ⟨[], rfl⟩
  | cons x xs ih =>
    obtain ⟨k', i, hi, hxk⟩ := hwf x (List.mem_cons_self ..)
    have hun : unsuffix x.1 = some (k', i) := by rw [hxk]; exact unsuffix_suffix k' hi
    obtain ⟨hs, h⟩ := ih (fun e he => hwf e (List.mem_cons_of_mem _ he))
    by_cases hkk : k' = k
    · exact ⟨⟨x.1, i, x.2⟩ :: hs, by simp [scan, hun, hkk, h]⟩
    · exact ⟨[], by simp [scan, hun, hkk]⟩

theorem scanKey_ok {db : Db} (hinv : Inv db) (k : Bytes) : ∃ hs, scanKey db k = .ok hs :=
  scan_ok (fun e he => hinv.wf e ((setRange_sublist db _).subset he))

theorem findVal_ok {k v : Bytes} {l : Db} (hwf : ∀ e ∈ l, ∃ k' i, i < 16 ^ W ∧ e.1 = suffix k' i) :
    ∃ r, findVal k v l = .ok r := by
  induction l with
  | nil => exact ⟨none, rfl⟩
  | cons x xs ih =>
    obtain ⟨k', i, hi, hxk⟩ := hwf x (List.mem_cons_self ..)
    have hun : unsuffix x.1 = some (k', i) := by rw [hxk]; exact unsuffix_suffix k' hi
    obtain ⟨r, h⟩ := ih (fun e he => hwf e (List.mem_cons_of_mem _ he))
    by_cases hkk : k' = k
    · by_cases hv : x.2 = v
      · exact ⟨some x.1, by simp [findVal, hun, hkk, hv]⟩
      · exact ⟨r, by simp [findVal, hun, hkk, hv, h]⟩
    · exact ⟨none, by simp [findVal, hun, hkk]⟩

theorem ioItems_ok {l : Db} (hwf : ∀ e ∈ l, ∃ k' i, i < 16 ^ W ∧ e.1 = suffix k' i) : ∃ r, ioItems l = .ok r := by
  induction l with
  | nil => exact ⟨[], rfl⟩
  | cons x xs ih =>
    obtain ⟨k', i, hi, hxk⟩ := hwf x (List.mem_cons_self ..)
    have hun : unsuffix x.1 = some (k', i) := by rw [hxk]; exact unsuffix_suffix k' hi
    obtain ⟨r, h⟩ := ih (fun e he => hwf e (List.mem_cons_of_mem _ he))
    exact ⟨(k', x.2) :: r, by simp [ioItems, hun, h]⟩

/-- a method outcome: never ValueError, and a well-formed database whenever it succeeds -/
def Good {α : Type} (x : Except Exn (Db × α)) : Prop :=
  x ≠ .error .valueError ∧ ∀ db' a, x = .ok (db', a) → Inv db'

theorem lmdbPut_cases (db : Db) (key v : Bytes) (ow : Bool) :
    lmdbPut db key v ow = .error .badValsize ∨ lmdbPut db key v ow = .ok (insert db key v, true) ∨
      lmdbPut db key v ow = .ok (db, false) := by
  unfold lmdbPut
  split
  · exact Or.inl rfl
  · split
    · split
      · exact Or.inr (Or.inl rfl)
      · exact Or.inr (Or.inr rfl)
    · exact Or.inr (Or.inl rfl)

theorem putMany_good (k : Bytes) (ow orr : Bool) : ∀ (vals : List Bytes) (db : Db) (ion : Nat) (r : Bool), Inv db →
    Good (putMany k ow orr db ion vals r)
  | [], db, ion, r, hinv => ⟨by simp [putMany], fun db' a h => by simp [putMany] at h; rw [← h.1]; exact hinv⟩
  | v :: vs, db, ion, r, hinv => by
    by_cases hge : ion ≥ 16 ^ W
    · simp only [putMany, hge, ↓reduceIte]
      exact ⟨by simp, fun _ _ h => by cases h⟩
    · have hion : ion < 16 ^ W := by omega
      rcases lmdbPut_cases db (suffix k ion) v ow with h | h | h
      · simp only [putMany, hge, ↓reduceIte, h]
        exact ⟨by simp, fun _ _ e => by cases e⟩
      · simp only [putMany, hge, ↓reduceIte, h]
        exact putMany_good k ow orr vs _ _ _ (inv_insert hinv k hion v)
      · simp only [putMany, hge, ↓reduceIte, h]
        exact putMany_good k ow orr vs _ _ _ hinv

theorem addIoVal_good {db : Db} (hinv : Inv db) (k v : Bytes) : Good (addIoVal db k v) := by
  obtain ⟨hs, h⟩ := scanKey_ok hinv k
  simp only [addIoVal, h]; exact putMany_good _ _ _ _ _ _ _ hinv

theorem putIoVals_good {db : Db} (hinv : Inv db) (k : Bytes) (vs : List Bytes) : Good (putIoVals db k vs) := by
  obtain ⟨hs, h⟩ := scanKey_ok hinv k
  simp only [putIoVals, h]; exact putMany_good _ _ _ _ _ _ _ hinv

theorem addIoSetVal_good {db : Db} (hinv : Inv db) (k v : Bytes) : Good (addIoSetVal db k v) := by
  obtain ⟨hs, h⟩ := scanKey_ok hinv k
  simp only [addIoSetVal, h]
  split
  · exact ⟨by simp, fun db' a e => by cases e; exact hinv⟩
  · exact putMany_good _ _ _ _ _ _ _ hinv

theorem putIoSetVals_good {db : Db} (hinv : Inv db) (k : Bytes) (vs : List Bytes) : Good (putIoSetVals db k vs) := by
  obtain ⟨hs, h⟩ := scanKey_ok hinv k
  simp only [putIoSetVals, h]; exact putMany_good _ _ _ _ _ _ _ hinv

theorem remIoVals_good {db : Db} (hinv : Inv db) (k : Bytes) : Good (remIoVals db k) := by
  obtain ⟨hs, h⟩ := scanKey_ok hinv k
  simp only [remIoVals, h]
  exact ⟨by simp, fun db' a e => by cases e; exact hinv.sub (eraseAll_sublist _ _)⟩

theorem popIoVal_good {db : Db} (hinv : Inv db) (k : Bytes) : Good (popIoVal db k) := by
  unfold popIoVal
  cases hl : setRange db (suffix k 0) with
  | nil => exact ⟨by simp, fun db' a e => by cases e; exact hinv⟩
  | cons x xs =>
    have hx : x ∈ db := (setRange_sublist db _).subset (by rw [hl]; exact List.mem_cons_self ..)
    obtain ⟨k', i, hi, hxk⟩ := hinv.wf x hx
    have hun : unsuffix x.1 = some (k', i) := by rw [hxk]; exact unsuffix_suffix k' hi
    simp only [hun]
    split
    · exact ⟨by simp, fun db' a e => by cases e; exact inv_erase hinv _⟩
    · exact ⟨by simp, fun db' a e => by cases e; exact hinv⟩

theorem remIoSetVal_good {db : Db} (hinv : Inv db) (k v : Bytes) : Good (remIoSetVal db k v) := by
  obtain ⟨r, h⟩ := findVal_ok (k := k) (v := v) (fun e he => hinv.wf e ((setRange_sublist db (suffix k 0)).subset he))
  simp only [remIoSetVal, h]
  cases r with
  | none => exact ⟨by simp, fun db' a e => by cases e; exact hinv⟩
  | some key => exact ⟨by simp, fun db' a e => by cases e; exact inv_erase hinv _⟩

theorem liftDb_good {α : Type} {db : Db} (hinv : Inv db) (f : α → Res) (hf : ∀ a, f a ≠ .raise .valueError)
    {x : Except Exn (Db × α)} (hx : Good x) : Inv (liftDb db f x).1 ∧ (liftDb db f x).2 ≠ .raise .valueError := by
  cases x with
  | error e => exact ⟨hinv, by simp only [liftDb]; intro h; cases h; exact hx.1 rfl⟩
  | ok p => obtain ⟨db', a⟩ := p; exact ⟨hx.2 db' a rfl, hf a⟩

theorem pin_good {db : Db} (hinv : Inv db) (k : Bytes) (orr : Bool) (vs : List Bytes) {x : Db × Except Exn Bool}
    (hx : x = (match remIoVals db k with
      | .error e => (db, .error e)
      | .ok (db1, _) => match putMany k true orr db1 0 vs false with
        | .error e => (db1, .error e)
        | .ok (db2, r) => (db2, .ok r))) :
    Inv (liftPin x).1 ∧ (liftPin x).2 ≠ .raise .valueError := by
  have hr := remIoVals_good hinv k
  cases h1 : remIoVals db k with
  | error e =>
    rw [h1] at hx; simp only at hx; subst hx
    exact ⟨hinv, by simp only [liftPin]; intro h; cases h; exact hr.1 h1⟩
  | ok p =>
    obtain ⟨db1, b⟩ := p
    have hinv1 := hr.2 db1 b h1
    have hp := putMany_good k true orr vs db1 0 false hinv1
    rw [h1] at hx
    simp only at hx
    cases h2 : putMany k true orr db1 0 vs false with
    | error e =>
      rw [h2] at hx; simp only at hx; subst hx
      exact ⟨hinv1, by simp only [liftPin]; intro h; cases h; exact hp.1 h2⟩
    | ok p2 =>
      obtain ⟨db2, r⟩ := p2
      rw [h2] at hx; simp only at hx; subst hx
      exact ⟨hp.2 db2 r h2, by simp [liftPin]⟩

theorem liftRo_good {α : Type} {db : Db} (hinv : Inv db) (f : α → Res) (hf : ∀ a, f a ≠ .raise .valueError) {x : Except Exn α}
    (hx : x ≠ .error .valueError) : Inv (liftRo db f x).1 ∧ (liftRo db f x).2 ≠ .raise .valueError := by
  cases x with
  | error e => exact ⟨hinv, by simp only [liftRo]; intro h; cases h; exact hx rfl⟩
  | ok a => exact ⟨hinv, hf a⟩

theorem getIoVals_ne {db : Db} (hinv : Inv db) (k : Bytes) : getIoVals db k ≠ .error .valueError := by
  obtain ⟨hs, h⟩ := scanKey_ok hinv k; simp [getIoVals, h]

theorem getIoValFirst_ne {db : Db} (hinv : Inv db) (k : Bytes) : getIoValFirst db k ≠ .error .valueError := by
  unfold getIoValFirst
  cases hl : setRange db (suffix k 0) with
  | nil => simp
  | cons x xs =>
    have hx : x ∈ db := (setRange_sublist db _).subset (by rw [hl]; exact List.mem_cons_self ..)
    obtain ⟨k', i, hi, hxk⟩ := hinv.wf x hx
    simp [hxk, unsuffix_suffix k' hi]

theorem ionOf_ok {db : Db} (hinv : Inv db) (k : Bytes) {e : Entry} (he : e ∈ db) : ∃ r, ionOf k e = .ok r := by
  obtain ⟨k', i, hi, hxk⟩ := hinv.wf e he
  exact ⟨if k' = k then some i else none, by simp [ionOf, hxk, unsuffix_suffix k' hi]⟩

theorem getIoValLast_ne {db : Db} (hinv : Inv db) (k : Bytes) : getIoValLast db k ≠ .error .valueError := by
  unfold getIoValLast
  simp only
  cases hafter : db.dropWhile (fun e => lexLt e.1 (suffix k maxSuffix)) with
  | nil =>
    simp only
    cases hlast : db.getLast? with
    | none => simp
    | some e =>
      obtain ⟨r, hr⟩ := ionOf_ok hinv k (List.mem_of_getLast? hlast)
      simp only [hr]
      cases r <;> simp
      split <;> simp
  | cons e rest =>
    have he : e ∈ db := (List.dropWhile_sublist _).subset (by rw [hafter]; exact List.mem_cons_self ..)
    obtain ⟨r, hr⟩ := ionOf_ok hinv k he
    simp only [hr]
    cases r with
    | some ci => simp only; split <;> simp
    | none =>
      simp only
      cases hb : (db.takeWhile (fun e => lexLt e.1 (suffix k maxSuffix))).getLast? with
      | none => simp
      | some e' =>
        have he' : e' ∈ db := (List.takeWhile_sublist _).subset (List.mem_of_getLast? hb)
        obtain ⟨r', hr'⟩ := ionOf_ok hinv k he'
        simp only [hr']
        cases r' <;> simp
        split <;> simp

theorem eraseKeys_sublist (db : Db) (es : Db) : (eraseKeys db es).Sublist db := by
  induction es generalizing db with
  | nil => exact List.Sublist.refl _
  | cons e es ih => exact (ih _).trans (erase_sublist db _)

theorem topItems_sublist (db : Db) (top : Bytes) : (topItems db top).Sublist db :=
  (List.takeWhile_sublist _).trans (setRange_sublist db top)

/-- ONE STEP, no guard: the database stays well-formed and the method does not raise ValueError -/
theorem step_good {kind : Kind} (hkind : kind ≠ .plain) {db : Db} (hinv : Inv db) (op : Op) :
    Inv (step kind db op).1 ∧ (step kind db op).2 ≠ .raise .valueError := by
  have hb : ∀ b : Bool, Res.bool b ≠ .raise .valueError := fun _ => by simp
  have ho : ∀ b : Option Bytes, Res.opt b ≠ .raise .valueError := fun _ => by simp
  have hv : ∀ b : List Bytes, Res.vals b ≠ .raise .valueError := fun _ => by simp
  have hn : ∀ b : Nat, Res.nat b ≠ .raise .valueError := fun _ => by simp
  have hp : ∀ b : List (Bytes × Bytes), Res.pairs b ≠ .raise .valueError := fun _ => by simp
  cases kind with
  | plain => exact absurd rfl hkind
  | io =>
    cases op <;> simp only [step]
    case put => exact ⟨hinv, by simp⟩
    case pin => exact ⟨hinv, by simp⟩
    case add k v => exact liftDb_good hinv _ hb (addIoVal_good hinv k v)
    case putL k vs => exact liftDb_good hinv _ hb (putIoVals_good hinv k vs)
    case pinL k vs => exact pin_good hinv k false vs rfl
    case get k => exact liftRo_good hinv _ hv (getIoVals_ne hinv k)
    case iter k => exact liftRo_good hinv _ hv (getIoVals_ne hinv k)
    case first k => exact liftRo_good hinv _ ho (getIoValFirst_ne hinv k)
    case last k => exact liftRo_good hinv _ ho (getIoValLast_ne hinv k)
    case pop k => exact liftDb_good hinv _ ho (popIoVal_good hinv k)
    case rem k => exact liftDb_good hinv _ hb (remIoVals_good hinv k)
    case remv => exact ⟨hinv, by simp⟩
    case cnt k =>
      refine liftRo_good hinv _ hn ?_
      obtain ⟨hs, h⟩ := scanKey_ok hinv k; simp [cntIoVals, getIoVals, h]
    case cntAll => exact ⟨hinv, by simp⟩
    case items => obtain ⟨r, h⟩ := ioItems_ok hinv.wf; exact liftRo_good hinv _ hp (by simp [h])
    case itemsTop top =>
      obtain ⟨r, h⟩ := ioItems_ok (hinv.sub (topItems_sublist db top)).wf; exact liftRo_good hinv _ hp (by simp [h])
    case fullItems top => exact ⟨hinv, by simp⟩
    case trim top => exact ⟨hinv.sub (eraseKeys_sublist _ _), by simp⟩
    case bad p k =>
      have hr := remIoVals_good hinv k
      split
      · exact ⟨hinv, by simp⟩
      split
      · cases h1 : remIoVals db k with
        | ok pr => obtain ⟨db1, b⟩ := pr; exact ⟨hr.2 db1 b h1, by simp⟩
        | error e => exact ⟨hinv, by simp only [ne_eq, Res.raise.injEq]; intro h; subst h; exact hr.1 h1⟩
      · exact ⟨hinv, by simp⟩
  | ioset =>
    cases op <;> simp only [step]
    case put => exact ⟨hinv, by simp⟩
    case pin => exact ⟨hinv, by simp⟩
    case add k v => exact liftDb_good hinv _ hb (addIoSetVal_good hinv k v)
    case putL k vs => exact liftDb_good hinv _ hb (putIoSetVals_good hinv k vs)
    case pinL k vs => exact pin_good hinv k true (dedup vs) rfl
    case get k => exact liftRo_good hinv _ hv (getIoVals_ne hinv k)
    case iter k => exact liftRo_good hinv _ hv (getIoVals_ne hinv k)
    case first k => exact liftRo_good hinv _ ho (getIoValFirst_ne hinv k)
    case last k => exact liftRo_good hinv _ ho (getIoValLast_ne hinv k)
    case pop k => exact liftDb_good hinv _ ho (popIoVal_good hinv k)
    case rem k => exact liftDb_good hinv _ hb (remIoVals_good hinv k)
    case remv k v =>
      split
      · exact liftDb_good hinv _ hb (remIoVals_good hinv k)
      · exact liftDb_good hinv _ hb (remIoSetVal_good hinv k v)
    case cnt k =>
      refine liftRo_good hinv _ hn ?_
      obtain ⟨hs, h⟩ := scanKey_ok hinv k; simp [cntIoVals, getIoVals, h]
    case cntAll => exact ⟨hinv, by simp⟩
    case items => obtain ⟨r, h⟩ := ioItems_ok hinv.wf; exact liftRo_good hinv _ hp (by simp [h])
    case itemsTop top =>
      obtain ⟨r, h⟩ := ioItems_ok (hinv.sub (topItems_sublist db top)).wf; exact liftRo_good hinv _ hp (by simp [h])
    case fullItems top => exact ⟨hinv, by simp⟩
    case trim top => exact ⟨hinv.sub (eraseKeys_sublist _ _), by simp⟩
    case bad p k =>
      have hr := remIoVals_good hinv k
      split
      · exact ⟨hinv, by simp⟩
      split
      · cases h1 : remIoVals db k with
        | ok pr => obtain ⟨db1, b⟩ := pr; exact ⟨hr.2 db1 b h1, by simp⟩
        | error e => exact ⟨hinv, by simp only [ne_eq, Res.raise.injEq]; intro h; subst h; exact hr.1 h1⟩
      · exact ⟨hinv, by simp⟩

theorem run_good {kind : Kind} (hkind : kind ≠ .plain) (watch : List Bytes) : ∀ (ops : List Op) (db : Db), Inv db →
    Inv (run kind watch db ops).2 ∧ ∀ x ∈ (run kind watch db ops).1, x.1 ≠ .raise .valueError
  | [], db, hinv => ⟨hinv, by simp [run]⟩
  | op :: ops, db, hinv => by
    have hs := step_good hkind hinv op
    have ih := run_good hkind watch ops _ hs.1
    simp only [run]
    refine ⟨ih.1, ?_⟩
    intro x hx
    simp only [List.mem_cons] at hx
    rcases hx with rfl | hx
    · exact hs.2
    · exact ih.2 x hx

end Hio.Store
