import HioModel.Store.Order
/-! # Store lemmas 2: the sorted association list (model of one lmdb sub-db) -/
namespace Hio.Store

/-- strictly ascending keys (hence unique) -/
def Sorted (db : Db) : Prop := db.Pairwise (fun a b => lexLt a.1 b.1 = true)

theorem sorted_nil : Sorted [] := List.Pairwise.nil

theorem sorted_cons {e : Entry} {es : Db} : Sorted (e :: es) ↔ (∀ x ∈ es, lexLt e.1 x.1 = true) ∧ Sorted es :=
  List.pairwise_cons

theorem Sorted.tail {e : Entry} {es : Db} (h : Sorted (e :: es)) : Sorted es := (sorted_cons.mp h).2

theorem Sorted.sublist {a b : Db} (h : Sorted b) (hs : a.Sublist b) : Sorted a := List.Pairwise.sublist hs h

theorem Sorted.filter {db : Db} (h : Sorted db) (p : Entry → Bool) : Sorted (db.filter p) :=
  h.sublist List.filter_sublist

theorem Sorted.key_inj {db : Db} (h : Sorted db) {e e' : Entry} (he : e ∈ db) (he' : e' ∈ db) (hk : e.1 = e'.1) : e = e' := by
  induction db with
  | nil => cases he
  | cons x xs ih =>
    obtain ⟨hx, hxs⟩ := sorted_cons.mp h
    rcases List.mem_cons.mp he with h1 | h1
    · rcases List.mem_cons.mp he' with h2 | h2
      · rw [h1, h2]
      · have := hx _ h2; rw [← h1, hk, lexLt_irrefl] at this; cases this
    · rcases List.mem_cons.mp he' with h2 | h2
      · have := hx _ h1; rw [← h2, hk, lexLt_irrefl] at this; cases this
      · exact ih hxs h1 h2

/-- a sorted list is determined by its members -/
theorem sorted_ext {a b : Db} (ha : Sorted a) (hb : Sorted b) (h : ∀ e, e ∈ a ↔ e ∈ b) : a = b := by
  induction a generalizing b with
  | nil =>
    cases b with
    | nil => rfl
    | cons y ys => exact absurd ((h y).mpr (List.mem_cons_self ..)) (by simp)
  | cons x xs ih =>
    cases b with
    | nil => exact absurd ((h x).mp (List.mem_cons_self ..)) (by simp)
    | cons y ys =>
      obtain ⟨hx, hxs⟩ := sorted_cons.mp ha
      obtain ⟨hy, hys⟩ := sorted_cons.mp hb
      have hxy : x = y := by
        rcases List.mem_cons.mp ((h x).mp (List.mem_cons_self ..)) with e | hxin
        · exact e
        · rcases List.mem_cons.mp ((h y).mpr (List.mem_cons_self ..)) with e | hyin
          · exact e.symm
          · have h1 := hy _ hxin; have h2 := hx _ hyin
            rw [lexLt_asymm h1] at h2; cases h2
      subst hxy
      congr 1
      apply ih hxs hys
      intro e
      constructor
      · intro he
        rcases List.mem_cons.mp ((h e).mp (List.mem_cons_of_mem _ he)) with rfl | h'
        · have := hx _ he; rw [lexLt_irrefl] at this; cases this
        · exact h'
      · intro he
        rcases List.mem_cons.mp ((h e).mpr (List.mem_cons_of_mem _ he)) with rfl | h'
        · have := hy _ he; rw [lexLt_irrefl] at this; cases this
        · exact h'

/-! ### insert -/

theorem mem_insert {db : Db} (hs : Sorted db) (k v : Bytes) (e : Entry) :
    e ∈ insert db k v ↔ e = (k, v) ∨ (e ∈ db ∧ e.1 ≠ k) := by
  induction db with
  | nil => simp [insert]
  | cons x xs ih =>
    obtain ⟨hx, hxs⟩ := sorted_cons.mp hs
    simp only [insert]
    split
    · rename_i hlt
      simp only [List.mem_cons]
      constructor
      · rintro (h | h | h)
        · exact Or.inl h
        · subst h; exact Or.inr ⟨Or.inl rfl, fun e' => by rw [e', lexLt_irrefl] at hlt; cases hlt⟩
        · refine Or.inr ⟨Or.inr h, fun e' => ?_⟩
          have := lexLt_trans hlt (hx _ h); rw [e', lexLt_irrefl] at this; cases this
      · rintro (h | ⟨h | h, _⟩)
        · exact Or.inl h
        · exact Or.inr (Or.inl h)
        · exact Or.inr (Or.inr h)
    · split
      · rename_i _ heq
        simp only [List.mem_cons]
        constructor
        · rintro (h | h)
          · exact Or.inl h
          · refine Or.inr ⟨Or.inr h, fun e' => ?_⟩
            have := hx _ h; rw [heq, e', lexLt_irrefl] at this; cases this
        · rintro (h | ⟨h | h, hne⟩)
          · exact Or.inl h
          · subst h; exact absurd heq hne
          · exact Or.inr h
      · rename_i _ hne
        simp only [List.mem_cons, ih hxs]
        constructor
        · rintro (h | h | ⟨h, h'⟩)
          · subst h; exact Or.inr ⟨Or.inl rfl, hne⟩
          · exact Or.inl h
          · exact Or.inr ⟨Or.inr h, h'⟩
        · rintro (h | ⟨h | h, h'⟩)
          · exact Or.inr (Or.inl h)
          · exact Or.inl h
          · exact Or.inr (Or.inr ⟨h, h'⟩)

theorem sorted_insert {db : Db} (hs : Sorted db) (k v : Bytes) : Sorted (insert db k v) := by
  induction db with
  | nil => simp [insert, Sorted]
  | cons x xs ih =>
    obtain ⟨hx, hxs⟩ := sorted_cons.mp hs
    simp only [insert]
    split
    · rename_i hlt
      refine sorted_cons.mpr ⟨?_, hs⟩
      intro y hy
      rcases List.mem_cons.mp hy with rfl | hy
      · exact hlt
      · exact lexLt_trans hlt (hx _ hy)
    · split
      · rename_i _ heq
        refine sorted_cons.mpr ⟨?_, hxs⟩
        intro y hy; have := hx _ hy; rwa [heq] at this
      · rename_i hnlt hne
        refine sorted_cons.mpr ⟨?_, ih hxs⟩
        intro y hy
        rcases (mem_insert hxs k v y).mp hy with rfl | ⟨hy, _⟩
        · exact lexLt_of_not_ge (by simpa using hnlt) (fun e => hne e.symm)
        · exact hx _ hy

/-! ### erase -/

theorem mem_erase {db : Db} (hs : Sorted db) (k : Bytes) (e : Entry) : e ∈ erase db k ↔ e ∈ db ∧ e.1 ≠ k := by
  induction db with
  | nil => simp [erase]
  | cons x xs ih =>
    obtain ⟨hx, hxs⟩ := sorted_cons.mp hs
    simp only [erase]
    split
    · rename_i heq
      simp only [List.mem_cons]
      constructor
      · intro h
        refine ⟨Or.inr h, fun e' => ?_⟩
        have := hx _ h; rw [heq, e', lexLt_irrefl] at this; cases this
      · rintro ⟨h | h, hne⟩
        · subst h; exact absurd heq hne
        · exact h
    · rename_i hne
      simp only [List.mem_cons, ih hxs]
      constructor
      · rintro (h | ⟨h, h'⟩)
        · subst h; exact ⟨Or.inl rfl, hne⟩
        · exact ⟨Or.inr h, h'⟩
      · rintro ⟨h | h, h'⟩
        · exact Or.inl h
        · exact Or.inr ⟨h, h'⟩

theorem erase_sublist (db : Db) (k : Bytes) : (erase db k).Sublist db := by
  induction db with
  | nil => exact List.Sublist.slnil
  | cons x xs ih =>
    simp only [erase]; split
    · exact List.sublist_cons_self x xs
    · exact List.Sublist.cons_cons x ih

theorem sorted_erase {db : Db} (hs : Sorted db) (k : Bytes) : Sorted (erase db k) := hs.sublist (erase_sublist db k)

/-! ### lookup -/

theorem lookup_eq_some {db : Db} (hs : Sorted db) (k v : Bytes) : lookup db k = some v ↔ (k, v) ∈ db := by
  induction db with
  | nil => simp [lookup]
  | cons x xs ih =>
    obtain ⟨hx, hxs⟩ := sorted_cons.mp hs
    simp only [lookup]
    split
    · rename_i heq
      simp only [Option.some.injEq, List.mem_cons]
      constructor
      · intro h; left; rw [← heq, ← h]
      · rintro (h | h)
        · rw [← h]
        · have := hx _ h; simp only at this; rw [heq, lexLt_irrefl] at this; cases this
    · rename_i hne
      rw [ih hxs, List.mem_cons]
      constructor
      · exact Or.inr
      · rintro (h | h)
        · exact absurd (by rw [← h]) hne
        · exact h

theorem lookup_eq_none {db : Db} (k : Bytes) : lookup db k = none ↔ ∀ e ∈ db, e.1 ≠ k := by
  induction db with
  | nil => simp [lookup]
  | cons x xs ih =>
    simp only [lookup]
    split
    · rename_i heq; simp [heq]
    · rename_i hne; simp [ih, hne]

theorem lookup_some_mem {db : Db} {k v : Bytes} (h : lookup db k = some v) : (k, v) ∈ db := by
  induction db with
  | nil => simp [lookup] at h
  | cons x xs ih =>
    simp only [lookup] at h
    split at h
    · rename_i heq
      simp only [Option.some.injEq] at h
      rw [← heq, ← h]; exact List.mem_cons_self ..
    · exact List.mem_cons_of_mem _ (ih h)

theorem lookup_isSome {db : Db} (k : Bytes) : (lookup db k).isSome = true ↔ ∃ e ∈ db, e.1 = k := by
  cases h : lookup db k with
  | none =>
    have := (lookup_eq_none k).mp h
    simp only [Option.isSome_none, Bool.false_eq_true, false_iff, not_exists, not_and]
    exact this
  | some v =>
    simp only [Option.isSome_some, true_iff]
    exact ⟨(k, v), lookup_some_mem h, rfl⟩

/-! ### set_range -/

theorem setRange_sublist (db : Db) (t : Bytes) : (setRange db t).Sublist db := List.dropWhile_sublist _

theorem sorted_setRange {db : Db} (hs : Sorted db) (t : Bytes) : Sorted (setRange db t) := hs.sublist (setRange_sublist db t)

theorem mem_setRange {db : Db} (hs : Sorted db) (t : Bytes) (e : Entry) :
    e ∈ setRange db t ↔ e ∈ db ∧ lexLt e.1 t = false := by
  induction db with
  | nil => simp [setRange]
  | cons x xs ih =>
    obtain ⟨hx, hxs⟩ := sorted_cons.mp hs
    unfold setRange at ih ⊢
    simp only [List.dropWhile_cons]
    split
    · rename_i hlt
      rw [ih hxs, List.mem_cons]
      constructor
      · rintro ⟨h, h'⟩; exact ⟨Or.inr h, h'⟩
      · rintro ⟨h | h, h'⟩
        · subst h; rw [hlt] at h'; cases h'
        · exact ⟨h, h'⟩
    · rename_i hnlt
      simp only [List.mem_cons]
      constructor
      · rintro (h | h)
        · subst h; exact ⟨Or.inl rfl, by simpa using hnlt⟩
        · refine ⟨Or.inr h, ?_⟩
          cases hc : lexLt e.1 t with
          | false => rfl
          | true =>
            have := lexLt_trans (hx _ h) hc
            rw [this] at hnlt; exact absurd rfl hnlt
      · rintro ⟨h, _⟩; exact h

end Hio.Store
