import HioModel.Store.Last
import HioModel.Store.IoOps2
/-! # Store lemmas 11: the EXACT guard (complement of the known-finding triggers) and its necessity -/
set_option linter.unusedSimpArgs false
namespace Hio.Store

/-! ## the comparison of `p ++ x` with `z` does not depend on `x` unless `p` is a prefix of `z` -/

theorem lexLt_append_indep {p z : Bytes} (h : ¬ p <+: z) (x : Bytes) : lexLt (p ++ x) z = lexLt p z := by
  induction p generalizing z with
  | nil => exact absurd (List.nil_prefix) h
  | cons a p ih =>
    cases z with
    | nil => simp [lexLt_nil_right]
    | cons b z =>
      simp only [List.cons_append, lexLt_cons]
      by_cases hab : a = b
      · subst hab
        have : ¬ p <+: z := fun hp => h (by rw [List.cons_prefix_cons]; exact ⟨rfl, hp⟩)
        rw [ih this]
      · have : (a == b) = false := by simp [hab]
        simp [this]

/-- if the ordinal-0 entry of a key extending `k ++ sep` sorts below `suffix k 0`, all its entries do -/
theorem child_below_all {k k' : Bytes} (hpre : (k ++ [sepB]) <+: k') (h0 : lexLt (suffix k' 0) (suffix k 0) = true) (j : Nat) :
    lexLt (suffix k' j) (suffix k 0) = true := by
  obtain ⟨r, rfl⟩ := hpre
  have e : ∀ j, suffix (k ++ [sepB] ++ r) j = (k ++ [sepB]) ++ ((r ++ [sepB]) ++ hexFix W j) := by
    intro j; simp [suffix, suffixW]
  rw [e, suffix_eq_append, lexLt_append_left] at h0 ⊢
  have hnp : ¬ (r ++ [sepB]) <+: hexFix W 0 := by
    intro hp
    exact sep_not_in_hex sepB_not_hex W 0 (hp.subset (by simp))
  rw [lexLt_append_indep hnp] at h0 ⊢
  exact h0

/-! ## the exact guard -/

/-- EXACT guard for key `k` and ordinal bound `B` over the key set `K`: no OTHER key of `K` has its ordinal-0 entry
strictly between `suffix k 0` and `suffix k B` (the complement of the C24-K1 / K2 trigger for the pair; only keys
extending `k ++ sep` can be there at all). -/
def ExactAt (K : Bytes → Prop) (k : Bytes) (B : Nat) : Prop :=
  ∀ k', K k' → k' ≠ k →
    lexLt (suffix k' 0) (suffix k 0) = true ∨ lexLt (suffix k B) (suffix k' 0) = true

theorem suffix_zero_le' (k : Bytes) {j : Nat} (hj : j < 16 ^ W) :
    suffix k 0 = suffix k j ∨ lexLt (suffix k 0) (suffix k j) = true := by
  rcases Nat.eq_zero_or_pos j with h | h
  · left; rw [h]
  · right; exact (suffix_lt_iff k (Nat.pow_pos (by omega)) hj).mpr h

theorem ckey_of_keys {K : Bytes → Prop} {db : Db} (hkeys : ∀ e ∈ db, ∃ k, K k ∧ ckeyIs k e = true) {x : Entry} (hx : x ∈ db)
    {k' : Bytes} {j : Nat} (hj : j < 16 ^ W) (hxk : x.1 = suffix k' j) : K k' := by
  obtain ⟨k'', hk'', hc⟩ := hkeys x hx
  have : ckeyIs k'' (suffix k' j, x.2) = true := by rw [← hxk]; exact hc
  rw [ckeyIs_suffix k'' k' hj] at this
  have : k' = k'' := by simpa using this
  rw [this]; exact hk''

/-- the exact guard gives contiguity for every entry of `k` with an ordinal ≤ B -/
theorem noChild_of_exact {K : Bytes → Prop} {db : Db} (hinv : Inv db) (hkeys : ∀ e ∈ db, ∃ k, K k ∧ ckeyIs k e = true)
    {k : Bytes} {B : Nat} (hE : ExactAt K k B) (hB : B < 16 ^ W) (hions : KIonsBelow k (B + 1) db) : NoChild k db := by
  intro x hx e2 h2 hk2 hlo hhi
  obtain ⟨i2, hi2, he2⟩ := (ckeyIs_iff hinv h2 k).mp hk2
  obtain ⟨k', j, hj, hxk⟩ := hinv.wf x hx
  have hi2B : i2 ≤ B := by have := hions e2 h2 i2 hi2 he2; omega
  by_cases hkk : k' = k
  · subst hkk; exact (ckeyIs_iff hinv hx k').mpr ⟨j, hj, hxk⟩
  · exfalso
    rw [hxk] at hlo hhi; rw [he2] at hhi
    have hpre : (k ++ [sepB]) <+: k' := by
      rcases between_suffix hlo hhi with h | h
      · exact absurd h hkk
      · exact h
    rcases hE k' (ckey_of_keys hkeys hx hj hxk) hkk with h | h
    · rw [child_below_all hpre h j] at hlo; cases hlo
    · -- suffix k B < suffix k' 0 ≤ suffix k' j < suffix k i2 ≤ suffix k B
      have h1 : lexLt (suffix k B) (suffix k' j) = true := by
        rcases suffix_zero_le' k' hj with e | l
        · rw [← e]; exact h
        · exact lexLt_trans h l
      have h2' := lexLt_trans h1 hhi
      have := (suffix_lt_iff k hB hi2).mp h2'
      omega

theorem noChildMax_of_exact {K : Bytes → Prop} {db : Db} (hinv : Inv db) (hkeys : ∀ e ∈ db, ∃ k, K k ∧ ckeyIs k e = true)
    {k : Bytes} (hE : ExactAt K k maxSuffix) : NoChildMax k db := by
  intro x hx hlo hhi
  obtain ⟨k', j, hj, hxk⟩ := hinv.wf x hx
  by_cases hkk : k' = k
  · subst hkk; exact (ckeyIs_iff hinv hx k').mpr ⟨j, hj, hxk⟩
  · exfalso
    rw [hxk] at hlo hhi
    have hpre : (k ++ [sepB]) <+: k' := by
      rcases between_suffix hlo hhi with h | h
      · exact absurd h hkk
      · exact h
    rcases hE k' (ckey_of_keys hkeys hx hj hxk) hkk with h | h
    · rw [child_below_all hpre h j] at hlo; cases hlo
    · have h1 : lexLt (suffix k maxSuffix) (suffix k' j) = true := by
        rcases suffix_zero_le' k' hj with e | l
        · rw [← e]; exact h
        · exact lexLt_trans h l
      have := lexLt_trans h1 hhi
      rw [lexLt_irrefl] at this; cases this

theorem ExactAt.mono {K : Bytes → Prop} {k : Bytes} {B B' : Nat} (h : ExactAt K k B) (hB : B < 16 ^ W) (hle : B' ≤ B) :
    ExactAt K k B' := by
  intro k' hk' hne
  rcases h k' hk' hne with h1 | h1
  · exact Or.inl h1
  · right
    rcases Nat.lt_or_ge B' B with hlt | hge
    · exact lexLt_trans ((suffix_lt_iff k (by omega) hB).mpr hlt) h1
    · have : B' = B := by omega
      rw [this]; exact h1

/-! ## necessity at the database level: without contiguity `get` is wrong -/

theorem scan_eq_takeWhile {k : Bytes} {l : Db} (hwf : ∀ e ∈ l, ∃ k' i, i < 16 ^ W ∧ e.1 = suffix k' i) :
    scan k l = .ok ((l.takeWhile (ckeyIs k)).map toHit) := by
  induction l with
  | nil => rfl
  | cons x xs ih =>
    obtain ⟨k', i, hi, hxk⟩ := hwf x (List.mem_cons_self ..)
    have hun : unsuffix x.1 = some (k', i) := by rw [hxk]; exact unsuffix_suffix k' hi
    by_cases hkk : k' = k
    · have hck : ckeyIs k x = true := by simp [ckeyIs, hun, hkk]
      simp only [scan, hun, hkk, ↓reduceIte, ih (fun e he => hwf e (List.mem_cons_of_mem _ he)), List.takeWhile_cons, hck,
        List.map_cons]
      simp [toHit, hun]
    · have hck : ckeyIs k x = false := by simp [ckeyIs, hun, hkk]
      simp [scan, hun, hkk, List.takeWhile_cons, hck]

theorem mem_takeWhile_imp' {p : Entry → Bool} {l : Db} {a : Entry} (h : a ∈ l.takeWhile p) : p a = true := by
  induction l with
  | nil => cases h
  | cons y ys ih =>
    rw [List.takeWhile_cons] at h
    split at h
    · rename_i hp
      rcases List.mem_cons.mp h with rfl | h'
      · exact hp
      · exact ih h'
    · cases h

theorem mem_takeWhile_of_lt {p : Entry → Bool} {l : Db} (hs : Sorted l) {x e2 : Entry} (he2 : e2 ∈ l.takeWhile p) (hx : x ∈ l)
    (hlt : lexLt x.1 e2.1 = true) : x ∈ l.takeWhile p := by
  induction l with
  | nil => cases hx
  | cons y ys ih =>
    obtain ⟨hy, hys⟩ := sorted_cons.mp hs
    rw [List.takeWhile_cons] at he2 ⊢
    split at he2
    · rename_i hp
      rw [if_pos hp]
      rcases List.mem_cons.mp hx with rfl | hx'
      · exact List.mem_cons_self ..
      · rcases List.mem_cons.mp he2 with rfl | he2'
        · have := hy x hx'; rw [lexLt_asymm this] at hlt; cases hlt
        · exact List.mem_cons_of_mem _ (ih hys he2' hx')
    · cases he2

/-- NECESSITY: if `k` is not contiguous in a well-formed database, `get(k)` returns strictly fewer values than the
dictionary holds (and `cnt` is too small) -/
theorem get_short_of_not_contiguous {db : Db} (hinv : Inv db) {k : Bytes} {x e2 : Entry} (hx : x ∈ db) (h2 : e2 ∈ db)
    (hk2 : ckeyIs k e2 = true) (hlo : lexLt x.1 (suffix k 0) = false) (hhi : lexLt x.1 e2.1 = true)
    (hxk : ckeyIs k x = false) : ∃ vs, getIoVals db k = .ok vs ∧ vs.length < (absIo db k).length := by
  have hs := hinv.sorted
  have hsl := sorted_setRange hs (suffix k 0)
  have hwf : ∀ e ∈ setRange db (suffix k 0), ∃ k' i, i < 16 ^ W ∧ e.1 = suffix k' i :=
    fun e he => hinv.wf e ((setRange_sublist db _).subset he)
  refine ⟨(((setRange db (suffix k 0)).takeWhile (ckeyIs k)).map toHit).map (·.val),
    by simp only [getIoVals, scanKey, scan_eq_takeWhile hwf], ?_⟩
  have hxl : x ∈ setRange db (suffix k 0) := (mem_setRange hs _ x).mpr ⟨hx, hlo⟩
  have he2l : e2 ∈ setRange db (suffix k 0) := by
    refine (mem_setRange hs _ e2).mpr ⟨h2, ?_⟩
    obtain ⟨i, hi, hei⟩ := (ckeyIs_iff hinv h2 k).mp hk2
    rw [hei]; exact suffix_zero_le k hi
  have hnot : e2 ∉ (setRange db (suffix k 0)).takeWhile (ckeyIs k) := by
    intro hin
    have := mem_takeWhile_of_lt hsl hin hxl hhi
    have := mem_takeWhile_imp' this
    rw [hxk] at this; cases this
  have hsplit : (setRange db (suffix k 0)).filter (ckeyIs k) =
      (setRange db (suffix k 0)).takeWhile (ckeyIs k) ++ ((setRange db (suffix k 0)).dropWhile (ckeyIs k)).filter (ckeyIs k) := by
    conv => lhs; rw [← List.takeWhile_append_dropWhile (p := ckeyIs k) (l := setRange db (suffix k 0))]
    rw [List.filter_append]
    congr 1
    rw [List.filter_eq_self]
    intro a ha; exact mem_takeWhile_imp' ha
  have he2d : e2 ∈ ((setRange db (suffix k 0)).dropWhile (ckeyIs k)).filter (ckeyIs k) := by
    rw [List.mem_filter]
    refine ⟨?_, hk2⟩
    have := he2l
    rw [← List.takeWhile_append_dropWhile (p := ckeyIs k) (l := setRange db (suffix k 0)), List.mem_append] at this
    rcases this with h | h
    · exact absurd h hnot
    · exact h
  have hlen : 0 < (((setRange db (suffix k 0)).dropWhile (ckeyIs k)).filter (ckeyIs k)).length := List.length_pos_of_mem he2d
  simp only [List.length_map, absIo, ← filter_setRange hinv k, hsplit, List.length_append]
  omega

end Hio.Store
