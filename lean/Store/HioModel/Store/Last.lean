import HioModel.Store.IoOps
/-! # Store lemmas 10: getIoValLast under the guard -/
set_option linter.unusedSimpArgs false
namespace Hio.Store

theorem maxSuffix_lt : maxSuffix < 16 ^ W := by decide +kernel
theorem maxSuffix_succ : maxSuffix + 1 = 16 ^ W := by decide +kernel

theorem mem_takeWhile_sorted {db : Db} (hs : Sorted db) (t : Bytes) (e : Entry) :
    e ∈ db.takeWhile (fun e => lexLt e.1 t) ↔ e ∈ db ∧ lexLt e.1 t = true := by
  induction db with
  | nil => simp
  | cons x xs ih =>
    obtain ⟨hx, hxs⟩ := sorted_cons.mp hs
    simp only [List.takeWhile_cons]
    split
    · rename_i hlt
      simp only [List.mem_cons, ih hxs]
      constructor
      · rintro (h | ⟨h, h'⟩)
        · subst h; exact ⟨Or.inl rfl, hlt⟩
        · exact ⟨Or.inr h, h'⟩
      · rintro ⟨h | h, h'⟩
        · exact Or.inl h
        · exact Or.inr ⟨h, h'⟩
    · rename_i hnlt
      simp only [List.not_mem_nil, List.mem_cons, false_iff, not_and]
      rintro (h | h) hlt
      · subst h; exact hnlt hlt
      · exact hnlt (lexLt_trans (hx _ h) hlt)

theorem sorted_getLast_max {l : Db} (hs : Sorted l) {e : Entry} (h : l.getLast? = some e) :
    e ∈ l ∧ ∀ x ∈ l, x = e ∨ lexLt x.1 e.1 = true := by
  induction l with
  | nil => simp at h
  | cons y ys ih =>
    obtain ⟨hy, hys⟩ := sorted_cons.mp hs
    cases ys with
    | nil =>
      simp at h; subst h
      exact ⟨List.mem_cons_self .., fun x hx => Or.inl (by simpa using hx)⟩
    | cons z zs =>
      rw [List.getLast?_cons_cons] at h
      obtain ⟨h1, h2⟩ := ih hys h
      refine ⟨List.mem_cons_of_mem _ h1, ?_⟩
      intro x hx
      rcases List.mem_cons.mp hx with rfl | hx
      · exact Or.inr (hy _ h1)
      · exact h2 x hx

theorem getLast_of_max {l : Db} (hs : Sorted l) {e : Entry} (he : e ∈ l) (hmax : ∀ x ∈ l, x = e ∨ lexLt x.1 e.1 = true) :
    l.getLast? = some e := by
  induction l with
  | nil => cases he
  | cons y ys ih =>
    obtain ⟨hy, hys⟩ := sorted_cons.mp hs
    cases ys with
    | nil => simp at he; simp [he]
    | cons z zs =>
      rw [List.getLast?_cons_cons]
      have hne : e ≠ y := by
        intro heq; subst heq
        rcases hmax z (by simp) with h | h
        · have := hy z (List.mem_cons_self ..); rw [h, lexLt_irrefl] at this; cases this
        · have := hy z (List.mem_cons_self ..); rw [lexLt_asymm this] at h; cases h
      have he' : e ∈ z :: zs := by
        rcases List.mem_cons.mp he with h | h
        · exact absurd h hne
        · exact h
      exact ih hys he' (fun x hx => hmax x (List.mem_cons_of_mem _ hx))

/-- contiguity up to the largest possible entry of `k` — what `getIoValLast` needs -/
def NoChildMax (k : Bytes) (db : Db) : Prop :=
  ∀ x ∈ db, lexLt x.1 (suffix k 0) = false → lexLt x.1 (suffix k maxSuffix) = true → ckeyIs k x = true

/-- a foreign entry below `suffix k MaxSuffix` with every entry of `k` below it: `k` has no entries -/
theorem ents_nil_of_foreign_above {db : Db} (hinv : Inv db) {k : Bytes} (hnc : NoChildMax k db) {e : Entry} (he : e ∈ db)
    (hck : ckeyIs k e = false) (hlt : lexLt e.1 (suffix k maxSuffix) = true)
    (hmax : ∀ x ∈ entsOf db k, x = e ∨ lexLt x.1 e.1 = true) : entsOf db k = [] := by
  rw [List.eq_nil_iff_forall_not_mem]
  intro x hx
  have hxm := mem_entsOf.mp hx
  obtain ⟨i, hi, hxi⟩ := (ckeyIs_iff hinv hxm.1 k).mp hxm.2
  rcases hmax x hx with rfl | hxe
  · rw [hxm.2] at hck; cases hck
  · have hlo : lexLt e.1 (suffix k 0) = false := by
      cases h : lexLt e.1 (suffix k 0) with
      | false => rfl
      | true =>
        have := lexLt_trans hxe h
        rw [hxi, suffix_zero_le k hi] at this; cases this
    have := hnc e he hlo hlt
    rw [this] at hck; cases hck

theorem last_of_max {db : Db} (hinv : Inv db) {k : Bytes} {e : Entry} (he : e ∈ db) (hk : ckeyIs k e = true)
    (hmax : ∀ x ∈ entsOf db k, x = e ∨ lexLt x.1 e.1 = true) :
    ∃ i, ionOf k e = .ok (some i) ∧ lookup db (suffix k i) = some e.2 ∧ (absIo db k).getLast? = some e.2 := by
  obtain ⟨i, hi, hei⟩ := (ckeyIs_iff hinv he k).mp hk
  refine ⟨i, by simp [ionOf, hei, unsuffix_suffix k hi], ?_, ?_⟩
  · rw [lookup_eq_some hinv.sorted, ← hei]; exact he
  · have := getLast_of_max (hinv.sorted.filter (ckeyIs k)) (mem_entsOf.mpr ⟨he, hk⟩) hmax
    simp only [absIo, List.getLast?_map]
    change (entsOf db k).getLast? = some e at this
    rw [this]; rfl

theorem ents_le_max {db : Db} (hinv : Inv db) {k : Bytes} {x : Entry} (hx : x ∈ entsOf db k) :
    x.1 = suffix k maxSuffix ∨ lexLt x.1 (suffix k maxSuffix) = true := by
  have hxm := mem_entsOf.mp hx
  obtain ⟨i, hi, hxi⟩ := (ckeyIs_iff hinv hxm.1 k).mp hxm.2
  have : i ≤ maxSuffix := by have := maxSuffix_succ; omega
  rcases Nat.lt_or_ge i maxSuffix with h | h
  · right; rw [hxi]; exact (suffix_lt_iff k hi maxSuffix_lt).mpr h
  · left; rw [hxi]; congr 1; omega

/-- getLast under the guard: the last value of the dictionary's list -/
theorem getIoValLast_spec {db : Db} (hinv : Inv db) {k : Bytes} (hnc : NoChildMax k db) :
    getIoValLast db k = .ok (absIo db k).getLast? := by
  have hs := hinv.sorted
  have hnil : entsOf db k = [] → (absIo db k).getLast? = none := by intro h; simp [absIo, h]
  unfold getIoValLast
  simp only
  cases hafter : db.dropWhile (fun e => lexLt e.1 (suffix k maxSuffix)) with
  | nil =>
    simp only
    have hall : ∀ x ∈ db, lexLt x.1 (suffix k maxSuffix) = true := by
      intro x hx
      cases h : lexLt x.1 (suffix k maxSuffix) with
      | true => rfl
      | false =>
        have : x ∈ setRange db (suffix k maxSuffix) := (mem_setRange hs _ x).mpr ⟨hx, h⟩
        unfold setRange at this; rw [hafter] at this; cases this
    cases hlast : db.getLast? with
    | none =>
      have : db = [] := List.getLast?_eq_none_iff.mp hlast
      simp only
      rw [hnil (by simp [entsOf, this])]
    | some e =>
      obtain ⟨he, hmax⟩ := sorted_getLast_max hs hlast
      simp only
      cases hck : ckeyIs k e with
      | true =>
        obtain ⟨i, h1, h2, h3⟩ := last_of_max hinv he hck (fun x hx => hmax x (mem_entsOf.mp hx).1)
        simp only [h1, h2, h3]
      | false =>
        have hE := ents_nil_of_foreign_above hinv hnc he hck (hall e he) (fun x hx => hmax x (mem_entsOf.mp hx).1)
        obtain ⟨k', i, hi, hek⟩ := hinv.wf e he
        have hne : k' ≠ k := by
          intro h; subst h
          rw [(ckeyIs_iff hinv he k').mpr ⟨i, hi, hek⟩] at hck; cases hck
        simp only [ionOf, hek, unsuffix_suffix k' hi, hne, ↓reduceIte]
        rw [hnil hE]
  | cons e rest =>
    simp only
    have hemem : e ∈ setRange db (suffix k maxSuffix) := by unfold setRange; rw [hafter]; exact List.mem_cons_self ..
    obtain ⟨he, hge⟩ := (mem_setRange hs _ e).mp hemem
    have hmin : ∀ x ∈ db, lexLt x.1 (suffix k maxSuffix) = false → x = e ∨ lexLt e.1 x.1 = true := by
      intro x hx hx'
      have : x ∈ e :: rest := by
        have := (mem_setRange hs _ x).mpr ⟨hx, hx'⟩
        unfold setRange at this; rwa [hafter] at this
      have hsr : Sorted (e :: rest) := by
        have := sorted_setRange hs (suffix k maxSuffix); unfold setRange at this; rwa [hafter] at this
      rcases List.mem_cons.mp this with h | h
      · exact Or.inl h
      · exact Or.inr ((sorted_cons.mp hsr).1 x h)
    cases hck : ckeyIs k e with
    | true =>
      -- e is the entry at MaxSuffix itself
      have hmax : ∀ x ∈ entsOf db k, x = e ∨ lexLt x.1 e.1 = true := by
        intro x hx
        have hee := ents_le_max hinv (mem_entsOf.mpr ⟨he, hck⟩)
        have he1 : e.1 = suffix k maxSuffix := by
          rcases hee with h | h
          · exact h
          · rw [h] at hge; cases hge
        rcases ents_le_max hinv hx with h | h
        · exact Or.inl (hs.key_inj (mem_entsOf.mp hx).1 he (h.trans he1.symm))
        · exact Or.inr (by rw [he1]; exact h)
      obtain ⟨i, h1, h2, h3⟩ := last_of_max hinv he hck hmax
      simp only [h1, h2, h3]
    | false =>
      obtain ⟨k', i, hi, hek⟩ := hinv.wf e he
      have hne : k' ≠ k := by
        intro h; subst h
        rw [(ckeyIs_iff hinv he k').mpr ⟨i, hi, hek⟩] at hck; cases hck
      have hion : ionOf k e = .ok none := by simp [ionOf, hek, unsuffix_suffix k' hi, hne]
      simp only [hion]
      -- every entry of k is strictly below the target
      have hbelow : ∀ x ∈ entsOf db k, lexLt x.1 (suffix k maxSuffix) = true := by
        intro x hx
        rcases ents_le_max hinv hx with h | h
        · exfalso
          have hxdb := (mem_entsOf.mp hx).1
          rcases hmin x hxdb (by rw [h, lexLt_irrefl]) with h' | h'
          · rw [h'] at hx; have := (mem_entsOf.mp hx).2; rw [hck] at this; cases this
          · rw [h] at h'; rw [h'] at hge; cases hge
        · exact h
      cases hb : (db.takeWhile (fun e => lexLt e.1 (suffix k maxSuffix))).getLast? with
      | none =>
        have hbn : db.takeWhile (fun e => lexLt e.1 (suffix k maxSuffix)) = [] := List.getLast?_eq_none_iff.mp hb
        have hE : entsOf db k = [] := by
          rw [List.eq_nil_iff_forall_not_mem]
          intro x hx
          have : x ∈ db.takeWhile (fun e => lexLt e.1 (suffix k maxSuffix)) :=
            (mem_takeWhile_sorted hs _ x).mpr ⟨(mem_entsOf.mp hx).1, hbelow x hx⟩
          rw [hbn] at this; cases this
        simp only
        rw [hnil hE]
      | some e' =>
        have hsb : Sorted (db.takeWhile (fun e => lexLt e.1 (suffix k maxSuffix))) := hs.sublist (List.takeWhile_sublist _)
        obtain ⟨he'b, hmaxb⟩ := sorted_getLast_max hsb hb
        obtain ⟨he', hlt'⟩ := (mem_takeWhile_sorted hs _ e').mp he'b
        have hmax : ∀ x ∈ entsOf db k, x = e' ∨ lexLt x.1 e'.1 = true := fun x hx =>
          hmaxb x ((mem_takeWhile_sorted hs _ x).mpr ⟨(mem_entsOf.mp hx).1, hbelow x hx⟩)
        simp only
        cases hck' : ckeyIs k e' with
        | true =>
          obtain ⟨i', h1, h2, h3⟩ := last_of_max hinv he' hck' hmax
          simp only [h1, h2, h3]
        | false =>
          have hE := ents_nil_of_foreign_above hinv hnc he' hck' hlt' hmax
          obtain ⟨k2, i2, hi2, hek2⟩ := hinv.wf e' he'
          have hne2 : k2 ≠ k := by
            intro h; subst h
            rw [(ckeyIs_iff hinv he' k2).mpr ⟨i2, hi2, hek2⟩] at hck'; cases hck'
          simp only [ionOf, hek2, unsuffix_suffix k2 hi2, hne2, ↓reduceIte]
          rw [hnil hE]

end Hio.Store
