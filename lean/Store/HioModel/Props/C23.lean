import HioModel.Store.QLemmas
/-!
# C23 — durable queues and sets behave as FIFO models and survive reopen

Property theorems only.  Model: `HioModel/Store/Queue.lean` (Durq, Dusq, Hold.inject/sync) over the lmdb /
IoSuber / IoSetSuber model of C24 (`HioModel/Store/Model.lean`), faithful to the `fix/store` tree (F37 repaired).

A history is any list of push / pull(emptive) / extend|update / clear / remove / count / REOPEN steps; `reopen`
(close the store, open it again, inject a fresh queue object at the key, which syncs) may occur between ANY two
operations.  `hrun` reports after every step: the result, the in-memory content, the durable content at the key.
`specHRun` is the FIFO queue (Durq) / insertion-ordered set with FIFO pull (Dusq) whose durable column is, by
definition, the content itself, and for which `reopen pre` keeps a non-empty content and turns an empty one into the
preload `pre` of the injected object (fresh object: `pre = []`, the identity).

FULL STATEMENT: for every history, `hrun … = specHRun …`.
* Durq: proved for every `cls` (no guard) — `durq_refines_fifo`.
* Dusq: FALSE when two values are `==` but serialise differently (`dusq_mirror_fails_without_guard`, DESIGN F38,
  known finding C23-K1); proved under `∀ a b, cls a = cls b → a = b` (`==` coincides with equality of
  serialisations) — `dusq_refines_oset_partial`.
Both are for a store satisfying the EXACT guard of C24 at the queue keys (`ExactAt K k B`: no other key of the store has its
ordinal-0 entry between `suffix k 0` and `suffix k B`, `B` ≥ the ordinals the history consumes; implied by "no key extends
another key ++ '.'").  `QInv` / `MInv` package: store well-formed, durable copy at the key(s) = in-memory content.
`hold_refines` is the one theorem for several queues in one Hold with reopen anywhere.
-/
namespace Hio.Store

section
variable {α : Type} [DecidableEq α] (cls : Bytes → α)

/-- Durq = FIFO queue, durable copy = content, reopen = identity; every history WITH REOPEN AT ARBITRARY POSITIONS
(the crash-point quantifier is inside: `HOp.reopen` is an operation of the history), any `==`. -/
theorem durq_refines_fifo (K : Bytes → Prop) (k : Bytes) (hk : K k) (B : Nat) (hE : ExactAt K k B) (hB : B < 16 ^ W)
    (hvk : validKey (suffix k 0) = true) (τ : St)
    (os : List HOp) (n : Nat) (db : Db) (q : Q) (hq : QInv K k .durq n db q.mem τ) (hst : q.stale = false) (hfit : n + htotal os ≤ B) :
    hrun cls .durq k db q os = specHRun cls .durq q.mem os :=
  hrun_refines cls (fun h => by cases h) hk hE hB hvk os n db q hq hst hfit

/-- Dusq = insertion-ordered set with FIFO pull (partial: `==` agrees with serialisation equality). -/
theorem dusq_refines_oset_partial (hinj : ∀ a b, cls a = cls b → a = b)
    (K : Bytes → Prop) (k : Bytes) (hk : K k) (B : Nat) (hE : ExactAt K k B) (hB : B < 16 ^ W)
    (hvk : validKey (suffix k 0) = true) (τ : St)
    (os : List HOp) (n : Nat) (db : Db) (q : Q) (hq : QInv K k .dusq n db q.mem τ) (hst : q.stale = false) (hfit : n + htotal os ≤ B) :
    hrun cls .dusq k db q os = specHRun cls .dusq q.mem os :=
  hrun_refines cls (fun _ => hinj) hk hE hB hvk os n db q hq hst hfit

/-- ONE REFINEMENT THEOREM for the whole Hold: several queues of one kind at the keys `keys` in one store, histories of
operations addressed to any of them — INCLUDING REJECTED CALLS (`MOp.a`: arguments as passed, `None` / foreign objects at
any position) — WITH REOPEN (close, open, fresh objects injected at every key, sync) AT ARBITRARY
POSITIONS.  After every step, for EVERY key: result, in-memory content and durable content are those of independent FIFO
queues / ordered sets (`specMRun`: durable column = content, reopen = identity, an operation on one key changes no other).
This contains `durable_mirror`, `reopen_restores` and key independence. -/
theorem hold_refines (kind : QKind) (hinj : kind = .dusq → ∀ a b, cls a = cls b → a = b)
    (K : Bytes → Prop) (B : Nat) (hG : ∀ k, K k → ExactAt K k B) (hB : B < 16 ^ W)
    (hvk : ∀ k, K k → validKey (suffix k 0) = true) (keys : List Bytes) (hnd : keys.Nodup) (hkeys : ∀ k ∈ keys, K k)
    (os : List MOp) (n : Nat) (db : Db) (ms : MS) (σ : St) (hm : MInv K kind keys n db ms) (hσ : ∀ k ∈ keys, σ k = (ms k).mem)
    (hos : ∀ o ∈ os, ∀ k, mkey o = some k → k ∈ keys) (hfit : n + mtotal keys os ≤ B) :
    mrun cls kind keys db ms os = specMRun cls kind keys σ os :=
  mrun_refines cls hinj hG hB hvk keys hnd hkeys os n db ms σ hm hσ hos hfit

/-- what reopen does in the specification, for EVERY preload handed to the new objects (fresh = empty preload, same /
permuted / shorter / longer / unrelated content): at every key of the Hold a non-empty content is kept — the durable
copy wins over the preload — and an empty one becomes the preload (as a list for Durq, as an ordered set for Dusq);
other keys are untouched.  With `hold_refines` this is `reopen_restores` for every preload, at every position. -/
theorem spec_reopen_any_preload (kind : QKind) (keys : List Bytes) (σ : St) (pre : Bytes → Option (List Bytes)) (k : Bytes) :
    (specM cls kind keys σ (.reopen pre)).2 = .bool true ∧
    (specM cls kind keys σ (.reopen pre)).1 k =
      if k ∈ keys then (match pre k with
        | some p => if σ k = [] then initS kind p else σ k     -- a NEW object preloaded with p
        | none => σ k) else σ k :=                                -- the SAME object re-injected: nothing changes
  ⟨rfl, rfl⟩

/-- REJECTED ⇒ IDENTITY, for every operation: whenever a method refuses its argument (`push(None)` → False; a non-RegDom
as push / remove argument or at ANY position of an extend|update batch → HierError; `count` of a foreign object → 0) the
store, the addressed queue and every other queue are exactly as before, and the specification treats the call as the
identity too (`specM`), so `hold_refines` covers histories in which rejected calls occur anywhere. -/
theorem rejected_op_is_identity (kind : QKind) (keys : List Bytes) (db : Db) (ms : MS) (σ : St) (k : Bytes) (ao : AOp) (r : QRes)
    (h : validate ao = .error r) :
    mstep cls kind keys db ms (.a k ao) = (db, ms, r) ∧ specM cls kind keys σ (.a k ao) = (σ, r) :=
  ⟨mstep_rejected cls kind keys db ms k ao r h, by simp only [specM, h]⟩

/-- which calls are rejected: exactly those with a `None` / foreign argument (any position of a batch) -/
theorem rejected_iff_bad_argument (ao : AOp) :
    (∃ r, validate ao = .error r) ↔
      (match ao with
       | .push a | .remove a | .count a => ∀ b, a ≠ .ok b
       | .extend as => ∃ a ∈ as, ∀ b, a ≠ .ok b
       | _ => False) := by
  cases ao with
  | push a => cases a <;> simp [validate]
  | remove a => cases a <;> simp [validate]
  | count a => cases a <;> simp [validate]
  | pull e => simp [validate]
  | clear => simp [validate]
  | sync f => simp [validate]
  | extend as =>
    simp only [validate]
    induction as with
    | nil => simp [argsOk]
    | cons a as ih =>
      cases a with
      | ok b =>
        simp only [argsOk, List.mem_cons, exists_eq_or_imp]
        cases h : argsOk as with
        | none => rw [h] at ih; simp at ih ⊢; exact ih
        | some bs => rw [h] at ih; simp at ih ⊢; exact ih
      | none => simp [argsOk]
      | junk => simp [argsOk]

/-- the specification side of key independence: an operation addressed to `k` leaves every other queue's content alone -/
theorem spec_other_queue_unchanged (kind : QKind) (keys : List Bytes) (σ : St) (k k' : Bytes) (o : QOp) (h : k' ≠ k) :
    (specM cls kind keys σ (.q k o)).1 k' = σ k' := by simp [specM, upd, h]

/-- DURABLE MIRROR: after every operation of every history (reopen anywhere) the durable content at the key is the
in-memory content, in the same order (Durq: any `cls`; Dusq: under the guard). -/
theorem durable_mirror (kind : QKind) (hinj : kind = .dusq → ∀ a b, cls a = cls b → a = b)
    (K : Bytes → Prop) (k : Bytes) (hk : K k) (B : Nat) (hE : ExactAt K k B) (hB : B < 16 ^ W)
    (hvk : validKey (suffix k 0) = true) (τ : St)
    (os : List HOp) (n : Nat) (db : Db) (q : Q) (hq : QInv K k kind n db q.mem τ) (hst : q.stale = false) (hfit : n + htotal os ≤ B) :
    ∀ x ∈ hrun cls kind k db q os, x.2.2 = .ok x.2.1 := by
  rw [hrun_refines cls hinj hk hE hB hvk os n db q hq hst hfit]
  exact specHRun_mirror cls kind os q.mem

/-- REOPEN RESTORES, for every preload: after ANY history (i.e. at any point between operations) closing, reopening and
injecting a new object built from ANY preload `pre` yields the content held before when that was non-empty (the preload
is discarded, whatever its length or content), and the preload itself when the queue was empty; the durable copy equals
the result either way. -/
theorem reopen_restores (kind : QKind) (hinj : kind = .dusq → ∀ a b, cls a = cls b → a = b)
    (K : Bytes → Prop) (k : Bytes) (hk : K k) (B : Nat) (hE : ExactAt K k B) (hB : B < 16 ^ W)
    (hvk : validKey (suffix k 0) = true) (τ : St)
    (os : List HOp) (n : Nat) (db : Db) (q : Q) (hq : QInv K k kind n db q.mem τ) (hst : q.stale = false) (pre : List Bytes)
    (hfit : n + htotal os + pre.length ≤ B) :
    ∃ db' q', hstep cls kind k (hfinal cls kind k db q os).1 (hfinal cls kind k db q os).2 (.reopen pre) = (db', q', .bool true) ∧
      q'.mem = (if (hfinal cls kind k db q os).2.mem = [] then initS kind pre else (hfinal cls kind k db q os).2.mem) ∧
      durable db' k = .ok q'.mem := by
  have hf := hfinal_inv cls hinj hk hE hB hvk os n db q hq hst (by omega)
  obtain ⟨db', q', h1, h2, h3⟩ := hstep_refines cls hinj hk hE hB hvk hf.1 hf.2 (.reopen pre) (by simp only [hweight]; omega)
  refine ⟨db', q', h1, h2, ?_⟩
  rw [durable, getIoVals_spec h3.rel.inv (h3.rel.noChild hE hB (by simp only [hweight]; omega)), h3.mirror]

/-- no `HierError` ("Mismatch between cache and durable") ever escapes, and `remove` never raises (F37 repaired) -/
theorem no_mismatch_error (kind : QKind) (hinj : kind = .dusq → ∀ a b, cls a = cls b → a = b)
    (K : Bytes → Prop) (k : Bytes) (hk : K k) (B : Nat) (hE : ExactAt K k B) (hB : B < 16 ^ W)
    (hvk : validKey (suffix k 0) = true) (τ : St)
    (os : List HOp) (n : Nat) (db : Db) (q : Q) (hq : QInv K k kind n db q.mem τ) (hst : q.stale = false) (hfit : n + htotal os ≤ B) :
    ∀ x ∈ hrun cls kind k db q os, x.1 ≠ .raise .hierError := by
  rw [hrun_refines cls hinj hk hE hB hvk os n db q hq hst hfit]
  exact specHRun_no_hier cls kind os q.mem

end

/-- the ordered-set content never holds a value twice (so "set" is meant) -/
theorem dusq_content_nodup (l : List Bytes) (h : l.Nodup) (o : HOp) : (specQ (fun b => b) .dusq l o).1.Nodup := by
  cases o with
  | reopen pre =>
    simp only [specQ]
    split
    · exact addAll_nodup pre List.nodup_nil
    · exact h
  | op o =>
    cases o with
    | sync f => exact h
    | push v => exact addOne_nodup v h
    | pull e => cases l with
      | nil => exact List.nodup_nil
      | cons a t => exact (List.nodup_cons.mp h).2
    | extend vs => exact addAll_nodup vs h
    | clear => exact List.nodup_nil
    | remove v => exact h.erase v
    | count v => exact h

/-! ## the guard is needed: F38 (replayed on the real code in `corpus()`) -/

/-- WITNESS (F38): two different serialisations of `==` values (`cls` constant).  After the second push the
in-memory set holds one value, the durable copy two; a reopen then restores one value over a durable copy of two;
two pulls later the second pull raises HierError. -/
theorem dusq_mirror_fails_without_guard :
    hrun (fun _ => 0) .dusq [113] [] ⟨[], true⟩ [.op (.push [1]), .op (.push [2]), .reopen [], .op (.pull true), .op (.pull true)] =
      [(.bool true, [[1]], .ok [[1]]),
       (.bool true, [[1]], .ok [[1], [2]]),
       (.bool true, [[1]], .ok [[1], [2]]),
       (.val (some [1]), [], .ok [[2]]),
       (.raise .hierError, [], .ok [])] := by decide +kernel

/-! ## the hypotheses are satisfiable -/

/-- the empty store with an empty queue at key "q", alone or next to other keys -/
example : QInv (fun k => k = [113] ∨ k = [114]) [113] .dusq 0 [] [] (fun _ => []) :=
  ⟨⟨inv_nil, by simp, (by intro e he; cases he), fun _ => rfl⟩, rfl, fun _ => List.nodup_nil, fun _ _ => rfl⟩

/-- … and the freshly built Hold over the empty store satisfies the invariant of `hold_refines` -/
example : MInv (fun k => k = [113] ∨ k = [114]) .dusq [[113], [114]] 0 [] (fun _ => ⟨[], false⟩) :=
  ⟨⟨inv_nil, by simp, (by intro e he; cases he), fun _ => rfl⟩, fun _ _ => ⟨rfl, fun _ => List.nodup_nil, rfl⟩⟩

example : ∀ k, (fun k => k = [113] ∨ k = [114]) k → ExactAt (fun k => k = [113] ∨ k = [114]) k 100000 := by
  intro k hk k' hk' hne
  rcases hk with rfl | rfl <;> rcases hk' with rfl | rfl <;> first | exact absurd rfl hne | decide +kernel

example : SepFree (fun k => k = [113] ∨ k = [114]) := by
  intro k k' hk hk' _
  rcases hk with rfl | rfl <;> rcases hk' with rfl | rfl <;> decide

example : ∀ a b : Bytes, (fun b => b) a = (fun b => b) b → a = b := fun _ _ h => h

/-- and the theorems say something on a concrete history (test, not the claim) -/
example : hrun (fun b => b) .dusq [113] [] ⟨[], true⟩ [.op (.extend [[1], [2], [1]]), .reopen [[9]], .op (.remove [1]), .op (.pull false), .op (.pull false)] =
    [(.bool true, [[1], [2]], .ok [[1], [2]]), (.bool true, [[1], [2]], .ok [[1], [2]]), (.bool true, [[2]], .ok [[2]]),
     (.val (some [2]), [], .ok []), (.raise .indexError, [], .ok [])] := by decide +kernel

end Hio.Store
