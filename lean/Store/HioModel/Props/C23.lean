import HioModel.Store.Queue
namespace Hio.Store
theorem c23_placeholder : True := trivial
end Hio.Store
