import HioModel.Store.Refine
import HioModel.Store.Plain
import HioModel.Store.Reach
import HioModel.Store.Converse
import HioModel.Store.Branch
/-!
# C24 — keyed durable stores match a dictionary model for all keys

Property theorems only.  Model: `HioModel/Store/Model.lean` (faithful to `hio.base.during` on the tree with F37 repaired);
constants and `suffix`/`unsuffix` probes regenerated from the source on every run (`HioModel/Gen/StoreConsts.lean`).

FULL STATEMENT (what the property asks): for EVERY key set `K` and every history `ops` over `K`,
    `(run kind watch [] ops).1 = specRun … ops`   (the sub-db answers like `Key → Val` / `Key → List Val` /
    `Key → ordered set`), and an operation on one key never changes what `get` of another key returns.
* plain `Suber`: proved at full strength (`plain_refines_dict`, `plain_getItemIter_spec`, `plain_cntAll_spec`, `plain_trim_spec`).
* `IoSuber` / `IoSetSuber`: FALSE for some key sets (`refines_dict_fails_without_guard`, DESIGN F39; `getLast_fails_without_guard`).
  Proved under the EXACT guard `ExactAt K k (β k)`: no other key of `K` has its ordinal-0 entry strictly between `suffix k 0`
  and `suffix k (β k)`, where `β k` ≥ the number of ordinals the history consumes, and `β k = MaxSuffix` for the keys `getLast`
  is asked about — `io_refines_dict_partial`, `ioset_refines_dict_partial`, `other_key_unchanged_partial`, `getLast_partial`.
  This guard is the complement of the known-finding triggers C24-K1 / C24-K2, and it is NECESSARY:
  `exact_guard_necessary` builds, from a violated pair, a three-operation history over `{k, k'}` on which store and dictionary
  differ (consuming ≤ N + 2 ordinals when the pair is violated at bound N); `exact_guard_necessary_last` does the same for getLast.
  At the level of one database: `scan_sees_all_under_guard` / `scan_short_without_contiguity` (contiguity ⇔ `get` correct).
  The simple guard `SepFree` (no key extends another key ++ sep) implies the exact one (`*_sepfree` corollaries).
* whole-sub-db methods of the io kinds hold with NO guard: `io_items_cntAll_spec`, `io_trim_all_spec`, `reachable_inv`,
  `reachable_no_valueError`.  `getItemIter(top)` / `trim(top)` of the io kinds with a NON-EMPTY top select by the SUFFIXED key
  (not a dictionary notion): modelled (`topItems`, `remTop`), tied by the correspondence only.
* ordinals: a history may consume fewer than `16^32` ordinals; beyond that the code prints a longer suffix and the model
  raises `OrdinalOverflow`.
-/
namespace Hio.Store

/-! ## the suffix encoding -/

/-- SUFFIX ORDER: for every key and all ordinals below 16^32 the byte order of the suffixed keys is the order
of the ordinals (the fixed-width hex suffix is order-isomorphic to the ordinal). -/
theorem suffix_order (k : Bytes) (i j : Nat) (hi : i < 16 ^ W) (hj : j < 16 ^ W) :
    lexLt (suffix k i) (suffix k j) = true ↔ i < j := suffix_lt_iff k hi hj

/-- `unsuffix` inverts `suffix` for every key (also keys containing the separator or hex digits) -/
theorem unsuffix_suffix_id (k : Bytes) (i : Nat) (hi : i < 16 ^ W) : unsuffix (suffix k i) = some (k, i) :=
  unsuffix_suffix k hi

/-! ## contiguity: the exact condition of the scan loops -/

/-- CONTIGUITY from the exact key-set guard: in a well-formed sub-db whose apparent keys lie in `K`, if no other key of `K`
has its ordinal-0 entry between `suffix k 0` and `suffix k B`, and the ordinals of `k` are ≤ B, then whatever sorts at or
after `suffix k 0` and before an entry of `k` is an entry of `k` (`NoChild k db`). -/
theorem contiguous_under_exact_guard (K : Bytes → Prop) (db : Db) (hinv : Inv db)
    (hkeys : ∀ e ∈ db, ∃ k, K k ∧ ckeyIs k e = true) (k : Bytes) (B : Nat) (hE : ExactAt K k B) (hB : B < 16 ^ W)
    (hions : KIonsBelow k (B + 1) db) (x e : Entry) (hx : x ∈ db) (he : e ∈ db) (hke : ckeyIs k e = true)
    (hlo : lexLt x.1 (suffix k 0) = false) (hhi : lexLt x.1 e.1 = true) : ckeyIs k x = true :=
  noChild_of_exact hinv hkeys hE hB hions x hx e he hke hlo hhi

/-- CONTIGUITY from the simple guard (DESIGN A.3): no other apparent key extends `k ++ sep` -/
theorem contiguous_under_guard (db : Db) (hinv : Inv db) (k : Bytes) (hnc : NoChildSyn k db) : NoChild k db :=
  noChild_of_syn hinv hnc

/-- contiguity ⇒ the scan for `k` returns exactly the entries of `k` … -/
theorem scan_sees_all_under_guard (db : Db) (hinv : Inv db) (k : Bytes) (hnc : NoChild k db) :
    getIoVals db k = .ok (absIo db k) := getIoVals_spec hinv hnc

/-- … and without it `get(k)` returns strictly fewer values than the dictionary holds (so contiguity is exactly right) -/
theorem scan_short_without_contiguity (db : Db) (hinv : Inv db) (k : Bytes) (x e : Entry) (hx : x ∈ db) (he : e ∈ db)
    (hke : ckeyIs k e = true) (hlo : lexLt x.1 (suffix k 0) = false) (hhi : lexLt x.1 e.1 = true) (hxk : ckeyIs k x = false) :
    ∃ vs, getIoVals db k = .ok vs ∧ vs.length < (absIo db k).length :=
  get_short_of_not_contiguous hinv hx he hke hlo hhi hxk

/-! ## refinement -/

/-- PLAIN Suber = dictionary `Key → Val`, for every history over legal lmdb keys (no guard). -/
theorem plain_refines_dict (watch : List Bytes) (hwatch : ∀ w ∈ watch, validKey w = true) (ops : List Op)
    (out : List (Res × List Res)) (h : specRunPlain watch (fun _ => none) ops = some out) :
    (run .plain watch [] ops).1 = out :=
  plain_run_refines watch hwatch ops [] _ ⟨sorted_nil, fun _ => rfl⟩ out h

/-- IoSuber = dictionary `Key → List Val` under the EXACT guard.  For every key set `K`, bound `β`, every history over `K`
in the dictionary language (add put pin get iter getFirst getLast pop rem cnt), every watched key: each result and each `get`
after each operation is what the dictionary gives. -/
theorem io_refines_dict_partial (K : Bytes → Prop) (β : Bytes → Nat) (hG : ∀ k, K k → ExactAt K k (β k))
    (hvk : ∀ k, K k → validKey (suffix k 0) = true)
    (watch : List Bytes) (hwatch : ∀ w ∈ watch, K w) (ops : List Op)
    (hkeys : ∀ op ∈ ops, ∀ k, opKey op = some k → K k) (hfit : totalWeight ops < 16 ^ W)
    (hβ : ∀ k, K k → totalWeight ops ≤ β k ∧ β k < 16 ^ W) (hlast : ∀ k, Op.last k ∈ ops → β k = maxSuffix)
    (out : List (Res × List Res)) (h : specRun false watch (fun _ => []) ops = some out) :
    (run .io watch [] ops).1 = out :=
  io_run_refines β hG hvk false watch hwatch ops 0 [] _ (rel_nil K) hkeys (by simpa using hβ) (by omega) hlast out h

/-- IoSetSuber = dictionary `Key → insertion-ordered set` under the EXACT guard (incl. rem(val)). -/
theorem ioset_refines_dict_partial (K : Bytes → Prop) (β : Bytes → Nat) (hG : ∀ k, K k → ExactAt K k (β k))
    (hvk : ∀ k, K k → validKey (suffix k 0) = true)
    (watch : List Bytes) (hwatch : ∀ w ∈ watch, K w) (ops : List Op)
    (hkeys : ∀ op ∈ ops, ∀ k, opKey op = some k → K k) (hfit : totalWeight ops < 16 ^ W)
    (hβ : ∀ k, K k → totalWeight ops ≤ β k ∧ β k < 16 ^ W) (hlast : ∀ k, Op.last k ∈ ops → β k = maxSuffix)
    (out : List (Res × List Res)) (h : specRun true watch (fun _ => []) ops = some out) :
    (run .ioset watch [] ops).1 = out :=
  io_run_refines β hG hvk true watch hwatch ops 0 [] _ (rel_nil K) hkeys (by simpa using hβ) (by omega) hlast out h

/-- corollary for the simple guard: a key set in which no key extends another key ++ sep, any history, incl. getLast -/
theorem io_refines_dict_sepfree (set : Bool) (K : Bytes → Prop) (hK : SepFree K) (hvk : ∀ k, K k → validKey (suffix k 0) = true)
    (watch : List Bytes) (hwatch : ∀ w ∈ watch, K w) (ops : List Op)
    (hkeys : ∀ op ∈ ops, ∀ k, opKey op = some k → K k) (hfit : totalWeight ops < 16 ^ W)
    (out : List (Res × List Res)) (h : specRun set watch (fun _ => []) ops = some out) :
    (run (kindOf set) watch [] ops).1 = out :=
  io_run_refines (fun _ => maxSuffix) (fun k hk => exactAt_of_sepFree hK hk maxSuffix) hvk set watch hwatch ops 0 [] _ (rel_nil K) hkeys
    (fun _ _ => ⟨by have := maxSuffix_succ; omega, maxSuffix_lt⟩) (by omega) (fun _ _ => rfl) out h

/-- the ordered-set dictionary really holds sets: no operation of the specification introduces a duplicate -/
theorem spec_ioset_add_nodup (l : List Bytes) (v : Bytes) (h : l.Nodup) :
    (if l.contains v then l else l ++ [v]).Nodup := by
  split
  · exact h
  · rename_i hc
    rw [List.nodup_append]
    refine ⟨h, by simp, ?_⟩
    intro a ha b hb
    simp only [List.mem_singleton] at hb; subst hb
    intro e; subst e
    exact hc (List.contains_iff_mem.mpr ha)

/-- OTHER KEYS (same exact guard): from any state that represents a dictionary over `K`, an operation on `k` leaves
`get k'` unchanged for every other key `k'` of the set. -/
theorem other_key_unchanged_partial (K : Bytes → Prop) (β : Bytes → Nat) (hG : ∀ k, K k → ExactAt K k (β k))
    (hvk : ∀ k, K k → validKey (suffix k 0) = true)
    (set : Bool) (n : Nat) (db : Db) (σ : St) (hr : Rel K n db σ) (op : Op) (σ' : St) (r : Res)
    (hspec : specIo set σ op = some (σ', r)) (k k' : Bytes) (hop : opKey op = some k) (hk : K k) (hk' : K k')
    (hne : k' ≠ k) (hfit : n + opWeight op ≤ 16 ^ W) (hβ : ∀ k, K k → n + opWeight op ≤ β k ∧ β k < 16 ^ W)
    (hlast : ∀ k, op = .last k → β k = maxSuffix) :
    observe (kindOf set) (step (kindOf set) db op).1 k' = observe (kindOf set) db k' := by
  obtain ⟨db', h1, h2⟩ := io_step_refines β hG hvk set hr op hspec
    (fun k0 h0 => by rw [hop] at h0; cases h0; exact hk) hfit
    (fun k hk => ⟨by have := (hβ k hk).1; omega, (hβ k hk).2⟩) hlast
  rw [h1, observe_spec set h2 (hG k' hk') (hβ k' hk').2 (hβ k' hk').1,
    observe_spec set hr (hG k' hk') (hβ k' hk').2 (by have := (hβ k' hk').1; omega), specIo_frame hspec hop hne]

/-- getLast (exact guard at MaxSuffix): the last element of the dictionary's list -/
theorem getLast_partial (K : Bytes → Prop) (db : Db) (hinv : Inv db) (hkeys : ∀ e ∈ db, ∃ k, K k ∧ ckeyIs k e = true)
    (k : Bytes) (hE : ExactAt K k maxSuffix) : getIoValLast db k = .ok (absIo db k).getLast? :=
  getIoValLast_spec hinv (noChildMax_of_exact hinv hkeys hE)

/-! ## the exact guard is necessary -/

/-- NECESSITY (complement of the C24-K1 trigger): if `suffix k 0 < suffix k' 0 < suffix k N`, there is a history over
`{k, k'}` consuming at most `N + 2` ordinals that the store answers differently from the dictionary. -/
theorem exact_guard_is_necessary (k k' : Bytes) (hne : k' ≠ k) (hk : validKey (suffix k 0) = true)
    (hk' : validKey (suffix k' 0) = true) (N : Nat) (hN : N + 2 ≤ 16 ^ W)
    (h1 : lexLt (suffix k 0) (suffix k' 0) = true) (h2 : lexLt (suffix k' 0) (suffix k N) = true) :
    ∃ ops out, (∀ op ∈ ops, opKey op = some k ∨ opKey op = some k') ∧ totalWeight ops ≤ N + 2 ∧
      specRun false [] (fun _ => []) ops = some out ∧ (run .io [] [] ops).1 ≠ out :=
  exact_guard_necessary k k' hne hk hk' N hN h1 h2

/-- NECESSITY for getLast (complement of the C24-K2 trigger): `add k; add k'; getLast k` answers None, the dictionary `v` -/
theorem exact_guard_is_necessary_last (k k' : Bytes) (hne : k' ≠ k) (hk : validKey (suffix k 0) = true)
    (hk' : validKey (suffix k' 0) = true)
    (h1 : lexLt (suffix k 0) (suffix k' 0) = true) (h2 : lexLt (suffix k' 0) (suffix k maxSuffix) = true) :
    (run .io [] [] [.add k [118], .add k' [119], .last k]).1 = [(.bool true, []), (.bool true, []), (.opt none, [])] ∧
    specRun false [] (fun _ => []) [.add k [118], .add k' [119], .last k] =
      some [(.bool true, []), (.bool true, []), (.opt (some [118]), [])] :=
  last_history_fails k k' hne hk hk' h1 h2

/-! ## branches, counts (public methods beyond the per-key ones) -/

/-- plain getItemIter(top) / getFullItemIter(top): exactly the dictionary's items whose key starts with `top`, each key once -/
theorem plain_getItemIter_spec (db : Db) (σ : PSt) (hr : PRel db σ) (top : Bytes) :
    ∃ l, step .plain db (.itemsTop top) = (db, .pairs l) ∧ step .plain db (.fullItems top) = (db, .pairs l) ∧ Sorted l ∧
      ∀ k v, (k, v) ∈ l ↔ σ k = some v ∧ top <+: k := plain_itemsTop_spec hr top

/-- plain cntAll: the number of keys of the dictionary -/
theorem plain_cntAll_is_size (db : Db) (σ : PSt) (hr : PRel db σ) :
    ∃ ks : List Bytes, ks.Nodup ∧ (∀ k, k ∈ ks ↔ (σ k).isSome = true) ∧ step .plain db .cntAll = (db, .nat ks.length) :=
  plain_cntAll_spec hr

/-- plain trim(top): deletes exactly the keys with that prefix; True iff there was one -/
theorem plain_trim_is_prefix_delete (db : Db) (σ : PSt) (hr : PRel db σ) (top : Bytes) :
    ∃ db' b, step .plain db (.trim top) = (db', .bool b) ∧ PRel db' (fun k => if top <+: k then none else σ k) ∧
      (b = true ↔ ∃ k, top <+: k ∧ (σ k).isSome = true) := plain_trim_spec hr top

/-- io kinds, NO guard: getItemIter() of the whole sub-db lists, for every key, the dictionary's values in order;
cntAll is the number of those items -/
theorem io_items_cntAll_spec (kind : Kind) (hkind : kind ≠ .plain) (db : Db) (hinv : Inv db) :
    ∃ l, step kind db .items = (db, .pairs l) ∧ step kind db (.itemsTop []) = (db, .pairs l) ∧
      step kind db .cntAll = (db, .nat l.length) ∧
      ∀ k, (l.filter (fun p => p.1 == k)).map (·.2) = absIo db k := io_items_spec hkind hinv

/-- io kinds, NO guard: trim() of everything leaves the empty sub-db -/
theorem io_trim_all_empties (kind : Kind) (db : Db) (hinv : Inv db) :
    step kind db (.trim []) = ([], .bool (!db.isEmpty)) := io_trim_all_spec hinv

/-! ## rejected writes -/

/-- REJECTED ⇒ IDENTITY: a put / add (all kinds) or a plain pin whose value - or any element of its batch, at any position -
is not str/bytes raises TypeError and changes nothing; so does the io kinds' pin on a tree whose pin is atomic (flag
`Gen.pinAtomic`, probed from the code on every run; known finding C24-K3 where it is not). -/
theorem rejected_write_is_identity (kind : Kind) (db : Db) (isPin : Bool) (k : Bytes)
    (h : kind = .plain ∨ isPin = false ∨ Hio.Gen.pinAtomic = true) :
    ∃ e, step kind db (.bad isPin k) = (db, .raise e) := by
  cases kind with
  | plain => exact ⟨_, rfl⟩
  | io =>
    by_cases hv : validKey (suffix k 0) = true
    · exact ⟨.typeError, by rcases h with h | h | h <;> simp_all [step]⟩
    · exact ⟨.badValsize, by simp [step, hv]⟩
  | ioset =>
    by_cases hv : validKey (suffix k 0) = true
    · exact ⟨.typeError, by rcases h with h | h | h <;> simp_all [step]⟩
    · exact ⟨.badValsize, by simp [step, hv]⟩

/-! ## unguarded: what holds for EVERY key set (also the F39 ones) -/

/-- REACHABLE ⇒ WELL-FORMED: whatever history of IoSuber / IoSetSuber operations over whatever keys, the sub-db stays
sorted with every key of the form `suffix k i`, `i < 16^32` (so the `int(…, 16)` corner of `unsuffix` that the model does
not reproduce is unreachable). -/
theorem reachable_inv (kind : Kind) (hkind : kind ≠ .plain) (watch : List Bytes) (ops : List Op) :
    Inv (run kind watch [] ops).2 := (run_good hkind watch ops [] inv_nil).1

/-- … and no operation of any history raises `ValueError` out of a scan loop. -/
theorem reachable_no_valueError (kind : Kind) (hkind : kind ≠ .plain) (watch : List Bytes) (ops : List Op) :
    ∀ x ∈ (run kind watch [] ops).1, x.1 ≠ .raise .valueError := (run_good hkind watch ops [] inv_nil).2

/-! ## the guard is needed: F39 (replayed on the real code in `corpus()`) -/

def kK : Bytes := [107]                       -- "k"
def kK0 : Bytes := suffix kK 0                -- "k.00000000000000000000000000000000": a key that looks like entry 0 of "k"
def f39ops : List Op :=
  [.add kK [118, 48], .add kK [118, 49], .add kK [118, 50], .add kK0 [119, 48], .get kK, .cnt kK, .add kK [118, 51], .get kK]

/-- the dictionary: three values, count 3, then four values -/
theorem f39_dictionary_says :
    (specRun false [] (fun _ => []) f39ops).map (·.map (·.1)) =
      some [.bool true, .bool true, .bool true, .bool true, .vals [[118, 48], [118, 49], [118, 50]], .nat 3, .bool true,
            .vals [[118, 48], [118, 49], [118, 50], [118, 51]]] := by decide +kernel

/-- WITNESS (F39): the store returns ONE of the three values, counts 1, and the next add recomputes ordinal 1 and
overwrites the stored `v1` (final raw content) -/
theorem refines_dict_fails_without_guard :
    (run .io [] [] f39ops).1.map (·.1) =
      [.bool true, .bool true, .bool true, .bool true, .vals [[118, 48]], .nat 1, .bool true, .vals [[118, 48]]] ∧
    (run .io [] [] f39ops).2 =
      [(suffix kK 0, [118, 48]), (suffix kK0 0, [119, 48]), (suffix kK 1, [118, 51]), (suffix kK 2, [118, 50])] := by
  decide +kernel

/-- the witness key set violates the guard -/
theorem f39_keys_not_sepfree : ¬ SepFree (fun k => k = kK ∨ k = kK0) := by
  intro h
  exact h kK kK0 (Or.inl rfl) (Or.inr rfl) (by decide) (by decide +kernel)

/-- … nor the exact guard at the bound of the witness history (4 ordinals) -/
theorem f39_keys_not_exact : ¬ ExactAt (fun k => k = kK ∨ k = kK0) kK 4 := by
  intro h
  rcases h kK0 (Or.inr rfl) (by decide +kernel) with h | h
  · revert h; decide +kernel
  · revert h; decide +kernel

/-- WITNESS (K2): with keys "a" and "a.b", `getLast "a"` answers None although "a" holds a value -/
theorem getLast_fails_without_guard :
    (run .io [[97]] [] [.add [97] [49], .add [97, 46, 98] [50], .last [97]]).1 =
      [(.bool true, [.vals [[49]]]), (.bool true, [.vals [[49]]]), (.opt none, [.vals [[49]]])] := by decide +kernel

/-! ## regenerated constants and probes (re-checked against the source on every run) -/

theorem gen_maxSuffix : maxSuffix + 1 = 16 ^ W := by decide +kernel
theorem gen_sep_not_hex : hexVal sepB = none := by decide
theorem gen_width_pos : 0 < W := by decide

/-- the model's `suffix` / `unsuffix` agree with `Duror.suffix` / `Duror.unsuffix` on the probe table -/
theorem gen_suffix_probes :
    Hio.Gen.suffixProbes.all (fun p => suffix p.1 p.2.1 == p.2.2.1 && unsuffix p.2.2.1 == some (p.2.2.2.1, p.2.2.2.2)) = true := by
  decide +kernel

/-! ## the hypotheses are satisfiable -/

/-- a sep-prefix-free key set with keys that are prefixes of each other, contain the separator and hex digits -/
def exK : Bytes → Prop := fun k => k = [97] ∨ k = [97, 98] ∨ k = [98, 46, 99] ∨ k = [48, 48] ∨ k = [97, 45]

example : SepFree exK := by
  intro k k' hk hk' _
  rcases hk with rfl | rfl | rfl | rfl | rfl <;> rcases hk' with rfl | rfl | rfl | rfl | rfl <;> decide

example : ∀ k, exK k → validKey (suffix k 0) = true := by
  intro k hk
  rcases hk with rfl | rfl | rfl | rfl | rfl <;> decide +kernel

/-- the exact guard admits key sets the simple one rejects: "a" and "a.b" for histories without getLast("a") -/
example : ∀ k, (fun k => k = [97] ∨ k = [97, 46, 98]) k → ExactAt (fun k => k = [97] ∨ k = [97, 46, 98]) k 1000 := by
  intro k hk k' hk' hne
  rcases hk with rfl | rfl <;> rcases hk' with rfl | rfl <;> first | exact absurd rfl hne | decide +kernel

/-- a non-trivial history over that key set to which `ioset_refines_dict_partial` applies -/
example : (specRun true [[97], [97, 98]] (fun _ => [])
    [.add [97] [1], .add [97, 98] [2], .putL [97] [[1], [3], [3]], .pop [97], .remv [97] [3], .get [97]]).isSome = true := by
  decide +kernel

end Hio.Store
