import HioModel.Store.Refine
import HioModel.Store.Plain
import HioModel.Store.Reach
/-!
# C24 — keyed durable stores match a dictionary model for all keys

Property theorems only.  Model: `HioModel/Store/Model.lean` (faithful to `hio.base.during` on the `fix/store`
tree); constants and `suffix`/`unsuffix` probes regenerated from the source on every run
(`HioModel/Gen/StoreConsts.lean`).

FULL STATEMENT (what the property asks): for EVERY key set `K` and every history `ops` of put / pin / add / get /
pop / rem / cnt over `K`,
    `(run kind watch [] ops).1 = specRun … ops`   (the sub-db answers like `Key → Val` / `Key → List Val` /
    `Key → ordered set`), and an operation on one key never changes what `get` of another key returns.
* plain `Suber`: proved at full strength (`plain_refines_dict`).
* `IoSuber` / `IoSetSuber`: FALSE without a guard on the key set (`refines_dict_fails_without_guard`, DESIGN F39:
  with keys `k` and `k.<32 hex of 0>` a `get(k)` returns one of three values, `cnt` is 1 and the next `add`
  overwrites a stored value; `getLast_fails_without_guard`: keys `a` and `a.b` suffice for `getLast`).  Proved for every
  history over a key set in which no key extends another key ++ separator (`SepFree`) — `io_refines_dict_partial`,
  `ioset_refines_dict_partial`, `other_key_unchanged_partial`.  The unguarded cases are known findings C24-K1 / C24-K2.
* `getItemIter` and `cntAll` are carried by the correspondence only (not in the dictionary language here);
  `getFirst` / `getLast` are in it (head / last of the list).
* ordinals: a history may consume at most `16^32` ordinals (`totalWeight ops ≤ 16^W`); beyond that the code
  prints a longer suffix and the model raises `OrdinalOverflow`.
-/
namespace Hio.Store

/-! ## the suffix encoding -/

/-- SUFFIX ORDER: for every key and all ordinals below 16^32 the byte order of the suffixed keys is the order
of the ordinals (the fixed-width hex suffix is order-isomorphic to the ordinal). -/
theorem suffix_order (k : Bytes) (i j : Nat) (hi : i < 16 ^ W) (hj : j < 16 ^ W) :
    lexLt (suffix k i) (suffix k j) = true ↔ i < j := suffix_lt_iff k hi hj

/-- `unsuffix` inverts `suffix` for every key (also keys containing the separator or hex digits) -/
theorem unsuffix_suffix_id (k : Bytes) (i : Nat) (hi : i < 16 ^ W) : unsuffix (suffix k i) = some (k, i) :=
  unsuffix_suffix k hi

/-- CONTIGUITY (DESIGN A.3): in a well-formed sub-db in which no other key extends `k ++ sep`, whatever sorts at
or after the first possible entry of `k` and before an entry of `k` is itself an entry of `k` — so every
scan loop, which stops at the first foreign key, sees all entries of `k`. -/
theorem contiguous_under_guard (db : Db) (hinv : Inv db) (k : Bytes) (hnc : NoChild k db) (x e : Entry)
    (hx : x ∈ db) (he : e ∈ db) (hke : ckeyIs k e = true)
    (hlo : lexLt x.1 (suffix k 0) = false) (hhi : lexLt x.1 e.1 = true) : ckeyIs k x = true :=
  contiguous hinv hnc hx he hke hlo hhi

/-- … and therefore the scan for `k` returns exactly the entries of `k` -/
theorem scan_sees_all_under_guard (db : Db) (hinv : Inv db) (k : Bytes) (hnc : NoChild k db) :
    getIoVals db k = .ok (absIo db k) := getIoVals_spec hinv hnc

/-! ## refinement -/

/-- PLAIN Suber = dictionary `Key → Val`, for every history over legal lmdb keys (no guard). -/
theorem plain_refines_dict (watch : List Bytes) (hwatch : ∀ w ∈ watch, validKey w = true) (ops : List Op)
    (out : List (Res × List Res)) (h : specRunPlain watch (fun _ => none) ops = some out) :
    (run .plain watch [] ops).1 = out :=
  plain_run_refines watch hwatch ops [] _ ⟨sorted_nil, fun _ => rfl⟩ out h

/-- IoSuber = dictionary `Key → List Val` (partial: key set sep-prefix-free).  For every such key set `K`, every
history over `K` in the dictionary language, and every watched key, each result and each `get` after each
operation is what the dictionary gives. -/
theorem io_refines_dict_partial (K : Bytes → Prop) (hK : SepFree K) (hvk : ∀ k, K k → validKey (suffix k 0) = true)
    (watch : List Bytes) (hwatch : ∀ w ∈ watch, K w) (ops : List Op)
    (hkeys : ∀ op ∈ ops, ∀ k, opKey op = some k → K k) (hfit : totalWeight ops ≤ 16 ^ W)
    (out : List (Res × List Res)) (h : specRun false watch (fun _ => []) ops = some out) :
    (run .io watch [] ops).1 = out :=
  io_run_refines hK hvk false watch hwatch ops 0 [] _ (rel_nil K) hkeys (by omega) out h

/-- IoSetSuber = dictionary `Key → insertion-ordered set` (partial: key set sep-prefix-free). -/
theorem ioset_refines_dict_partial (K : Bytes → Prop) (hK : SepFree K) (hvk : ∀ k, K k → validKey (suffix k 0) = true)
    (watch : List Bytes) (hwatch : ∀ w ∈ watch, K w) (ops : List Op)
    (hkeys : ∀ op ∈ ops, ∀ k, opKey op = some k → K k) (hfit : totalWeight ops ≤ 16 ^ W)
    (out : List (Res × List Res)) (h : specRun true watch (fun _ => []) ops = some out) :
    (run .ioset watch [] ops).1 = out :=
  io_run_refines hK hvk true watch hwatch ops 0 [] _ (rel_nil K) hkeys (by omega) out h

/-- the ordered-set dictionary really holds sets: no operation of the specification introduces a duplicate -/
theorem spec_ioset_add_nodup (l : List Bytes) (v : Bytes) (h : l.Nodup) :
    (if l.contains v then l else l ++ [v]).Nodup := by
  split
  · exact h
  · rename_i hc
    rw [List.nodup_append]
    refine ⟨h, by simp, ?_⟩
    intro a ha b hb
    simp only [List.mem_singleton] at hb; subst hb
    intro e; subst e
    exact hc (List.contains_iff_mem.mpr ha)

/-- OTHER KEYS (partial, same guard): from any state that represents a dictionary over a sep-prefix-free key
set, an operation on `k` leaves `get k'` unchanged for every other key `k'` of the set. -/
theorem other_key_unchanged_partial (K : Bytes → Prop) (hK : SepFree K) (hvk : ∀ k, K k → validKey (suffix k 0) = true)
    (set : Bool) (n : Nat) (db : Db) (σ : St) (hr : Rel K n db σ) (op : Op) (σ' : St) (r : Res)
    (hspec : specIo set σ op = some (σ', r)) (k k' : Bytes) (hop : opKey op = some k) (hk : K k) (hk' : K k')
    (hne : k' ≠ k) (hfit : n + opWeight op ≤ 16 ^ W) :
    observe (kindOf set) (step (kindOf set) db op).1 k' = observe (kindOf set) db k' := by
  obtain ⟨db', h1, h2⟩ := io_step_refines hK hvk set hr op hspec
    (fun k0 h0 => by rw [hop] at h0; cases h0; exact hk) hfit
  rw [h1, observe_spec hK set h2 hk', observe_spec hK set hr hk', specIo_frame hspec hop hne]

/-! ## unguarded: what holds for EVERY key set (also the F39 ones) -/

/-- REACHABLE ⇒ WELL-FORMED: whatever history of IoSuber / IoSetSuber operations over whatever keys, the sub-db stays
sorted with every key of the form `suffix k i`, `i < 16^32` (so the `int(…, 16)` corner of `unsuffix` that the model does
not reproduce is unreachable). -/
theorem reachable_inv (kind : Kind) (hkind : kind ≠ .plain) (watch : List Bytes) (ops : List Op) :
    Inv (run kind watch [] ops).2 := (run_good hkind watch ops [] inv_nil).1

/-- … and no operation of any history raises `ValueError` out of a scan loop. -/
theorem reachable_no_valueError (kind : Kind) (hkind : kind ≠ .plain) (watch : List Bytes) (ops : List Op) :
    ∀ x ∈ (run kind watch [] ops).1, x.1 ≠ .raise .valueError := (run_good hkind watch ops [] inv_nil).2

/-! ## the guard is needed: F39 (replayed on the real code in `corpus()`) -/

def kK : Bytes := [107]                       -- "k"
def kK0 : Bytes := suffix kK 0                -- "k.00000000000000000000000000000000": a key that looks like entry 0 of "k"
def f39ops : List Op :=
  [.add kK [118, 48], .add kK [118, 49], .add kK [118, 50], .add kK0 [119, 48], .get kK, .cnt kK, .add kK [118, 51], .get kK]

/-- the dictionary: three values, count 3, then four values -/
theorem f39_dictionary_says :
    (specRun false [] (fun _ => []) f39ops).map (·.map (·.1)) =
      some [.bool true, .bool true, .bool true, .bool true, .vals [[118, 48], [118, 49], [118, 50]], .nat 3, .bool true,
            .vals [[118, 48], [118, 49], [118, 50], [118, 51]]] := by decide +kernel

/-- WITNESS (F39): the store returns ONE of the three values, counts 1, and the next add recomputes ordinal 1 and
overwrites the stored `v1` (final raw content) -/
theorem refines_dict_fails_without_guard :
    (run .io [] [] f39ops).1.map (·.1) =
      [.bool true, .bool true, .bool true, .bool true, .vals [[118, 48]], .nat 1, .bool true, .vals [[118, 48]]] ∧
    (run .io [] [] f39ops).2 =
      [(suffix kK 0, [118, 48]), (suffix kK0 0, [119, 48]), (suffix kK 1, [118, 51]), (suffix kK 2, [118, 50])] := by
  decide +kernel

/-- the witness key set violates the guard -/
theorem f39_keys_not_sepfree : ¬ SepFree (fun k => k = kK ∨ k = kK0) := by
  intro h
  exact h kK kK0 (Or.inl rfl) (Or.inr rfl) (by decide) (by decide +kernel)

/-- getLast under the guard (partial): the last element of the dictionary's list -/
theorem getLast_partial (db : Db) (hinv : Inv db) (k : Bytes) (hnc : NoChild k db) :
    getIoValLast db k = .ok (absIo db k).getLast? := getIoValLast_spec hinv hnc

/-- WITNESS (K2): with keys "a" and "a.b", `getLast "a"` answers None although "a" holds a value -/
theorem getLast_fails_without_guard :
    (run .io [[97]] [] [.add [97] [49], .add [97, 46, 98] [50], .last [97]]).1 =
      [(.bool true, [.vals [[49]]]), (.bool true, [.vals [[49]]]), (.opt none, [.vals [[49]]])] := by decide +kernel

/-! ## regenerated constants and probes (re-checked against the source on every run) -/

theorem gen_maxSuffix : maxSuffix + 1 = 16 ^ W := by decide +kernel
theorem gen_sep_not_hex : hexVal sepB = none := by decide
theorem gen_width_pos : 0 < W := by decide

/-- the model's `suffix` / `unsuffix` agree with `Duror.suffix` / `Duror.unsuffix` on the probe table -/
theorem gen_suffix_probes :
    Hio.Gen.suffixProbes.all (fun p => suffix p.1 p.2.1 == p.2.2.1 && unsuffix p.2.2.1 == some (p.2.2.2.1, p.2.2.2.2)) = true := by
  decide +kernel

/-! ## the hypotheses are satisfiable -/

/-- a sep-prefix-free key set with keys that are prefixes of each other, contain the separator and hex digits -/
def exK : Bytes → Prop := fun k => k = [97] ∨ k = [97, 98] ∨ k = [98, 46, 99] ∨ k = [48, 48] ∨ k = [97, 45]

example : SepFree exK := by
  intro k k' hk hk' _
  rcases hk with rfl | rfl | rfl | rfl | rfl <;> rcases hk' with rfl | rfl | rfl | rfl | rfl <;> decide

example : ∀ k, exK k → validKey (suffix k 0) = true := by
  intro k hk
  rcases hk with rfl | rfl | rfl | rfl | rfl <;> decide +kernel

/-- a non-trivial history over that key set to which `ioset_refines_dict_partial` applies -/
example : (specRun true [[97], [97, 98]] (fun _ => [])
    [.add [97] [1], .add [97, 98] [2], .putL [97] [[1], [3], [3]], .pop [97], .remv [97] [3], .get [97]]).isSome = true := by
  decide +kernel

end Hio.Store
