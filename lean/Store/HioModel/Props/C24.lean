import HioModel.Store.Model
namespace Hio.Store
theorem c24_placeholder : True := trivial
end Hio.Store
