/-!
# Model of `hio.help.naming.Namer` (faithful to the current source)

A Python `dict` is an association list with first-match lookup; assignment removes any
older binding of the key and adds the new one; `del d[k]` raises `KeyError` when `k` is
absent.  Exceptions are values: every operation returns the state it leaves behind
(a Python exception does not roll back earlier statements) together with
`Except Exn Out`.  The model is polymorphic in the key types; truthiness (`not name`)
is a parameter.
-/
namespace Hio.Namer

inductive Exn | namerError | keyError | typeError
deriving Repr, DecidableEq

abbrev Map (κ υ : Type) := List (κ × υ)

namespace Map
variable {κ υ : Type} [DecidableEq κ]

/-- `d.get(k)` / `d[k]` / `k in d` -/
def get : Map κ υ → κ → Option υ
  | [], _ => none
  | (k', v) :: m, k => if k' = k then some v else get m k

/-- every binding of `k` removed -/
def drop : Map κ υ → κ → Map κ υ
  | [], _ => []
  | (k', v) :: m, k => if k' = k then drop m k else (k', v) :: drop m k

/-- `d[k] = v` -/
def set (m : Map κ υ) (k : κ) (v : υ) : Map κ υ := (k, v) :: drop m k

/-- `del d[k]` -/
def del (m : Map κ υ) (k : κ) : Except Exn (Map κ υ) :=
  match get m k with
  | some _ => .ok (drop m k)
  | none => .error .keyError

def keys (m : Map κ υ) : List κ := m.map Prod.fst
end Map

/-- Python truthiness of a key (`not name`) and whether it can be hashed at all: every dict operation
(`k in d`, `d.get(k)`, `d[k]`, `d[k] = v`, `del d[k]`) on an unhashable key (a list, a dict) raises `TypeError` -/
class Truthy (α : Type) where
  truthy : α → Bool
  hashable : α → Bool
export Truthy (truthy hashable)

structure State (N A : Type) where
  n2a : Map N A     -- `_addrByName`
  a2n : Map A N     -- `_nameByAddr`

inductive Op (N A : Type)
  | add (n : N) (a : A)        -- addNameAddr(name, addr)
  | rem (n : N) (a : A)        -- remNameAddr(name, addr)   (None is a falsy key)
  | chgAddr (n : N) (a : A)    -- changeAddrAtName(name=, addr=)
  | chgName (a : A) (n : N)    -- changeNameAtAddr(addr=, name=)
  | clear                      -- clearAllNameAddr()
  | getAddr (n : N)            -- getAddr(name)
  | getName (a : A)            -- getName(addr)
  | count                      -- countNameAddr

inductive Out (N A : Type)
  | bool (b : Bool)
  | addr (a : Option A)
  | name (n : Option N)
  | nat (k : Nat)
  | unit

variable {N A : Type} [DecidableEq N] [DecidableEq A] [Truthy N] [Truthy A]

def empty : State N A := ⟨[], []⟩

/-- the two `del` statements shared by both branches of `remNameAddr`: `del _addrByName[name]; del _nameByAddr[addr]` -/
def delBoth (s : State N A) (n : N) (a : A) : State N A × Except Exn (Out N A) :=
  match s.n2a.del n with
  | .error e => (s, .error e)
  | .ok m1 =>
    match s.a2n.del a with
    | .error e => (⟨m1, s.a2n⟩, .error e)        -- first delete already happened
    | .ok m2 => (⟨m1, m2⟩, .ok (.bool true))

def add (s : State N A) (n : N) (a : A) : State N A × Except Exn (Out N A) :=
  if !truthy n || !truthy a then (s, .error .namerError)
  else if !hashable n then (s, .error .typeError)             -- `name in self._addrByName`
  else match s.n2a.get n with
    | some a' => if a = a' then (s, .ok (.bool false)) else (s, .error .namerError)
    | none =>
      if !hashable a then (s, .error .typeError)              -- `addr in self._nameByAddr`
      else match s.a2n.get a with
      | some n' => if n = n' then (s, .ok (.bool false)) else (s, .error .namerError)
      | none => (⟨s.n2a.set n a, s.a2n.set a n⟩, .ok (.bool true))

def rem (s : State N A) (n : N) (a : A) : State N A × Except Exn (Out N A) :=
  if truthy n then
    if !hashable n then (s, .error .typeError)                 -- `name not in self._addrByName`
    else match s.n2a.get n with
    | none => (s, .ok (.bool false))
    | some a' =>
      let a := if !truthy a then a' else a
      if a ≠ a' then (s, .ok (.bool false)) else delBoth s n a   -- `!=` only: the given addr is never hashed here
  else if truthy a then
    if !hashable a then (s, .error .typeError)                 -- `addr not in self._nameByAddr`
    else match s.a2n.get a with
    | none => (s, .ok (.bool false))
    | some n' =>
      -- `if not name: name = _nameByAddr[addr]` always fires here (name is falsy)
      delBoth s n' a
  else (s, .ok (.bool false))

def chgAddr (s : State N A) (n : N) (a : A) : State N A × Except Exn (Out N A) :=
  if !truthy n || !truthy a then (s, .error .namerError)
  else if !hashable n then (s, .error .typeError)             -- `name not in self._addrByName`
  else match s.n2a.get n with
    | none => (s, .ok (.bool false))
    | some old =>
      if a = old then (s, .ok (.bool false))
      else if !hashable a then (s, .error .typeError)         -- `addr in self._nameByAddr`
      else match s.a2n.get a with
        | some _ => (s, .error .namerError)
        | none =>
          let m1 := s.n2a.set n a
          match s.a2n.del old with
          | .error e => (⟨m1, s.a2n⟩, .error e)
          | .ok m2 => (⟨m1, Map.set m2 a n⟩, .ok (.bool true))

def chgName (s : State N A) (a : A) (n : N) : State N A × Except Exn (Out N A) :=
  if !truthy n || !truthy a then (s, .error .namerError)
  else if !hashable a then (s, .error .typeError)             -- `addr not in self._nameByAddr`
  else match s.a2n.get a with
    | none => (s, .ok (.bool false))
    | some old =>
      if n = old then (s, .ok (.bool false))
      else if !hashable n then (s, .error .typeError)         -- `name in self._addrByName`
      else match s.n2a.get n with
        | some _ => (s, .error .namerError)
        | none =>
          let m2 := s.a2n.set a n
          match s.n2a.del old with
          | .error e => (⟨s.n2a, m2⟩, .error e)
          | .ok m1 => (⟨Map.set m1 n a, m2⟩, .ok (.bool true))

def step (s : State N A) : Op N A → State N A × Except Exn (Out N A)
  | .add n a => add s n a
  | .rem n a => rem s n a
  | .chgAddr n a => chgAddr s n a
  | .chgName a n => chgName s a n
  | .clear => (empty, .ok .unit)
  | .getAddr n => if !hashable n then (s, .error .typeError) else (s, .ok (.addr (s.n2a.get n)))
  | .getName a => if !hashable a then (s, .error .typeError) else (s, .ok (.name (s.a2n.get a)))
  | .count => (s, .ok (.nat s.n2a.length))

/-- state after a history (results dropped; a raised exception does not stop the caller from going on) -/
def run (s : State N A) : List (Op N A) → State N A
  | [] => s
  | op :: ops => run (step s op).1 ops

/-- `Namer(entries=…)`: `addNameAddr` for every pair; the first exception propagates out of `__init__` -/
def init : State N A → List (N × A) → Except Exn (State N A)
  | s, [] => .ok s
  | s, (n, a) :: es =>
    match add s n a with
    | (_, .error e) => .error e
    | (s', .ok _) => init s' es

/-- the state the half-constructed object holds however far `__init__` got -/
def initState : State N A → List (N × A) → State N A
  | s, [] => s
  | s, (n, a) :: es =>
    match add s n a with
    | (s', .error _) => s'
    | (s', .ok _) => initState s' es

/-- a Namer SUBCLASS applying a whole address book (`Crewer.serviceRxMemos` on a BOK memo:
`for name, addr in load.items(): if name != self.name: self.addNameAddr(name=name, addr=addr)`): entry by entry
through `addNameAddr`; the first exception propagates out and the entries before it stay -/
def book (s : State N A) (self : N) : List (N × A) → State N A × Except Exn (Out N A)
  | [] => (s, .ok .unit)
  | (n, a) :: es =>
    if n = self then book s self es
    else match add s n a with
      | (s', .error e) => (s', .error e)
      | (s', .ok _) => book s' self es

/-- what a history of a subclass consists of: the inherited operations and whole books -/
inductive Act (N A : Type)
  | op (o : Op N A)
  | book (self : N) (es : List (N × A))

def act (s : State N A) : Act N A → State N A × Except Exn (Out N A)
  | .op o => step s o
  | .book self es => book s self es

def runActs (s : State N A) : List (Act N A) → State N A
  | [] => s
  | a :: as => runActs (act s a).1 as

end Hio.Namer
