import HioModel.Namer.Model
/-! Helper lemmas for the Namer model.  Property theorems live in `Props/C27.lean`. -/
set_option linter.unusedSectionVars false
namespace Hio.Namer

namespace Map
variable {κ υ : Type} [DecidableEq κ]

theorem get_drop (m : Map κ υ) (k k' : κ) : (drop m k).get k' = if k = k' then none else m.get k' := by
  induction m with
  | nil => simp [drop, get]
  | cons p m ih =>
    obtain ⟨q, v⟩ := p
    by_cases h : q = k
    · subst h; simp only [drop, get, ↓reduceIte, ih]; split <;> rfl
    · simp only [drop, h, ↓reduceIte, get, ih]
      by_cases h2 : q = k'
      · subst h2; simp [Ne.symm h]
      · simp [h2]

theorem get_set (m : Map κ υ) (k k' : κ) (v : υ) : (set m k v).get k' = if k = k' then some v else m.get k' := by
  simp only [set, get, get_drop]; split <;> rfl

theorem del_ok {m m' : Map κ υ} {k : κ} (h : del m k = .ok m') : m' = drop m k ∧ ∃ v, m.get k = some v := by
  unfold del at h
  split at h
  · rename_i v hv; cases h; exact ⟨rfl, v, hv⟩
  · cases h

theorem del_of_get {m : Map κ υ} {k : κ} {v : υ} (h : m.get k = some v) : del m k = .ok (drop m k) := by
  simp [del, h]

theorem del_error {m : Map κ υ} {k : κ} {e : Exn} (h : del m k = .error e) : m.get k = none := by
  unfold del at h
  split at h
  · cases h
  · assumption

/-- the keys of the list are pairwise distinct (the list is a well-formed dict) -/
def Uniq (m : Map κ υ) : Prop := (keys m).Nodup

theorem mem_keys_drop {m : Map κ υ} {k x : κ} (h : x ∈ keys (drop m k)) : x ∈ keys m ∧ x ≠ k := by
  induction m with
  | nil => simp [drop, keys] at h
  | cons p m ih =>
    obtain ⟨q, v⟩ := p
    by_cases hq : q = k
    · simp only [drop, hq, ↓reduceIte] at h
      have := ih h
      exact ⟨by simp [keys] at this ⊢; exact Or.inr this.1, this.2⟩
    · simp only [drop, hq, ↓reduceIte, keys, List.map_cons, List.mem_cons] at h
      rcases h with rfl | h
      · exact ⟨by simp [keys], hq⟩
      · have := ih h
        exact ⟨by simp [keys] at this ⊢; exact Or.inr this.1, this.2⟩

theorem uniq_drop {m : Map κ υ} (h : Uniq m) (k : κ) : Uniq (drop m k) := by
  induction m with
  | nil => simpa [drop] using h
  | cons p m ih =>
    obtain ⟨q, v⟩ := p
    simp only [Uniq, keys, List.map_cons, List.nodup_cons] at h
    by_cases hq : q = k
    · simp only [drop, hq, ↓reduceIte]; exact ih h.2
    · simp only [drop, hq, ↓reduceIte, Uniq, keys, List.map_cons, List.nodup_cons]
      refine ⟨fun hm => h.1 ?_, ih h.2⟩
      have := (mem_keys_drop (m := m) (k := k) (x := q) hm).1
      simpa [keys] using this

theorem uniq_set {m : Map κ υ} (h : Uniq m) (k : κ) (v : υ) : Uniq (set m k v) := by
  simp only [set, Uniq, keys, List.map_cons, List.nodup_cons]
  exact ⟨fun hm => (mem_keys_drop (m := m) hm).2 rfl, uniq_drop h k⟩

end Map

variable {N A : Type} [DecidableEq N] [DecidableEq A] [Truthy N] [Truthy A]

/-- the two mappings are exact inverses of each other -/
def Inverse (s : State N A) : Prop := ∀ n a, s.n2a.get n = some a ↔ s.a2n.get a = some n

end Hio.Namer

namespace Hio.Namer
variable {N A : Type} [DecidableEq N] [DecidableEq A] [Truthy N] [Truthy A]

theorem inverse_empty : Inverse (empty : State N A) := by
  intro n a; simp [empty, Map.get]

theorem delBoth_spec (s : State N A) (hi : Inverse s) (n : N) (a : A) (h : s.n2a.get n = some a) :
    delBoth s n a = (⟨Map.drop s.n2a n, Map.drop s.a2n a⟩, .ok (.bool true)) := by
  have h2 : s.a2n.get a = some n := (hi n a).mp h
  simp [delBoth, Map.del_of_get h, Map.del_of_get h2]

theorem inverse_dropBoth (s : State N A) (hi : Inverse s) (n : N) (a : A) (h : s.n2a.get n = some a) :
    Inverse (⟨Map.drop s.n2a n, Map.drop s.a2n a⟩ : State N A) := by
  have h2 : s.a2n.get a = some n := (hi n a).mp h
  intro n' a'
  simp only [Map.get_drop]
  have := hi n' a'
  have := hi n a'
  have := hi n' a
  grind

omit [Truthy N] [Truthy A] in
theorem inverse_setBoth (s : State N A) (hi : Inverse s) (n : N) (a : A) (h1 : s.n2a.get n = none) (h2 : s.a2n.get a = none) :
    Inverse (⟨s.n2a.set n a, s.a2n.set a n⟩ : State N A) := by
  intro n' a'
  simp only [Map.get_set]
  have := hi n' a'
  have := hi n a'
  have := hi n' a
  grind

omit [Truthy N] [Truthy A] in
theorem inverse_chg (s : State N A) (hi : Inverse s) (n : N) (a old : A) (h1 : s.n2a.get n = some old)
    (h2 : s.a2n.get a = none) :
    Inverse (⟨s.n2a.set n a, Map.set (Map.drop s.a2n old) a n⟩ : State N A) := by
  intro n' a'
  simp only [Map.get_set, Map.get_drop]
  have := hi n' a'
  have := hi n a'
  have := hi n' a
  have := hi n old
  have := hi n' old
  grind

omit [Truthy N] [Truthy A] in
theorem inverse_chg' (s : State N A) (hi : Inverse s) (n old : N) (a : A) (h1 : s.a2n.get a = some old)
    (h2 : s.n2a.get n = none) :
    Inverse (⟨Map.set (Map.drop s.n2a old) n a, s.a2n.set a n⟩ : State N A) := by
  intro n' a'
  simp only [Map.get_set, Map.get_drop]
  have := hi n' a'
  have := hi n a'
  have := hi n' a
  have := hi old a
  have := hi old a'
  grind

theorem chgAddr_ok (s : State N A) (hi : Inverse s) (n : N) (a old : A) (h1 : s.n2a.get n = some old)
    (h2 : s.a2n.get a = none) (hn : truthy n = true) (ha : truthy a = true) (hne : a ≠ old)
    (hhn : hashable n = true) (hha : hashable a = true) :
    chgAddr s n a = (⟨s.n2a.set n a, Map.set (Map.drop s.a2n old) a n⟩, .ok (.bool true)) := by
  have h3 : s.a2n.get old = some n := (hi n old).mp h1
  simp [chgAddr, hn, ha, hhn, hha, h1, h2, hne, Map.del_of_get h3]

theorem chgName_ok (s : State N A) (hi : Inverse s) (n old : N) (a : A) (h1 : s.a2n.get a = some old)
    (h2 : s.n2a.get n = none) (hn : truthy n = true) (ha : truthy a = true) (hne : n ≠ old)
    (hhn : hashable n = true) (hha : hashable a = true) :
    chgName s a n = (⟨Map.set (Map.drop s.n2a old) n a, s.a2n.set a n⟩, .ok (.bool true)) := by
  have h3 : s.n2a.get old = some a := (hi old a).mpr h1
  simp [chgName, hn, ha, hhn, hha, h1, h2, hne, Map.del_of_get h3]

/-- what every operation guarantees when started in a state whose mappings are inverse:
the result state is inverse again, no `KeyError` escapes, and a rejected (`NamerError`, or `TypeError` for an
unhashable argument) or "no change" (`False`) outcome leaves the state literally unchanged -/
def Good (s : State N A) (r : State N A × Except Exn (Out N A)) : Prop :=
  Inverse r.1 ∧ r.2 ≠ .error .keyError ∧
    ((r.2 = .error .namerError ∨ r.2 = .error .typeError ∨ r.2 = .ok (.bool false)) → r.1 = s)

theorem good_same (s : State N A) (hi : Inverse s) (o : Except Exn (Out N A)) (h : o ≠ .error .keyError) :
    Good s (s, o) := ⟨hi, h, fun _ => rfl⟩

theorem good_add (s : State N A) (hi : Inverse s) (n : N) (a : A) : Good s (add s n a) := by
  unfold add
  repeat' split
  all_goals first
    | exact good_same s hi _ (by simp)
    | exact ⟨inverse_setBoth s hi n a (by assumption) (by assumption), by simp, by simp⟩

theorem good_rem (s : State N A) (hi : Inverse s) (n : N) (a : A) : Good s (rem s n a) := by
  unfold rem
  split
  · split
    · exact good_same s hi _ (by simp)
    · split
      · exact good_same s hi _ (by simp)
      · rename_i a' h
        simp only
        generalize (if (!truthy a) = true then a' else a) = b
        split
        · exact good_same s hi _ (by simp)
        · rename_i hne
          have hb : b = a' := by simpa using hne
          subst hb
          rw [delBoth_spec s hi n b h]
          exact ⟨inverse_dropBoth s hi n b h, by simp, by simp⟩
  · split
    · split
      · exact good_same s hi _ (by simp)
      · split
        · exact good_same s hi _ (by simp)
        · rename_i n' h
          have h' := (hi n' a).mpr h
          rw [delBoth_spec s hi n' a h']
          exact ⟨inverse_dropBoth s hi n' a h', by simp, by simp⟩
    · exact good_same s hi _ (by simp)

theorem good_chgAddr (s : State N A) (hi : Inverse s) (n : N) (a : A) : Good s (chgAddr s n a) := by
  by_cases ht : (!truthy n || !truthy a) = true
  · simp only [chgAddr, ht, ↓reduceIte]; exact good_same s hi _ (by simp)
  · have hn : truthy n = true := by simp at ht; exact ht.1
    have ha : truthy a = true := by simp at ht; exact ht.2
    cases hhn : hashable n with
    | false =>
      have e : chgAddr s n a = (s, .error .typeError) := by simp [chgAddr, hn, ha, hhn]
      rw [e]; exact good_same s hi _ (by simp)
    | true =>
    cases h1 : s.n2a.get n with
    | none =>
      have e : chgAddr s n a = (s, .ok (.bool false)) := by simp [chgAddr, hn, ha, hhn, h1]
      rw [e]; exact good_same s hi _ (by simp)
    | some old =>
      by_cases hne : a = old
      · have e : chgAddr s n a = (s, .ok (.bool false)) := by subst hne; simp [chgAddr, hn, ha, hhn, h1]
        rw [e]; exact good_same s hi _ (by simp)
      · cases hha : hashable a with
        | false =>
          have e : chgAddr s n a = (s, .error .typeError) := by simp [chgAddr, hn, ha, hhn, hha, h1, hne]
          rw [e]; exact good_same s hi _ (by simp)
        | true =>
        cases h2 : s.a2n.get a with
        | some x =>
          have e : chgAddr s n a = (s, .error .namerError) := by simp [chgAddr, hn, ha, hhn, hha, h1, hne, h2]
          rw [e]; exact good_same s hi _ (by simp)
        | none =>
          rw [chgAddr_ok s hi n a old h1 h2 hn ha hne hhn hha]
          exact ⟨inverse_chg s hi n a old h1 h2, by simp, by simp⟩

theorem good_chgName (s : State N A) (hi : Inverse s) (a : A) (n : N) : Good s (chgName s a n) := by
  by_cases ht : (!truthy n || !truthy a) = true
  · simp only [chgName, ht, ↓reduceIte]; exact good_same s hi _ (by simp)
  · have hn : truthy n = true := by simp at ht; exact ht.1
    have ha : truthy a = true := by simp at ht; exact ht.2
    cases hha : hashable a with
    | false =>
      have e : chgName s a n = (s, .error .typeError) := by simp [chgName, hn, ha, hha]
      rw [e]; exact good_same s hi _ (by simp)
    | true =>
    cases h1 : s.a2n.get a with
    | none =>
      have e : chgName s a n = (s, .ok (.bool false)) := by simp [chgName, hn, ha, hha, h1]
      rw [e]; exact good_same s hi _ (by simp)
    | some old =>
      by_cases hne : n = old
      · have e : chgName s a n = (s, .ok (.bool false)) := by subst hne; simp [chgName, hn, ha, hha, h1]
        rw [e]; exact good_same s hi _ (by simp)
      · cases hhn : hashable n with
        | false =>
          have e : chgName s a n = (s, .error .typeError) := by simp [chgName, hn, ha, hhn, hha, h1, hne]
          rw [e]; exact good_same s hi _ (by simp)
        | true =>
        cases h2 : s.n2a.get n with
        | some x =>
          have e : chgName s a n = (s, .error .namerError) := by simp [chgName, hn, ha, hhn, hha, h1, hne, h2]
          rw [e]; exact good_same s hi _ (by simp)
        | none =>
          rw [chgName_ok s hi n old a h1 h2 hn ha hne hhn hha]
          exact ⟨inverse_chg' s hi n old a h1 h2, by simp, by simp⟩

theorem good_step (s : State N A) (hi : Inverse s) (op : Op N A) : Good s (step s op) := by
  cases op with
  | add n a => exact good_add s hi n a
  | rem n a => exact good_rem s hi n a
  | chgAddr n a => exact good_chgAddr s hi n a
  | chgName a n => exact good_chgName s hi a n
  | clear => exact ⟨inverse_empty, by simp [step], by simp [step]⟩
  | getAddr n => simp only [step]; split <;> exact good_same s hi _ (by simp)
  | getName a => simp only [step]; split <;> exact good_same s hi _ (by simp)
  | count => exact good_same s hi _ (by simp)

/-- both association lists are well-formed dicts (no key twice) -/
def Wf (s : State N A) : Prop := Map.Uniq s.n2a ∧ Map.Uniq s.a2n

omit [Truthy N] [Truthy A] in
theorem wf_empty : Wf (empty : State N A) := by simp [Wf, empty, Map.Uniq, Map.keys]

omit [Truthy N] [Truthy A] in
theorem wf_delBoth (s : State N A) (hw : Wf s) (n : N) (a : A) : Wf (delBoth s n a).1 := by
  unfold delBoth
  split
  · exact hw
  · rename_i m1 h1
    have e1 := (Map.del_ok h1).1
    split
    · subst e1; exact ⟨Map.uniq_drop hw.1 n, hw.2⟩
    · rename_i m2 h2
      have e2 := (Map.del_ok h2).1
      subst e1; subst e2; exact ⟨Map.uniq_drop hw.1 n, Map.uniq_drop hw.2 a⟩

theorem wf_step (s : State N A) (hw : Wf s) (op : Op N A) : Wf (step s op).1 := by
  cases op with
  | add n a =>
    simp only [step, add]
    repeat' split
    all_goals first | exact hw | exact ⟨Map.uniq_set hw.1 n a, Map.uniq_set hw.2 a n⟩
  | rem n a =>
    simp only [step, rem]
    repeat' split
    all_goals first | exact hw | exact wf_delBoth s hw _ _
  | chgAddr n a =>
    simp only [step, chgAddr]
    repeat' split
    all_goals first
      | exact hw
      | exact ⟨Map.uniq_set hw.1 n a, hw.2⟩
      | (rename_i m2 h2; have e2 := (Map.del_ok h2).1; subst e2
         exact ⟨Map.uniq_set hw.1 n a, Map.uniq_set (Map.uniq_drop hw.2 _) a n⟩)
  | chgName a n =>
    simp only [step, chgName]
    repeat' split
    all_goals first
      | exact hw
      | exact ⟨hw.1, Map.uniq_set hw.2 a n⟩
      | (rename_i m1 h1; have e1 := (Map.del_ok h1).1; subst e1
         exact ⟨Map.uniq_set (Map.uniq_drop hw.1 _) n a, Map.uniq_set hw.2 a n⟩)
  | clear => exact wf_empty
  | getAddr n => simp only [step]; split <;> exact hw
  | getName a => simp only [step]; split <;> exact hw
  | count => exact hw

end Hio.Namer
