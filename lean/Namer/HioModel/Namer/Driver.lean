import HioModel.Basic.Sexp
import HioModel.Namer.Model
open Hio Hio.Namer Hio.Sexp

/-- keys on the wire: `(k KIND #part …)`.  KIND 0 `None`, 1 `str` (one part: its utf-8), 2 `tuple` (one part per item),
3 `list` (unhashable), 4 `int` (one part: decimal digits), 5 `dict` (unhashable; key and value parts), 6 `bytes` -/
structure Key where
  kind : Nat
  parts : List (List Nat)
deriving DecidableEq

instance : Truthy Key where
  truthy k :=
    match k.kind, k.parts with
    | 0, _ => false
    | 1, [p] => !p.isEmpty
    | 4, [p] => p != [48]
    | 6, [p] => !p.isEmpty
    | 2, ps => !ps.isEmpty
    | 3, ps => !ps.isEmpty
    | 5, ps => !ps.isEmpty
    | _, _ => true
  hashable k := k.kind != 3 && k.kind != 5

def key? : Sexp → Option Key
  | .list (.atom "k" :: kind :: ps) => do some ⟨← nat? kind, ← ps.mapM bytes?⟩
  | _ => none

def ofKey (k : Key) : Sexp := .list (sym "k" :: ofNat k.kind :: k.parts.map ofBytes)

def ltBytes : List Nat → List Nat → Bool
  | [], [] => false
  | [], _ :: _ => true
  | _ :: _, [] => false
  | x :: xs, y :: ys => if x < y then true else if y < x then false else ltBytes xs ys

def ltParts : List (List Nat) → List (List Nat) → Bool
  | [], [] => false
  | [], _ :: _ => true
  | _ :: _, [] => false
  | x :: xs, y :: ys => if ltBytes x y then true else if ltBytes y x then false else ltParts xs ys

def ltKey (a b : Key) : Bool :=
  if a.kind < b.kind then true else if b.kind < a.kind then false else ltParts a.parts b.parts

def insertBy {α} (lt : α → α → Bool) (x : α) : List α → List α
  | [] => [x]
  | y :: ys => if lt x y then x :: y :: ys else y :: insertBy lt x ys

def sortBy {α} (lt : α → α → Bool) (xs : List α) : List α := xs.foldr (insertBy lt) []

def items (m : Map Key Key) : Sexp :=
  .list ((sortBy (fun a b => ltKey a.1 b.1) m).map fun (k, v) => .list [ofKey k, ofKey v])

def exnName : Exn → String
  | .namerError => "NamerError" | .keyError => "KeyError" | .typeError => "TypeError"

def outRes : Except Exn (Out Key Key) → Sexp
  | .error e => tag "raise" [sym (exnName e)]
  | .ok (.bool b) => tag "ok" [ofBool b]
  | .ok (.addr a) => tag "ok" [match a with | some k => ofKey k | none => ofKey ⟨0, []⟩]
  | .ok (.name n) => tag "ok" [match n with | some k => ofKey k | none => ofKey ⟨0, []⟩]
  | .ok (.nat k) => tag "ok" [ofNat k]
  | .ok .unit => tag "ok" [.atom "-"]

def op? : Sexp → Option (Op Key Key)
  | .list [.atom "add", n, a] => do some (.add (← key? n) (← key? a))
  | .list [.atom "rem", n, a] => do some (.rem (← key? n) (← key? a))
  | .list [.atom "chga", n, a] => do some (.chgAddr (← key? n) (← key? a))
  | .list [.atom "chgn", a, n] => do some (.chgName (← key? a) (← key? n))
  | .list [.atom "clear"] => some .clear
  | .list [.atom "geta", n] => do some (.getAddr (← key? n))
  | .list [.atom "getn", a] => do some (.getName (← key? a))
  | .list [.atom "count"] => some .count
  | _ => none

def pair? : Sexp → Option (Key × Key)
  | .list [n, a] => do some ((← key? n), (← key? a))
  | _ => none

def act? : Sexp → Option (Act Key Key)
  | .list [.atom "bok", self, .list es] => do some (.book (← key? self) (← es.mapM pair?))
  | x => (op? x).map .op

def trace (s : State Key Key) : List (Act Key Key) → List Sexp
  | [] => []
  | a :: as =>
    let r := act s a
    .list [outRes r.2, items r.1.n2a, items r.1.a2n] :: trace r.1 as

def handle : Sexp → Sexp
  | .list [.atom "namer", .list es, .list ops] =>
    match es.mapM pair?, ops.mapM act? with
    | some es, some ops =>
      match init (empty : State Key Key) es with
      | .error e => .list [tag "raise" [sym (exnName e)]]
      | .ok s => .list (.list [sym "ok", items s.n2a, items s.a2n] :: trace s ops)
    | _, _ => sym "bad-request"
  | _ => sym "bad-request"

def main : IO Unit := serve handle
