import HioModel.Basic.Sexp
import HioModel.Namer.Model
open Hio Hio.Namer Hio.Sexp

/-- keys on the wire: `-` (None) or `#hex` (utf-8 of a str) -/
abbrev Key := Option (List Nat)

instance : Truthy Key where
  truthy
    | some (_ :: _) => true
    | _ => false

def key? : Sexp → Option Key
  | .atom "-" => some none
  | s => (bytes? s).map some

def ofKey : Key → Sexp
  | none => .atom "-"
  | some b => ofBytes b

def ltBytes : List Nat → List Nat → Bool
  | [], [] => false
  | [], _ :: _ => true
  | _ :: _, [] => false
  | x :: xs, y :: ys => if x < y then true else if y < x then false else ltBytes xs ys

def ltKey : Key → Key → Bool
  | none, none => false
  | none, some _ => true
  | some _, none => false
  | some a, some b => ltBytes a b

def insertBy {α} (lt : α → α → Bool) (x : α) : List α → List α
  | [] => [x]
  | y :: ys => if lt x y then x :: y :: ys else y :: insertBy lt x ys

def sortBy {α} (lt : α → α → Bool) (xs : List α) : List α := xs.foldr (insertBy lt) []

def items (m : Map Key Key) : Sexp :=
  .list ((sortBy (fun a b => ltKey a.1 b.1) m).map fun (k, v) => .list [ofKey k, ofKey v])

def exnName : Exn → String
  | .namerError => "NamerError" | .keyError => "KeyError"

def outRes : Except Exn (Out Key Key) → Sexp
  | .error e => tag "raise" [sym (exnName e)]
  | .ok (.bool b) => tag "ok" [ofBool b]
  | .ok (.addr a) => tag "ok" [match a with | some k => ofKey k | none => .atom "-"]
  | .ok (.name n) => tag "ok" [match n with | some k => ofKey k | none => .atom "-"]
  | .ok (.nat k) => tag "ok" [ofNat k]
  | .ok .unit => tag "ok" [.atom "-"]

def op? : Sexp → Option (Op Key Key)
  | .list [.atom "add", n, a] => do some (.add (← key? n) (← key? a))
  | .list [.atom "rem", n, a] => do some (.rem (← key? n) (← key? a))
  | .list [.atom "chga", n, a] => do some (.chgAddr (← key? n) (← key? a))
  | .list [.atom "chgn", a, n] => do some (.chgName (← key? a) (← key? n))
  | .list [.atom "clear"] => some .clear
  | .list [.atom "geta", n] => do some (.getAddr (← key? n))
  | .list [.atom "getn", a] => do some (.getName (← key? a))
  | .list [.atom "count"] => some .count
  | _ => none

def pair? : Sexp → Option (Key × Key)
  | .list [n, a] => do some ((← key? n), (← key? a))
  | _ => none

def trace (s : State Key Key) : List (Op Key Key) → List Sexp
  | [] => []
  | op :: ops =>
    let r := step s op
    .list [outRes r.2, items r.1.n2a, items r.1.a2n] :: trace r.1 ops

def handle : Sexp → Sexp
  | .list [.atom "namer", .list es, .list ops] =>
    match es.mapM pair?, ops.mapM op? with
    | some es, some ops =>
      match init (empty : State Key Key) es with
      | .error e => .list [tag "raise" [sym (exnName e)]]
      | .ok s => .list (.list [sym "ok", items s.n2a, items s.a2n] :: trace s ops)
    | _, _ => sym "bad-request"
  | _ => sym "bad-request"

def main : IO Unit := serve handle
