import HioModel.Namer.Lemmas
/-!
# C27 — Namer: name→address and address→name stay exact inverses

Property theorems only.  Model: `HioModel/Namer/Model.lean` (faithful to
`hio.help.naming.Namer`, exceptions and partial updates included).  Everything is
proved for every key type with decidable equality, every truthiness predicate, every
state reachable by ANY history of public operations (no length bound), and every
constructor `entries` list (also when the constructor raises part-way).

`Inverse s` : `∀ n a, s.n2a.get n = some a ↔ s.a2n.get a = some n`.
Nothing here is `_partial`.
-/
namespace Hio.Namer
variable {N A : Type} [DecidableEq N] [DecidableEq A] [Truthy N] [Truthy A]

/-- a fresh `Namer()` has inverse mappings -/
theorem inverse_init : Inverse (empty : State N A) := inverse_empty

/-- EVERY public operation preserves inverse-ness -/
theorem inverse_step (s : State N A) (op : Op N A) (h : Inverse s) : Inverse (step s op).1 :=
  (good_step s h op).1

/-- … hence every history of operations does (induction over the op list; exceptions raised on the way
do not stop the history) -/
theorem inverse_history (ops : List (Op N A)) (s : State N A) (h : Inverse s) : Inverse (run s ops) := by
  induction ops generalizing s with
  | nil => exact h
  | cons op ops ih => exact ih _ (inverse_step s op h)

/-- the constructor `Namer(entries=…)`: whatever pairs it is given and however far it gets before raising,
the (possibly half-constructed) object has inverse mappings -/
theorem inverse_constructor (es : List (N × A)) (s : State N A) (h : Inverse s) :
    Inverse (initState s es) ∧ ∀ s', init s es = .ok s' → s' = initState s es := by
  induction es generalizing s with
  | nil => exact ⟨h, fun s' e => by cases e; rfl⟩
  | cons p es ih =>
    obtain ⟨n, a⟩ := p
    have g := (good_add s h n a).1
    simp only [initState, init]
    split
    · rename_i s1 e he
      rw [he] at g
      exact ⟨g, fun s' e' => by cases e'⟩
    · rename_i s1 o he
      rw [he] at g
      exact ih s1 g

/-- from a fresh object, any constructor entries followed by any history: still inverse -/
theorem inverse_always (es : List (N × A)) (ops : List (Op N A)) :
    Inverse (run (initState (empty : State N A) es) ops) :=
  inverse_history ops _ (inverse_constructor es _ inverse_empty).1

omit [Truthy N] [Truthy A] in
/-- no two names share an address -/
theorem no_two_names_share_address (s : State N A) (h : Inverse s) (n₁ n₂ : N) (a : A)
    (h₁ : s.n2a.get n₁ = some a) (h₂ : s.n2a.get n₂ = some a) : n₁ = n₂ := by
  have e₁ := (h n₁ a).mp h₁
  have e₂ := (h n₂ a).mp h₂
  rw [e₁] at e₂; exact Option.some.inj e₂

omit [Truthy N] [Truthy A] in
/-- no two addresses share a name -/
theorem no_two_addresses_share_name (s : State N A) (h : Inverse s) (a₁ a₂ : A) (n : N)
    (h₁ : s.a2n.get a₁ = some n) (h₂ : s.a2n.get a₂ = some n) : a₁ = a₂ := by
  have e₁ := (h n a₁).mpr h₁
  have e₂ := (h n a₂).mpr h₂
  rw [e₁] at e₂; exact Option.some.inj e₂

/-- an operation that is rejected (any exception: `NamerError`, or `TypeError` for an unhashable argument) or reports no change (`False`) leaves BOTH mappings
literally unchanged -/
theorem rejected_or_nochange_is_identity (s : State N A) (op : Op N A) (h : Inverse s)
    (hr : (∃ e, (step s op).2 = .error e) ∨ (step s op).2 = .ok (.bool false)) : (step s op).1 = s := by
  obtain ⟨_, hk, hid⟩ := good_step s h op
  rcases hr with ⟨e, he⟩ | hf
  · cases e with
    | namerError => exact hid (Or.inl he)
    | typeError => exact hid (Or.inr (Or.inl he))
    | keyError => exact absurd he hk
  · exact hid (Or.inr (Or.inr hf))

/-- an argument that cannot be hashed (a list, a dict) is rejected with `TypeError` or reported as no change — never
accepted — by every operation that would have to look it up, before anything is written -/
theorem unhashable_argument_never_accepted (s : State N A) (n : N) (a : A)
    (hu : hashable n = false ∨ hashable a = false) :
    (add s n a).2 ≠ .ok (.bool true) ∧ (chgAddr s n a).2 ≠ .ok (.bool true) ∧ (chgName s a n).2 ≠ .ok (.bool true) ∧
    (add s n a).1 = s ∧ (chgAddr s n a).1 = s ∧ (chgName s a n).1 = s := by
  refine ⟨?_, ?_, ?_, ?_, ?_, ?_⟩
  all_goals
    first
      | (unfold add; rcases hu with hu | hu <;> simp only [hu] <;> (repeat' split) <;> simp_all)
      | (unfold chgAddr; rcases hu with hu | hu <;> simp only [hu] <;> (repeat' split) <;> simp_all)
      | (unfold chgName; rcases hu with hu | hu <;> simp only [hu] <;> (repeat' split) <;> simp_all)

/-- the `del` statements of `remNameAddr` / `change…` never raise `KeyError` (so no operation can stop half-way
and leave a partial update behind) -/
theorem never_keyerror (s : State N A) (op : Op N A) (h : Inverse s) : (step s op).2 ≠ .error .keyError :=
  (good_step s h op).2.1

/-- the model state stays a pair of well-formed dicts (no key twice) along every history, so the item lists the
correspondence compares are exactly the graphs of `get` -/
theorem keys_unique_history (ops : List (Op N A)) (s : State N A) (h : Wf s) : Wf (run s ops) := by
  induction ops generalizing s with
  | nil => exact h
  | cons op ops ih => exact ih _ (wf_step s h op)

/-- what a successful `addNameAddr` does: exactly the one new pair, both directions, everything else untouched -/
theorem add_true_spec (s : State N A) (n : N) (a : A) (h : (add s n a).2 = .ok (.bool true)) :
    (∀ n', (add s n a).1.n2a.get n' = if n = n' then some a else s.n2a.get n') ∧
    (∀ a', (add s n a).1.a2n.get a' = if a = a' then some n else s.a2n.get a') ∧
    s.n2a.get n = none ∧ s.a2n.get a = none ∧ truthy n = true ∧ truthy a = true ∧
    hashable n = true ∧ hashable a = true := by
  by_cases ht : (!truthy n || !truthy a) = true
  · simp [add, ht] at h
  · have hn : truthy n = true := by simp at ht; exact ht.1
    have ha : truthy a = true := by simp at ht; exact ht.2
    cases hhn : hashable n with
    | false => simp [add, hn, ha, hhn] at h
    | true =>
      cases h1 : s.n2a.get n with
      | some a' =>
        by_cases e : a = a'
        · subst e; simp [add, hn, ha, hhn, h1] at h
        · simp [add, hn, ha, hhn, h1, e] at h
      | none =>
        cases hha : hashable a with
        | false => simp [add, hn, ha, hhn, h1, hha] at h
        | true =>
          cases h2 : s.a2n.get a with
          | some n' =>
            by_cases e : n = n'
            · subst e; simp [add, hn, ha, hhn, h1, hha, h2] at h
            · simp [add, hn, ha, hhn, h1, hha, h2, e] at h
          | none =>
            have ex : add s n a = (⟨s.n2a.set n a, s.a2n.set a n⟩, .ok (.bool true)) := by
              simp [add, hn, ha, hhn, h1, hha, h2]
            rw [ex]
            exact ⟨fun n' => Map.get_set _ _ _ _, fun a' => Map.get_set _ _ _ _, rfl, rfl, hn, ha, rfl, rfl⟩

/-- what a successful `remNameAddr` does: the named entry disappears in both directions, everything else untouched -/
theorem rem_true_spec (s : State N A) (hi : Inverse s) (n : N) (a : A) (h : (rem s n a).2 = .ok (.bool true)) :
    ∃ n₀ a₀, s.n2a.get n₀ = some a₀ ∧ (truthy n = true → n₀ = n) ∧ (truthy a = true → a₀ = a) ∧
      (∀ n', (rem s n a).1.n2a.get n' = if n₀ = n' then none else s.n2a.get n') ∧
      (∀ a', (rem s n a).1.a2n.get a' = if a₀ = a' then none else s.a2n.get a') := by
  by_cases hn : truthy n = true
  · cases hhn : hashable n with
    | false => simp [rem, hn, hhn] at h
    | true =>
      cases h0 : s.n2a.get n with
      | none => simp [rem, hn, hhn, h0] at h
      | some a' =>
        cases hta : truthy a with
        | false =>
          have ex : rem s n a = delBoth s n a' := by simp [rem, hn, hhn, h0, hta]
          rw [ex, delBoth_spec s hi n a' h0]
          exact ⟨n, a', h0, fun _ => rfl, fun c => by simp at c, fun n' => Map.get_drop _ _ _, fun a'' => Map.get_drop _ _ _⟩
        | true =>
          by_cases e : a = a'
          · subst e
            have ex : rem s n a = delBoth s n a := by simp [rem, hn, hhn, h0, hta]
            rw [ex, delBoth_spec s hi n a h0]
            exact ⟨n, a, h0, fun _ => rfl, fun _ => rfl, fun n' => Map.get_drop _ _ _, fun a'' => Map.get_drop _ _ _⟩
          · have ex : rem s n a = (s, .ok (.bool false)) := by simp [rem, hn, hhn, h0, hta, e]
            rw [ex] at h; simp at h
  · by_cases ha : truthy a = true
    · cases hha : hashable a with
      | false => simp [rem, hn, ha, hha] at h
      | true =>
        cases h0 : s.a2n.get a with
        | none => simp [rem, hn, ha, hha, h0] at h
        | some n' =>
          have h' := (hi n' a).mpr h0
          have ex : rem s n a = delBoth s n' a := by simp [rem, hn, ha, hha, h0]
          rw [ex, delBoth_spec s hi n' a h']
          exact ⟨n', a, h', fun c => absurd c hn, fun _ => rfl, fun _ => Map.get_drop _ _ _, fun _ => Map.get_drop _ _ _⟩
    · simp [rem, hn, ha] at h

/-! ### subclasses that apply whole address books (Crewer / BOK memos) -/

/-- a whole book applied through `addNameAddr`, entry by entry, keeps the mappings inverse — whether it goes through
or is rejected part-way (a moved hand, a re-used address, an empty or unhashable entry) -/
theorem inverse_book (self : N) (es : List (N × A)) (s : State N A) (h : Inverse s) : Inverse (book s self es).1 := by
  induction es generalizing s with
  | nil => exact h
  | cons p es ih =>
    obtain ⟨n, a⟩ := p
    simp only [book]
    split
    · exact ih s h
    · have g := (good_add s h n a).1
      split
      · rename_i s' e he; rw [he] at g; exact g
      · rename_i s' o he; rw [he] at g; exact ih s' g

/-- the entry a book is rejected at changes nothing: the state left behind is the one the entries BEFORE it built
(every one of them an accepted `addNameAddr`), and no `KeyError` can be the reason -/
theorem book_never_keyerror (self : N) (es : List (N × A)) (s : State N A) (h : Inverse s) :
    (book s self es).2 ≠ .error .keyError := by
  induction es generalizing s with
  | nil => simp [book]
  | cons p es ih =>
    obtain ⟨n, a⟩ := p
    simp only [book]
    split
    · exact ih s h
    · have g := good_add s h n a
      split
      · rename_i s' e he; rw [he] at g; exact g.2.1
      · rename_i s' o he; rw [he] at g; exact ih s' g.1

/-- any history of inherited operations AND whole books keeps the registry a bijection -/
theorem inverse_history_with_books (acts : List (Act N A)) (s : State N A) (h : Inverse s) : Inverse (runActs s acts) := by
  induction acts generalizing s with
  | nil => exact h
  | cons a as ih =>
    refine ih _ ?_
    cases a with
    | op o => exact inverse_step s o h
    | book self es => exact inverse_book self es s h

/-! ### non-vacuity -/

/-- test instance: `0` is falsy, numbers `≥ 100` stand for unhashable arguments -/
instance : Truthy Nat := ⟨fun k => k != 0, fun k => k < 100⟩

/-- a concrete reachable non-empty inverse state, on which a rejected op, a no-change op and a successful
change are all exercised -/
example : Inverse (run (empty : State Nat Nat) [.add 1 10, .add 2 20, .chgAddr 1 30, .rem 0 20]) :=
  inverse_always [] _
example : (step (run (empty : State Nat Nat) [.add 1 10, .add 2 20]) (.add 3 10)).2 = .error .namerError := by rfl
example : (step (run (empty : State Nat Nat) [.add 1 10, .add 2 20]) (.chgAddr 1 10)).2 = .ok (.bool false) := by rfl
example : (step (run (empty : State Nat Nat) [.add 1 10, .add 2 20]) (.chgName 10 3)).2 = .ok (.bool true) := by rfl
example : (rem (run (empty : State Nat Nat) [.add 1 10, .add 2 20]) 0 20).2 = .ok (.bool true) := by rfl
example : (step (run (empty : State Nat Nat) [.add 1 10, .add 2 20]) (.add 3 100)).2 = .error .typeError := by rfl
example : (step (run (empty : State Nat Nat) [.add 1 10, .add 2 20]) (.rem 1 100)).2 = .ok (.bool false) := by rfl

end Hio.Namer
