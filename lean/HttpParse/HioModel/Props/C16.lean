import HioModel.Http.Lemmas
/-!
# C16 — no client-sent bytes can make the HTTP server's service loop raise (likewise the client on response bytes)

Statement (given): for any byte sequence a client sends, servicing the HTTP server (WSGI or bare) does not raise.
Malformed input only closes, or answers with an error on, that client's connection, and other connections keep being
served.  Likewise servicing the HTTP client on any response bytes does not raise; malformed responses are reported
through the response's error flag.

In the model every raising step returns `Except Exn _` with the Python class of the exception; the handler of
Parsent.parseMessage (`catchMessage`, its class list regenerated from the source, `issubclass` closure regenerated
from the live classes) turns a caught exception into the `failed` phase + an `err` outcome and anything else into the
terminal phase `escaped cls`, which `serviceReqs` propagates out of the loop.
-/
namespace Hio.Http.C16
open Hio.Http Hio.Gen.Http

/-- every exception a parsing step of the model can raise is an instance of a class the message parser catches -/
theorem step_exceptions_are_http : ∀ e : Exn, catches messageHandlers e.cls = true := all_caught

/-- server side: for all bytes in all partitions nothing escapes parse() (so nothing escapes Server.serviceReqs /
BareServer.serviceStewards through the parser) -/
theorem server_total (bad : List Bytes) (chunks : List Bytes) : (reqRun bad chunks).1.escapedCls = none := by
  unfold reqRun
  exact reqReader.foldl_feed_inv ReqSt.noEsc reqOnLine_noEsc (fun s _ => ReqSt.raise_noEsc s .lineTooLong) reqOnBytes_noEsc
    (fun _ _ h => h) chunks _ rfl

/-- client side: for all response bytes in all partitions, with or without the far side closing, nothing escapes -/
theorem client_total (head : Bool) (chunks : List Bytes) (closed : Bool) :
    (respRun head chunks closed).1.escapedCls = none := by
  unfold respRun respFinal
  have h := respReader.foldl_feed_inv RespSt.noEsc respOnLine_noEsc (fun s _ => RespSt.raise_noEsc s .lineTooLong) respOnBytes_noEsc
    respOnAll_noEsc chunks (({ head := head } : RespSt), []) rfl
  have h2 := respSettle_noEsc _ h
  simp only
  split
  · exact respClose_noEsc _ _ h2
  · exact h2

/-- malformed responses are reported through the error outcome: a failed phase always comes with an `err` outcome
as the last delivered result -/
theorem raise_reports_error (s : RespSt) (e : Exn) : (s.raise e).done = s.done ++ [.err e] ∧ (s.raise e).phase = .failed := by
  simp [RespSt.raise, all_caught]

theorem raise_reports_error_req (s : ReqSt) (e : Exn) : (s.raise e).done = s.done ++ [.err e] ∧ (s.raise e).phase = .failed := by
  simp [ReqSt.raise, all_caught]

/-- one service cycle over any number of connections with any reads: the loop is never aborted, and every connection
ends exactly where it would have ended had it been served alone — a malformed sibling changes nothing for the others -/
theorem malformed_is_local (conns : List ((ReqSt × Bytes) × Bytes)) (h : ∀ c ∈ conns, c.1.1.noEsc) :
    serviceReqs conns = .ok (conns.map fun c => reqReader.feed c.1 c.2) := by
  induction conns with
  | nil => rfl
  | cons c rest ih =>
    obtain ⟨st, rd⟩ := c
    have hc : st.1.noEsc := h (st, rd) (by simp)
    have hn : (reqReader.feed st rd).1.noEsc :=
      reqReader.run_inv ReqSt.noEsc reqOnLine_noEsc (fun s _ => ReqSt.raise_noEsc s .lineTooLong) reqOnBytes_noEsc (fun _ _ h => h) st.1 _ hc
    have ihr := ih (fun c hc => h c (by simp [hc]))
    unfold serviceReqs
    simp only [ReqSt.noEsc] at hn
    simp [hn, ihr]

/-! ### the regenerated raise-site table (translator) -/

/-- sites that the syntactic scan cannot see are guarded; audited by hand, each with the model fact that covers it:
* `int-guarded`: `int(size, 16)` directly after the `1*HEX` validation (model: `parseSizeLine` is total on hex digits)
* `Requestant.parseBody` / `Respondent.parseBody` `raise ValueError("Invalid content length")`: guarded by
  `self.length < 0`, and `.length` is only ever assigned `None` or a non-negative int (model: `length : Option Nat`) -/
def guarded (s : String × String × String × List String) : Bool :=
  s.2.1 == "int-guarded" ||
  (s.2.1 == "raise" && s.2.2.1 == "ValueError" && (s.1 == "Requestant.parseBody" || s.1 == "Respondent.parseBody"))

def siteCaught (s : String × String × String × List String) : Bool :=
  catches s.2.2.2 s.2.2.1 || catches messageHandlers s.2.2.1 || guarded s

/-- every explicit raise and every implicit raiser the scan finds on the parse path is caught inside its function or by
Parsent.parseMessage (or is one of the guarded sites) -/
theorem every_site_caught : raiseSites.all siteCaught = true := by decide

/-- every raise site of Client.redirect / normalizeHostPort is caught inside its function or by the handler that
Client.serviceResponse puts around the redirect call -/
theorem every_redirect_site_caught :
    redirectSites.all (fun s => catches s.2.2.2 s.2.2.1 ||
      catches ((loopHandlers.filter (fun l => l.2.1 == "redirect")).flatMap (·.2.2)) s.2.2.1) = true := by decide

/-- the table is not empty (the scan found the parse path) and the handler it relies on is the one in the source -/
theorem raise_table_nontrivial : raiseSites.length ≥ 30 ∧ messageHandlers = ["HTTPException"] := by decide

end Hio.Http.C16
