import HioModel.Http.ServiceLemmas
/-!
# C16 — no client-sent bytes can make the HTTP server's service loop raise (likewise the client on response bytes)

Statement (given): for any byte sequence a client sends, servicing the HTTP server (WSGI or bare) does not raise.
Malformed input only closes, or answers with an error on, that client's connection, and other connections keep being
served.  Likewise servicing the HTTP client on any response bytes does not raise; malformed responses are reported
through the response's error flag.

In the model every raising step returns `Except Exn _` with the Python class of the exception; the handler of
Parsent.parseMessage (`catchMessage`, its class list regenerated from the source, `issubclass` closure regenerated
from the live classes) turns a caught exception into the `failed` phase + an `err` outcome and anything else into the
terminal phase `escaped cls`, which `serviceReqs` propagates out of the loop.
-/
namespace Hio.Http.C16
open Hio.Http Hio.Gen.Http

/-- every exception a parsing step of the model can raise is an instance of a class the message parser catches -/
theorem step_exceptions_are_http : ∀ e : Exn, catches messageHandlers e.cls = true := all_caught

/-- server side: for all bytes in all partitions nothing escapes parse() (so nothing escapes Server.serviceReqs /
BareServer.serviceStewards through the parser) -/
theorem server_total (bad : List Bytes) (chunks : List Bytes) : (reqRun bad chunks).1.escapedCls = none := by
  unfold reqRun
  exact reqReader.foldl_feed_inv ReqSt.noEsc reqOnLine_noEsc (fun s _ => ReqSt.raise_noEsc s .lineTooLong) reqOnBytes_noEsc
    (fun _ _ h => h) chunks _ rfl

/-- client side: for all response bytes in all partitions, with or without the far side closing, nothing escapes -/
theorem client_total (head : Bool) (chunks : List Bytes) (closed : Bool) :
    (respRun head chunks closed).1.escapedCls = none := by
  unfold respRun respFinal
  have h := respReader.foldl_feed_inv RespSt.noEsc respOnLine_noEsc (fun s _ => RespSt.raise_noEsc s .lineTooLong) respOnBytes_noEsc
    respOnAll_noEsc chunks (({ head := head } : RespSt), []) rfl
  have h2 := respSettle_noEsc _ h
  simp only
  split
  · exact respClose_noEsc _ _ h2
  · exact h2

/-- malformed responses are reported through the error outcome: a failed phase always comes with an `err` outcome
as the last delivered result -/
theorem raise_reports_error (s : RespSt) (e : Exn) : (s.raise e).done = s.done ++ [.err e] ∧ (s.raise e).phase = .failed := by
  simp [RespSt.raise, all_caught]

theorem raise_reports_error_req (s : ReqSt) (e : Exn) : (s.raise e).done = s.done ++ [.err e] ∧ (s.raise e).phase = .failed := by
  simp [ReqSt.raise, all_caught]

/-- one service cycle over any number of connections with any reads: the loop is never aborted, and every connection
ends exactly where it would have ended had it been served alone — a malformed sibling changes nothing for the others -/
theorem malformed_is_local (conns : List ((ReqSt × Bytes) × Bytes)) (h : ∀ c ∈ conns, c.1.1.noEsc) :
    serviceReqs conns = .ok (conns.map fun c => reqReader.feed c.1 c.2) := by
  induction conns with
  | nil => rfl
  | cons c rest ih =>
    obtain ⟨st, rd⟩ := c
    have hc : st.1.noEsc := h (st, rd) (by simp)
    have hn : (reqReader.feed st rd).1.noEsc :=
      reqReader.run_inv ReqSt.noEsc reqOnLine_noEsc (fun s _ => ReqSt.raise_noEsc s .lineTooLong) reqOnBytes_noEsc (fun _ _ h => h) st.1 _ hc
    have ihr := ih (fun c hc => h c (by simp [hc]))
    unfold serviceReqs
    simp only [ReqSt.noEsc] at hn
    simp [hn, ihr]

/-! ### the service loops as folds over the connection table (`HioModel/Http/Service.lean`)

`serverRun handlers app n table` is n calls of Server.service / BareServer.service over a table whose entries carry
the bytes / closes the kernel will deliver cycle by cycle; `handlers` is the class list the source has around
`requestant.parse()` in that loop (regenerated: `wsgiHandlers`, `bareHandlers` — the latter is EMPTY, BareServer has no
handler there), `app m` is `none` when the responder cannot answer the parsed request m and `some n` when it answers with n bytes (a
parameter: any function); every connection has its own send capacity per pass (`SConn.cap`), so responses stay queued in
`txq` across passes and a non persistent connection is closed only when its queue has drained. -/

/-- for every table (any number of connections, each with any arrival schedule of bytes and closes, well-formed or not),
every number of cycles, every handler list (even none) and every responder behaviour: no exception leaves service(), and
every connection ends exactly where it ends when it is served alone -/
theorem service_total (handlers : List String) (app : ReqMsg → Option Nat) (n : Nat) (table : List Entry)
    (h : ∀ p ∈ table, p.1.st.1.escapedCls = none) :
    serverRun handlers app n table = .ok (table.map (entryRun handlers app n)) :=
  serverRun_eq handlers app n table h

/-- the instances for the two servers with the handler lists of the source as it is now -/
theorem wsgi_service_total (app : ReqMsg → Option Nat) (n : Nat) (table : List Entry)
    (h : ∀ p ∈ table, p.1.st.1.escapedCls = none) :
    ∃ t', serverRun wsgiHandlers app n table = .ok t' := ⟨_, service_total _ _ n table h⟩

theorem bare_service_total (app : ReqMsg → Option Nat) (n : Nat) (table : List Entry)
    (h : ∀ p ∈ table, p.1.st.1.escapedCls = none) :
    ∃ t', serverRun bareHandlers app n table = .ok t' := ⟨_, service_total _ _ n table h⟩

/-- a connection A anywhere in the table, malformed or not, closing or not, leaves every other connection's state, buffer
and answers exactly as in the run without A -/
theorem siblings_unaffected (handlers : List String) (app : ReqMsg → Option Nat) (n : Nat) (pre post : List Entry) (a : Entry)
    (h : ∀ p ∈ pre ++ a :: post, p.1.st.1.escapedCls = none) :
    ∃ a', serverRun handlers app n (pre ++ a :: post) =
            .ok (pre.map (entryRun handlers app n) ++ a' :: post.map (entryRun handlers app n)) ∧
          serverRun handlers app n (pre ++ post) =
            .ok (pre.map (entryRun handlers app n) ++ post.map (entryRun handlers app n)) := by
  refine ⟨entryRun handlers app n a, ?_, ?_⟩
  · rw [service_total handlers app n _ h]; simp
  · rw [service_total handlers app n _ (fun p hp => h p (by
      rcases List.mem_append.mp hp with h1 | h1
      · exact List.mem_append.mpr (Or.inl h1)
      · exact List.mem_append.mpr (Or.inr (List.mem_cons_of_mem _ h1))))]
    simp

/-- Client.service: for every arrival schedule (bytes, closes) and every behaviour of redirect() that raises only classes
the handler around the redirect call catches, no exception leaves service() -/
theorem client_service_total (redirect : RespMsg → Except String Unit)
    (hr : ∀ m c, redirect m = .error c → catches clientRedirectHandlers c = true)
    (arrivals : List Arrival) (c : CConn) (h : c.st.1.escapedCls = none) :
    ∃ c', clientRun clientParseHandlers clientRedirectHandlers redirect c arrivals = .ok c' :=
  clientRun_ok _ _ redirect hr arrivals c h

/-- the hypothesis of `client_service_total` for the real redirect(): every class a raise site found in Client.redirect and
everything it calls (re-send included) can produce is caught inside its function or by that handler -/
theorem redirect_classes_caught :
    redirectSites.all (fun s => catches s.2.2.2 s.2.2.1 || catches clientRedirectHandlers s.2.2.1) = true := by decide

/-- non-vacuity: fresh connections satisfy the hypothesis, and the handler lists are the ones in the source -/
example : (({ st := ({}, []) } : SConn), [Arrival.bytes (ascii "GET / HTTP/1.1\r\n\r\n"), .closed]).1.st.1.escapedCls = none := rfl
theorem loop_handlers_in_source :
    wsgiHandlers = ["HTTPException"] ∧ bareHandlers = [] ∧ clientParseHandlers = ["HTTPException"] ∧
    clientRedirectHandlers = ["HTTPException", "ValueError"] := by decide

/-! ### the reconnect path of Client.service (`transmit()` after the reconnect): NO handler around it -/

/-- what can raise there is accounted for site by site: caught inside its function, or a site that only sees the client's
own request data which the first transmit() of the same request already accepted (Requester.build / reinit /
updateQargsQuery: explicit raises, urlsplit, .port, idna, split), or packHeader's encode — of the header values only
Last-Event-ID comes from the server, and it is iso-8859-1 by construction (the UTF-8 bytes of the id re-read as latin-1).
Nothing is *caught*: this is a recorded gap closed by construction + fuzz (`clir` / `sseq` cases), not by a handler. -/
def reconnectAccounted (s : String × String × String × List String) : Bool :=
  catches s.2.2.2 s.2.2.1 || catches reconnectHandlers s.2.2.1 ||
  ((s.1 == "Requester.build" || s.1 == "Requester.reinit" || s.1 == "httping.updateQargsQuery") &&
    ["raise", "urlsplit", "port", "encode-idna", "unpack-split", "encode"].contains s.2.1) ||
  (s.1 == "httping.packHeader" && s.2.1 == "encode")

theorem reconnect_sites_accounted : reconnectSites.all reconnectAccounted = true ∧ reconnectHandlers = [] := by decide

/-! ### the regenerated raise-site table (translator) -/

/-- sites that the syntactic scan cannot see are guarded; audited by hand, each with the model fact that covers it:
* `int-guarded`: `int(size, 16)` directly after the `1*HEX` validation (model: `parseSizeLine` is total on hex digits)
* `Requestant.parseBody` / `Respondent.parseBody` `raise ValueError("Invalid content length")`: guarded by
  `self.length < 0`, and `.length` is only ever assigned `None` or a non-negative int (model: `length : Option Nat`) -/
def guarded (s : String × String × String × List String) : Bool :=
  s.2.1 == "int-guarded" ||
  (s.2.1 == "raise" && s.2.2.1 == "ValueError" && (s.1 == "Requestant.parseBody" || s.1 == "Respondent.parseBody"))

def siteCaught (s : String × String × String × List String) : Bool :=
  catches s.2.2.2 s.2.2.1 || catches messageHandlers s.2.2.1 || guarded s

/-- every explicit raise and every implicit raiser the scan finds on the parse path is caught inside its function or by
Parsent.parseMessage (or is one of the guarded sites) -/
theorem every_site_caught : raiseSites.all siteCaught = true := by decide

/-- every raise site of Client.redirect / normalizeHostPort is caught inside its function or by the handler that
Client.serviceResponse puts around the redirect call -/
theorem every_redirect_site_caught :
    redirectSites.all (fun s => catches s.2.2.2 s.2.2.1 ||
      catches ((loopHandlers.filter (fun l => l.2.1 == "redirect")).flatMap (·.2.2)) s.2.2.1) = true := by decide

/-- the table is not empty (the scan found the parse path) and the handler it relies on is the one in the source -/
theorem raise_table_nontrivial : raiseSites.length ≥ 30 ∧ messageHandlers = ["HTTPException"] := by decide

end Hio.Http.C16
