import HioModel.Http.Lemmas
/-!
# C15 — server-sent events are delivered exactly regardless of line endings and splits

Statement (given): for any stream of server-sent events (ids, event names, multi-line data, retry fields, comments)
written with any mix of valid line terminators (CRLF, LF or CR), and delivered in any fragmentation, plain or inside
chunked encoding, the client yields exactly the events the stream dispatches, in order; each event carries its id, name
and data, and the client tracks the last event id and retry value.

`sseReader` is EventSource.parseEvents (line splitter over {CRLF, LF, CR} + field interpreter + dispatcher);
the state holds the events dispatched so far, the last event id, retry, and the half-built event.
The whole-stream specification is: split the stream into its lines, fold `sseLine` over them (`sseSpec`).
-/
namespace Hio.Http.C15
open Hio.Http Hio.Gen.Http

/-- any fragmentation of any byte stream: same events, last event id, retry, half-built event and pending bytes -/
theorem sse_fragmentation_independent (chunks : List Bytes) :
    chunks.foldl sseReader.feed ({}, []) = sseReader.run {} chunks.flatten :=
  sseReader.foldl_feed_nil _ (step_line_nil sseReader _ sseEol rfl) chunks

/-- the same inside a response (close-delimited or chunked transfer coding, events parsed per chunk), including the
far side closing: instance of the response theorem — `RespSt` carries the event-source state -/
theorem sse_in_response_fragmentation_independent (chunks : List Bytes) (closed : Bool) :
    respRun false chunks closed = respRun false [chunks.flatten] closed := by
  unfold respRun
  rw [respReader.foldl_feed_nil _ (step_line_nil respReader _ httpEol rfl),
      respReader.foldl_feed_nil _ (step_line_nil respReader _ httpEol rfl)]
  simp

/-! ### the reconnect boundary: a sequence of streams through one Respondent -/

/-- after the connection dropped and the client re-requested, nothing of the old stream is left but the last event id
and retry: the reconnect forgets `evented`, ... -/
theorem reconnect_keeps_only_id_and_retry (s : RespSt) (h : s.escapedCls = none) :
    s.reconnect.phase = .status true ∧ s.reconnect.leid = s.curLeid ∧ s.reconnect.retry = s.curRetry := by
  unfold RespSt.reconnect
  split
  · rename_i c hc; simp [RespSt.escapedCls, hc] at h
  · exact ⟨rfl, rfl, rfl⟩

/-- the new connection starts from an empty receive buffer: what the sequence delivers for connection n+1 is a function of
the reconnected state and that connection's reads only (the leftover bytes of connection n do not enter) -/
theorem respSeq_cons (s : RespSt) (frags : List Bytes) (more : List (List Bytes)) :
    respSeq s (frags :: more) =
      respFinal (frags.foldl respReader.feed (s, [])) true ::
        respSeq (respFinal (frags.foldl respReader.feed (s, [])) true).1.reconnect more := rfl

/-- ... and the head of the next event-stream response builds a NEW event source over an EMPTY line buffer, whatever
unfinished line, half-built event or pending lone CR the dropped stream left behind (`s.sse`, `s.ssePend` arbitrary) -/
theorem evented_head_starts_fresh (s s' : RespSt) (h : Hdrs) (c : Bytes)
    (hct : hget h (ascii "content-type") = some c) (hc : c.isEmpty = false)
    (hd : respHeadDone s h = .ok s') (hs : s'.isEv = true) :
    s'.sse = {} ∧ s'.ssePend = [] ∧ s'.leid = s.leid ∧ s'.retry = s.retry := by
  unfold respHeadDone at hd
  simp only [hct, hc, Except.ok.injEq] at hd
  subst hd
  simp only [RespSt.isEv] at hs
  simp at hs
  simp [hs]

/-- the body bytes of a stream, absorbed in any pieces (reads or chunks), are absorbed as their concatenation -/
theorem absorb_pieces (d : Bytes) (more : List Bytes) (s : RespSt) :
    (d :: more).foldl RespSt.absorb s = s.absorb (d ++ more.flatten) := by
  induction more generalizing d with
  | nil => simp
  | cons d2 rest ih =>
    have := ih (d ++ d2)
    simp only [List.foldl_cons, List.flatten_cons] at this ⊢
    rw [RespSt.absorb_absorb, this, List.append_assoc]

/-- the events of stream n+1 depend only on its own bytes: from the fresh event source of `evented_head_starts_fresh`
the event source after the pieces `ds` is `sseReader` run on their concatenation from the EMPTY state — no byte, field or
half-built event of an earlier stream takes part; the last event id and retry the Respondent reports are the stream's own
when it sets them, else the ones carried over the reconnect -/
theorem stream_events_depend_only_on_own_bytes (ds : List Bytes) (s : RespSt)
    (hs : s.sse = {}) (hp : s.ssePend = []) (hev : s.isEv = true) :
    let r := sseReader.run {} ds.flatten
    (ds.foldl RespSt.absorb s).sse = r.1 ∧ (ds.foldl RespSt.absorb s).ssePend = r.2 ∧
    (ds.foldl RespSt.absorb s).curLeid = (match r.1.leid with | some x => some x | none => s.leid) ∧
    (ds.foldl RespSt.absorb s).curRetry = r.1.retry.getD s.retry := by
  cases ds with
  | nil =>
    have h0 : sseReader.run {} [] = ({}, []) := sseReader.run_none _ _ (step_line_nil sseReader _ sseEol rfl)
    simp [h0, hs, hp, RespSt.curLeid, RespSt.curRetry, hev]
  | cons d more =>
    rw [absorb_pieces]
    have he : (s.absorb (d ++ more.flatten)).isEv = true := by simpa [RespSt.absorb, RespSt.isEv] using hev
    simp only [List.flatten_cons]
    simp only [RespSt.curLeid, RespSt.curRetry, he, if_true]
    simp only [RespSt.absorb, hs, hp, List.nil_append]
    simp
    generalize (sseReader.run {} (d ++ more.flatten)).1.leid = o
    cases o <;> rfl

/-- whole-stream specification: the field interpreter / dispatcher folded over the lines of the stream -/
def sseSpec (lines : List Bytes) : SseSt := lines.foldl (sseLine utf8Replace) {}

/-- refinement: for every list of lines (bytes other than CR and LF, within the line limit) and EVERY choice of
terminator per line that does not write the inherently ambiguous "CR then LF" and does not end the stream on a bare CR,
the incremental reader on the rendered stream ends exactly in the specification's state, nothing left over -/
theorem sse_refines_spec (ls : List (Bytes × Term))
    (hc : ∀ p ∈ ls, clean p.1 ∧ p.1.length ≤ maxLineSize) (ha : admissible ls []) :
    sseReader.run {} (render ls) = (sseSpec (ls.map (·.1)), []) := by
  have h := sse_run_lines utf8Replace ls [] {} rfl hc ha
  simp only [List.append_nil] at h
  rw [show sseReader = sseReaderOf utf8Replace from rfl, h]
  have hd := foldl_sseLine_dead utf8Replace ls {} rfl
  rw [(sseReaderOf utf8Replace).run_none _ [] (step_line_nil _ _ sseEol (by simp [sseReaderOf, hd]))]
  simp [sseSpec, List.foldl_map]

/-- terminator invariance: two writings of the same lines with different admissible terminators give the same events,
last event id and retry (the same whole state) -/
theorem terminator_invariant (ls1 ls2 : List (Bytes × Term)) (hsame : ls1.map (·.1) = ls2.map (·.1))
    (hc1 : ∀ p ∈ ls1, clean p.1 ∧ p.1.length ≤ maxLineSize) (ha1 : admissible ls1 [])
    (hc2 : ∀ p ∈ ls2, clean p.1 ∧ p.1.length ≤ maxLineSize) (ha2 : admissible ls2 []) :
    sseReader.run {} (render ls1) = sseReader.run {} (render ls2) := by
  rw [sse_refines_spec ls1 hc1 ha1, sse_refines_spec ls2 hc2 ha2, hsame]

/-- a CR that ends the bytes received so far is not yet a terminator (it may be the first half of a CRLF): the reader
waits, and so never produces the spurious empty line that dispatched events early (F18) -/
theorem lone_cr_waits (l : Bytes) (hc : clean l) : scan sseEol (l ++ [13]) = none :=
  scan_sse_cr_end l hc

/-- ... and when the LF arrives the two bytes are one terminator -/
theorem cr_then_lf_is_one_terminator (l rest : Bytes) (hc : clean l) :
    scan sseEol ((l ++ [13]) ++ 10 :: rest) = some (l, rest) := by
  simpa using scan_sse_crlf l rest hc

/-! ### non-vacuity of the hypotheses, and the dispatcher on concrete lines (tests on literals, not claims) -/

def ex1 : List (Bytes × Term) :=
  [(ascii "id: 7", .cr), (ascii "data: a", .crlf), (ascii "data", .lf), (ascii "", .cr), (ascii "retry: 50", .crlf), (ascii "", .lf)]

example : (∀ p ∈ ex1, clean p.1 ∧ p.1.length ≤ maxLineSize) ∧ admissible ex1 [] := by decide

/-- id, two data lines joined by LF (the second one empty), retry -/
example : (sseSpec (ex1.map (·.1))).events = [⟨some (ascii "7"), [], ascii "a" ++ [10]⟩] ∧
    (sseSpec (ex1.map (·.1))).retry = some 50 ∧ (sseSpec (ex1.map (·.1))).leid = some (ascii "7") := by decide

/-- a lone `data:` line dispatches an event with empty data (F20); `retry: +5` is ignored (F21); a comment is skipped -/
example : (sseSpec [ascii "data:", [], ascii ": c", ascii "retry: +5", ascii "retry: 1_0", []]).events = [⟨none, [], []⟩] ∧
    (sseSpec [ascii "data:", [], ascii ": c", ascii "retry: +5", ascii "retry: 1_0", []]).retry = none := by decide

/-- malformed UTF-8 is replaced, never an exception (F22) -/
example : (sseSpec [ascii "data: " ++ [255], []]).events = [⟨none, [], [239, 191, 189]⟩] := by decide

end Hio.Http.C15
