import HioModel.Http.Lemmas
/-!
# C17 — chunked transfer coding decodes exactly and rejects invalid chunk sizes

Statement (given): for any body and any division into chunks, with or without chunk extensions and trailers, decoding the
chunked encoding yields exactly that body and those trailers.  A chunk-size line that is not plain hexadecimal digits (such
as a negative, sign-prefixed, '0x'-prefixed or underscore-separated size) is reported as an error and never reinterpreted as
some other size.

`chunkReader` is httping.parseChunk called in a loop (as parseBody does); `encode` is the chunked coding written out
(packChunk's "{:x}\r\n" data "\r\n" per chunk, plus extension text, the last chunk, trailer lines).
-/
namespace Hio.Http.C17
open Hio.Http Hio.Gen.Http

/-- the size written by packChunk is read back, for every n -/
theorem hex_roundtrip (n : Nat) : hexVal (toHex n) 0 = n := hex_roundtrip_aux n

/-- decoding of the encoding, for EVERY list of non-empty chunks (arbitrary bytes, CR and LF included), every extension
text per chunk (empty or ";..." without CR), every trailer list (names without ':' CR LF, values without CR LF, at most
MAX_HEADERS), followed by any further bytes `tail` (pipelining): exactly those chunks with their sizes, the trailers, and
`tail` untouched -/
theorem chunked_roundtrip (chunks : List (Bytes × Bytes)) (lastExt : Bytes) (trailers : List (Bytes × Bytes)) (tail : Bytes)
    (hc : ∀ p ∈ chunks, chunkOk p) (hl : extOk lastExt ∧ 13 ∉ lastExt ∧ (toHex 0 ++ lastExt).length ≤ maxLineSize)
    (ht : ∀ kv ∈ trailers, fieldOk kv) (hn : trailers.length ≤ maxHeaders) :
    chunkReader.run {} (encode chunks lastExt trailers ++ tail) =
      (⟨chunks.map recOf ++ [⟨0, parseExts (lastExt.drop 1), trailerDict [] trailers, []⟩], .done⟩, tail) :=
  chunked_decode_encode chunks lastExt trailers tail hc hl ht hn

/-- the encode side as the code writes it: packChunk of every (non-empty) piece a WSGI app yields, then packChunk(b'')
(Responder.write), decoded by parseChunk: exactly one chunk per piece with the piece as data, then the last chunk, and
whatever follows on the connection (`tail`) untouched — for pieces of EVERY length (the bound is 16^65536 bytes, the
length whose hex size line would itself exceed MAX_LINE_SIZE) -/
theorem pack_parse_roundtrip (pieces : List Bytes) (tail : Bytes)
    (h : ∀ p ∈ pieces, p ≠ [] ∧ p.length < 16 ^ maxLineSize) :
    chunkReader.run {} (packAll pieces ++ tail) =
      (⟨pieces.map (fun p => ⟨p.length, [], [], p⟩) ++ [⟨0, [], [], []⟩], .done⟩, tail) := by
  rw [packAll_eq_encode]
  have hc : ∀ q ∈ pieces.map (fun p => (p, ([] : Bytes))), chunkOk q := by
    intro q hq
    obtain ⟨p, hp, rfl⟩ := List.mem_map.mp hq
    have := h p hp
    refine ⟨this.1, Or.inl rfl, by simp, ?_⟩
    simpa using toHex_length_le maxLineSize p.length (by decide) this.2
  have hl : extOk [] ∧ 13 ∉ ([] : Bytes) ∧ (toHex 0 ++ []).length ≤ maxLineSize := by
    refine ⟨Or.inl rfl, by simp, ?_⟩
    rw [toHex]; decide
  have := chunked_roundtrip (pieces.map fun p => (p, [])) [] [] tail hc hl (by simp) (by simp)
  rw [this]
  simp [recOf, trailerDict, parseExts, List.map_map, Function.comp_def]

/-- the body recovered from packed pieces is their concatenation -/
theorem pack_parse_body (pieces : List Bytes) :
    ((pieces.map (fun p => (⟨p.length, [], [], p⟩ : ChunkRec))).map (·.data)).flatten = pieces.flatten := by
  simp [List.map_map, Function.comp_def]

/-- the size constants the http modules define (regenerated): a new or changed size limit is a new boundary for the
coding and has to be looked at — the generators take their boundary sizes from this table -/
theorem size_constants_pinned :
    sizeConstants = [("MAXAMOUNT", 1048576), ("MAX_LINE_SIZE", 65536), ("_MAXLINE", 65536)] := by decide

/-- the decoded body is the concatenation of the chunks: exactly the body that was encoded, whatever its division -/
theorem decoded_body (chunks : List (Bytes × Bytes)) : ((chunks.map recOf).map (·.data)).flatten = (chunks.map (·.1)).flatten := by
  simp [recOf, List.map_map, Function.comp_def]

/-- trailers with names that differ (ignoring case) come back as written, in order -/
theorem decoded_trailers (trailers : List (Bytes × Bytes)) (hd : distinctNames trailers) : trailerDict [] trailers = trailers := by
  have := trailerDict_distinct [] trailers hd (by intro a ha; simp at ha)
  simpa using this

/-- the same under any fragmentation of the encoded bytes into reads -/
theorem chunk_fragmentation_independent (chunks : List Bytes) :
    chunks.foldl chunkReader.feed ({}, []) = chunkReader.run {} chunks.flatten :=
  chunkReader.foldl_feed_nil _ (step_line_nil chunkReader _ chunkEol rfl) chunks

/-- a size token that is not 1*HEX (after the white-space stripping parseChunk does) is an error, whatever follows -/
theorem bad_size_rejected (line : Bytes) (h : ¬ plainHex (sizeToken line)) : parseSizeLine line = .error .badChunkSize :=
  parseSizeLine_bad line h

/-- ... and at the level of the reader: when the first CRLF-terminated line of the buffer has such a token, no chunk is
produced, nothing after the line is consumed, the outcome is the error — the bytes are never read as some other size -/
theorem bad_size_never_a_chunk (b line rest : Bytes) (hs : scan chunkEol b = some (line, rest))
    (hl : line.length ≤ maxLineSize) (h : ¬ plainHex (sizeToken line)) :
    chunkReader.run {} b = (⟨[], .failed .badChunkSize⟩, rest) := by
  have s1 := chunk_step_line {} chunkEol b line rest rfl hs hl
  rw [chunkReader.run_some _ _ _ _ s1]
  have : chunkOnLine {} line = ⟨[], .failed .badChunkSize⟩ := by
    unfold chunkOnLine; simp [parseSizeLine_bad line h]
  rw [this, chunkReader.run_none]
  unfold Reader.step; simp [chunkReader, chunkNeed]

/-- a plain hex token is read as its value -/
theorem good_size_value (line : Bytes) (h : plainHex (sizeToken line)) :
    ∃ parms, parseSizeLine line = .ok (hexVal (sizeToken line) 0, parms) :=
  parseSizeLine_good line h

/-! ### the malformed sizes named by the property are not plain hex (table; `decide`) and a non-vacuity example -/

theorem named_bad_sizes :
    ¬ plainHex (sizeToken (ascii "-5")) ∧ ¬ plainHex (sizeToken (ascii "+5")) ∧ ¬ plainHex (sizeToken (ascii "0x5")) ∧
    ¬ plainHex (sizeToken (ascii "1_0")) ∧ ¬ plainHex (sizeToken (ascii "")) ∧ ¬ plainHex (sizeToken (ascii " ;x")) ∧
    ¬ plainHex (sizeToken [178]) := by
  unfold plainHex; decide

example : chunkOk ([97, 13, 10, 98], [59, 120, 61, 49]) ∧ fieldOk (ascii "T", ascii "v w") ∧ extOk [] ∧
    distinctNames [(ascii "T", ascii "v"), (ascii "u", ascii "w")] := by
  refine ⟨⟨by decide, Or.inr ⟨_, rfl⟩, by decide, ?_⟩, ⟨by decide, by decide, by decide, by decide⟩, Or.inl rfl, ?_⟩
  · rw [toHex]; decide
  · simp [distinctNames]; decide

end Hio.Http.C17
