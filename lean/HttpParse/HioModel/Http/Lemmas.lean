import HioModel.Http.Model
/-! helper lemmas for the property files (core Lean only) -/
namespace Hio.Http
open Hio.Gen.Http

variable {σ : Type}

/-- an invariant kept by every handler of a reader is kept by `run` -/
theorem Reader.run_inv (p : Reader σ) (P : σ → Prop)
    (hl : ∀ s l, P s → P (p.onLine s l)) (hg : ∀ s, P s → P (p.onLong s))
    (hb : ∀ s d, P s → P (p.onBytes s d)) (ha : ∀ s d, P s → P (p.onAll s d))
    (s : σ) (b : Bytes) (h : P s) : P (p.run s b).1 := by
  induction s, b using Reader.run.induct p with
  | case1 s b hs => rw [p.run_none s b hs]; exact h
  | case2 s b s' b' hs ih =>
    rw [p.run_some s b s' b' hs]
    apply ih
    unfold Reader.step at hs
    split at hs
    · simp at hs
    · split at hs
      · simp at hs
      · simp at hs; rw [← hs.1]; exact hg s h
      · simp at hs; rw [← hs.1]; exact hl s _ h
    · split at hs
      · simp at hs
      · simp at hs; rw [← hs.1]; exact hb s _ h
    · split at hs
      · simp at hs
      · simp at hs; rw [← hs.1]; exact ha s _ h

theorem Reader.foldl_feed_inv (p : Reader σ) (P : σ → Prop)
    (hl : ∀ s l, P s → P (p.onLine s l)) (hg : ∀ s, P s → P (p.onLong s))
    (hb : ∀ s d, P s → P (p.onBytes s d)) (ha : ∀ s d, P s → P (p.onAll s d))
    (chunks : List Bytes) (st : σ × Bytes) (h : P st.1) : P (chunks.foldl p.feed st).1 := by
  induction chunks generalizing st with
  | nil => exact h
  | cons c cs ih =>
    simp only [List.foldl_cons]
    apply ih
    exact p.run_inv P hl hg hb ha st.1 (st.2 ++ c) h

/-- starting from the empty buffer, feeding the reads one by one = running on their concatenation, when the initial
state waits on the empty buffer -/
theorem Reader.foldl_feed_nil (p : Reader σ) (s : σ) (h : p.step s [] = none) (chunks : List Bytes) :
    chunks.foldl p.feed (s, []) = p.run s chunks.flatten := by
  have := p.feed_foldl s [] chunks
  rw [p.run_none s [] h] at this
  simpa using this

theorem lineStep_nil (c : EolCfg) (max : Nat) : lineStep c max [] = .wait := by
  simp [lineStep, scan, pend]

theorem step_line_nil (p : Reader σ) (s : σ) (c : EolCfg) (h : p.need s = .line c) : p.step s [] = none := by
  unfold Reader.step; simp [h, lineStep_nil]

/-! ### every exception of the model is caught by the handler of Parsent.parseMessage -/

theorem all_caught : ∀ e : Exn, catchMessage e = true := by
  intro e; cases e <;> decide

def ReqSt.noEsc (s : ReqSt) : Prop := s.escapedCls = none
def RespSt.escapedCls (s : RespSt) : Option String :=
  match s.phase with
  | .escaped c => some c
  | _ => none
def RespSt.noEsc (s : RespSt) : Prop := s.escapedCls = none

theorem ReqSt.raise_noEsc (s : ReqSt) (e : Exn) : (s.raise e).noEsc := by
  simp [ReqSt.raise, all_caught, ReqSt.noEsc, ReqSt.escapedCls]

theorem ReqSt.finish_noEsc (s : ReqSt) : s.finish.noEsc := by
  unfold ReqSt.finish ReqSt.noEsc ReqSt.escapedCls
  by_cases h : s.persisted <;> simp [h]

theorem RespSt.raise_noEsc (s : RespSt) (e : Exn) : (s.raise e).noEsc := by
  simp [RespSt.raise, all_caught, RespSt.noEsc, RespSt.escapedCls]

theorem RespSt.finish_noEsc (s : RespSt) : s.finish.noEsc := by
  unfold RespSt.finish RespSt.noEsc RespSt.escapedCls
  by_cases h : s.persisted <;> simp [h]

theorem reqStartLine_noEsc (s s' : ReqSt) (l : Bytes) (h : reqStartLine s l = .ok s') : s'.noEsc := by
  unfold reqStartLine at h
  simp only [List.getD_eq_getElem?_getD] at h
  generalize (splitWs l)[0]?.getD [] = m at h
  generalize (splitWs l)[1]?.getD [] = u at h
  generalize (splitWs l)[2]?.getD [] = v at h
  by_cases h1 : l.isEmpty = true
  · simp [h1] at h
  · by_cases h2 : isPrefix (ascii "HTTP/") v = true
    · by_cases h3 : methodOk m = true
      · by_cases h4 : isPrefix (ascii "HTTP/1.") v = true
        · by_cases h5 : u ∈ s.badUrls
          · simp [h1, h2, h3, h4, h5] at h
          · simp [h1, h2, h3, h4, h5] at h
            subst h; simp [ReqSt.noEsc, ReqSt.escapedCls]
        · simp [h1, h2, h3, h4] at h
      · simp [h1, h2, h3] at h
    · simp [h1, h2] at h

theorem reqHeadDone_noEsc (s s' : ReqSt) (hd : Hdrs) (h : reqHeadDone s hd = .ok s') : s'.noEsc := by
  unfold reqHeadDone at h
  simp only at h
  by_cases h1 : isChunked hd = true
  · simp [h1] at h; subst h; simp [ReqSt.noEsc, ReqSt.escapedCls]
  · simp [h1] at h
    split at h
    · simp at h; subst h; simp [ReqSt.noEsc, ReqSt.escapedCls]
    · simp at h

theorem reqOnLineE_noEsc (s s' : ReqSt) (l : Bytes) (hs : s.noEsc) (h : reqOnLineE s l = .ok s') : s'.noEsc := by
  unfold reqOnLineE at h
  split at h
  · exact reqStartLine_noEsc s s' l h
  · split at h
    · simp at h
    · simp at h; subst h; simp [ReqSt.noEsc, ReqSt.escapedCls]
    · exact reqHeadDone_noEsc s s' _ h
  · split at h
    · simp at h
    · simp at h; subst h
      repeat' split
      all_goals simp [ReqSt.noEsc, ReqSt.escapedCls]
  · split at h
    · simp at h; subst h; simp [ReqSt.noEsc, ReqSt.escapedCls]
    · simp at h
  · split at h
    · simp at h
    · simp at h; subst h; simp [ReqSt.noEsc, ReqSt.escapedCls]
    · simp at h; subst h; exact ReqSt.finish_noEsc _
  · simp at h; subst h; exact hs

theorem reqOnLine_noEsc (s : ReqSt) (l : Bytes) (hs : s.noEsc) : (reqOnLine s l).noEsc := by
  unfold reqOnLine
  cases h : reqOnLineE s l with
  | error e => exact ReqSt.raise_noEsc s e
  | ok s' => exact reqOnLineE_noEsc s s' l hs h

theorem reqOnBytes_noEsc (s : ReqSt) (d : Bytes) (hs : s.noEsc) : (reqOnBytes s d).noEsc := by
  unfold reqOnBytes
  split
  · exact ReqSt.finish_noEsc _
  · simp [ReqSt.noEsc, ReqSt.escapedCls]
  · exact hs

theorem respStatusLine_noEsc (s s' : RespSt) (l : Bytes) (h : respStatusLine s l = .ok s') : s'.noEsc := by
  unfold respStatusLine at h
  simp only [List.getD_eq_getElem?_getD] at h
  generalize (splitWs l)[0]?.getD [] = v at h
  generalize (splitWs l)[1]?.getD [] = st at h
  generalize List.foldl (fun acc t => if acc.isEmpty = true then t else acc ++ 32 :: t) [] (List.drop 2 (splitWs l)) = rs at h
  by_cases h1 : l.isEmpty = true
  · simp [h1] at h
  · by_cases h2 : isPrefix (ascii "HTTP/") v = true
    · simp [h1, h2] at h
      split at h
      · simp at h
      · rename_i i hi
        by_cases h3 : i < 100 ∨ i > 999
        · simp [h3] at h
        · simp [h3] at h
          by_cases h4 : i.toNat = statusContinue
          · simp [h4] at h; subst h; simp [RespSt.noEsc, RespSt.escapedCls]
          · simp [h4] at h
            split at h
            · simp at h
            · simp at h; subst h; simp [RespSt.noEsc, RespSt.escapedCls]
    · simp [h1, h2] at h

theorem respBodyPhase_noEsc (c : Bool) (l : Option Nat) : ∀ cls, respBodyPhase c l ≠ .escaped cls := by
  intro cls; unfold respBodyPhase; split
  · simp
  · split <;> simp

theorem respHeadDone_noEsc (s s' : RespSt) (hd : Hdrs) (h : respHeadDone s hd = .ok s') : s'.noEsc := by
  unfold respHeadDone at h
  simp only [Except.ok.injEq] at h
  subst h
  simp only [RespSt.noEsc, RespSt.escapedCls]
  split
  · rename_i c hc; exact absurd hc (respBodyPhase_noEsc _ _ c)
  · rfl

theorem respOnLineE_noEsc (s s' : RespSt) (l : Bytes) (hs : s.noEsc) (h : respOnLineE s l = .ok s') : s'.noEsc := by
  unfold respOnLineE at h
  split at h
  · exact respStatusLine_noEsc s s' l h
  · split at h
    · simp at h
    · simp at h; subst h; simp [RespSt.noEsc, RespSt.escapedCls]
    · simp at h; subst h; simp [RespSt.noEsc, RespSt.escapedCls]
  · split at h
    · simp at h
    · simp at h; subst h; simp [RespSt.noEsc, RespSt.escapedCls]
    · exact respHeadDone_noEsc s s' _ h
  · split at h
    · simp at h
    · simp at h; subst h
      repeat' split
      all_goals simp [RespSt.noEsc, RespSt.escapedCls]
  · by_cases h1 : l.isEmpty = true
    · simp [h1] at h
      by_cases h2 : s.isEv = true
      · simp [h2] at h
        split at h
        · simp at h
        · simp at h; subst h; simp [RespSt.noEsc, RespSt.escapedCls]
      · simp [h2] at h; subst h; simp [RespSt.noEsc, RespSt.escapedCls]
    · simp [h1] at h
  · split at h
    · simp at h
    · simp at h; subst h; simp [RespSt.noEsc, RespSt.escapedCls]
    · simp at h; subst h; exact RespSt.finish_noEsc _
  · simp at h; subst h; exact hs

theorem respOnLine_noEsc (s : RespSt) (l : Bytes) (hs : s.noEsc) : (respOnLine s l).noEsc := by
  unfold respOnLine
  cases h : respOnLineE s l with
  | error e => exact RespSt.raise_noEsc s e
  | ok s' => exact respOnLineE_noEsc s s' l hs h

theorem respOnBytes_noEsc (s : RespSt) (d : Bytes) (hs : s.noEsc) : (respOnBytes s d).noEsc := by
  unfold respOnBytes
  split
  · exact RespSt.finish_noEsc _
  · simp [RespSt.noEsc, RespSt.escapedCls]
  · exact hs

theorem respOnAll_noEsc (s : RespSt) (d : Bytes) (hs : s.noEsc) : (respOnAll s d).noEsc := by
  unfold respOnAll
  split
  · simpa [RespSt.absorb, RespSt.noEsc, RespSt.escapedCls] using hs
  · simpa [RespSt.noEsc, RespSt.escapedCls] using hs

theorem respSettle_noEsc (s : RespSt) (hs : s.noEsc) : s.settle.noEsc := by
  unfold RespSt.settle
  split
  · split
    · exact RespSt.raise_noEsc _ _
    · exact hs
  · exact hs

theorem respClose_noEsc (s : RespSt) (b : Bytes) (hs : s.noEsc) : (respClose s b).noEsc := by
  unfold respClose
  repeat' split
  all_goals first | exact RespSt.raise_noEsc _ _ | exact RespSt.finish_noEsc _ | exact hs

/-! ### server-sent events: the reader processes exactly the lines of the stream -/

def clean (l : Bytes) : Prop := ∀ x ∈ l, x ≠ 10 ∧ x ≠ 13

theorem scan_sse_lf (l rest : Bytes) (h : clean l) : scan sseEol (l ++ 10 :: rest) = some (l, rest) := by
  induction l with
  | nil => simp [scan, sseEol]
  | cons y l' ih =>
    have hy := h y (by simp)
    have ih' := ih (fun x hx => h x (by simp [hx]))
    rw [List.cons_append]
    unfold scan
    simp [hy.1, hy.2, ih', consL]

theorem scan_sse_crlf (l rest : Bytes) (h : clean l) : scan sseEol (l ++ 13 :: 10 :: rest) = some (l, rest) := by
  induction l with
  | nil => simp [scan, sseEol]
  | cons y l' ih =>
    have hy := h y (by simp)
    have ih' := ih (fun x hx => h x (by simp [hx]))
    rw [List.cons_append]
    unfold scan
    simp [hy.1, hy.2, ih', consL]

theorem scan_sse_cr (l : Bytes) (x : Nat) (xs : Bytes) (h : clean l) (hx : x ≠ 10) :
    scan sseEol (l ++ 13 :: x :: xs) = some (l, x :: xs) := by
  induction l with
  | nil => simp [scan, sseEol, hx]
  | cons y l' ih =>
    have hy := h y (by simp)
    have ih' := ih (fun x hx => h x (by simp [hx]))
    rw [List.cons_append]
    unfold scan
    simp [hy.1, hy.2, ih', consL]

theorem scan_sse_cr_end (l : Bytes) (h : clean l) : scan sseEol (l ++ [13]) = none := by
  induction l with
  | nil => simp [scan, sseEol]
  | cons y l' ih =>
    have hy := h y (by simp)
    have ih' := ih (fun x hx => h x (by simp [hx]))
    rw [List.cons_append]
    unfold scan
    simp [hy.1, hy.2, ih', consL]

inductive Term where
  | crlf | lf | cr
deriving DecidableEq, Repr

def Term.bytes : Term → Bytes
  | .crlf => [13, 10]
  | .lf => [10]
  | .cr => [13]

/-- a stream written line by line, each with its own terminator -/
def render : List (Bytes × Term) → Bytes
  | [] => []
  | (l, t) :: more => l ++ t.bytes ++ render more

/-- what follows a bare-CR terminator must be a byte other than LF (otherwise the two bytes ARE a CRLF) and must exist
(a CR that ends the bytes received so far is still undecided) -/
def nextOk : Bytes → Prop
  | [] => False
  | x :: _ => x ≠ 10

instance : (b : Bytes) → Decidable (nextOk b)
  | [] => isFalse (by simp [nextOk])
  | x :: _ => inferInstanceAs (Decidable (x ≠ 10))

def admissible : List (Bytes × Term) → Bytes → Prop
  | [], _ => True
  | (_, t) :: more, tail => (t = .cr → nextOk (render more ++ tail)) ∧ admissible more tail

instance admissibleDec : (ls : List (Bytes × Term)) → (tail : Bytes) → Decidable (admissible ls tail)
  | [], _ => isTrue trivial
  | (_, t) :: more, tail =>
    have := admissibleDec more tail
    inferInstanceAs (Decidable ((t = .cr → nextOk (render more ++ tail)) ∧ admissible more tail))

instance (l : Bytes) : Decidable (clean l) := inferInstanceAs (Decidable (∀ x ∈ l, x ≠ 10 ∧ x ≠ 13))

theorem sseLine_dead (d : Bytes → Bytes) (s : SseSt) (l : Bytes) : (sseLine d s l).dead = s.dead := by
  unfold sseLine
  simp only
  repeat' split
  all_goals rfl

theorem sse_step_line (d : Bytes → Bytes) (s : SseSt) (l : Bytes) (t : Term) (rest : Bytes) (hd : s.dead = false)
    (hc : clean l) (hl : l.length ≤ maxLineSize)
    (ht : t = .cr → nextOk rest) :
    (sseReaderOf d).step s (l ++ t.bytes ++ rest) = some (sseLine d s l, rest) := by
  have hscan : scan sseEol (l ++ t.bytes ++ rest) = some (l, rest) := by
    cases t with
    | crlf => simpa [Term.bytes] using scan_sse_crlf l rest hc
    | lf => simpa [Term.bytes] using scan_sse_lf l rest hc
    | cr =>
      have hn := ht rfl
      cases rest with
      | nil => simp [nextOk] at hn
      | cons x xs => simpa [Term.bytes] using scan_sse_cr l x xs hc hn
  unfold Reader.step
  have hm : ¬ (maxLineSize < l.length) := by omega
  rw [List.append_assoc] at hscan
  simp [sseReaderOf, hd, lineStep, hscan, hm]

/-- the reader processes exactly the lines of the stream, in order, whatever terminator each line carries -/
theorem sse_run_lines (d : Bytes → Bytes) (ls : List (Bytes × Term)) (tail : Bytes) (s : SseSt) (hd : s.dead = false)
    (hc : ∀ p ∈ ls, clean p.1 ∧ p.1.length ≤ maxLineSize) (ha : admissible ls tail) :
    (sseReaderOf d).run s (render ls ++ tail) = (sseReaderOf d).run (ls.foldl (fun s p => sseLine d s p.1) s) tail := by
  induction ls generalizing s with
  | nil => simp [render]
  | cons p more ih =>
    obtain ⟨l, t⟩ := p
    have hp := hc (l, t) (by simp)
    have hstep := sse_step_line d s l t (render more ++ tail) hd hp.1 hp.2 ha.1
    have : render ((l, t) :: more) ++ tail = l ++ t.bytes ++ (render more ++ tail) := by simp [render]
    rw [this, (sseReaderOf d).run_some _ _ _ _ hstep]
    simp only [List.foldl_cons]
    exact ih (sseLine d s l) (by rw [sseLine_dead]; exact hd) (fun q hq => hc q (by simp [hq])) ha.2

theorem foldl_sseLine_dead (d : Bytes → Bytes) (ls : List (Bytes × Term)) (s : SseSt) (h : s.dead = false) :
    (ls.foldl (fun s p => sseLine d s p.1) s).dead = false := by
  induction ls generalizing s with
  | nil => exact h
  | cons p more ih => simp only [List.foldl_cons]; exact ih _ (by rw [sseLine_dead]; exact h)

/-! ### chunked coding: hex, size line, decode of encode -/

theorem hexVal_append (a b : Bytes) (acc : Nat) : hexVal (a ++ b) acc = hexVal b (hexVal a acc) := by
  induction a generalizing acc with
  | nil => rfl
  | cons x xs ih => simp [hexVal, ih]

theorem hexDigitVal_hexChar (d : Nat) (h : d < 16) : hexDigitVal (hexChar d) = d := by
  unfold hexChar hexDigitVal
  by_cases h10 : d < 10
  · simp [h10]; omega
  · simp [h10]
    have h1 : ¬ (87 + d ≤ 57) := by omega
    have h2 : 97 ≤ 87 + d := by omega
    have h3 : 87 + d ≤ 102 := by omega
    simp [h1, h2, h3]

theorem isHexDigit_iff (x : Nat) : isHexDigit x = true ↔ (48 ≤ x ∧ x ≤ 57) ∨ (97 ≤ x ∧ x ≤ 102) ∨ (65 ≤ x ∧ x ≤ 70) := by
  simp only [isHexDigit, hexDigits]
  constructor
  · intro h; simp at h; omega
  · intro h; simp; omega

theorem isHexDigit_hexChar (d : Nat) (h : d < 16) : isHexDigit (hexChar d) = true := by
  rw [isHexDigit_iff]; unfold hexChar; split <;> omega

theorem hex_roundtrip_aux : ∀ n, hexVal (toHex n) 0 = n := by
  intro n
  induction n using Nat.strongRecOn with
  | _ n ih =>
    rw [toHex]
    by_cases h : n < 16
    · simp [h, hexVal, hexDigitVal_hexChar n h]
    · simp only [h, if_false]
      rw [hexVal_append, ih (n / 16) (by omega)]
      simp [hexVal, hexDigitVal_hexChar (n % 16) (by omega)]
      omega

theorem toHex_all_hex : ∀ n, (toHex n).all isHexDigit = true := by
  intro n
  induction n using Nat.strongRecOn with
  | _ n ih =>
    rw [toHex]
    by_cases h : n < 16
    · simp [h, isHexDigit_hexChar n h]
    · simp only [h, if_false]
      simp [ih (n / 16) (by omega), isHexDigit_hexChar (n % 16) (by omega)]

theorem toHex_ne_nil (n : Nat) : toHex n ≠ [] := by
  rw [toHex]; split <;> simp


theorem partitionB1_absent (c : Nat) (a : Bytes) (h : c ∉ a) : partitionB [c] a = (a, false, []) := by
  induction a with
  | nil => rfl
  | cons x xs ih =>
    have hx : c ≠ x := by intro e; apply h; simp [e]
    have := ih (by intro hm; apply h; simp [hm])
    unfold partitionB
    simp [isPrefix, hx, this]

theorem partitionB1_at (c : Nat) (a e : Bytes) (h : c ∉ a) : partitionB [c] (a ++ c :: e) = (a, true, e) := by
  induction a with
  | nil => simp [partitionB, isPrefix]
  | cons x xs ih =>
    have hx : c ≠ x := by intro e; apply h; simp [e]
    have := ih (by intro hm; apply h; simp [hm])
    rw [List.cons_append]
    unfold partitionB
    simp [isPrefix, hx, this]

theorem lstrip_id (p : Nat → Bool) (a : Bytes) (h : ∀ x ∈ a, p x = false) : lstrip p a = a := by
  cases a with
  | nil => rfl
  | cons x xs => simp [lstrip, h x (by simp)]

theorem strip_id (p : Nat → Bool) (a : Bytes) (h : ∀ x ∈ a, p x = false) : strip p a = a := by
  unfold strip
  rw [lstrip_id p a h, lstrip_id p a.reverse (by intro x hx; exact h x (by simpa using hx))]
  simp

theorem hex_not_space (x : Nat) (h : isHexDigit x = true) : isBytesSpace x = false := by
  rw [isHexDigit_iff] at h
  simp only [isBytesSpace, bytesSpace]
  simp; omega

theorem hex_not_semi (x : Nat) (h : isHexDigit x = true) : x ≠ 59 := by
  rw [isHexDigit_iff] at h; omega

/-- the size line `hex(n) ext` where ext is empty or starts with ';' -/
def extOk (ext : Bytes) : Prop := ext = [] ∨ ∃ e, ext = 59 :: e

theorem parseSizeLine_hex (n : Nat) (ext : Bytes) (he : extOk ext) :
    parseSizeLine (toHex n ++ ext) = .ok (n, parseExts (ext.drop 1)) := by
  have hall := toHex_all_hex n
  have hmem : ∀ x ∈ toHex n, isHexDigit x = true := by simpa [List.all_eq_true] using hall
  have hsemi : 59 ∉ toHex n := fun hm => hex_not_semi 59 (hmem 59 hm) rfl
  have hstrip : strip isBytesSpace (toHex n) = toHex n := strip_id _ _ (fun x hx => hex_not_space x (hmem x hx))
  unfold parseSizeLine
  rcases he with rfl | ⟨e, rfl⟩
  · simp only [List.append_nil]
    rw [partitionB1_absent 59 _ hsemi]
    simp [hstrip, hall, toHex_ne_nil, hex_roundtrip_aux, parseExts]
  · rw [partitionB1_at 59 _ e hsemi]
    simp [hstrip, hall, toHex_ne_nil, hex_roundtrip_aux]

def plainHex (tok : Bytes) : Prop :=
  tok ≠ [] ∧ ∀ x ∈ tok, (48 ≤ x ∧ x ≤ 57) ∨ (97 ≤ x ∧ x ≤ 102) ∨ (65 ≤ x ∧ x ≤ 70)

/-- the size token of a chunk-size line: what precedes the first ';', white space stripped -/
def sizeToken (line : Bytes) : Bytes := strip isBytesSpace (partitionB [59] line).1

theorem parseSizeLine_bad (line : Bytes) (h : ¬ plainHex (sizeToken line)) : parseSizeLine line = .error .badChunkSize := by
  unfold parseSizeLine
  unfold sizeToken at h
  dsimp only
  generalize strip isBytesSpace (partitionB [59] line).1 = tok at h ⊢
  by_cases he : tok = []
  · simp [he]
  · have : tok.all isHexDigit = false := by
      cases hq : tok.all isHexDigit with
      | false => rfl
      | true =>
        exfalso; apply h
        refine ⟨he, ?_⟩
        intro x hx
        have := (List.all_eq_true.mp hq) x hx
        exact (isHexDigit_iff x).mp this
    simp [this]

theorem parseSizeLine_good (line : Bytes) (h : plainHex (sizeToken line)) :
    ∃ parms, parseSizeLine line = .ok (hexVal (sizeToken line) 0, parms) := by
  unfold parseSizeLine
  unfold sizeToken at h ⊢
  dsimp only
  generalize strip isBytesSpace (partitionB [59] line).1 = tok at h ⊢
  have h1 : tok.isEmpty = false := by cases tok with | nil => exact absurd rfl h.1 | cons _ _ => rfl
  have h2 : tok.all isHexDigit = true := by
    rw [List.all_eq_true]; intro x hx; exact (isHexDigit_iff x).mpr (h.2 x hx)
  exact ⟨parseExts (partitionB [59] line).2.2, by simp [h1, h2]⟩

theorem scan_chunk_crlf (l rest : Bytes) (h : 13 ∉ l) : scan chunkEol (l ++ 13 :: 10 :: rest) = some (l, rest) := by
  induction l with
  | nil => simp [scan, chunkEol]
  | cons y l' ih =>
    have hy : y ≠ 13 := by intro e; apply h; simp [e]
    have ih' := ih (by intro hm; apply h; simp [hm])
    rw [List.cons_append]
    unfold scan
    rw [ih']
    simp [hy, consL, chunkEol]

theorem scan_http_crlf (l rest : Bytes) (h : clean l) : scan httpEol (l ++ 13 :: 10 :: rest) = some (l, rest) := by
  induction l with
  | nil => simp [scan, httpEol]
  | cons y l' ih =>
    have hy := h y (by simp)
    have ih' := ih (fun x hx => h x (by simp [hx]))
    rw [List.cons_append]
    unfold scan
    simp [hy.1, hy.2, ih', consL]

theorem chunk_step_line (s : ChunkSt) (c : EolCfg) (b l r : Bytes) (hn : chunkNeed s = .line c)
    (hs : scan c b = some (l, r)) (hl : l.length ≤ maxLineSize) :
    chunkReader.step s b = some (chunkOnLine s l, r) := by
  unfold Reader.step
  have hm : ¬ (maxLineSize < l.length) := by omega
  simp [chunkReader, hn, lineStep, hs, hm]

theorem chunk_step_bytes (s : ChunkSt) (n : Nat) (b : Bytes) (hn : chunkNeed s = .bytes n) (h : n ≤ b.length) :
    chunkReader.step s b = some (chunkReader.onBytes s (b.take n), b.drop n) := by
  unfold Reader.step
  have hm : ¬ (b.length < n) := by omega
  simp [chunkReader, hn, hm]

theorem run_one_chunk (out : List ChunkRec) (c ext rest : Bytes) (hc : c ≠ []) (he : extOk ext) (h13 : 13 ∉ ext)
    (hlen : (toHex c.length ++ ext).length ≤ maxLineSize) :
    chunkReader.run ⟨out, .size⟩ (toHex c.length ++ ext ++ [13, 10] ++ c ++ [13, 10] ++ rest) =
      chunkReader.run ⟨out ++ [⟨c.length, parseExts (ext.drop 1), [], c⟩], .size⟩ rest := by
  have hall := toHex_all_hex c.length
  have hmem : ∀ x ∈ toHex c.length, isHexDigit x = true := by simpa [List.all_eq_true] using hall
  have hno13 : 13 ∉ toHex c.length ++ ext := by
    intro hm
    rcases List.mem_append.mp hm with h | h
    · have := (isHexDigit_iff 13).mp (hmem 13 h); omega
    · exact h13 h
  have hpos : ∃ k, c.length = k + 1 := by
    cases c with
    | nil => exact absurd rfl hc
    | cons x xs => exact ⟨xs.length, rfl⟩
  obtain ⟨k, hk⟩ := hpos
  -- size line
  have e1 : toHex c.length ++ ext ++ [13, 10] ++ c ++ [13, 10] ++ rest
      = (toHex c.length ++ ext) ++ 13 :: 10 :: (c ++ 13 :: 10 :: rest) := by simp
  have s1 := chunk_step_line ⟨out, .size⟩ chunkEol _ _ _ rfl (scan_chunk_crlf _ (c ++ 13 :: 10 :: rest) hno13) hlen
  rw [e1, chunkReader.run_some _ _ _ _ s1]
  have hline : chunkOnLine ⟨out, .size⟩ (toHex c.length ++ ext) = ⟨out, .data c.length (parseExts (ext.drop 1))⟩ := by
    unfold chunkOnLine
    simp only [parseSizeLine_hex c.length ext he]
    rw [hk]
  rw [hline]
  -- data
  have s2 := chunk_step_bytes ⟨out, .data c.length (parseExts (ext.drop 1))⟩ c.length (c ++ 13 :: 10 :: rest) rfl (by simp)
  rw [chunkReader.run_some _ _ _ _ s2]
  simp only [List.take_left', List.drop_left']
  -- chunk end
  have s3 := chunk_step_line (chunkReader.onBytes ⟨out, .data c.length (parseExts (ext.drop 1))⟩ c) chunkEol
    (13 :: 10 :: rest) [] rest rfl (by simpa using scan_chunk_crlf [] rest (by simp)) (by simp)
  rw [chunkReader.run_some _ _ _ _ s3]
  rfl

theorem run_last_chunk (out : List ChunkRec) (ext rest : Bytes) (he : extOk ext) (h13 : 13 ∉ ext)
    (hlen : (toHex 0 ++ ext).length ≤ maxLineSize) :
    chunkReader.run ⟨out, .size⟩ (toHex 0 ++ ext ++ [13, 10] ++ rest) =
      chunkReader.run ⟨out, .trailer (parseExts (ext.drop 1)) []⟩ rest := by
  have hno13 : 13 ∉ toHex 0 ++ ext := by
    intro hm
    rcases List.mem_append.mp hm with h | h
    · have h0 : toHex 0 = [48] := by rw [toHex]; simp [hexChar]
      rw [h0] at h; simp at h
    · exact h13 h
  have e1 : toHex 0 ++ ext ++ [13, 10] ++ rest = (toHex 0 ++ ext) ++ 13 :: 10 :: rest := by simp
  have s1 := chunk_step_line ⟨out, .size⟩ chunkEol _ _ _ rfl (scan_chunk_crlf _ rest hno13) hlen
  rw [e1, chunkReader.run_some _ _ _ _ s1]
  have hline : chunkOnLine ⟨out, .size⟩ (toHex 0 ++ ext) = ⟨out, .trailer (parseExts (ext.drop 1)) []⟩ := by
    unfold chunkOnLine
    simp only [parseSizeLine_hex 0 ext he]
  rw [hline]

theorem partitionB2_at (a b : Nat) (k v : Bytes) (h : a ∉ k) : partitionB [a, b] (k ++ a :: b :: v) = (k, true, v) := by
  induction k with
  | nil => simp [partitionB, isPrefix]
  | cons x xs ih =>
    have hx : a ≠ x := by intro e; apply h; simp [e]
    have := ih (by intro hm; apply h; simp [hm])
    rw [List.cons_append]
    unfold partitionB
    simp [isPrefix, hx, this]

theorem hset_length (h : Hdrs) (k v : Bytes) : (hset h k v).length ≤ h.length + 1 := by
  induction h with
  | nil => simp [hset]
  | cons p rest ih =>
    obtain ⟨k', v'⟩ := p
    unfold hset
    split
    · simp
    · simp; omega

/-- a trailer (or header) line `key: value` -/
def fieldLine (kv : Bytes × Bytes) : Bytes := kv.1 ++ 58 :: 32 :: kv.2

def fieldOk (kv : Bytes × Bytes) : Prop :=
  clean kv.1 ∧ clean kv.2 ∧ 58 ∉ kv.1 ∧ (fieldLine kv).length ≤ maxLineSize

theorem run_trailer_line (out : List ChunkRec) (parms : Parms) (acc : Hdrs) (kv : Bytes × Bytes) (rest : Bytes)
    (hk : fieldOk kv) (hn : (hset acc kv.1 kv.2).length ≤ maxHeaders) :
    chunkReader.run ⟨out, .trailer parms acc⟩ (fieldLine kv ++ [13, 10] ++ rest) =
      chunkReader.run ⟨out, .trailer parms (hset acc kv.1 kv.2)⟩ rest := by
  obtain ⟨k, v⟩ := kv
  obtain ⟨hck, hcv, h58, hlen⟩ := hk
  have hcl : clean (fieldLine (k, v)) := by
    intro x hx
    simp only [fieldLine, List.mem_append, List.mem_cons] at hx
    rcases hx with h | h | h | h
    · exact hck x h
    · subst h; omega
    · subst h; omega
    · exact hcv x h
  have e1 : fieldLine (k, v) ++ [13, 10] ++ rest = fieldLine (k, v) ++ 13 :: 10 :: rest := by simp
  have s1 := chunk_step_line ⟨out, .trailer parms acc⟩ httpEol _ _ _ rfl (scan_http_crlf _ rest hcl) hlen
  rw [e1, chunkReader.run_some _ _ _ _ s1]
  have hne : (fieldLine (k, v)).isEmpty = false := by simp [fieldLine]
  have hline : chunkOnLine ⟨out, .trailer parms acc⟩ (fieldLine (k, v)) = ⟨out, .trailer parms (hset acc k v)⟩ := by
    unfold chunkOnLine
    simp only
    unfold leaderLine
    have hm : ¬ (maxHeaders < (hset acc k v).length) := by simp at hn; omega
    simp [hne, fieldLine, partitionB2_at 58 32 k v h58, hm]
  rw [hline]

theorem run_trailer_end (out : List ChunkRec) (parms : Parms) (acc : Hdrs) (tail : Bytes) (hn : acc.length ≤ maxHeaders) :
    chunkReader.run ⟨out, .trailer parms acc⟩ (13 :: 10 :: tail) = (⟨out ++ [⟨0, parms, acc, []⟩], .done⟩, tail) := by
  have s1 := chunk_step_line ⟨out, .trailer parms acc⟩ httpEol (13 :: 10 :: tail) [] tail rfl
    (by simpa using scan_http_crlf [] tail (by intro x hx; simp at hx)) (by simp)
  rw [chunkReader.run_some _ _ _ _ s1]
  have hline : chunkOnLine ⟨out, .trailer parms acc⟩ [] = ⟨out ++ [⟨0, parms, acc, []⟩], .done⟩ := by
    unfold chunkOnLine
    simp only
    unfold leaderLine
    have hm : ¬ (maxHeaders < acc.length) := by omega
    simp [hm]
  rw [hline, chunkReader.run_none]
  unfold Reader.step; simp [chunkReader, chunkNeed]

/-! ### the encoder -/

def CRLF : Bytes := [13, 10]

def encChunk (p : Bytes × Bytes) : Bytes := toHex p.1.length ++ p.2 ++ CRLF ++ p.1 ++ CRLF

/-- chunked coding of the chunks `(data, extension text)`, then the last chunk with its extension text, the trailers, and the
final CRLF -/
def encode (chunks : List (Bytes × Bytes)) (lastExt : Bytes) (trailers : List (Bytes × Bytes)) : Bytes :=
  (chunks.map encChunk).flatten ++ (toHex 0 ++ lastExt ++ CRLF) ++ (trailers.map (fun kv => fieldLine kv ++ CRLF)).flatten ++ CRLF

def chunkOk (p : Bytes × Bytes) : Prop :=
  p.1 ≠ [] ∧ extOk p.2 ∧ 13 ∉ p.2 ∧ (toHex p.1.length ++ p.2).length ≤ maxLineSize

def recOf (p : Bytes × Bytes) : ChunkRec := ⟨p.1.length, parseExts (p.2.drop 1), [], p.1⟩

def trailerDict (acc : Hdrs) (trailers : List (Bytes × Bytes)) : Hdrs := trailers.foldl (fun h kv => hset h kv.1 kv.2) acc

theorem run_chunks (chunks : List (Bytes × Bytes)) (out : List ChunkRec) (rest : Bytes) (h : ∀ p ∈ chunks, chunkOk p) :
    chunkReader.run ⟨out, .size⟩ ((chunks.map encChunk).flatten ++ rest) = chunkReader.run ⟨out ++ chunks.map recOf, .size⟩ rest := by
  induction chunks generalizing out with
  | nil => simp
  | cons p more ih =>
    obtain ⟨hc, he, h13, hl⟩ := h p (by simp)
    have e : ((p :: more).map encChunk).flatten ++ rest
        = toHex p.1.length ++ p.2 ++ [13, 10] ++ p.1 ++ [13, 10] ++ ((more.map encChunk).flatten ++ rest) := by
      simp [encChunk, CRLF]
    rw [e, run_one_chunk out p.1 p.2 _ hc he h13 hl, ih _ (fun q hq => h q (by simp [hq]))]
    simp [recOf]

theorem trailerDict_length (acc : Hdrs) (ts : List (Bytes × Bytes)) : (trailerDict acc ts).length ≤ acc.length + ts.length := by
  induction ts generalizing acc with
  | nil => simp [trailerDict]
  | cons kv more ih =>
    have h1 := hset_length acc kv.1 kv.2
    have h2 := ih (hset acc kv.1 kv.2)
    simp only [trailerDict, List.foldl_cons, List.length_cons] at h2 ⊢
    omega

theorem run_trailers (out : List ChunkRec) (parms : Parms) (ts : List (Bytes × Bytes)) (acc : Hdrs) (rest : Bytes)
    (hk : ∀ kv ∈ ts, fieldOk kv) (hn : acc.length + ts.length ≤ maxHeaders) :
    chunkReader.run ⟨out, .trailer parms acc⟩ ((ts.map (fun kv => fieldLine kv ++ CRLF)).flatten ++ rest) =
      chunkReader.run ⟨out, .trailer parms (trailerDict acc ts)⟩ rest := by
  induction ts generalizing acc with
  | nil => simp [trailerDict]
  | cons kv more ih =>
    have h1 := hset_length acc kv.1 kv.2
    have e : (((kv :: more).map (fun kv => fieldLine kv ++ CRLF)).flatten ++ rest)
        = fieldLine kv ++ [13, 10] ++ ((more.map (fun kv => fieldLine kv ++ CRLF)).flatten ++ rest) := by simp [CRLF]
    simp only [List.length_cons] at hn
    rw [e, run_trailer_line out parms acc kv _ (hk kv (by simp)) (by omega),
        ih (hset acc kv.1 kv.2) (fun q hq => hk q (by simp [hq])) (by omega)]
    simp [trailerDict]

/-- decode (encode chunks lastExt trailers) -/
theorem chunked_decode_encode (chunks : List (Bytes × Bytes)) (lastExt : Bytes) (trailers : List (Bytes × Bytes)) (tail : Bytes)
    (hc : ∀ p ∈ chunks, chunkOk p) (hl : extOk lastExt ∧ 13 ∉ lastExt ∧ (toHex 0 ++ lastExt).length ≤ maxLineSize)
    (ht : ∀ kv ∈ trailers, fieldOk kv) (hn : trailers.length ≤ maxHeaders) :
    chunkReader.run {} (encode chunks lastExt trailers ++ tail) =
      (⟨chunks.map recOf ++ [⟨0, parseExts (lastExt.drop 1), trailerDict [] trailers, []⟩], .done⟩, tail) := by
  have e : encode chunks lastExt trailers ++ tail =
      (chunks.map encChunk).flatten ++ (toHex 0 ++ lastExt ++ [13, 10] ++
        ((trailers.map (fun kv => fieldLine kv ++ CRLF)).flatten ++ (13 :: 10 :: tail))) := by
    simp [encode, CRLF]
  have h0 : ({} : ChunkSt) = ⟨[], .size⟩ := rfl
  rw [e, h0, run_chunks chunks [] _ hc, run_last_chunk _ lastExt _ hl.1 hl.2.1 hl.2.2,
      run_trailers _ _ trailers [] _ ht (by simpa using hn),
      run_trailer_end _ _ _ tail (by have := trailerDict_length [] trailers; simp at this; omega)]
  simp

theorem hset_fresh (h : Hdrs) (k v : Bytes) (hf : ∀ kv ∈ h, lower kv.1 ≠ lower k) : hset h k v = h ++ [(k, v)] := by
  induction h with
  | nil => rfl
  | cons p rest ih =>
    obtain ⟨k', v'⟩ := p
    have h1 : lower k' ≠ lower k := hf (k', v') (by simp)
    unfold hset
    simp [h1, ih (fun kv hkv => hf kv (by simp [hkv]))]

/-- trailer names pairwise different ignoring case -/
def distinctNames : List (Bytes × Bytes) → Prop
  | [] => True
  | kv :: more => (∀ q ∈ more, lower q.1 ≠ lower kv.1) ∧ distinctNames more

theorem trailerDict_distinct (acc ts : List (Bytes × Bytes)) (hd : distinctNames ts)
    (ha : ∀ a ∈ acc, ∀ q ∈ ts, lower a.1 ≠ lower q.1) : trailerDict acc ts = acc ++ ts := by
  induction ts generalizing acc with
  | nil => simp [trailerDict]
  | cons kv more ih =>
    have h1 : hset acc kv.1 kv.2 = acc ++ [kv] := by
      rw [hset_fresh acc kv.1 kv.2 (fun a hacc => ha a hacc kv (by simp))]
    simp only [trailerDict, List.foldl_cons]
    rw [h1]
    have := ih (acc ++ [kv]) hd.2 (by
      intro a hacc q hq
      rcases List.mem_append.mp hacc with h | h
      · exact ha a h q (by simp [hq])
      · simp at h; subst h; exact fun e => hd.1 q hq e.symm)
    simp only [trailerDict] at this
    rw [this]; simp


/-! ### packChunk -/

theorem toHex_length_le : ∀ (k n : Nat), 1 ≤ k → n < 16 ^ k → (toHex n).length ≤ k := by
  intro k
  induction k with
  | zero => intro n h; omega
  | succ k ih =>
    intro n _ hn
    rw [toHex]
    by_cases h : n < 16
    · simp [h]
    · simp only [h, if_false, List.length_append, List.length_cons, List.length_nil]
      have hk : 1 ≤ k := by
        cases k with
        | zero => simp at hn; omega
        | succ k => omega
      have : n / 16 < 16 ^ k := by
        rw [Nat.pow_succ] at hn
        exact Nat.div_lt_of_lt_mul (by omega)
      have := ih (n / 16) hk this
      omega

theorem packChunk_eq_encChunk (p : Bytes) : packChunk p = encChunk (p, []) := by
  simp [packChunk, encChunk, CRLF]

theorem packAll_eq_encode (pieces : List Bytes) : packAll pieces = encode (pieces.map fun p => (p, [])) [] [] := by
  have h0 : packChunk [] = toHex 0 ++ [] ++ CRLF ++ [] ++ CRLF := by simp [packChunk, CRLF]
  have h1 : (pieces.map packChunk) = (pieces.map fun p => (p, ([] : Bytes))).map encChunk := by
    simp [List.map_map, Function.comp_def, packChunk_eq_encChunk]
  unfold packAll encode
  rw [h0, h1]
  simp [CRLF]

end Hio.Http
