import HioModel.Http.Lemmas
import HioModel.Http.Service
/-! lemmas about the service-loop models (core Lean only) -/
namespace Hio.Http
open Hio.Gen.Http

theorem feed_noEsc (st : ReqSt × Bytes) (b : Bytes) (h : st.1.noEsc) : (reqReader.feed st b).1.noEsc :=
  reqReader.run_inv ReqSt.noEsc reqOnLine_noEsc (fun s _ => ReqSt.raise_noEsc s .lineTooLong) reqOnBytes_noEsc (fun _ _ h => h) st.1 _ h

theorem arrive_noEsc (c : SConn) (a : Arrival) (h : c.st.1.noEsc) : (c.arrive a).st.1.noEsc := by
  cases a with
  | nothing => exact h
  | bytes b => exact feed_noEsc c.st b h
  | closed => exact h

theorem settle_ok (hs : List String) (r : ReqMsg → Option Nat) (c : SConn) (h : c.st.1.noEsc) :
    ∃ c', c.settle hs r = .ok c' ∧ c'.st.1.noEsc := by
  unfold SConn.settle
  have hf : (c.flush r).st.1.noEsc := h
  generalize c.flush r = c1 at hf
  simp only
  split
  · rename_i cls hp
    simp [ReqSt.noEsc, ReqSt.escapedCls, hp] at hf
  · exact ⟨_, rfl, hf⟩
  · exact ⟨_, rfl, hf⟩
  · split
    · split
      · exact ⟨_, rfl, hf⟩
      · exact ⟨_, rfl, hf⟩
    · exact ⟨_, rfl, hf⟩

theorem serverConnStep_ok (hs : List String) (r : ReqMsg → Option Nat) (c : SConn) (a : Arrival) (h : c.st.1.noEsc) :
    ∃ c', serverConnStep hs r c a = .ok c' ∧ c'.st.1.noEsc := by
  unfold serverConnStep
  by_cases ha : c.alive = true
  · by_cases hc : c.cutoff = true
    · simp [ha, hc]; exact h
    · simp only [ha, hc, Bool.not_true, Bool.false_eq_true, if_false]
      exact settle_ok hs r _ (arrive_noEsc c a h)
  · simp [ha]; exact h

theorem entryStep_spec (hs : List String) (r : ReqMsg → Option Nat) (p : Entry) (h : p.1.st.1.noEsc) :
    serverConnStep hs r p.1 (p.2.headD .nothing) = .ok (entryStep hs r p).1 ∧ (entryStep hs r p).1.st.1.noEsc ∧
    (entryStep hs r p).2 = p.2.tail := by
  obtain ⟨c', h1, h2⟩ := serverConnStep_ok hs r p.1 (p.2.headD .nothing) h
  unfold entryStep
  rw [h1]
  exact ⟨rfl, h2, rfl⟩

theorem serverCycle_eq (hs : List String) (r : ReqMsg → Option Nat) (t : List Entry) (h : ∀ p ∈ t, p.1.st.1.noEsc) :
    serverCycle hs r t = .ok (t.map (entryStep hs r)) := by
  induction t with
  | nil => rfl
  | cons p rest ih =>
    obtain ⟨c, col⟩ := p
    have hp := entryStep_spec hs r (c, col) (h (c, col) (by simp))
    have ihr := ih (fun q hq => h q (by simp [hq]))
    unfold serverCycle
    simp only at hp
    rw [hp.1, ihr]
    simp only [List.map_cons]
    congr 2
    exact Prod.ext rfl hp.2.2.symm

theorem entryRun_succ (hs : List String) (r : ReqMsg → Option Nat) (n : Nat) (p : Entry) :
    entryRun hs r (n + 1) p = entryRun hs r n (entryStep hs r p) := rfl

theorem serverRun_eq (hs : List String) (r : ReqMsg → Option Nat) (n : Nat) (t : List Entry) (h : ∀ p ∈ t, p.1.st.1.noEsc) :
    serverRun hs r n t = .ok (t.map (entryRun hs r n)) := by
  induction n generalizing t with
  | zero => simp [serverRun, entryRun]
  | succ n ih =>
    unfold serverRun
    rw [serverCycle_eq hs r t h]
    have h' : ∀ p ∈ t.map (entryStep hs r), p.1.st.1.noEsc := by
      intro p hp
      obtain ⟨q, hq, rfl⟩ := List.mem_map.mp hp
      exact (entryStep_spec hs r q (h q hq)).2.1
    simp only
    rw [ih _ h']
    simp [List.map_map, Function.comp_def, entryRun_succ]

theorem respFeed_noEsc (st : RespSt × Bytes) (b : Bytes) (h : st.1.noEsc) : (respReader.feed st b).1.noEsc :=
  respReader.run_inv RespSt.noEsc respOnLine_noEsc (fun s _ => RespSt.raise_noEsc s .lineTooLong) respOnBytes_noEsc
    respOnAll_noEsc st.1 _ h

theorem respFinal_noEsc (st : RespSt × Bytes) (cl : Bool) (h : st.1.noEsc) : (respFinal st cl).1.noEsc := by
  unfold respFinal
  have h2 := respSettle_noEsc _ h
  simp only
  split
  · exact respClose_noEsc _ _ h2
  · exact h2

theorem deliver_ok (rh : List String) (redirect : RespMsg → Except String Unit)
    (hr : ∀ m c, redirect m = .error c → catches rh c = true) (os : List (Outcome RespMsg)) (acc : List (Nat × Bool)) :
    ∃ rs, deliver rh redirect os acc = .ok rs := by
  induction os generalizing acc with
  | nil => exact ⟨acc, rfl⟩
  | cons o more ih =>
    cases o with
    | err e => unfold deliver; exact ih _
    | ok m =>
      unfold deliver
      split
      · exact ih _
      · split
        · split
          · exact ih _
          · rename_i cls hc
            simp only [hr m cls hc, if_true]
            exact ih _
        · exact ih _

theorem carrive_noEsc (c : CConn) (a : Arrival) (h : c.st.1.noEsc) : (c.arrive a).st.1.noEsc := by
  cases a with
  | nothing =>
    show (if c.cutoff then { c with st := respFinal c.st true } else c : CConn).st.1.noEsc
    by_cases hc : c.cutoff = true
    · simp only [hc, if_true]; exact respFinal_noEsc c.st true h
    · simp only [hc]; exact h
  | bytes b => exact respSettle_noEsc _ (respFeed_noEsc c.st b h)
  | closed => exact h

theorem clientStep_ok (ph rh : List String) (redirect : RespMsg → Except String Unit)
    (hr : ∀ m c, redirect m = .error c → catches rh c = true) (c : CConn) (a : Arrival) (h : c.st.1.noEsc) :
    ∃ c', clientStep ph rh redirect c a = .ok c' ∧ c'.st.1.noEsc := by
  unfold clientStep CConn.settle
  have h1 := carrive_noEsc c a h
  generalize c.arrive a = c1 at h1 ⊢
  split
  · rename_i cls hp
    simp [RespSt.noEsc, RespSt.escapedCls, hp] at h1
  · obtain ⟨rs, hrs⟩ := deliver_ok rh redirect hr (c1.st.1.done.drop c1.taken) c1.responses
    rw [hrs]
    exact ⟨_, rfl, h1⟩

theorem clientRun_ok (ph rh : List String) (redirect : RespMsg → Except String Unit)
    (hr : ∀ m c, redirect m = .error c → catches rh c = true) (arr : List Arrival) (c : CConn) (h : c.st.1.noEsc) :
    ∃ c', clientRun ph rh redirect c arr = .ok c' := by
  induction arr generalizing c with
  | nil => exact ⟨c, rfl⟩
  | cons a more ih =>
    obtain ⟨c', h1, h2⟩ := clientStep_ok ph rh redirect hr c a h
    unfold clientRun
    rw [h1]
    exact ih c' h2

end Hio.Http
