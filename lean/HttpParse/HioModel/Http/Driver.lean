import HioModel.Basic.Sexp
import HioModel.Http.Model
import HioModel.Http.Service
open Hio Hio.Sexp Hio.Http

def oBytes (o : Option Bytes) : Sexp := ofOpt ofBytes o
def pHdrs (h : Hdrs) : Sexp := .list (h.map fun kv => .list [ofBytes kv.1, ofBytes kv.2])
def pParms (p : Parms) : Sexp := .list (p.map fun kv => .list [ofBytes kv.1, oBytes kv.2])
def pEvents (es : List Event) : Sexp := .list (es.map fun e => .list [oBytes e.id, ofBytes e.name, ofBytes e.data])

def pReqMsg : Outcome ReqMsg → Sexp
  | .err e => tag "err" [sym e.tag]
  | .ok m => tag "ok" [ofBytes m.method, ofBytes m.url, ofNat m.vminor, pHdrs m.headers, ofBytes m.body,
      ofOpt pHdrs m.trails, ofOpt pParms m.parms, ofBool m.persisted, ofBool m.chunked]

def pRespMsg : Outcome RespMsg → Sexp
  | .err e => tag "err" [sym e.tag]
  | .ok m => tag "ok" [ofNat m.vminor, ofNat m.status, ofBytes m.reason, pHdrs m.headers, ofBytes m.body,
      ofOpt pHdrs m.trails, ofOpt pParms m.parms, ofBool m.persisted, ofBool m.chunked,
      ofOpt ofBool m.evented, ofOpt pEvents m.events, oBytes m.leid, ofNat m.retry]

def reqObs (st : ReqSt × Bytes) : Sexp :=
  let s := st.1
  let tail := match s.phase with
    | .halted => tag "stop" [ofBytes st.2]
    | .failed => tag "closed" []
    | .escaped c => tag "escaped" [sym c]
    | _ => tag "more" [ofBytes st.2]
  .list [.list (s.done.map pReqMsg), tail]

def respLiveBody (s : RespSt) : Bool :=
  match s.phase with
  | .body _ => true | .csize => true | .cdata _ => true | .cend => true | .trailer _ => true | .untilClose => true
  | _ => false

def respObs (st : RespSt × Bytes) : Sexp :=
  let s := st.1
  let tail := match s.phase with
    | .halted => tag "stop" [ofBytes st.2]
    | .failed => tag "closed" []
    | .escaped c => tag "escaped" [sym c]
    | _ => tag "more" [ofBytes st.2]
  let pend := if respLiveBody s && s.isEv then .list [pEvents s.sse.events, oBytes s.curLeid, ofNat s.curRetry] else sym "-"
  .list [.list (s.done.map pRespMsg), tail, pend]

def sseObs (st : SseSt × Bytes) : Sexp :=
  let s := st.1
  .list [pEvents s.events, oBytes s.leid, ofOpt ofNat s.retry,
         if s.dead then sym "LineTooLong" else sym "-", if s.dead then sym "-" else ofBytes st.2]

def chunkObs (st : ChunkSt × Bytes) : Sexp :=
  let s := st.1
  let status := match s.phase with
    | .done => tag "done" [ofBytes st.2]
    | .failed e => tag "err" [sym e.tag]
    | _ => tag "more" [ofBytes st.2]
  .list [.list (s.out.map fun r => .list [ofNat r.size, pParms r.parms, pHdrs r.trails, ofBytes r.data]), status]

def bytesList (xs : List Sexp) : Option (List Bytes) := xs.mapM bytes?

def srvConn (bad : List Bytes) (frags : List Bytes) : ReqSt × Bytes := reqRun bad frags

def isLive (s : ReqSt) : Bool :=
  match s.phase with
  | .halted => false | .failed => false | .escaped _ => false | _ => true

/-- the reads of `data` when cut at the (increasing) offsets -/
def splitAtCuts (data : Bytes) (cuts : List Nat) : List Bytes :=
  let rec go (rest : Bytes) (pos : Nat) : List Nat → List Bytes
    | [] => [rest]
    | c :: cs => rest.take (c - pos) :: go (rest.drop (c - pos)) (max c pos) cs
  go data 0 cuts

def handle1 : Sexp → Sexp
  | .list [.atom "req", .list frags, .list bad] =>
    match bytesList frags, bytesList bad with
    | some fr, some bad =>
      .list [reqObs (reqRun bad fr), reqObs (reqRun bad [fr.flatten])]
    | _, _ => sym "bad-request"
  | .list [.atom "resp", hd, .list frags, cl] =>
    match bool? hd, bytesList frags, bool? cl with
    | some hd, some fr, some cl => .list [respObs (respRun hd fr cl), respObs (respRun hd [fr.flatten] cl)]
    | _, _, _ => sym "bad-request"
  | .list [.atom "respcf", hd, .list frags] =>       -- close signalled before the parse of the last read
    match bool? hd, bytesList frags with
    | some hd, some fr => .list [respObs (respRunCloseFirst hd fr), respObs (respRun hd [fr.flatten] true)]
    | _, _ => sym "bad-request"
  | .list [.atom "respseq", hd, .list streams] =>
    match bool? hd, streams.mapM (fun c => match c with | .list fr => bytesList fr | _ => none) with
    | some hd, some sts =>
      let one (sts : List (List Bytes)) : Sexp :=
        let rs := respSeq ({ head := hd } : RespSt) sts
        let go := rs.foldl (fun (acc : List Sexp × Nat × Bool) (st : RespSt × Bytes) =>
          if acc.2.2 then acc else
          let s := st.1
          let fresh := (s.done.drop acc.2.1).map pRespMsg
          -- events delivered that are not part of an ended ok message: of an errored or still running evented message
          let extra := match s.phase with
            | .failed => if s.isEv then pEvents s.sse.events else .list []
            | _ => if respLiveBody s && s.isEv then pEvents s.sse.events else .list []
          let tail := match s.phase with
            | .escaped c => tag "escaped" [sym c]
            | .halted => tag "idle" [ofBytes st.2, extra]
            | .failed => tag "idle" [sym "-", extra]
            | .status true => if st.2.isEmpty then tag "idle" [ofBytes st.2, extra] else tag "stuck" [ofBytes st.2, extra]
            | _ => tag "stuck" [ofBytes st.2, extra]
          (acc.1 ++ [.list [.list fresh, tail]], s.done.length, match s.phase with | .escaped _ => true | _ => false)) ([], 0, false)
        .list go.1
      .list [one sts, one (sts.map fun fr => [fr.flatten])]
    | _, _ => sym "bad-request"
  | .list [.atom "sses", .list frags] =>
    -- EventSource.parseEventStream: once three bytes are there a leading UTF-8 BOM is taken off, then parseEvents
    match bytesList frags with
    | some fr =>
      let whole := fr.flatten
      let r := if whole.length < 3 then sym "waiting"
        else sseObs (sseReader.run {} (if isPrefix [239, 187, 191] whole then whole.drop 3 else whole))
      .list [r, r]
    | none => sym "bad-request"
  | .list [.atom "sse", .list frags] =>
    match bytesList frags with
    | some fr => .list [sseObs (fr.foldl sseReader.feed ({}, [])), sseObs (sseReader.run {} fr.flatten)]
    | none => sym "bad-request"
  | .list [.atom "chunks", .list frags] =>
    match bytesList frags with
    | some fr => .list [chunkObs (fr.foldl chunkReader.feed ({}, [])), chunkObs (chunkReader.run {} fr.flatten)]
    | none => sym "bad-request"
  | .list [.atom "pack", .list pieces, .list cuts] =>
    match bytesList pieces, cuts.mapM nat? with
    | some ps, some cs =>
      let wire := packAll ps
      let fr := splitAtCuts wire cs
      .list [ofBytes wire, chunkObs (fr.foldl chunkReader.feed ({}, [])), chunkObs (chunkReader.run {} wire)]
    | _, _ => sym "bad-request"
  | .list [.atom "srv", .atom kind, .list conns, .list bad] =>
    match bytesList bad, conns.mapM (fun c => match c with
        | .list [.list fr, cl] => (match bytesList fr, bool? cl with | some f, some c => some (f, c) | _, _ => none)
        | _ => none) with
    | some bad, some cs =>
      -- the service loop model: one table entry per connection, the reads one per cycle, then the close
      let table : List Entry := cs.map (fun fc =>
        (({ st := (({ badUrls := bad } : ReqSt), []) } : SConn), fc.1.map Arrival.bytes ++ (if fc.2 then [Arrival.closed] else [])))
      let n := (table.map (fun e => e.2.length)).foldl max 0 + 3
      let handlers := if kind == "wsgi" then wsgiHandlers else bareHandlers
      match serverRun handlers (fun _ => some 100) n table with
      | .error c => if kind == "wsgi" then .list [sym c, .list []] else .list [sym c]
      | .ok t =>
        if kind == "wsgi" then
          .list [sym "-", .list ((t.zip cs).map fun (e, fc) =>
            let c := e.1
            if fc.2 || fc.1.length > 1 || isInfix (ascii "raise") fc.1.flatten || isInfix (ascii "/httperror") fc.1.flatten
            then .list [sym "-", sym "-"]      -- closing / fragmented / what the application does: not compared
            else if !(isLive c.st.1) || (c.st.1.phase == .start && c.st.2.isEmpty) then .list [ofNat c.answers, ofBool c.alive]
            else .list [sym "-", sym "-"])]
        else .list [sym "-"]
    | _, _ => sym "bad-request"
  | .list [.atom "cli", .list frags, cl] =>
    match bytesList frags, bool? cl with
    | some fr, some cl =>
      let st := respRun false fr cl
      .list [match st.1.phase with | .escaped c => sym c | _ => sym "-"]
    | _, _ => sym "bad-request"
  | _ => sym "bad-request"

/-- `(multi r1 r2 ...)`: several independent requests in one line (independent parser instances); `(echo x)`: x -/
def handle : Sexp → Sexp
  | .list (.atom "multi" :: subs) => .list (subs.map handle1)
  | .list [.atom "echo", x] => x
  | r => handle1 r

def main : IO Unit := serve handle
