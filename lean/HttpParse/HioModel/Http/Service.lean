import HioModel.Http.Model
/-!
# The three HTTP service loops as folds over a connection table

`Server.service` (WSGI), `BareServer.service`, `Client.service`.  One `service()` call = one *cycle*; what the kernel
delivers in a cycle is an input: per connection nothing, some bytes, or "the far side closed".  The per-connection parsing
step is the parser model of `Model.lean` (exceptions as values).  Every `try/except` of the real loops is represented by its
class list, taken from the regenerated table `loopHandlers`; an exception that no handler of the loop catches aborts the
whole `service()` call (`.error cls`): connections later in the table are not served in that cycle and the caller sees the
exception.  Granularity: a connection's parse step consumes what its buffer allows (the real loops take one message per
cycle; the final states agree, which is what the correspondence compares).
-/
namespace Hio.Http
open Hio.Gen.Http

inductive Arrival where
  | nothing
  | bytes (b : Bytes)
  | closed
deriving Repr, DecidableEq

/-- handler classes the source has around `callee` in service loop `loop` (regenerated) -/
def handlersOf (loop callee : String) : List String :=
  (loopHandlers.filter (fun l => l.1 == loop && l.2.1 == callee)).flatMap (·.2.2)

/-! ## server side -/

structure SConn where
  st : ReqSt × Bytes          -- Requestant + the connection's receive buffer
  alive : Bool := true        -- still in the table (not closed by the server)
  cutoff : Bool := false      -- the far side closed
  txq : Nat := 0              -- bytes of responses still queued in ix.txbs
  cap : Option Nat := none    -- bytes the socket takes per service pass (none: everything)
  accounted : Nat := 0        -- outcomes of `st.1.done` whose response has been queued
deriving Repr, DecidableEq

/-- serviceReps + serviceSendsAllIx: the responses of the requests that parsed since the last pass are queued (`app m` is the
size of the response to m), then the socket takes what its capacity allows -/
def SConn.flush (app : ReqMsg → Option Nat) (c : SConn) : SConn :=
  let fresh := (c.st.1.done.drop c.accounted).foldl (fun n o => match o with
    | .ok m => n + (app m).getD 0
    | .err _ => n) 0
  let q := c.txq + fresh
  { c with txq := q - min (c.cap.getD q) q, accounted := c.st.1.done.length }

/-- answers produced: one per request that parsed (the WSGI application / the steward is called once per parsed request) -/
def SConn.answers (c : SConn) : Nat := (c.st.1.done.filter (fun o => match o with | .ok _ => true | _ => false)).length

/-- serviceReceivesAllIx: what arrived is appended to the buffer and parsed (serviceReqs), or the cutoff is noted -/
def SConn.arrive (c : SConn) : Arrival → SConn
  | .nothing => c
  | .bytes b => { c with st := reqReader.feed c.st b }
  | .closed => { c with cutoff := true }

/-- serviceReqs / serviceReps (serviceStewards) on one connection after the parse.
`handlers`: classes caught around `requestant.parse()` in the loop; `app m`: `none` when the responder cannot answer the
request (BareServer's steward decodes the body and splits the url again; a WSGI application may raise when called — the
connection is closed), `some n` = it answers with n bytes (a parameter);
`.error cls` = the exception leaves service() -/
def SConn.settle (handlers : List String) (app : ReqMsg → Option Nat) (c0 : SConn) : Except String SConn :=
  let c1 := c0.flush app
  match c1.st.1.phase with
  | .escaped cls =>
    if catches handlers cls then .ok { c1 with alive := false }   -- except clause of the loop: closeConnection
    else .error cls                                               -- leaves service()
  | .failed => .ok { c1 with alive := false }                     -- errored request: closeConnection (queued bytes dropped)
  | .halted => .ok { c1 with alive := c1.txq != 0 }               -- non persistent: closed once ix.txbs has drained
  | _ =>
    -- a responder that cannot answer the last parsed request closes the connection
    match c1.st.1.done.getLast? with
    | some (.ok m) => if (app m).isSome then .ok c1 else .ok { c1 with alive := false }
    | _ => .ok c1

/-- one connection in one cycle of Server.service / BareServer.service -/
def serverConnStep (handlers : List String) (app : ReqMsg → Option Nat) (c : SConn) (a : Arrival) : Except String SConn :=
  if !c.alive then .ok c
  else if c.cutoff then .ok { c with alive := false }              -- serviceConnects: ix.cutoff -> closeConnection
  else (c.arrive a).settle handlers app

/-- a table entry: the connection and what the kernel will deliver on it, cycle by cycle -/
abbrev Entry := SConn × List Arrival

/-- one service() call over the table (dict order = list order): every connection gets this cycle's arrival; an exception
that leaves a connection's step leaves service() and the connections after it are not served -/
def serverCycle (handlers : List String) (app : ReqMsg → Option Nat) : List Entry → Except String (List Entry)
  | [] => .ok []
  | (c, col) :: rest =>
    match serverConnStep handlers app c (col.headD .nothing) with
    | .error e => .error e
    | .ok c' =>
      match serverCycle handlers app rest with
      | .error e => .error e
      | .ok rest' => .ok ((c', col.tail) :: rest')

/-- n service() calls -/
def serverRun (handlers : List String) (app : ReqMsg → Option Nat) : Nat → List Entry → Except String (List Entry)
  | 0, t => .ok t
  | n + 1, t =>
    match serverCycle handlers app t with
    | .error e => .error e
    | .ok t' => serverRun handlers app n t'

/-- a connection's step when nothing leaves it (the value of `serverConnStep` when it is `.ok`) -/
def entryStep (handlers : List String) (app : ReqMsg → Option Nat) (p : Entry) : Entry :=
  match serverConnStep handlers app p.1 (p.2.headD .nothing) with
  | .ok c' => (c', p.2.tail)
  | .error _ => (p.1, p.2.tail)

/-- the same connection served alone for n cycles -/
def entryRun (handlers : List String) (app : ReqMsg → Option Nat) : Nat → Entry → Entry
  | 0, p => p
  | n + 1, p => entryRun handlers app n (entryStep handlers app p)

def wsgiHandlers : List String := handlersOf "Server.serviceReqs" "parse"
def bareHandlers : List String := handlersOf "BareServer.serviceStewards" "parse"

/-! ## client side -/

structure CConn where
  st : RespSt × Bytes
  responses : List (Nat × Bool) := []   -- (status, errored) delivered through .responses
  taken : Nat := 0                      -- outcomes of `st.1.done` already turned into responses
  cutoff : Bool := false
deriving Repr, DecidableEq

/-- Client.serviceResponse for the outcomes that ended in this cycle: an errored outcome is delivered as errored; a
redirect status with `redirectable` runs redirect(), whose result is a parameter (`.error cls` = it raised cls): a class the
handler around it catches gives an errored response, any other class leaves service() -/
def deliver (redirectHandlers : List String) (redirect : RespMsg → Except String Unit) :
    List (Outcome RespMsg) → List (Nat × Bool) → Except String (List (Nat × Bool))
  | [], acc => .ok acc
  | .err _ :: more, acc => deliver redirectHandlers redirect more (acc ++ [(0, true)])
  | .ok m :: more, acc =>
    if m.evented == some true then deliver redirectHandlers redirect more acc     -- events are the output
    else if redirectStatuses.contains m.status then
      match redirect m with
      | .ok _ => deliver redirectHandlers redirect more acc                        -- followed: no entry yet
      | .error cls =>
        if catches redirectHandlers cls then deliver redirectHandlers redirect more (acc ++ [(m.status, true)])
        else .error cls
    else deliver redirectHandlers redirect more (acc ++ [(m.status, false)])

/-- serviceReceives + respondent.parse(): what arrived is parsed; the far side closing is seen by the parser one cycle
later (Client.service calls respondent.close() at the top of the next pass) -/
def CConn.arrive (c : CConn) : Arrival → CConn
  | .nothing => if c.cutoff then { c with st := respFinal c.st true } else c
  | .bytes b => { c with st := ((respReader.feed c.st b).1.settle, (respReader.feed c.st b).2) }
  | .closed => { c with cutoff := true }

/-- the handler around respondent.parse() and the delivery of what ended -/
def CConn.settle (parseHandlers redirectHandlers : List String) (redirect : RespMsg → Except String Unit) (c1 : CConn) :
    Except String CConn :=
  match c1.st.1.phase with
  | .escaped cls =>
    if catches parseHandlers cls then .ok c1 else .error cls
  | _ =>
    match deliver redirectHandlers redirect (c1.st.1.done.drop c1.taken) c1.responses with
    | .error e => .error e
    | .ok rs => .ok { c1 with responses := rs, taken := c1.st.1.done.length }

def clientStep (parseHandlers redirectHandlers : List String) (redirect : RespMsg → Except String Unit)
    (c : CConn) (a : Arrival) : Except String CConn :=
  (c.arrive a).settle parseHandlers redirectHandlers redirect

def clientRun (parseHandlers redirectHandlers : List String) (redirect : RespMsg → Except String Unit) :
    CConn → List Arrival → Except String CConn
  | c, [] => .ok c
  | c, a :: more =>
    match clientStep parseHandlers redirectHandlers redirect c a with
    | .error e => .error e
    | .ok c' => clientRun parseHandlers redirectHandlers redirect c' more

def clientParseHandlers : List String := handlersOf "Client.serviceResponse" "parse"
def clientRedirectHandlers : List String := handlersOf "Client.serviceResponse" "redirect"

end Hio.Http
